import UrcuVerif.Gp.BpArenaInv
/-!
# C15 (bp part) — automatic registration in the "bulletproof" flavor

"In the bp flavor a thread is registered automatically on first use and removed when it exits,
its reader state never moves while the registry grows beyond its initial capacity, slots of
exited threads are reused, and signals cannot interrupt registration."

Statements only (helper lemmas: `UrcuVerif/Gp/BpArenaInv.lean`).  Models: `UrcuVerif/Gp/BpArena.lean`
(`BpArena.step`: the registry arena, one step per critical section; `BpArena.Sig.step`: one
thread, its signal mask and its handler frames).  Tie: `harness/scen/bp_arena.c` runs the real
`src/urcu-bp.c` (1 … 140 threads, random exits/re-registrations/forks, `mremap` outcome from the
seed, signals raised around every interposed call) and `Driver/BpArena.lean` replays every line
on both `step` functions, comparing slot ids, capacities, used counts, owner of every slot,
registry order, refcount and the order of mask/lock/add/unlock/unmask calls.

All theorems quantify over every reachable state, i.e. over ALL sequences of registrations,
exits, forks and growth outcomes and any number of threads.  The address of a reader is the
pair (chunk position, index): chunks are only appended to `chunk_list`, `mmap` regions do not
overlap and a successful `mremap(…, 0)` does not move (trusted; the harness compares the real
pointers).
-/
namespace UrcuVerif.BpArena
open UrcuVerif.Gen (INIT_READER_COUNT)

/-- runs -/
theorem reach_run {s s' : State} {ops : List Op} {outs : List Out} (h : Reach s)
    (hr : runOps s ops = some (s', outs)) : Reach s' := by
  induction ops generalizing s outs with
  | nil => simp only [runOps, Option.some.injEq, Prod.mk.injEq] at hr; exact hr.1 ▸ h
  | cons op ops ih =>
    simp only [runOps] at hr
    split at hr
    · simp at hr
    · next s1 o h1 =>
      simp only [Option.map_eq_some_iff] at hr
      obtain ⟨⟨s2, os⟩, h2, h3⟩ := hr
      simp only [Prod.mk.injEq] at h3
      obtain ⟨rfl, -⟩ := h3
      exact ih (Reach.step h h1) h2

/-- **slot_stable** (full strength): whatever happens in between – any number of registrations
and exits of other threads, forks by this thread, any number of arena expansions in either growth
mode, library init/exit calls – a registered thread keeps its slot `(k, i)` (hence its address)
and the slot keeps belonging to it, until the thread itself unregisters (or a *different* thread's
fork child prunes it, which happens in another address space). -/
theorem slot_stable {s s' : State} {ops : List Op} {outs : List Out} {t k i : Nat} (h : Reach s)
    (hr : runOps s ops = some (s', outs)) (hl : s.tls t = some (k, i))
    (hno : ∀ op ∈ ops, op ≠ .unregister t ∧ ∀ u, op = .prune u → u = t) :
    s'.tls t = some (k, i) ∧ slotAt s'.chunks k i = some t := by
  have key : s'.tls t = some (k, i) := by
    clear h
    induction ops generalizing s outs with
    | nil => simp only [runOps, Option.some.injEq, Prod.mk.injEq] at hr; exact hr.1 ▸ hl
    | cons op ops ih =>
      simp only [runOps] at hr
      split at hr
      · simp at hr
      · next s1 o h1 =>
        simp only [Option.map_eq_some_iff] at hr
        obtain ⟨⟨s2, os⟩, h2, h3⟩ := hr
        simp only [Prod.mk.injEq] at h3
        obtain ⟨rfl, -⟩ := h3
        have hop := hno op (by simp)
        have := tls_preserved_step h1 hl hop.1 hop.2
        exact ih h2 this (fun op' hm => hno op' (by simp [hm]))
  exact ⟨key, ((inv_reach (reach_run h hr)).tls_slot t k i).mp key⟩

/-- in-place growth only extends the last chunk; a new chunk is appended: the capacity of every
chunk but the last is unchanged by any registration -/
theorem growth_extends_last_only {s s' : State} {t : Nat} {g : Growth} {k i : Nat} {gr : Grew}
    (h : Reach s) (st : step s (.register t g) = some (s', .slot k i gr)) (j : Nat)
    (hj : j + 1 < (caps s.chunks).length) : (caps s'.chunks)[j]? = (caps s.chunks)[j]? := by
  have := register_caps (inv_reach h).wf st
  cases gr with
  | no => simp only at this; rw [this.1]
  | first => simp only at this; rw [this.1] at hj; simp [caps] at hj
  | inPlace =>
    simp only at this
    obtain ⟨l, x, hc, hc', -⟩ := this
    rw [hc] at hj ⊢; rw [hc']
    simp only [List.length_append, List.length_singleton] at hj
    simp [List.getElem?_append, show j < l.length by omega]
  | newChunk =>
    simp only at this
    obtain ⟨l, x, hc, hc', -⟩ := this
    rw [hc] at hj ⊢; rw [hc']
    simp only [List.length_append, List.length_singleton] at hj
    simp [List.getElem?_append, show j < l.length by omega]

/-- **slot_unique**: no two live threads share a slot. -/
theorem slot_unique {s : State} (h : Reach s) {t u k i : Nat} (ht : s.tls t = some (k, i))
    (hu : s.tls u = some (k, i)) : t = u := by
  have I := inv_reach h
  have a := (I.tls_slot t k i).mp ht
  have b := (I.tls_slot u k i).mp hu
  rw [a] at b; exact Option.some.inj b

/-- a thread never owns two slots (it is never registered twice in the arena) -/
theorem thread_has_one_slot {s : State} (h : Reach s) {t k i k' i' : Nat}
    (h1 : slotAt s.chunks k i = some t) (h2 : slotAt s.chunks k' i' = some t) : (k, i) = (k', i') := by
  have I := inv_reach h
  have a := (I.tls_slot t k i).mpr h1
  have b := (I.tls_slot t k' i').mpr h2
  rw [a] at b; exact Option.some.inj b

/-- **expand_only_when_full**: `arena_alloc` expands only when every slot of every chunk is taken. -/
theorem expand_only_when_full {s s' : State} {t : Nat} {g : Growth} {k i : Nat} {gr : Grew}
    (h : Reach s) (st : step s (.register t g) = some (s', .slot k i gr)) (hg : gr ≠ .no) :
    ∀ c ∈ s.chunks, ∀ x ∈ c.slots, x.isSome = true :=
  (register_spec (inv_reach h) st).2.2 hg

/-- **register_first_free**: the slot handed out was free, and it is the first free slot in
(chunk order, index order). -/
theorem register_first_free {s s' : State} {t : Nat} {g : Growth} {k i : Nat}
    (h : Reach s) (st : step s (.register t g) = some (s', .slot k i .no)) :
    slotAt s.chunks k i = none ∧
    ∃ c, s.chunks[k]? = some c ∧ c.slots[i]? = some none ∧
      (∀ j, j < i → ∃ u, c.slots[j]? = some (some u)) ∧
      ∀ k' c', k' < k → s.chunks[k']? = some c' → ∀ x ∈ c'.slots, x.isSome = true :=
  ⟨(register_spec (inv_reach h) st).1, (register_spec (inv_reach h) st).2.1 rfl⟩

/-- **slot_reuse**: as long as some slot `(k0, i0)` is free – e.g. the slot of a thread that has
exited – a registration does not expand the arena and returns a slot at or before `(k0, i0)`. -/
theorem slot_reuse {s s' : State} {t : Nat} {g : Growth} {k i k0 i0 : Nat} {gr : Grew} {c0 : Chunk}
    (h : Reach s) (hc : s.chunks[k0]? = some c0) (hfree : c0.slots[i0]? = some none)
    (st : step s (.register t g) = some (s', .slot k i gr)) :
    gr = .no ∧ (k < k0 ∨ (k = k0 ∧ i ≤ i0)) := by
  have hmem : none ∈ c0.slots := List.mem_of_getElem? hfree
  obtain ⟨-, hno, hfull⟩ := register_spec (inv_reach h) st
  have hgr : gr = .no := by
    cases hg : gr with
    | no => rfl
    | first | inPlace | newChunk =>
      have := hfull (by simp [hg]) c0 (List.mem_of_getElem? hc) none hmem
      simp at this
  refine ⟨hgr, ?_⟩
  obtain ⟨c, hk, -, hbefore, hchunks⟩ := hno hgr
  rcases Nat.lt_trichotomy k k0 with hlt | heq | hgt
  · exact Or.inl hlt
  · right
    refine ⟨heq, ?_⟩
    subst heq
    rw [hk] at hc; cases hc
    apply Nat.le_of_not_lt
    intro hlt
    obtain ⟨u, hu⟩ := hbefore i0 hlt
    rw [hfree] at hu; simp at hu
  · have := hchunks k0 c0 hgt hc none hmem
    simp at this

/-- the slot of an exited thread is free right after the exit (so `slot_reuse` applies to it) -/
theorem freed_slot_is_free {s s' : State} {t k i : Nat} (h : Reach s)
    (st : step s (.unregister t) = some (s', .freed k i)) :
    ∃ c, s'.chunks[k]? = some c ∧ c.slots[i]? = some none := by
  have I := inv_reach h
  simp only [step] at st
  split at st
  · simp at st
  · next k' i' htls =>
    simp only [Option.some.injEq, Prod.mk.injEq, Out.freed.injEq] at st
    obtain ⟨rfl, rfl, rfl⟩ := st
    obtain ⟨c, hk, hi⟩ := slotAt_some_iff.mp ((I.tls_slot t k' i').mp htls)
    have hlt : i' < c.slots.length := (List.getElem?_eq_some_iff.mp hi).1
    refine ⟨{ c with used := c.used - 1, slots := c.slots.set i' none }, ?_, ?_⟩
    · simp [clear, hk]
    · simp [hlt]

/-- **capacity_sequence** (step rule, derived from `expand_arena`): the first chunk has
`INIT_READER_COUNT` slots; every later expansion doubles the capacity of the *last* chunk –
in place when `mremap` succeeds, else as a new chunk appended to the list.  No other operation
changes a capacity. -/
theorem capacity_sequence {s s' : State} {t : Nat} {g : Growth} {k i : Nat} {gr : Grew}
    (h : Reach s) (st : step s (.register t g) = some (s', .slot k i gr)) :
    match gr with
    | .no => caps s'.chunks = caps s.chunks ∧ s'.nexp = s.nexp
    | .first => s.chunks = [] ∧ caps s'.chunks = [INIT_READER_COUNT] ∧ s'.nexp = s.nexp + 1
    | .inPlace => ∃ l x, caps s.chunks = l ++ [x] ∧ caps s'.chunks = l ++ [x * 2] ∧ s'.nexp = s.nexp + 1
    | .newChunk => ∃ l x, caps s.chunks = l ++ [x] ∧ caps s'.chunks = l ++ [x, x * 2] ∧ s'.nexp = s.nexp + 1 :=
  register_caps (inv_reach h).wf st

/-- **capacity_sequence** (closed form, both growth modes, any mix): after `n` expansions since
the chunk list was last empty the last chunk has `INIT_READER_COUNT * 2^(n-1)` slots, every chunk
has `INIT_READER_COUNT * 2^e` slots for some `e < n`, capacities increase strictly along the
list, and the list is empty iff `n = 0`. -/
theorem capacity_closed_form {s : State} (h : Reach s) : CapsOk (caps s.chunks) s.nexp :=
  capsOk_reach h

/-- **used_counts_exact**: `chunk->used` is the number of `alloc` flags set and `readers[]` has
`capacity` elements, for every chunk. -/
theorem used_counts_exact {s : State} (h : Reach s) (c : Chunk) (hc : c ∈ s.chunks) :
    c.used = c.slots.countP (·.isSome) ∧ c.slots.length = c.cap :=
  ⟨((inv_reach h).wf c hc).used, ((inv_reach h).wf c hc).len⟩

/-- **registry_matches_alloc**: the registry list has no duplicates and contains exactly the
allocated slots. -/
theorem registry_matches_alloc {s : State} (h : Reach s) :
    s.registry.Nodup ∧ ∀ k i, (k, i) ∈ s.registry ↔ (slotAt s.chunks k i).isSome = true :=
  ⟨(inv_reach h).reg_nodup, (inv_reach h).reg_iff⟩

/-- the TLS reader pointer of a thread and the owner recorded in the slot agree, both ways -/
theorem tls_matches_slot {s : State} (h : Reach s) (t k i : Nat) :
    s.tls t = some (k, i) ↔ slotAt s.chunks k i = some t :=
  (inv_reach h).tls_slot t k i

/-- `arena_alloc` never returns NULL (so `add_thread` never aborts): a thread without a reader
can always be registered, in either growth mode. -/
theorem registration_never_fails {s : State} (h : Reach s) (t : Nat) (g : Growth)
    (ht : s.tls t = none) (hg : s.registry.length < s.refcount) :
    ∃ s' k i gr, step s (.register t g) = some (s', .slot k i gr) :=
  register_never_fails h t g ht hg

/-- **exit_unregisters**: the exit notifier releases exactly the exiting thread's slot: its TLS
pointer is NULL, no slot carries its tid, the slot is not in the registry, and every other
thread is untouched. -/
theorem exit_unregisters {s s' : State} {t : Nat} {out : Out} (h : Reach s)
    (st : step s (.unregister t) = some (s', out)) :
    ∃ k i, s.tls t = some (k, i) ∧ out = .freed k i ∧ s'.tls t = none ∧
      slotAt s'.chunks k i = none ∧ (k, i) ∉ s'.registry ∧
      (∀ k' i', slotAt s'.chunks k' i' ≠ some t) ∧
      (∀ u, u ≠ t → s'.tls u = s.tls u) ∧
      (∀ k' i', (k', i') ≠ (k, i) → slotAt s'.chunks k' i' = slotAt s.chunks k' i') := by
  have I' := inv_reach (Reach.step h st)
  simp only [step] at st
  split at st
  · simp at st
  · next k i htls =>
    simp only [Option.some.injEq, Prod.mk.injEq] at st
    obtain ⟨rfl, rfl⟩ := st
    have hnone : slotAt (clear s.chunks k i) k i = none := by simp [slotAt_clear]
    refine ⟨k, i, htls, rfl, by simp [upd], hnone, ?_, ?_, ?_, ?_⟩
    · intro hm
      have := (I'.reg_iff k i).mp hm
      simp only at this
      rw [hnone] at this; simp at this
    · intro k' i' hx
      have := (I'.tls_slot t k' i').mpr hx
      simp [upd] at this
    · intro u hu; simp [upd, hu]
    · intro k' i' hne
      rw [slotAt_clear]
      have : ¬ (k' = k ∧ i' = i) := fun hc => hne (by rw [hc.1, hc.2])
      simp [this]

/-- a registered thread can always exit -/
theorem exit_enabled {s : State} {t k i : Nat} (hl : s.tls t = some (k, i)) :
    ∃ s', step s (.unregister t) = some (s', .freed k i) := by
  simp [step, hl]

/-- **prune_keeps_only_forking_thread**: after `urcu_bp_after_fork_child()` run by thread `t`,
every allocated slot belongs to `t`, the registry is exactly `t`'s slot (or empty if `t` was not
registered), `t`'s own registration is untouched and no capacity changes. -/
theorem prune_keeps_only_forking_thread {s s' : State} {t : Nat} {out : Out} (h : Reach s)
    (st : step s (.prune t) = some (s', out)) :
    (∀ k i u, slotAt s'.chunks k i = some u → u = t) ∧
    s'.tls t = s.tls t ∧ (∀ u, u ≠ t → s'.tls u = none) ∧
    s'.registry = (match s.tls t with | some sl => [sl] | none => []) ∧
    caps s'.chunks = caps s.chunks := by
  have I := inv_reach h
  have I' := inv_reach (Reach.step h st)
  simp only [step, Option.some.injEq, Prod.mk.injEq] at st
  obtain ⟨rfl, -⟩ := st
  have hslots : ∀ k i u, slotAt (s.chunks.map (pruneChunk t)) k i = some u → u = t := by
    intro k i u hx
    rw [slotAt_prune] at hx
    split at hx
    · exact (Option.some.inj hx).symm
    · simp at hx
  refine ⟨hslots, by simp, fun u hu => by simp [hu], ?_, caps_prune _ _⟩
  have hmem : ∀ k i, (k, i) ∈ (s.registry.filter fun (x : Nat × Nat) => slotAt s.chunks x.1 x.2 == some t) ↔
      s.tls t = some (k, i) := by
    intro k i
    have := I'.reg_iff k i
    simp only at this
    rw [this, slotAt_prune, I.tls_slot t k i]
    by_cases hx : slotAt s.chunks k i = some t <;> simp [hx]
  simp only
  cases htls : s.tls t with
  | none =>
    apply List.eq_nil_iff_forall_not_mem.mpr
    rintro ⟨k, i⟩ hm
    have := (hmem k i).mp hm
    rw [htls] at this; simp at this
  | some sl =>
    apply eq_singleton_of_nodup I'.reg_nodup
    rintro ⟨k, i⟩
    rw [hmem k i, htls]
    constructor
    · intro hx; exact (Option.some.inj hx).symm
    · intro hx; rw [hx]

/-- the chunks are unmapped only when no thread is registered -/
theorem unmap_only_when_empty {s s' : State} (st : step s .libExit = some (s', .unit true)) :
    s.registry = [] ∧ s'.chunks = [] := by
  simp only [step] at st
  split at st
  · next hg =>
    split at st
    · next hz =>
      simp only [Option.some.injEq, Prod.mk.injEq] at st
      obtain ⟨rfl, -⟩ := st
      exact ⟨List.eq_nil_of_length_eq_zero (by omega), rfl⟩
    · simp at st
  · simp at st

/-- **find_chunk_correct**: with non-overlapping chunk mappings, `find_chunk(&chunk_k->readers[i])`
returns chunk `k` for every valid index `i` – including in a chunk that has just been extended in
place (`layout` then carries the doubled capacity) – so `cleanup_thread` updates the `used` count
of the chunk that really contains the reader. -/
theorem find_chunk_correct (sz : Nat) (hsz : 0 < sz) (layout : List (Nat × Nat))
    (hd : layout.Pairwise (Disj sz)) (k base cap i : Nat)
    (hk : layout[k]? = some (base, cap)) (hi : i < cap) :
    findChunk sz layout (base + i * sz) 0 = some k := by
  simpa using findChunk_correct_aux sz hsz layout hd 0 k base cap i hk hi

example : findChunk 256 [(4096, 8), (20480, 16)] (20480 + 15 * 256) 0 = some 1 := by decide
example : findChunk 256 [(4096, 8), (20480, 16)] (4096 + 8 * 256) 0 = none := by decide

/-! ### non-vacuity: concrete runs (outputs computed by `step`) -/

def regs (ts : List Nat) (g : Growth) : List Op := ts.map fun t => Op.register t g
def inits (n : Nat) : List Op := List.replicate n .libInit

/-- nine threads, `mremap` fails: a second chunk of 16 is appended; the ninth gets slot (1,0) -/
example : ((runOps init (inits 10 ++ regs [1,2,3,4,5,6,7,8,9] .newChunk)).map (·.2.drop 10)) =
    some [.slot 0 0 .first, .slot 0 1 .no, .slot 0 2 .no, .slot 0 3 .no, .slot 0 4 .no, .slot 0 5 .no,
          .slot 0 6 .no, .slot 0 7 .no, .slot 1 0 .newChunk] := by decide

/-- nine threads, `mremap` succeeds: the only chunk grows to 16; the ninth gets slot (0,8) -/
example : ((runOps init (inits 10 ++ regs [1,2,3,4,5,6,7,8,9] .inPlace)).map (·.2.drop 17)) =
    some [.slot 0 7 .no, .slot 0 8 .inPlace] := by decide

/-- capacities 8, 16, 32 with 25 threads and failing `mremap`; with mixed outcomes 8 → 16 in
place, then a new chunk of 32 -/
example : ((runOps init (inits 30 ++ regs (List.range 25) .newChunk)).map fun r => caps r.1.chunks) =
    some [8, 16, 32] := by decide
example : ((runOps init (inits 30 ++ regs (List.range 16) .inPlace ++ regs [16] .newChunk)).map
    fun r => (caps r.1.chunks, r.1.nexp)) = some ([16, 32], 3) := by decide

/-- reuse before growth: thread 3 exits from a full first chunk, thread 9 gets its slot (0,2)
without expansion; the next registration expands -/
example : ((runOps init (inits 12 ++ regs [1,2,3,4,5,6,7,8] .newChunk ++
      [.unregister 3, .libExit, .libInit, .register 9 .newChunk, .libInit, .register 10 .newChunk])).map
      (·.2.drop 20)) =
    some [.freed 0 2, .unit false, .unit false, .slot 0 2 .no, .unit false, .slot 1 0 .newChunk] := by decide

/-- fork child run by thread 2: the two other registry entries are pruned -/
example : ((runOps init (inits 4 ++ regs [1,2,3] .inPlace ++ [.prune 2])).map
      fun r => (r.2.drop 7, r.1.registry)) = some ([.pruned 2], [(0, 1)]) := by decide

/-- the last reference unmaps the chunks; the next registration starts again with 8 slots -/
example : ((runOps init [.libInit, .libInit, .register 1 .inPlace, .unregister 1, .libExit, .libExit,
      .libInit, .register 2 .inPlace]).map (·.2)) =
    some [.unit false, .unit false, .slot 0 0 .first, .freed 0 0, .unit false, .unit true, .unit false,
          .slot 0 0 .first] := by decide

/-- a registered thread cannot be registered again (the model's `register` is `add_thread`, which
the re-check of `urcu_bp_register` guards – see `Sig`) -/
example : runOps init [.libInit, .libInit, .register 1 .inPlace, .register 1 .inPlace] = none := by
  decide

namespace Sig

/-- **registration_signal_atomic** (full strength): in every reachable state of the code,
(1) signals are blocked exactly while the running frame is between `pthread_sigmask(SIG_BLOCK)`
and its restoration – on the registration path and on the exit path, the latter including
`urcu_bp_exit()` –, (2) a signal can be delivered only outside that window, so (3) no interrupted
frame is ever inside it: nothing runs between the mask and the restoration except the
registration / unregistration itself. -/
theorem registration_signal_atomic {s : State} (h : Reach real s) :
    s.blocked = s.top.inWindow ∧
    (∀ s', step real s .signal = some s' → s.top.inWindow = false) ∧
    (∀ p ∈ s.below, p.inWindow = false) := by
  have I := inv_reach h
  refine ⟨I.blk, ?_, I.bel_win⟩
  intro s' st
  simp only [step] at st
  split at st
  · simp at st
  · next hb => rw [← I.blk]; simpa using hb

/-- **never_registered_twice**: the thread has at most one registry node, and exactly one iff its
TLS reader pointer is set; `add_thread` runs only with the TLS pointer NULL – a registration done
by a handler that ran before the mask was seen by the re-check. -/
theorem never_registered_twice {s : State} (h : Reach real s) :
    s.regs ≤ 1 ∧ (s.regs = 1 ↔ s.tls = true) ∧ (s.top = .add → s.tls = false) := by
  have I := inv_reach h
  refine ⟨?_, ?_, fun ht => I.pre_add (by rw [ht]; rfl)⟩
  · rw [I.regs]; cases s.tls <;> simp
  · rw [I.regs]; cases s.tls <;> simp

/-- `rcu_registry_lock` is never requested by a thread that holds it. -/
theorem registry_lock_never_self_deadlocks {s : State} (h : Reach real s)
    (hp : s.top = .lock ∨ s.top = .xlock) : s.regHeld = false := by
  have I := inv_reach h
  rw [I.regH]; rcases hp with hp | hp <;> rw [hp] <;> rfl

/-- `init_lock` is never requested by a thread that holds it (true since 760a93b). -/
theorem init_lock_never_self_deadlocks {s : State} (h : Reach real s)
    (hp : s.top = .initLock ∨ s.top = .xinitLock) : s.initHeld = false := by
  have I := inv_reach h
  rw [I.initH]
  have hb : s.below.any Pc.holdsInit = false := by
    apply Bool.eq_false_iff.mpr
    intro hc
    obtain ⟨p, hp', hh⟩ := List.any_eq_true.mp hc
    have hw := I.bel_win p hp'
    cases p <;> simp [Pc.holdsInit, Pc.inWindow] at hh hw
  rw [hb]; rcases hp with hp | hp <;> rw [hp] <;> rfl

/-- the read-side section always finds a reader: no NULL dereference after the registration path -/
theorem section_has_reader {s : State} (h : Reach real s) (hp : s.top = .cs) : s.tls = true :=
  (inv_reach h).post_add (by rw [hp]; rfl)

/-- The full "signals cannot hurt registration" statement: no frame is ever stuck (no
self-deadlock on either mutex, no NULL reader in a section); a `run` is disabled only when the
thread is idle. -/
def signal_safe_full (c : Cfg) : Prop :=
  ∀ s, Reach c s → step c s .run = none → s.top = .idle ∧ s.below = []

/-- **signal_safe**: `signal_safe_full` holds for the code as it is. -/
theorem signal_safe : signal_safe_full real := by
  intro s h hs
  have hreg := registry_lock_never_self_deadlocks h
  have hini := init_lock_never_self_deadlocks h
  have hcs := section_has_reader h
  rcases s with ⟨top, below, blocked, tls, regs, regHeld, initHeld, refs⟩
  cases top <;>
    simp only [step, real, Bool.false_eq_true, ↓reduceIte, false_and, false_or, true_and, not_false_eq_true] at hs <;>
    (try (simp at hs; done))
  case idle =>
    cases below with
    | nil => exact ⟨rfl, rfl⟩
    | cons p r => simp at hs
  case initLock => have := hini (Or.inl rfl); simp only at this; subst this; simp at hs
  case xinitLock => have := hini (Or.inr rfl); simp only at this; subst this; simp at hs
  case lock => have := hreg (Or.inl rfl); simp only at this; subst this; simp at hs
  case xlock => have := hreg (Or.inr rfl); simp only at this; subst this; simp at hs
  case cs => have := hcs rfl; simp only at this; subst this; simp at hs

/-! #### the code before 760a93b: the finding, kept as the Lean record -/

set_option linter.unusedSimpArgs false in
/-- In the unfixed order the only way a frame can be stuck is a handler waiting in
`_urcu_bp_init()` for `init_lock` while the interrupted normal code holds it inside
`urcu_bp_exit()` (entered from the exit notifier *after* the mask was restored). -/
theorem stuck_only_on_init_lock_unfixed {s : State} (h : Reach unfixed s) (hs : step unfixed s .run = none) :
    (s.top = .idle ∧ s.below = []) ∨
    (s.top = .initLock ∧ s.initHeld = true ∧ (.xdec ∈ s.below ∨ .xinitUnlock ∈ s.below)) := by
  have I := Unfixed.inv_reach h
  obtain ⟨h1, h2, h3, h4, h5, h6, h7, h8, h9, h10, h11, h12, h13⟩ := I
  rcases s with ⟨top, below, blocked, tls, regs, regHeld, initHeld, refs⟩
  cases top <;>
    simp only [step, unfixed, Bool.false_eq_true, ↓reduceIte, false_and, false_or, or_false, and_false, true_and,
      not_false_eq_true] at hs <;>
    (try (simp at hs; done))
  case idle =>
    left
    cases below with
    | nil => exact ⟨rfl, rfl⟩
    | cons p r => simp at hs
  case initLock =>
    right
    have hi : initHeld = true := by
      cases initHeld with
      | true => rfl
      | false => simp at hs
    subst hi
    refine ⟨rfl, rfl, ?_⟩
    simp only at h4 h2 ⊢
    have : below.any Pc.holdsInit = true := by simpa [Pc.holdsInit] using h4.symm
    obtain ⟨p, hp, hh⟩ := List.any_eq_true.mp this
    have hw := h2 p hp
    cases p <;> simp [Pc.holdsInit, Pc.inWindowUnfixed] at hh hw
    · exact Or.inl hp
    · exact Or.inr hp
  case lock =>
    exfalso
    simp only at h3
    cases regHeld with
    | true => simp [Pc.holdsReg] at h3
    | false => simp at hs
  case cs =>
    exfalso
    have := h8 rfl
    simp only at this
    subst this
    simp at hs
  case xlock =>
    exfalso
    simp only at h3
    cases regHeld with
    | true => simp [Pc.holdsReg] at h3
    | false => simp at hs
  case xinitLock =>
    exfalso
    have hb := h11 rfl
    simp only at hb h4
    subst hb
    cases initHeld with
    | true => simp [Pc.holdsInit] at h4
    | false => simp at hs

def deadlockRun : List Lbl :=
  [.readLock] ++ List.replicate 11 .run ++ [.exit] ++ List.replicate 6 .run ++ [.signal] ++ List.replicate 3 .run

/-- **FINDING (repaired in /repo by 760a93b)**: with the mask restored before `urcu_bp_exit()`, a
signal delivered while the exit notifier holds `init_lock` whose handler executes
`urcu_bp_read_lock()` re-registers the thread and self-deadlocks on `init_lock`.  The harness
reproduces exactly this run against the unfixed source (`bp_arena dl 0`). -/
theorem signal_safe_full_false_unfixed : ¬ signal_safe_full unfixed := by
  intro h
  have hr : runLbls unfixed init deadlockRun =
      some { top := .initLock, below := [.xdec], blocked := true, tls := false, regs := 0,
             regHeld := false, initHeld := true, refs := 1 } := by decide
  have := h _ (reach_of_run Reach.init hr) (by decide)
  simp at this

/-- the same schedule is impossible in the code as it is: the signal is not deliverable there -/
example : runLbls real init deadlockRun = none := by decide

/-! #### the re-check and the mask order are necessary (mutants of the model) -/

/-- without the re-check after blocking signals a handler that ran between the NULL test in
`rcu_read_lock()` and the mask makes the thread register twice -/
theorem norecheck_registers_twice :
    ∃ s, Reach { recheck := false } s ∧ s.regs = 2 := by
  refine ⟨_, reach_of_run_get { recheck := false }
    ([.readLock, .run, .signal] ++ List.replicate 11 .run ++ List.replicate 9 .run) (by decide), ?_⟩
  decide

/-- restoring the mask before releasing `rcu_registry_lock` lets a handler run while the lock is
held: after the removal on the exit path the handler registers again and waits for the lock its
own thread holds -/
theorem unmask_early_self_deadlocks :
    ∃ s, Reach { unmaskEarly := true } s ∧ s.top = .lock ∧ s.regHeld = true ∧
      step { unmaskEarly := true } s .run = none := by
  refine ⟨_, reach_of_run_get { unmaskEarly := true }
    ([.readLock] ++ List.replicate 11 .run ++ [.exit] ++ List.replicate 4 .run ++ [.signal] ++
      List.replicate 6 .run) (by decide), ?_⟩
  decide

/-! #### non-vacuity -/

/-- the window the re-check exists for: a handler runs between the NULL test and the mask,
registers the thread; the interrupted frame's re-check sees it and does not register again -/
example : (runLbls real init ([.readLock, .run, .signal] ++ List.replicate 12 .run ++ List.replicate 4 .run)).map
    (fun s => (s.top, s.regs, s.tls, s.refs)) = some (.idle, 1, true, 1) := by decide

/-- a signal cannot be delivered inside the registration window … -/
example : (runLbls real init [.readLock, .run, .run, .signal]) = none := by decide
/-- … nor anywhere between the exit path's mask and its restoration (7 calls later) -/
example : ∀ n ∈ [1, 2, 3, 4, 5, 6, 7],
    runLbls real init ([.readLock] ++ List.replicate 11 .run ++ [.exit] ++ List.replicate n .run ++ [.signal]) = none := by
  decide
example : (runLbls real init ([.readLock] ++ List.replicate 11 .run ++ [.exit] ++ List.replicate 8 .run ++ [.signal])).isSome := by
  decide

/-- register, exit, register again: one registry node at a time -/
example : (runLbls real init ([.readLock] ++ List.replicate 11 .run ++ [.exit] ++ List.replicate 8 .run ++
    [.readLock] ++ List.replicate 11 .run)).map (fun s => (s.top, s.regs, s.refs)) = some (.idle, 1, 1) := by
  decide

end Sig
end UrcuVerif.BpArena
