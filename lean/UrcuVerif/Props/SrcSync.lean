import UrcuVerif.Src.SyncFull
import UrcuVerif.Src.SyncQScan
/-!
# Source refinement, grace-period updater side (memb / mb): final statements

"The generated source IR of `urcu_common_reader_state`, `smp_mb_master`, `wait_gp` and `wait_for_readers` (values of
`Gen/Src.lean`, regenerated from the C text of /repo on every run) refines, thread-locally, the updater of
`Gp/Flip.lean`", relative to the **list-oracle discipline** (the registry lists are not modelled by the IR: `cds_list_*`
are external events answered by the oracle).  Definitions, the discipline, the abstracted-away events: header of
`Src/SyncRefine.lean`; the local automaton `lstep` and its relation to the real `Gp.step`: `Src/SyncLocal.lean`
(re-exported at the end of this file).

Each `<f>_refines` reads: for every `fuel`, oracle `inp`, environment schedule `wins` and every `.ok` run of the generated
function from an environment / checker state satisfying the stated precondition, the checker's verdict on `out.events`
(a prefix of the call's events when the oracle runs out) is never `.bad`; when it is `.ok labs ss' wins'` (i.e. the oracle
kept the discipline) `labs` is a run of the local automaton from `ss.ls` to `ss'.ls` carrying the observed values, and the
postcondition holds (completed `wait_for_readers`: the abstract input list is empty, same pc and phase).
-/
set_option maxRecDepth 16384
namespace UrcuVerif.Props.SrcSync
open UrcuVerif UrcuVerif.Src UrcuVerif.Src.Sync

/-! ## `urcu_common_reader_state` -/

/-- one relaxed load of `*ctr`; the answer is INACTIVE (2) / ACTIVE_CURRENT (0) / ACTIVE_OLD (1) exactly as L2's scan
guards on the loaded word `(nest, ph) = decW w` and the phase `g` of `gp->ctr` say -/
theorem urcu_common_reader_state_refines (fuel : Nat) (env : Env) (G C : Loc) (g : Bool) (w : Int) (rest : List Val)
    (hgp : env.vars "gp" = some (.ptr G)) (hc : env.vars "ctr" = some (.ptr C))
    (hp : env.priv (.field G "ctr") = some (.int (encGp g))) (hw : 0 ≤ w) :
    (∃ out, exec fuel Gen.Src.«urcu_common_reader_state» env (.int w :: rest) = .ok out ∧
      out.events = [.ld C (.int w) 0] ∧ out.ctl = .ret (some (.int (cls g w))) ∧ out.inp = rest ∧
      out.env.priv = env.priv) ∧
    (∃ out, exec fuel Gen.Src.«urcu_common_reader_state» env [] = .ok out ∧ out.events = [] ∧ out.ctl = .blocked) ∧
    (cls g w = 2 ↔ (decW w).1 = 0) ∧ (cls g w = 0 ↔ 0 < (decW w).1 ∧ (decW w).2 = g) ∧
    (cls g w = 1 ↔ 0 < (decW w).1 ∧ (decW w).2 ≠ g) :=
  ⟨reader_state_exec fuel env G C g w rest hgp hc hp hw, reader_state_blocked fuel env C hc,
    cls_inactive g w, cls_current g w, cls_old g w⟩

/-- in the checker: the load is `uScan1Inactive j` iff `nest = 0`, `uScan1Current j` iff `0 < nest ∧ ph = gp`, silent
otherwise (pass 1); `uScan2 j` iff `nest = 0 ∨ ph = gp` (pass 2) -/
example (trk ls j w) (hw : 0 ≤ w) (h1 : ls.upc = .p1) :
    absEv trk ⟨ls, none⟩ (.ld (.field (.obj j) "ctr") (.int w) 0) =
      if (decW w).1 = 0 then .step [.uScan1Inactive j (decW w)] (some (j, false))
      else if (decW w).2 = ls.gp then .step [.uScan1Current j (decW w)] (some (j, true)) else .step [] none := by
  have : ¬ w < 0 := by omega
  simp [absEv, h1, this]

/-! ## `smp_mb_master`, `wait_gp` -/

theorem memb_smp_mb_master_refines (trk : Bool) : MasterSpec trk Gen.Src.«memb.smp_mb_master» MembPre :=
  memb_master_spec trk
theorem mb_smp_mb_master_refines (trk : Bool) : MasterSpec trk Gen.Src.«mb.smp_mb_master» (fun _ => True) :=
  mb_master_spec trk
theorem memb_wait_gp_refines (trk : Bool) : WaitGpSpec trk Gen.Src.«memb.wait_gp» MembPre := memb_wg_spec trk
theorem mb_wait_gp_refines (trk : Bool) : WaitGpSpec trk Gen.Src.«mb.wait_gp» (fun _ => True) := mb_wg_spec trk

/-! ## `wait_for_readers` -/

theorem memb_wait_for_readers_refines (trk : Bool) (fuel : Nat) (hd : Loc) (csv gv : Val) (g : Bool) (upc : Gp.UPc)
    (env : Env) (inp : List Val) (ss : SS) (wins : Wins) (out : Out)
    (hP : WfrPre (membCtx hd csv gv g upc) env ss)
    (h : exec fuel Gen.Src.«memb.wait_for_readers» env inp = .ok out) :
    absRun trk ss wins out.events ≠ .bad ∧
    ∀ labs ss' wins', absRun trk ss wins out.events = .ok labs ss' wins' →
      lrun ss.ls labs = some ss'.ls ∧ WfrPost (membCtx hd csv gv g upc) out.ctl out.env ss' wins' := by
  have := (Ok_iff _ _ _ _ _).1 (memb_wfr_holds trk fuel hd csv gv g upc env inp ss wins hP out h)
  exact ⟨this.1, fun labs ss' wins' ha => ⟨absRun_lrun _ _ _ _ _ _ _ ha, this.2 labs ss' wins' ha⟩⟩

theorem mb_wait_for_readers_refines (trk : Bool) (fuel : Nat) (hd : Loc) (csv gv : Val) (g : Bool) (upc : Gp.UPc)
    (env : Env) (inp : List Val) (ss : SS) (wins : Wins) (out : Out)
    (hP : WfrPre (mbCtx hd csv gv g upc) env ss)
    (h : exec fuel Gen.Src.«mb.wait_for_readers» env inp = .ok out) :
    absRun trk ss wins out.events ≠ .bad ∧
    ∀ labs ss' wins', absRun trk ss wins out.events = .ok labs ss' wins' →
      lrun ss.ls labs = some ss'.ls ∧ WfrPost (mbCtx hd csv gv g upc) out.ctl out.env ss' wins' := by
  have := (Ok_iff _ _ _ _ _).1 (mb_wfr_holds trk fuel hd csv gv g upc env inp ss wins hP out h)
  exact ⟨this.1, fun labs ss' wins' ha => ⟨absRun_lrun _ _ _ _ _ _ _ ha, this.2 labs ss' wins' ha⟩⟩

/-! ## `synchronize_rcu`

Precondition `PI`: the updater automaton is at pc `idle` with phase `g`, no move pending, `rcu_gp.ctr = URCU_GP_COUNT + phase g`
in the private view, the configuration globals set (memb).  ASSUMED (`QueueQuiet`): the five wait-queue call statements are
silent for the Flip checker (their refinement belongs to the wait-queue / wfstack components).  Conclusion: the events are
accepted – lock order `rcu_gp_lock` → `rcu_registry_lock` (window), `cds_list_empty(&registry)` ↦ `uStartEmpty` / `uStart`,
then master barrier `uMbarRet` → pass 1 → `uFlip` → pass 2 → splice `uP2Done` → master barrier `uEnd` – and a completed
call (leader: `normal`, non-leader: `return`) leaves the automaton at pc `idle`. -/

theorem memb_synchronize_rcu_refines (trk : Bool) (fuel : Nat) (hq : QueueQuiet trk MembPre) (g : Bool) (env : Env)
    (inp : List Val) (ss : SS) (wins : Wins) (out : Out) (hI : PI MembPre g (fun _ => True) env ss)
    (h : exec fuel Gen.Src.«memb.synchronize_rcu» env inp = .ok out) :
    absRun trk ss wins out.events ≠ .bad ∧
    ∀ labs ss' wins', absRun trk ss wins out.events = .ok labs ss' wins' →
      lrun ss.ls labs = some ss'.ls ∧ SyncPost out.ctl out.env ss' wins' := by
  have := (Ok_iff _ _ _ _ _).1 (memb_sync_holds trk fuel hq g env inp ss wins hI out h)
  exact ⟨this.1, fun labs ss' wins' ha => ⟨absRun_lrun _ _ _ _ _ _ _ ha, this.2 labs ss' wins' ha⟩⟩

theorem mb_synchronize_rcu_refines (trk : Bool) (fuel : Nat) (hq : QueueQuiet trk (fun _ => True)) (g : Bool) (env : Env)
    (inp : List Val) (ss : SS) (wins : Wins) (out : Out) (hI : PI (fun _ => True) g (fun _ => True) env ss)
    (h : exec fuel Gen.Src.«mb.synchronize_rcu» env inp = .ok out) :
    absRun trk ss wins out.events ≠ .bad ∧
    ∀ labs ss' wins', absRun trk ss wins out.events = .ok labs ss' wins' →
      lrun ss.ls labs = some ss'.ls ∧ SyncPost out.ctl out.env ss' wins' := by
  have := (Ok_iff _ _ _ _ _).1 (mb_sync_holds trk fuel hq g env inp ss wins hI out h)
  exact ⟨this.1, fun labs ss' wins' ha => ⟨absRun_lrun _ _ _ _ _ _ _ ha, this.2 labs ss' wins' ha⟩⟩

/-! ### without the `QueueQuiet` assumption: the pointer discipline

`RetSafe e`: the value the event returned to the thread (the oracle value it consumed) is an integer or a pointer to a *safe*
location (`SafeLoc`: no `->ctr` in the access path, not rooted at `rcu_gp` or a membarrier configuration global – i.e. never
`&rcu_gp.ctr`, `&rcu_gp.futex`, a reader word or a configuration global; wait nodes, wait queues, registry records are safe).
`PrivSafe` (inside `MPreS`): the thread's private view holds safe values at safe locations.  Under that discipline the five
wait-queue callees (generated bodies of `urcu_wait_add`/`_cds_wfs_push`, `urcu_adaptative_busy_wait`, `urcu_wait_set_state`,
`urcu_move_waiters`/`___cds_wfs_pop_all`, `urcu_wake_all_waiters`/`_cds_wfs_first`/`_cds_wfs_next_blocking`/
`urcu_adaptative_wake_up`) are proved silent for the Flip checker by a generic pointer-safety theorem (`exec_safe`) and a
syntactic check of the generated bodies (`okStmt … = true := by decide`). -/

theorem memb_synchronize_rcu_refines_full (trk : Bool) (fuel : Nat) (g : Bool) (env : Env)
    (inp : List Val) (ss : SS) (wins : Wins) (out : Out) (hI : PI (MPreS MembPre) g (fun _ => True) env ss)
    (h : exec fuel Gen.Src.«memb.synchronize_rcu» env inp = .ok out) (hd : ∀ e ∈ out.events, RetSafe e = true) :
    absRun trk ss wins out.events ≠ .bad ∧
    ∀ labs ss' wins', absRun trk ss wins out.events = .ok labs ss' wins' →
      lrun ss.ls labs = some ss'.ls ∧ SyncPost out.ctl out.env ss' wins' := by
  have := (Ok_iff _ _ _ _ _).1 (memb_sync_holdsS trk fuel g env inp ss wins hI out h hd)
  exact ⟨this.1, fun labs ss' wins' ha => ⟨absRun_lrun _ _ _ _ _ _ _ ha, this.2 labs ss' wins' ha⟩⟩

theorem mb_synchronize_rcu_refines_full (trk : Bool) (fuel : Nat) (g : Bool) (env : Env)
    (inp : List Val) (ss : SS) (wins : Wins) (out : Out) (hI : PI (MPreS (fun _ => True)) g (fun _ => True) env ss)
    (h : exec fuel Gen.Src.«mb.synchronize_rcu» env inp = .ok out) (hd : ∀ e ∈ out.events, RetSafe e = true) :
    absRun trk ss wins out.events ≠ .bad ∧
    ∀ labs ss' wins', absRun trk ss wins out.events = .ok labs ss' wins' →
      lrun ss.ls labs = some ss'.ls ∧ SyncPost out.ctl out.env ss' wins' := by
  have := (Ok_iff _ _ _ _ _).1 (mb_sync_holdsS trk fuel g env inp ss wins hI out h hd)
  exact ⟨this.1, fun labs ss' wins' ha => ⟨absRun_lrun _ _ _ _ _ _ _ ha, this.2 labs ss' wins' ha⟩⟩

/-- the generic pointer-safety theorem and the five instances -/
theorem exec_safe_refines (st : Stmt) (hok : okStmt st = true) (fuel : Nat) (env : Env) (inp : List Val) (out : Out)
    (hs : SafeEnv env) (h : exec fuel st env inp = .ok out) (hr : ∀ e ∈ out.events, RetSafe e = true) : SafeOut env out :=
  exec_safe st hok fuel env inp out hs h hr
theorem queue_callees_quiet (trk : Bool) (MPre : (Loc → Option Val) → Prop) (hU : MUnsafeOnly MPre) :
    QuietS trk (MPreS MPre) qWaitAdd (some "_t1") ∧ QuietS trk (MPreS MPre) qBusyWait none ∧
    QuietS trk (MPreS MPre) qSetState none ∧ QuietS trk (MPreS MPre) qMoveWaiters none ∧
    QuietS trk (MPreS MPre) qWakeAll none :=
  ⟨qWaitAdd_quiet trk MPre hU, qBusyWait_quiet trk MPre hU, qSetState_quiet trk MPre hU, qMoveWaiters_quiet trk MPre hU,
    qWakeAll_quiet trk MPre hU⟩

/-- labels, final pc and control of a run -/
def labelsOf (trk : Bool) (r : Except String Out) (ss : SS) (wins : Wins) : Option (List LLabel × Gp.UPc × Ctl × Bool) :=
  match r with
  | .ok o =>
    match absRun trk ss wins o.events with
    | .ok labs ss' _ => some (labs, ss'.ls.upc, o.ctl, o.events.all RetSafe)
    | _ => none
  | _ => none

def envS : Env :=
  { vars := fun _ => none,
    priv := fun l => if l = gpCtr then some (.int 1) else if l = .glob "CONFIG_RCU_EMIT_LEGACY_MB" then some (.int 0) else none }
def ssIdle : SS := ⟨{ upc := .idle, gp := false, reg := [0], inp := [], snap := [], qs := [] }, none⟩

/-- a complete run of the GENERATED `mb.synchronize_rcu` (leader, one inactive reader; 25 events, all returned values
safe): wait-queue push, both locks, `uStart`, master barrier, pass 1, flip, pass 2, splice, master barrier, unlocks,
wake-up iteration over the (own, RUNNING) wait node -/
example : labelsOf false (exec 5 Gen.Src.«mb.synchronize_rcu» envS
      [.int 1, .int 0, .ptr (.field (.glob "&wait") "node"), .int 0, .int 0,
       .ptr (.obj 0), .int 0, .int 0, .int 0, .int 1, .int 0, .int 1, .int 0, .int 0, .int 0, .int 1, .int 2]) ssIdle [[]] =
    some ([.uStart false, .uMbarRet false, .uScan1Inactive 0 (0, false), .uFlip true, .uP2Done, .uEnd false],
      .idle, .normal, true) := by decide

/-- hypotheses of `mb_synchronize_rcu_refines_full` satisfiable -/
example : PI (MPreS (fun _ => True)) false (fun _ => True) envS ssIdle := by
  refine ⟨rfl, rfl, rfl, by simp [envS, encGp], ⟨trivial, ?_⟩, trivial⟩
  intro l v hl hv
  simp only [envS] at hv
  split at hv
  · simp at hv; subst hv; rfl
  · split at hv
    · simp at hv; subst hv; rfl
    · simp at hv

/-- the grace period proper (`gpBlock`, no assumption): from pc `mbar1` to pc `idle` with the phase flipped -/
theorem memb_grace_period_refines (trk : Bool) (fuel : Nat) (g : Bool) (vars : String → Option Val) (env : Env)
    (inp : List Val) (ss : SS) (wins : Wins) (hI : GInv MembPre .mbar1 g (fun _ => True) vars env ss) :
    Holds trk (exec fuel (gpBlock Gen.Src.«memb.smp_mb_master» Gen.Src.«memb.wait_for_readers») env inp) ss wins
      (GPost MembPre .idle (!g) (fun _ => True) vars) :=
  gpBlock_holds trk fuel _ _ MembPre (memb_master_spec trk) (memb_wfr_spec trk) MembPre_stable g vars env inp ss wins hI

/-- a whole grace period over one reader that is inactive: the label sequence of L2 -/
example : absRun false ⟨{ upc := .idle, gp := false, reg := [0], inp := [], snap := [], qs := [] }, none⟩ [[]]
    [.ext "mutex_lock" [.ptr (.glob "rcu_gp_lock")] (.int 0), .ext "mutex_lock" [.ptr regLock] (.int 0),
     .ext "cds_list_empty" [.ptr registry] (.int 0), .fence .mb,
     .ext "cds_list_for_each_entry_safe.first" [.ptr registry] (.ptr (.obj 0)),
     .ext "cds_list_for_each_entry_safe.next" [.ptr registry, .ptr (.obj 0)] (.int 0),
     .ld (.field (.obj 0) "ctr") (.int 0) 0,
     .ext "cds_list_move" [.ptr (.field (.obj 0) "node"), .ptr qsr] (.int 0),
     .ext "cds_list_empty" [.ptr registry] (.int 1), .fence .barrier, .fence .mb,
     .st gpCtr (.int 4294967297) 0, .fence .barrier, .fence .mb,
     .ext "cds_list_for_each_entry_safe.first" [.ptr curSnap] (.int 0),
     .ext "cds_list_empty" [.ptr curSnap] (.int 1),
     .ext "cds_list_splice" [.ptr qsr, .ptr registry] (.int 0), .fence .mb,
     .ext "mutex_unlock" [.ptr regLock] (.int 0)] =
    .ok [.uStart false, .uMbarRet false, .uScan1Inactive 0 (0, false), .uFlip true, .uP2Done, .uEnd false]
      ⟨{ upc := .idle, gp := true, reg := [0], inp := [], snap := [], qs := [0] }, none⟩ [] := by decide

/-! ## the discipline is the behaviour of real lists -/

/-- successor of `j` in a list / head of a list, as the `cds_list_for_each_entry_safe` cursor value -/
def succOf (j : Nat) : List Nat → Option Nat
  | a :: b :: t => if a = j then some b else succOf j (b :: t)
  | _ => none
def curVal : Option Nat → Val
  | none => .int 0
  | some k => .ptr (.obj k)

theorem first_disc (l : List Nat) : curOK l none (curVal l.head?) = true := by
  cases l <;> simp [curVal, curOK]

theorem succOf_mem (j : Nat) : ∀ (l : List Nat) (k : Nat), succOf j l = some k → k ∈ l ∧ (l.Nodup → k ≠ j) := by
  intro l
  induction l with
  | nil => intro k h; simp [succOf] at h
  | cons a t ih =>
    intro k h
    cases t with
    | nil => simp [succOf] at h
    | cons b t =>
      simp only [succOf] at h
      split at h
      · simp only [Option.some.injEq] at h; subst h
        rename_i ha; subst ha
        exact ⟨by simp, fun hn => by simp [List.nodup_cons] at hn; intro hk; exact hn.1.1 hk.symm⟩
      · obtain ⟨h1, h2⟩ := ih k h
        exact ⟨List.mem_cons_of_mem _ h1, fun hn => h2 (List.nodup_cons.1 hn).2⟩

/-- a duplicate-free list enumerated in order, with the lookahead computed BEFORE the body moves `index`, answers within
the discipline the theorems assume -/
theorem succOf_disc (l : List Nat) (hn : l.Nodup) (j : Nat) : curOK l (some j) (curVal (succOf j l)) = true := by
  cases h : succOf j l with
  | none => simp [curVal, curOK]
  | some k =>
    obtain ⟨h1, h2⟩ := succOf_mem j l k h
    have := h2 hn
    simp [curVal, curOK, h1]
    intro hh; exact this hh.symm

/-! ## projection / frame lemmas (`Src/SyncLocal.lean`) -/

theorem proj_enabled (c : Gp.Cfg) (s : Gp.State) (ls ls' : LState) (l : LLabel)
    (hp : Proj s ls) (hl : lstep ls l = some ls') (hg : Guard c s l) :
    ∃ s', Gp.step c s l.toL2 = some s' ∧ Proj s' ls' := Sync.proj_enabled c s ls ls' l hp hl hg

theorem proj_step (c : Gp.Cfg) (s s' : Gp.State) (ls : LState) (l : LLabel)
    (hp : Proj s ls) (st : Gp.step c s l.toL2 = some s') (ho : Obs s l)
    (hwf : ∀ j, (s.reg j = true ∨ s.inp j = true ∨ s.snap j = true) → j < c.n) :
    ∃ ls', lstep ls l = some ls' ∧ Proj s' ls' := Sync.proj_step c s s' ls l hp st ho hwf

theorem proj_frame (c : Gp.Cfg) (s s' : Gp.State) (ls : LState) (l : Gp.Label)
    (hp : Proj s ls) (st : Gp.step c s l = some s') (ho : owned l = false) : Proj s' ls :=
  Sync.proj_frame c s s' ls l hp st ho

/-! ## non-vacuity -/

def envMb (g : Bool) : Env :=
  { vars := bindParams ["input_readers", "cur_snap_readers", "qsreaders", "group"]
      [.ptr registry, .ptr curSnap, .ptr qsr, .ptr (.glob "&acquire_group")],
    priv := fun l => if l = gpCtr then some (.int (encGp g)) else none }

def ssP1 : SS := ⟨{ upc := .p1, gp := false, reg := [0, 1], inp := [0, 1], snap := [], qs := [] }, none⟩

/-- pass 1 over two readers: reader 0 inactive, reader 1 in a section of the current phase; 8 events, 2 labels -/
def inpP1 : List Val :=
  [.ptr (.obj 0), .ptr (.obj 1), .int 0, .int 0, .int 0, .int 1, .int 0, .int 1]

example : (exec 4 Gen.Src.«mb.wait_for_readers» (envMb false) inpP1).toOption.map (·.events) =
    some [.ext "cds_list_for_each_entry_safe.first" [.ptr registry] (.ptr (.obj 0)),
          .ext "cds_list_for_each_entry_safe.next" [.ptr registry, .ptr (.obj 0)] (.ptr (.obj 1)),
          .ld (.field (.obj 0) "ctr") (.int 0) 0,
          .ext "cds_list_move" [.ptr (.field (.obj 0) "node"), .ptr qsr] (.int 0),
          .ext "cds_list_for_each_entry_safe.next" [.ptr registry, .ptr (.obj 1)] (.int 0),
          .ld (.field (.obj 1) "ctr") (.int 1) 0,
          .ext "cds_list_move" [.ptr (.field (.obj 1) "node"), .ptr curSnap] (.int 0),
          .ext "cds_list_empty" [.ptr registry] (.int 1)] := by decide

def evsP1 : List Event :=
  [.ext "cds_list_for_each_entry_safe.first" [.ptr registry] (.ptr (.obj 0)),
   .ext "cds_list_for_each_entry_safe.next" [.ptr registry, .ptr (.obj 0)] (.ptr (.obj 1)),
   .ld (.field (.obj 0) "ctr") (.int 0) 0,
   .ext "cds_list_move" [.ptr (.field (.obj 0) "node"), .ptr qsr] (.int 0),
   .ext "cds_list_for_each_entry_safe.next" [.ptr registry, .ptr (.obj 1)] (.int 0),
   .ld (.field (.obj 1) "ctr") (.int 1) 0,
   .ext "cds_list_move" [.ptr (.field (.obj 1) "node"), .ptr curSnap] (.int 0),
   .ext "cds_list_empty" [.ptr registry] (.int 1)]

example : absRun false ssP1 [] evsP1 =
    .ok [.uScan1Inactive 0 (0, false), .uScan1Current 1 (1, false)]
      ⟨{ upc := .p1, gp := false, reg := [0, 1], inp := [], snap := [1], qs := [0] }, none⟩ [] := by decide

/-- a reader in a section of the OLD phase stays in the input list: no label, the retry loop goes on (the registry lock is
released: here the environment registers reader 7 in that window) -/
example : absRun false ssP1 [[.reg 7]]
    [.ext "cds_list_for_each_entry_safe.first" [.ptr registry] (.ptr (.obj 1)),
     .ext "cds_list_for_each_entry_safe.next" [.ptr registry, .ptr (.obj 1)] (.int 0),
     .ld (.field (.obj 1) "ctr") (.int 4294967297) 0,
     .ext "cds_list_empty" [.ptr registry] (.int 0),
     .ext "mutex_unlock" [.ptr regLock] (.int 0), .fence .relax, .ext "mutex_lock" [.ptr regLock] (.int 0)] =
    .ok [.envReg 7]
      ⟨{ upc := .p1, gp := false, reg := [7, 0, 1], inp := [7, 0, 1], snap := [], qs := [] }, none⟩ [] := by decide

/-- the abstraction does not launder: moving a reader whose word was ACTIVE_OLD is `.bad` … -/
example : absRun false ssP1 []
    [.ld (.field (.obj 1) "ctr") (.int 4294967297) 0,
     .ext "cds_list_move" [.ptr (.field (.obj 1) "node"), .ptr qsr] (.int 0)] = .bad := by decide
/-- … classifying a reader that is not in the input list is `.bad` … -/
example : absRun false ssP1 [] [.ld (.field (.obj 5) "ctr") (.int 0) 0] = .bad := by decide
/-- … and an oracle that answers `cds_list_empty` wrongly is outside the discipline -/
example : absRun false ssP1 [] [.ext "cds_list_empty" [.ptr registry] (.int 1)] = .undisc := by decide

/-- hypotheses of `mb_wait_for_readers_refines` satisfiable -/
example := mb_wait_for_readers_refines false 4 registry (.ptr curSnap) (.ptr (.glob "&acquire_group")) false .p1
  (envMb false) inpP1 ssP1 []

example : WfrPre (mbCtx registry (.ptr curSnap) (.ptr (.glob "&acquire_group")) false .p1) (envMb false) ssP1 :=
  ⟨rfl, rfl, rfl, rfl, by simp [envMb, mbCtx], trivial, Or.inl ⟨rfl, rfl, rfl⟩, rfl, rfl, rfl⟩

/-- `smp_mb_master` (memb, sys_membarrier available): one `membarrier` event = `uMbarRet true` at pc `mbar1` -/
example : absRun false ⟨{ upc := .mbar1, gp := false, reg := [0], inp := [0], snap := [], qs := [] }, none⟩ []
    [.ext "membarrier" [.int 8, .int 0] (.int 0)] =
    .ok [.uMbarRet true] ⟨{ upc := .p1, gp := false, reg := [0], inp := [0], snap := [], qs := [] }, none⟩ [] := by decide

end UrcuVerif.Props.SrcSync

/-! # QSBR (urcu-qsbr.c, 64-bit single-pass variant) against `Gp/Qsbr.lean`

Checker, labels, discipline: header of `Src/SyncQRefine.lean` (`SyncQ.absRun`, local automaton `SyncQ.lstep` of
`Src/SyncQLocal.lean`).  Counter abstraction: C value `encQ g = 2g - 1` stands for L2's `gp = g`, reader word `0` for offline. -/
namespace UrcuVerif.Props.SrcSyncQsbr
open UrcuVerif UrcuVerif.Src UrcuVerif.Src.Sync UrcuVerif.Src.SyncQ

/-- one relaxed load of `*ctr`; INACTIVE (2) iff the word is 0, ACTIVE_CURRENT (0) iff it equals the plain-read
`urcu_qsbr_gp.ctr`, ACTIVE_OLD (1) otherwise – L2's `uScan` guard `mctr j = 0 ∨ mctr j = gp` -/
theorem urcu_qsbr_reader_state_refines (fuel : Nat) (env : Env) (C : Loc) (c : Int) (v : Val) (rest : List Val)
    (hc : env.vars "ctr" = some (.ptr C)) (hp : env.priv gpCtrQ = some (.int c)) :
    ∃ out, exec fuel Gen.Src.«urcu_qsbr_reader_state» env (v :: rest) = .ok out ∧
      out.events = [.ld C v 0] ∧ out.ctl = .ret (some (.int (clsQ c v))) ∧ out.inp = rest ∧ out.env.priv = env.priv :=
  qsbr_reader_state_exec fuel env C c v rest hc hp

theorem qsbr_wait_gp_refines (trk : Bool) : WaitGpSpecQ trk Gen.Src.«qsbr.wait_gp» := qsbr_wg_spec trk

theorem qsbr_wait_for_readers_refines (trk : Bool) (fuel : Nat) (g : Nat) (gv : Val) (env : Env) (inp : List Val)
    (ss : SyncQ.SS) (wins : Wins) (out : Out) (hP : SyncQ.WfrPre g gv env ss)
    (h : exec fuel Gen.Src.«qsbr.wait_for_readers» env inp = .ok out) :
    SyncQ.absRun trk ss wins out.events ≠ .bad ∧
    ∀ labs ss' wins', SyncQ.absRun trk ss wins out.events = .ok labs ss' wins' →
      SyncQ.lrun ss.ls labs = some ss'.ls ∧ SyncQ.WfrPost g gv out.ctl out.env ss' wins' := by
  have := (SyncQ.Ok_iff _ _ _ _ _).1 (qsbr_wfr_holds trk fuel g gv env inp ss wins hP out h)
  exact ⟨this.1, fun labs ss' wins' ha => ⟨SyncQ.absRun_lrun _ _ _ _ _ _ _ ha, this.2 labs ss' wins' ha⟩⟩

/-- the grace-period branch of the GENERATED `urcu_qsbr_synchronize_rcu` (`qsbr_sync_eq : … = syncQT …`, `gpBlockQ` is the
`else` branch of `if (cds_list_empty(&registry)) goto out;`): from pc `idle` with a non-empty registry and `gp = g ≥ 1`, the store
`urcu_qsbr_gp.ctr + URCU_QSBR_GP_CTR` is `uInc (g+1)`, the scan loads are `uScan`, the splice is `uEnd`; back at pc `idle` with
`gp = g + 1` -/
theorem qsbr_grace_period_refines (trk : Bool) (fuel : Nat) (g : Nat) (hg : 1 ≤ g) (vars : String → Option Val) (env : Env)
    (inp : List Val) (ss : SyncQ.SS) (wins : Wins) (out : Out) (hI : GInvQ .idle g (fun ls => ls.reg ≠ []) vars env ss)
    (h : exec fuel (gpBlockQ Gen.Src.«qsbr.wait_for_readers») env inp = .ok out) :
    SyncQ.absRun trk ss wins out.events ≠ .bad ∧
    ∀ labs ss' wins', SyncQ.absRun trk ss wins out.events = .ok labs ss' wins' →
      SyncQ.lrun ss.ls labs = some ss'.ls ∧ GPostQ .idle (g+1) (fun _ => True) vars out.ctl out.env ss' wins' := by
  have := (SyncQ.Ok_iff _ _ _ _ _).1 (qsbr_grace_period_holds trk fuel g hg vars env inp ss wins hI out h)
  exact ⟨this.1, fun labs ss' wins' ha => ⟨SyncQ.absRun_lrun _ _ _ _ _ _ _ ha, this.2 labs ss' wins' ha⟩⟩

theorem qsbr_synchronize_rcu_shape :
    Gen.Src.«qsbr.urcu_qsbr_synchronize_rcu» = syncQT Gen.Src.«qsbr.wait_for_readers» := qsbr_sync_eq

theorem proj_enabled (c : Qsbr.Cfg) (s : Qsbr.State) (ls ls' : SyncQ.LState) (l : SyncQ.LLabel)
    (hp : SyncQ.Proj s ls) (hl : SyncQ.lstep ls l = some ls') (hg : SyncQ.Guard c s l) :
    ∃ s', Qsbr.step c s l.toL2 = some s' ∧ SyncQ.Proj s' ls' := SyncQ.proj_enabled c s ls ls' l hp hl hg
theorem proj_step (c : Qsbr.Cfg) (s s' : Qsbr.State) (ls : SyncQ.LState) (l : SyncQ.LLabel)
    (hp : SyncQ.Proj s ls) (st : Qsbr.step c s l.toL2 = some s') (ho : SyncQ.Obs s l)
    (hwf : ∀ j, (s.reg j = true ∨ s.inp j = true) → j < c.n) :
    ∃ ls', SyncQ.lstep ls l = some ls' ∧ SyncQ.Proj s' ls' := SyncQ.proj_step c s s' ls l hp st ho hwf
theorem proj_frame (c : Qsbr.Cfg) (s s' : Qsbr.State) (ls : SyncQ.LState) (l : Qsbr.Label)
    (hp : SyncQ.Proj s ls) (st : Qsbr.step c s l = some s') (ho : SyncQ.owned l = false) : SyncQ.Proj s' ls :=
  SyncQ.proj_frame c s s' ls l hp st ho

/-! ## non-vacuity -/

def envQ : Env :=
  { vars := fun _ => none, priv := fun l => if l = gpCtrQ then some (.int 3) else none }
def ssQ : SyncQ.SS := ⟨{ upc := .idle, gp := 2, reg := [0, 1], inp := [] }, none⟩

def labelsOfQ (trk : Bool) (r : Except String Out) (ss : SyncQ.SS) (wins : Wins) :
    Option (List SyncQ.LLabel × SyncQ.LState × Ctl × Nat) :=
  match r with
  | .ok o =>
    match SyncQ.absRun trk ss wins o.events with
    | .ok labs ss' _ => some (labs, ss'.ls, o.ctl, o.events.length)
    | _ => none
  | _ => none

/-- the grace-period branch over two readers (reader 0 offline, reader 1 already at the new counter value 5 = encQ 3):
12 events, `uInc 3`, two `uScan`, `uEnd` -/
example : labelsOfQ false (exec 4 (gpBlockQ Gen.Src.«qsbr.wait_for_readers») envQ
      [.ptr (.obj 0), .ptr (.obj 1), .int 0, .int 0, .int 0, .int 5, .int 0, .int 1, .int 0]) ssQ [] =
    some ([.uInc false 3, .uScan 0 0, .uScan 1 3, .uEnd], { upc := .idle, gp := 3, reg := [0, 1], inp := [] }, .normal, 12) := by
  decide

/-- hypotheses of `qsbr_grace_period_refines` satisfiable -/
example : GInvQ .idle 2 (fun ls => ls.reg ≠ []) envQ.vars envQ ssQ :=
  ⟨rfl, rfl, rfl, rfl, by simp [envQ, encQ], by simp [ssQ]⟩

/-- a reader still at the old counter value stays in the input list (no label) -/
example : SyncQ.absRun false ⟨{ upc := .scan, gp := 3, reg := [1], inp := [1] }, none⟩ []
    [.ld (.field (.obj 1) "ctr") (.int 3) 0] = .ok [] ⟨{ upc := .scan, gp := 3, reg := [1], inp := [1] }, none⟩ [] := by decide
/-- moving it nevertheless is `.bad` -/
example : SyncQ.absRun false ⟨{ upc := .scan, gp := 3, reg := [1], inp := [1] }, none⟩ []
    [.ld (.field (.obj 1) "ctr") (.int 3) 0,
     .ext "cds_list_move" [.ptr (.field (.obj 1) "node"), .ptr qsr] (.int 0)] = .bad := by decide
/-- a wrong increment of the counter is `.bad` -/
example : SyncQ.absRun false ssQ [] [.st gpCtrQ (.int 4) 0] = .bad := by decide

end UrcuVerif.Props.SrcSyncQsbr
