import UrcuVerif.Gp.FlipInv
/-!
# C15 — Reader registration is dynamic (memb / mb part; the bp registry arena is in
`Props/C15Bp.lean` when present)

The grace-period model of C01 (`Gp/Flip.lean`) already lets readers register and unregister at
any moment outside a read-side section, any number of times, concurrently with both scanning
passes (the registry lock is dropped between scan iterations).  `gp_guarantee` (Props/C01) is
proved on that model, i.e. *with* dynamic registration.  The statements below are the
registration-specific facts.
-/
namespace UrcuVerif.Gp

/-- **unregistered_never_scanned**: while a grace period is scanning, every reader in one of
the updater's lists is registered – so no scan load ever targets the word of a thread that has
unregistered (its TLS may be gone). -/
theorem unregistered_never_scanned (c : Cfg) (hc : c.WF) {s : State} (h : Reach c s)
    (hp : s.upc = .mbar1 ∨ s.upc = .p1 ∨ s.upc = .p2) (i : Nat) (hr : s.reg i = false) :
    s.inp i = false ∧ s.snap i = false ∧ s.qs i = false := by
  have I := (inv_reach c hc h).lists_reg hp i
  refine ⟨?_, ?_, ?_⟩ <;> (apply Bool.eq_false_iff.mpr; intro hx; simp_all)

/-- a scan step is only ever enabled for a registered reader -/
theorem scan_targets_registered (c : Cfg) (hc : c.WF) {s s' : State} (h : Reach c s) (j : Nat)
    (st : step c s (.uScan1Inactive j) = some s' ∨ step c s (.uScan1Current j) = some s' ∨
          step c s (.uScan2 j) = some s') : s.reg j = true := by
  have I := inv_reach c hc h
  rcases st with st | st | st <;> simp only [step] at st <;> split at st <;>
    simp only [Option.some.injEq, reduceCtorEq] at st
  · next hg => exact I.lists_reg (Or.inr (Or.inl hg.1)) j (Or.inl hg.2.2.1)
  · next hg => exact I.lists_reg (Or.inr (Or.inl hg.1)) j (Or.inl hg.2.2.1)
  · next hg => exact I.lists_reg (Or.inr (Or.inr hg.1)) j (Or.inr (Or.inl hg.2.2.1))

/-- **lists_partition**: a registered reader is in at most one of the three lists at any time,
also while the registry lock is dropped between scan iterations. -/
theorem lists_partition (c : Cfg) (hc : c.WF) {s : State} (h : Reach c s)
    (hp : s.upc = .mbar1 ∨ s.upc = .p1 ∨ s.upc = .p2) (i : Nat) :
    ¬ (s.inp i = true ∧ s.snap i = true) ∧ ¬ (s.inp i = true ∧ s.qs i = true) ∧ ¬ (s.snap i = true ∧ s.qs i = true) :=
  (inv_reach c hc h).lists_disj hp i

/-- **registered_late_not_waited**: a reader that registers while a (tracked) grace period is in
flight is never in the set that grace period waits for. -/
theorem registered_late_not_waited (c : Cfg) (hc : c.WF) {s s' : State} (h : Reach c s) (i : Nat)
    (st : step c s (.reg i) = some s') : s'.inD i = false := by
  have I := inv_reach c hc h
  simp only [step] at st; split at st <;> simp only [Option.some.injEq, reduceCtorEq] at st
  next hg =>
    subst st
    have := I.d_cs i
    cases hd : s.inD i <;> simp_all

/-- a thread may only unregister outside a read-side section (API contract, checked as an
assertion by the model's guard), and then it is not in the waited-for set -/
theorem unregister_leaves_clean (c : Cfg) (hc : c.WF) {s s' : State} (h : Reach c s) (i : Nat)
    (st : step c s (.unreg i) = some s') :
    s'.inD i = false ∧ s'.inp i = false ∧ s'.snap i = false ∧ s'.qs i = false := by
  have I := inv_reach c hc h
  simp only [step] at st; split at st <;> simp only [Option.some.injEq, reduceCtorEq] at st
  next hg =>
    subst st
    have := I.d_cs i
    cases hd : s.inD i <;> simp_all [upd]

end UrcuVerif.Gp
