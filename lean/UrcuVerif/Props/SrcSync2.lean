import UrcuVerif.Src.Sync2BpSync
import UrcuVerif.Src.Sync2Qsbr
/-!
# Source refinement, grace-period updater side, round 2: bp flavor (`src/urcu-bp.c`)

"The generated source IR of `urcu_bp_reader_state`, `smp_mb_master`, `wait_for_readers` and `urcu_bp_synchronize_rcu` (values of
`Gen/Src.lean`, regenerated from the C text of /repo on every run) refines, thread-locally, the updater of `Gp/Flip.lean`",
relative to the list-oracle discipline of `Src/SyncRefine.lean`.  The checker `Sync2.absRun` is `Sync.absRun` with the
grace-period counter at `&urcu_bp_gp.ctr` (`Src/Sync2Refine.lean`); local automaton, labels, projection / frame lemmas are
those of `Src/SyncLocal.lean` (`Props.SrcSync.proj_enabled / proj_step / proj_frame`).  No assumption on callees: bp has no
wait queue and no futex.

Each `<f>_refines` reads as in `Props/SrcSync.lean`: for every `fuel`, oracle `inp`, environment schedule `wins` and every
`.ok` run of the generated function from a state satisfying the precondition, the checker's verdict on `out.events` is never
`.bad`; when it is `.ok labs ss' wins'` (the oracle kept the discipline) `labs` is a run of the local automaton from `ss.ls`
to `ss'.ls` carrying the observed values, and the postcondition holds.
-/
set_option maxRecDepth 16384
namespace UrcuVerif.Props.SrcSync2
open UrcuVerif UrcuVerif.Src
open UrcuVerif.Src.Sync (SS Wins LState LLabel lrun encGp decW cls Ctx WfrPre Pass registry curSnap qsr regLock MasterAfter)
open UrcuVerif.Src.Sync2

/-! ## `urcu_bp_reader_state` -/

/-- one relaxed load of `*ctr` (`ctr` non-NULL); the answer is INACTIVE (2) / ACTIVE_CURRENT (0) / ACTIVE_OLD (1) exactly as
L2's scan guards on the loaded word `(nest, ph) = decW w` and the phase `g` of `urcu_bp_gp.ctr` say; a NULL `ctr` answers
INACTIVE without an event -/
theorem urcu_bp_reader_state_refines (fuel : Nat) (env : Env) (C : Loc) (g : Bool) (w : Int) (rest : List Val)
    (hc : env.vars "ctr" = some (.ptr C)) (hp : env.priv gpCtr = some (.int (encGp g))) (hw : 0 ≤ w) :
    (∃ out, exec fuel Gen.Src.«urcu_bp_reader_state» env (.int w :: rest) = .ok out ∧
      out.events = [.ld C (.int w) 0] ∧ out.ctl = .ret (some (.int (cls g w))) ∧ out.inp = rest ∧
      out.env.priv = env.priv) ∧
    (∃ out, exec fuel Gen.Src.«urcu_bp_reader_state» env [] = .ok out ∧ out.events = [] ∧ out.ctl = .blocked) ∧
    (cls g w = 2 ↔ (decW w).1 = 0) ∧ (cls g w = 0 ↔ 0 < (decW w).1 ∧ (decW w).2 = g) ∧
    (cls g w = 1 ↔ 0 < (decW w).1 ∧ (decW w).2 ≠ g) :=
  ⟨reader_state_exec fuel env C g w rest hc hp hw, reader_state_blocked fuel env C hc,
    Sync.cls_inactive g w, Sync.cls_current g w, Sync.cls_old g w⟩

theorem urcu_bp_reader_state_null (fuel : Nat) (env : Env) (inp : List Val) (hc : env.vars "ctr" = some (.int 0)) :
    exec fuel Gen.Src.«urcu_bp_reader_state» env inp =
      .ok { events := [], env := env, inp := inp, ctl := .ret (some (.int 2)) } :=
  reader_state_null fuel env inp hc

/-! ## `smp_mb_master` -/

/-- `fence mb` (no sys_membarrier) or `membarrier(MEMBARRIER_CMD_PRIVATE_EXPEDITED, 0)` returning 0: `uMbarRet sys` at pc
`mbar1`, `uEnd sys` at pc `mbar2`, silent elsewhere; a failing `membarrier` leads to `urcu_die` (outside the discipline) -/
theorem bp_smp_mb_master_refines (trk : Bool) : MasterSpec trk Gen.Src.«bp.smp_mb_master» BpPre := bp_master_spec trk

/-! ## `wait_for_readers` -/

theorem bp_wait_for_readers_refines (trk : Bool) (fuel : Nat) (c : Ctx) (env : Env) (inp : List Val) (ss : SS)
    (wins : Wins) (out : Out) (hP : Sync2.WfrPre c env ss)
    (h : exec fuel Gen.Src.«bp.wait_for_readers» env inp = .ok out) :
    absRun trk ss wins out.events ≠ .bad ∧
    ∀ labs ss' wins', absRun trk ss wins out.events = .ok labs ss' wins' →
      lrun ss.ls labs = some ss'.ls ∧ Sync2.WfrPost c out.ctl out.env ss' wins' := by
  have := (Ok_iff _ _ _ _ _).1 (bp_wfr_holds trk fuel c env inp ss wins hP out h)
  exact ⟨this.1, fun labs ss' wins' ha => ⟨absRun_lrun _ _ _ _ _ _ _ ha, this.2 labs ss' wins' ha⟩⟩

/-! ## the grace period proper and the whole `urcu_bp_synchronize_rcu`

`bp_sync_eq : «bp.urcu_bp_synchronize_rcu» = syncBp «bp.smp_mb_master» «bp.wait_for_readers»` (by `rfl`).  Precondition `PI`:
the updater automaton is at pc `idle` with phase `g`, no move pending, `urcu_bp_gp.ctr = URCU_BP_GP_COUNT + phase g` in the
private view, `urcu_bp_has_sys_membarrier` set (`BpPre`).  Conclusion: the events are accepted – `sigfillset`,
`pthread_sigmask` silent, lock order `rcu_gp_lock` → `rcu_registry_lock` (window), `cds_list_empty(&registry)` ↦
`uStartEmpty` / `uStart`, then master barrier `uMbarRet` → pass 1 → `uFlip` → pass 2 → splice `uP2Done` → master barrier
`uEnd`, the unlocks and `pthread_sigmask` silent – and a completed call leaves the automaton at pc `idle`. -/

theorem bp_grace_period_refines (trk : Bool) (fuel : Nat) (g : Bool) (vars : String → Option Val) (env : Env)
    (inp : List Val) (ss : SS) (wins : Wins) (hI : Sync2.GInv BpPre .mbar1 g (fun _ => True) vars env ss) :
    Holds trk (exec fuel (Sync2.gpBlock Gen.Src.«bp.smp_mb_master» Gen.Src.«bp.wait_for_readers») env inp) ss wins
      (Sync2.GPost BpPre .idle (!g) (fun _ => True) vars) :=
  bp_gp_holds trk fuel g vars env inp ss wins hI

theorem bp_synchronize_rcu_shape :
    Gen.Src.«bp.urcu_bp_synchronize_rcu» = syncBp Gen.Src.«bp.smp_mb_master» Gen.Src.«bp.wait_for_readers» := bp_sync_eq

theorem bp_synchronize_rcu_refines (trk : Bool) (fuel : Nat) (g : Bool) (env : Env)
    (inp : List Val) (ss : SS) (wins : Wins) (out : Out) (hI : Sync2.PI BpPre g (fun _ => True) env ss)
    (h : exec fuel Gen.Src.«bp.urcu_bp_synchronize_rcu» env inp = .ok out) :
    absRun trk ss wins out.events ≠ .bad ∧
    ∀ labs ss' wins', absRun trk ss wins out.events = .ok labs ss' wins' →
      lrun ss.ls labs = some ss'.ls ∧ Sync2.SyncPost out.ctl out.env ss' wins' := by
  have := (Ok_iff _ _ _ _ _).1 (bp_sync_holds trk fuel g env inp ss wins hI out h)
  exact ⟨this.1, fun labs ss' wins' ha => ⟨absRun_lrun _ _ _ _ _ _ _ ha, this.2 labs ss' wins' ha⟩⟩

/-! ## projection / frame lemmas of the local automaton (`Src/SyncLocal.lean`, shared with memb / mb) -/

theorem proj_enabled (c : Gp.Cfg) (s : Gp.State) (ls ls' : LState) (l : LLabel)
    (hp : Sync.Proj s ls) (hl : Sync.lstep ls l = some ls') (hg : Sync.Guard c s l) :
    ∃ s', Gp.step c s l.toL2 = some s' ∧ Sync.Proj s' ls' := Sync.proj_enabled c s ls ls' l hp hl hg

theorem proj_step (c : Gp.Cfg) (s s' : Gp.State) (ls : LState) (l : LLabel)
    (hp : Sync.Proj s ls) (st : Gp.step c s l.toL2 = some s') (ho : Sync.Obs s l)
    (hwf : ∀ j, (s.reg j = true ∨ s.inp j = true ∨ s.snap j = true) → j < c.n) :
    ∃ ls', Sync.lstep ls l = some ls' ∧ Sync.Proj s' ls' := Sync.proj_step c s s' ls l hp st ho hwf

theorem proj_frame (c : Gp.Cfg) (s s' : Gp.State) (ls : LState) (l : Gp.Label)
    (hp : Sync.Proj s ls) (st : Gp.step c s l = some s') (ho : Sync.owned l = false) : Sync.Proj s' ls :=
  Sync.proj_frame c s s' ls l hp st ho

/-! ## non-vacuity -/

/-- labels, final pc, control and number of events of a run -/
def labelsOf (trk : Bool) (r : Except String Out) (ss : SS) (wins : Wins) : Option (List LLabel × Gp.UPc × Ctl × Nat) :=
  match r with
  | .ok o =>
    match absRun trk ss wins o.events with
    | .ok labs ss' _ => some (labs, ss'.ls.upc, o.ctl, o.events.length)
    | _ => none
  | _ => none

def envBp : Env :=
  { vars := fun _ => none,
    priv := fun l => if l = gpCtr then some (.int 1) else if l = .glob "urcu_bp_has_sys_membarrier" then some (.int 0) else none }
def ssIdle : SS := ⟨{ upc := .idle, gp := false, reg := [0, 1], inp := [], snap := [], qs := [] }, none⟩

/-- a complete run of the GENERATED `urcu_bp_synchronize_rcu` over two readers (reader 0 inactive, reader 1 in a section of
the current phase, found inactive in pass 2): 27 events -/
example : labelsOf false (exec 5 Gen.Src.«bp.urcu_bp_synchronize_rcu» envBp
      [.int 0, .int 0, .int 0, .int 0, .int 0,
       .ptr (.obj 0), .ptr (.obj 1), .int 0, .int 0, .int 0, .int 1, .int 0, .int 1,
       .ptr (.obj 1), .int 0, .int 4294967296, .int 0, .int 1, .int 0, .int 0, .int 0, .int 0]) ssIdle [[]] =
    some ([.uStart false, .uMbarRet false, .uScan1Inactive 0 (0, false), .uScan1Current 1 (1, false), .uFlip true,
           .uScan2 1 (0, true), .uP2Done, .uEnd false], .idle, .normal, 27) := by decide

/-- hypotheses of `bp_synchronize_rcu_refines` satisfiable -/
example : Sync2.PI BpPre false (fun _ => True) envBp ssIdle :=
  ⟨rfl, rfl, rfl, by simp [envBp, encGp], ⟨0, by simp [envBp, gpCtr]⟩, trivial⟩

/-- pass 1 of the GENERATED `bp.wait_for_readers` over two readers (reader 0 inactive, reader 1 in a section of the current
phase): 8 events, 2 labels; hypotheses of `bp_wait_for_readers_refines` satisfiable -/
def envWfr : Env :=
  { vars := bindParams ["input_readers", "cur_snap_readers", "qsreaders", "group"]
      [.ptr registry, .ptr curSnap, .ptr qsr, .ptr (.glob "&acquire_group")],
    priv := fun l => if l = gpCtr then some (.int 1) else none }
def ssP1 : SS := ⟨{ upc := .p1, gp := false, reg := [0, 1], inp := [0, 1], snap := [], qs := [] }, none⟩
def ctxP1 : Ctx :=
  { hd := registry, csv := .ptr curSnap, gv := .ptr (.glob "&acquire_group"), g := false, upc := .p1, MPre := fun _ => True }

example : labelsOf false (exec 4 Gen.Src.«bp.wait_for_readers» envWfr
      [.ptr (.obj 0), .ptr (.obj 1), .int 0, .int 0, .int 0, .int 1, .int 0, .int 1]) ssP1 [] =
    some ([.uScan1Inactive 0 (0, false), .uScan1Current 1 (1, false)], .p1, .normal, 8) := by decide

example : Sync2.WfrPre ctxP1 envWfr ssP1 :=
  ⟨rfl, rfl, rfl, rfl, by simp [envWfr, encGp, ctxP1], trivial, Or.inl ⟨rfl, rfl, rfl⟩, rfl, rfl, rfl⟩

/-- the retry path: reader 1 is in a section of the OLD phase, the registry lock is released (the environment registers
reader 7 in that window), `caa_cpu_relax` -/
example : absRun false ⟨{ upc := .p1, gp := false, reg := [1], inp := [1], snap := [], qs := [] }, none⟩ [[.reg 7]]
    [.ext "cds_list_for_each_entry_safe.first" [.ptr registry] (.ptr (.obj 1)),
     .ext "cds_list_for_each_entry_safe.next" [.ptr registry, .ptr (.obj 1)] (.int 0),
     .ld (.field (.obj 1) "ctr") (.int 4294967297) 0,
     .ext "cds_list_empty" [.ptr registry] (.int 0),
     .ext "mutex_unlock" [.ptr regLock] (.int 0), .ext "poll" [.int 0, .int 0, .int 10] (.int 0),
     .ext "mutex_lock" [.ptr regLock] (.int 0)] =
    .ok [.envReg 7] ⟨{ upc := .p1, gp := false, reg := [7, 1], inp := [7, 1], snap := [], qs := [] }, none⟩ [] := by decide

/-- the abstraction does not launder: a flip that does not toggle the phase bit, or a store to the counter outside the
protocol, is `.bad`; the memb location `rcu_gp.ctr` is not the bp counter -/
example : absRun false ⟨{ upc := .p1, gp := false, reg := [], inp := [], snap := [], qs := [] }, none⟩ []
    [.st gpCtr (.int 1) 0] = .bad := by decide
example : absRun false ssIdle [] [.st gpCtr (.int 4294967297) 0] = .bad := by decide
example : absRun false ⟨{ upc := .p1, gp := false, reg := [], inp := [], snap := [], qs := [] }, none⟩ []
    [.st gpCtr (.int 4294967297) 0] =
    .ok [.uFlip true] ⟨{ upc := .p2, gp := true, reg := [], inp := [], snap := [], qs := [] }, none⟩ [] := by decide

end UrcuVerif.Props.SrcSync2

/-! # The whole `urcu_qsbr_synchronize_rcu` (64-bit variant) against `Gp/Qsbr.lean`

Checker `SyncQ.absRun`, local automaton `SyncQ.lstep`, discipline: `Src/SyncQRefine.lean`; the grace-period branch is
`Props.SrcSyncQsbr.qsbr_grace_period_refines`.  This is the whole generated function: `wait.state = WAITING`,
`was_online = urcu_qsbr_read_ongoing()`, `thread_offline` / `cmm_smp_mb`, the wait-queue calls, both locks (window at
`rcu_registry_lock`), `cds_list_empty(&registry)` (`uEmpty` when it answers "empty"), the grace-period branch
(`uInc (g+1)`, `uScan …`, `uEnd`), the unlocks, `urcu_wake_all_waiters`, `thread_online` / `cmm_smp_mb`.

Precondition `QI g V0`: updater automaton at pc `idle` with counter `g ≥ 1`, no move pending, `urcu_qsbr_gp.ctr = encQ g` in the
private view, `PrivSafe` (the private view holds integers or pointers to safe locations at safe locations – `Sync.SafeLoc`:
no `->ctr` in the path, not rooted at `rcu_gp`).  Relative to the pointer discipline `RetSafe` on the oracle (as the `_full`
theorems of memb / mb): every value an event returns is an integer or a pointer to a safe location.  NO assumption on callees:
the five wait-queue callees are covered by `Sync.exec_safe` (`okStmt` of the generated bodies by `decide`); the caller's own
`thread_offline` / `thread_online` / `read_ongoing` (which access the caller's `->ctr`, `->waiting` and `urcu_qsbr_gp.futex` and
are therefore NOT `okStmt`) by symbolic execution: silent for the updater checker, `urcu_qsbr_gp.ctr` untouched in the private
view (their meaning for the READER automaton is `Props.SrcRead._urcu_qsbr_thread_offline_refines` / `…_online_refines`).
Conclusion (`SyncPostQ g`): never `.bad`; a completed call leaves the automaton at pc `idle` with counter `g` (not the leader, or
empty registry) or `g + 1`, and the private view of the counter agrees. -/
namespace UrcuVerif.Props.SrcSync2Qsbr
open UrcuVerif UrcuVerif.Src UrcuVerif.Src.SyncQ UrcuVerif.Src.Sync2Q
open UrcuVerif.Src.Sync (Wins RetSafe QuietEv PrivSafe SafeLoc registry qsr regLock)

theorem qsbr_synchronize_rcu_refines_full (trk : Bool) (fuel : Nat) (g : Nat) (hg : 1 ≤ g) (env : Env) (inp : List Val)
    (ss : SS) (wins : Wins) (out : Out) (hI : QI g V0 env ss)
    (h : exec fuel Gen.Src.«qsbr.urcu_qsbr_synchronize_rcu» env inp = .ok out) (hd : ∀ e ∈ out.events, RetSafe e = true) :
    absRun trk ss wins out.events ≠ .bad ∧
    ∀ labs ss' wins', absRun trk ss wins out.events = .ok labs ss' wins' →
      lrun ss.ls labs = some ss'.ls ∧ SyncPostQ g out.ctl out.env ss' wins' := by
  have := (Ok_iff _ _ _ _ _).1 (qsbr_sync_holds trk fuel g hg env inp ss wins hI out h hd)
  exact ⟨this.1, fun labs ss' wins' ha => ⟨absRun_lrun _ _ _ _ _ _ _ ha, this.2 labs ss' wins' ha⟩⟩

/-- the two wrapper calls on their own (no discipline needed): every event silent for the updater checker, the automaton
state, `urcu_qsbr_gp.ctr` in the private view and `PrivSafe` unchanged -/
theorem qsbr_thread_offline_silent (trk : Bool) (fuel : Nat) (g : Nat) (V : (String → Option Val) → Prop) (env : Env)
    (inp : List Val) (ss : SS) (wins : Wins) (hI : QI g V env ss) :
    Holds trk (exec fuel (.call none [] [] Gen.Src.«qsbr.urcu_qsbr_thread_offline») env inp) ss wins (QP g V) :=
  offline_holds trk fuel g V env inp ss wins hI
theorem qsbr_thread_online_silent (trk : Bool) (fuel : Nat) (g : Nat) (V : (String → Option Val) → Prop) (env : Env)
    (inp : List Val) (ss : SS) (wins : Wins) (hI : QI g V env ss) :
    Holds trk (exec fuel (.call none [] [] Gen.Src.«qsbr.urcu_qsbr_thread_online») env inp) ss wins (QP g V) :=
  online_holds trk fuel g V env inp ss wins hI

/-- a quiet event (`Sync.QuietEv`) is silent for the QSBR updater checker at every pc -/
theorem quiet_silent (trk : Bool) (ss : SS) (e : Event) (hq : QuietEv e = true) :
    absEv trk ss e = .step [] ss.pend ∨ absEv trk ss e = .undisc := absEvQ_quiet trk ss e hq

/-- private stores of integer-valued expressions keep `PrivSafe` (used for `thread_offline` and the grace-period branch) -/
theorem exec_privSafe_refines (st : Stmt) (hok : privOK st = true) (fuel : Nat) (env : Env) (inp : List Val) (out : Out)
    (hs : PrivSafe env.priv) (h : exec fuel st env inp = .ok out) : PrivSafe out.env.priv :=
  exec_privSafe st hok fuel env inp out hs h

/-! ## projection / frame lemmas of the local automaton (`Src/SyncQLocal.lean`) -/

theorem proj_enabled (c : Qsbr.Cfg) (s : Qsbr.State) (ls ls' : LState) (l : LLabel)
    (hp : Proj s ls) (hl : lstep ls l = some ls') (hg : Guard c s l) :
    ∃ s', Qsbr.step c s l.toL2 = some s' ∧ Proj s' ls' := SyncQ.proj_enabled c s ls ls' l hp hl hg
theorem proj_step (c : Qsbr.Cfg) (s s' : Qsbr.State) (ls : LState) (l : LLabel)
    (hp : Proj s ls) (st : Qsbr.step c s l.toL2 = some s') (ho : Obs s l)
    (hwf : ∀ j, (s.reg j = true ∨ s.inp j = true) → j < c.n) :
    ∃ ls', lstep ls l = some ls' ∧ Proj s' ls' := SyncQ.proj_step c s s' ls l hp st ho hwf
theorem proj_frame (c : Qsbr.Cfg) (s s' : Qsbr.State) (ls : LState) (l : Qsbr.Label)
    (hp : Proj s ls) (st : Qsbr.step c s l = some s') (ho : owned l = false) : Proj s' ls :=
  SyncQ.proj_frame c s s' ls l hp st ho

/-! ## non-vacuity -/

def envQ : Env :=
  { vars := fun _ => none,
    priv := fun l => if l = gpCtrQ then some (.int 3) else if l = tlsCtr then some (.int 3)
      else if l = .glob "CONFIG_RCU_EMIT_LEGACY_MB" then some (.int 0) else none }
def ssQ : SS := ⟨{ upc := .idle, gp := 2, reg := [0, 1], inp := [] }, none⟩

def labelsOfQ (trk : Bool) (r : Except String Out) (ss : SS) (wins : Wins) :
    Option (List LLabel × LState × Ctl × Nat × Bool) :=
  match r with
  | .ok o =>
    match absRun trk ss wins o.events with
    | .ok labs ss' _ => some (labs, ss'.ls, o.ctl, o.events.length, o.events.all RetSafe)
    | _ => none
  | _ => none

/-- a complete run of the GENERATED `urcu_qsbr_synchronize_rcu` by an online caller that becomes the leader, two readers
(reader 0 offline, reader 1 already at the new counter value 5 = encQ 3): 29 events (thread_offline, wait-queue push, both locks,
`cds_list_empty`, `uInc 3`, two `uScan`, splice `uEnd`, unlocks, wake-up iteration over the own wait node, thread_online), all
returned values safe -/
example : labelsOfQ false (exec 5 Gen.Src.«qsbr.urcu_qsbr_synchronize_rcu» envQ
      [.int 0, .int 1, .int 0, .ptr (.field (.glob "&wait") "node"), .int 0, .int 0,
       .ptr (.obj 0), .ptr (.obj 1), .int 0, .int 0, .int 0, .int 5, .int 0, .int 1, .int 0, .int 0, .int 0, .int 1, .int 2,
       .int 5]) ssQ [[]] =
    some ([.uInc false 3, .uScan 0 0, .uScan 1 3, .uEnd], { upc := .idle, gp := 3, reg := [0, 1], inp := [] }, .normal, 29,
      true) := by decide

/-- hypotheses of `qsbr_synchronize_rcu_refines_full` satisfiable -/
example : QI 2 V0 envQ ssQ := by
  refine ⟨rfl, rfl, rfl, by simp [envQ, encQ], ?_, trivial⟩
  intro l v hl hv
  simp only [envQ] at hv
  repeat' split at hv
  all_goals first | (simp at hv; subst hv; rfl) | simp at hv

/-- `thread_offline` of a caller whose `waiting` flag is set: the wake-up of the grace-period thread (store to own `waiting`,
load / store of `urcu_qsbr_gp.futex`, `futex_noasync`) – 8 events, no label, state unchanged -/
example : labelsOfQ false (exec 1 (.call none [] [] Gen.Src.«qsbr.urcu_qsbr_thread_offline») envQ
      [.int 1, .int (-1), .int 0]) ssQ [] = some ([], ssQ.ls, .normal, 8, true) := by decide

end UrcuVerif.Props.SrcSync2Qsbr
