import UrcuVerif.Props.SrcFork
import UrcuVerif.Src.Fork2Local
import UrcuVerif.Src.Fork2Refine
/-!
# Source refinement, component "fork hooks" (C16), part 2: `call_rcu_after_fork_child`, non-empty path

Final statements only (proofs: `Src/Fork2Local.lean`, `Src/Fork2Refine.lean`).  About the **generated**
`Gen.Src.«call_rcu_after_fork_child»` (with `get_default_call_rcu_data`, `call_rcu_data_init`, `_call_rcu_data_free`,
`_cds_wfcq_empty`, … as translated), every loop budget, every oracle of the stated class.
-/
set_option linter.unusedSimpArgs false
set_option maxRecDepth 8192
namespace UrcuVerif.Props.SrcFork2
open UrcuVerif UrcuVerif.Src UrcuVerif.Src.ForkL UrcuVerif.Src.ForkX UrcuVerif.Src.ForkR UrcuVerif.Src.Fork2L
  UrcuVerif.Src.Fork2R

/-- **lift**: a local step with the global guard (`aGuard`: the thread owns the inherited mutex; the mutex is free when a
lock is acquired; at the creation the list is the inherited non-empty one and the object handed out by `malloc` is L2's
`nextH`) is the enabled L2 step(s) `aL2` (`afcUnlock`, `afcCreate`, `afcDispose`), `ARel` (pc, `dflt = some d` once created)
is preserved.  `hd`: the new helper is not one of the inherited ones. -/
theorem after_fork_child_lift (c : Fork.Cfg) (s : Fork.State) (t : Nat) (ls ls' : ALState) (lab : ALabel) (hd : ls.d ∉ ls.l)
    (hr : ARel s t ls) (hl : astep ls lab = some ls') (hg : aGuard s t ls lab) :
    ∃ s', Fork.run c s (aL2 t ls lab) = some s' ∧ ARel s' t ls' := aproj_lift c s t ls ls' lab hd hr hl hg

/-- L2's `afcDone t` is the return of the call (no event): enabled at the local final state -/
theorem after_fork_child_done (c : Fork.Cfg) (s : Fork.State) (t : Nat) (ls : ALState) (hr : ARel s t ls)
    (hp : ls.pc = .lpTop []) :
    ∃ s', Fork.step c s (.afcDone t) = some s' ∧ s'.upc t = .idle ∧ s'.child = false ∧ s'.win = none ∧
      s'.list = s.list ∧ s'.dflt = s.dflt := afcDone_enabled c s t ls hr hp

/-- **`call_rcu_after_fork_child()`, non-empty path**, from the child's entry state (L2 `afcUnlock`; `l` = the inherited
helper list, `d` = the new helper), every loop budget, oracles `Chain (preConds d) (LoopInp d (d :: l))`: never fails; the
abstraction of the events is accepted by `astep`, i.e. it is

    unlock ; listEmpty false ; ldDflt NULL ; lock ; malloc d ; memset ; mutex_init ; listAdd d ; stDflt d ; sigfillset ;
    sigblock ; create d ; sigrestore ; unlock ; free_percpu ; stPerCpu ; first d ; next d ;
    ( next h ; stStopped h ; ldFl h (STOPPED) ; lock ; ldHead h NULL ; ldTail h &head ; listDel h ; unlock ; free h ) for h in l

(L2: `afcUnlock ; afcCreate ; afcDispose^|l|`, then `afcDone` at the return: `after_fork_child_done`): the default helper is
re-created under the mutex with signals blocked around `pthread_create`, published by a release store, the new default is
skipped, **every stale helper of the list gets `flags := STOPPED` and is unlinked and freed under the mutex, without STOP
handshake and without join**.  PARTIAL: the stale helpers' queues are found empty (`cds_wfcq_empty`); the splice of
left-over callbacks onto the new default helper is not covered.  Side conditions: no rculfhash atfork hook, the per-CPU
array pointer is an integer (NULL). -/
theorem call_rcu_after_fork_child_refines (l : List Nat) (d : Nat) (fuel : Nat) (env : Env) (inp : List Val)
    (hh : env.priv (.glob "registered_rculfhash_atfork") = some (.int 0))
    (hp : ∃ n : Int, env.priv percpuLoc = some (.int n)) (hi : Chain (preConds d) (LoopInp d (d :: l)) inp) :
    ∃ out, exec fuel Gen.Src.«call_rcu_after_fork_child» env inp = .ok out ∧
      ∃ ls', arun ⟨.acUnlock, l, d⟩ (out.events.filterMap absEvA) = some ls' ∧
        (out.ctl = .normal ∨ out.ctl = .blocked ∨ out.ctl = .fuel) ∧ (out.ctl = .normal → ls' = ⟨.lpTop [], l, d⟩) :=
  SrcFork.tri_unfold (after_fork_child_tri l d fuel) env inp ⟨.acUnlock, l, d⟩ ⟨hh, hp, hi, rfl⟩

/-! ## non-vacuity -/

def envC : Env where
  vars _ := none
  priv l := if l = .glob "registered_rculfhash_atfork" then some (.int 0)
    else if l = .glob "per_cpu_call_rcu_data" then some (.int 0) else none

/-- inherited list `[3]`, new helper 7 -/
def inpC : List Val :=
  [.int 0, .int 0, .int 0, .int 0, .ptr (.obj 7), .int 0, .int 0, .int 0, .int 0, .int 0, .int 0, .int 0, .int 0, .int 0,
    .ptr (.obj 7), .ptr (.obj 3), .int 0, .int (8 : Nat), .int 0, .int 0, .ptr (.field (.obj 3) "cbs_head"), .int 0, .int 0,
    .int 0]

theorem inpC_ok : Chain (preConds 7) (LoopInp 7 [7, 3]) inpC := by
  refine ⟨rfl, rfl, rfl, rfl, rfl, trivial, trivial, trivial, trivial, trivial, rfl, trivial, rfl, trivial, rfl, ?_⟩
  show Chain [isAns _] _ _
  refine ⟨rfl, ?_⟩
  show Chain [isAns _, isStopped, isZero, isZero, isHeadOf 3, isAny, isZero, isAny] _ _
  exact ⟨rfl, ⟨8, rfl, by decide⟩, rfl, rfl, rfl, trivial, rfl, trivial, trivial⟩

example := call_rcu_after_fork_child_refines [3] 7 3 envC inpC (by simp [envC]) ⟨0, by simp [envC, percpuLoc]⟩ inpC_ok

/-- 26 labels; ends at `lpTop []` -/
example : ∃ out, exec 3 Gen.Src.«call_rcu_after_fork_child» envC inpC = .ok out ∧
    out.events.filterMap absEvA = [.unlock, .listEmpty false, .ldDflt none, .lock, .malloc (some 7), .call "memset",
      .call "pthread_mutex_init", .listAdd 7, .stDflt 7, .call "sigfillset", .call "sigblock", .create 7, .call "sigrestore",
      .unlock, .call "free_percpu", .stPerCpu, .first (some 7), .next 7 (some 3), .next 3 none, .stStopped 3, .ldFl 3 8,
      .lock, .ldHead 3 true, .ldTail 3 true, .listDel 3, .unlock, .free 3] ∧
    alr ⟨.acUnlock, [3], 7⟩ out.events = some ⟨.lpTop [], [3], 7⟩ ∧ out.ctl = .normal := by
  simp [Gen.Src.«call_rcu_after_fork_child», Gen.Src.«call_rcu_unlock», Gen.Src.«call_rcu_lock»,
    Gen.Src.«get_default_call_rcu_data», Gen.Src.«call_rcu_data_init», Gen.Src.«_cds_wfcq_init»,
    Gen.Src.«_cds_wfcq_node_init», Gen.Src.«cpus_array_len_reset», Gen.Src.«_call_rcu_data_free», Gen.Src.«_cds_wfcq_empty»,
    iterate, inpC, envC, block, exec, eval, evalArgs, execPrim, bindParams, Env.setVar, Env.setPriv, setDst, asLoc, bind,
    Except.bind, evalBin, evalUn, boolV, Val.truthy, absEvA, List.filterMap_cons, alr, arun, astep, crExpect, ForkL.bit, hval,
    listHead, mutexLoc, dfltLoc, percpuLoc]

/-- the L2 side of such a run (`after_fork_child_lift` along `unlock ; … ; lock ; … ; lock ; …`): helper 0 paused, thread 0
forks, the child re-creates the default helper (id 1) and disposes helper 0 -/
example : ((Fork.run ⟨1⟩ Fork.init [.createDflt 0, .hStart 0, .bfLock 0, .bfPause 0, .bfPauseDone 0, .hTop 0, .hUnreg 0,
      .hSetPaused 0, .bfWait 0, .bfRet 0, .forkChild 0, .afcUnlock 0, .afcCreate 0, .afcDispose 0, .afcDone 0]).map
    (fun s => s.upc 0 == .idle && s.list == [1] && s.dflt == some 1 && s.freed 0 && s.stopped 0 && s.mutex == none)) =
    some true := by decide

end UrcuVerif.Props.SrcFork2
