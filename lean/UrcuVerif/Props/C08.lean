import UrcuVerif.Lfht.Seq.Enabled
/-!
# C08 — Hash table: sequential behaviour equals a reference multimap for all inputs

Statements only (helper lemmas: `UrcuVerif/Lfht/Bits.lean`, `UrcuVerif/Lfht/Seq/*.lean`).

* Model: `Lfht/Seq/Model.lean`, `Ops.lean` – the chain of `struct cds_lfht_node` behind
  `bucket_at(ht, 0)` as a list, every API function written as the C loop goes (bucket look-up
  by `hash & (size-1)`, walks comparing `reverse_hash`/flags/`match`, flag + gc for removal,
  level-wise grow/shrink, `cds_lfht_create_bucket`, parameter normalisation of
  `_cds_lfht_new_with_alloc`).
* Specification: `Lfht/Seq/Spec.lean` – `MM`, a multimap `(hash, key) ↦ list of node ids` plus
  the per-node state (stored / removed), with the relation `Spec.Step`.
* Tie: `harness/scen/lfht_seq.c` runs the real `src/rculfhash.c` (+ allocators, workqueue,
  urcu-memb) on generated configurations and operation sequences; `Driver/Lfht.lean` replays every
  line on `step`, `newNorm`, `bitReverse64`, `fls`, `countOrder`.

Everything below is proved for **all** operation sequences, hashes, keys, node ids, table
sizes `2^k` (`k < 64`) and accepted configurations – by induction / invariants, no sampling.
No API-contract hypothesis "equal keys ⇒ equal hashes" is needed: the multimap is keyed by the
pair `(hash, key)`, which is what the code compares (see `Spec.lean`).
-/
namespace UrcuVerif.Lfht.Seq
open UrcuVerif.Lfht

/-- run a sequence of API calls on the model -/
def runOps : Table → List Op → Option (Table × List Out)
  | t, [] => some (t, [])
  | t, op :: ops =>
    match step t op with
    | none => none
    | some (t', o) => (runOps t' ops).map fun r => (r.1, o :: r.2)

/-- a run of the reference multimap -/
inductive SpecRun : MM → List Op → List Out → MM → Prop
  | nil (m) : SpecRun m [] [] m
  | cons {m m' m'' op out ops outs} : Spec.Step m op out m' → SpecRun m' ops outs m'' →
      SpecRun m (op :: ops) (out :: outs) m''

def MM.empty : MM := ⟨fun _ _ => [], fun _ => none⟩

/-- **seq_refines_multimap** (simulation, full strength): from any well-formed table state,
every sequence of API calls with `unsigned long` arguments that the model executes returns
exactly the outputs of a run of the reference multimap started in the abstraction of that
state, ends in the abstraction of the final state, and the final state is well-formed. -/
theorem seq_refines_multimap {t t' : Table} {ops : List Op} {outs : List Out} (h : WF t)
    (hok : ∀ op ∈ ops, OpOk op) (hr : runOps t ops = some (t', outs)) :
    SpecRun (abs t) ops outs (abs t') ∧ WF t' := by
  induction ops generalizing t outs with
  | nil =>
    simp only [runOps, Option.some.injEq, Prod.mk.injEq] at hr
    obtain ⟨rfl, rfl⟩ := hr
    exact ⟨SpecRun.nil _, h⟩
  | cons op ops ih =>
    simp only [runOps] at hr
    cases hs : step t op with
    | none => simp [hs] at hr
    | some p =>
      obtain ⟨t1, o⟩ := p
      simp only [hs] at hr
      cases hr1 : runOps t1 ops with
      | none => simp [hr1] at hr
      | some q =>
        obtain ⟨t2, os⟩ := q
        simp only [hr1, Option.map_some, Option.some.injEq, Prod.mk.injEq] at hr
        obtain ⟨rfl, rfl⟩ := hr
        obtain ⟨s1, w1⟩ := step_refines h (hok op (List.mem_cons_self ..)) hs
        obtain ⟨s2, w2⟩ := ih w1 (fun x hx => hok x (List.mem_cons_of_mem _ hx)) hr1
        exact ⟨SpecRun.cons s1 s2, w2⟩

/-- one-step form: `R t m → WF t → result_t = result_m ∧ R t' m' ∧ WF t'` with `R t m := m = abs t` -/
theorem seq_refines_multimap_step {t t' : Table} {op : Op} {out : Out} (h : WF t) (hop : OpOk op)
    (hs : step t op = some (t', out)) : Spec.Step (abs t) op out (abs t') ∧ WF t' :=
  step_refines h hop hs

/-- **seq_no_stuck**: the model executes every call that respects the API contract `Enabled`
(so the simulation theorem is not vacuous and every legal sequence runs to its end). -/
theorem seq_no_stuck {t : Table} {op : Op} (h : WF t) (hop : OpOk op) (he : Enabled (abs t) op) :
    ∃ t' out, step t op = some (t', out) :=
  step_enabled h hop he

/-- **traversal_exactly_once**: `cds_lfht_first` / `cds_lfht_next` until NULL returns every stored
node exactly once, no node twice, and nothing else (in particular no bucket node). -/
theorem traversal_exactly_once {t : Table} (h : WF t) :
    ∃ l, step t .traverse = some (t, .ids l) ∧ l.Nodup ∧ (∀ id, id ∈ l ↔ (abs t).stored id) ∧
      l = (t.list.filter (fun e => !e.bucket)).map (·.id) :=
  ⟨userIds t.list, step_traverse h, h.linv.nodup, fun _ => stored_iff.symm, rfl⟩

/-- **count_nodes_exact**: `*count` of `cds_lfht_count_nodes` is the number of stored nodes
(= the length of the full traversal). -/
theorem count_nodes_exact {t : Table} (h : WF t) :
    ∃ l, step t .traverse = some (t, .ids l) ∧ step t .countNodes = some (t, .count l.length) ∧
      l.Nodup ∧ (∀ id, id ∈ l ↔ (abs t).stored id) :=
  ⟨userIds t.list, step_traverse h, step_countNodes h, h.linv.nodup, fun _ => stored_iff.symm⟩

/-- **destroy_iff_empty**: `cds_lfht_destroy` returns 0 iff no node is stored, else `-EPERM`. -/
theorem destroy_iff_empty {t : Table} (h : WF t) :
    ∃ r, step t .destroy = some (t, .ret r) ∧ (r = 0 ∨ r = -EPERM) ∧ (r = 0 ↔ ∀ id, ¬ (abs t).stored id) := by
  refine ⟨_, step_destroy h, ?_, ?_⟩
  · split
    · exact Or.inl rfl
    · exact Or.inr rfl
  · by_cases he : userIds t.list = []
    · simp only [he, if_true, true_iff]
      intro id hs; have := stored_iff.1 hs; rw [he] at this; cases this
    · simp only [he, if_false]
      constructor
      · intro h0; simp [EPERM] at h0
      · intro hall; exfalso; apply he
        cases hl : userIds t.list with
        | nil => rfl
        | cons x xs => exact absurd (stored_iff.2 (hl ▸ List.mem_cons_self ..)) (hall x)

/-- **resize_preserves_contents**: `cds_lfht_resize(ht, n)` (every `n`, also 0, non powers of
two, `> max`) leaves the user nodes and their order untouched, hence every later result; the new
size is the clamped request rounded up to a power of two, within `[1, max_nr_buckets]`. -/
theorem resize_preserves_contents {t : Table} (h : WF t) (n : Nat) :
    ∃ t', step t (.resize n) = some (t', .unit) ∧ WF t' ∧ abs t' = abs t ∧
      t'.list.filter (fun e => !e.bucket) = t.list.filter (fun e => !e.bucket) ∧
      t'.size = normTarget t.maxB n ∧ 1 ≤ t'.size ∧ t'.size ≤ t.maxB := by
  obtain ⟨t1, e1, w, hsz, hu, hd, hm⟩ := resize_spec h n
  refine ⟨t1, by simp [step, e1], w, abs_eq_of_users hu hd, hu, hsz, w.size_pos, ?_⟩
  obtain ⟨m, _, _, hle⟩ := w.max_pow
  rw [← hm]; exact hle

theorem mem_chain_iff {t : Table} (h : WF t) {hash key id : Nat} (hh : hash < 2^64) :
    id ∈ (abs t).chain hash key ↔ (abs t).info id = some (true, hash, key) := by
  simp only [abs, absChain, hh, if_true, absInfo, List.mem_map, List.mem_filter]
  constructor
  · rintro ⟨e, ⟨hel, hR⟩, rfl⟩
    simp only [isNodeR, Bool.and_eq_true, Bool.not_eq_true', beq_iff_eq] at hR
    rw [findUser_of_mem h.linv hel hR.1.1]
    simp [hR.1.2, hR.2, bitrev64_involutive _ hh]
  · intro hi
    cases hf : findUser t.list id with
    | none =>
      rw [hf] at hi
      cases hd : t.dead.find? (fun e => e.id == id) <;> simp [hd] at hi
    | some e =>
      rw [hf] at hi
      simp only [Option.some.injEq, Prod.mk.injEq, true_and] at hi
      have hel : e ∈ t.list := List.mem_of_find?_eq_some hf
      have hu : isUser id e = true := List.find?_some (p := isUser id) hf
      simp only [isUser, Bool.and_eq_true, Bool.not_eq_true', beq_iff_eq] at hu
      refine ⟨e, ⟨hel, ?_⟩, hu.2⟩
      simp only [isNodeR, Bool.and_eq_true, Bool.not_eq_true', beq_iff_eq]
      refine ⟨⟨hu.1, ?_⟩, hi.2⟩
      rw [← hi.1, bitrev64_involutive _ (h.linv.revlt e hel)]

/-- **lookup_finds_iff_present**: `cds_lfht_lookup` + `cds_lfht_next_duplicate` until NULL returns
exactly the stored nodes with that hash and key, each once (so in particular: finds a node iff
one is present). -/
theorem lookup_finds_iff_present {t : Table} (h : WF t) {hash key : Nat} (hh : hash < 2^64) :
    ∃ l, step t (.lookup hash key) = some (t, .ids l) ∧ l.Nodup ∧
      (∀ id, id ∈ l ↔ (abs t).info id = some (true, hash, key)) ∧
      (l ≠ [] ↔ ∃ id, (abs t).info id = some (true, hash, key)) := by
  refine ⟨_, step_lookup h hh, absChain_nodup h hash key, fun id => mem_chain_iff h hh, ?_⟩
  constructor
  · intro hne
    cases hl : (abs t).chain hash key with
    | nil => exact absurd hl hne
    | cons x xs => exact ⟨x, (mem_chain_iff h hh).1 (hl ▸ List.mem_cons_self ..)⟩
  · rintro ⟨id, hi⟩ hnil
    have := (mem_chain_iff h hh).2 hi
    rw [hnil] at this; cases this

/-- **new_normalises**: `_cds_lfht_new_with_alloc` accepts exactly the documented argument
combinations and an accepted call yields a well-formed empty table whose sizes are the
normalised ones (`1 ≤ size ≤ max`, powers of two; `max < init` ⇒ size clamped, `min > max` ⇒
max raised, `max = 0` ⇒ `2^63` with the order allocator only, allocator-specific
`min_nr_alloc_buckets`). -/
theorem new_normalises (page init minA maxB flags : Nat) (mm : Option Mm) (hpage : IsPow2 page)
    (hm : minA < 2^64) (hx : maxB < 2^64) :
    ((newNorm page init minA maxB flags mm).isSome ↔ NewAccepts init minA maxB mm) ∧
    ∀ c, newNorm page init minA maxB flags mm = some c →
      (c.mm = resolveMm mm maxB ∧ c.flags = flags ∧ c.maxB = effMax minA maxB ∧ c.size = min init c.maxB ∧
       c.minAlloc = effMinAlloc page minA c.maxB c.mm ∧
       (∃ k, k < 64 ∧ c.size = 2^k) ∧ (∃ m, m < 64 ∧ c.maxB = 2^m) ∧ 1 ≤ c.size ∧ c.size ≤ c.maxB ∧
       c.minAlloc = 2^c.minAllocOrder ∧ minA ≤ c.minAlloc ∧ c.minAlloc ≤ c.maxB) ∧
      ∃ t, Table.ofCfg c = some t ∧ WF t ∧ abs t = MM.empty ∧ t.size = c.size ∧ t.maxB = c.maxB := by
  refine ⟨newNorm_isSome_iff .., fun c hc => ⟨newNorm_some hpage hm hx hc, ?_⟩⟩
  obtain ⟨t, a1, a2, a3, a4, a5, a6⟩ := ofCfg_wf hpage hm hx hc
  refine ⟨t, a1, a2, ?_, a5, a6⟩
  simp only [abs, MM.empty, MM.mk.injEq]
  constructor
  · funext h k
    simp only [absChain]
    split
    · have : t.list.filter (isNodeR (bitReverse64 h) k) = [] := by
        apply List.filter_eq_nil_iff.2
        intro x hx hR
        have : x.id ∈ userIds t.list := ids_filter_subset (List.mem_map_of_mem (List.mem_filter.2 ⟨hx, hR⟩))
        rw [a3] at this; cases this
      rw [this]; rfl
    · rfl
  · funext i
    simp only [absInfo, a4, List.find?_nil, Option.map_none]
    cases hf : findUser t.list i with
    | none => rfl
    | some e =>
      have : i ∈ userIds t.list := findUser_isSome.1 (by simp [hf])
      rw [a3] at this; cases this

/-- **bitrev_split_order**: what the split-ordered list relies on.  With `2^k` buckets
(`k ≤ 64`) a node of hash `h` lives in bucket `h & (2^k-1)` and that bucket's dummy node
(`reverse_hash = bit_reverse(index)`) does not sort behind it; the parent of bucket `j`
(`j` with its top bit cleared) sorts strictly before `j`; nothing sorts between a parent and
its child while only the buckets below the child are linked; bit reversal is injective. -/
theorem bitrev_split_order :
    (∀ k h, k ≤ 64 → bitReverse64 (h &&& (2^k - 1)) ≤ bitReverse64 h) ∧
    (∀ i j, i < 64 → 2^i ≤ j → j < 2^(i+1) → bitReverse64 (j - 2^i) < bitReverse64 j) ∧
    (∀ k i x, k < 64 → i < 2^k → x < 2^(k+1) → x ≠ 2^k + i → bitReverse64 i < bitReverse64 x →
        bitReverse64 (2^k + i) < bitReverse64 x) ∧
    (∀ a b, a < 2^64 → b < 2^64 → bitReverse64 a = bitReverse64 b → a = b) :=
  ⟨bitrev_bucket_le, bitrev_parent_lt, bitrev_no_between, fun _ _ ha hb => bitrev64_injective ha hb⟩

/-- the full-strength statement of C08 -/
def C08_full : Prop :=
  ∀ (page init minA maxB flags : Nat) (mm : Option Mm), IsPow2 page → minA < 2^64 → maxB < 2^64 →
    ((newNorm page init minA maxB flags mm).isSome ↔ NewAccepts init minA maxB mm) ∧
    ∀ c, newNorm page init minA maxB flags mm = some c →
      ∃ t0, Table.ofCfg c = some t0 ∧ abs t0 = MM.empty ∧ 1 ≤ t0.size ∧ t0.size ≤ t0.maxB ∧
        ∀ ops t outs, (∀ op ∈ ops, OpOk op) → runOps t0 ops = some (t, outs) →
          -- same results as the reference multimap started empty …
          SpecRun MM.empty ops outs (abs t) ∧
          -- … the run can always be continued by any legal call …
          (∀ op, OpOk op → Enabled (abs t) op → ∃ t' out, step t op = some (t', out)) ∧
          -- … traversal visits every stored node exactly once, count is exact, destroy iff empty
          (∃ l, step t .traverse = some (t, .ids l) ∧ step t .countNodes = some (t, .count l.length) ∧
              l.Nodup ∧ ∀ id, id ∈ l ↔ (abs t).stored id) ∧
          (∃ r, step t .destroy = some (t, .ret r) ∧ (r = 0 ↔ ∀ id, ¬ (abs t).stored id))

theorem C08_full_holds : C08_full := by
  intro page init minA maxB flags mm hpage hm hx
  obtain ⟨h1, h2⟩ := new_normalises page init minA maxB flags mm hpage hm hx
  refine ⟨h1, fun c hc => ?_⟩
  obtain ⟨hn, t0, a1, a2, a3, a4, a5⟩ := h2 c hc
  refine ⟨t0, a1, a3, a2.size_pos, ?_, ?_⟩
  · obtain ⟨m, _, _, hle⟩ := a2.max_pow; exact hle
  intro ops t outs hok hr
  obtain ⟨s, w⟩ := seq_refines_multimap a2 hok hr
  rw [a3] at s
  obtain ⟨l, b1, b2, b3, b4⟩ := count_nodes_exact w
  obtain ⟨r, c1, _, c3⟩ := destroy_iff_empty w
  exact ⟨s, fun op hop he => seq_no_stuck w hop he, ⟨l, b1, b2, b3, b4⟩, ⟨r, c1, c3⟩⟩

/-! ## Non-vacuity: the hypotheses are satisfiable by concrete, non-trivial states and runs -/

/-- an accepted configuration (`max < init`: size clamped to 8) and its initial table -/
def exCfg : Option Cfg := newNorm 256 16 1 8 0 (some .order)
def exTable : Table := (exCfg.bind Table.ofCfg).getD default

example : NewAccepts 16 1 8 (some .order) := ⟨⟨0, rfl⟩, ⟨4, rfl⟩, Or.inl ⟨3, rfl⟩⟩
example : exCfg = some ⟨8, 1, 0, 8, .order, 0⟩ := by decide +kernel
example : ¬ NewAccepts 16 1 0 (some .chunk) := by
  rintro ⟨-, -, ⟨k, hk⟩ | ⟨-, h⟩⟩
  · exact absurd hk.symm (Nat.ne_of_gt (Nat.pow_pos (by decide)))
  · cases h
example : newNorm 256 16 1 0 0 (some .chunk) = none := by decide +kernel
example : newNorm 256 12 1 8 0 none = none := by decide +kernel

/-- bucket nodes of the 8-bucket table in split order -/
example : exTable.list.map (·.id) = [0, 4, 2, 6, 1, 5, 3, 7] := by decide +kernel

/-- `WF` holds for the concrete initial table (hypothesis of every theorem above) -/
example : WF exTable := by
  have h := (new_normalises 256 16 1 8 0 (some .order) ⟨8, rfl⟩ (by decide) (by decide)).2
  obtain ⟨-, t, ht, w, -⟩ := h ⟨8, 1, 0, 8, .order, 0⟩ (by decide +kernel)
  have : exTable = t := by
    have e : exCfg = some ⟨8, 1, 0, 8, .order, 0⟩ := by decide +kernel
    simp [exTable, e, ht]
  rw [this]; exact w

/-- a concrete run with colliding hashes and duplicate keys: hash 5 three times (two keys), plus
hash `2^63+5` that differs in the top bit only; unique/replace/duplicate-chain/resize/traversal/
del/replace/count/destroy all exercised -/
example : (runOps exTable [.add 1 5 7, .add 2 5 7, .add 3 5 9, .add 4 (2^63 + 5) 7, .addUnique 5 5 7,
      .addReplace 6 5 7, .lookup 5 7, .lookup 5 9, .lookup (2^63 + 5) 7, .resize 3, .traverse, .del (some 2),
      .del (some 2), .replace (some 6) 7 5 7, .replace (some 6) 8 5 7, .replace (some 7) 8 5 9, .countNodes, .destroy,
      .resize 0, .lookup 5 7, .traverse]).map (·.2)
    = some [.unit, .unit, .unit, .unit, .node (some 1), .node (some 1), .ids [6, 2], .ids [3], .ids [4], .unit,
            .ids [6, 2, 3, 4], .ret 0, .ret (-2), .ret 0, .ret (-2), .ret (-22), .count 3, .ret (-1),
            .unit, .ids [7], .ids [7, 3, 4]] := by decide +kernel

/-- API misuse is not enabled (adding a node that is already stored) -/
example : (runOps exTable [.add 1 5 7, .add 1 6 7]) = none := by decide +kernel

end UrcuVerif.Lfht.Seq
