import UrcuVerif.Lfht.ResizeLemmasTs
import UrcuVerif.Lfht.ResizeLemmasMm
/-!
# C09 — Hash table resize terminates, preserves contents, respects bucket bounds
(the arithmetic / sequencing core)

Statements only; helper lemmas live in `Lfht/ResizeLemmas.lean` (pure helpers),
`Lfht/ResizeLemmasTs.lean` (invariants of the transition system) and `Lfht/ResizeLemmasMm.lean`
(allocators).  Models: `Lfht/Resize.lean`, `Lfht/Mm.lean`.  Tie: `harness/scen/lfht_resize.c` runs the real
`src/rculfhash.c`, the three allocators and `src/workqueue.c`; `Driver/LfhtResize.lean` replays its lines
on the same executable functions the theorems below are about.

Not proved here (other components): that a resize never changes which *nodes* are found
(sequential: C08 `resize_preserves_contents`; lookups concurrent with a resize: C05).  This
component proves the order of the bucket-table events those proofs rely on (`alloc_before_publish`,
`event_order_invariant`); the harness checks the contents claim as an implementation oracle.
-/
namespace UrcuVerif.C09
open UrcuVerif.Gen UrcuVerif.Lfht.Resize UrcuVerif.Lfht.Mm

/-! ## termination and bounds of `cds_lfht_resize` -/

/-- **resize_terminates** (current code): for every maximum `2^m ≤ 2^63`, every current size `2^k ≤ 2^m`
and **every** request (0, non powers of two, above the maximum, `ULONG_MAX`, indeed any natural number)
the `do … while (size != target)` loop of `_do_cds_lfht_resize` ends after one pass, with
`size = resize_target` = the least power of two ≥ the clamped request, which lies in `[1, max]`. -/
theorem resize_terminates {m k : Nat} (hm : m ≤ 63) (hk : k ≤ m) (req : Nat) :
    ∃ fuel, fuel ≤ 1 ∧ doResize fuel (2 ^ m) (2 ^ k) req = some (resizeTargetUpdateCount (2 ^ m) req) ∧
      ∃ j, j ≤ m ∧ resizeTargetUpdateCount (2 ^ m) req = 2 ^ j ∧ clampCount (2 ^ m) req ≤ 2 ^ j ∧
        ∀ j', clampCount (2 ^ m) req ≤ 2 ^ j' → j ≤ j' := by
  obtain ⟨j, hj, he, h1, h2⟩ := resize_target_pow2_in_bounds hm req
  refine ⟨1, Nat.le_refl _, ?_, j, hj, he, h1, h2⟩
  unfold doResize
  rw [he]
  simp [doResizeLoop, resize_reaches_pow2_target (show j ≤ 63 by omega) (show k ≤ 63 by omega)]

example : doResize 1 64 1 3 = some 4 := by decide
example : doResize 1 (2 ^ 63) 8 (2 ^ 64 - 1) = some (2 ^ 63) := by decide
example : doResize 1 64 64 0 = some 1 := by decide

/-- **concurrent form**: whatever power-of-two target (within bounds) an iteration reads, the
iteration ends with `size =` that target if the target does not change during the iteration. -/
theorem resize_reaches_pow2_target {j k : Nat} (hj : j ≤ 63) (hk : k ≤ 63) : resizeIter (2 ^ j) (2 ^ k) = 2 ^ j :=
  Lfht.Resize.resize_reaches_pow2_target hj hk

/-- **resize_diverges_unfixed** – the record of the finding of DESIGN §5 item 1.  With
`resize_target_update_count` as it was before commit "fix: round cds_lfht_resize() target up to a
power of two" (clamp, no rounding), every request whose clamped value is not a power of two makes
the loop run forever: no amount of fuel lets it reach `size = target`. -/
theorem resize_diverges_unfixed {m k : Nat} (req : Nat)
    (hnp : andTest (resizeTargetUpdateCountUnfixed (2 ^ m) req) = false) :
    ∀ fuel, doResizeUnfixed fuel (2 ^ m) (2 ^ k) req = none := by
  intro fuel
  exact doResizeLoop_diverges hnp fuel _ ((andTest_iff _).mpr (Or.inr ⟨k, rfl⟩))

/-- concrete witness replayed on the implementation by the harness' watchdog:
table of 1 bucket, `cds_lfht_resize(ht, 3)` -/
theorem resize_diverges_unfixed_witness : ∀ fuel, doResizeUnfixed fuel 64 1 3 = none :=
  resize_diverges_unfixed (m := 6) (k := 0) 3 (by decide)

example : doResizeUnfixed 40 64 4 3 = none := by decide
example : doResizeUnfixed 40 64 2 6 = none := by decide
example : doResizeUnfixed 1 64 8 0 = some 1 := by decide      -- 8→0 and 1→2 did return

/-- every value `resize_target_update_count` stores -/
theorem resize_target_pow2_in_bounds {m : Nat} (hm : m ≤ 63) (req : Nat) :
    ∃ k, k ≤ m ∧ resizeTargetUpdateCount (2 ^ m) req = 2 ^ k ∧ clampCount (2 ^ m) req ≤ 2 ^ k ∧
      ∀ j, clampCount (2 ^ m) req ≤ 2 ^ j → k ≤ j :=
  Lfht.Resize.resize_target_pow2_in_bounds hm req

/-! ## bounds in every reachable state, lazy requests racing -/

/-- **size_in_bounds**: in every reachable state of the transition system (any number of threads issuing
lazy grow / lazy count / `cds_lfht_resize` concurrently with the resizer, any interleaving)
`1 ≤ size ≤ max_nr_buckets` and `size` is a power of two. -/
theorem size_in_bounds {c : Cfg} (hc : c.mo ≤ 63) {k : Nat} (hk : k ≤ c.mo) {s : State} (h : Reach c k s) :
    1 ≤ s.size ∧ s.size ≤ c.mx ∧ ∃ j, s.size = 2 ^ j := by
  obtain ⟨j, hj, he⟩ := (inv_reach hc hk h).a.size_p
  exact ⟨by rw [he]; exact Nat.two_pow_pos j, by rw [he]; exact two_pow_le_two_pow.mpr hj, j, he⟩

/-- every value ever stored in `resize_target` (by `resize_target_update_count`, the monotonic-increase
xchg of the lazy grow paths, the cmpxchg of the lazy shrink) is a power of two in `[1, max]`; so is the
value every pending lazy-shrink cmpxchg is about to store. -/
theorem stored_targets_in_bounds {c : Cfg} (hc : c.mo ≤ 63) {k : Nat} (hk : k ≤ c.mo) {s : State} (h : Reach c k s) :
    (1 ≤ s.target ∧ s.target ≤ c.mx ∧ ∃ j, s.target = 2 ^ j) ∧
      ∀ t sz cnt, s.apc t = .cas sz cnt → ∃ j, j ≤ c.mo ∧ cnt = 2 ^ j := by
  have I := (inv_reach hc hk h).a
  obtain ⟨j, hj, he⟩ := I.tgt_p
  exact ⟨⟨by rw [he]; exact Nat.two_pow_pos j, by rw [he]; exact two_pow_le_two_pow.mpr hj, j, he⟩, I.cas_p⟩

/-- **count_args_pow2**: the `count` that `ht_count_add` / `ht_count_del` hand to
`cds_lfht_resize_lazy_count` has passed `!(count & (count - 1))`: it is 0 or a power of two
(0 is then raised to `MIN_TABLE_SIZE` by the clamp). -/
theorem count_args_pow2 :
    (∀ sc cnt size c x, htCountAdd sc cnt size = (c, some x) → x = 0 ∨ ∃ k, x = 2 ^ k) ∧
    (∀ mask sc cnt size c x, htCountDel mask sc cnt size = (c, some x) → x = 0 ∨ ∃ k, x = 2 ^ k) :=
  ⟨fun _ _ _ _ _ h => (andTest_iff _).mp (count_args_pow2_add h),
   fun _ _ _ _ _ _ h => (andTest_iff _).mp (count_args_pow2_del h)⟩

theorem lazy_grow_target_in_bounds {m tgt : Nat} (b g : Nat) (ht : P2 m tgt) :
    P2 m (lazyGrow (2 ^ m) tgt (2 ^ b) g).1 :=
  Lfht.Resize.lazy_grow_target_in_bounds b g ht

theorem lazy_count_target_in_bounds {m tgt : Nat} (auto : Bool) (size count : Nat) (ht : P2 m tgt)
    (hc : count = 0 ∨ ∃ k, count = 2 ^ k) : P2 m (lazyCount auto (2 ^ m) tgt size count).1 :=
  Lfht.Resize.lazy_count_target_in_bounds auto size count ht ((andTest_iff _).mpr hc)

/-! ## lazy shrink versus pending grow -/

/-- **lazy_shrink_never_overrides_grow**: under arbitrary interference (`obs k` = the value the `k`-th
cmpxchg finds) the three exits of the loop are: *stored* — then the value replaced was exactly the
`size'` the loop was comparing with, `size' ≤` the size the caller saw (so a target above the caller's
size, i.e. a pending grow, is never overwritten) and the stored `count` is below it (the target only
goes down); *growing* — the target was above `size'`, nothing stored; *other shrink* — the target was
already `≤ count`, nothing stored. -/
theorem lazy_shrink_never_overrides_grow (obs : Nat → Nat) {count fuel k size k' size' : Nat} {o : CasOut}
    (hlt : count < size) (h : shrinkLoop obs count fuel k size = some (k', size', o)) :
    size' ≤ size ∧ count < size' ∧
      match o with
      | .stored => obs k' = size'
      | .growing => obs k' > size'
      | .otherShrink => obs k' ≤ count ∧ obs k' < size'
      | .retry _ => False := by
  obtain ⟨h1, h2, h3, h4⟩ := shrinkLoop_spec obs count fuel k size k' size' o h
  refine ⟨h1, h2 hlt, ?_⟩
  unfold shrinkCas at h3
  cases o with
  | retry s => exact absurd rfl (h4 s)
  | stored => (repeat' split at h3) <;> first | assumption | cases h3
  | growing => (repeat' split at h3) <;> first | (cases h3; done) | omega
  | otherShrink => (repeat' split at h3) <;> first | (cases h3; done) | omega

/-- a grow pending at the first cmpxchg makes the lazy shrink return at once -/
example (obs : Nat → Nat) (count f k size : Nat) (h : obs k > size) :
    shrinkLoop obs count (f + 1) k size = some (k, size, .growing) := by
  simp only [shrinkLoop, shrinkCas]
  rw [if_neg (by omega), if_pos h]

/-- the loop ends whatever the other threads do (each retry strictly lowers `size`, which stays above `count`) -/
theorem lazy_shrink_terminates (obs : Nat → Nat) (count k size : Nat) :
    ∃ r, shrinkLoop obs count (size - count + 1) k size = some r :=
  shrinkLoop_terminates obs count (size - count) k size (by omega)

/-! ## partitioned populate / remove -/

/-- **partition_covers** -/
theorem partition_covers (a c : Nat) (mask : Int) (hmask : mask < 0 ∨ mask = Int.ofNat (2 ^ c - 1))
    (callocFails : Bool) (failAt : Option Nat) (j : Nat) :
    coverCount (partitionPlan mask (2 ^ a) callocFails failAt) j = if j < 2 ^ a then 1 else 0 :=
  Lfht.Resize.partition_covers a c mask hmask callocFails failAt j

example : partitionPlan 15 (2 ^ 20) false (some 3) = ([(0, 65536), (65536, 65536), (131072, 65536)], some (196608, 851968)) := by
  decide

/-! ## order of allocate / populate / publish / unpublish / remove / free -/

/-- **alloc_before_publish**: in every reachable state every level the published `size` covers is
allocated *and* populated (`linked`). -/
theorem alloc_before_publish {c : Cfg} (hc : c.mo ≤ 63) {k : Nat} (hk : k ≤ c.mo) {s : State} (h : Reach c k s)
    (hd : s.dead = false) : ∀ j, j ≤ order s.size → s.lvl j = .linked := by
  have I := inv_reach hc hk h
  have hl := I.l.lv hd
  have h4 := I.a.rpc_ok
  obtain ⟨a, -, hsz⟩ := I.a.size_p
  have hos : order s.size = a := by rw [hsz, order_two_pow]
  intro j hj
  rw [hos] at hj
  cases hr : s.rpc <;> simp only [LvlOk, hr] at hl <;> simp only [RpcOk, hr, hsz, two_pow_eq_iff] at h4 <;>
    (try simp only [base, hos, FrOk] at hl) <;> grind

/-- **event_order_invariant** (`free_after_two_gps` included): no reachable state has broken one of the
rules the model's `bad` flag records – allocate an absent level only; populate an allocated level only;
publish `size = 2^i` only when level `i` is populated; remove a level only after the size was lowered and a
grace period elapsed since; free a level only after a further grace period; never touch the table after
`cds_lfht_delete_bucket` freed it; the destroy work runs with the mutex free and an empty queue. -/
theorem event_order_invariant {c : Cfg} (hc : c.mo ≤ 63) {k : Nat} (hk : k ≤ c.mo) {s : State} (h : Reach c k s) :
    s.bad = false :=
  (inv_reach hc hk h).l.nbad

/-! ## termination of the resizer under concurrency -/

/-- **resizer_terminates_after_last_change**: from *any* reachable state (in the middle of a grow, a
shrink, anywhere), if `resize_target` is not changed any more and no destroy is in progress, the thread
holding `resize_mutex` releases it after at most 1100 of its own steps, with `size = resize_target`. -/
theorem resizer_terminates_after_last_change {c : Cfg} (hc : c.mo ≤ 63) {k : Nat} (hk : k ≤ c.mo) {s : State}
    (h : Reach c k s) (hd : s.destroy = false) :
    ∃ n, n ≤ 1100 ∧ (soloRun n s).rpc = .idle ∧ (soloRun n s).target = s.target ∧
      (s.rpc ≠ .idle → (soloRun n s).size = s.target) := by
  have I := (inv_reach hc hk h).a
  obtain ⟨n, hn, r⟩ := solo_terminates hc (mu s) s (Nat.le_refl _) I hd
  exact ⟨n, Nat.le_trans hn (mu_le s hc I), r⟩

/-- with `in_progress_destroy` set the resizer leaves within 17 steps from any state -/
theorem resizer_terminates_under_destroy (s : State) (hd : s.destroy = true) :
    ∃ n, n ≤ 17 ∧ (soloRun n s).rpc = .idle := by
  obtain ⟨n, hn, r⟩ := solo_terminates_destroy (muD s) s (Nat.le_refl _) hd
  exact ⟨n, Nat.le_trans hn (muD_le s), r⟩

/-! ## destroy ordered behind queued resizes -/

theorem qShape_split : ∀ (pre post : List Work), qShape (pre ++ Work.destroy :: post) ≤ 1 →
    post = [] ∧ ∀ w, w ∈ pre → w = Work.resize := by
  intro pre
  induction pre with
  | nil => intro post h; exact ⟨qShape_destroy_cons post h, by simp⟩
  | cons w pre ih =>
    intro post h
    cases w with
    | resize =>
      obtain ⟨h1, h2⟩ := ih post h
      exact ⟨h1, by intro w hw; rcases List.mem_cons.mp hw with e | e; exact e; exact h2 w e⟩
    | destroy =>
      have := qShape_destroy_cons _ h
      simp at this

/-- **destroy_after_queued_resizes**: the work queue is FIFO (`workerTake` removes the head, works are
appended at the tail); in every reachable state a destroy work is the *last* element and everything
queued before it is resize work: the worker runs every earlier resize work first and nothing is ever
queued behind the destroy work. -/
theorem destroy_after_queued_resizes {c : Cfg} (hc : c.mo ≤ 63) {k : Nat} (hk : k ≤ c.mo) {s : State} (h : Reach c k s)
    (pre post : List Work) (hq : s.queue = pre ++ .destroy :: post) : post = [] ∧ ∀ w, w ∈ pre → w = .resize :=
  qShape_split pre post (hq ▸ (inv_reach hc hk h).d.qs)

/-- after `in_progress_destroy` is set no step of any thread queues a resize work -/
theorem no_resize_queued_after_destroy {c : Cfg} (hc : c.mo ≤ 63) {k : Nat} (hk : k ≤ c.mo) {s s' : State} {op : Op}
    (h : Reach c k s) (hd : s.destroy = true) (st : step c s op = some s') :
    s'.queue.count .resize ≤ s.queue.count .resize := by
  have I := (inv_reach hc hk h).d
  have hapc := I.d_apc hd
  cases op <;> simp only [step] at st
  case rz =>
    simp only [Option.map_eq_some_iff] at st
    obtain ⟨s1, h1, rfl⟩ := st
    have : s1.queue = s.queue := by
      cases hr : s.rpc <;> simp only [rzStep, hr, reduceCtorEq] at h1
      all_goals (repeat' split at h1)
      all_goals simp only [Option.some.injEq] at h1
      all_goals subst h1
      all_goals rfl
    simp [this]
  case launch t =>
    rcases hapc t with e | e <;> simp [e] at st
  case workerTake =>
    repeat' split at st
    all_goals (try (cases st; done))
    all_goals simp only [Option.some.injEq] at st
    all_goals subst st
    all_goals rename_i hq
    all_goals simp [hq]
  all_goals (repeat' split at st)
  all_goals (try (cases st; done))
  all_goals simp only [Option.some.injEq] at st
  all_goals subst st
  all_goals simp [deleteBuckets]

/-- when the worker executes the destroy work, the resize mutex is free, nothing is queued and the
table has not been freed before -/
theorem destroy_runs_with_resizer_idle {c : Cfg} (hc : c.mo ≤ 63) {k : Nat} (hk : k ≤ c.mo) {s : State} (h : Reach c k s)
    (hw : s.wk = .destroying) : s.rpc = .idle ∧ s.queue = [] ∧ s.dead = false :=
  have p := (inv_reach hc hk h).d.p3 hw
  ⟨p.2.2.1, p.2.1, p.2.2.2⟩

/-! ## allocators -/

theorem bucket_at_order_in_bounds (p : Params) (hk : p.kind = .order) (ha : p.minAlloc = 2 ^ p.minOrder)
    {k idx : Nat} (hk63 : k ≤ 63) (hidx : idx < 2 ^ k) :
    (bucketAt p idx).2 < allocLen p (bucketAt p idx).1 ∧ slotOrder p (bucketAt p idx).1 ≤ k ∧
      allocates p (slotOrder p (bucketAt p idx).1) = true ∧
      (bucketAt p idx).1 ∈ allocSlots p (slotOrder p (bucketAt p idx).1) :=
  Lfht.Mm.bucket_at_order_in_bounds p hk ha hk63 hidx

theorem bucket_at_order_injective (p : Params) (hk : p.kind = .order) (ha : p.minAlloc = 2 ^ p.minOrder)
    {i1 i2 : Nat} (h1 : i1 < 2 ^ 64) (h2 : i2 < 2 ^ 64) (h : bucketAt p i1 = bucketAt p i2) : i1 = i2 :=
  Lfht.Mm.bucket_at_order_injective p hk ha h1 h2 h

theorem bucket_at_chunk_in_bounds (p : Params) (hk : p.kind = .chunk) (ha : p.minAlloc = 2 ^ p.minOrder)
    {M : Nat} (hM : p.mx = 2 ^ M) (hmM : p.minOrder ≤ M) {k idx : Nat} (hk63 : k ≤ 63) (hkM : k ≤ M) (hidx : idx < 2 ^ k) :
    (bucketAt p idx).2 < allocLen p (bucketAt p idx).1 ∧ (bucketAt p idx).1 < p.mx / p.minAlloc ∧
      slotOrder p (bucketAt p idx).1 ≤ k ∧ allocates p (slotOrder p (bucketAt p idx).1) = true ∧
      (bucketAt p idx).1 ∈ allocSlots p (slotOrder p (bucketAt p idx).1) :=
  Lfht.Mm.bucket_at_chunk_in_bounds p hk ha hM hmM hk63 hkM hidx

theorem bucket_at_chunk_injective (p : Params) (hk : p.kind = .chunk) (ha : p.minAlloc = 2 ^ p.minOrder)
    {i1 i2 : Nat} (h : bucketAt p i1 = bucketAt p i2) : i1 = i2 :=
  Lfht.Mm.bucket_at_chunk_injective p hk ha h

theorem bucket_at_mmap_in_bounds (p : Params) (hk : p.kind = .mmap) (ha : p.minAlloc = 2 ^ p.minOrder)
    {M : Nat} (hM : p.mx = 2 ^ M) {k idx : Nat} (hkM : k ≤ M) (hidx : idx < 2 ^ k) :
    (bucketAt p idx).1 = 0 ∧ (bucketAt p idx).2 = idx ∧ idx < allocLen p 0 ∧
      ∃ o, o ≤ k ∧ allocates p o = true ∧ populatedBy p o idx :=
  Lfht.Mm.bucket_at_mmap_in_bounds p hk ha hM hkM hidx

theorem bucket_at_mmap_injective (p : Params) (hk : p.kind = .mmap) {i1 i2 : Nat}
    (h : bucketAt p i1 = bucketAt p i2) : i1 = i2 :=
  Lfht.Mm.bucket_at_mmap_injective p hk h

theorem new_table_params_wf {k : Kind} {pb init mn mx : Nat} {p : Params} {q : Nat} (hpb : pb = 2 ^ q)
    (hmx : mx ≤ 2 ^ 63) (hmn : mn ≤ 2 ^ 63) (h : newTable k pb init mn mx = some p) :
    ∃ a M s, p.minAlloc = 2 ^ a ∧ p.minOrder = a ∧ p.mx = 2 ^ M ∧ a ≤ M ∧ M ≤ 63 ∧ p.size0 = 2 ^ s ∧ s ≤ M ∧
      (k = .chunk → p.mx / p.minAlloc ≤ MAX_CHUNK_TABLE) :=
  Lfht.Mm.new_table_params_wf hpb hmx hmn h

/-! ## non-vacuity: concrete runs of the transition system -/

def cfg6 : Cfg := { mo := 6, n := 2, auto := true }

/-- `cds_lfht_resize(ht, 5)` on a 1-bucket table: 1 → 8 through three levels -/
example : ((runOps cfg6 (init 0) [.resizeCall 0 5, .resizeInit 0, .resizeLock 0]).map fun s =>
      let s' := soloRun 100 s; (s'.size, s'.target, s'.bad, s'.log.reverse)) =
    some (8, 8, false, [.alloc 1, .populate 1, .size 2, .alloc 2, .populate 2, .size 4, .alloc 3, .populate 3, .size 8]) := by
  decide

/-- shrink 8 → 2: unpublish, grace period, (free previous), remove, …, grace period, free -/
example : ((runOps cfg6 (init 3) [.resizeCall 0 2, .resizeInit 0, .resizeLock 0]).map fun s =>
      let s' := soloRun 100 s; (s'.size, s'.bad, s'.log.reverse)) =
    some (2, false, [.size 4, .sync, .remove 3, .size 2, .sync, .free 3, .remove 2, .sync, .free 2]) := by
  decide

/-- destroy queued behind a lazy-grow resize work: the resize work is cancelled at its first test of
`in_progress_destroy`, then the destroy work frees level 0 and the table -/
example : ((runOps cfg6 (init 0) [.lazyGrow 0 1 5, .launch 0, .launch 0, .launch 0, .launch 0, .destroy 1, .destroyQueue 1,
      .workerTake, .workerLock, .rz, .workerTake, .workerDestroy]).map fun s =>
      ((s.size, s.target, s.dead, s.bad), (s.queue, s.log.reverse))) =
    some ((1, 32, true, false), ([], [Ev.free 0, Ev.freeHt])) := by
  decide

/-- Observation outside the claim of C09 (liveness of *automatic* resizing): `__cds_lfht_resize_lazy_launch`
queues the work **before** it stores `resize_initiated = 1`.  If the worker finishes that work in between,
the flag stays 1 with nothing queued and every later lazy request is refused: here the target is 4, the
size stays 2, no work is queued, the resizer is idle. -/
example : ((runOps cfg6 (init 0) [.lazyGrow 0 1 1, .launch 0, .launch 0, .launch 0,      -- work queued, flag not yet stored
      .workerTake, .workerLock, .rz, .rz, .rz, .rz, .rz, .rz, .rz, .rz, .rz, .rz,      -- the worker resizes 1 → 2 and leaves
      .launch 0,                                                                       -- late `resize_initiated = 1`
      .lazyGrow 1 2 1, .launch 1]).map fun s =>                                        -- next request: refused
      (s.size, s.target, s.initiated, s.queue, decide (s.rpc = .idle), decide (s.apc 1 = .idle))) =
    some (2, 4, true, ([] : List Work), true, true) := by
  decide

end UrcuVerif.C09
