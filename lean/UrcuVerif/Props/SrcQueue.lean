import UrcuVerif.Src.QueueLocal
import UrcuVerif.Src.QueueRefine
import UrcuVerif.Src.QueueRef
import UrcuVerif.Src.QueueDeq
import UrcuVerif.Src.QueueLfqDeq
/-!
# Source refinement, component "queues": generated IR of wfcqueue / rculfqueue / urcu_ref ⊑ L2, thread-locally

Final statements only (proofs: `Src/QueueLocal.lean`, `Src/QueueRefine.lean`, `Src/QueueRef.lean`).
Every theorem is about the **generated** value `UrcuVerif.Gen.Src.«f»`, called with its generated parameter list
(`bindParams Gen.Src.«f.params» [arguments]`), for every loop budget `fuel`, every oracle `inp` (so: every prefix of
every event sequence of the source text) and every private view `priv`.

* wfcqueue (`Wfcq/Model.lean`): local state = the thread's L2 `Pc`; labels = accesses with observed values
  (`WfcqL.LLabel`); `WfcqR.absEv L` decodes events under an address layout `L`.
* rculfqueue (`Lfq/Model.lean`): local state = `LfqL.LState` (pc, inDeq, node, tl, nx, hd).
* urcu_ref: no L2 model, exact event shapes (`RefR.getSpec`, `RefR.putSpec`).
-/
set_option linter.unusedSimpArgs false
namespace UrcuVerif.Props.SrcQueue
open UrcuVerif.Src UrcuVerif.Src.Queue

/-! ## projection / enabledness / frame lemmas of the local automata against the real L2 `step` -/

theorem wfcq_proj {s s' : Wfcq.State} {l : Wfcq.Label} (hacc : WfcqL.isAccess l = true) (h : Wfcq.step s l = some s') :
    ∃ ll, WfcqL.obs s l = some ll ∧ WfcqL.lstep (s.pc l.tid) ll = some (s'.pc l.tid) := WfcqL.proj hacc h

theorem wfcq_enabled_iff (s : Wfcq.State) (l : Wfcq.Label) (hacc : WfcqL.isAccess l = true) :
    (Wfcq.step s l).isSome ↔
      (∃ ll, WfcqL.obs s l = some ll ∧ (WfcqL.lstep (s.pc l.tid) ll).isSome) ∧ WfcqL.gguard s l :=
  WfcqL.enabled_iff s l hacc

theorem wfcq_frame {s s' : Wfcq.State} {l : Wfcq.Label} {t : Nat} (h : Wfcq.step s l = some s') (ht : l.tid ≠ t) :
    s'.pc t = s.pc t := WfcqL.frame h ht

theorem wfcq_frame_env {s s' : Wfcq.State} {l : Wfcq.Label} (h : Wfcq.step s l = some s')
    (hl : (∃ u, l = .flush u) ∨ (∃ u, l = .fence u) ∨ (∃ u q, l = .acquire u q) ∨ (∃ u q, l = .release u q)) :
    s'.pc = s.pc := WfcqL.frame_env h hl

theorem lfq_proj {c : Lfq.Cfg} {s s' : Lfq.State} {t : Nat} {l : Lfq.Label} {o : Lfq.Out} (hacc : LfqL.isAccess l = true)
    (h : Lfq.step c s t l = some (s', o)) :
    ∃ ll, LfqL.obs s t l = some ll ∧ LfqL.lstep c (LfqL.proj s t) ll = some (LfqL.proj s' t) := LfqL.proj_step hacc h

theorem lfq_enabled_iff (c : Lfq.Cfg) (s : Lfq.State) (t : Nat) (l : Lfq.Label) (hacc : LfqL.isAccess l = true) :
    (Lfq.step c s t l).isSome ↔
      (∃ ll, LfqL.obs s t l = some ll ∧ (LfqL.lstep c (LfqL.proj s t) ll).isSome) ∧ LfqL.gguard s t l :=
  LfqL.enabled_iff c s t l hacc

theorem lfq_frame {c : Lfq.Cfg} {s s' : Lfq.State} {t u : Nat} {l : Lfq.Label} {o : Lfq.Out}
    (h : Lfq.step c s u l = some (s', o)) (hne : t ≠ u) : LfqL.proj s' t = LfqL.proj s t := LfqL.frame h hne

theorem lfq_frame_env {c : Lfq.Cfg} {s s' : Lfq.State} {t u : Nat} {l : Lfq.Label} {o : Lfq.Out}
    (h : Lfq.step c s u l = some (s', o)) (hl : l = .lock ∨ l = .unlock ∨ (∃ p, l = .reclaim p) ∨ l = .destroy) :
    LfqL.proj s' t = LfqL.proj s t := LfqL.frame_env h hl

/-! ## wfcqueue -/
section wfcq
open UrcuVerif.Wfcq WfcqL WfcqR
variable (L : WfcqR.Layout)

/-- `_cds_wfcq_enqueue(head, tail, node)` = L2 `enqXchg t q n ; stIssue t` from `idle` (the optional legacy `mb` has
no local label); the blocked prefix (oracle empty at the `xchg`) stays `idle`; the return value is L2's result. -/
theorem _cds_wfcq_enqueue_refines (fuel : Nat) (priv : Loc → Option Val) (hk tk nk q n : Nat) (mbv : Int) (inp : List Val)
    (hq : L.addr hk = some q) (hisq : isQ q) (ht : L.tailOf tk = some q) (hn : L.addr nk = some n) (hn3 : 3 ≤ n)
    (hcfg : priv (.glob "CONFIG_RCU_EMIT_LEGACY_MB") = some (.int mbv)) (hwt : ∀ v ∈ inp, IsObj L v) :
    ∃ out, exec fuel Gen.Src.«_cds_wfcq_enqueue»
        ⟨bindParams Gen.Src.«_cds_wfcq_enqueue.params» [.ptr (.obj hk), .ptr (.obj tk), .ptr (.obj nk)], priv⟩ inp = .ok out ∧
      ∃ p', lrun .idle (out.events.filterMap (absEv L)) = some p' ∧
        ((out.ctl = .blocked ∧ p' = .idle) ∨ (∃ b, out.ctl = .ret (some (boolV b)) ∧ p' = .done (.bool b))) :=
  enqueue_refines_env L fuel _ hk tk nk q n mbv inp (by simp [bindParams, Gen.Src.«_cds_wfcq_enqueue.params»])
    (by simp [bindParams, Gen.Src.«_cds_wfcq_enqueue.params»]) (by simp [bindParams, Gen.Src.«_cds_wfcq_enqueue.params»])
    hq hisq ht hn hn3 hcfg hwt

/-- `___cds_wfcq_append(head, tail, new_head, new_tail)` from any pc `p` whose `xchgTail q new_tail _` step leads to
`enq q _ new_head spl`: L2 `idle` (`enqXchg`, `new_head = new_tail = n ≥ 3`, `spl = false`) and `s6 q src h tl` of a
splice (`new_head = h`, `new_tail = tl`, `spl = true`). -/
theorem ___cds_wfcq_append_refines (fuel : Nat) (priv : Loc → Option Val) (hk tk q nhA ntA : Nat) (nh nt : Val)
    (inp : List Val) (p : Pc) (spl : Bool)
    (hq : L.addr hk = some q) (ht : L.tailOf tk = some q) (hnh : dec L nh = some nhA) (hnt : dec L nt = some ntA)
    (hstep : ∀ old, lstep p (.xchgTail q ntA old) = some (.enq q old nhA spl)) (hwt : ∀ v ∈ inp, IsObj L v) :
    ∃ out, exec fuel Gen.Src.«___cds_wfcq_append»
        ⟨bindParams Gen.Src.«___cds_wfcq_append.params» [.ptr (.obj hk), .ptr (.obj tk), nh, nt], priv⟩ inp = .ok out ∧
      ∃ p', lrun p (out.events.filterMap (absEv L)) = some p' ∧
        ((out.ctl = .blocked ∧ p' = p) ∨
         (∃ b, out.ctl = .ret (some (boolV b)) ∧ p' = .done (if spl then .dest b else .bool b))) :=
  append_refines_env L fuel _ hk tk q nhA ntA nh nt inp p spl (by simp [bindParams, Gen.Src.«___cds_wfcq_append.params»])
    (by simp [bindParams, Gen.Src.«___cds_wfcq_append.params»]) (by simp [bindParams, Gen.Src.«___cds_wfcq_append.params»])
    (by simp [bindParams, Gen.Src.«___cds_wfcq_append.params»]) hq ht hnh hnt hstep hwt

/-- the two L2 instances of `hstep` -/
example (q n : Nat) (hisq : isQ q) (hn3 : 3 ≤ n) : ∀ old, lstep .idle (.xchgTail q n old) = some (.enq q old n false) := by
  intro old; simp [lstep, hisq, hn3]
example (dst src h tl : Nat) : ∀ old, lstep (.s6 dst src h tl) (.xchgTail dst tl old) = some (.enq dst old h true) := by
  intro old; simp [lstep]

/-- `_cds_wfcq_empty(head, tail)` inside operation `k` (L2 `e1 k q`): `ld1` (+ `ld2`), result as L2's. -/
theorem _cds_wfcq_empty_refines (fuel : Nat) (priv : Loc → Option Val) (hk tk q : Nat) (k : K) (inp : List Val)
    (hq : L.addr hk = some q) (ht : L.tailOf tk = some q) (hwt : ∀ v ∈ inp, Typed L v) :
    ∃ out, exec fuel Gen.Src.«_cds_wfcq_empty»
        ⟨bindParams Gen.Src.«_cds_wfcq_empty.params» [.ptr (.obj hk), .ptr (.obj tk)], priv⟩ inp = .ok out ∧
      ∃ p', lrun (.e1 k q) (out.events.filterMap (absEv L)) = some p' ∧
        ((out.ctl = .blocked ∧ (p' = .e1 k q ∨ p' = .e2 k q)) ∨
         (out.ctl = .ret (some (.int 1)) ∧ p' = .done (emptyRes k)) ∨
         (out.ctl = .ret (some (.int 0)) ∧ p' = nonEmptyPc k q)) :=
  empty_refines_env L fuel _ hk tk q k inp (by simp [bindParams, Gen.Src.«_cds_wfcq_empty.params»])
    (by simp [bindParams, Gen.Src.«_cds_wfcq_empty.params»]) hq ht hwt

/-- `___cds_wfcq_node_sync_next(node, blocking)` inside operation `k` on queue `q` (L2 `sync k q a`), both values of
`blocking`, every loop budget: each iteration is L2's `sync` label seeing NULL (self-loop when blocking);
`caa_cpu_relax()` / `CDS_WFCQ_WAIT_SLEEP` have no label.  Ends: cut (`blocked`/`fuel`) at `sync k q a`;
`CDS_WFCQ_WOULDBLOCK` (only if `!blocking`) at `syncWbPc`; a non-NULL `next = x` at `syncGotPc k q a x`. -/
theorem ___cds_wfcq_node_sync_next_refines (fuel : Nat) (priv : Loc → Option Val) (nk a q : Nat) (k : K) (b : Int)
    (inp : List Val) (ha : L.addr nk = some a) (hk : k.blocking = decide (b ≠ 0)) (hwt : ∀ v ∈ inp, Typed L v) :
    ∃ out, exec fuel Gen.Src.«___cds_wfcq_node_sync_next»
        ⟨bindParams Gen.Src.«___cds_wfcq_node_sync_next.params» [.ptr (.obj nk), .int b], priv⟩ inp = .ok out ∧
      ∃ p', lrun (.sync k q a) (out.events.filterMap (absEv L)) = some p' ∧
        (((out.ctl = .blocked ∨ out.ctl = .fuel) ∧ p' = .sync k q a) ∨
         (out.ctl = .ret (some (.int (-1))) ∧ b = 0 ∧ p' = syncWbPc k q a) ∨
         (∃ v x, out.ctl = .ret (some v) ∧ dec L v = some x ∧ x ≠ 0 ∧ p' = syncGotPc k q a x)) :=
  sync_next_refines_env L fuel _ nk a q k b inp (by simp [bindParams, Gen.Src.«___cds_wfcq_node_sync_next.params»])
    (by simp [bindParams, Gen.Src.«___cds_wfcq_node_sync_next.params»]) ha hk hwt

/-- `_cds_wfcq_node_init_atomic(&head->node)` as called by dequeue: L2's `d3` -/
theorem _cds_wfcq_node_init_atomic_refines (fuel : Nat) (priv : Loc → Option Val) (hk q nd : Nat) (b : Bool)
    (inp : List Val) (hq : L.addr hk = some q) :
    ∃ out, exec fuel Gen.Src.«_cds_wfcq_node_init_atomic»
        ⟨bindParams Gen.Src.«_cds_wfcq_node_init_atomic.params» [.ptr (.obj hk)], priv⟩ inp = .ok out ∧
      out.events = [.st (.field (.obj hk) "next") (.int 0) 0] ∧ out.ctl = .normal ∧ out.inp = inp ∧
      lrun (.d3 q nd b) (out.events.filterMap (absEv L)) = some (.d4 q nd b) :=
  node_init_atomic_refines_env L fuel _ hk q nd b inp (by simp [bindParams, Gen.Src.«_cds_wfcq_node_init_atomic.params»]) hq

/-- `sync_next`, event-typed form: never fails for *any* oracle; if every value it loaded is NULL or an object pointer
its labels are L2's (no assumption on the oracle value consumed by the void `CDS_WFCQ_WAIT_SLEEP`). -/
theorem ___cds_wfcq_node_sync_next_refines' (fuel : Nat) (priv : Loc → Option Val) (nk a q : Nat) (k : K) (b : Int)
    (inp : List Val) (ha : L.addr nk = some a) (hk : k.blocking = decide (b ≠ 0)) :
    ∃ out, exec fuel Gen.Src.«___cds_wfcq_node_sync_next»
        ⟨bindParams Gen.Src.«___cds_wfcq_node_sync_next.params» [.ptr (.obj nk), .int b], priv⟩ inp = .ok out ∧
      ((∀ l v mo, Event.ld l v mo ∈ out.events → Typed L v) →
        ∃ p', lrun (.sync k q a) (out.events.filterMap (absEv L)) = some p' ∧
          (((out.ctl = .blocked ∨ out.ctl = .fuel) ∧ p' = .sync k q a) ∨
           (out.ctl = .ret (some (.int (-1))) ∧ b = 0 ∧ p' = syncWbPc k q a) ∨
           (∃ v x, out.ctl = .ret (some v) ∧ dec L v = some x ∧ x ≠ 0 ∧ p' = syncGotPc k q a x))) :=
  sync_next_refines_env' L fuel _ nk a q k b inp (by simp [bindParams, Gen.Src.«___cds_wfcq_node_sync_next.params»])
    (by simp [bindParams, Gen.Src.«___cds_wfcq_node_sync_next.params»]) ha hk

/-- **`___cds_wfcq_dequeue_with_state(head, tail, state, blocking)`** from L2's `e1 (.deq blocking) q` (after `callDeq`),
both values of `blocking`, every loop budget.  `state` is NULL or a pointer to a private word other than `&attempt`,
`head->node.next` and the configuration pseudo-global.  The run never fails; under the side condition "no value loaded
from `head->node.next` is the head itself" (L2 invariant; L2's `syncGotPc` distinguishes the two `sync_next` call sites
of dequeue by `a = q`) its labels are L2's and it ends as `DeqRes` says: cut at one of the dequeue pcs; NULL at
`done null`; `CDS_WFCQ_WOULDBLOCK` (only if `!blocking`) at `done wouldblock`; a node `nd` at `done (node nd last)` with
`*state == (last ? CDS_WFCQ_STATE_LAST : 0)`. -/
theorem ___cds_wfcq_dequeue_with_state_refines (fuel : Nat) (priv : Loc → Option Val) (hk tk q : Nat) (b mbv : Int)
    (inp : List Val) (sv : Val)
    (hsv : sv = .int 0 ∨ ∃ sl, sv = .ptr sl ∧ sl ≠ .glob "&attempt" ∧ sl ≠ .field (.obj hk) "next" ∧
      sl ≠ .glob "CONFIG_RCU_EMIT_LEGACY_MB")
    (hq : L.addr hk = some q) (ht : L.tailOf tk = some q)
    (hcfg : priv (.glob "CONFIG_RCU_EMIT_LEGACY_MB") = some (.int mbv)) (hwt : ∀ v ∈ inp, Typed L v) :
    ∃ out, exec fuel Gen.Src.«___cds_wfcq_dequeue_with_state»
        ⟨bindParams Gen.Src.«___cds_wfcq_dequeue_with_state.params» [.ptr (.obj hk), .ptr (.obj tk), sv, .int b], priv⟩
        inp = .ok out ∧
      ((∀ v mo, Event.ld (.field (.obj hk) "next") v mo ∈ out.events → v ≠ .ptr (.obj hk)) →
        ∃ p', lrun (.e1 (.deq (decide (b ≠ 0))) q) (out.events.filterMap (absEv L)) = some p' ∧
          DeqRes L q (decide (b ≠ 0)) b sv out p') :=
  dequeue_refines_env L fuel _ hk tk q b mbv inp sv
    (by simp [bindParams, Gen.Src.«___cds_wfcq_dequeue_with_state.params»])
    (by simp [bindParams, Gen.Src.«___cds_wfcq_dequeue_with_state.params»])
    (by simp [bindParams, Gen.Src.«___cds_wfcq_dequeue_with_state.params»])
    (by simp [bindParams, Gen.Src.«___cds_wfcq_dequeue_with_state.params»]) hsv hq ht hcfg hwt

/-- **`___cds_wfcq_splice(dest_head, dest_tail, src_head, src_tail, blocking)`** from L2's `e1 (.splice dst blocking) src`
(after `callSplice`), both values of `blocking`, every loop budget: `ld1 (ld2) (s3 (s4))* s5 s6 stIssue`.
Side conditions: oracle values are NULL or object pointers (`Typed`), and (`hdst`) the value that the `xchg` on the
*destination tail* inside the final `___cds_wfcq_append` returns – the only oracle value splice dereferences – is a
non-NULL object pointer (L2 invariant `tail q ≠ 0`); it is identified as the next oracle value when `splicePre` (the
first 10 statements of the generated body, i.e. everything before that call) completes.
Result (`SpliceRes`): cut at a splice pc; `CDS_WFCQ_RET_SRC_EMPTY` at `done srcEmpty`; `CDS_WFCQ_RET_WOULDBLOCK` (only if
`!blocking`) at `done wouldblock`; `CDS_WFCQ_RET_DEST_NON_EMPTY`/`_EMPTY` at `done (dest ne)`. -/
theorem ___cds_wfcq_splice_refines (fuel : Nat) (priv : Loc → Option Val) (dhk dtk shk stk dst src : Nat) (b mbv : Int)
    (inp : List Val)
    (hcfg : priv (.glob "CONFIG_RCU_EMIT_LEGACY_MB") = some (.int mbv))
    (hd : L.addr dhk = some dst) (htd : L.tailOf dtk = some dst)
    (hs : L.addr shk = some src) (hts : L.tailOf stk = some src) (hwt : ∀ v ∈ inp, Typed L v)
    (hdst : ∀ o, exec fuel splicePre ⟨bindParams Gen.Src.«___cds_wfcq_splice.params»
        [.ptr (.obj dhk), .ptr (.obj dtk), .ptr (.obj shk), .ptr (.obj stk), .int b], priv⟩ inp = .ok o →
      o.ctl = .normal → ∀ v, o.inp.head? = some v → IsObj L v) :
    ∃ out, exec fuel Gen.Src.«___cds_wfcq_splice» ⟨bindParams Gen.Src.«___cds_wfcq_splice.params»
        [.ptr (.obj dhk), .ptr (.obj dtk), .ptr (.obj shk), .ptr (.obj stk), .int b], priv⟩ inp = .ok out ∧
      ∃ p', lrun (.e1 (.splice dst (decide (b ≠ 0))) src) (out.events.filterMap (absEv L)) = some p' ∧
        SpliceRes dst src b (decide (b ≠ 0)) out p' :=
  splice_refines_env L fuel _ dhk dtk shk stk dst src b mbv inp
    (by simp [bindParams, Gen.Src.«___cds_wfcq_splice.params»]) (by simp [bindParams, Gen.Src.«___cds_wfcq_splice.params»])
    (by simp [bindParams, Gen.Src.«___cds_wfcq_splice.params»]) (by simp [bindParams, Gen.Src.«___cds_wfcq_splice.params»])
    (by simp [bindParams, Gen.Src.«___cds_wfcq_splice.params»]) hcfg hd htd hs hts hwt hdst

/-- `___cds_wfcq_busy_wait(&attempt, blocking)`: no shared access at all (its events have no L2 label) -/
theorem ___cds_wfcq_busy_wait_silent (fuel : Nat) (priv : Loc → Option Val) (al : Loc) (b c : Int) (inp : List Val)
    (hp : priv al = some (.int c)) :
    ∃ out, exec fuel Gen.Src.«___cds_wfcq_busy_wait»
        ⟨bindParams Gen.Src.«___cds_wfcq_busy_wait.params» [.ptr al, .int b], priv⟩ inp = .ok out ∧
      out.events.filterMap (absEv L) = [] ∧
      ((b = 0 ∧ out.ctl = .ret (some (.int 1))) ∨ (b ≠ 0 ∧ (out.ctl = .blocked ∨ out.ctl = .ret (some (.int 0))))) := by
  rcases busy_exec L (fuel := fuel) (inp := inp)
    (env := ⟨bindParams Gen.Src.«___cds_wfcq_busy_wait.params» [.ptr al, .int b], priv⟩) rfl al b c (by simp [bindParams, Gen.Src.«___cds_wfcq_busy_wait.params»])
    (by simp [bindParams, Gen.Src.«___cds_wfcq_busy_wait.params»]) hp with
    ⟨hb, vars, h⟩ | ⟨hb, evs, inp', ctl, c', ⟨vars, h⟩, hf, -, hctl⟩
  · exact ⟨_, h, rfl, Or.inl ⟨hb, rfl⟩⟩
  · exact ⟨_, h, hf, Or.inr ⟨hb, hctl⟩⟩

/-! ### non-vacuity: a concrete layout and concrete runs -/

/-- heads = objects 1, 2 (queues 1, 2); nodes = objects 3…9; tails = objects 11, 12 -/
def L0 : WfcqR.Layout where
  addr k := if 1 ≤ k ∧ k ≤ 9 then some k else none
  tailOf k := if k = 11 then some 1 else if k = 12 then some 2 else none
  addr_ne0 k := by split <;> simp; omega
  addr_inj k k' a h h' := by
    split at h <;> split at h' <;> simp_all

def priv0 (mb : Int) : Loc → Option Val := fun l => if l = .glob "CONFIG_RCU_EMIT_LEGACY_MB" then some (.int mb) else none

/-- enqueue of node 5 on the empty queue 1 (old tail = head), legacy mb on: 3 events, 2 labels, returns `false` -/
example : ∃ out, exec 1 Gen.Src.«_cds_wfcq_enqueue»
      ⟨bindParams Gen.Src.«_cds_wfcq_enqueue.params» [.ptr (.obj 1), .ptr (.obj 11), .ptr (.obj 5)], priv0 1⟩
      [.ptr (.obj 1)] = .ok out ∧
    out.events = [.fence .mb, .xchg (.field (.obj 11) "p") (.ptr (.obj 5)) (.ptr (.obj 1)) 5,
      .st (.field (.obj 1) "next") (.ptr (.obj 5)) 3] ∧
    out.events.filterMap (absEv L0) = [.xchgTail 1 5 1, .stNext 1 5] ∧
    lrun .idle (out.events.filterMap (absEv L0)) = some (.done (.bool false)) ∧ out.ctl = .ret (some (.int 0)) := by
  simp [Gen.Src.«_cds_wfcq_enqueue», Gen.Src.«_cds_wfcq_enqueue.params», Gen.Src.«___cds_wfcq_append», block, exec, eval,
    evalArgs, execPrim, bindParams, Env.setVar, Env.setPriv, setDst, asLoc, bind, Except.bind, evalBin, boolV, priv0,
    Val.truthy, absEv, decNext, decTail, dec, L0, List.filterMap_cons, lrun, lstep, isQ]

example := _cds_wfcq_enqueue_refines L0 1 (priv0 1) 1 11 5 1 5 1 [.ptr (.obj 1)] rfl (by simp [isQ])
  rfl rfl (by omega) (by simp [priv0]) (by simp [IsObj, L0])

/-- `empty()` on queue 1 that sees `head.next = NULL` and `tail = node 5`: 2 events, not empty -/
example : ∃ out, exec 1 Gen.Src.«_cds_wfcq_empty»
      ⟨bindParams Gen.Src.«_cds_wfcq_empty.params» [.ptr (.obj 1), .ptr (.obj 11)], priv0 0⟩
      [.int 0, .ptr (.obj 5)] = .ok out ∧
    out.events.filterMap (absEv L0) = [.ldNext 1 0, .ldTail 1 5] ∧
    lrun (.e1 .empty 1) (out.events.filterMap (absEv L0)) = some (.done (.bool false)) ∧ out.ctl = .ret (some (.int 0)) := by
  simp [Gen.Src.«_cds_wfcq_empty», Gen.Src.«_cds_wfcq_empty.params», block, exec, eval,
    evalArgs, execPrim, bindParams, Env.setVar, Env.setPriv, setDst, asLoc, bind, Except.bind, evalBin, evalUn, boolV,
    Val.truthy, absEv, decNext, decTail, dec, L0, List.filterMap_cons, lrun, lstep, nonEmptyPc]

example := _cds_wfcq_empty_refines L0 1 (priv0 0) 1 11 1 .empty [.int 0, .ptr (.obj 5)] rfl rfl
  (by simp [Typed, dec, L0])

/-- blocking `sync_next(node 5)` inside a dequeue on queue 1: sees NULL (relax), then node 6: 3 events, 2 labels -/
example : ∃ out, exec 5 Gen.Src.«___cds_wfcq_node_sync_next»
      ⟨bindParams Gen.Src.«___cds_wfcq_node_sync_next.params» [.ptr (.obj 5), .int 1], priv0 0⟩
      [.int 0, .ptr (.obj 6)] = .ok out ∧
    out.events = [.ld (.field (.obj 5) "next") (.int 0) 1, .fence .relax, .ld (.field (.obj 5) "next") (.ptr (.obj 6)) 1] ∧
    lrun (.sync (.deq true) 1 5) (out.events.filterMap (absEv L0)) = some (.d6 1 5 6) ∧
    out.ctl = .ret (some (.ptr (.obj 6))) := by
  simp [Gen.Src.«___cds_wfcq_node_sync_next», Gen.Src.«___cds_wfcq_node_sync_next.params»,
    Gen.Src.«___cds_wfcq_busy_wait», block, exec, iterate, eval,
    evalArgs, execPrim, bindParams, Env.setVar, Env.setPriv, setDst, asLoc, bind, Except.bind, evalBin, evalUn, boolV,
    Val.truthy, absEv, decNext, decTail, dec, L0, List.filterMap_cons, lrun, lstep, syncGotPc, K.blocking]

example := ___cds_wfcq_node_sync_next_refines L0 5 (priv0 0) 5 5 1 (.deq true) 1 [.int 0, .ptr (.obj 6)] rfl
  (by simp [K.blocking]) (by simp [Typed, dec, L0])

/-- non-blocking dequeue on queue 1 holding the single node 5, `state = &st`: `ld1`, `sync`, `d2` (NULL), `d3`, `d4`
(cmpxchg succeeds): 5 events, returns node 5 with `*state = CDS_WFCQ_STATE_LAST` -/
example : ∃ out, exec 3 Gen.Src.«___cds_wfcq_dequeue_with_state»
      ⟨bindParams Gen.Src.«___cds_wfcq_dequeue_with_state.params»
        [.ptr (.obj 1), .ptr (.obj 11), .ptr (.glob "st"), .int 0], priv0 0⟩
      [.ptr (.obj 5), .ptr (.obj 5), .int 0, .ptr (.obj 5)] = .ok out ∧
    out.events.filterMap (absEv L0) = [.ldNext 1 5, .ldNext 1 5, .ldNext 5 0, .stNext 1 0, .casTail 1 5 1 5] ∧
    lrun (.e1 (.deq false) 1) (out.events.filterMap (absEv L0)) = some (.done (.node 5 true)) ∧
    out.ctl = .ret (some (.ptr (.obj 5))) ∧ out.env.priv (.glob "st") = some (.int 1) := by
  simp [Gen.Src.«___cds_wfcq_dequeue_with_state», Gen.Src.«___cds_wfcq_dequeue_with_state.params»,
    Gen.Src.«_cds_wfcq_empty», Gen.Src.«___cds_wfcq_node_sync_next», Gen.Src.«___cds_wfcq_busy_wait»,
    Gen.Src.«_cds_wfcq_node_init_atomic», block, exec, iterate, eval,
    evalArgs, execPrim, bindParams, Env.setVar, Env.setPriv, setDst, asLoc, bind, Except.bind, evalBin, evalUn, boolV,
    Val.truthy, absEv, decNext, decTail, dec, L0, List.filterMap_cons, lrun, lstep, syncGotPc, K.blocking, priv0,
    nonEmptyPc]

example := ___cds_wfcq_dequeue_with_state_refines L0 3 (priv0 0) 1 11 1 0 0
  [.ptr (.obj 5), .ptr (.obj 5), .int 0, .ptr (.obj 5)] (.ptr (.glob "st"))
  (Or.inr ⟨_, rfl, by simp, by simp, by simp⟩) rfl rfl (by simp [priv0]) (by simp [Typed, dec, L0])

/-- blocking splice of queue 1 (nodes 5 → 6) into the empty queue 2: `ld1`, `s3`, `s5`, `s6`, `stIssue`: 5 events,
returns `CDS_WFCQ_RET_DEST_EMPTY` -/
example : ∃ out, exec 3 Gen.Src.«___cds_wfcq_splice»
      ⟨bindParams Gen.Src.«___cds_wfcq_splice.params»
        [.ptr (.obj 2), .ptr (.obj 12), .ptr (.obj 1), .ptr (.obj 11), .int 1], priv0 0⟩
      [.ptr (.obj 5), .ptr (.obj 5), .ptr (.obj 6), .ptr (.obj 2)] = .ok out ∧
    out.events.filterMap (absEv L0) =
      [.ldNext 1 5, .xchgNext 1 0 5, .xchgTail 1 1 6, .xchgTail 2 6 2, .stNext 2 5] ∧
    lrun (.e1 (.splice 2 true) 1) (out.events.filterMap (absEv L0)) = some (.done (.dest false)) ∧
    out.ctl = .ret (some (.int 0)) := by
  simp [Gen.Src.«___cds_wfcq_splice», Gen.Src.«___cds_wfcq_splice.params», Gen.Src.«___cds_wfcq_append»,
    Gen.Src.«_cds_wfcq_empty», Gen.Src.«___cds_wfcq_busy_wait», block, exec, iterate, eval,
    evalArgs, execPrim, bindParams, Env.setVar, Env.setPriv, setDst, asLoc, bind, Except.bind, evalBin, evalUn, boolV,
    Val.truthy, absEv, decNext, decTail, dec, L0, List.filterMap_cons, lrun, lstep, priv0, nonEmptyPc]

example := ___cds_wfcq_splice_refines L0 3 (priv0 0) 2 12 1 11 2 1 1 0
  [.ptr (.obj 5), .ptr (.obj 5), .ptr (.obj 6), .ptr (.obj 2)] (by simp [priv0]) rfl rfl rfl rfl
  (by simp [Typed, dec, L0])
  (by
    intro o ho _ v hv
    simp [splicePre, initSeq, Gen.Src.«___cds_wfcq_splice», Gen.Src.«___cds_wfcq_splice.params»,
      Gen.Src.«_cds_wfcq_empty», Gen.Src.«___cds_wfcq_busy_wait», block, exec, iterate, eval,
      evalArgs, execPrim, bindParams, Env.setVar, Env.setPriv, setDst, asLoc, bind, Except.bind, evalBin, evalUn, boolV,
      Val.truthy, priv0] at ho
    subst ho
    simp at hv
    subst hv
    exact ⟨2, 2, rfl, rfl⟩)

end wfcq

/-! ## rculfqueue -/
section lfq
open UrcuVerif.Lfq LfqL LfqR
variable (L : LfqR.Layout)

/-- `_cds_lfq_enqueue_rcu(q, node)` from L2's `eLd` with `node = n` (after `enqCall n`, or `enqueue_dummy` inside a
dequeue: `inDeq`), every loop budget: each iteration is `ldTail ; casNext ; casTailAdv` (link succeeded, return) or
`ldTail ; casNext ; casTailHelp` (retry); the legacy `mb` has no label.  Ends: `return` at L2's `advPc`
(`idle` / `dLdN2`), cut at one of the four enqueue pcs. -/
theorem _cds_lfq_enqueue_rcu_refines (c : Cfg) (fuel : Nat) (priv : Loc → Option Val) (inp : List Val) (nl : Loc) (n : Nat)
    (mbv : Int) (ls : LState) (hn : L.addr nl = some n)
    (hcfg : priv (.glob "CONFIG_RCU_EMIT_LEGACY_MB") = some (.int mbv)) (hwt : EnqInp L inp)
    (hpc : ls.pc = .eLd) (hnode : ls.node = n) :
    ∃ out, exec fuel Gen.Src.«_cds_lfq_enqueue_rcu»
        ⟨bindParams Gen.Src.«_cds_lfq_enqueue_rcu.params» [.ptr L.q, .ptr nl], priv⟩ inp = .ok out ∧
      ∃ ls', lrun c ls (out.events.filterMap (LfqR.absEv L)) = some ls' ∧
        ls'.inDeq = ls.inDeq ∧ ls'.node = ls.node ∧ ls'.hd = ls.hd ∧
        ((out.ctl = .ret none ∧ ls'.pc = (if ls.inDeq then .dLdN2 else .idle)) ∨
         (out.ctl = .blocked ∧ (ls'.pc = .eLd ∨ ls'.pc = .eCas ∨ ls'.pc = .eAdv ∨ ls'.pc = .eHelp)) ∨
         (out.ctl = .fuel ∧ ls'.pc = .eLd)) :=
  LfqR.enqueue_refines_env L c fuel _ inp nl n mbv ls (by simp [bindParams, Gen.Src.«_cds_lfq_enqueue_rcu.params»])
    (by simp [bindParams, Gen.Src.«_cds_lfq_enqueue_rcu.params»]) hn hcfg hwt hpc hnode

/-- **`_cds_lfq_dequeue_rcu(q)` – PARTIAL.**  Proved: for the runs that do not fail and in which no load of a
non-dummy node's `next` word returned NULL (`NoAlloc`: the `enqueue_dummy` path – `malloc`, `make_dummy`, nested enqueue,
second load – is NOT covered), from L2's `dLdH`, `helpTail = true`, every loop budget and every oracle of NULL / node
pointers: the labels that the stateful abstraction `absDeq` extracts (`ldHead`, `ldNext` with the plain `dummy` flag,
`ldTail`, `casTail`, `casHead` with the flag; the `queue_call_rcu` ext has no label) are accepted by the local
automaton and a returned node / NULL is reached at L2's `idle`.  Assumed on the private view (`Pinv`): `l->dummy` is
readable for every node and is 1 exactly for `&obj->parent` nodes; a dummy's `q` word is `q`; `q->queue_call_rcu` and
the configuration word are readable.  Missing for a full statement: the `enqueue_dummy` path and "never fails". -/
theorem _cds_lfq_dequeue_rcu_refines_partial (c : Cfg) (hc : c.helpTail = true) (fuel : Nat) (priv : Loc → Option Val)
    (inp : List Val) (fv : Val) (mbv : Int) (ls : LState) (out : Src.Out) (hP : Pinv L fv mbv priv)
    (hpar : ∀ l a, L.addr l = some a → ∃ d, L.addr (.field l "parent") = some d)
    (hwt : ∀ v ∈ inp, LfqR.Typed L v) (hpc : ls.pc = .dLdH)
    (hok : exec fuel Gen.Src.«_cds_lfq_dequeue_rcu»
      ⟨bindParams Gen.Src.«_cds_lfq_dequeue_rcu.params» [.ptr L.q], priv⟩ inp = .ok out)
    (hno : NoAlloc out.events) : DeqPost L c ls out out.events :=
  dequeue_refines_partial_env L c hc fuel _ inp fv mbv ls out
    (by simp [bindParams, Gen.Src.«_cds_lfq_dequeue_rcu.params»]) hP hpar hwt hpc hok hno

/-- queue = object 0; node `k ≥ 1` = object `k` -/
def LQ0 : LfqR.Layout where
  q := .obj 0
  addr l := match l with
    | .obj k => if 1 ≤ k then some k else none
    | _ => none
  addr_ne0 l := by cases l <;> simp; omega
  addr_inj l l' a h h' := by
    cases l <;> cases l' <;> simp at h h' ⊢
    omega

/-- enqueue of node 7: first attempt finds `tail = 1` with `1.next = 3` (helps the tail), second attempt links after 3:
6 accesses, 6 labels, ends `idle` -/
example : ∃ out, exec 3 Gen.Src.«_cds_lfq_enqueue_rcu»
      ⟨bindParams Gen.Src.«_cds_lfq_enqueue_rcu.params» [.ptr (.obj 0), .ptr (.obj 7)], priv0 0⟩
      [.ptr (.obj 1), .ptr (.obj 3), .ptr (.obj 1), .ptr (.obj 3), .int 0, .ptr (.obj 3)] = .ok out ∧
    out.events.filterMap (LfqR.absEv LQ0) =
      [.ldTail 1, .casNext 1 7 3, .casTail 1 3 1, .ldTail 3, .casNext 3 7 0, .casTail 3 7 3] ∧
    (lrun ⟨0, true, true⟩ ⟨.eLd, false, 7, 0, 0, 0⟩ (out.events.filterMap (LfqR.absEv LQ0))).map (·.pc) = some .idle ∧
    out.ctl = .ret none := by
  simp [Gen.Src.«_cds_lfq_enqueue_rcu», Gen.Src.«_cds_lfq_enqueue_rcu.params», block, exec, iterate, eval,
    evalArgs, execPrim, bindParams, Env.setVar, Env.setPriv, setDst, asLoc, bind, Except.bind, evalBin, evalUn, boolV,
    Val.truthy, LfqR.absEv, LfqR.dec, LQ0, List.filterMap_cons, LfqL.lrun, LfqL.lstep, priv0]

example := _cds_lfq_enqueue_rcu_refines LQ0 ⟨0, true, true⟩ 3 (priv0 0)
  [.ptr (.obj 1), .ptr (.obj 3), .ptr (.obj 1), .ptr (.obj 3), .int 0, .ptr (.obj 3)] (.obj 7) 7 0
  ⟨.eLd, false, 7, 0, 0, 0⟩ rfl (by simp [priv0])
  (by simp [EnqInp, LfqR.IsObj, LfqR.Typed, LfqR.dec, LQ0]) rfl rfl

end lfq

/-! ## urcu_ref: exact event shapes -/
section ref
open RefR

/-- `urcu_ref_get_safe(ref)`: the run is exactly `getSpec rl stopSafe`; hence (next two) only the relaxed load and
`cmpxchg(o → o + 1)` from counts `o ≠ LONG_MAX`, and a loaded `LONG_MAX` ends the call with `false` and no store. -/
theorem urcu_ref_get_safe_refines (fuel : Nat) (priv : Loc → Option Val) (inp : List Val) (rl : Loc) (hint : IntInp inp) :
    ∃ out, exec fuel Gen.Src.«urcu_ref_get_safe» ⟨bindParams Gen.Src.«urcu_ref_get_safe.params» [.ptr rl], priv⟩ inp = .ok out ∧
      out.events = (getSpec rl stopSafe fuel inp).1 ∧ out.inp = (getSpec rl stopSafe fuel inp).2.1 ∧
      out.ctl = (getSpec rl stopSafe fuel inp).2.2 :=
  urcu_ref_get_safe_exec fuel _ inp rl (by simp [bindParams, Gen.Src.«urcu_ref_get_safe.params»]) hint

theorem urcu_ref_get_safe_never_stores_at_LONG_MAX (fuel : Nat) (priv : Loc → Option Val) (inp : List Val) (rl : Loc)
    (hint : IntInp inp) :
    ∃ out, exec fuel Gen.Src.«urcu_ref_get_safe» ⟨bindParams Gen.Src.«urcu_ref_get_safe.params» [.ptr rl], priv⟩ inp = .ok out ∧
      ∀ e ∈ out.events, (∃ v : Int, e = .ld (.field rl "refcount") (.int v) 0) ∨
        ∃ o r : Int, e = .cas (.field rl "refcount") (.int o) (.int (o + 1)) (.int r) 6 0 ∧ o ≠ 9223372036854775807 := by
  obtain ⟨out, h, he, -, -⟩ := urcu_ref_get_safe_refines fuel priv inp rl hint
  refine ⟨out, h, fun e hm => ?_⟩
  rcases getSpec_shape rl stopSafe fuel inp hint e (he ▸ hm) with h | ⟨o, r, h, hs⟩
  · exact Or.inl h
  · exact Or.inr ⟨o, r, h, by simpa [stopSafe] using hs⟩

theorem urcu_ref_get_safe_at_LONG_MAX (fuel : Nat) (priv : Loc → Option Val) (rest : List Val) (rl : Loc)
    (hint : IntInp rest) :
    ∃ out, exec (fuel + 1) Gen.Src.«urcu_ref_get_safe» ⟨bindParams Gen.Src.«urcu_ref_get_safe.params» [.ptr rl], priv⟩
        (.int 9223372036854775807 :: rest) = .ok out ∧
      out.events = [.ld (.field rl "refcount") (.int 9223372036854775807) 0] ∧ out.ctl = .ret (some (.int 0)) := by
  obtain ⟨out, h, he, -, hc⟩ := urcu_ref_get_safe_refines (fuel + 1) priv (.int 9223372036854775807 :: rest) rl
    (by intro v hv; simp at hv; rcases hv with rfl | hv; exact ⟨_, rfl⟩; exact hint v hv)
  rw [getSpec_stop rl stopSafe fuel _ rest (by simp [stopSafe])] at he hc
  exact ⟨out, h, he, hc⟩

/-- `urcu_ref_get_unless_zero(ref)`: exactly `getSpec rl stopUnlessZero`; `cmpxchg` only from `o ≠ 0`, `o ≠ LONG_MAX` -/
theorem urcu_ref_get_unless_zero_refines (fuel : Nat) (priv : Loc → Option Val) (inp : List Val) (rl : Loc)
    (hint : IntInp inp) :
    ∃ out, exec fuel Gen.Src.«urcu_ref_get_unless_zero»
        ⟨bindParams Gen.Src.«urcu_ref_get_unless_zero.params» [.ptr rl], priv⟩ inp = .ok out ∧
      out.events = (getSpec rl stopUnlessZero fuel inp).1 ∧ out.inp = (getSpec rl stopUnlessZero fuel inp).2.1 ∧
      out.ctl = (getSpec rl stopUnlessZero fuel inp).2.2 :=
  urcu_ref_get_unless_zero_exec fuel _ inp rl (by simp [bindParams, Gen.Src.«urcu_ref_get_unless_zero.params»]) hint

theorem urcu_ref_get_unless_zero_never_stores_at_zero_or_LONG_MAX (fuel : Nat) (priv : Loc → Option Val)
    (inp : List Val) (rl : Loc) (hint : IntInp inp) :
    ∃ out, exec fuel Gen.Src.«urcu_ref_get_unless_zero»
        ⟨bindParams Gen.Src.«urcu_ref_get_unless_zero.params» [.ptr rl], priv⟩ inp = .ok out ∧
      ∀ e ∈ out.events, (∃ v : Int, e = .ld (.field rl "refcount") (.int v) 0) ∨
        ∃ o r : Int, e = .cas (.field rl "refcount") (.int o) (.int (o + 1)) (.int r) 6 0 ∧ o ≠ 0 ∧ o ≠ 9223372036854775807 := by
  obtain ⟨out, h, he, -, -⟩ := urcu_ref_get_unless_zero_refines fuel priv inp rl hint
  refine ⟨out, h, fun e hm => ?_⟩
  rcases getSpec_shape rl stopUnlessZero fuel inp hint e (he ▸ hm) with h | ⟨o, r, h, hs⟩
  · exact Or.inl h
  · exact Or.inr ⟨o, r, h, by simpa [stopUnlessZero] using hs⟩

/-- `urcu_ref_put(ref, release)`: exactly `putSpec`; `release(ref)` is called iff the decremented value is `0`. -/
theorem urcu_ref_put_refines (fuel : Nat) (priv : Loc → Option Val) (inp : List Val) (rl : Loc) (rel : Val) :
    ∃ out, exec fuel Gen.Src.«urcu_ref_put» ⟨bindParams Gen.Src.«urcu_ref_put.params» [.ptr rl, rel], priv⟩ inp = .ok out ∧
      out.events = (putSpec rl inp).1 ∧ out.inp = (putSpec rl inp).2.1 ∧ out.ctl = (putSpec rl inp).2.2 ∧
      ((∃ args x, Event.ext "release" args x ∈ out.events) ↔ (inp.head? = some (.int 0) ∧ out.ctl = .normal)) := by
  obtain ⟨out, h, he, hi, hc⟩ := urcu_ref_put_exec fuel
    ⟨bindParams Gen.Src.«urcu_ref_put.params» [.ptr rl, rel], priv⟩ inp rl (by simp [bindParams, Gen.Src.«urcu_ref_put.params»])
  exact ⟨out, h, he, hi, hc, by rw [he, hc]; exact putSpec_release rl inp⟩

/-- counts 5 → (cmpxchg fails, sees 6) → 6 → 7 succeeds: 3 events, returns `true` -/
example : getSpec (.obj 0) stopSafe 3 [.int 5, .int 6, .int 6] =
    ([.ld (.field (.obj 0) "refcount") (.int 5) 0, .cas (.field (.obj 0) "refcount") (.int 5) (.int 6) (.int 6) 6 0,
      .cas (.field (.obj 0) "refcount") (.int 6) (.int 7) (.int 6) 6 0], [], .ret (some (.int 1))) := by
  simp [getSpec, loopSpec, stopSafe]
example := urcu_ref_get_safe_refines 3 (fun _ => none) [.int 5, .int 6, .int 6] (.obj 0) (by simp [IntInp])
example := urcu_ref_get_unless_zero_refines 3 (fun _ => none) [.int 5, .int 6, .int 6] (.obj 0) (by simp [IntInp])
example : getSpec (.obj 0) stopUnlessZero 3 [.int 0, .int 6] =
    ([.ld (.field (.obj 0) "refcount") (.int 0) 0], [.int 6], .ret (some (.int 0))) := by
  simp [getSpec, loopSpec, stopUnlessZero]
/-- last reference dropped: the decrement returns 0, `release(ref)` is called: 2 events -/
example : putSpec (.obj 0) [.int 0, .int 0] =
    ([.rmw .usubret (.field (.obj 0) "refcount") (.int 1) (.int 0) 6, .ext "release" [.ptr (.obj 0)] (.int 0)], [], .normal) := by
  simp [putSpec]
example := urcu_ref_put_refines 1 (fun _ => none) [.int 0, .int 0] (.obj 0) (.ptr (.glob "release_cb"))

end ref

end UrcuVerif.Props.SrcQueue
