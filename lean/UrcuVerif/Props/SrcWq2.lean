import UrcuVerif.Props.SrcWq
import UrcuVerif.Src.WqWorkerLift
import UrcuVerif.Src.WqWorker2
import UrcuVerif.Src.WqSplice
/-!
# Source refinement, component "work queue", part 2 (continues `Props/SrcWq.lean`)

* the worker's local automaton `WqL.wstep` **against the real `Wq.step`**: lift lemmas `wq_worker_lift`, `wq_worker_lift_run`,
  `wq_worker_run_begin`, `wq_worker_run_end`.  The queue oracle discipline is stated against `Wq.State` in `WqL.wObs` and in the
  hypotheses of the `run` lemmas: the work whose function is called is the head of `s.batch`, the traversal sees the end of
  the list iff the rest of the batch is empty, emptiness tests answer `s.queue = []`;
* the batch for **every** oracle (`workqueue_thread_batch_refines'`, partial-correctness form of `notes/SRC_BRIEF.md`:
  `exec … = .ok out → events well typed → accepted`), the busy-wait for a `next` pointer included.
-/
set_option linter.unusedSimpArgs false
set_option maxRecDepth 8192
namespace UrcuVerif.Props.SrcWq
open UrcuVerif UrcuVerif.Src UrcuVerif.Wq UrcuVerif.Src.WqL UrcuVerif.Src.WqR

/-! ## the worker's automaton against `Wq.step` -/

/-- every local step of the worker other than a work function call, with observations that agree with the global state
(`wObs`, which contains the queue oracle discipline for the emptiness tests and the splice), is the enabled L2 step(s)
`wL2`, and the relation `WRel` (`wpc`, `cnt`, `rt`) is preserved -/
theorem wq_worker_lift (c : Cfg) (wid : Loc → Option Nat) (s : State) (ls ls' : WLState) (l : WLabel)
    (hl : wstep ls l = some ls') (hrun : ∀ cb, l ≠ .run cb) (hrel : WRel c s ls) (ho : wObs c s ls l) :
    ∃ s', Wq.run c s (wL2 wid ls l) = some s' ∧ WRel c s' ls' := wproj_lift c wid s ls ls' l hl hrun hrel ho

/-- a work function call on a user work: `wRunBegin id ; wRunEnd ; [wInvDone]`, under the discipline "the node is the head of
L2's batch; the traversal saw the end of the list only if the rest of the batch is empty"; the work is logged as started once
more (`doneLog`, `runN`) and finished -/
theorem wq_worker_lift_run (c : Cfg) (wid : Loc → Option Nat) (s : State) (ls ls' : WLState) (cb : Loc) (id : Nat)
    (hl : wstep ls (.run cb) = some ls') (hrel : WRel c s ls) (hid : nodeId wid cb = some id)
    (hb : s.batch.head? = some id) (hcw : s.cw id = none) (hidle : s.tpc 0 = .idle)
    (hend : ls.pc = .ready cb (.int 0) → s.batch.tail = []) :
    ∃ s', Wq.run c s (wL2 wid ls (.run cb)) = some s' ∧ WRel c s' ls' ∧
      s'.doneLog = s.doneLog ++ [id] ∧ s'.runN id = s.runN id + 1 ∧ s'.fin id = true :=
  wproj_lift_run c wid s ls ls' cb id hl hrel hid hb hcw hidle hend

theorem wq_worker_run_begin (c : Cfg) (wid : Loc → Option Nat) (s : State) (ls ls' : WLState) (cb : Loc) (id : Nat)
    (hl : wstep ls (.run cb) = some ls') (hrel : WRel c s ls) (hb : s.batch.head? = some id) :
    ∃ s1, step c s (.wRunBegin id) = some s1 ∧ s1.wpc = (if (s.cw id).isSome = true then .cSub else .run) ∧
      s1.cur = some id ∧ s1.batch = s.batch.tail ∧ s1.cnt = s.cnt ∧ s1.doneLog = s.doneLog ++ [id] ∧
      s1.runN id = s.runN id + 1 := wproj_run_begin c wid s ls ls' cb id hl hrel hb

theorem wq_worker_run_end (c : Cfg) (s s2 : State) (ls ls' : WLState) (cb : Loc)
    (hl : wstep ls (.run cb) = some ls') (hrel : WRel c s ls) (h2 : s2.wpc = .inv) (hc2 : s2.cnt = s.cnt + 1)
    (hend : ls.pc = .ready cb (.int 0) → s2.batch = []) :
    ∃ s3, Wq.run c s2 (if ls.pc = .ready cb (.int 0) then [.wInvDone] else []) = some s3 ∧ WRel c s3 ls' :=
  wproj_run_end c s s2 ls ls' cb hl hrel h2 hc2 hend

/-! ## the batch, every oracle -/

/-- **`workqueue_thread`, one batch, every oracle** (`WqR.wForEach`, from `FeInv2`: `_t9` = the first node at `fetch0`, or NULL
at `sub`), every loop budget: every run that returns `.ok` with well-typed events (`evOkW`: loaded `next` pointers are NULL
or node addresses) is accepted by the worker's automaton – labels `(ldNext … ; [ldTTail ; ldNext*] ; run cᵢ)* ; subQlen n` –
and ends as `BatchPost` says: completed at L2's `stopchk`, cut inside the traversal or before the `uatomic_sub`.  The
busy-wait `___cds_wfcq_node_sync_next` is covered (stutter loads at `fetchS`). -/
theorem workqueue_thread_batch_refines' (L : Layout) (fuel : Nat) (rtv : Val) (priv0 : Loc → Option Val) (rt : Bool)
    (env : Env) (inp : List Val) (ls : WLState) (out : Out) (hI : FeInv2 L rtv priv0 rt env ls)
    (hE : exec fuel wForEach env inp = .ok out) (hok : out.events.all (evOkW L) = true) :
    ∃ ls', wlr L ls out.events = some ls' ∧ BatchPost L rtv priv0 rt out.ctl out.env ls' :=
  foreach2_triple L fuel rtv priv0 rt env inp ls out hI hE hok

/-- non-vacuity: a batch of two works 5 → 6 where the worker has to busy-wait once for `5.next` (NULL, tail ≠ 5, NULL
again with `caa_cpu_relax()`, then 6): 9 events -/
example : ∃ out, exec 4 wForEach { envB with priv := fun l => if l = .glob "&attempt" then some (.int 0) else envB.priv l }
      [.int 0, .ptr (.field (.obj 6) "next"), .int 0, .ptr (.field (.obj 6) "next"), .int 0,
       .int 0, .ptr (.field (.obj 6) "next"), .int 0, .int 0] = .ok out ∧
    out.events.filterMap (absEvW L0) = [.ldNext (.field (.obj 5) "next") (.int 0), .ldTTail (.ptr (.field (.obj 6) "next")),
      .ldNext (.field (.obj 5) "next") (.int 0), .ldNext (.field (.obj 5) "next") (.ptr (.field (.obj 6) "next")),
      .run (.field (.obj 5) "next"), .ldNext (.field (.obj 6) "next") (.int 0), .ldTTail (.ptr (.field (.obj 6) "next")),
      .run (.field (.obj 6) "next"), .subQlen 2] ∧
    out.events.all (evOkW L0) = true ∧
    wlr L0 ⟨.fetch0 (.field (.obj 5) "next"), 0, false⟩ out.events = some ⟨.at .stopchk, 2, false⟩ ∧
    out.ctl = .normal := by
  simp [wForEach, wBatch, thenOf, wBody, seqNth, firstLoop, Gen.Src.«workqueue_thread», Gen.Src.«___cds_wfcq_next_blocking»,
    Gen.Src.«___cds_wfcq_next», Gen.Src.«___cds_wfcq_node_sync_next», Gen.Src.«___cds_wfcq_busy_wait», iterate,
    block, exec, eval, evalArgs, execPrim, bindParams, Env.setVar, Env.setPriv, setDst, asLoc, bind, Except.bind, evalBin,
    evalUn, boolV, Val.truthy, envB, absEvW, L0, List.filterMap_cons, wlr, wrun, wstep, hookNames, evOkW, IsNode]

/-- **statement 7 of the generated loop body** (`WqR.wBatch` = `if (splice_ret != CDS_WFCQ_RET_SRC_EMPTY) { grace-period hook;
cbcount = 0; __cds_wfcq_for_each_blocking_safe(…) uwp->func(uwp); uatomic_sub(&qlen, cbcount); }`), every oracle, every
budget, whatever the hook.  After an empty splice (L2 at `stopchk`) nothing happens.  After a non-empty one (local `first0`,
the pc the automaton reaches by `spliceX`, `cbcount` reset) every well-typed `.ok` run is accepted: `first_blocking` (2-load
emptiness test + busy-wait), then the batch as above; completed at L2's `stopchk`. -/
theorem workqueue_thread_stmt7_refines (L : Layout) (fuel : Nat) (rtv : Val) (rt : Bool) (env : Env) (sr : Int)
    (inp : List Val) (ls : WLState) (out : Out)
    (hw : env.vars "workqueue" = some (.ptr L.W)) (hr : env.vars "rt" = some rtv)
    (hsr : env.vars "splice_ret" = some (.int sr))
    (hls : (sr = 2 ∧ ∃ cnt0, ls = ⟨.at .stopchk, cnt0, rt⟩) ∨ (sr ≠ 2 ∧ ls = ⟨.first0, 0, rt⟩))
    (hE : exec fuel wBatch env inp = .ok out) (hok : out.events.all (evOkW L) = true) :
    ∃ ls', wlr L ls out.events = some ls' ∧ BatchPost L rtv env.priv rt out.ctl out.env ls' :=
  batch_triple L fuel rtv rt env sr hw hr hsr env inp ls out ⟨rfl, hls⟩ hE hok

example : wBatch = seqNth 7 wBody := rfl

/-- the traversal primitives at the two busy-wait sites, for reuse: `___cds_wfcq_node_sync_next(node, 1)` -/
theorem ___cds_wfcq_node_sync_next_worker_refines (L : Layout) (fuel : Nat) (a : Loc) (ha : a ≠ .field L.W "cbs_head")
    (site : SyncSite a) (priv0 : Loc → Option Val) (ls0 : WLState) (hpc : ls0.pc = site.S) :
    Triple L fuel Gen.Src.«___cds_wfcq_node_sync_next» (SyncInv a priv0 ls0) (SyncPost a site priv0 ls0) :=
  sync_next_triple L fuel a ha site priv0 ls0 hpc

theorem ___cds_wfcq_next_worker_refines (L : Layout) (fuel : Nat) (u : Loc) (priv0 : Loc → Option Val) (ls0 : WLState)
    (hpc : ls0.pc = .fetch0 (.field u "next")) :
    Triple L fuel Gen.Src.«___cds_wfcq_next» (NextPre (.field u "next") priv0 ls0) (NextPost (.field u "next") priv0 ls0) :=
  next_triple L fuel u priv0 ls0 hpc

theorem ___cds_wfcq_first_worker_refines (L : Layout) (fuel : Nat) (priv0 : Loc → Option Val) (ls0 : WLState)
    (hpc : ls0.pc = .first0) :
    Triple L fuel Gen.Src.«___cds_wfcq_first» (FirstPre priv0 ls0) (FirstPost priv0 ls0) :=
  first_triple L fuel priv0 ls0 hpc

/-! ## the splice and one whole iteration (splice → batch → `qlen`) -/

/-- **`___cds_wfcq_splice(&cbs_tmp_head, &cbs_tmp_tail, &workqueue->cbs_head, &workqueue->cbs_tail, 1)`** as the worker calls
it, from L2's `splice`, every oracle, every budget: emptiness test `ldHead`, `ldTail`; loop `xchgHead` / `ldTail` (busy-wait
silent); `spliceX` = the exchange of the public tail (L2's `wSplice`); the append to the private list is silent.  Returns
`CDS_WFCQ_RET_SRC_EMPTY` at L2's `stopchk`, another value at `first0` (L2's `inv`) with `cbcount` reset. -/
theorem ___cds_wfcq_splice_worker_refines (L : Layout) (fuel : Nat) (cnt : Nat) (rt : Bool) :
    Triple L fuel Gen.Src.«___cds_wfcq_splice» (SplicePre L cnt rt) (SplicePost cnt rt) := splice_triple L fuel cnt rt

/-- **`workqueue_thread`, one iteration of the main loop from the splice to the STOP test** (`WqR.wIter` = statements 4–7 of
the generated loop body), from L2's `splice`, every oracle, every budget, whatever the grace-period hook: every well-typed
`.ok` run is accepted by the worker's automaton – `wSplice` (empty: straight to `stopchk`), else the works of the batch, each
node the traversal returns run exactly once, at once, in order, then `qlen -= cbcount` – and a completed iteration is at
L2's `stopchk`. -/
theorem workqueue_thread_iteration_refines (L : Layout) (fuel : Nat) (rtv : Val) (cnt : Nat) (rt : Bool)
    (env : Env) (inp : List Val) (out : Out)
    (hw : env.vars "workqueue" = some (.ptr L.W)) (hr : env.vars "rt" = some rtv)
    (hE : exec fuel wIter env inp = .ok out) (hok : out.events.all (evOkW L) = true) :
    ∃ ls', wlr L ⟨.at .splice, cnt, rt⟩ out.events = some ls' ∧ IterPost L rtv rt out.ctl out.env ls' :=
  iter_triple L fuel rtv cnt rt env inp _ out ⟨hw, hr, rfl⟩ hE hok

example : ∃ s0 s1 s2 s3 rest, wBody = .seq s0 (.seq s1 (.seq s2 (.seq s3
    (.seq (seqNth 4 wBody) (.seq (seqNth 5 wBody) (.seq (seqNth 6 wBody) (.seq wBatch rest))))))) := ⟨_, _, _, _, _, rfl⟩

/-- environment of the worker before the splice (hash-table configuration: hooks unset, no legacy `mb`) -/
def envI : Env where
  vars x := if x = "workqueue" then some (.ptr (.obj 0)) else if x = "rt" then some (.int 0) else none
  priv l := match l with
    | .field _ f => if f = "func" then some (.ptr (.glob "f")) else if f = "grace_period_fct" then some (.int 0) else none
    | .glob g => if g = "CONFIG_RCU_EMIT_LEGACY_MB" then some (.int 0) else none
    | _ => none

/-- an iteration that splices the two works 5 → 6 and runs them: 14 events, ends at `stopchk` with `cbcount = 2` -/
example : ∃ out, exec 4 wIter envI
      [.int 0, .ptr (.field (.obj 5) "next"), .ptr (.field (.obj 5) "next"), .ptr (.field (.obj 6) "next"),
       .ptr (.glob "&cbs_tmp_head"), .ptr (.field (.obj 5) "next"), .ptr (.field (.obj 5) "next"),
       .ptr (.field (.obj 6) "next"), .int 0, .int 0, .ptr (.field (.obj 6) "next"), .int 0, .int 0] = .ok out ∧
    out.events.filterMap (absEvW L0) = [.ldHead (.ptr (.field (.obj 5) "next")), .xchgHead (.ptr (.field (.obj 5) "next")),
      .spliceX, .ldNext tmpHead (.ptr (.field (.obj 5) "next")), .ldNext tmpHead (.ptr (.field (.obj 5) "next")),
      .ldNext (.field (.obj 5) "next") (.ptr (.field (.obj 6) "next")), .run (.field (.obj 5) "next"),
      .ldNext (.field (.obj 6) "next") (.int 0), .ldTTail (.ptr (.field (.obj 6) "next")), .run (.field (.obj 6) "next"),
      .subQlen 2] ∧
    out.events.length = 14 ∧ out.events.all (evOkW L0) = true ∧
    wlr L0 ⟨.at .splice, 0, false⟩ out.events = some ⟨.at .stopchk, 2, false⟩ ∧ out.ctl = .normal := by
  simp [wIter, wBatch, thenOf, wBody, seqNth, firstLoop, Gen.Src.«workqueue_thread», Gen.Src.«___cds_wfcq_next_blocking»,
    Gen.Src.«___cds_wfcq_next», Gen.Src.«___cds_wfcq_node_sync_next», Gen.Src.«___cds_wfcq_busy_wait»,
    Gen.Src.«_cds_wfcq_init», Gen.Src.«_cds_wfcq_node_init», Gen.Src.«___cds_wfcq_splice_blocking», Gen.Src.«___cds_wfcq_splice»,
    Gen.Src.«_cds_wfcq_empty», Gen.Src.«___cds_wfcq_append», Gen.Src.«___cds_wfcq_first_blocking», Gen.Src.«___cds_wfcq_first»,
    iterate, block, exec, eval, evalArgs, execPrim, bindParams, Env.setVar, Env.setPriv, setDst, asLoc, bind, Except.bind,
    evalBin, evalUn, boolV, Val.truthy, envI, absEvW, L0, List.filterMap_cons, wlr, wrun, wstep, hookNames, evOkW, IsNode,
    tmpHead]

end UrcuVerif.Props.SrcWq
