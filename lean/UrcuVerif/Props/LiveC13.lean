import UrcuVerif.Defer.LiveWake
/-!
# C13 (concurrent part) liveness — "queued calls are also executed without any further API call"

`Props/C13Conc.lean` proves `reclaimer_no_lost_wakeup`, `waker_not_stuck`, `waker_measure`, `wake_wakes` and states
`C13_conc_live` without proof.  Here it is proved, in a stronger form (runs with idle steps, any reachable start
state, weak fairness instead of unconditional progress), and `C13_conc_live` / `C13_conc_full` follow.
-/
namespace UrcuVerif.DeferWake
open UrcuVerif UrcuVerif.Fair

/-- **defer_thread_eventually_woken** (x86-TSO, any number of owners calling `defer_rcu` any number of times, every
buffer delay, every placement of EAGAIN / EINTR / spurious returns, any draining by other runners, any reachable
start state).  Hypothesis about the run: weak fairness for every owner's steps *after its `head` store* (fence, futex
test, `futex := 0`, `FUTEX_WAKE`) and the commits of its store buffer.  Then a defer thread asleep in `FUTEX_WAIT`
while some queue is non-empty eventually leaves the sleep.  No fairness for the defer thread is needed. -/
theorem defer_thread_eventually_woken (c : Cfg) (hc : c.WF) {ρ : Nat → State} {ℓ : Nat → Option Label}
    (hrun : IsRun (step c) ρ ℓ) (hreach : Reach c (ρ 0))
    (hfair : ∀ i, i < c.n → WeakFair (step c) ρ ℓ (fun l => l ∈ ownLabels i)) :
    ∀ k, (ρ k).dpc = .dsleep → (∃ i, i < c.n ∧ (ρ k).hd i ≠ (ρ k).tl i) → ∃ k', k ≤ k' ∧ (ρ k').dpc ≠ .dsleep := by
  have hinv : ∀ j, Inv c (ρ j) := fun j =>
    inv_along hrun (Inv c) (fun s l s' h st => inv_step c hc h st) 0 (inv_reach c hc hreach) j (Nat.zero_le j)
  have phaseB : ∀ i, i < c.n → LeadsTo ρ (fun s => s.kpc i = .k3) (fun s => s.dpc ≠ .dsleep) := by
    intro i hi
    refine fair_measure_leadsTo hrun (fun l => l ∈ ownLabels i) (Inv c) _ _ (fun s => measure s i) hinv (hfair i hi)
      ?_ ?_ ?_ ?_
    · intro s l s' I hp hg st
      exact k3_unless c I i hp (Classical.byContradiction (fun h => hg h)) st
    · intro s I hp _
      exact own_enabled c i (by rw [hp]; decide)
    · intro s l s' I hp _ hl st
      exact Or.inl (waker_measure c i hl st)
    · intro s l s' I hp _ hl st
      exact Or.inl (Nat.le_of_eq (measure_frame c i (by rw [hp]; decide) hl st))
  have phaseA : ∀ i, i < c.n → LeadsTo ρ (fun s => willWake s i) (fun s => s.futex ≠ -1) := by
    intro i hi
    refine fair_measure_leadsTo hrun (fun l => l ∈ ownLabels i) (Inv c) _ _ (fun s => measure s i) hinv (hfair i hi)
      ?_ ?_ ?_ ?_
    · intro s l s' I hp hg st
      exact willWake_unless c I i hp (Classical.byContradiction (fun h => hg h)) st
    · intro s I hp _
      exact own_enabled c i (by unfold willWake at hp; grind)
    · intro s l s' I hp _ hl st
      exact Or.inl (waker_measure c i hl st)
    · intro s l s' I hp _ hl st
      exact Or.inl (Nat.le_of_eq (measure_frame c i (by unfold willWake at hp; grind) hl st))
  intro k hs hne
  have fromB : ∀ j, (ρ j).dpc = .dsleep → (ρ j).futex = 0 → ∃ j', j ≤ j' ∧ (ρ j').dpc ≠ .dsleep := by
    intro j hs h0
    obtain ⟨i, hi, hk⟩ := (hinv j).asleep_0 hs h0
    exact phaseB i hi j hk
  rcases (hinv k).fut_range with h0 | h1
  · exact fromB k hs h0
  · obtain ⟨i, hi, hq⟩ := hne
    have hw : willWake (ρ k) i := by
      refine (hinv k).wait_m1 (Or.inr (Or.inr hs)) h1 i hi ?_
      by_cases hb : (ρ k).bhd i = true
      · exact Or.inr hb
      · have := (hinv k).view i (by simpa using hb)
        exact Or.inl (by rw [this]; exact hq)
    obtain ⟨j, hj, hg⟩ := phaseA i hi k hw
    by_cases hsj : (ρ j).dpc = .dsleep
    · have h0 : (ρ j).futex = 0 := by
        rcases (hinv j).fut_range with h | h
        · exact h
        · exact absurd h hg
      obtain ⟨j', hj', hg'⟩ := fromB j hsj h0
      exact ⟨j', Nat.le_trans hj hj', hg'⟩
    · exact ⟨j, hj, hsj⟩

/-- an enabled own step means the owner is past its `head` store -/
theorem enabled_own_kpc (c : Cfg) {s : State} (I : Inv c s) (i : Nat) (h : Enabled (step c) (fun l => l ∈ ownLabels i) s) :
    s.kpc i ≠ .k0 := by
  obtain ⟨l, hl, he⟩ := h
  have hb := I.bfut_k3 i
  have hh := I.bhd_kf i
  simp only [ownLabels, List.mem_cons, List.mem_nil_iff, or_false] at hl
  rcases hl with rfl | rfl | rfl | rfl | rfl | rfl | rfl <;> simp only [step] at he <;> split at he <;> simp_all

end UrcuVerif.DeferWake

namespace UrcuVerif
open UrcuVerif.Fair

/-- **`C13_conc_live` is proved** (the statement left open in `Props/C13Conc.lean`, verbatim). -/
theorem C13_conc_live_proved : C13_conc_live := by
  intro c σ ℓ hc h0 hstep hfair k hs hne
  have hrun : IsRun (DeferWake.step c) σ (fun k => some (ℓ k)) :=
    ⟨fun i l hl => by simp only [Option.some.injEq] at hl; subst hl; exact hstep i, fun i hl => by simp at hl⟩
  have hreach : DeferWake.Reach c (σ 0) := by rw [h0]; exact DeferWake.Reach.init
  have hinv : ∀ j, DeferWake.Inv c (σ j) := fun j =>
    inv_along hrun (DeferWake.Inv c) (fun s l s' h st => DeferWake.inv_step c hc h st) 0
      (DeferWake.inv_reach c hc hreach) j (Nat.zero_le j)
  obtain ⟨k', hk', hg⟩ := DeferWake.defer_thread_eventually_woken c hc hrun hreach (fun i _ j he => by
    obtain ⟨k', hk', hl⟩ := hfair i j (DeferWake.enabled_own_kpc c (hinv j) i (he j (Nat.le_refl j)))
    exact ⟨k', hk', ℓ k', rfl, hl⟩) k hs hne
  refine ⟨k', ?_, hg⟩
  by_cases h : k = k'
  · subst h; exact absurd hs hg
  · omega

/-- **`C13_conc_full` is proved**: safety (`C13_conc_partial_proved`) + liveness under fairness. -/
theorem C13_conc_full_proved : C13_conc_full := ⟨C13_conc_partial_proved, C13_conc_live_proved⟩

end UrcuVerif

namespace UrcuVerif.DeferWake
open UrcuVerif UrcuVerif.Fair

/-! Non-vacuity: the defer thread finds nothing and sleeps (position 7) while owner 1's `head` store is still
buffered; the owner's store is committed, it resets the futex and wakes the sleeper (position 13); then idling. -/
def wokenPrefix : List Label :=
  [.dDec, .dScanQ 0, .k0 1, .dScanQ 1, .dScanEnd, .dLoad, .dWaitSleep, .flushHd 1, .kf 1, .k1 1, .k2Wake 1, .flushFut 1, .k3 1]

example : ∃ k', 7 ≤ k' ∧ (prefixState (step c2) init wokenPrefix k').dpc ≠ .dsleep := by
  have h1 : (prefixFinal (step c2) init wokenPrefix).isSome = true := by decide
  obtain ⟨sf, hsf⟩ := Option.isSome_iff_exists.mp h1
  have h2 : (prefixFinal (step c2) init wokenPrefix).map (fun s => (s.kpc 0, s.kpc 1)) = some (.k0, .k0) := by decide
  rw [hsf] at h2
  simp only [Option.map_some, Option.some.injEq, Prod.mk.injEq] at h2
  have hfin := prefixState_final (step c2) init wokenPrefix sf hsf
  have hrun := prefix_isRun (step c2) init wokenPrefix sf hsf
  have hIf : Inv c2 sf := by
    have := inv_along hrun (Inv c2) (fun s l s' h st => inv_step c2 ⟨rfl, rfl⟩ h st) 0 (inv_init c2) wokenPrefix.length
      (Nat.zero_le _)
    rwa [hfin _ (Nat.le_refl _)] at this
  refine defer_thread_eventually_woken c2 ⟨rfl, rfl⟩ (ℓ := fun i => wokenPrefix[i]?) hrun Reach.init ?_ 7 (by decide)
    ⟨1, by decide, by decide⟩
  intro i hi
  refine weakFair_of_final _ wokenPrefix.length sf hfin ?_
  intro he
  have := enabled_own_kpc c2 hIf i he
  have hi : i < 2 := hi
  match i, hi with
  | 0, _ => exact this h2.1
  | 1, _ => exact this h2.2
example : (prefixState (step c2) init wokenPrefix 12).dpc = .dsleep ∧ (prefixState (step c2) init wokenPrefix 13).dpc = .dwloop := by
  decide

end UrcuVerif.DeferWake
