import UrcuVerif.Handshake.TsoInv
import UrcuVerif.Handshake.WaitNode
import UrcuVerif.Handshake.QsbrTsoInv
import UrcuVerif.Gp.Locks
/-!
# C02 — Grace periods always complete once readers leave: no lost wake-up, no deadlock

Statements only.  Models: `Handshake/Tso.lean` (leader ↔ readers through `rcu_gp.futex`, on
x86-TSO with sys_membarrier or the reader-side fence, any number of readers, every placement of
spurious / EINTR / EAGAIN returns of FUTEX_WAIT) and `Handshake/WaitNode.lean` (leader ↔ merged
`synchronize_rcu()` caller through the wait node).  The tie is the one of C01: the real
`wait_for_readers`, `wait_gp`, `urcu_common_wake_up_gp`, `urcu_adaptative_*` run under the shim and
every futex / barrier / access event is matched by `Driver/Gp.lean`; the runtime reports deadlocks
and step-budget overruns of the real code as concrete failing schedules.

What is proved here is the *safety half of liveness*: in every reachable state in which the
leader (or a merged waiter) sleeps, some other thread is still going to wake it, that thread is
never stuck, and a bounded number of its own steps gets it to the wake-up.  Turning this into
"every call returns" needs a fair scheduler (trusted base 5).  `ENOSYS` (compat fallback) replaces
sleeping by polling the value, for which the same invariant gives termination of the poll loop.
Lock-order deadlock freedom (`rcu_gp_lock` → `rcu_registry_lock`) is not a Lean theorem: it is
covered by the deadlock detector of the runtime on the explored schedules (partial).
-/
namespace UrcuVerif.Handshake

/-- **gp_futex_range**: `rcu_gp.futex ∈ {0, -1}`; it is decremented only from 0. -/
theorem gp_futex_range (c : Cfg) (hc : c.WF) {s : State} (h : Reach c s) :
    (s.futex = 0 ∨ s.futex = -1) ∧ (s.wpc = .w0 → s.futex = 0) :=
  ⟨(inv_reach c hc h).fut_range, (inv_reach c hc h).w0_fut⟩

/-- **no_lost_wakeup** (x86-TSO, any number of readers, both barrier configurations, all
interleavings and all spurious-return placements): whenever the leader sleeps in `FUTEX_WAIT`,
some reader is still going to issue the wake-up – it has not yet tested the futex with a stale
value, or its `futex := 0` store is on its way and its `FUTEX_WAKE` is still to come. -/
theorem no_lost_wakeup (c : Cfg) (hc : c.WF) {s : State} (h : Reach c s) (hs : s.wpc = .wsleep) :
    ∃ i, i < c.n ∧ (willWake s i ∨ s.kpc i = .k3) := by
  have I := inv_reach c hc h
  rcases I.fut_range with h0 | h1
  · obtain ⟨i, hi, hk⟩ := I.asleep_0 hs h0
    exact ⟨i, hi, Or.inr hk⟩
  · obtain ⟨i, hi, hk⟩ := I.asleep_m1 (Or.inr hs) h1
    exact ⟨i, hi, Or.inl hk⟩

/-- own-step measure of reader i's wake-up path -/
def kRank : KPc → Nat
  | .k0 => 5 | .kf => 4 | .k1 => 3 | .k2 => 2 | .k3 => 1 | .k4 => 0
def measure (s : State) (i : Nat) : Nat :=
  3 * kRank (s.kpc i) + (if s.bdone i then 1 else 0) + (if s.bfut i then 1 else 0)

/-- labels executed by reader i itself (its store-buffer commits included) -/
def ownLabels (i : Nat) : List Label := [.k0 i, .kf i, .k1 i, .k2Wake i, .k2Skip i, .k3 i, .flushDone i, .flushFut i]

/-- **waker_not_stuck**: a reader that is still going to wake the leader always has an enabled
step of its own (it never waits for anybody). -/
theorem waker_not_stuck (c : Cfg) {s : State} (i : Nat) (hi : i < c.n) (hk : s.kpc i ≠ .k4) :
    ∃ l, l ∈ ownLabels i ∧ (step c s l).isSome = true := by
  by_cases hb : s.bdone i = true
  · exact ⟨.flushDone i, by simp [ownLabels], by simp [step, hb]⟩
  · by_cases hf : s.bfut i = true
    · exact ⟨.flushFut i, by simp [ownLabels], by simp [step, hf]; simpa using hb⟩
    · cases hp : s.kpc i with
      | k0 => exact ⟨.k0 i, by simp [ownLabels], by simp [step, hi, hp]⟩
      | kf => exact ⟨.kf i, by simp [ownLabels], by simp [step, hi, hp]; intro _; simpa using hb⟩
      | k1 => exact ⟨.k1 i, by simp [ownLabels], by simp [step, hi, hp]⟩
      | k2 =>
        by_cases hr : s.r i = -1
        · exact ⟨.k2Wake i, by simp [ownLabels], by simp [step, hi, hp, hr]⟩
        · exact ⟨.k2Skip i, by simp [ownLabels], by simp [step, hi, hp, hr]⟩
      | k3 => exact ⟨.k3 i, by simp [ownLabels], by simp [step, hi, hp]; exact ⟨by simpa using hb, by simpa using hf⟩⟩
      | k4 => exact absurd hp hk

/-- **waker_measure**: every own step of reader i strictly decreases its measure (≤ 17), so at
most 17 of its own steps lead to its `FUTEX_WAKE` / to the end of its unlock. -/
theorem waker_measure (c : Cfg) {s s' : State} (i : Nat) {l : Label} (hl : l ∈ ownLabels i)
    (st : step c s l = some s') : measure s' i < measure s i := by
  simp only [ownLabels, List.mem_cons, List.mem_nil_iff, or_false] at hl
  rcases hl with rfl | rfl | rfl | rfl | rfl | rfl | rfl | rfl <;>
    simp only [step] at st <;> split at st <;> simp only [Option.some.injEq, reduceCtorEq] at st <;>
    subst st <;> simp_all [measure, kRank, upd] <;> (repeat' split) <;> omega

/-- the wake-up reaches the sleeping leader: `FUTEX_WAKE` by any reader moves it out of sleep -/
theorem wake_wakes (c : Cfg) {s s' : State} (i : Nat) (hs : s.wpc = .wsleep)
    (st : step c s (.k3 i) = some s') : s'.wpc = .w2 := by
  simp only [step] at st; split at st <;> simp only [Option.some.injEq, reduceCtorEq] at st
  subst st; simp

/-- and a reader that tests the futex while the leader sleeps on -1 does read -1 -/
theorem test_sees_sleeper (c : Cfg) {s s' : State} (i : Nat) (hf : s.futex = -1)
    (st : step c s (.k1 i) = some s') : s'.r i = -1 := by
  simp only [step] at st; split at st <;> simp only [Option.some.injEq, reduceCtorEq] at st
  subst st; simp [upd, hf]

def run (c : Cfg) : State → List Label → Option State
  | s, [] => some s
  | s, l :: ls => match step c s l with
    | none => none
    | some s' => run c s' ls

/-- Necessity (`Neg`): without the reader-side fence and without sys_membarrier the wake-up IS
lost on x86-TSO – reader 0's store is still in its buffer when it tests the futex (reads 0), the
leader then decrements, scans (memory still says "active") and sleeps; nobody is left to wake it. -/
def cfgNoFence : Cfg := { n := 1, membarrier := false, slaveFence := false }
theorem lost_wakeup_without_fences :
    (run cfgNoFence init [.k0 0, .kf 0, .k1 0, .k2Skip 0, .w0, .wbarRet, .w1Some 0, .w2Sleep]).map
      (fun s => (s.wpc, s.futex, s.kpc 0, s.bdone 0)) = some (.wsleep, -1, .k4, true) := by decide

/-- Non-vacuity: the leader does sleep and is woken in both real configurations. -/
def cfgMemb : Cfg := { n := 2, membarrier := true, slaveFence := false }
def cfgMb : Cfg := { n := 2, membarrier := false, slaveFence := true }
example : (run cfgMemb init [.k0 1, .flushDone 1, .w0, .forced 0, .forced 1, .wbarRet, .w1Some 0, .w2Sleep,
    .k0 0, .kf 0, .k1 0, .k2Wake 0, .flushDone 0, .flushFut 0, .k3 0, .w2Ret, .w0, .forced 0, .forced 1, .wbarRet,
    .kf 1, .w1All, .w4]).map (fun s => (s.wpc, s.futex)) = some (.wdone, 0) := by decide
example : (run cfgMb init [.w0, .wbarRet, .w1Some 0, .w2Sleep, .k0 0, .flushDone 0, .kf 0, .k1 0, .k2Wake 0,
    .flushFut 0, .k3 0]).map (fun s => (s.wpc, s.futex)) = some (.w2, 0) := by decide
/-- in the mb configuration the reader cannot test the futex before its store is visible -/
example : run cfgMb init [.k0 0, .kf 0] = none := by decide

end UrcuVerif.Handshake

namespace UrcuVerif.WaitNode

/-- **waiter_teardown_safe**: the leader never touches a wait node after its owner has returned
from `synchronize_rcu()` (the node is on the owner's stack), and the owner never returns before
the leader is done with it. -/
theorem waiter_teardown_safe {s : State} (h : Reach s) :
    s.useAfterFree = false ∧ (s.wpc = .returned → s.lpc = .ldone) :=
  ⟨(inv_reach h).noUaf, (inv_reach h).ret_done⟩

/-- **waiter_no_lost_wakeup**: a merged waiter asleep in `FUTEX_WAIT(&wait->state, WAITING)` is
always followed by a leader that still has to publish `WAKEUP` and call `FUTEX_WAKE`. -/
theorem waiter_no_lost_wakeup {s : State} (h : Reach s) (hs : s.wpc = .sleep) :
    s.lpc = .l0 ∨ s.lpc = .l1 ∨ s.lpc = .l2 false :=
  (inv_reach h).asleep hs

def run : State → List Label → Option State
  | s, [] => some s
  | s, l :: ls => match step s l with
    | none => none
    | some s' => run s' ls

/-- non-vacuity: the waiter sleeps, is woken, and returns only after TEARDOWN -/
example : (run init [.wSeeWaiting, .wSleep, .lStore, .lLoad, .lFlush, .lWake, .wSeeWoken, .wOrRunning, .lTeardown,
    .wSeeTeardown]).map (fun s => (s.wpc, s.lpc, s.useAfterFree)) = some (.returned, .ldone, false) := by decide
example : run init [.lStore, .lFlush, .wSeeWoken, .wOrRunning, .wSeeTeardown] = none := by decide

end UrcuVerif.WaitNode

namespace UrcuVerif.QsbrHs

/-- **qsbr_no_lost_wakeup** (x86-TSO, any number of readers, all interleavings, all spurious-return
placements): whenever the QSBR grace-period leader sleeps on `rcu_gp.futex`, some reader is still
going to see its `waiting` flag, reset the futex and call `FUTEX_WAKE`, or has its `futex := 0`
on the way with the `FUTEX_WAKE` still to come. -/
theorem qsbr_no_lost_wakeup (c : Cfg) {s : State} (h : Reach c s) (hs : s.wpc = .wsleep) :
    ∃ i, i < c.n ∧ (willWake s i ∨ s.kpc i = .k5) := by
  have I := inv_reach c h
  rcases I.fut_range with h0 | h1
  · obtain ⟨i, hi, hk⟩ := I.asleep_0 hs h0
    exact ⟨i, hi, Or.inr hk⟩
  · obtain ⟨i, hi, hk⟩ := I.asleep_m1 (Or.inr hs) h1
    exact ⟨i, hi, Or.inl hk⟩

/-- after the updater's barrier every reader that has not yet announced its quiescent state (or
is about to test its flag) finds `waiting[i]` set -/
theorem qsbr_armed_visible (c : Cfg) {s : State} (h : Reach c s)
    (hw : s.wpc = .w1 ∨ s.wpc = .w2 ∨ s.wpc = .wsleep) (i : Nat) (hi : i < c.n)
    (hk : s.kpc i = .k0 ∨ s.kpc i = .k1) : s.waiting i = true :=
  (inv_reach c h).armed_vis hw i hi hk

def run (c : Cfg) : State → List Label → Option State
  | s, [] => some s
  | s, l :: ls => match step c s l with
    | none => none
    | some s' => run c s' ls

/-- non-vacuity: the leader sleeps and is woken through the waiting flag -/
example : (run { n := 1 } init [.w0, .wArm 0, .flushFutM1, .flushWait 0, .wMb, .w1Some 0, .w2Sleep, .k0 0, .k1Set 0, .k2 0,
    .flushW0 0, .kf 0, .k3 0, .k4Wake 0, .flushF0 0, .k5 0, .w2Ret]).map (fun s => (s.wpc, s.futex, s.kpc 0)) =
    some (.w0, 0, .k9) := by decide
/-- a reader that tests its flag before the updater's stores are visible is seen by the scan -/
example : (run { n := 1 } init [.w0, .wArm 0, .k0 0, .k1Clear 0, .flushFutM1, .flushWait 0, .wMb, .w1All, .w4]).map
    (fun s => (s.wpc, s.futex)) = some (.wdone, 0) := by decide

end UrcuVerif.QsbrHs


/-! ## lock order (`rcu_gp_lock` → `rcu_registry_lock`), any number of threads

`Gp/Locks.lean`: the lock discipline of `synchronize_rcu()` (incl. the release/re-acquire of the registry lock
around every wait) and of `rcu_(un)register_thread()`; the LOCK/UNLOCK event order of every thread of the real
code is matched against it by the trace tie. -/
namespace UrcuVerif.Locks

/-- **lock_order_deadlock_free**: no cycle in the wait-for graph of the two locks – every thread is enabled,
or waits for a lock whose owner is enabled, or waits for the gp lock whose owner waits for the registry lock
whose owner is enabled -/
theorem lock_order_deadlock_free {s : State} (r : Reach s) (t : Nat) :
    Enabled s t ∨ ∃ o, BlockedOn s t o ∧ (Enabled s o ∨ ∃ o2, BlockedOn s o o2 ∧ Enabled s o2) :=
  lock_deadlock_free r t

theorem lock_mutual_exclusion {s : State} (r : Reach s) (t u : Nat) :
    (holdsGp (s.pc t) = true → holdsGp (s.pc u) = true → t = u) ∧
    (holdsReg (s.pc t) = true → holdsReg (s.pc u) = true → t = u) :=
  locks_exclusive r t u

end UrcuVerif.Locks
