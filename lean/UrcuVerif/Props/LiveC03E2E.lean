import UrcuVerif.CallRcu.LiveHandoverRun
import UrcuVerif.CallRcu.LiveE2EExample
import UrcuVerif.Props.LiveC03
/-!
# C03 liveness, end to end — "each callback is eventually invoked exactly once"

From the `call_rcu()` call to the end of the callback, on every run of the full call_rcu model that satisfies the
provisos of the property (`FairEnv`): helper selection (per thread / per CPU / default), lazy creation of the default
helper under `call_rcu_mutex`, the enqueue, the helper's sleep / wake-up, its grace period, the invocation; and the
hand-over path: a callback left on a helper that is being destroyed (`call_rcu_data_free`) is spliced onto the default
helper by the destroying thread and invoked there.

`Props/LiveC03Full.lean` shows why weak fairness is not enough (`C03_full_false`): a thread blocked on
`call_rcu_mutex` is not continuously enabled.  Here threads are scheduled *strongly* fairly (`FairEnv.threads`), and
"the mutex is free again and again" is DERIVED (`mutex_free_inf_often`): every critical section of the call_rcu layer
runs to its unlock.
-/
namespace UrcuVerif.CallRcu
open UrcuVerif UrcuVerif.Fair

/-- **The provisos of the property, as hypotheses about a run** (what used to be "trusted base 5"). -/
structure FairEnv (c : Cfg) (ρ : Nat → State) (ℓ : Nat → Option Label) : Prop where
  /-- an infinite run of the model (idle steps allowed) from a reachable state -/
  run : IsRun (step c) ρ ℓ
  reach : Reach c (ρ 0)
  /-- callers are scheduled fairly, lock acquisition included: a thread whose next library-internal step
  (`threadLabel`: the rest of `call_rcu()`, of `call_rcu_data_free()`, of the operations under the mutex) is enabled
  again and again – in particular one blocked in `pthread_mutex_lock(&call_rcu_mutex)` while the mutex is released again
  and again – eventually takes it -/
  threads : ∀ t, StrongFair (step c) ρ ℓ (tLabel t)
  /-- helper threads are scheduled fairly -/
  helpers : ∀ x, WeakFair (step c) ρ ℓ (hOwn x)
  /-- every read-side section eventually ends -/
  sections_end : ∀ t j, 0 < (ρ j).nest t → ∃ j', j ≤ j' ∧ (ρ j').nest t = 0
  /-- callbacks terminate -/
  callbacks_terminate : ∀ x j, (ρ j).hpc x = .run → ∃ j', j ≤ j' ∧ (ρ j').hpc x ≠ .run
  /-- the fork handlers do not keep helpers paused (no `call_rcu_before_fork` in progress; C16 treats fork) -/
  no_pause : ∀ x j, (ρ j).pause x = false
  /-- the outer layers (`rcu_barrier()`) release `call_rcu_mutex` (proved for `rcu_barrier` in `Props/LiveC04E2E`) -/
  outer_release : ∀ j u, (ρ j).mutex = some u → ((ρ j).tpc u).extMode = true → ∃ j', j ≤ j' ∧ (ρ j').mutex ≠ some u
  /-- the library destructor `urcu_call_rcu_exit()` does not run concurrently with other API calls (its documented
  precondition), so `default_call_rcu_data` is not reset under the feet of `call_rcu_data_free` -/
  no_exit : ∀ j, NoExit (ρ j)
  dflt_ok : InvQ (ρ 0)

namespace FairEnv
variable {c : Cfg} {ρ : Nat → State} {ℓ : Nat → Option Label}

theorem reachAll (E : FairEnv c ρ ℓ) (j : Nat) : Reach c (ρ j) := reach_along c E.run E.reach j
theorem invQAll (E : FairEnv c ρ ℓ) (j : Nat) : InvQ (ρ j) := invQ_along c E.run E.dflt_ok E.no_exit j
theorem wakers (E : FairEnv c ρ ℓ) (t : Nat) : WeakFair (step c) ρ ℓ (fun l => l ∈ wakeLabels t) :=
  wakeFair_of_thread c E.run t (E.threads t)
/-- `call_rcu_mutex` is free again and again -/
theorem mutex_free (E : FairEnv c ρ ℓ) : ∀ j, ∃ j', j ≤ j' ∧ (ρ j').mutex = none :=
  mutex_free_inf_often c E.run E.reachAll E.invQAll (fun t => (E.threads t).weak) E.outer_release
end FairEnv

/-- a running callback finishes (and has been invoked exactly once) -/
theorem running_callback_eventually_finishes (c : Cfg) {ρ : Nat → State} {ℓ : Nat → Option Label} (E : FairEnv c ρ ℓ) :
    ∀ x id i, (ρ i).cur x = some id → ∃ j, i ≤ j ∧ (ρ j).fin id = true ∧ (ρ j).invN id = 1 := by
  intro x id i hcur
  have hA : ∀ j, InvA c (ρ j) := fun j => (inv_reach c (E.reachAll j)).1
  have hrunpc : (ρ i).hpc x = .run := ((hA i).cur_run x).mp (by rw [hcur]; rfl)
  obtain ⟨j3, hj3, hnr⟩ := E.callbacks_terminate x i hrunpc
  have hnc : ¬ (ρ j3).cur x = some id := fun h => hnr (((hA j3).cur_run x).mp (by rw [h]; rfl))
  obtain ⟨m', hm1', hm2', hin', hout'⟩ := change_step (ρ := ρ) (fun s => s.cur x = some id) hj3 hcur hnc
  have hfin : (ρ (m' + 1)).fin id = true := by
    cases hl : ℓ m' with
    | none => rw [E.run.idle m' hl] at hout'; exact absurd hin' hout'
    | some l => exact cur_remove c (hA m') x id hin' hout' (E.run.move m' l hl)
  exact ⟨m' + 1, by omega, hfin, ((cb_at_most_once c (E.reachAll (m' + 1)) id).2).mpr (Or.inr hfin)⟩

/-- **queued_callback_eventually_invoked_any** (no `hstop`): a callback in the queue of ANY helper is eventually
invoked exactly once and finishes – by that helper, or, if the helper is being destroyed and exits first, by the
default helper onto whose queue the destroying thread splices the leftovers. -/
theorem queued_callback_eventually_invoked_any (c : Cfg) {ρ : Nat → State} {ℓ : Nat → Option Label} (E : FairEnv c ρ ℓ) :
    ∀ x id i, id ∈ (ρ i).queue x → ∃ j, i ≤ j ∧ (ρ j).fin id = true ∧ (ρ j).invN id = 1 := by
  intro x id i hq
  have hR := E.reachAll
  have batched : ∀ y k, id ∈ (ρ k).batch y → ∃ j, k ≤ j ∧ (ρ j).fin id = true ∧ (ρ j).invN id = 1 := fun y k hb =>
    batched_callback_eventually_invoked c E.run E.reach y (E.helpers y) E.sections_end (E.callbacks_terminate y) id k hb
  have soe : ∀ y k, id ∈ (ρ k).queue y →
      ∃ j, k ≤ j ∧ (id ∈ (ρ j).batch y ∨ (((ρ j).hpc y).exiting = true ∧ id ∈ (ρ j).queue y)) := fun y k hy =>
    queued_spliced_or_exiting c E.run hR y (E.helpers y) E.wakers E.sections_end (E.callbacks_terminate y) (E.no_pause y) id k hy
  obtain ⟨j1, hj1, h1⟩ := soe x i hq
  rcases h1 with hb | ⟨hex, hqx⟩
  · obtain ⟨j, hj, h⟩ := batched x j1 hb
    exact ⟨j, by omega, h⟩
  · -- the helper exits with `id` left behind: it dies, the destroyer hands the leftovers over
    obtain ⟨j2, hj2, hdq⟩ := exiting_eventually_dead c E.run hR x (E.helpers x) id j1 hex hqx
    obtain ⟨j3, hj3, d, hdf, hqd⟩ := leftover_eventually_handed_over c E.run hR E.invQAll E.threads E.mutex_free x id j2 hdq
    -- the default helper cannot be destroyed while it is the default one: it splices `id` out
    have hsp : ∃ j4, j3 ≤ j4 ∧ id ∈ (ρ j4).batch d := by
      apply Classical.byContradiction
      intro hno
      have hnb : ∀ j, j3 ≤ j → ¬ id ∈ (ρ j).batch d := fun j hj h => hno ⟨j, hj, h⟩
      have hP : ∀ j, j3 ≤ j → (ρ j).dflt = some d ∧ id ∈ (ρ j).queue d :=
        unless_along E.run (Reach c) (fun s => s.dflt = some d ∧ id ∈ s.queue d) (fun s => id ∈ s.batch d) j3
          (fun j _ => hR j)
          (fun s l s' R p _ st => by
            obtain ⟨-, -, D, Ei, -, -⟩ := inv_reach_d c R
            exact dflt_queue_unless c D Ei d id p.1 p.2 st) ⟨hdf, hqd⟩ hnb
      obtain ⟨j4, hj4, h4⟩ := soe d j3 hqd
      rcases h4 with h4 | ⟨h4, -⟩
      · exact hnb j4 hj4 h4
      · have hst := invX_reach c (hR j4) d h4
        have hring := invS2_reach c (hR j4) d hst
        obtain ⟨-, -, -, Ei, -, -⟩ := inv_reach_d c (hR j4)
        exact Ei.e_ring_dflt d hring (hP j4 hj4).1
    obtain ⟨j4, hj4, hb⟩ := hsp
    obtain ⟨j, hj, h⟩ := batched d j4 hb
    exact ⟨j, by omega, h⟩

/-- **callback_eventually_invoked** (C03, end to end): on every run that satisfies the provisos `FairEnv`, a thread
that is inside `call_rcu()` with callback `id` not yet enqueued (any point from the call on: helper selection, lazy
creation of the default helper, the enqueue) – eventually that callback has been invoked exactly once and has
finished. -/
theorem callback_eventually_invoked (c : Cfg) {ρ : Nat → State} {ℓ : Nat → Option Label} (E : FairEnv c ρ ℓ) :
    ∀ t id i, ((ρ i).tpc t).pendId = some id → ∃ j, i ≤ j ∧ (ρ j).fin id = true ∧ (ρ j).invN id = 1 := by
  intro t id i hp
  obtain ⟨j1, hj1, hq⟩ := call_eventually_queued c E.run E.reachAll E.invQAll t (E.threads t) E.mutex_free id i hp
  have A := (inv_reach c (E.reachAll j1)).1
  have hl := A.loc_ok id
  unfold LocOk at hl
  cases hloc : (ρ j1).loc id <;> simp [hloc, Loc.queued] at hq
  case queue h =>
    obtain ⟨j, hj, r⟩ := queued_callback_eventually_invoked_any c E h id j1 (hl.2.2.2.2.2.1 h hloc)
    exact ⟨j, by omega, r⟩
  case batch h =>
    obtain ⟨j, hj, r⟩ := batched_callback_eventually_invoked c E.run E.reach h (E.helpers h) E.sections_end
      (E.callbacks_terminate h) id j1 (hl.2.2.2.2.2.2.1 h hloc)
    exact ⟨j, by omega, r⟩
  case run h =>
    obtain ⟨j, hj, r⟩ := running_callback_eventually_finishes c E h id j1 (hl.2.2.2.2.2.2.2 h hloc)
    exact ⟨j, by omega, r⟩

/-- the same from the CALL label: every `call_rcu(id)` that is made is followed by exactly one invocation of `id` -/
theorem callback_eventually_invoked_from_call (c : Cfg) {ρ : Nat → State} {ℓ : Nat → Option Label} (E : FairEnv c ρ ℓ) :
    ∀ t id i, ℓ i = some (.crCall t id) → ∃ j, i < j ∧ (ρ j).fin id = true ∧ (ρ j).invN id = 1 := by
  intro t id i hl
  have st := E.run.move i _ hl
  have hp : ((ρ (i + 1)).tpc t).pendId = some id := by
    simp only [step] at st
    split at st
    · simp only [Option.some.injEq] at st; rw [← st]; simp [upd, TPc.pendId]
    · simp at st
  obtain ⟨j, hj, r⟩ := callback_eventually_invoked c E t id (i + 1) hp
  exact ⟨j, by omega, r⟩

/-! ### Non-vacuity: all provisos hold on a concrete run

The run of `Props/LiveC03.lean` (`invokePrefix`, then idling): `call_rcu(7)` by thread 0 at position 0, no helper
exists: the default helper is created lazily under `call_rcu_mutex` (positions 3–5), sleeps, is woken by the enqueue,
runs a grace period, invokes callback 7 (position 28), which finishes at position 29. -/

theorem invokePrefix_env : FairEnv cfg2 (prefixState (step cfg2) init invokePrefix) (fun i => invokePrefix[i]?) := by
  have h1 : (prefixFinal (step cfg2) init invokePrefix).isSome = true := by decide
  obtain ⟨sf, hsf⟩ := Option.isSome_iff_exists.mp h1
  have h2 : (prefixFinal (step cfg2) init invokePrefix).map
      (fun s => (s.tpc 0, s.tpc 1, s.nextH, s.hpc 0)) = some (.idle, .idle, 1, .asleep) := by decide
  have h3 : (prefixFinal (step cfg2) init invokePrefix).map
      (fun s => (s.nest 0, s.nest 1, s.nest 2)) = some (0, 0, 0) := by decide
  rw [hsf] at h2 h3
  simp only [Option.map_some, Option.some.injEq, Prod.mk.injEq] at h2 h3
  obtain ⟨e1, e2, e3, e4⟩ := h2
  obtain ⟨e5, e6, e7⟩ := h3
  have hfin := prefixState_final (step cfg2) init invokePrefix sf hsf
  have hrun := prefix_isRun (step cfg2) init invokePrefix sf hsf
  have hRf : Reach cfg2 sf := by
    have := reach_along cfg2 hrun Reach.init invokePrefix.length
    rwa [hfin _ (Nat.le_refl _)] at this
  obtain ⟨A, B, -⟩ := inv_reach cfg2 hRf
  have hidle : ∀ t, sf.tpc t = .idle := by
    intro t
    by_cases ht : 2 ≤ t
    · refine idle_of_no_run cfg2 hRf (fun h hh => ?_) t ht
      rw [e3] at hh
      have : h = 0 := by omega
      subst this; rw [e4]; decide
    · have ht : t < 2 := by omega
      match t, ht with
      | 0, _ => exact e1
      | 1, _ => exact e2
  have hnest : ∀ t, sf.nest t = 0 := by
    intro t
    by_cases ht : t < 3
    · match t, ht with
      | 0, _ => exact e5
      | 1, _ => exact e6
      | 2, _ => exact e7
    · exact B.inert t (by simp only [nthr, e3]; show 2 + 1 ≤ t; omega)
  have hhpc : ∀ x, sf.hpc x = .asleep ∨ sf.hpc x = .none := by
    intro x
    by_cases hx : x < 1
    · have : x = 0 := by omega
      subst this; exact Or.inl e4
    · exact Or.inr (A.fresh x (by rw [e3]; omega)).1
  have hplain := plain_prefix cfg2 invokePrefix (by decide) init plain_init
  refine ⟨hrun, Reach.init, ?_, ?_, ?_, ?_, ?_, ?_, ?_, invQ_init⟩
  · intro t
    exact strongFair_of_final _ invokePrefix.length sf hfin (idle_no_tlabel cfg2 (hidle t))
  · intro x
    refine weakFair_of_final _ invokePrefix.length sf hfin ?_
    rcases hhpc x with h | h
    · rintro ⟨l, hl, he⟩
      unfold hOwn at hl
      cases l <;> simp only [helperLabel, beq_iff_eq, Bool.false_eq_true] at hl <;> subst hl <;> simp [step, h] at he <;>
        (split at he <;> simp at he)
    · exact none_no_hlabel cfg2 h
  · intro t j _
    refine ⟨j + invokePrefix.length, by omega, ?_⟩
    rw [hfin _ (by omega)]; exact hnest t
  · intro x j _
    refine ⟨j + invokePrefix.length, by omega, ?_⟩
    rw [hfin _ (by omega)]
    rcases hhpc x with h | h <;> rw [h] <;> decide
  · intro x j; exact (hplain j).1 x
  · intro j u _ he
    rw [(hplain j).2.2 u] at he; cases he
  · intro j; exact (hplain j).2.1

/-- the end-to-end theorem applies: callback 7, passed to `call_rcu()` at position 0, is invoked exactly once -/
example : ∃ j, 0 < j ∧ (prefixState (step cfg2) init invokePrefix j).fin 7 = true ∧
    (prefixState (step cfg2) init invokePrefix j).invN 7 = 1 :=
  callback_eventually_invoked_from_call cfg2 invokePrefix_env 0 7 0 (by decide)

end UrcuVerif.CallRcu
