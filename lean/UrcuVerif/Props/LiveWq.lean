import UrcuVerif.Wq.LiveRun
/-!
# Work queue liveness — "eventually" as theorems about fair runs

`Props/Workqueue.lean` proves `worker_no_lost_wakeup`, `waker_not_stuck`, `waker_measure`, `worker_no_stuck`,
`waiter_no_lost_wakeup` (no-stuck + measure).  Here the temporal half, on infinite runs with idle steps
(`Machine/Fair.lean`), every fairness / environment assumption being a hypothesis of the theorem:

* `hfairW`: weak fairness of the worker thread's own steps (`workqueue_thread`, the commit of its store buffer included);
* `hfairK`: weak fairness of every thread's *wake path* (`wake_worker_thread()`: `uatomic_inc(&qlen)`, flag load, futex load,
  `futex := 0`, its commit, `FUTEX_WAKE`) – NOT of the decision to queue;
* `hcb`: the user work functions the worker runs terminate (completion work items terminate by the worker's own steps);
* `hstop`: `urcu_workqueue_destroy` is not called (STOP never set) – otherwise a queued work may legitimately be left
  (`destroy_requires_empty`);
* `hpause`: no pause is pending (PAUSE clear along the run: the fork handlers are C16's business; in a child the statement
  applies from `urcu_workqueue_create_worker` on – a spinning child worker (`Spin`) is covered: it never sleeps);
* for the flush: weak fairness of the waiter's own steps.
(`worker_eventually_wakes`, `batch_eventually_done`, `queued_eventually_spliced`: `Wq/LiveRun.lean`.)
-/
set_option linter.unusedSimpArgs false
set_option linter.unusedVariables false
namespace UrcuVerif.Wq
open UrcuVerif UrcuVerif.Fair

/-- a work in the worker's private list is eventually started, finishes, exactly once -/
theorem batched_work_eventually_runs (c : Cfg) {ρ : Nat → State} {ℓ : Nat → Option Label}
    (hrun : IsRun (step c) ρ ℓ) (hreach : Reach c (ρ 0))
    (hfairW : WeakFair (step c) ρ ℓ wOwn)
    (hcb : ∀ j, (ρ j).wpc = .run → ∃ j', j ≤ j' ∧ (ρ j').wpc ≠ .run)
    (hpause : ∀ j, (ρ j).pause = false) :
    ∀ id i, (id ∈ (ρ i).batch ∨ (ρ i).cur = some id) → ∃ j, i ≤ j ∧ (ρ j).fin id = true ∧ (ρ j).runN id = 1 := by
  intro id j1 hb
  have hR : ∀ j, Reach c (ρ j) := reach_along c hrun hreach
  have hA : ∀ j, InvA (ρ j) := fun j => (inv_reach c (hR j)).A
  have hB : ∀ j, InvB (ρ j) := fun j => (inv_reach c (hR j)).B
  -- the private list is eventually done
  have hbusy : (ρ j1).wpc.hasBatch = true := by
    rcases hb with hb | hb
    · exact (hA j1).a_batch (by intro h; rw [h] at hb; simp at hb)
    · have := (hA j1).a_cur_pc (by rw [hb]; simp)
      cases hw : (ρ j1).wpc <;> simp_all [WPc.running, WPc.hasBatch]
  obtain ⟨j2, hj2, hsub⟩ := batch_eventually_done c hrun hR hfairW hcb hpause j1 hbusy
  have hnb : ¬ id ∈ (ρ j2).batch := by
    intro h
    have := (hA j2).a_batch (by intro h0; rw [h0] at h; simp at h)
    rw [hsub] at this; cases this
  have hnc2 : ¬ (ρ j2).cur = some id := by
    intro h
    have := (hA j2).a_cur_pc (by rw [h]; simp)
    rw [hsub] at this; cases this
  -- on the way it was started …
  have hstarted : ∃ m, j1 ≤ m ∧ m ≤ j2 ∧ (ρ m).cur = some id := by
    rcases hb with hb | hb
    · obtain ⟨m, hm1, hm2, hin, hout⟩ := change_step (ρ := ρ) (fun s => id ∈ s.batch) hj2 hb hnb
      refine ⟨m + 1, by omega, by omega, ?_⟩
      cases hl : ℓ m with
      | none => rw [hrun.idle m hl] at hout; exact absurd hin hout
      | some l => exact batch_remove c (hA m) (hB m) id hin hout (hrun.move m l hl)
    · exact ⟨j1, Nat.le_refl _, hj2, hb⟩
  obtain ⟨m, hm1, hm2, hcur⟩ := hstarted
  -- … and it finished
  obtain ⟨m', hm1', hm2', hin', hout'⟩ := change_step (ρ := ρ) (fun s => s.cur = some id) hm2 hcur hnc2
  have hfin : (ρ (m' + 1)).fin id = true := by
    cases hl : ℓ m' with
    | none => rw [hrun.idle m' hl] at hout'; exact absurd hin' hout'
    | some l => exact cur_remove c (hA m') (hB m') id hin' hout' (hrun.move m' l hl)
  exact ⟨m' + 1, by omega, hfin, (work_exactly_once c (hR (m' + 1)) id).2.2.1 hfin⟩

/-- **queued_work_eventually_runs** (any number of queuing threads, works that re-queue works, flush callers, every futex
outcome and store-buffer delay; any reachable start state – in the parent or in a child after `create_worker`): under the
hypotheses listed at the top of this file, every work in the queue is eventually executed, exactly once, and finishes. -/
theorem queued_work_eventually_runs (c : Cfg) {ρ : Nat → State} {ℓ : Nat → Option Label}
    (hrun : IsRun (step c) ρ ℓ) (hreach : Reach c (ρ 0))
    (hfairW : WeakFair (step c) ρ ℓ wOwn)
    (hfairK : ∀ t, WeakFair (step c) ρ ℓ (fun l => l ∈ wakeLabels t))
    (hcb : ∀ j, (ρ j).wpc = .run → ∃ j', j ≤ j' ∧ (ρ j').wpc ≠ .run)
    (hstop : ∀ j, (ρ j).stop = false) (hpause : ∀ j, (ρ j).pause = false) :
    ∀ id i, id ∈ (ρ i).queue → ∃ j, i ≤ j ∧ (ρ j).fin id = true ∧ (ρ j).runN id = 1 := by
  intro id i hq
  have hR : ∀ j, Reach c (ρ j) := reach_along c hrun hreach
  obtain ⟨j1, hj1, hb⟩ := queued_eventually_spliced c hrun hR hfairW hfairK hcb hstop hpause id i hq
  obtain ⟨j, hj, h⟩ := batched_work_eventually_runs c hrun hreach hfairW hcb hpause id j1 (Or.inl hb)
  exact ⟨j, by omega, h⟩

/-- every work that has been enqueued eventually finishes (it is in the queue, in the private list, running, or done) -/
theorem enqueued_work_eventually_finishes (c : Cfg) {ρ : Nat → State} {ℓ : Nat → Option Label}
    (hrun : IsRun (step c) ρ ℓ) (hreach : Reach c (ρ 0))
    (hfairW : WeakFair (step c) ρ ℓ wOwn)
    (hfairK : ∀ t, WeakFair (step c) ρ ℓ (fun l => l ∈ wakeLabels t))
    (hcb : ∀ j, (ρ j).wpc = .run → ∃ j', j ≤ j' ∧ (ρ j').wpc ≠ .run)
    (hstop : ∀ j, (ρ j).stop = false) (hpause : ∀ j, (ρ j).pause = false) :
    ∀ id i, id ∈ (ρ i).enqLog → ∃ j, i ≤ j ∧ (ρ j).fin id = true ∧ (ρ j).runN id = 1 := by
  intro id i hm
  have hR : ∀ j, Reach c (ρ j) := reach_along c hrun hreach
  cases hf : (ρ i).fin id with
  | true => exact ⟨i, Nat.le_refl i, hf, (work_exactly_once c (hR i) id).2.2.1 hf⟩
  | false =>
    rcases (work_exactly_once c (hR i) id).2.2.2.2.1 hm hf with h | h | h
    · exact queued_work_eventually_runs c hrun hreach hfairW hfairK hcb hstop hpause id i h
    · exact batched_work_eventually_runs c hrun hreach hfairW hcb hpause id i (Or.inl h)
    · exact batched_work_eventually_runs c hrun hreach hfairW hcb hpause id i (Or.inr h)

/-- once the completion work item has finished, the waiter is not asleep, and inside `futex_wait` the futex does not read -1 -/
theorem waiter_after_fin (c : Cfg) {s : State} (h : Reach c s) (t b w : Nat) (hw : s.cwork b = some w) (hf : s.fin w = true)
    (ht : (s.tpc t).waitOf = some b) :
    s.ccnt b = 0 ∧ s.tpc t ≠ .wcAsleep b ∧ ((s.tpc t).sleepOf = some b → s.cfut b ≠ -1) := by
  have I := inv_reach c h
  have hsub := I.C.c_fin_sub b w hw hf
  have hnc : curB s ≠ some b := by
    intro hc
    unfold curB at hc
    cases hcur : s.cur with
    | none => rw [hcur] at hc; cases hc
    | some w' =>
      rw [hcur] at hc
      have := I.C.c_cw w' b hc
      rw [hw] at this
      cases this
      exact (I.A.a_fin w hf).2 hcur
  refine ⟨I.C.c_cntS b hsub, ?_, ?_⟩
  · intro ha
    rcases I.H.h_range b with h0 | h1
    · exact hnc (I.H.h_0 t b ha h0).1
    · exact hnc (I.H.h_m1 t b (by rw [ha]; rfl) h1 hsub).1
  · intro hs h1
    exact hnc (I.H.h_m1 t b hs h1 hsub).1

theorem wait_frame (c : Cfg) {s s' : State} {l : Label} (hB : InvB s) (hC : InvC s) (hp : s.pause = false) (t b : Nat)
    (ht : (s.tpc t).waitOf = some b) (hna : s.tpc t ≠ .wcAsleep b) (hl : ¬ waitLabels t l) (st : step c s l = some s') :
    s'.tpc t = s.tpc t := by
  have hh := no_holder hB hp
  have hc := hC.c_waitof
  cases l <;> simp only [waitLabels] at hl <;>
    simp only [step] at st <;> (repeat' split at st) <;>
    (first | (simp at st; done) | skip) <;>
    simp only [Option.some.injEq] at st <;> subst st <;>
    simp only [upd] <;> grind [TPc.waitOf]

theorem wait_own (c : Cfg) {s s' : State} {l : Label} (t b : Nat) (ht : (s.tpc t).waitOf = some b) (hc : s.ccnt b = 0)
    (hna : s.tpc t ≠ .wcAsleep b) (hs : (s.tpc t).sleepOf = some b → s.cfut b ≠ -1) (hl : waitLabels t l)
    (st : step c s l = some s') :
    s'.cphase b = .waited ∨ ((s'.tpc t).waitOf = some b ∧ waitRank (s'.tpc t) < waitRank (s.tpc t)) := by
  cases l <;> simp only [waitLabels] at hl <;> (try subst hl) <;>
    simp only [step] at st <;> (repeat' split at st) <;>
    (first | (simp at st; done) | skip) <;>
    simp only [Option.some.injEq] at st <;> subst st <;>
    simp_all [upd, TPc.waitOf, TPc.sleepOf, waitRank]

theorem wait_enabled (c : Cfg) {s : State} (t b : Nat) (ht : (s.tpc t).waitOf = some b) (hna : s.tpc t ≠ .wcAsleep b) :
    Enabled (step c) (waitLabels t) s := by
  cases hp : s.tpc t <;> simp [hp, TPc.waitOf] at ht
  · exact ⟨.wcDec t, rfl, by simp [step, hp]⟩
  · exact ⟨.wcLd t, rfl, by simp [step, hp]; split <;> simp⟩
  · exact ⟨.wcWaitLd t, rfl, by simp [step, hp]⟩
  · exact ⟨.wcWaitFx t .eintr, rfl, by simp [step, hp]⟩
  · subst ht; exact absurd hp hna

/-- **flush_eventually_returns**: a thread inside `urcu_workqueue_wait_completion(b)` – in particular inside
`urcu_workqueue_flush_queued_work` – eventually returns, under the hypotheses of `queued_work_eventually_runs` plus weak
fairness of the waiter's own steps: its completion work item is eventually executed (it is queued behind finitely many
works, each of which terminates), after which the waiter neither sleeps nor finds the futex at -1, reads
`barrier_count == 0` and returns. -/
theorem flush_eventually_returns (c : Cfg) {ρ : Nat → State} {ℓ : Nat → Option Label}
    (hrun : IsRun (step c) ρ ℓ) (hreach : Reach c (ρ 0))
    (hfairW : WeakFair (step c) ρ ℓ wOwn)
    (hfairK : ∀ t, WeakFair (step c) ρ ℓ (fun l => l ∈ wakeLabels t))
    (hcb : ∀ j, (ρ j).wpc = .run → ∃ j', j ≤ j' ∧ (ρ j').wpc ≠ .run)
    (hstop : ∀ j, (ρ j).stop = false) (hpause : ∀ j, (ρ j).pause = false)
    (t b : Nat) (hfairT : WeakFair (step c) ρ ℓ (waitLabels t)) :
    ∀ i, ((ρ i).tpc t).waitOf = some b → ∃ j, i ≤ j ∧ (ρ j).cphase b = .waited := by
  intro i ht
  have hR : ∀ j, Reach c (ρ j) := reach_along c hrun hreach
  apply Classical.byContradiction
  intro hno
  have hnw : ∀ j, i ≤ j → ¬ (ρ j).cphase b = .waited := fun j hj h => hno ⟨j, hj, h⟩
  have Ii := inv_reach c (hR i)
  obtain ⟨hown, hph, horph⟩ := Ii.C.c_waitof t b ht
  -- the completion work item exists and has been enqueued
  cases hcw : (ρ i).cwork b with
  | none => exact absurd hcw (Ii.C.c_work_phase b (Or.inl hph))
  | some w =>
    have hwe : w ∈ (ρ i).enqLog := by
      rcases Ii.C.c_enq b w hcw horph with h | h
      · exact h
      · rw [hown] at h; rw [h] at ht; cases ht
    -- the waiter stays inside wait_completion(b) until it returns; the work item stays the completion's
    have hstay : ∀ j, i ≤ j → ((ρ j).tpc t).waitOf = some b ∧ (ρ j).cwork b = some w := by
      refine unless_along hrun (fun s => Reach c s ∧ s.pause = false) (fun s => (s.tpc t).waitOf = some b ∧ s.cwork b = some w)
        (fun s => s.cphase b = .waited) i (fun j _ => ⟨hR j, hpause j⟩) ?_ ⟨ht, hcw⟩ hnw
      intro s l s' I hp _ st
      have hh := no_holder (inv_reach c I.1).B I.2
      have hc7 := (inv_reach c I.1).C.c_waitof t b hp.1
      have hc6 := (inv_reach c I.1).C.c_qcinc
      obtain ⟨hp1, hp2⟩ := hp
      cases l <;> simp only [step] at st <;> (repeat' split at st) <;>
        (first | (simp at st; done) | skip) <;>
        simp only [Option.some.injEq] at st <;> subst st <;>
        simp only [upd] at * <;> grind [TPc.waitOf]
    -- the work item eventually finishes
    obtain ⟨j1, hj1, hfin, -⟩ := enqueued_work_eventually_finishes c hrun hreach hfairW hfairK hcb hstop hpause w i hwe
    -- from then on the waiter's own steps lead to the return
    let P : State → Prop := fun s => (s.tpc t).waitOf = some b ∧ s.cwork b = some w ∧ s.fin w = true
    have hP : ∀ j, j1 ≤ j → P (ρ j) := by
      intro j hj
      refine ⟨(hstay j (by omega)).1, (hstay j (by omega)).2, ?_⟩
      exact (stable_along hrun (fun _ => True) (fun s => s.fin w = true) j1 (fun _ _ => trivial)
        (fun s l s' _ hf st => fin_stable c w hf st) hfin) j hj
    obtain ⟨j, hj, hg⟩ := fair_measure_leadsto hrun (waitLabels t) (fun s => (Reach c s ∧ s.pause = false) ∧ P s)
      (fun s => s.cphase b = .waited) (fun s => waitRank (s.tpc t)) j1 (fun j hj => ⟨⟨hR j, hpause j⟩, hP j hj⟩) hfairT
      (fun s I _ => by
        obtain ⟨h1, h2, h3⟩ := waiter_after_fin c I.1.1 t b w I.2.2.1 I.2.2.2 I.2.1
        exact wait_enabled c t b I.2.1 h2)
      (fun s l s' I _ hl st => by
        obtain ⟨h1, h2, h3⟩ := waiter_after_fin c I.1.1 t b w I.2.2.1 I.2.2.2 I.2.1
        rcases wait_own c t b I.2.1 h1 h2 h3 hl st with h | h
        · exact Or.inr h
        · exact Or.inl h.2)
      (fun s l s' I _ hl st => by
        obtain ⟨h1, h2, h3⟩ := waiter_after_fin c I.1.1 t b w I.2.2.1 I.2.2.2 I.2.1
        exact Or.inl (by rw [wait_frame c (inv_reach c I.1.1).B (inv_reach c I.1.1).C I.1.2 t b I.2.1 h2 hl st]; exact Nat.le_refl _))
    exact hnw j (by omega) hg

/-! ### Non-vacuity

The worker goes to sleep (position 8); thread 1 queues work 7 (positions 8–9) and walks the wake path, its `FUTEX_WAKE`
(position 15) wakes the worker; thread 2 flushes (create, get, inc, enqueue, …, wait: asleep at position 28); the worker
runs work 7 and the completion work item, wakes the waiter, which returns (position 46); the worker goes back to sleep;
then idling.  All hypotheses of both theorems hold on this run. -/
def livePrefix : List Label :=
  [.wStart, .wDec0, .wTop, .wSplice, .wStopChk, .wEmptyChk, .wWaitLd, .wWaitFx .sleep,
   .qCall 1 7, .enq 1, .inc 1, .ldFlags 1, .ldFutex 1, .stFutex 1, .flush 1, .wake 1,
   .ccCreate 2, .qcGet 2 0, .qcInc 2 100, .enq 2, .inc 2, .ldFlags 2, .ldFutex 2,
   .wcCall 2 0, .wcDec 2, .wcLd 2, .wcWaitLd 2, .wcWaitFx 2 .sleep,
   .wWaitLd, .wDec, .wTop, .wSplice, .wRunBegin 7, .wRunEnd, .wRunBegin 100, .cSub, .cLd, .cSt, .cFlush, .cWake, .cPut,
   .wInvDone, .wSub, .wStopChk, .wEmptyChk,
   .wcWaitLd 2, .wcDec 2, .wcLd 2, .dcPut 2 0, .wWaitLd, .wWaitFx .sleep]

example : (prefixState (step {}) init livePrefix 10).queue = [7] ∧ ((prefixState (step {}) init livePrefix 28).tpc 2).waitOf = some 0 ∧
    (prefixState (step {}) init livePrefix 34).fin 7 = true ∧ (prefixState (step {}) init livePrefix 48).cphase 0 = .waited := by decide

theorem livePrefix_hyps :
    ∃ sf, prefixFinal (step {}) init livePrefix = some sf ∧
      (∀ t, sf.tpc t = .idle ∧ sf.bfut t = false) ∧ sf.wpc = .asleep ∧ sf.cbuf = false ∧ sf.queue = [] ∧ sf.cur = none := by
  have h1 : (prefixFinal (step {}) init livePrefix).isSome = true := by decide
  obtain ⟨sf, hsf⟩ := Option.isSome_iff_exists.mp h1
  have h2a : (prefixFinal (step {}) init livePrefix).map (fun s => (s.tpc 0, s.tpc 1, s.tpc 2)) = some (.idle, .idle, .idle) := by decide
  have h2b : (prefixFinal (step {}) init livePrefix).map (fun s => (s.wpc, s.cbuf, s.queue, s.cur)) = some (.asleep, false, [], none) := by decide
  have h3 : (prefixFinal (step {}) init livePrefix).map (fun s => (s.bfut 0, s.bfut 1, s.bfut 2)) = some (false, false, false) := by decide
  rw [hsf] at h2a h2b h3
  simp only [Option.map_some, Option.some.injEq, Prod.mk.injEq] at h2a h2b h3
  have h2 := h2a
  refine ⟨sf, hsf, ?_, h2b.1, h2b.2.1, h2b.2.2.1, h2b.2.2.2⟩
  -- threads other than 0, 1, 2 never moved: all labels of the prefix belong to threads 0..2, and a thread's pc / buffer is
  -- only changed by its own labels, `cWake` (the waiter) or `fork`
  have hrun := prefix_isRun (step {}) init livePrefix sf hsf
  have hfin := prefixState_final (step {}) init livePrefix sf hsf
  intro t
  by_cases ht : t < 3
  · match t, ht with
    | 0, _ => exact ⟨h2.1, h3.1⟩
    | 1, _ => exact ⟨h2.2.1, h3.2.1⟩
    | 2, _ => exact ⟨h2.2.2, h3.2.2⟩
  · have key : ∀ n, (prefixState (step {}) init livePrefix n).tpc t = .idle ∧ (prefixState (step {}) init livePrefix n).bfut t = false ∧
        (∀ b, (prefixState (step {}) init livePrefix n).cowner b < 3) := by
      intro n
      induction n with
      | zero => rw [prefixState_zero]; simp [init]
      | succ n ih =>
        cases hl : livePrefix[n]? with
        | none => rw [hrun.idle n hl]; exact ih
        | some l =>
          have st := hrun.move n l hl
          have hmem : l ∈ livePrefix := List.mem_of_getElem? hl
          obtain ⟨i1, i2, i3⟩ := ih
          have hlt : ¬ t < 3 := ht
          simp only [livePrefix, List.mem_cons, List.mem_nil_iff, or_false] at hmem
          rcases hmem with rfl | rfl | rfl | rfl | rfl | rfl | rfl | rfl | rfl | rfl | rfl | rfl | rfl | rfl | rfl | rfl | rfl | rfl | rfl | rfl |
            rfl | rfl | rfl | rfl | rfl | rfl | rfl | rfl | rfl | rfl | rfl | rfl | rfl | rfl | rfl | rfl | rfl | rfl | rfl | rfl | rfl | rfl | rfl |
            rfl | rfl | rfl | rfl | rfl | rfl | rfl | rfl <;>
            simp only [step] at st <;> (repeat' split at st) <;>
            (first | (simp at st; done) | skip) <;>
            simp only [Option.some.injEq] at st <;> rw [← st] <;>
            simp only [upd] <;> (refine ⟨?_, ?_, ?_⟩ <;> grind)
    have := key livePrefix.length
    rw [hfin _ (Nat.le_refl _)] at this
    exact ⟨this.1, this.2.1⟩

/-- the hypotheses of `queued_work_eventually_runs` and `flush_eventually_returns` are satisfiable, and the conclusions are
reached on this run -/
example : (∃ j, 10 ≤ j ∧ (prefixState (step {}) init livePrefix j).fin 7 = true ∧ (prefixState (step {}) init livePrefix j).runN 7 = 1) ∧
    (∃ j, 28 ≤ j ∧ (prefixState (step {}) init livePrefix j).cphase 0 = .waited) := by
  obtain ⟨sf, hsf, hidle, hw, hcb, hq, hcur⟩ := livePrefix_hyps
  have hfin := prefixState_final (step {}) init livePrefix sf hsf
  have hrun := prefix_isRun (step {}) init livePrefix sf hsf
  have hpre : ∀ j, j < livePrefix.length → (prefixState (step {}) init livePrefix j).stop = false ∧
      (prefixState (step {}) init livePrefix j).pause = false := by decide
  have hfs : (prefixFinal (step {}) init livePrefix).map (fun s => (s.stop, s.pause)) = some (false, false) := by decide
  rw [hsf] at hfs
  simp only [Option.map_some, Option.some.injEq, Prod.mk.injEq] at hfs
  have hsp : ∀ j, (prefixState (step {}) init livePrefix j).stop = false ∧ (prefixState (step {}) init livePrefix j).pause = false := by
    intro j
    by_cases hj : j < livePrefix.length
    · exact hpre j hj
    · rw [hfin j (by omega)]; exact hfs
  have fW : WeakFair (step {}) (prefixState (step {}) init livePrefix) (fun i => livePrefix[i]?) wOwn := by
    refine weakFair_of_final _ livePrefix.length sf hfin ?_
    rintro ⟨l, hl, he⟩
    unfold wOwn at hl
    cases l <;> simp only [workerLabel, Bool.false_eq_true] at hl <;> simp [step, hw, hcb, hcur, curB] at he
  have fK : ∀ t, WeakFair (step {}) (prefixState (step {}) init livePrefix) (fun i => livePrefix[i]?) (fun l => l ∈ wakeLabels t) := by
    intro t
    refine weakFair_of_final _ livePrefix.length sf hfin ?_
    rintro ⟨l, hl, he⟩
    simp only [wakeLabels, List.mem_cons, List.mem_nil_iff, or_false] at hl
    rcases hl with rfl | rfl | rfl | rfl | rfl | rfl <;> simp [step, (hidle t).1, (hidle t).2] at he
  have fT : WeakFair (step {}) (prefixState (step {}) init livePrefix) (fun i => livePrefix[i]?) (waitLabels 2) := by
    refine weakFair_of_final _ livePrefix.length sf hfin ?_
    rintro ⟨l, hl, he⟩
    cases l <;> simp only [waitLabels] at hl <;> (try subst hl) <;> simp [step, (hidle 2).1] at he
  have hcbk : ∀ j, (prefixState (step {}) init livePrefix j).wpc = .run →
      ∃ j', j ≤ j' ∧ (prefixState (step {}) init livePrefix j').wpc ≠ .run := by
    intro j _
    refine ⟨j + livePrefix.length, by omega, ?_⟩
    rw [hfin _ (by omega), hw]; decide
  exact ⟨queued_work_eventually_runs {} hrun Reach.init fW fK hcbk (fun j => (hsp j).1) (fun j => (hsp j).2) 7 10 (by decide),
    flush_eventually_returns {} hrun Reach.init fW fK hcbk (fun j => (hsp j).1) (fun j => (hsp j).2) 2 0 fT 28 (by decide)⟩

end UrcuVerif.Wq
