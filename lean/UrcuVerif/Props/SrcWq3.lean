import UrcuVerif.Src.Wq3Compl
import UrcuVerif.Src.Wq3Tail
/-!
# Source refinement, work queue part 3: completions (`src/workqueue.c`) – final statements

Generated source IR (`Gen/Src.lean`, regenerated from /repo on every run) ⊑ L2 (`Wq/Model.lean`), thread-locally, in the
partial-correctness form of `notes/SRC_BRIEF.md`: every run of `exec` that returns `.ok` (every loop budget, every
oracle = every prefix of every event sequence) and whose events are well typed is a label sequence of the local automaton.

* `urcu_workqueue_wait_completion_refines`, `futex_wait_completion_refines` – against `WqL.tstep` (the application thread's
  automaton, proved to be the projection of `Wq.step` by `WqL.tproj_lift` / `tproj_step` / `tframe` / `tframe_cWake`):
  **the waiter returns only after a load of `barrier_count` that saw 0**;
* `_urcu_workqueue_wait_complete_refines` – against `Wq3.cstep`, the projection of the worker's labels `cSub cLd cSt cWake
  cPut` (`completion_work_proj_lift`): **one decrement of `barrier_count` per completion work**, wake-up of the waiter iff it
  reached 0, **`release(ref)` (the completion is freed) iff the decremented reference count is 0**, then `free(work)`;
* `urcu_workqueue_destroy_completion_refines`, `free_completion_refines` – exact event shapes (L2: `dcPut`);
* `workqueue_thread_stop_test_refines` – the STOP test of the worker's main loop (statements 8–9 of the generated loop body,
  where `workqueue_thread_iteration_refines` of `Props/SrcWq2.lean` ends), L2's `wStopChk`, in the same `Triple` form.

Typing contracts (`evOkC`, `evOkD`; hypotheses on the events): loaded / returned words are integers; `errno` after a failed
FUTEX_WAIT is EAGAIN or EINTR and FUTEX_WAKE returns a count `≥ 0` (the source calls `urcu_die` otherwise).
Abstracted away (silent): fences; a FUTEX_WAIT returning non-zero (its outcome is the `errno` read next).  Not covered here:
`urcu_workqueue_create_completion`, `urcu_workqueue_queue_completion`, `urcu_workqueue_flush_queued_work` (L2 `ccCreate`,
`qcGet`, `qcInc`), and the fact that the L2 label `cFlush` (store buffer) has no source event.
-/
set_option linter.unusedSimpArgs false
set_option linter.unusedVariables false
set_option maxRecDepth 8192
namespace UrcuVerif.Props.SrcWq3
open UrcuVerif UrcuVerif.Src UrcuVerif.Wq UrcuVerif.Src.WqL UrcuVerif.Src.Wq3

/-- **`urcu_workqueue_wait_completion(completion)`**, `C` = the completion, from L2's `tpc t = wcDec b`: every well-typed
`.ok` run is a run of `WqL.tstep`; a completed call is at `idle`, the private view is unchanged and the events contain a
load of `barrier_count` that returned 0 followed by silent events only; a run cut by the loop budget is at the head of the
outer loop (`wcDec b`) or of the loop of `futex_wait` (`wcWaitLd b`); otherwise the run is a blocked prefix. -/
theorem urcu_workqueue_wait_completion_refines (fuel : Nat) (env : Env) (inp : List Val) (out : Out) (C : Loc) (b : Nat)
    (hc : env.vars "completion" = some (.ptr C))
    (hE : exec fuel Gen.Src.«urcu_workqueue_wait_completion» env inp = .ok out)
    (hok : out.events.all evOkC = true) :
    ∃ pc', trun (.wcDec b) (out.events.filterMap (absEvC C)) = some pc' ∧
      ((out.ctl = .normal ∧ pc' = .idle ∧ out.env.priv = env.priv ∧
          ∃ pre mo suf, out.events = pre ++ Event.ld (.field C "barrier_count") (.int 0) mo :: suf ∧
            ∀ e ∈ suf, absEvC C e = none) ∨
        out.ctl = .blocked ∨ (out.ctl = .fuel ∧ (pc' = .wcDec b ∨ pc' = .wcWaitLd b))) := by
  obtain ⟨pc', h1, h2⟩ := wait_completion_PT C b env.priv fuel env inp _ out ⟨hc, rfl, rfl⟩ hE hok
  refine ⟨pc', h1, ?_⟩
  rcases h2 with ⟨hn, rfl, hp⟩ | hb | hf
  · exact .inl ⟨hn, rfl, hp, accC_idle_saw_zero C out.events (.wcDec b) rfl h1⟩
  · exact .inr (.inl hb)
  · exact .inr (.inr hf)

/-- **`futex_wait(&completion->futex)`** from L2's `wcWaitLd b`: a completed call is at `wcDec b` -/
theorem futex_wait_completion_refines (fuel : Nat) (env : Env) (inp : List Val) (out : Out) (C : Loc) (b : Nat)
    (hc : env.vars "futex" = some (.ptr (.field C "futex")))
    (hE : exec fuel Gen.Src.«futex_wait» env inp = .ok out) (hok : out.events.all evOkC = true) :
    ∃ pc', trun (.wcWaitLd b) (out.events.filterMap (absEvC C)) = some pc' ∧
      (((out.ctl = .normal ∨ out.ctl = .ret none) ∧ pc' = .wcDec b ∧ out.env.priv = env.priv) ∨ out.ctl = .blocked ∨
        (out.ctl = .fuel ∧ pc' = .wcWaitLd b)) :=
  futex_wait_PT C b env.priv fuel env inp _ out ⟨hc, rfl, rfl⟩ hE hok

/-- inside `wait_completion`, `idle` (= the call returns) is reached only by `cLdCount 0` -/
theorem wait_completion_returns_only_on_zero (pc pc' : TPc) (l : TLabel) (h : tstep pc l = some pc')
    (hw : isWc pc = true) : (pc' = .idle ∧ l = .cLdCount 0) ∨ isWc pc' = true := tstep_wc_idle pc pc' l h hw

/-- … and in L2 the load `wcLd t` returns the call exactly when `barrier_count` of the completion is 0 (re-export of the
projection lemma `WqL.tproj_lift` for this label) -/
theorem wait_completion_wcLd_lift (c : Cfg) (s : State) (t b : Nat) (v : Int) (hpc : s.tpc t = .wcLd b)
    (hv : v = s.ccnt b) :
    ∃ s', Wq.run c s [.wcLd t] = some s' ∧ s'.tpc t = (if v = 0 then .idle else .wcWaitLd b) := by
  have := tproj_lift c s t (.cLdCount v) (if v = 0 then .idle else .wcWaitLd b) (by simp [hpc, tstep])
    (by simp [tObs, hpc, complOf, hv]) (by simp [tGuard])
  simpa [tL2] using this

/-- **`_urcu_workqueue_wait_complete(work)`**, `Wk` = the `struct urcu_workqueue_completion_work`, `C` = its completion,
from `sub` (L2's `wpc = cSub`): every well-typed `.ok` run is a run of `cstep`; a completed call is at `done`; the labels
start with the one `subCount` and contain no other (**`barrier_count` is decremented exactly once**). -/
theorem _urcu_workqueue_wait_complete_refines (fuel : Nat) (env : Env) (inp : List Val) (out : Out) (C Wk : Loc)
    (hw : env.vars "work" = some (.ptr (.field Wk "work")))
    (hp : env.priv (.field Wk "completion") = some (.ptr C))
    (hE : exec fuel Gen.Src.«_urcu_workqueue_wait_complete» env inp = .ok out)
    (hok : out.events.all evOkD = true) :
    ∃ pc', crun .sub (out.events.filterMap (absEvD C Wk)) = some pc' ∧
      ((out.ctl = .normal ∧ pc' = .done) ∨ out.ctl = .blocked) ∧
      ((out.events.filterMap (absEvD C Wk) = [] ∧ pc' = .sub) ∨
        ∃ r rest, out.events.filterMap (absEvD C Wk) = .subCount r :: rest ∧ ∀ r', CLabel.subCount r' ∉ rest) := by
  obtain ⟨pc', h1, h2⟩ := wait_complete_PT C Wk fuel env inp _ out ⟨hw, hp, rfl⟩ hE hok
  exact ⟨pc', h1, h2, accD_one_sub C Wk out.events pc' h1⟩

/-- shape facts of `cstep`: `release` (the completion is freed) is accepted only right after a `putRef 0`
(`put --putRef 0--> rel --release--> free`), a `putRef r` with `r ≠ 0` goes to `free`, from where no `release` is accepted -/
theorem completion_freed_iff_ref_zero :
    (∀ pc pc', cstep pc .release = some pc' → pc = .rel ∧ pc' = .free) ∧
    (∀ pc pc' r, cstep pc (.putRef r) = some pc' → pc = .put ∧ pc' = (if r = 0 then .rel else .free)) ∧
    (∀ labs pc', crun .free labs = some pc' → CLabel.release ∉ labs) ∧
    (∀ pc', crun .rel [] = some pc' → pc' ≠ .done) :=
  ⟨cstep_release, cstep_putRef, crun_free_no_release, by intro pc' h; simp [crun] at h; subst h; simp⟩

/-- projection lemma of the completion work function against the real `Wq.step` -/
theorem completion_work_proj_lift (c : Cfg) (s : State) (w b : Nat) (pc pc' : CPc) (l : CLabel)
    (hcur : s.cur = some w) (hcw : s.cw w = some b) (hpc : s.wpc = pc.abs)
    (hne : pc ≠ .rel ∧ pc ≠ .free ∧ pc ≠ .done)
    (hl : cstep pc l = some pc') (ho : cObs s b l) (hg : cGuard s l) :
    ∃ s', Wq.run c s (cL2 l) = some s' ∧ s'.wpc = pc'.abs ∧
      (∀ r, l = .subCount r → s'.ccnt b = r ∧ s'.csub b = true) ∧
      ((∀ r, l ≠ .subCount r) → s'.ccnt = s.ccnt) ∧
      (∀ r, l = .putRef r → s'.cref b = r ∧ s'.cfreed b = (if r = 0 then true else s.cfreed b)) ∧
      ((∀ r, l ≠ .putRef r) → s'.cref = s.cref ∧ s'.cfreed = s.cfreed) :=
  cproj_lift c s w b pc pc' l hcur hcw hpc hne hl ho hg

open UrcuVerif.Src.Queue.RefR in
/-- **`urcu_workqueue_destroy_completion(completion)`**: exactly `putSpec` on `&completion->ref` -/
theorem urcu_workqueue_destroy_completion_refines (fuel : Nat) (env : Env) (inp : List Val) (C : Loc)
    (hc : env.vars "completion" = some (.ptr C)) :
    ∃ out, exec fuel Gen.Src.«urcu_workqueue_destroy_completion» env inp = .ok out ∧
      out.events = (putSpec (.field C "ref") inp).1 ∧ out.inp = (putSpec (.field C "ref") inp).2.1 ∧
      out.ctl = (putSpec (.field C "ref") inp).2.2 ∧ out.env.priv = env.priv :=
  destroy_completion_exec fuel env inp C hc

/-- **`free_completion(ref)`**: `free` of the completion that contains `ref` -/
theorem free_completion_refines (fuel : Nat) (env : Env) (y : Val) (rest : List Val) (C : Loc)
    (hr : env.vars "ref" = some (.ptr (.field C "ref"))) :
    ∃ out, exec fuel Gen.Src.«free_completion» env (y :: rest) = .ok out ∧
      out.events = [.ext "free" [.ptr C] y] ∧ out.inp = rest ∧ out.ctl = .normal :=
  free_completion_exec fuel env y rest C hr

/-- **`workqueue_thread`, the STOP test** `if (uatomic_load(&workqueue->flags) & URCU_WORKQUEUE_STOP) break;` from L2's
`stopchk`: `break` at `exitSt` (`dead` if real-time) when STOP is set, else falls through at `emptychk` (`rtchk`); private
view and the locals `workqueue`, `rt` unchanged -/
theorem workqueue_thread_stop_test_refines (L : WqR.Layout) (fuel : Nat) (cnt : Nat) (rt : Bool) (env : Env) (inp : List Val)
    (out : Out) (hw : env.vars "workqueue" = some (.ptr L.W))
    (hE : exec fuel WqR.wStop env inp = .ok out) (hok : out.events.all (WqR.evOkW L) = true) :
    ∃ ls', WqR.wlr L ⟨.at .stopchk, cnt, rt⟩ out.events = some ls' ∧
      out.env.priv = env.priv ∧ out.env.vars "workqueue" = env.vars "workqueue" ∧ out.env.vars "rt" = env.vars "rt" ∧
      ((out.ctl = .blocked ∧ ls' = ⟨.at .stopchk, cnt, rt⟩) ∨
       (out.ctl = .brk ∧ ls' = ⟨.at (if rt = true then .dead else .exitSt), cnt, rt⟩) ∨
       (out.ctl = .normal ∧ ls' = ⟨.at (if rt = true then .rtchk else .emptychk), cnt, rt⟩)) :=
  WqR.stop_triple L fuel cnt rt env hw env inp _ out ⟨rfl, rfl⟩ hE hok

example : ∃ s0 s1 s2 s3 s4 s5 s6 s7 rest, WqR.wBody = .seq s0 (.seq s1 (.seq s2 (.seq s3 (.seq s4 (.seq s5 (.seq s6 (.seq s7
    (.seq (WqR.seqNth 8 WqR.wBody) (.seq (WqR.seqNth 9 WqR.wBody) rest))))))))) := ⟨_, _, _, _, _, _, _, _, _, rfl⟩

/-! ## non-vacuity -/

def envC : Env := { vars := fun x => if x = "completion" then some (.ptr (.obj 4)) else none, priv := fun _ => none }

/-- the waiter decrements the futex word, sees `barrier_count = 1`, sleeps in FUTEX_WAIT, is woken, sees the futex word 0,
decrements it again and sees `barrier_count = 0`: 9 events, returns at `idle` -/
example : ∃ out, exec 3 Gen.Src.«urcu_workqueue_wait_completion» envC
      [.int (-1), .int 1, .int (-1), .int 0, .int 0, .int (-1), .int 0] = .ok out ∧
    out.events.filterMap (absEvC (.obj 4)) =
      [.cDecFutex, .cLdCount 1, .cLdFutex (-1), .cWaitSleep, .cLdFutex 0, .cDecFutex, .cLdCount 0] ∧
    out.events.length = 10 ∧ out.events.all evOkC = true ∧
    trun (.wcDec 7) (out.events.filterMap (absEvC (.obj 4))) = some .idle ∧ out.ctl = .normal := by
  simp [Gen.Src.«urcu_workqueue_wait_completion», Gen.Src.«futex_wait», iterate, block, exec, eval, evalArgs, execPrim,
    bindParams, Env.setVar, Env.setPriv, setDst, asLoc, bind, Except.bind, evalBin, evalUn, boolV, Val.truthy, envC,
    absEvC, List.filterMap_cons, trun, tstep, evOkC]

def envW : Env :=
  { vars := fun x => if x = "work" then some (.ptr (.field (.obj 9) "work")) else none,
    priv := fun l => if l = .field (.obj 9) "completion" then some (.ptr (.obj 4)) else none }

/-- the completion work brings `barrier_count` to 0, finds the waiter armed (-1), wakes it, drops the last reference
(`release`) and frees the work: 8 events, ends at `done` -/
example : ∃ out, exec 1 Gen.Src.«_urcu_workqueue_wait_complete» envW
      [.int 0, .int (-1), .int 1, .int 0, .int 0, .int 0] = .ok out ∧
    out.events.filterMap (absEvD (.obj 4) (.obj 9)) =
      [.subCount 0, .ldFutex (-1), .stFutex, .wake, .putRef 0, .release, .freeWork] ∧
    out.events.length = 8 ∧ out.events.all evOkD = true ∧
    crun .sub (out.events.filterMap (absEvD (.obj 4) (.obj 9))) = some .done ∧ out.ctl = .normal := by
  simp [Gen.Src.«_urcu_workqueue_wait_complete», Gen.Src.«futex_wake_up», Gen.Src.«urcu_ref_put», block, exec, eval,
    evalArgs, execPrim, bindParams, Env.setVar, Env.setPriv, setDst, asLoc, bind, Except.bind, evalBin, evalUn, boolV,
    Val.truthy, envW, absEvD, List.filterMap_cons, crun, cstep, evOkD]

/-- … and a completion work that is not the last one (count 2 → 1, reference 2 → 1): no wake-up, no `release` -/
example : ∃ out, exec 1 Gen.Src.«_urcu_workqueue_wait_complete» envW [.int 1, .int 1, .int 0] = .ok out ∧
    out.events.filterMap (absEvD (.obj 4) (.obj 9)) = [.subCount 1, .putRef 1, .freeWork] ∧
    crun .sub (out.events.filterMap (absEvD (.obj 4) (.obj 9))) = some .done ∧ out.ctl = .normal := by
  simp [Gen.Src.«_urcu_workqueue_wait_complete», Gen.Src.«futex_wake_up», Gen.Src.«urcu_ref_put», block, exec, eval,
    evalArgs, execPrim, bindParams, Env.setVar, Env.setPriv, setDst, asLoc, bind, Except.bind, evalBin, evalUn, boolV,
    Val.truthy, envW, absEvD, List.filterMap_cons, crun, cstep, evOkD]

example := urcu_workqueue_destroy_completion_refines 1 envC [.int 0, .int 0] (.obj 4) rfl

end UrcuVerif.Props.SrcWq3
