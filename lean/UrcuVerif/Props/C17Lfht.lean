import UrcuVerif.Lfht.Conc.SoloCas
import UrcuVerif.Lfht.Conc.NoFreed
import UrcuVerif.Lfht.Conc.SoloStep
import UrcuVerif.Props.C07
/-!
# C17 (hash-table facet) — lookups/traversals are wait-free; update operations never wait, they help
(statements and final theorems; helper lemmas in `Lfht/Conc/InvU.lean`, `WaitFree.lean`, `SoloCas.lean`, `SoloMu.lean`,
`SoloStepH.lean`, `SoloStep.lean`)

Model and quantifiers as in `Props/C05.lean`: the suspension points of the *other* threads are arbitrary — any
reachable state, i.e. in the middle of an add, after a logical delete and before its unlink, between the two
steps of a replace, in the middle of a resize with helpers.

Proved for ALL reachable states:
* `walker_wait_free`: `cds_lfht_lookup`, `cds_lfht_first`, `cds_lfht_next`, `cds_lfht_next_duplicate` return within
  `|L| + (number of unlinked nodes) + 5` own steps (explicit measure `wmu`, strictly decreasing at every hop:
  `frozen_points_forward` makes the pointer graph acyclic even through nodes that were unlinked under the walker);
* `cas_fails_only_by_interference`: in a run of one thread alone a `cmpxchg` of add / gc_bucket / replace fails at
  most once per stale value carried into the solo run — own steps keep the loaded values fresh, a failed CAS
  reloads, a CAS on fresh values succeeds.
* `solo_terminates`: add / add_unique / add_replace / replace / del (and the traversals), run alone from any
  reachable state, return within `(flagged-but-linked + 5) · (2·(|L| + unlinked) + 14)` own steps.  Measure `Mu`
  (`Lfht/Conc/SoloMu.lean`) = (passes to come) × (length of a pass) + (steps left in this pass); a pass restarts only
  after the thread unlinked a flagged node (one less to help) or after the one CAS that can fail alone (stale
  value carried into the solo run); every own step is enabled, does not touch reclaimed memory (C07) and
  decreases `Mu` (`C17Lfht_full_holds`).
The memory-safety side condition of the walk (nothing ahead of the walker has been reclaimed, `NoFreedAhead`) is no
longer an assumption: it follows from layer S of C07 (`walker_no_freed_ahead`, `Lfht/Conc/NoFreed.lean`).
-/
namespace UrcuVerif.Lfht.Conc
open UrcuVerif

/-- **lookup / first / next / next_duplicate are wait-free** -/
def WalkerWaitFree : Prop :=
  ∀ c s t, Current c → Reach c s → t < c.n → (s.th t).wk ≠ .dupAdd →
    ((s.th t).pc = .lSize ∨ (s.th t).pc = .lHead ∨ (s.th t).pc = .fHead ∨ (s.th t).pc = .wNext ∨ (s.th t).pc = .wAssert) →
    ∃ k s', k ≤ s.L.length + unl s + 5 ∧ solo c t k s = some s' ∧ (s'.th t).pc = .idle

/-- the measure behind the bound: every hop along a `next` pointer of a published node strictly decreases `wmu` -/
def HopDecreases : Prop :=
  ∀ c s p, Current c → Reach c s → (s.life p = .linked ∨ s.life p = .unlinked) → p ≠ 0 →
    wmu s ((s.nxt p).ptr) < wmu s p ∧ wmu s p ≤ s.L.length + 1 + unl s

/-- **cas_fails_only_by_interference** -/
def CasFailsOnlyByInterference : Prop :=
  (∀ c s s' t l o, Current c → Reach c s → step c s t l = some (s', o) → Fresh s (s.th t) →
      Fresh s' (s'.th t) ∨ (l = .ldSize ∧ (s.th t).pc = .rSize)) ∧
  (∀ c s s' t l o, step c s t l = some (s', o) →
      ((l = .casIns ∧ s.nxt (s.th t).prev ≠ (s.th t).iter) ∨ (l = .casGc ∧ s.nxt (s.th t).prev ≠ (s.th t).iter) ∨
        (l = .casRepl ∧ s.nxt (s.th t).old ≠ (s.th t).oldnx)) → o ≠ .crash → Fresh s' (s'.th t)) ∧
  (∀ c s s' t l o, step c s t l = some (s', o) → Fresh s (s.th t) → o ≠ .crash →
      (l = .casIns → s'.nxt (s.th t).prev = { ptr := (s.th t).node, bkt := (s.th t).iter.bkt }) ∧
      (l = .casGc → s'.nxt (s.th t).prev = { ptr := (s.th t).nx.ptr, bkt := (s.th t).iter.bkt }) ∧
      (l = .casRepl → s'.nxt (s.th t).old = { ptr := (s.th t).node, rem := true, own := true }))

/-- **solo_terminates**: an operation of a user thread (not a resize helper, not the resize owner) that is at any
of its pcs (`opLabel`: the unique step it can take there; `soloOp`: `k` such steps alone; both in
`Lfht/Conc/SoloMu.lean`) returns within `(flg + 5) · (2·(|L| + unl) + 14)` own steps, `flg` = flagged nodes still
linked (what it may have to help unlink) -/
def SoloTerminates : Prop :=
  ∀ c s t, Current c → Reach c s → t < c.n → (s.th t).parent = 0 → s.rzOwner ≠ t + 1 → (opLabel (s.th t)).isSome →
    ∃ k s', k ≤ (flg s + 5) * (2 * (s.L.length + unl s) + 14) ∧ soloOp c t k s = some s' ∧ (s'.th t).pc = .idle

/-- the hash-table facet of C17 at full strength (on the model) -/
def C17Lfht_full : Prop := WalkerWaitFree ∧ HopDecreases ∧ CasFailsOnlyByInterference ∧ SoloTerminates

/-- the conjuncts without `solo_terminates` (kept for the record; all of `C17Lfht_full` is proved below) -/
def C17Lfht_partial : Prop := WalkerWaitFree ∧ HopDecreases ∧ CasFailsOnlyByInterference

theorem walker_wait_free_thm : WalkerWaitFree := by
  intro c s t hc r ht hw hp; exact walker_wait_free hc r ht hw hp (walker_no_freed_ahead hc r hp)

theorem hop_decreases : HopDecreases := by
  intro c s p hc r hv p0
  exact ⟨wmu_hop hc r (by simp only [valid]; rcases hv with h | h <;> simp [h]) p0, wmu_le s p⟩

theorem cas_fails_only_by_interference : CasFailsOnlyByInterference :=
  ⟨fun _ _ _ _ _ _ hc r st hf => own_step_fresh hc r st hf,
   fun _ _ _ _ _ _ st hl hu => cas_fail_resets st hl hu,
   fun _ _ _ _ _ _ st hf hu => fresh_cas_succeeds st hf hu⟩

theorem C17Lfht_partial_holds : C17Lfht_partial :=
  ⟨walker_wait_free_thm, hop_decreases, cas_fails_only_by_interference⟩

theorem solo_terminates_thm : SoloTerminates := by
  intro c s t hc r ht hp0 hrz hop; exact solo_terminates hc r ht hp0 hrz hop

theorem C17Lfht_full_holds : C17Lfht_full :=
  ⟨walker_wait_free_thm, hop_decreases, cas_fails_only_by_interference, solo_terminates_thm⟩

/-! ## Non-vacuity: a lookup run alone while a deleter is frozen between its `REMOVED` flag and the unlink -/

/-- T0 adds nodes 5 and 6 (hash 3); T0 looks 5 up and starts `cds_lfht_del`: frozen right after flagging 5.
T1 calls `cds_lfht_lookup(3, key of 6)`. -/
def frozenDel : List (Nat × Label) :=
  [(0, .rlock), (0, .callAdd .plain 5 3 30), (0, .ldSize), (0, .ldHeadA), (0, .casIns),
   (0, .callAdd .plain 6 3 31), (0, .ldSize), (0, .ldHeadA), (0, .ldNextA), (0, .casIns),
   (0, .callLookup 3 30), (0, .ldSize), (0, .ldHeadL), (0, .ldWalk), (0, .ldAssertW),
   (0, .callDel), (0, .ldSize), (0, .ldDel), (0, .orRem),
   (1, .rlock), (1, .callLookup 3 31)]

example : (run c2 init frozenDel).map (fun s => (s.L, (s.nxt 5).rem, (s.th 0).pc, (s.th 1).pc)) =
    some ([1, 5, 6], true, .gHead, .lSize) := by decide

/-- T1 alone returns after 5 own steps (`≤ |L| + 0 + 5 = 8`), skipping the flagged node -/
example : ((run c2 init frozenDel).bind fun s => (solo c2 1 5 s).map fun s' => ((s'.th 1).pc, (s'.th 1).itn, s.L.length + unl s + 5)) =
    some (.idle, 6, 8) := by decide

/-- in the same state T1 calls `cds_lfht_del` on node 6 instead (it looked 6 up before T0 froze): alone, it flags 6,
helps unlink the flagged 5 on its way, unlinks 6, takes the owner flag and returns -/
def frozenDel2 : List (Nat × Label) :=
  [(0, .rlock), (0, .callAdd .plain 5 3 30), (0, .ldSize), (0, .ldHeadA), (0, .casIns),
   (0, .callAdd .plain 6 3 31), (0, .ldSize), (0, .ldHeadA), (0, .ldNextA), (0, .casIns),
   (1, .rlock), (1, .callLookup 3 31), (1, .ldSize), (1, .ldHeadL), (1, .ldWalk), (1, .ldWalk), (1, .ldAssertW),
   (0, .callLookup 3 30), (0, .ldSize), (0, .ldHeadL), (0, .ldWalk), (0, .ldAssertW),
   (0, .callDel), (0, .ldSize), (0, .ldDel), (0, .orRem),
   (1, .callDel)]

example : (run c2 init frozenDel2).map (fun s => (s.L, (s.nxt 5).rem, (s.th 0).pc, (s.th 1).pc, (s.th 1).node, flg s)) =
    some ([1, 5, 6], true, .gHead, .dSize, 6, 1) := by decide

example : ((run c2 init frozenDel2).bind fun s => (soloOp c2 1 13 s).map fun s' =>
      ((s'.th 1).pc, s'.L, s'.wins 6, (flg s + 5) * (2 * (s.L.length + unl s) + 14))) =
    some (.idle, [1], 1, 120) := by decide

end UrcuVerif.Lfht.Conc
