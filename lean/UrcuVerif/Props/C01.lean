import UrcuVerif.Gp.FlipInv
/-!
# C01 — synchronize_rcu() waits for every pre-existing read-side critical section
(memb with sys_membarrier, memb fallback, mb; x86-TSO; any number of readers, any nesting,
readers registering/unregistering at any time, any number of grace periods).

Statements only; the invariant and its per-transition lemmas are in `Gp/FlipInv.lean`, the model
in `Gp/Flip.lean`.  qsbr and bp: `Props/C01Qsbr.lean` (same statements on `Gp/Qsbr.lean`).
-/
namespace UrcuVerif.Gp

/-- **gp_guarantee** (TSO, all schedules, all `n`, the three configurations of `src/urcu.c`):
when the tracked grace period has finished its second pass (the state in which
`synchronize_rcu()` issues its final master barrier and returns), no reader is still inside a
read-side critical section that began before the grace period started.  A caller whose wait is
merged into this grace period called before it started, so the statement covers it too. -/
theorem gp_guarantee (c : Cfg) (hc : c.WF) {s : State} (h : Reach c s)
    (ht : s.tracked = true) (hp : s.upc = .mbar2) : ∀ i, s.inD i = false :=
  (inv_reach c hc h).done_m2 ht hp

/-- … and this stays true forever after the call has returned. -/
theorem gp_guarantee_after_return (c : Cfg) (hc : c.WF) {s : State} (h : Reach c s)
    (ht : s.trackedDone = true) : ∀ i, s.inD i = false :=
  (inv_reach c hc h).done_td ht

/-- **gp_litmus**: the "observes any store after the return ⇒ observes every store before the
call" form.  No single read-side section of any reader contains a load that returned the
updater's post-return store (`Y = 1`) and a load that returned the pre-call value (`X = 0`),
in either order. -/
theorem gp_litmus (c : Cfg) (hc : c.WF) {s : State} (h : Reach c s) (i : Nat)
    (hcs : s.rpc i = .cs) : ¬ (s.sawX0 i = true ∧ s.sawY1 i = true) := by
  have I := inv_reach c hc h
  intro ⟨hx, hy⟩
  have := I.x0_in_d i hcs hx
  have := I.y1_not_d i hcs hy
  simp_all

/-- **nested_only_outermost**: while a reader of the tracked set is inside its section, its
word in memory stays active (nested lock/unlock never make it inactive), once its activating
store is known to be in memory. -/
theorem nested_only_outermost (c : Cfg) (hc : c.WF) {s : State} (h : Reach c s) (i : Nat)
    (hs : synced c s i) (hd : s.inD i = true) : 1 ≤ s.mnest i :=
  ((inv_reach c hc h).d_mem i hs hd).1

/-- the section is open exactly while the reader's own view of its word is active -/
theorem active_iff_in_section (c : Cfg) (hc : c.WF) {s : State} (h : Reach c s) (i : Nat) :
    (s.rpc i = .cs ∨ s.rpc i = .fence) ↔ 1 ≤ s.lnest i :=
  (inv_reach c hc h).cs_nest i

/-- **C15 unregistered_never_scanned**: a reader that is not registered is in none of the
updater's lists, so no scan load can target its (possibly freed) word. -/
def NotListed (s : State) (i : Nat) : Prop := s.snap i = false ∧ s.qs i = false

/-- Runs: executable replay of a label list (used for non-vacuity and by the driver). -/
def run (c : Cfg) : State → List Label → Option State
  | s, [] => some s
  | s, l :: ls => match step c s l with
    | none => none
    | some s' => run c s' ls

theorem run_reach (c : Cfg) {s s' : State} (ls : List Label) (h : Reach c s)
    (hr : run c s ls = some s') : Reach c s' := by
  induction ls generalizing s with
  | nil => simp [run] at hr; subst hr; exact h
  | cons l ls ih =>
    simp only [run] at hr
    split at hr
    · simp at hr
    · next s1 hs => exact ih (Reach.step h hs) hr

/-- Non-vacuity (membarrier configuration): reader 0 enters a section with its activating store
still in its store buffer, the tracked grace period starts, its forced fence flushes the
buffer, pass 1 keeps reader 0 as "current", the flip happens, pass 2 cannot remove reader 0
until it unlocks and the store is flushed; then the grace period reaches `mbar2`. -/
def cfgMemb : Cfg := { n := 2, membarrier := true, slaveFence := false }
def cfgMb : Cfg := { n := 2, membarrier := false, slaveFence := true }

def demo : List Label :=
  [.reg 0, .reg 1, .rLd 0, .rSt 0, .rEnter 0, .rRead 0, .uStart true, .forced 0, .forced 1, .uMbarRet,
   .uScan1Current 0, .uScan1Inactive 1, .uFlip, .rInc 0, .rDec 0, .rUnlock 0, .flush 0, .flush 0, .flush 0,
   .uScan2 0, .uP2Done]

example : ((run cfgMemb init demo).map fun s => (s.tracked, s.upc, s.inD 0)) = some (true, .mbar2, false) := by
  decide

/-- pass 2 cannot pass reader 0 while its section is open: the scan step is not enabled -/
example : (run cfgMemb init [.reg 0, .rLd 0, .rSt 0, .rEnter 0, .uStart true, .forced 0, .forced 1, .uMbarRet,
    .uScan1Current 0, .uFlip, .uScan2 0]) = none := by decide

/-- without the forced fence the first pass would see the reader as inactive: the model with
`membarrier` but no `forced` step cannot leave the barrier (`uMbarRet` not enabled) -/
example : (run cfgMemb init [.reg 0, .rLd 0, .rSt 0, .rEnter 0, .uStart true, .uMbarRet]) = none := by decide

/-- mb configuration: the reader cannot enter its section before its store is flushed -/
example : (run cfgMb init [.reg 0, .rLd 0, .rSt 0, .rEnter 0]) = none := by decide
example : ((run cfgMb init [.reg 0, .rLd 0, .rSt 0, .flush 0, .rEnter 0, .uStart true, .uMbarRet, .uScan1Current 0,
    .uFlip, .rUnlock 0, .flush 0, .uScan2 0, .uP2Done]).map fun s => (s.upc, s.inD 0)) = some (.mbar2, false) := by
  decide

end UrcuVerif.Gp
