import UrcuVerif.Lfq.Model
/-!
# C12 — rculfqueue on x86-TSO: the model of `Lfq/Model.lean` with explicit store buffers

Which accesses of `include/urcu/static/rculfqueue.h` are what:

* **plain stores, buffered** (they go through the issuing thread's FIFO store buffer and reach memory at an
  arbitrary later `flush` step of the environment):
  `_cds_lfq_node_init_rcu`: `node->next = NULL; node->dummy = 0;` (the application, before `cds_lfq_enqueue_rcu`);
  `make_dummy` called from `enqueue_dummy`: `dummy->parent.next = NULL; dummy->parent.dummy = 1;`
  (`dummy->q = q` is read only by the thread that later removes the dummy, after its own locked CAS on `q->head`,
  and never by the queue algorithm's decisions: not modelled).  These are the ONLY stores of the queue code that
  are not locked read-modify-writes.  In the traces of `harness/scen/lfq.c` they are invisible (plain C
  assignments are not shim events); `props/c12.py` checks on every trace that no `ST`/`XCHG`/… event ever hits
  `q.head`, `q.tail`, a node's or a dummy's `next` word — only `LD` and `CAS`.
* **locked read-modify-writes** (`lock cmpxchg`: need an EMPTY own store buffer, i.e. the thread's buffer is
  drained first, then read and write memory atomically): the five `uatomic_cmpxchg` sites — `tail->next`
  (link), `q->tail` (advance after link, help after a failed link, help in dequeue), `q->head`.  In the traces:
  `CAS loc expected new old 5 5` (seq_cst both ways; the driver rejects anything weaker).
* **loads** (`rcu_dereference(q->tail)`, `(q->head)`, `(head->next)`, and the plain read `head->dummy`;
  the chain walk of `cds_lfq_destroy_rcu`): read the newest matching entry of the OWN store buffer, else memory.
  `q->head` / `q->tail` are never in a buffer (only CASes write them), so these two are plain memory reads.

`TState.s` is a `State` of the SC model in which the fields `next` and `isDummy` are **memory**; everything
else (per-thread locals, ghost history, life cycle, clock, sections) is as in the SC model.  `tstep` is
executable.  `TCfg.drain = false` is a hypothetical machine whose link CAS does not wait for the store buffer
(equivalently: the node is published while its initialisation is still in flight) — not an x86 behaviour; it
exists for the necessity witness `Lfq/TsoNeg.lean`.
-/
namespace UrcuVerif.Lfq.Tso
open UrcuVerif.Lfq

/-- a buffered plain store -/
inductive Store
  | next (p v : Nat)           -- `p->next = v`
  | dummy (p : Nat) (b : Bool) -- `p->dummy = b`
  deriving DecidableEq, Repr

structure TState where
  s : State                    -- `s.next`, `s.isDummy` = memory
  buf : Nat → List Store       -- per-thread FIFO store buffer, oldest first

def tinit : TState := { s := init, buf := fun _ => [] }

/-- newest buffered value of `p->next` -/
def bufNext : List Store → Nat → Option Nat
  | [], _ => none
  | st :: rest, p =>
    match bufNext rest p with
    | some w => some w
    | none => match st with
      | .next q v => if q = p then some v else none
      | .dummy _ _ => none

def bufDummy : List Store → Nat → Option Bool
  | [], _ => none
  | st :: rest, p =>
    match bufDummy rest p with
    | some w => some w
    | none => match st with
      | .dummy q b => if q = p then some b else none
      | .next _ _ => none

/-- TSO load of `p->next` by thread `t`: own buffer first -/
def rdNext (ts : TState) (t p : Nat) : Nat :=
  match bufNext (ts.buf t) p with
  | some v => v
  | none => ts.s.next p

/-- TSO load of `p->dummy` by thread `t` -/
def rdDummy (ts : TState) (t p : Nat) : Bool :=
  match bufDummy (ts.buf t) p with
  | some b => b
  | none => ts.s.isDummy p

/-- a buffered store reaches memory -/
def commit (s : State) : Store → State
  | .next p v => { s with next := upd s.next p v }
  | .dummy p b => { s with isDummy := upd s.isDummy p b }

structure TCfg where
  c : Cfg
  drain : Bool := true         -- the link CAS is a locked RMW: it drains the store buffer (x86)

inductive TLabel
  | op (l : Label)             -- the thread executes the access `l` of the C text
  | flush                      -- environment: the oldest entry of the thread's store buffer reaches memory
  deriving DecidableEq, Repr

/-! successor states of the steps that differ from the SC model -/

/-- `cds_lfq_node_init_rcu(n); cds_lfq_enqueue_rcu(q, n)`: the two initialising stores enter the buffer -/
def enqCallT (ts : TState) (t n : Nat) : TState :=
  { s := tick { ts.s with life := upd ts.s.life n .priv, node := upd ts.s.node t n, inDeq := upd ts.s.inDeq t false,
                          pc := upd ts.s.pc t .eLd, hi := max ts.s.hi (n + 1) },
    buf := upd ts.buf t (ts.buf t ++ [.next n 0, .dummy n false]) }

/-- the load `head->next` returned `v` = NULL on a dummy: dequeue returns NULL -/
def ldNextNullT (ts : TState) (t v : Nat) : TState :=
  { ts with s := tick { ts.s with uaf := ts.s.uaf || !live ts.s (ts.s.hd t), nx := upd ts.s.nx t v, pc := upd ts.s.pc t .idle } }

/-- … NULL on a user node: `enqueue_dummy`; `make_dummy`'s stores enter the buffer -/
def ldNextAllocT (ts : TState) (t d v : Nat) : TState :=
  { s := tick { ts.s with uaf := ts.s.uaf || !live ts.s (ts.s.hd t), nx := upd ts.s.nx t v,
                          life := upd ts.s.life d .priv, node := upd ts.s.node t d, inDeq := upd ts.s.inDeq t true,
                          pc := upd ts.s.pc t .eLd, hi := max ts.s.hi (d + 1) },
    buf := upd ts.buf t (ts.buf t ++ [.next d 0, .dummy d true]) }

def ldNextGoT (c : Cfg) (ts : TState) (t v : Nat) : TState :=
  { ts with s := tick { ts.s with uaf := ts.s.uaf || !live ts.s (ts.s.hd t), nx := upd ts.s.nx t v,
                                  pc := upd ts.s.pc t (afterNextPc c) } }

/-- `cds_lfq_destroy_rcu` test with the caller's own-buffer-first reads -/
def destroyOkT (c : Cfg) (ts : TState) (t : Nat) : Bool :=
  if c.destroyWalk then walkAllDummy (rdNext ts t) (rdDummy ts t) ts.s.chain.length ts.s.head
  else rdDummy ts t ts.s.head && rdNext ts t ts.s.head == 0

/-- the step acts on memory and thread-local state exactly as in the SC model -/
def onMem (c : Cfg) (ts : TState) (t : Nat) (l : Label) : Option (TState × Out) :=
  (step c ts.s t l).map fun r => ({ ts with s := r.1 }, r.2)

/-- locked RMW: enabled only with an empty own store buffer -/
def locked (c : Cfg) (ts : TState) (t : Nat) (l : Label) : Option (TState × Out) :=
  if ts.buf t = [] then onMem c ts t l else none

/-- one step of thread `t` on the TSO machine -/
def tstep (tc : TCfg) (ts : TState) (t : Nat) : TLabel → Option (TState × Out)
  | .flush =>
    match ts.buf t with
    | st :: rest => some ({ s := commit ts.s st, buf := upd ts.buf t rest }, .unit)
    | [] => none
  -- section entry / exit (memb: no fence at all; mb: a fence — the most general choice, no drain, is modelled),
  -- calls, the loads of `q->head` / `q->tail` (never buffered), reclamation by the environment
  | .op .lock => onMem tc.c ts t .lock
  | .op .unlock => onMem tc.c ts t .unlock
  | .op .deqCall => onMem tc.c ts t .deqCall
  | .op .ldTail => onMem tc.c ts t .ldTail
  | .op .ldHead => onMem tc.c ts t .ldHead
  | .op .ldTailD => onMem tc.c ts t .ldTailD
  | .op (.reclaim p) => onMem tc.c ts t (.reclaim p)
  -- the five cmpxchg sites
  | .op .casNext => if tc.drain then locked tc.c ts t .casNext else onMem tc.c ts t .casNext
  | .op .casTailAdv => locked tc.c ts t .casTailAdv
  | .op .casTailHelp => locked tc.c ts t .casTailHelp
  | .op .casTailD => locked tc.c ts t .casTailD
  | .op .casHead => locked tc.c ts t .casHead
  -- plain initialising stores
  | .op (.enqCall n) =>
    if ts.s.pc t = .idle ∧ (ts.s.cs t).isSome ∧ ts.s.dead = false ∧ n ≠ 0 ∧ ts.s.life n = .fresh then
      some (enqCallT ts t n, .unit)
    else none
  -- loads of `head->next`, `head->dummy`: own buffer first
  | .op (.ldNext d) =>
    if ts.s.pc t = .dLdN then
      let v := rdNext ts t (ts.s.hd t)
      if v = 0 then
        if rdDummy ts t (ts.s.hd t) then some (ldNextNullT ts t v, .null)
        else if d ≠ 0 ∧ ts.s.life d = .fresh then some (ldNextAllocT ts t d v, .unit)
        else none
      else some (ldNextGoT tc.c ts t v, .unit)
    else none
  | .op .ldNext2 =>
    if ts.s.pc t = .dLdN2 then some (ldNextGoT tc.c ts t (rdNext ts t (ts.s.hd t)), .unit) else none
  | .op .destroy =>
    if ts.s.pc t = .idle ∧ ts.s.dead = false ∧ quiescent tc.c ts.s then
      if destroyOkT tc.c ts t then some ({ ts with s := tick { ts.s with dead := true } }, .destroyed true)
      else some ({ ts with s := tick ts.s }, .destroyed false)
    else none

inductive TReach (tc : TCfg) : TState → Prop
  | init : TReach tc tinit
  | step {ts ts' t l o} : TReach tc ts → tstep tc ts t l = some (ts', o) → TReach tc ts'

/-- replay a schedule -/
def trun (tc : TCfg) : TState → List (Nat × TLabel) → Option TState
  | ts, [] => some ts
  | ts, (t, l) :: r => match tstep tc ts t l with
    | some (ts', _) => trun tc ts' r
    | none => none

theorem trun_reach {tc : TCfg} {ts ts' : TState} {ls : List (Nat × TLabel)} (r : TReach tc ts)
    (h : trun tc ts ls = some ts') : TReach tc ts' := by
  induction ls generalizing ts with
  | nil => simp only [trun, Option.some.injEq] at h; exact h ▸ r
  | cons a ls ih =>
    obtain ⟨t, l⟩ := a
    simp only [trun] at h
    split at h
    · next s1 o e => exact ih (TReach.step r e) h
    · simp at h

/-- the abstract FIFO on the TSO machine: user nodes reachable from `q.head`, flags read from MEMORY -/
def tabs (ts : TState) : List Nat := abs ts.s

end UrcuVerif.Lfq.Tso
