import UrcuVerif.Machine.Upd
/-!
# C12 / C17 — RCU lock-free queue (`include/urcu/static/rculfqueue.h`): executable model (L2)

One step per shared-memory access of `_cds_lfq_enqueue_rcu`, `enqueue_dummy`, `_cds_lfq_dequeue_rcu`
(the loads through `rcu_dereference`, the three `uatomic_cmpxchg` sites), for any number of threads
and every interleaving.  Every shared mutation is a locked RMW (`cmpxchg`), so SC = x86-TSO for
this structure; the private initialisation of a node (`node->next = NULL`, `dummy` flag, `make_dummy`)
is folded into the step that makes the node private to its thread, before the publishing CAS
(DESIGN §2).  `head->dummy` is immutable while the node is linked and is read in the step that uses it.
The legacy `cmm_smp_mb()` between the tail load and the CAS has no effect on an SC run: it is an
event of the L1 transliteration (`Driver/Lfq.lean`) only.

Pointers are `Nat`, `0` = NULL.  Node life cycle: `fresh` (free memory / never used) → `priv`
(initialised, owned by the enqueueing thread) → `inq` (linked) → `removed` (unlinked from `q.head`:
a dummy is handed to `queue_call_rcu`, a user node is returned to the caller) → `fresh` again by
`reclaim` (free, or reuse by the application).

Grace periods are abstract (`Spec.GpSpec`, as in `Poll/Model.lean`): every step ticks a logical
clock; `cs t = some b` = thread `t` is inside a read-side section that began at time `b`; a node
removed at time `r` may be reclaimed only when every open section began after `r` — the weakest
consequence of "a grace period that started after `r` has completed".

`Cfg.helpTail` selects the dequeue text:
* `true`  — the current code (commit 87e4726): before the CAS on `q.head` the dequeuer loads `q.tail`
  and, if it equals `head`, helps it forward (`cmpxchg(&q->tail, head, next)`), so the head never
  passes the tail;
* `false` — the dequeue before that commit, which never looks at `q.tail`.  `q.tail` can then keep
  pointing to a node `q.head` has passed; one grace period after its removal the node is freed while
  still reachable through `q.tail`: `Lfq/Neg.lean` exhibits the reachable use-after-free
  (confirmed on the real code by `harness/scen/lfq.c --mode uaf-node|uaf-dummy`).
`Cfg.destroyWalk` selects the destroy text: `true` — the current code (commit 928caa3): walk the chain
from `q.head`, `-EPERM` iff some node is not a dummy, else free every dummy; `false` — the older
test `head->dummy && head->next == NULL`, which answers `-EPERM` on an empty queue whose chain holds
two dummies (`Lfq/Neg.lean`, `harness/scen/lfq.c --mode two-dummies`).
All theorems of `Props/C12.lean` are about `helpTail = true`, `destroyWalk = true`.
-/
namespace UrcuVerif.Lfq

structure Cfg where
  n : Nat              -- threads 0 … n-1 (arbitrary)
  helpTail : Bool := true
  destroyWalk : Bool := true

inductive Pc
  | idle
  | eLd     -- enqueue: before `tail = rcu_dereference(q->tail)`
  | eCas    -- before `cmpxchg(&tail->next, NULL, node)`
  | eAdv    -- linked; before `cmpxchg(&q->tail, tail, node)`
  | eHelp   -- link failed; before `cmpxchg(&q->tail, tail, next)`
  | dLdH    -- dequeue: before `head = rcu_dereference(q->head)`
  | dLdN    -- before `next = rcu_dereference(head->next)`
  | dLdN2   -- after enqueue_dummy: before the second `next = rcu_dereference(head->next)`
  | dLdT    -- (helpTail) before `rcu_dereference(q->tail) == head`
  | dHelpT  -- (helpTail) before `cmpxchg(&q->tail, head, next)`
  | dCas    -- before `cmpxchg(&q->head, head, next)`
  deriving DecidableEq, Repr

inductive Life | fresh | priv | inq | removed
  deriving DecidableEq, Repr

structure State where
  head : Nat
  tail : Nat
  next : Nat → Nat
  isDummy : Nat → Bool
  life : Nat → Life
  dead : Bool                 -- destroyed
  -- per thread
  pc : Nat → Pc
  inDeq : Nat → Bool          -- the enqueue in progress is `enqueue_dummy` called from dequeue
  node : Nat → Nat
  tl : Nat → Nat
  nx : Nat → Nat
  hd : Nat → Nat
  -- ghost
  chain : List Nat            -- nodes from q.head to the last linked node
  enqd : List Nat             -- user nodes in the order of their linking CAS
  deqd : List Nat             -- user nodes in the order of the head CAS that returned them
  clock : Nat
  cs : Nat → Option Nat
  removedAt : Nat → Nat
  pre : Nat → Nat → Bool      -- `pre p u`: u's section was open when p was removed and is still the same section
  gen : Nat → Nat             -- incarnation of a node (bumped by reclaim)
  gtl : Nat → Nat             -- incarnation of `tl t` when it was loaded
  ghd : Nat → Nat
  hi : Nat                    -- every node ≥ hi is fresh
  uaf : Bool                  -- some thread dereferenced a node that is not linked/removed (freed memory)

/-- after `cds_lfq_init_rcu`: node 1 is the dummy -/
def init : State :=
  { head := 1, tail := 1, next := fun _ => 0, isDummy := fun p => p == 1,
    life := fun p => if p = 1 then .inq else .fresh, dead := false,
    pc := fun _ => .idle, inDeq := fun _ => false, node := fun _ => 0, tl := fun _ => 0, nx := fun _ => 0,
    hd := fun _ => 0, chain := [1], enqd := [], deqd := [], clock := 1, cs := fun _ => none,
    removedAt := fun _ => 0, pre := fun _ _ => false, gen := fun _ => 0, gtl := fun _ => 0,
    ghd := fun _ => 0, hi := 2, uaf := false }

inductive Label
  | lock | unlock
  | enqCall (n : Nat)     -- cds_lfq_node_init_rcu(n); cds_lfq_enqueue_rcu(q, n)
  | ldTail | casNext | casTailAdv | casTailHelp
  | deqCall
  | ldHead
  | ldNext (d : Nat)      -- d: the dummy `make_dummy` returns if this load finds the last real node
  | ldNext2
  | ldTailD | casTailD    -- helpTail: `if (rcu_dereference(q->tail) == head) cmpxchg(&q->tail, head, next)`
  | casHead
  | reclaim (p : Nat)     -- environment: the memory of p is freed / reused (call_rcu callback, application)
  | destroy
  deriving DecidableEq, Repr

inductive Out
  | unit
  | null                  -- dequeue returns NULL
  | node (p : Nat)        -- dequeue returns p
  | destroyed (ok : Bool) -- cds_lfq_destroy_rcu: 0 / -EPERM
  deriving DecidableEq, Repr

/-- memory of `p` may be dereferenced -/
def live (s : State) (p : Nat) : Bool := s.life p == .inq || s.life p == .removed

/-- every open section began after `p` was removed -/
def gpElapsed (c : Cfg) (s : State) (p : Nat) : Prop :=
  ∀ u, u < c.n → ∀ b, s.cs u = some b → s.removedAt p < b

instance (c : Cfg) (s : State) (p : Nat) : Decidable (gpElapsed c s p) := by
  unfold gpElapsed
  exact Nat.decidableBallLT _ _

def quiescent (c : Cfg) (s : State) : Prop := ∀ u, u < c.n → s.pc u = .idle

instance (c : Cfg) (s : State) : Decidable (quiescent c s) := by
  unfold quiescent
  exact Nat.decidableBallLT _ _

/-- `for (node = head; node; node = node->next) if (!node->dummy) return -EPERM;` — the ghost chain length
only bounds the walk (termination fuel); the walk itself reads memory -/
def walkAllDummy (nx : Nat → Nat) (isD : Nat → Bool) : Nat → Nat → Bool
  | 0, a => a == 0
  | f+1, a => if a = 0 then true else isD a && walkAllDummy nx isD f (nx a)

def tick (s : State) : State := { s with clock := s.clock + 1 }

/-! Successor states of the individual branches (named so that the proofs can treat them one by one). -/

def enqCallS (s : State) (t n : Nat) : State :=
  tick { s with life := upd s.life n .priv, next := upd s.next n 0, isDummy := upd s.isDummy n false,
                node := upd s.node t n, inDeq := upd s.inDeq t false, pc := upd s.pc t .eLd,
                hi := max s.hi (n + 1) }

/-- `cmpxchg(&tail->next, NULL, node)` succeeded: the linearisation point of enqueue -/
def casNextOk (s : State) (t : Nat) : State :=
  tick { s with uaf := s.uaf || !live s (s.tl t),
                next := upd s.next (s.tl t) (s.node t), life := upd s.life (s.node t) .inq,
                chain := s.chain ++ [s.node t],
                enqd := if s.isDummy (s.node t) then s.enqd else s.enqd ++ [s.node t],
                pc := upd s.pc t .eAdv }

def casNextFail (s : State) (t : Nat) : State :=
  tick { s with uaf := s.uaf || !live s (s.tl t), nx := upd s.nx t (s.next (s.tl t)), pc := upd s.pc t .eHelp }

def advPc (s : State) (t : Nat) : Pc := if s.inDeq t then .dLdN2 else .idle

def casTailAdvOk (s : State) (t : Nat) : State := tick { s with tail := s.node t, pc := upd s.pc t (advPc s t) }
def casTailAdvFail (s : State) (t : Nat) : State := tick { s with pc := upd s.pc t (advPc s t) }
def casTailHelpOk (s : State) (t : Nat) : State := tick { s with tail := s.nx t, pc := upd s.pc t .eLd }
def casTailHelpFail (s : State) (t : Nat) : State := tick { s with pc := upd s.pc t .eLd }

def afterNextPc (c : Cfg) : Pc := if c.helpTail then .dLdT else .dCas

/-- the load `head->next` found NULL on a dummy: dequeue returns NULL (linearisation point of the empty answer) -/
def ldNextNull (s : State) (t : Nat) : State :=
  tick { s with uaf := s.uaf || !live s (s.hd t), nx := upd s.nx t (s.next (s.hd t)), pc := upd s.pc t .idle }

/-- … found NULL on a user node: `enqueue_dummy` with the freshly allocated dummy `d` -/
def ldNextAlloc (s : State) (t d : Nat) : State :=
  tick { s with uaf := s.uaf || !live s (s.hd t), nx := upd s.nx t (s.next (s.hd t)),
                life := upd s.life d .priv, next := upd s.next d 0, isDummy := upd s.isDummy d true,
                node := upd s.node t d, inDeq := upd s.inDeq t true, pc := upd s.pc t .eLd,
                hi := max s.hi (d + 1) }

def ldNextGo (c : Cfg) (s : State) (t : Nat) : State :=
  tick { s with uaf := s.uaf || !live s (s.hd t), nx := upd s.nx t (s.next (s.hd t)), pc := upd s.pc t (afterNextPc c) }

def ldTailDS (s : State) (t : Nat) : State :=
  tick { s with pc := upd s.pc t (if s.tail = s.hd t then .dHelpT else .dCas) }

def casTailDOk (s : State) (t : Nat) : State := tick { s with tail := s.nx t, pc := upd s.pc t .dCas }
def casTailDFail (s : State) (t : Nat) : State := tick { s with pc := upd s.pc t .dCas }

/-- `cmpxchg(&q->head, head, next)` succeeded; `ret`: the removed node is a user node and is returned
(linearisation point of a successful dequeue), otherwise it is a dummy handed to `queue_call_rcu` -/
def casHeadOk (s : State) (t : Nat) (ret : Bool) : State :=
  tick { s with head := s.nx t, chain := s.chain.tail, life := upd s.life (s.hd t) .removed,
                removedAt := upd s.removedAt (s.hd t) s.clock,
                pre := fun p u => if p = s.hd t then (s.cs u).isSome else s.pre p u,
                deqd := if ret then s.deqd ++ [s.hd t] else s.deqd,
                pc := upd s.pc t (if ret then .idle else .dLdH) }

def casHeadFail (s : State) (t : Nat) : State := tick { s with pc := upd s.pc t .dLdH }

def reclaimS (s : State) (p : Nat) : State :=
  tick { s with life := upd s.life p .fresh, gen := upd s.gen p (s.gen p + 1) }

/-- `cds_lfq_destroy_rcu` test -/
def destroyOk (c : Cfg) (s : State) : Bool :=
  if c.destroyWalk then walkAllDummy s.next s.isDummy s.chain.length s.head
  else s.isDummy s.head && s.next s.head == 0

/-- one step of thread `t`; `none` = not enabled -/
def step (c : Cfg) (s : State) (t : Nat) : Label → Option (State × Out)
  | .lock =>
    if c.n ≤ t then none else
    match s.cs t with
    | none => some (tick { s with cs := upd s.cs t (some s.clock) }, .unit)
    | some _ => none
  | .unlock =>
    match s.cs t with
    | some _ =>
      if s.pc t = .idle then
        some (tick { s with cs := upd s.cs t none, pre := fun p u => if u = t then false else s.pre p u }, .unit)
      else none
    | none => none
  | .enqCall n =>
    if s.pc t = .idle ∧ (s.cs t).isSome ∧ s.dead = false ∧ n ≠ 0 ∧ s.life n = .fresh then
      some (enqCallS s t n, .unit)
    else none
  | .ldTail =>
    if s.pc t = .eLd then
      some (tick { s with tl := upd s.tl t s.tail, gtl := upd s.gtl t (s.gen s.tail), pc := upd s.pc t .eCas }, .unit)
    else none
  | .casNext =>
    if s.pc t = .eCas then
      if s.next (s.tl t) = 0 then some (casNextOk s t, .unit) else some (casNextFail s t, .unit)
    else none
  | .casTailAdv =>
    if s.pc t = .eAdv then
      if s.tail = s.tl t then some (casTailAdvOk s t, .unit) else some (casTailAdvFail s t, .unit)
    else none
  | .casTailHelp =>
    if s.pc t = .eHelp then
      if s.tail = s.tl t then some (casTailHelpOk s t, .unit) else some (casTailHelpFail s t, .unit)
    else none
  | .deqCall =>
    if s.pc t = .idle ∧ (s.cs t).isSome ∧ s.dead = false then
      some (tick { s with pc := upd s.pc t .dLdH }, .unit)
    else none
  | .ldHead =>
    if s.pc t = .dLdH then
      some (tick { s with hd := upd s.hd t s.head, ghd := upd s.ghd t (s.gen s.head), pc := upd s.pc t .dLdN }, .unit)
    else none
  | .ldNext d =>
    if s.pc t = .dLdN then
      if s.next (s.hd t) = 0 then
        if s.isDummy (s.hd t) then some (ldNextNull s t, .null)
        else if d ≠ 0 ∧ s.life d = .fresh then some (ldNextAlloc s t d, .unit)
        else none
      else some (ldNextGo c s t, .unit)
    else none
  | .ldNext2 =>
    if s.pc t = .dLdN2 then some (ldNextGo c s t, .unit) else none
  | .ldTailD =>
    if s.pc t = .dLdT then some (ldTailDS s t, .unit) else none
  | .casTailD =>
    if s.pc t = .dHelpT then
      if s.tail = s.hd t then some (casTailDOk s t, .unit) else some (casTailDFail s t, .unit)
    else none
  | .casHead =>
    if s.pc t = .dCas then
      if s.head = s.hd t then
        if s.isDummy (s.hd t) then some (casHeadOk s t false, .unit)      -- rcu_free_dummy(head); continue
        else some (casHeadOk s t true, .node (s.hd t))
      else some (casHeadFail s t, .unit)
    else none
  | .reclaim p =>
    if s.life p = .removed ∧ gpElapsed c s p then some (reclaimS s p, .unit) else none
  | .destroy =>
    if s.pc t = .idle ∧ s.dead = false ∧ quiescent c s then
      if destroyOk c s then some (tick { s with dead := true }, .destroyed true)
      else some (tick s, .destroyed false)
    else none

inductive Reach (c : Cfg) : State → Prop
  | init : Reach c init
  | step {s s' t l o} : Reach c s → step c s t l = some (s', o) → Reach c s'

/-- replay a schedule (list of (thread, label)); `none` if some step is not enabled -/
def run (c : Cfg) : State → List (Nat × Label) → Option State
  | s, [] => some s
  | s, (t, l) :: r => match step c s t l with
    | some (s', _) => run c s' r
    | none => none

theorem run_reach {c : Cfg} {s s' : State} {ls : List (Nat × Label)} (r : Reach c s) (h : run c s ls = some s') :
    Reach c s' := by
  induction ls generalizing s with
  | nil => simp only [run, Option.some.injEq] at h; exact h ▸ r
  | cons a ls ih =>
    obtain ⟨t, l⟩ := a
    simp only [run] at h
    split at h
    · next s1 o e => exact ih (Reach.step r e) h
    · simp at h

/-- the abstract FIFO: user nodes reachable from `q.head` -/
def abs (s : State) : List Nat := s.chain.filter (fun p => !s.isDummy p)

end UrcuVerif.Lfq
