import UrcuVerif.Lfq.Model
/-!
C17 facet for rculfqueue: the solo-run measure (definitions only; imported by the driver).

`mu c s t` bounds the number of own model steps (loads / CASes) thread `t` needs to finish its current
operation when it runs alone from state `s`, wherever the other threads are suspended.  It depends on
the tail lag (0 or 1) and on the pending dummy work: every dummy of the chain the dequeuer may have to
skip costs at most 5 steps (budget 6).
-/
namespace UrcuVerif.Lfq

/-- the tail lags: some enqueuer linked its node and has not advanced `q.tail` yet -/
def lag (s : State) : Nat := if s.next s.tail = 0 then 0 else 1

/-- dummies of the chain, plus the dummy `t` has allocated for `enqueue_dummy` and not linked yet -/
def dumT (s : State) (t : Nat) : Nat :=
  (s.chain.filter s.isDummy).length +
  (if s.inDeq t = true ∧ (s.pc t = .eLd ∨ s.pc t = .eCas ∨ s.pc t = .eHelp) then 1 else 0)

/-- budget of a dequeue attempt that starts at the load of `q.head` -/
def restart (s : State) (t : Nat) : Nat := 6 * dumT s t + 14

/-- remaining steps of the enqueue loop -/
def enqMu (s : State) (t : Nat) : Nat :=
  match s.pc t with
  | .eLd => 3 + 3 * lag s
  | .eCas => if s.next (s.tl t) = 0 then 2 else 2 + (if s.tl t = s.tail then 3 else 3 + 3 * lag s)
  | .eHelp => 1 + (if s.tl t = s.tail then 3 else 3 + 3 * lag s)
  | .eAdv => 1
  | _ => 0

/-- remaining steps of the dequeue loop when the thread is about to re-load `head->next` after `enqueue_dummy`
(also: what is left of the dequeue once the nested enqueue has returned) -/
def afterEnq (s : State) (t : Nat) : Nat :=
  if s.hd t = s.head then (if s.isDummy (s.hd t) then restart s t - 1 else 4) else restart s t + 3

def mu (s : State) (t : Nat) : Nat :=
  let fresh := s.hd t = s.head
  let dummy := s.isDummy (s.hd t)
  let R := restart s t
  match s.pc t with
  | .idle => 0
  | .dLdH => R
  | .dLdN => if fresh then (if dummy then R - 1 else 12) else R + 3
  | .dLdN2 => afterEnq s t
  | .dLdT => if fresh then (if dummy then R - 2 else 3) else R + 2
  | .dHelpT => if fresh then (if dummy then R - 3 else 2) else R + 2
  | .dCas => if fresh then (if dummy then R - 4 else 1) else R + 1
  | _ => enqMu s t + (if s.inDeq t then afterEnq s t else 0)

/-- the label thread `t` executes next (`d` = the node `make_dummy` would return) -/
def nextLabel (s : State) (t : Nat) (d : Nat) : Option Label :=
  match s.pc t with
  | .idle => none
  | .eLd => some .ldTail
  | .eCas => some .casNext
  | .eAdv => some .casTailAdv
  | .eHelp => some .casTailHelp
  | .dLdH => some .ldHead
  | .dLdN => some (.ldNext d)
  | .dLdN2 => some .ldNext2
  | .dLdT => some .ldTailD
  | .dHelpT => some .casTailD
  | .dCas => some .casHead

/-- labels of the queue operations: what a thread executes inside `cds_lfq_enqueue_rcu` / `cds_lfq_dequeue_rcu`
(no section entry/exit, no call, no destroy, no environment step) -/
def OpLabel (l : Label) : Prop := l ≠ .lock ∧ l ≠ .unlock ∧ (∀ p, l ≠ .reclaim p) ∧ l ≠ .destroy ∧
  (∀ n, l ≠ .enqCall n) ∧ l ≠ .deqCall

/-- `k` consecutive own steps of `t` inside its operation; nobody else moves (every other thread stays frozen
wherever it is, no grace period ends, nothing is reclaimed) -/
inductive SoloRun (c : Cfg) (t : Nat) : Nat → State → State → Prop
  | done (s) : SoloRun c t 0 s s
  | step {k s s1 s2 l o} : step c s t l = some (s1, o) → OpLabel l →
      SoloRun c t k s1 s2 → SoloRun c t (k + 1) s s2

/-- executable solo run: thread `t` alone executes its next label (`make_dummy` returns the unused address `s.hi`)
until its operation returns or `k` steps are used; result: final state and the number of steps taken -/
def soloExec (c : Cfg) (t : Nat) : Nat → State → Option (State × Nat)
  | 0, s => if s.pc t = .idle then some (s, 0) else none
  | k+1, s =>
    match nextLabel s t s.hi with
    | none => some (s, 0)
    | some l =>
      match step c s t l with
      | some (s1, _) => (soloExec c t k s1).map fun r => (r.1, r.2 + 1)
      | none => none

end UrcuVerif.Lfq
