import UrcuVerif.Lfq.Inv
/-! `Inv` is preserved by every step: the simple labels. -/
namespace UrcuVerif.Lfq

/-- destructure the hypothesis, unfold the definitions -/
macro "inv_open" h:ident : tactic => `(tactic|
  (obtain ⟨seg, nodup, inq_iff, rem_next, tail_in, tail_ok, clk_cs, clk_rm, op_cs, cs_n, tl_held, hd_held, e_node, node_inj,
           e_cas, e_adv, e_help, d_hd, d_nx, d_ldn2, d_tail, fifo, gens_tl, gens_hd, hi_fresh, pre_ok, no_uaf, e_kind⟩ := $h
   simp only [HoldsTl, HoldsHd, Owns, Held, abs] at *))

/-- goal `Inv c <explicit state>`: one `grind` per clause -/
macro "inv_close" : tactic => `(tactic|
  (constructor <;> (try simp only [tick, live, advPc, afterNextPc, HoldsTl, HoldsHd, Owns, Held, abs, upd]) <;> (first | assumption | grind)))

/-- like `inv_close` but leaves the clauses `grind` cannot close to the caller -/
macro "inv_most" : tactic => `(tactic|
  (constructor <;> (try simp only [tick, live, advPc, afterNextPc, HoldsTl, HoldsHd, Owns, Held, abs, upd]) <;> (first | assumption | grind | skip)))

macro "st_inj" st:ident : tactic => `(tactic|
  ((try simp only [Option.some.injEq, Prod.mk.injEq] at $st:ident); have hst := ($st).1; subst hst))

/-- unfold the step, split all its tests, close the disabled branches, run the generic closer on the others -/
macro "inv_auto" st:ident : tactic => `(tactic|
  (simp only [step] at $st:ident
   repeat' (split at $st:ident)
   all_goals first | (simp at $st:ident; done) | (st_inj $st; inv_close)))

theorem inv_lock {c s s' t o} (h : Inv c s) (st : step c s t .lock = some (s', o)) : Inv c s' := by
  inv_open h; inv_auto st

theorem inv_unlock {c s s' t o} (h : Inv c s) (st : step c s t .unlock = some (s', o)) : Inv c s' := by
  inv_open h; inv_auto st

theorem inv_ldTail {c s s' t o} (h : Inv c s) (st : step c s t .ldTail = some (s', o)) : Inv c s' := by
  inv_open h; inv_auto st

theorem inv_deqCall {c s s' t o} (h : Inv c s) (st : step c s t .deqCall = some (s', o)) : Inv c s' := by
  inv_open h; inv_auto st

theorem inv_ldHead {c s s' t o} (h : Inv c s) (st : step c s t .ldHead = some (s', o)) : Inv c s' := by
  have headIn := h.head_in
  inv_open h; inv_auto st

theorem inv_destroy {c s s' t o} (h : Inv c s) (st : step c s t .destroy = some (s', o)) : Inv c s' := by
  inv_open h; inv_auto st

theorem inv_ldTailDS {c s t} (h : Inv c s) (hp : s.pc t = .dLdT) : Inv c (ldTailDS s t) := by
  inv_open h; simp only [ldTailDS]; inv_close

theorem inv_casTailAdvFail {c s t} (h : Inv c s) (hp : s.pc t = .eAdv) : Inv c (casTailAdvFail s t) := by
  inv_open h; simp only [casTailAdvFail]; inv_close

theorem inv_casTailHelpFail {c s t} (h : Inv c s) (hp : s.pc t = .eHelp) : Inv c (casTailHelpFail s t) := by
  inv_open h; simp only [casTailHelpFail]; inv_close

theorem inv_casTailDFail {c s t} (h : Inv c s) (hp : s.pc t = .dHelpT) (ht : s.tail ≠ s.hd t) :
    Inv c (casTailDFail s t) := by
  inv_open h; simp only [casTailDFail]; inv_close

theorem inv_casHeadFail {c s t} (h : Inv c s) (hp : s.pc t = .dCas) : Inv c (casHeadFail s t) := by
  inv_open h; simp only [casHeadFail]; inv_close

end UrcuVerif.Lfq
