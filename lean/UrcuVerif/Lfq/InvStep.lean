import UrcuVerif.Lfq.Inv
/-! `Inv` is preserved by every step (one lemma per label). -/
namespace UrcuVerif.Lfq

/-- destructure the hypothesis, unfold the definitions -/
macro "inv_open" h:ident : tactic => `(tactic|
  (obtain ⟨seg, nodup, inq_iff, rem_next, tail_in, tail_ok, clk_cs, clk_rm, op_cs, cs_n, tl_held, hd_held, e_node, node_inj,
           e_cas, e_adv, e_help, d_hd, d_nx, d_ldn2, d_tail, fifo, gens_tl, gens_hd, hi_fresh, pre_ok, no_uaf⟩ := $h
   simp only [HoldsTl, HoldsHd, Owns, Held, abs] at *))

theorem inv_lock {c s s' t o} (h : Inv c s) (st : step c s t .lock = some (s', o)) : Inv c s' := by
  inv_open h
  simp only [step] at st
  split at st
  · simp at st
  · split at st
    · simp only [Option.some.injEq, Prod.mk.injEq] at st; obtain ⟨rfl, -⟩ := st
      constructor <;> simp only [tick, HoldsTl, HoldsHd, Owns, Held, abs, upd] <;> grind
    · simp at st

theorem inv_unlock {c s s' t o} (h : Inv c s) (st : step c s t .unlock = some (s', o)) : Inv c s' := by
  inv_open h
  simp only [step] at st
  split at st
  · split at st
    · simp only [Option.some.injEq, Prod.mk.injEq] at st; obtain ⟨rfl, -⟩ := st
      constructor <;> simp only [tick, HoldsTl, HoldsHd, Owns, Held, abs, upd] <;> grind
    · simp at st
  · simp at st

theorem inv_ldTail {c s s' t o} (h : Inv c s) (st : step c s t .ldTail = some (s', o)) : Inv c s' := by
  inv_open h
  simp only [step] at st
  split at st
  · simp only [Option.some.injEq, Prod.mk.injEq] at st; obtain ⟨rfl, -⟩ := st
    constructor <;> simp only [tick, HoldsTl, HoldsHd, Owns, Held, abs, upd] <;> grind
  · simp at st

end UrcuVerif.Lfq
