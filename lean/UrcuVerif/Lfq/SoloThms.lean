import UrcuVerif.Lfq.Thms
import UrcuVerif.Lfq.Solo
/-! C17 facet: every own step of a thread inside an operation decreases `mu` (solo-run termination). -/
namespace UrcuVerif.Lfq

macro "mu_simp" : tactic => `(tactic|
  simp only [mu, enqMu, afterEnq, restart, dumT, lag, tick, upd, advPc, afterNextPc, if_true, if_false, ite_true, ite_false])

theorem mu_ldTail {c s t} (_h : Inv c s) (hp : s.pc t = .eLd) :
    mu (tick { s with tl := upd s.tl t s.tail, gtl := upd s.gtl t (s.gen s.tail), pc := upd s.pc t .eCas }) t < mu s t := by
  mu_simp; simp only [hp]; grind

theorem mu_casNextOk {c s t} (h : Inv c s) (hp : s.pc t = .eCas) (h0 : s.next (s.tl t) = 0) :
    mu (casNextOk s t) t < mu s t := by
  have k := h.e_kind t (by simp [Owns, hp])
  have fa : ((s.chain ++ [s.node t]).filter s.isDummy).length =
      (s.chain.filter s.isDummy).length + (if s.inDeq t = true then 1 else 0) := by
    rw [List.filter_append, List.length_append]; simp only [List.filter_cons, List.filter_nil, k]
    cases s.inDeq t <;> simp
  simp only [casNextOk]; mu_simp; simp only [hp, h0, fa]; grind

theorem mu_casNextFail {c s t} (_h : Inv c s) (hp : s.pc t = .eCas) (h0 : s.next (s.tl t) ≠ 0) :
    mu (casNextFail s t) t < mu s t := by
  simp only [casNextFail]; mu_simp; simp only [hp, h0]; grind

theorem mu_casTailAdvOk {c s t} (_h : Inv c s) (hp : s.pc t = .eAdv) : mu (casTailAdvOk s t) t < mu s t := by
  simp only [casTailAdvOk]; mu_simp; simp only [hp]; grind

theorem mu_casTailAdvFail {c s t} (_h : Inv c s) (hp : s.pc t = .eAdv) : mu (casTailAdvFail s t) t < mu s t := by
  simp only [casTailAdvFail]; mu_simp; simp only [hp]; grind

theorem mu_casTailHelpOk {c s t} (h : Inv c s) (hp : s.pc t = .eHelp) (ht : s.tail = s.tl t) :
    mu (casTailHelpOk s t) t < mu s t := by
  have ⟨_, _, f3, _⟩ := tail_move_facts h (x := s.nx t) (by rw [ht]; exact (h.e_help t hp).1) (h.e_help t hp).2
  simp only [casTailHelpOk]; mu_simp; simp only [hp, f3, ht]; grind

theorem mu_casTailHelpFail {c s t} (_h : Inv c s) (hp : s.pc t = .eHelp) (ht : s.tail ≠ s.tl t) :
    mu (casTailHelpFail s t) t < mu s t := by
  simp only [casTailHelpFail]; mu_simp; simp only [hp]; grind

theorem mu_ldHead {c s t} (_h : Inv c s) (hp : s.pc t = .dLdH) :
    mu (tick { s with hd := upd s.hd t s.head, ghd := upd s.ghd t (s.gen s.head), pc := upd s.pc t .dLdN }) t < mu s t := by
  mu_simp; simp only [hp]; grind

theorem mu_ldNextNull {c s t} (_h : Inv c s) (hp : s.pc t = .dLdN) : mu (ldNextNull s t) t < mu s t := by
  simp only [ldNextNull]; mu_simp; simp only [hp]; grind

theorem mu_ldNextAlloc {c s t d} (h : Inv c s) (hp : s.pc t = .dLdN) (h0 : s.next (s.hd t) = 0)
    (hr : s.isDummy (s.hd t) = false) (hf : s.life d = .fresh) : mu (ldNextAlloc s t d) t < mu s t := by
  have ⟨e1, _⟩ := null_chain h hp h0
  have hl := h.hd_live t (by simp [HoldsHd, hp])
  have hne : s.hd t ≠ d := by intro e; rw [e, hf] at hl; simp at hl
  simp only [ldNextAlloc]; mu_simp; simp only [hp, e1, hr]; grind

theorem mu_ldNextGo1 {c s t} (_h : Inv c s) (hc : c.helpTail = true) (hp : s.pc t = .dLdN) (h0 : s.next (s.hd t) ≠ 0) :
    mu (ldNextGo c s t) t < mu s t := by
  simp only [ldNextGo]; mu_simp; simp only [hp, hc]; grind

theorem mu_ldNextGo2 {c s t} (_h : Inv c s) (hc : c.helpTail = true) (hp : s.pc t = .dLdN2) :
    mu (ldNextGo c s t) t < mu s t := by
  simp only [ldNextGo]; mu_simp; simp only [hp, hc]; grind

theorem mu_ldTailDS {c s t} (h : Inv c s) (hp : s.pc t = .dLdT) : mu (ldTailDS s t) t < mu s t := by
  have st : s.hd t ≠ s.head → s.tail ≠ s.hd t := by
    intro ne e
    have := h.d_hd t (by simp [HoldsHd, hp])
    have ti := (h.inq_iff _).mpr h.tail_in
    rw [e] at ti
    rcases this with r | r
    · exact ne r
    · rw [r] at ti; cases ti
  simp only [ldTailDS]; mu_simp; simp only [hp]; grind

theorem mu_casTailDOk {c s t} (_h : Inv c s) (hp : s.pc t = .dHelpT) : mu (casTailDOk s t) t < mu s t := by
  simp only [casTailDOk]; mu_simp; simp only [hp]; grind

theorem mu_casTailDFail {c s t} (_h : Inv c s) (hp : s.pc t = .dHelpT) : mu (casTailDFail s t) t < mu s t := by
  simp only [casTailDFail]; mu_simp; simp only [hp]; grind

theorem mu_casHeadOk {c s t} (ret : Bool) (h : Inv c s) (hp : s.pc t = .dCas) (hh : s.head = s.hd t)
    (hd : s.isDummy (s.hd t) = !ret) : mu (casHeadOk s t ret) t < mu s t := by
  have ⟨f1, _⟩ := casHead_facts h hp hh
  have fl : (s.chain.filter s.isDummy).length = (s.chain.tail.filter s.isDummy).length + (if ret then 0 else 1) := by
    conv => lhs; rw [f1]
    rw [List.filter_cons, hh, hd]; cases ret <;> simp
  simp only [casHeadOk]; mu_simp; simp only [hp, hh, hd, fl]
  cases ret <;> simp <;> omega

theorem mu_casHeadFail {c s t} (_h : Inv c s) (hp : s.pc t = .dCas) (hh : s.head ≠ s.hd t) :
    mu (casHeadFail s t) t < mu s t := by
  simp only [casHeadFail]; mu_simp; simp only [hp]; grind

/-- **progress + measure**: a thread inside an operation always has an enabled own step (it never waits for
anybody), and every such step strictly decreases `mu`. -/
theorem solo_progress {c s t} (hc : c.helpTail = true) (h : Inv c s) (hp : s.pc t ≠ .idle) :
    ∃ l s' o, step c s t l = some (s', o) ∧ OpLabel l ∧ mu s' t < mu s t := by
  have fr : s.hi ≠ 0 ∧ s.life s.hi = .fresh := by
    refine ⟨?_, h.hi_fresh _ (Nat.le_refl _)⟩
    intro e
    have := h.hi_fresh s.head (by omega)
    have hin := (h.inq_iff _).mpr h.head_in
    rw [this] at hin; cases hin
  cases e : s.pc t with
  | idle => exact absurd e hp
  | eLd => exact ⟨.ldTail, _, .unit, by simp [step, e], by simp [OpLabel], mu_ldTail h e⟩
  | eCas =>
    by_cases h0 : s.next (s.tl t) = 0
    · exact ⟨.casNext, _, .unit, by simp [step, e, h0], by simp [OpLabel], mu_casNextOk h e h0⟩
    · exact ⟨.casNext, _, .unit, by simp [step, e, h0], by simp [OpLabel], mu_casNextFail h e h0⟩
  | eAdv =>
    by_cases ht : s.tail = s.tl t
    · exact ⟨.casTailAdv, _, .unit, by simp [step, e, ht], by simp [OpLabel], mu_casTailAdvOk h e⟩
    · exact ⟨.casTailAdv, _, .unit, by simp [step, e, ht], by simp [OpLabel], mu_casTailAdvFail h e⟩
  | eHelp =>
    by_cases ht : s.tail = s.tl t
    · exact ⟨.casTailHelp, _, .unit, by simp [step, e, ht], by simp [OpLabel], mu_casTailHelpOk h e ht⟩
    · exact ⟨.casTailHelp, _, .unit, by simp [step, e, ht], by simp [OpLabel], mu_casTailHelpFail h e ht⟩
  | dLdH => exact ⟨.ldHead, _, .unit, by simp [step, e], by simp [OpLabel], mu_ldHead h e⟩
  | dLdN =>
    by_cases h0 : s.next (s.hd t) = 0
    · cases hd : s.isDummy (s.hd t) with
      | true => exact ⟨.ldNext s.hi, _, .null, by simp [step, e, h0, hd], by simp [OpLabel], mu_ldNextNull h e⟩
      | false =>
        exact ⟨.ldNext s.hi, _, .unit, by simp [step, e, h0, hd, fr.1, fr.2], by simp [OpLabel],
          mu_ldNextAlloc h e h0 hd fr.2⟩
    · exact ⟨.ldNext s.hi, _, .unit, by simp [step, e, h0], by simp [OpLabel], mu_ldNextGo1 h hc e h0⟩
  | dLdN2 => exact ⟨.ldNext2, _, .unit, by simp [step, e], by simp [OpLabel], mu_ldNextGo2 h hc e⟩
  | dLdT => exact ⟨.ldTailD, _, .unit, by simp [step, e], by simp [OpLabel], mu_ldTailDS h e⟩
  | dHelpT =>
    by_cases ht : s.tail = s.hd t
    · exact ⟨.casTailD, _, .unit, by simp [step, e, ht], by simp [OpLabel], mu_casTailDOk h e⟩
    · exact ⟨.casTailD, _, .unit, by simp [step, e, ht], by simp [OpLabel], mu_casTailDFail h e⟩
  | dCas =>
    by_cases hh : s.head = s.hd t
    · cases hd : s.isDummy (s.hd t) with
      | true => exact ⟨.casHead, _, .unit, by simp [step, e, hh, hd], by simp [OpLabel], mu_casHeadOk false h e hh (by simp [hd])⟩
      | false => exact ⟨.casHead, _, .node (s.hd t), by simp [step, e, hh, hd], by simp [OpLabel], mu_casHeadOk true h e hh (by simp [hd])⟩
    · exact ⟨.casHead, _, .unit, by simp [step, e, hh], by simp [OpLabel], mu_casHeadFail h e hh⟩

/-- **solo_terminates**: from any state satisfying the invariant (hence from any reachable state), with every other
thread frozen wherever it is, thread `t` completes its operation within `mu s t` own steps. -/
theorem solo_terminates_inv {c s t} (hc : c.helpTail = true) (h : Inv c s) :
    ∃ k s', k ≤ mu s t ∧ SoloRun c t k s s' ∧ s'.pc t = .idle := by
  generalize hm : mu s t = m
  induction m using Nat.strongRecOn generalizing s with
  | _ m ih =>
    by_cases hp : s.pc t = .idle
    · exact ⟨0, s, Nat.zero_le _, .done s, hp⟩
    · obtain ⟨l, s1, o, st, ol, lt⟩ := solo_progress hc h hp
      obtain ⟨k, s2, hk, run, fin⟩ := ih (mu s1 t) (hm ▸ lt) (inv_step hc h st) rfl
      exact ⟨k + 1, s2, by omega, .step st ol run, fin⟩

theorem mu_le {s t} : mu s t ≤ 6 * dumT s t + 25 := by
  mu_simp
  cases s.pc t <;> simp only [] <;> (repeat' split) <;> omega

/-- every step of an operation decreases the measure of the thread that takes it -/
theorem own_step_decreases {c s s' t l o} (hc : c.helpTail = true) (h : Inv c s) (st : step c s t l = some (s', o))
    (ol : OpLabel l) : mu s' t < mu s t := by
  obtain ⟨o1, o2, o3, o4, o5, o6⟩ := ol
  cases l with
  | lock => exact absurd rfl o1
  | unlock => exact absurd rfl o2
  | reclaim p => exact absurd rfl (o3 p)
  | destroy => exact absurd rfl o4
  | enqCall n => exact absurd rfl (o5 n)
  | deqCall => exact absurd rfl o6
  | ldTail =>
    simp only [step] at st
    split at st
    · next g => st_inj st; exact mu_ldTail h g
    · simp at st
  | casNext =>
    simp only [step] at st
    split at st
    · next g =>
      split at st
      · next g0 => st_inj st; exact mu_casNextOk h g g0
      · next g0 => st_inj st; exact mu_casNextFail h g g0
    · simp at st
  | casTailAdv =>
    simp only [step] at st
    split at st
    · next g =>
      split at st
      · st_inj st; exact mu_casTailAdvOk h g
      · st_inj st; exact mu_casTailAdvFail h g
    · simp at st
  | casTailHelp =>
    simp only [step] at st
    split at st
    · next g =>
      split at st
      · next g0 => st_inj st; exact mu_casTailHelpOk h g g0
      · next g0 => st_inj st; exact mu_casTailHelpFail h g g0
    · simp at st
  | ldHead =>
    simp only [step] at st
    split at st
    · next g => st_inj st; exact mu_ldHead h g
    · simp at st
  | ldNext d =>
    simp only [step] at st
    split at st
    · next g =>
      split at st
      · next g0 =>
        split at st
        · st_inj st; exact mu_ldNextNull h g
        · next g1 =>
          split at st
          · next g2 => st_inj st; exact mu_ldNextAlloc h g g0 (by simpa using g1) g2.2
          · simp at st
      · next g0 => st_inj st; exact mu_ldNextGo1 h hc g g0
    · simp at st
  | ldNext2 =>
    simp only [step] at st
    split at st
    · next g => st_inj st; exact mu_ldNextGo2 h hc g
    · simp at st
  | ldTailD =>
    simp only [step] at st
    split at st
    · next g => st_inj st; exact mu_ldTailDS h g
    · simp at st
  | casTailD =>
    simp only [step] at st
    split at st
    · next g =>
      split at st
      · st_inj st; exact mu_casTailDOk h g
      · st_inj st; exact mu_casTailDFail h g
    · simp at st
  | casHead =>
    simp only [step] at st
    split at st
    · next g =>
      split at st
      · next g0 =>
        split at st
        · next g1 => st_inj st; exact mu_casHeadOk false h g g0 (by simp [g1])
        · next g1 => st_inj st; exact mu_casHeadOk true h g g0 (by simpa using g1)
      · next g0 => st_inj st; exact mu_casHeadFail h g g0
    · simp at st

theorem nextLabel_op {s t d l} (h : nextLabel s t d = some l) : OpLabel l := by
  simp only [nextLabel] at h
  split at h <;> simp at h <;> subst h <;> simp [OpLabel]

/-- the executable solo runner produces a `SoloRun` -/
theorem soloExec_soloRun {c t k s s' n} (h : soloExec c t k s = some (s', n)) : SoloRun c t n s s' := by
  induction k generalizing s n with
  | zero =>
    simp only [soloExec] at h
    split at h
    · simp only [Option.some.injEq, Prod.mk.injEq] at h; obtain ⟨rfl, rfl⟩ := h; exact .done _
    · simp at h
  | succ k ih =>
    simp only [soloExec] at h
    split at h
    · simp only [Option.some.injEq, Prod.mk.injEq] at h; obtain ⟨rfl, rfl⟩ := h; exact .done _
    · next l hl =>
      split at h
      · next s1 o st =>
        cases e : soloExec c t k s1 with
        | none => simp [e] at h
        | some r =>
          obtain ⟨s2, m⟩ := r
          simp only [e, Option.map_some, Option.some.injEq, Prod.mk.injEq] at h
          obtain ⟨rfl, rfl⟩ := h
          exact .step st (nextLabel_op hl) (ih e)
      · simp at h

theorem soloRun_reach {c t k s s'} (r : Reach c s) (h : SoloRun c t k s s') : Reach c s' := by
  induction h with
  | done => exact r
  | step st _ _ ih => exact ih (Reach.step r st)

/-- a solo run moves nobody else -/
theorem soloRun_frame {c t k s s'} (h : SoloRun c t k s s') (u : Nat) (hu : u ≠ t) :
    s'.pc u = s.pc u ∧ s'.cs u = s.cs u := by
  induction h with
  | done => exact ⟨rfl, rfl⟩
  | @step k s s1 s2 l o st ol _ ih =>
    have : s1.pc u = s.pc u ∧ s1.cs u = s.cs u := by
      obtain ⟨o1, o2, o3, o4, o5, o6⟩ := ol
      cases l <;> step_split st <;> (try (obtain ⟨rfl, -⟩ := st)) <;>
        simp_all [tick, enqCallS, casNextOk, casNextFail, casTailAdvOk, casTailAdvFail, casTailHelpOk, casTailHelpFail,
          ldNextNull, ldNextAlloc, ldNextGo, ldTailDS, casTailDOk, casTailDFail, casHeadOk, casHeadFail, reclaimS, upd]
    exact ⟨ih.1.trans this.1, ih.2.trans this.2⟩

/-- inside a plain enqueue (not the one nested in dequeue) the measure is at most 8, at its entry at most 6 -/
theorem mu_enq_le {s t} (hd : s.inDeq t = false)
    (hp : s.pc t = .eLd ∨ s.pc t = .eCas ∨ s.pc t = .eHelp ∨ s.pc t = .eAdv) :
    mu s t ≤ 8 ∧ (s.pc t = .eLd → mu s t ≤ 6) := by
  have e0 : mu s t = enqMu s t := by
    rcases hp with e | e | e | e <;> simp [mu, e, hd]
  rw [e0]
  simp only [enqMu, lag]
  rcases hp with e | e | e | e <;> simp only [e] <;> refine ⟨?_, ?_⟩ <;> (repeat' split) <;> (try simp) <;> (try omega)

/-- at the entry of a dequeue -/
theorem mu_deq_entry {s t} (hp : s.pc t = .dLdH) : mu s t = 6 * dumT s t + 14 := by
  simp only [mu, hp, restart]

/-- only a CAS on `q.head` changes `q.head`; only the load of `q.head` changes the local `head` -/
theorem own_step_keeps_fresh_hd {c s s' t l o} (st : step c s t l = some (s', o)) (hf : s.hd t = s.head)
    (h1 : l ≠ .casHead) (h2 : l ≠ .ldHead) : s'.hd t = s'.head := by
  cases l <;> step_split st <;> obtain ⟨rfl, -⟩ := st <;>
    simp_all [tick, enqCallS, casNextOk, casNextFail, casTailAdvOk, casTailAdvFail, casTailHelpOk, casTailHelpFail,
      ldNextNull, ldNextAlloc, ldNextGo, ldTailDS, casTailDOk, casTailDFail, casHeadOk, casHeadFail, reclaimS, upd]

/-- only a CAS on `q.tail` changes `q.tail`; only the load of `q.tail` changes the local `tail` -/
theorem own_step_keeps_fresh_tl {c s s' t l o} (st : step c s t l = some (s', o)) (hf : s.tl t = s.tail)
    (h1 : l ≠ .casTailAdv) (h2 : l ≠ .casTailHelp) (h3 : l ≠ .casTailD) (h4 : l ≠ .ldTail) : s'.tl t = s'.tail := by
  cases l <;> step_split st <;> obtain ⟨rfl, -⟩ := st <;>
    simp_all [tick, enqCallS, casNextOk, casNextFail, casTailAdvOk, casTailAdvFail, casTailHelpOk, casTailHelpFail,
      ldNextNull, ldNextAlloc, ldNextGo, ldTailDS, casTailDOk, casTailDFail, casHeadOk, casHeadFail, reclaimS, upd]

end UrcuVerif.Lfq
