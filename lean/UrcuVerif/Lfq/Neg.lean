import UrcuVerif.Lfq.Model
/-!
Lean-checked records of the two defects found in rculfqueue while building C12 (both repaired in
/repo: commits 87e4726 and 928caa3).  Each is a concrete schedule of the model of the OLD text,
replayed by the kernel on the executable `step`.
-/
namespace UrcuVerif.Lfq.Neg
open UrcuVerif.Lfq Label

/-- threads: 0 = E (enqueuer suspended between link and tail advance), 1 = D (dequeuer), 2 = F (late enqueuer).
Nodes: 1 = initial dummy, 2, 3 = user nodes, 5 = the dummy D allocates. -/
def unfixed : Cfg := { n := 3, helpTail := false }

def uafTrace : List (Nat × Label) :=
  [ (0, lock), (0, enqCall 2), (0, ldTail), (0, casNext),          -- E linked node 2 after dummy 1; q.tail = 1 still
    (1, lock), (1, deqCall), (1, ldHead), (1, ldNext 0), (1, casHead), -- D: head 1 → 2; dummy 1 handed to call_rcu; q.tail = 1 !
    (2, lock), (2, enqCall 3), (2, ldTail),                          -- F: section begins AFTER the removal; loads q.tail = 1
    (0, casTailAdv), (0, unlock),                                     -- E finishes
    (1, ldHead), (1, ldNext 5), (1, ldTail), (1, casNext), (1, casTailAdv), (1, ldNext2), (1, casHead), (1, unlock),
                                                                     -- D finishes (returns node 2)
    (2, reclaim 1),                                                   -- every open section (F's) began after the removal: grace period elapsed
    (2, casNext) ]                                                    -- F: cmpxchg(&tail->next, …) on freed memory

/-- the dequeue text before commit 87e4726 lets `q.head` pass a lagging `q.tail`: a node reclaimed one
grace period after its removal is still reachable through `q.tail` (use-after-free in enqueue). -/
theorem uaf_reachable_unfixed : ∃ s, Reach unfixed s ∧ s.uaf = true := by
  have h : (run unfixed init uafTrace).map (·.uaf) = some true := by decide
  cases e : run unfixed init uafTrace with
  | none => rw [e] at h; simp at h
  | some s => rw [e] at h; exact ⟨s, run_reach .init e, by simpa using h⟩

/-- the same schedule is not a run of the current code: D's `ldNext` leads to the tail check, not to the CAS on head -/
example : run { n := 3 } init uafTrace = none := by decide

/-- destroy before commit 928caa3 -/
def oldDestroy : Cfg := { n := 3, destroyWalk := false }

/-- threads 0 = D1, 1 = D2, 2 = E.  Nodes 2, 3 user nodes; 5, 6 the dummies of D1, D2. -/
def twoDummiesTrace : List (Nat × Label) :=
  [ (0, lock), (0, enqCall 2), (0, ldTail), (0, casNext), (0, casTailAdv),       -- chain [1, 2]
    (0, deqCall), (0, ldHead), (0, ldNext 0), (0, ldTailD), (0, casHead),        -- dummy 1 skipped; chain [2]
    (0, ldHead), (0, ldNext 5),                                                  -- D1 sees node 2 with next = NULL: will enqueue dummy 5
    (1, lock), (1, deqCall), (1, ldHead), (1, ldNext 6),                          -- D2 too: dummy 6
    (2, lock), (2, enqCall 3), (2, ldTail), (2, casNext), (2, casTailAdv), (2, unlock),   -- chain [2, 3]
    (0, ldTail), (0, casNext), (0, casTailAdv), (0, ldNext2), (0, ldTailD), (0, casHead), (0, unlock),  -- [2,3,5] → D1 returns 2
    (1, ldTail), (1, casNext), (1, casTailAdv), (1, ldNext2), (1, ldTailD), (1, casHead),   -- [3,5,6]; CAS on head fails
    (1, ldHead), (1, ldNext 0), (1, ldTailD), (1, casHead), (1, unlock) ]         -- D2 returns 3; chain [5, 6]

/-- `cds_lfq_destroy_rcu` before commit 928caa3 answered -EPERM on a quiescent queue that holds no user node
(chain = two dummies). -/
theorem destroy_eperm_on_empty_reachable_unfixed :
    ∃ s s', Reach oldDestroy s ∧ quiescent oldDestroy s ∧ abs s = [] ∧
      step oldDestroy s 0 .destroy = some (s', .destroyed false) := by
  have h : (run oldDestroy init twoDummiesTrace).map
      (fun s => (decide (quiescent oldDestroy s), abs s, (step oldDestroy s 0 .destroy).map (·.2))) =
      some (true, [], some (.destroyed false)) := by decide
  cases e : run oldDestroy init twoDummiesTrace with
  | none => rw [e] at h; simp at h
  | some s =>
    rw [e] at h
    simp only [Option.map_some, Option.some.injEq, Prod.mk.injEq, decide_eq_true_eq] at h
    obtain ⟨h1, h2, h3⟩ := h
    cases e2 : step oldDestroy s 0 .destroy with
    | none => rw [e2] at h3; simp at h3
    | some r =>
      obtain ⟨s', o⟩ := r
      rw [e2] at h3
      simp only [Option.map_some, Option.some.injEq] at h3
      subst h3
      exact ⟨s, s', run_reach .init e, h1, h2, e2⟩

/-- the current destroy succeeds in that state -/
example : ((run { n := 3 } init twoDummiesTrace).bind fun s => (step { n := 3 } s 0 .destroy).map (·.2)) =
    some (.destroyed true) := by decide

end UrcuVerif.Lfq.Neg
