import UrcuVerif.Lfq.TsoModel
import UrcuVerif.Lfq.Thms
/-!
Simulation: every run of the TSO model of rculfqueue (`Lfq/TsoModel.lean`, `drain = true`, current code) is,
step for step and answer for answer, a run of the SC model of `Lfq/Model.lean`; `flush` steps are stutters.

The SC image of a TSO state keeps every field except the two memories `next` / `isDummy`, which are replaced
by the *logical* memory `N` / `D` = memory overlaid with the store buffers.  The buffers are tiny: a thread's
buffer is empty, or it is `[node->next = NULL, node->dummy = b]` / `[node->dummy = b]` for the node the thread
is about to link (`pc ∈ {eLd, eCas}`), which by the SC invariant is private: nobody else holds a pointer to it,
so no load of anybody ever targets an address with a pending store of another thread.
-/
namespace UrcuVerif.Lfq.Tso
open UrcuVerif.Lfq

/-- SC state with logical memory `N`, `D` -/
def img (ts : TState) (N : Nat → Nat) (D : Nat → Bool) : State := { ts.s with next := N, isDummy := D }

/-- shape of thread `t`'s store buffer, and what the logical memory holds for its private node -/
def BufOk (ts : TState) (N : Nat → Nat) (D : Nat → Bool) (t : Nat) : Prop :=
  ts.buf t = [] ∨
  ((ts.s.pc t = .eLd ∨ ts.s.pc t = .eCas) ∧
    ((ts.buf t = [.next (ts.s.node t) 0, .dummy (ts.s.node t) (D (ts.s.node t))] ∧ N (ts.s.node t) = 0) ∨
     (ts.buf t = [.dummy (ts.s.node t) (D (ts.s.node t))] ∧ N (ts.s.node t) = ts.s.next (ts.s.node t))))

structure Rel (ts : TState) (N : Nat → Nat) (D : Nat → Bool) : Prop where
  buf : ∀ t, BufOk ts N D t
  mem : ∀ p, (∀ t, ts.buf t ≠ [] → ts.s.node t ≠ p) → N p = ts.s.next p ∧ D p = ts.s.isDummy p

/-- `s` is the SC image of `ts` -/
def Sim (ts : TState) (s : State) : Prop := ∃ N D, s = img ts N D ∧ Rel ts N D

theorem Rel.owns {ts N D} (h : Rel ts N D) {u : Nat} (hne : ts.buf u ≠ []) :
    ts.s.pc u = .eLd ∨ ts.s.pc u = .eCas := by
  rcases h.buf u with e | ⟨p, _⟩
  · exact absurd e hne
  · exact p

theorem Rel.empty_of_pc {ts N D} (h : Rel ts N D) {u : Nat} (h1 : ts.s.pc u ≠ .eLd) (h2 : ts.s.pc u ≠ .eCas) :
    ts.buf u = [] := by
  rcases h.buf u with e | ⟨p, -⟩
  · exact e
  · rcases p with p | p
    · exact absurd p h1
    · exact absurd p h2

/-- the node of a thread with a non-empty buffer is private -/
theorem Rel.priv {c ts N D} (h : Rel ts N D) (i : Inv c (img ts N D)) {u : Nat} (hne : ts.buf u ≠ []) :
    ts.s.life (ts.s.node u) = .priv := by
  have o := h.owns hne
  have := (i.e_node u (by rcases o with e | e <;> simp [Owns, img, e])).1
  simpa [img] using this

/-- a node that is not private is in nobody's buffer: logical memory = memory -/
theorem Rel.mem_np {c ts N D} (h : Rel ts N D) (i : Inv c (img ts N D)) {p : Nat} (hl : ts.s.life p ≠ .priv) :
    N p = ts.s.next p ∧ D p = ts.s.isDummy p :=
  h.mem p (fun u hne e => hl (e ▸ h.priv i hne))

/-- … and the own-buffer-first reads of any thread return it -/
theorem Rel.rd_np {c ts N D} (h : Rel ts N D) (i : Inv c (img ts N D)) (t : Nat) {p : Nat} (hl : ts.s.life p ≠ .priv) :
    rdNext ts t p = N p ∧ rdDummy ts t p = D p := by
  have ⟨m1, m2⟩ := h.mem_np i hl
  rcases h.buf t with e | ⟨-, ⟨e, -⟩ | ⟨e, -⟩⟩
  · simp [rdNext, rdDummy, e, bufNext, bufDummy, m1, m2]
  · have ne : ts.s.node t ≠ p := fun x => hl (x ▸ h.priv i (by simp [e]))
    simp [rdNext, rdDummy, e, bufNext, bufDummy, m1, m2, ne]
  · have ne : ts.s.node t ≠ p := fun x => hl (x ▸ h.priv i (by simp [e]))
    simp [rdNext, rdDummy, e, bufNext, bufDummy, m1, m2, ne]

/-- two threads with non-empty buffers have different nodes -/
theorem Rel.node_ne {c ts N D} (h : Rel ts N D) (i : Inv c (img ts N D)) {u v : Nat} (hu : ts.buf u ≠ []) (hv : ts.buf v ≠ [])
    (ne : u ≠ v) : ts.s.node u ≠ ts.s.node v := by
  intro e
  have ou := h.owns hu
  have ov := h.owns hv
  exact ne (i.node_inj u v (by rcases ou with x | x <;> simp [Owns, img, x]) (by rcases ov with x | x <;> simp [Owns, img, x])
    (by simpa [img] using e))

/-- labels whose SC step neither reads nor writes `next` / `isDummy` -/
def NoMem (l : Label) : Prop :=
  l = .lock ∨ l = .unlock ∨ l = .deqCall ∨ l = .ldTail ∨ l = .ldHead ∨ l = .ldTailD ∨ (∃ p, l = .reclaim p) ∨
  l = .casTailAdv ∨ l = .casTailHelp ∨ l = .casTailD

theorem step_img_noMem {c : Cfg} {ts : TState} {N D} {t : Nat} {l : Label} {s1 : State} {o : Out} (hl : NoMem l)
    (st : step c ts.s t l = some (s1, o)) :
    step c (img ts N D) t l = some ({ s1 with next := N, isDummy := D }, o) := by
  rcases hl with rfl | rfl | rfl | rfl | rfl | rfl | ⟨p, rfl⟩ | rfl | rfl | rfl <;> step_split st <;>
    obtain ⟨rfl, rfl⟩ := st <;>
    simp_all [step, img, gpElapsed, tick, casTailAdvOk, casTailAdvFail, casTailHelpOk, casTailHelpFail,
      ldTailDS, casTailDOk, casTailDFail, reclaimS, advPc] <;>
    first | rfl | (rename_i h; exact h.2) | (congr 1)

/-- frame of such a step: it touches neither memory nor anybody's `node`, other threads' pcs stay, and a thread
that is about to link (`eLd`, `eCas`) stays so -/
theorem noMem_frame {c : Cfg} {s s1 : State} {t : Nat} {l : Label} {o : Out} (hl : NoMem l) (st : step c s t l = some (s1, o)) :
    s1.node = s.node ∧ s1.next = s.next ∧ s1.isDummy = s.isDummy ∧ (∀ u, u ≠ t → s1.pc u = s.pc u) ∧
    ((s.pc t = .eLd ∨ s.pc t = .eCas) → (s1.pc t = .eLd ∨ s1.pc t = .eCas)) := by
  rcases hl with rfl | rfl | rfl | rfl | rfl | rfl | ⟨p, rfl⟩ | rfl | rfl | rfl <;> step_split st <;>
    obtain ⟨rfl, rfl⟩ := st <;>
    simp_all [tick, casTailAdvOk, casTailAdvFail, casTailHelpOk, casTailHelpFail,
      ldTailDS, casTailDOk, casTailDFail, reclaimS, advPc, upd]

theorem onMem_some {c : Cfg} {ts ts' : TState} {t : Nat} {l : Label} {o : Out} (st : onMem c ts t l = some (ts', o)) :
    ∃ s1, step c ts.s t l = some (s1, o) ∧ ts' = { ts with s := s1 } := by
  simp only [onMem] at st
  cases e : step c ts.s t l with
  | none => simp [e] at st
  | some r =>
    obtain ⟨s1, o1⟩ := r
    simp only [e, Option.map_some, Option.some.injEq, Prod.mk.injEq] at st
    exact ⟨s1, by rw [st.2], st.1.symm⟩

/-- `Rel` is kept by a step that changes neither memory, nor buffers, nor `node`, and keeps the threads with a
non-empty buffer at `eLd` / `eCas` -/
theorem Rel.same_mem {ts : TState} {N D} (h : Rel ts N D) (s1 : State) (hnode : s1.node = ts.s.node)
    (hpc : ∀ u, ts.buf u ≠ [] → (s1.pc u = .eLd ∨ s1.pc u = .eCas)) (hnext : s1.next = ts.s.next)
    (hd : s1.isDummy = ts.s.isDummy) : Rel { ts with s := s1 } N D := by
  constructor
  · intro u
    rcases h.buf u with e | ⟨-, r⟩
    · exact .inl e
    · have ne : ts.buf u ≠ [] := by rcases r with ⟨e, -⟩ | ⟨e, -⟩ <;> simp [e]
      exact .inr ⟨hpc u ne, by simpa [hnode, hnext] using r⟩
  · intro p hp
    simpa [hnext, hd] using h.mem p (by simpa [hnode] using hp)

/-- … by a locked store `q->next := v` to a node that is in nobody's buffer -/
theorem Rel.upd_shared {ts : TState} {N D} (h : Rel ts N D) (s1 : State) (q v : Nat) (hnode : s1.node = ts.s.node)
    (hpc : ∀ u, ts.buf u ≠ [] → (s1.pc u = .eLd ∨ s1.pc u = .eCas)) (hnext : s1.next = upd ts.s.next q v)
    (hd : s1.isDummy = ts.s.isDummy) (hq : ∀ u, ts.buf u ≠ [] → ts.s.node u ≠ q) :
    Rel { ts with s := s1 } (upd N q v) D := by
  constructor
  · intro u
    rcases h.buf u with e | ⟨-, r⟩
    · exact .inl e
    · have ne : ts.buf u ≠ [] := by rcases r with ⟨e, -⟩ | ⟨e, -⟩ <;> simp [e]
      have nq := hq u ne
      exact .inr ⟨hpc u ne, by simpa [hnode, hnext, upd, nq] using r⟩
  · intro p hp
    have := h.mem p (by simpa [hnode] using hp)
    simp only [hnext, hd, upd]
    split <;> simp_all

/-- … by the allocation of a private node `n` whose two initialising stores enter `t`'s (empty) buffer -/
theorem Rel.alloc {c : Cfg} {ts : TState} {N D} (h : Rel ts N D) (i : Inv c (img ts N D)) (t n : Nat) (b : Bool) (s1 : State)
    (hbt : ts.buf t = []) (hfresh : ts.s.life n = .fresh) (hnode : s1.node = upd ts.s.node t n)
    (hpc : s1.pc = upd ts.s.pc t .eLd) (hnext : s1.next = ts.s.next) (hd : s1.isDummy = ts.s.isDummy) :
    Rel { s := s1, buf := upd ts.buf t [.next n 0, .dummy n b] } (upd N n 0) (upd D n b) := by
  have nn : ∀ u, ts.buf u ≠ [] → ts.s.node u ≠ n := fun u ne e => by
    have := h.priv i ne; rw [e, hfresh] at this; cases this
  have ut : ∀ u, ts.buf u ≠ [] → u ≠ t := fun u ne e => ne (e ▸ hbt)
  constructor
  · intro u
    by_cases hu : u = t
    · subst hu
      exact .inr ⟨by simp [hpc, upd], .inl (by simp [hnode, upd])⟩
    · rcases h.buf u with e | ⟨pu, r⟩
      · exact .inl (by simp [upd, hu, e])
      · have ne : ts.buf u ≠ [] := by rcases r with ⟨e, -⟩ | ⟨e, -⟩ <;> simp [e]
        have := nn u ne
        exact .inr ⟨by simpa [hpc, upd, hu] using pu, by simpa [hnode, hnext, upd, hu, this] using r⟩
  · intro p hp
    have pn : p ≠ n := fun e => by have := hp t (by simp [upd]); simp [hnode, upd, e] at this
    have := h.mem p (fun u ne e => by
      have := hp u (by simpa [upd, ut u ne] using ne)
      simp [hnode, upd, ut u ne] at this; exact this e)
    simpa [hnext, hd, upd, pn] using this

/-- … by a flush -/
theorem Rel.flush {c : Cfg} {ts : TState} {N D} (h : Rel ts N D) (i : Inv c (img ts N D)) (t : Nat) (st : Store) (rest : List Store)
    (hb : ts.buf t = st :: rest) : Rel { s := commit ts.s st, buf := upd ts.buf t rest } N D := by
  have net : ts.buf t ≠ [] := by simp [hb]
  have others : ∀ u, u ≠ t → ts.buf u ≠ [] → ts.s.node u ≠ ts.s.node t := fun u hu ne => h.node_ne i ne net hu
  rcases h.buf t with e | ⟨pt, ⟨e, n0⟩ | ⟨e, n0⟩⟩
  · exact absurd e net
  · -- [next n 0, dummy n b]: `n->next = NULL` reaches memory
    rw [hb] at e
    obtain ⟨rfl, rfl⟩ : st = .next (ts.s.node t) 0 ∧ rest = [.dummy (ts.s.node t) (D (ts.s.node t))] := by simpa using e
    constructor
    · intro u
      by_cases hu : u = t
      · subst hu
        exact .inr ⟨by simpa [commit] using pt, .inr (by simp [commit, upd, n0])⟩
      · rcases h.buf u with e | ⟨pu, r⟩
        · exact .inl (by simp [upd, hu, e])
        · have ne : ts.buf u ≠ [] := by rcases r with ⟨e, -⟩ | ⟨e, -⟩ <;> simp [e]
          have := others u hu ne
          exact .inr ⟨by simpa [commit] using pu, by simpa [commit, upd, hu, this] using r⟩
    · intro p hp
      have pn : p ≠ ts.s.node t := fun e => by have := hp t (by simp [upd]); simp [commit, e] at this
      have := h.mem p (fun u ne q => by
        by_cases hu : u = t
        · rw [hu] at q; exact pn q.symm
        · exact hp u (by simpa [upd, hu] using ne) (by simpa [commit] using q))
      simpa [commit, upd, pn] using this
  · -- [dummy n b]: `n->dummy = b` reaches memory, the buffer is empty
    rw [hb] at e
    obtain ⟨rfl, rfl⟩ : st = .dummy (ts.s.node t) (D (ts.s.node t)) ∧ rest = [] := by simpa using e
    constructor
    · intro u
      by_cases hu : u = t
      · subst hu; exact .inl (by simp [upd])
      · rcases h.buf u with e | ⟨pu, r⟩
        · exact .inl (by simp [upd, hu, e])
        · exact .inr ⟨by simpa [commit] using pu, by simpa [commit, upd, hu] using r⟩
    · intro p hp
      by_cases pn : p = ts.s.node t
      · subst pn; simp [commit, upd, n0]
      · have := h.mem p (fun u ne q => by
          by_cases hu : u = t
          · rw [hu] at q; exact pn q.symm
          · exact hp u (by simpa [upd, hu] using ne) (by simpa [commit] using q))
        simpa [commit, upd, pn] using this

/-! ### the simulation, label by label -/

theorem sim_noMem {c : Cfg} {ts ts' : TState} {N D} {t : Nat} {l : Label} {o : Out} (hl : NoMem l) (h : Rel ts N D)
    (st : onMem c ts t l = some (ts', o)) : step c (img ts N D) t l = some (img ts' N D, o) ∧ Rel ts' N D := by
  obtain ⟨s1, st1, rfl⟩ := onMem_some st
  have ⟨f1, f2, f3, f4, f5⟩ := noMem_frame hl st1
  refine ⟨step_img_noMem hl st1, h.same_mem s1 f1 (fun u ne => ?_) f2 f3⟩
  by_cases hu : u = t
  · subst hu; exact f5 (h.owns ne)
  · rw [f4 u hu]; exact h.owns ne

theorem sim_casNext {c : Cfg} {ts ts' : TState} {N D} {t : Nat} {o : Out} (h : Rel ts N D) (i : Inv c (img ts N D))
    (he : ts.buf t = []) (st : onMem c ts t .casNext = some (ts', o)) :
    ∃ N', step c (img ts N D) t .casNext = some (img ts' N' D, o) ∧ Rel ts' N' D := by
  obtain ⟨s1, st1, rfl⟩ := onMem_some st
  have hp : ts.s.pc t = .eCas := by
    simp only [step] at st1; split at st1
    · assumption
    · simp at st1
  have np : ts.s.life (ts.s.tl t) ≠ .priv := by
    have := i.tl_live t (by simp [HoldsTl, img, hp])
    simp only [img] at this
    rcases this with e | e <;> rw [e] <;> simp
  obtain ⟨m1, -⟩ := h.mem_np i np
  have ntl : ∀ u, ts.buf u ≠ [] → ts.s.node u ≠ ts.s.tl t := fun u ne e => np (e ▸ h.priv i ne)
  have dn : D (ts.s.node t) = ts.s.isDummy (ts.s.node t) := by
    refine (h.mem _ (fun u ne e => ?_)).2
    have ut : u ≠ t := fun x => ne (x ▸ he)
    have ou := h.owns ne
    exact ut (i.node_inj u t (by rcases ou with x | x <;> simp [Owns, img, x]) (by simp [Owns, img, hp]) (by simpa [img] using e))
  have keep : ∀ u, ts.buf u ≠ [] → u ≠ t := fun u ne x => ne (x ▸ he)
  by_cases h0 : ts.s.next (ts.s.tl t) = 0
  · simp only [step, hp, h0, if_true, Option.some.injEq, Prod.mk.injEq] at st1
    obtain ⟨rfl, rfl⟩ := st1
    refine ⟨upd N (ts.s.tl t) (ts.s.node t), ?_, ?_⟩
    · simp [step, img, hp, m1, h0, casNextOk, tick, live, dn]
    · refine h.upd_shared _ (ts.s.tl t) (ts.s.node t) (by simp [casNextOk, tick]) (fun u ne => ?_) (by simp [casNextOk, tick])
        (by simp [casNextOk, tick]) ntl
      have := h.owns ne
      simpa [casNextOk, tick, upd, keep u ne] using this
  · simp only [step, hp, h0, if_true, if_false, Option.some.injEq, Prod.mk.injEq] at st1
    obtain ⟨rfl, rfl⟩ := st1
    refine ⟨N, ?_, ?_⟩
    · simp [step, img, hp, m1, h0, casNextFail, tick, live]
    · refine h.same_mem _ (by simp [casNextFail, tick]) (fun u ne => ?_) (by simp [casNextFail, tick]) (by simp [casNextFail, tick])
      have := h.owns ne
      simpa [casNextFail, tick, upd, keep u ne] using this

theorem sim_casHead {c : Cfg} {ts ts' : TState} {N D} {t : Nat} {o : Out} (h : Rel ts N D) (i : Inv c (img ts N D))
    (he : ts.buf t = []) (st : onMem c ts t .casHead = some (ts', o)) :
    step c (img ts N D) t .casHead = some (img ts' N D, o) ∧ Rel ts' N D := by
  obtain ⟨s1, st1, rfl⟩ := onMem_some st
  have hp : ts.s.pc t = .dCas := by
    simp only [step] at st1; split at st1
    · assumption
    · simp at st1
  have np : ts.s.life (ts.s.hd t) ≠ .priv := by
    have := i.hd_live t (by simp [HoldsHd, img, hp])
    simp only [img] at this
    rcases this with e | e <;> rw [e] <;> simp
  obtain ⟨-, m2⟩ := h.mem_np i np
  have keep : ∀ u, ts.buf u ≠ [] → u ≠ t := fun u ne x => ne (x ▸ he)
  have rel : ∀ s1 : State, s1.node = ts.s.node → s1.pc = upd ts.s.pc t (s1.pc t) → s1.next = ts.s.next → s1.isDummy = ts.s.isDummy →
      Rel { ts with s := s1 } N D := fun s1 a b c d => h.same_mem s1 a (fun u ne => by
        have := h.owns ne; rw [b]; simpa [upd, keep u ne] using this) c d
  simp only [step, hp, if_true] at st1
  split at st1
  · next hh =>
    split at st1
    · next hd =>
      simp only [Option.some.injEq, Prod.mk.injEq] at st1
      obtain ⟨rfl, rfl⟩ := st1
      exact ⟨by simp [step, img, hp, hh, m2, hd, casHeadOk, tick], rel _ (by simp [casHeadOk, tick]) (by simp [casHeadOk, tick, upd])
        (by simp [casHeadOk, tick]) (by simp [casHeadOk, tick])⟩
    · next hd =>
      simp only [Option.some.injEq, Prod.mk.injEq] at st1
      obtain ⟨rfl, rfl⟩ := st1
      exact ⟨by simp [step, img, hp, hh, m2, hd, casHeadOk, tick], rel _ (by simp [casHeadOk, tick]) (by simp [casHeadOk, tick, upd])
        (by simp [casHeadOk, tick]) (by simp [casHeadOk, tick])⟩
  · next hh =>
    simp only [Option.some.injEq, Prod.mk.injEq] at st1
    obtain ⟨rfl, rfl⟩ := st1
    exact ⟨by simp [step, img, hp, hh, casHeadFail, tick], rel _ (by simp [casHeadFail, tick]) (by simp [casHeadFail, tick, upd])
      (by simp [casHeadFail, tick]) (by simp [casHeadFail, tick])⟩

theorem sim_enqCall {c : Cfg} {ts : TState} {N D} {t n : Nat} (h : Rel ts N D) (i : Inv c (img ts N D))
    (g : ts.s.pc t = .idle ∧ (ts.s.cs t).isSome ∧ ts.s.dead = false ∧ n ≠ 0 ∧ ts.s.life n = .fresh) :
    step c (img ts N D) t (.enqCall n) = some (img (enqCallT ts t n) (upd N n 0) (upd D n false), .unit) ∧
    Rel (enqCallT ts t n) (upd N n 0) (upd D n false) := by
  have he : ts.buf t = [] := h.empty_of_pc (by simp [g.1]) (by simp [g.1])
  refine ⟨by simp [step, img, g, enqCallS, enqCallT, tick], ?_⟩
  have := h.alloc i t n false (enqCallT ts t n).s he g.2.2.2.2 (by simp [enqCallT, tick]) (by simp [enqCallT, tick])
    (by simp [enqCallT, tick]) (by simp [enqCallT, tick])
  simpa [enqCallT, he] using this

theorem sim_ldNext {c : Cfg} {ts ts' : TState} {N D} {t d : Nat} {o : Out} (h : Rel ts N D)
    (i : Inv c (img ts N D)) (st : tstep { c := c } ts t (.op (.ldNext d)) = some (ts', o)) :
    ∃ N' D', step c (img ts N D) t (.ldNext d) = some (img ts' N' D', o) ∧ Rel ts' N' D' := by
  simp only [tstep] at st
  split at st
  · next hp =>
    have he : ts.buf t = [] := h.empty_of_pc (by simp [hp]) (by simp [hp])
    have np : ts.s.life (ts.s.hd t) ≠ .priv := by
      have := i.hd_live t (by simp [HoldsHd, img, hp])
      simp only [img] at this
      rcases this with e | e <;> rw [e] <;> simp
    obtain ⟨r1, r2⟩ := h.rd_np i t np
    have keep : ∀ u, ts.buf u ≠ [] → u ≠ t := fun u ne x => ne (x ▸ he)
    have rel : ∀ s1 : State, s1.node = ts.s.node → s1.pc = upd ts.s.pc t (s1.pc t) → s1.next = ts.s.next → s1.isDummy = ts.s.isDummy →
        Rel { ts with s := s1 } N D := fun s1 a b c d => h.same_mem s1 a (fun u ne => by
          have := h.owns ne; rw [b]; simpa [upd, keep u ne] using this) c d
    simp only [r1, r2] at st
    split at st
    · next h0 =>
      split at st
      · next hd =>
        simp only [Option.some.injEq, Prod.mk.injEq] at st
        obtain ⟨rfl, rfl⟩ := st
        exact ⟨N, D, by simp [step, img, hp, h0, hd, ldNextNull, ldNextNullT, tick, live],
          rel _ (by simp [ldNextNullT, tick]) (by simp [ldNextNullT, tick, upd]) (by simp [ldNextNullT, tick]) (by simp [ldNextNullT, tick])⟩
      · next hd =>
        split at st
        · next g =>
          simp only [Option.some.injEq, Prod.mk.injEq] at st
          obtain ⟨rfl, rfl⟩ := st
          refine ⟨upd N d 0, upd D d true, by simp [step, img, hp, h0, hd, g, ldNextAlloc, ldNextAllocT, tick, live], ?_⟩
          have := h.alloc i t d true (ldNextAllocT ts t d (N (ts.s.hd t))).s he g.2 (by simp [ldNextAllocT, tick])
            (by simp [ldNextAllocT, tick]) (by simp [ldNextAllocT, tick]) (by simp [ldNextAllocT, tick])
          simpa [ldNextAllocT, he] using this
        · simp at st
    · next h0 =>
      simp only [Option.some.injEq, Prod.mk.injEq] at st
      obtain ⟨rfl, rfl⟩ := st
      exact ⟨N, D, by simp [step, img, hp, h0, ldNextGo, ldNextGoT, tick, live],
        rel _ (by simp [ldNextGoT, tick]) (by simp [ldNextGoT, tick, upd]) (by simp [ldNextGoT, tick]) (by simp [ldNextGoT, tick])⟩
  · simp at st

theorem sim_ldNext2 {c : Cfg} {ts ts' : TState} {N D} {t : Nat} {o : Out} (h : Rel ts N D)
    (i : Inv c (img ts N D)) (st : tstep { c := c } ts t (.op .ldNext2) = some (ts', o)) :
    step c (img ts N D) t .ldNext2 = some (img ts' N D, o) ∧ Rel ts' N D := by
  simp only [tstep] at st
  split at st
  · next hp =>
    have he : ts.buf t = [] := h.empty_of_pc (by simp [hp]) (by simp [hp])
    have np : ts.s.life (ts.s.hd t) ≠ .priv := by
      have := i.hd_live t (by simp [HoldsHd, img, hp])
      simp only [img] at this
      rcases this with e | e <;> rw [e] <;> simp
    obtain ⟨r1, -⟩ := h.rd_np i t np
    have keep : ∀ u, ts.buf u ≠ [] → u ≠ t := fun u ne x => ne (x ▸ he)
    simp only [r1, Option.some.injEq, Prod.mk.injEq] at st
    obtain ⟨rfl, rfl⟩ := st
    refine ⟨by simp [step, img, hp, ldNextGo, ldNextGoT, tick, live], h.same_mem _ (by simp [ldNextGoT, tick]) (fun u ne => ?_)
      (by simp [ldNextGoT, tick]) (by simp [ldNextGoT, tick])⟩
    have := h.owns ne
    simpa [ldNextGoT, tick, upd, keep u ne] using this
  · simp at st

/-- at quiescence every store buffer is empty -/
theorem quiescent_empty {c : Cfg} {ts : TState} {N D} (h : Rel ts N D) (i : Inv c (img ts N D)) (q : quiescent c ts.s) (u : Nat) :
    ts.buf u = [] := by
  refine h.empty_of_pc ?_ ?_ <;> intro e
  all_goals
    cases ec : ts.s.cs u with
    | none => have := i.op_cs u (by simpa [img] using ec); simp [img, e] at this
    | some b => have := q u (i.cs_n u b (by simpa [img] using ec)); simp [e] at this

theorem sim_destroy {c : Cfg} {ts ts' : TState} {N D} {t : Nat} {o : Out} (h : Rel ts N D)
    (i : Inv c (img ts N D)) (st : tstep { c := c } ts t (.op .destroy) = some (ts', o)) :
    step c (img ts N D) t .destroy = some (img ts' N D, o) ∧ Rel ts' N D := by
  simp only [tstep] at st
  split at st
  · next g =>
    have emp := quiescent_empty h i g.2.2
    have eN : N = ts.s.next := funext fun p => (h.mem p (fun u ne => absurd (emp u) ne)).1
    have eD : D = ts.s.isDummy := funext fun p => (h.mem p (fun u ne => absurd (emp u) ne)).2
    have r1 : rdNext ts t = ts.s.next := funext fun p => by simp [rdNext, emp t, bufNext]
    have r2 : rdDummy ts t = ts.s.isDummy := funext fun p => by simp [rdDummy, emp t, bufDummy]
    have ok : destroyOk c (img ts N D) = destroyOkT c ts t := by
      simp [destroyOk, destroyOkT, img, r1, r2, eN, eD]
    have q' : quiescent c (img ts N D) := g.2.2
    have e : step c (img ts N D) t .destroy =
        (if destroyOk c (img ts N D) then some (tick { img ts N D with dead := true }, .destroyed true)
         else some (tick (img ts N D), .destroyed false)) := by
      simp only [step]
      rw [if_pos]
      exact ⟨g.1, g.2.1, q'⟩
    rw [e, ok]
    split at st
    · next d =>
      simp only [Option.some.injEq, Prod.mk.injEq] at st
      obtain ⟨rfl, rfl⟩ := st
      exact ⟨by simp [d, img, tick],
        h.same_mem _ (by simp [tick]) (fun u ne => absurd (emp u) ne) (by simp [tick]) (by simp [tick])⟩
    · next d =>
      simp only [Option.some.injEq, Prod.mk.injEq] at st
      obtain ⟨rfl, rfl⟩ := st
      exact ⟨by simp [d, img, tick],
        h.same_mem _ (by simp [tick]) (fun u ne => absurd (emp u) ne) (by simp [tick]) (by simp [tick])⟩
  · simp at st

/-- **the simulation step**: a step of the TSO machine (current code, draining CAS) is a stutter (`flush`) or the same
step of the SC model with the same answer, between the SC images -/
theorem sim_step {c : Cfg} {ts ts' : TState} {N D} {t : Nat} {l : TLabel} {o : Out}
    (h : Rel ts N D) (i : Inv c (img ts N D)) (st : tstep { c := c } ts t l = some (ts', o)) :
    (l = .flush ∧ o = .unit ∧ img ts' N D = img ts N D ∧ Rel ts' N D) ∨
    (∃ l' N' D', l = .op l' ∧ step c (img ts N D) t l' = some (img ts' N' D', o) ∧ Rel ts' N' D') := by
  cases l with
  | flush =>
    simp only [tstep] at st
    split at st
    · next stt rest hb =>
      simp only [Option.some.injEq, Prod.mk.injEq] at st
      obtain ⟨rfl, rfl⟩ := st
      refine .inl ⟨rfl, rfl, ?_, h.flush i t stt rest hb⟩
      cases stt <;> simp [img, commit]
    · simp at st
  | op l' =>
    right
    have nm : ∀ {l'' : Label}, NoMem l'' → onMem c ts t l'' = some (ts', o) →
        ∃ l' N' D', TLabel.op l'' = .op l' ∧ step c (img ts N D) t l' = some (img ts' N' D', o) ∧ Rel ts' N' D' :=
      fun hl st => ⟨_, N, D, rfl, (sim_noMem hl h st).1, (sim_noMem hl h st).2⟩
    have lk : ∀ {l'' : Label}, NoMem l'' → locked c ts t l'' = some (ts', o) →
        ∃ l' N' D', TLabel.op l'' = .op l' ∧ step c (img ts N D) t l' = some (img ts' N' D', o) ∧ Rel ts' N' D' := by
      intro l'' hl st
      simp only [locked] at st
      split at st
      · exact nm hl st
      · simp at st
    cases l' with
    | lock => exact nm (by simp [NoMem]) st
    | unlock => exact nm (by simp [NoMem]) st
    | deqCall => exact nm (by simp [NoMem]) st
    | ldTail => exact nm (by simp [NoMem]) st
    | ldHead => exact nm (by simp [NoMem]) st
    | ldTailD => exact nm (by simp [NoMem]) st
    | reclaim p => exact nm (by simp [NoMem]) st
    | casTailAdv => exact lk (by simp [NoMem]) st
    | casTailHelp => exact lk (by simp [NoMem]) st
    | casTailD => exact lk (by simp [NoMem]) st
    | casNext =>
      simp only [tstep, if_true, locked] at st
      split at st
      · next he =>
        obtain ⟨N', a, b⟩ := sim_casNext h i he st
        exact ⟨_, N', D, rfl, a, b⟩
      · simp at st
    | casHead =>
      simp only [tstep, locked] at st
      split at st
      · next he => exact ⟨_, N, D, rfl, (sim_casHead h i he st).1, (sim_casHead h i he st).2⟩
      · simp at st
    | enqCall n =>
      simp only [tstep] at st
      split at st
      · next g =>
        simp only [Option.some.injEq, Prod.mk.injEq] at st
        obtain ⟨rfl, rfl⟩ := st
        exact ⟨_, _, _, rfl, (sim_enqCall h i g).1, (sim_enqCall h i g).2⟩
      · simp at st
    | ldNext d =>
      obtain ⟨N', D', a, b⟩ := sim_ldNext h i st
      exact ⟨_, N', D', rfl, a, b⟩
    | ldNext2 => exact ⟨_, N, D, rfl, (sim_ldNext2 h i st).1, (sim_ldNext2 h i st).2⟩
    | destroy => exact ⟨_, N, D, rfl, (sim_destroy h i st).1, (sim_destroy h i st).2⟩

theorem rel_init : Rel tinit init.next init.isDummy :=
  ⟨fun _ => .inl rfl, fun _ _ => ⟨rfl, rfl⟩⟩

/-- **tso_simulates_sc**: every reachable state of the TSO machine has a reachable SC state as its image -/
theorem treach_sim {c : Cfg} (hc : c.helpTail = true) {ts : TState} (r : TReach { c := c } ts) :
    ∃ N D, Reach c (img ts N D) ∧ Rel ts N D := by
  induction r with
  | init => exact ⟨init.next, init.isDummy, .init, rel_init⟩
  | step _ st ih =>
    obtain ⟨N, D, r, h⟩ := ih
    rcases sim_step h (reach_inv hc r) st with ⟨-, -, e, h'⟩ | ⟨l', N', D', -, st', h'⟩
    · exact ⟨N, D, e ▸ r, h'⟩
    · exact ⟨N', D', .step r st', h'⟩

/-- the abstract queue read from MEMORY is the abstract queue of the SC image: the flags of linked nodes are in memory -/
theorem sim_abs {c : Cfg} {ts : TState} {N D} (h : Rel ts N D) (i : Inv c (img ts N D)) : abs (img ts N D) = tabs ts := by
  simp only [abs, tabs, img]
  apply List.filter_congr
  intro p hp
  have : ts.s.life p = .inq := by simpa [img] using (i.inq_iff p).mpr (by simpa [img] using hp)
  rw [(h.mem_np i (by rw [this]; simp)).2]

/-- one TSO step between reachable states, with both SC images: stutter or the same SC step with the same answer -/
theorem treach_step {c : Cfg} (hc : c.helpTail = true) {ts ts' : TState} {t : Nat} {l : TLabel} {o : Out}
    (r : TReach { c := c } ts) (st : tstep { c := c } ts t l = some (ts', o)) :
    ∃ N D N' D', Reach c (img ts N D) ∧ Rel ts N D ∧ Reach c (img ts' N' D') ∧ Rel ts' N' D' ∧
      ((l = .flush ∧ o = .unit ∧ img ts' N' D' = img ts N D) ∨
       ∃ l', l = .op l' ∧ step c (img ts N D) t l' = some (img ts' N' D', o)) := by
  obtain ⟨N, D, r0, h⟩ := treach_sim hc r
  rcases sim_step h (reach_inv hc r0) st with ⟨a, b, e, h'⟩ | ⟨l', N', D', a, st', h'⟩
  · exact ⟨N, D, N, D, r0, h, e ▸ r0, h', .inl ⟨a, b, e⟩⟩
  · exact ⟨N, D, N', D', r0, h, .step r0 st', h', .inr ⟨l', a, st'⟩⟩

end UrcuVerif.Lfq.Tso
