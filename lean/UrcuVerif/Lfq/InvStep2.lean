import UrcuVerif.Lfq.InvStep
namespace UrcuVerif.Lfq

theorem inv_enqCall {c s s' t o n} (h : Inv c s) (st : step c s t (.enqCall n) = some (s', o)) : Inv c s' := by
  have segc : ∀ v, n ∉ s.chain → Seg (upd s.next n v) s.head s.chain := fun v hn =>
    seg_congr h.seg (by intro x hx; have : x ≠ n := fun e => hn (e ▸ hx); simp [upd, this])
  have filt : ∀ v : Bool, n ∉ s.chain →
      s.chain.filter (fun p => !(if p = n then v else s.isDummy p)) = s.chain.filter (fun p => !s.isDummy p) :=
    fun v hn => filter_congr' (by intro x hx; have : x ≠ n := fun e => hn (e ▸ hx); simp [this])
  inv_open h; inv_dbg st

end UrcuVerif.Lfq
