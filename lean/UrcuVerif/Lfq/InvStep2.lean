import UrcuVerif.Lfq.InvStep
namespace UrcuVerif.Lfq

theorem inv_enqCall {c s s' t o n} (h : Inv c s) (st : step c s t (.enqCall n) = some (s', o)) : Inv c s' := by
  have segc : ∀ v, n ∉ s.chain → Seg (upd s.next n v) s.head s.chain := fun v hn =>
    seg_congr h.seg (by intro x hx; have : x ≠ n := fun e => hn (e ▸ hx); simp [upd, this])
  have filt : ∀ v : Bool, n ∉ s.chain →
      s.chain.filter (fun p => !(if p = n then v else s.isDummy p)) = s.chain.filter (fun p => !s.isDummy p) :=
    fun v hn => filter_congr' (by intro x hx; have : x ≠ n := fun e => hn (e ▸ hx); simp [this])
  have tlL := h.tl_live; have hdL := h.hd_live; have nextMem := h.next_mem
  simp only [HoldsTl, HoldsHd] at tlL hdL
  inv_open h; inv_dbg st
  rw [filt false (by grind)]; assumption

theorem inv_casNext {c s s' t o} (h : Inv c s) (st : step c s t .casNext = some (s', o)) : Inv c s' := by
  have key : s.pc t = .eCas → s.next (s.tl t) = 0 →
      s.tl t ∈ s.chain ∧ s.tl t = s.tail ∧ s.node t ∉ s.chain ∧
      Seg (upd s.next (s.tl t) (s.node t)) s.head (s.chain ++ [s.node t]) ∧ (s.chain ++ [s.node t]).Nodup := by
    intro hp h0
    have l1 := h.tl_live t (by simp [HoldsTl, hp])
    have l2 : s.life (s.tl t) = .inq := by
      rcases l1 with r | r
      · exact r
      · exact absurd h0 (h.rem_next _ r)
    have m := (h.inq_iff _).mp l2
    have ⟨n1, n2, n3⟩ := h.e_node t (by simp [Owns, hp])
    have nm : s.node t ∉ s.chain := fun e => by have := (h.inq_iff _).mpr e; simp [n1] at this
    refine ⟨m, ?_, nm, seg_snoc h.seg h.nodup m h0 nm n3 n2, ?_⟩
    · rcases h.e_cas t hp with r | r
      · exact r
      · exact absurd h0 r
    · rw [List.nodup_append]
      refine ⟨h.nodup, by simp, ?_⟩
      intro a ha b hb
      simp at hb; subst hb
      intro e; exact nm (e ▸ ha)
  have tlL := h.tl_live; have hdL := h.hd_live; have nextMem := h.next_mem; have lastU := h.last_unique
  simp only [HoldsTl, HoldsHd] at tlL hdL
  inv_open h; inv_dbg st

end UrcuVerif.Lfq
