import UrcuVerif.Lfq.InvStep
/-! `Inv` is preserved by every step: allocation, the successful CASes, reclamation. -/
namespace UrcuVerif.Lfq

theorem inv_enqCallS {c s t n} (h : Inv c s) (hp : s.pc t = .idle) (hc : (s.cs t).isSome) (n0 : n ≠ 0)
    (hf : s.life n = .fresh) : Inv c (enqCallS s t n) := by
  have hn : n ∉ s.chain := fun e => by have := (h.inq_iff _).mpr e; simp [hf] at this
  have segc : Seg (upd s.next n 0) s.head s.chain :=
    seg_congr h.seg (by intro x hx; have : x ≠ n := fun e => hn (e ▸ hx); simp [upd, this])
  have filt : s.chain.filter (fun p => !(if p = n then false else s.isDummy p)) = s.chain.filter (fun p => !s.isDummy p) :=
    filter_congr' (by intro x hx; have : x ≠ n := fun e => hn (e ▸ hx); simp [this])
  have tlL := h.tl_live; have hdL := h.hd_live; have nextMem := h.next_mem
  simp only [HoldsTl, HoldsHd] at tlL hdL
  inv_open h; simp only [enqCallS]; inv_close

theorem inv_casNextFail {c s t} (h : Inv c s) (hp : s.pc t = .eCas) (h0 : s.next (s.tl t) ≠ 0) :
    Inv c (casNextFail s t) := by
  have tlL := h.tl_live t (by simp [HoldsTl, hp])
  inv_open h; simp only [casNextFail]; inv_close

theorem casNext_facts {c s t} (h : Inv c s) (hp : s.pc t = .eCas) (h0 : s.next (s.tl t) = 0) :
    s.tl t ∈ s.chain ∧ s.tl t = s.tail ∧ s.node t ∉ s.chain ∧ s.life (s.tl t) = .inq ∧
    Seg (upd s.next (s.tl t) (s.node t)) s.head (s.chain ++ [s.node t]) ∧ (s.chain ++ [s.node t]).Nodup := by
  have l1 := h.tl_live t (by simp [HoldsTl, hp])
  have l2 : s.life (s.tl t) = .inq := by
    rcases l1 with r | r
    · exact r
    · exact absurd h0 (h.rem_next _ r)
  have m := (h.inq_iff _).mp l2
  have ⟨n1, n2, n3⟩ := h.e_node t (by simp [Owns, hp])
  have nm : s.node t ∉ s.chain := fun e => by have := (h.inq_iff _).mpr e; simp [n1] at this
  refine ⟨m, ?_, nm, l2, seg_snoc h.seg h.nodup m h0 nm n3 n2, ?_⟩
  · rcases h.e_cas t hp with r | r
    · exact r
    · exact absurd h0 r
  · rw [List.nodup_append]
    refine ⟨h.nodup, by simp, ?_⟩
    intro a ha b hb
    simp at hb; subst hb
    intro e; exact nm (e ▸ ha)

theorem inv_casNextOk {c s t} (h : Inv c s) (hp : s.pc t = .eCas) (h0 : s.next (s.tl t) = 0) :
    Inv c (casNextOk s t) := by
  have ⟨f1, f2, f3, f4, f5, f6⟩ := casNext_facts h hp h0
  have tlL := h.tl_live; have hdL := h.hd_live; have nextMem := h.next_mem; have lastU := h.last_unique
  simp only [HoldsTl, HoldsHd] at tlL hdL
  inv_open h; simp only [casNextOk]; inv_dbg

end UrcuVerif.Lfq
