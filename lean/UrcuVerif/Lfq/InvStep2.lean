import UrcuVerif.Lfq.InvStep
/-! `Inv` is preserved by every step: allocation, the successful CASes, reclamation. -/
namespace UrcuVerif.Lfq

theorem inv_enqCallS {c s t n} (h : Inv c s) (hp : s.pc t = .idle) (hc : (s.cs t).isSome) (n0 : n ≠ 0)
    (hf : s.life n = .fresh) : Inv c (enqCallS s t n) := by
  have hn : n ∉ s.chain := fun e => by have := (h.inq_iff _).mpr e; simp [hf] at this
  have segc : Seg (upd s.next n 0) s.head s.chain :=
    seg_congr h.seg (by intro x hx; have : x ≠ n := fun e => hn (e ▸ hx); simp [upd, this])
  have filt : s.chain.filter (fun p => !(if p = n then false else s.isDummy p)) = s.chain.filter (fun p => !s.isDummy p) :=
    filter_congr' (by intro x hx; have : x ≠ n := fun e => hn (e ▸ hx); simp [this])
  have tlL := h.tl_live; have hdL := h.hd_live; have nextMem := h.next_mem
  simp only [HoldsTl, HoldsHd] at tlL hdL
  inv_open h; simp only [enqCallS]; inv_close

theorem inv_casNextFail {c s t} (h : Inv c s) (hp : s.pc t = .eCas) (h0 : s.next (s.tl t) ≠ 0) :
    Inv c (casNextFail s t) := by
  have tlL := h.tl_live t (by simp [HoldsTl, hp])
  inv_open h; simp only [casNextFail]; inv_close

theorem casNext_facts {c s t} (h : Inv c s) (hp : s.pc t = .eCas) (h0 : s.next (s.tl t) = 0) :
    s.tl t ∈ s.chain ∧ s.tl t = s.tail ∧ s.node t ∉ s.chain ∧ s.life (s.tl t) = .inq ∧
    Seg (upd s.next (s.tl t) (s.node t)) s.head (s.chain ++ [s.node t]) ∧ (s.chain ++ [s.node t]).Nodup := by
  have l1 := h.tl_live t (by simp [HoldsTl, hp])
  have l2 : s.life (s.tl t) = .inq := by
    rcases l1 with r | r
    · exact r
    · exact absurd h0 (h.rem_next _ r)
  have m := (h.inq_iff _).mp l2
  have ⟨n1, n2, n3⟩ := h.e_node t (by simp [Owns, hp])
  have nm : s.node t ∉ s.chain := fun e => by have := (h.inq_iff _).mpr e; simp [n1] at this
  refine ⟨m, ?_, nm, l2, seg_snoc h.seg h.nodup m h0 nm n3 n2, ?_⟩
  · rcases h.e_cas t hp with r | r
    · exact r
    · exact absurd h0 r
  · rw [List.nodup_append]
    refine ⟨h.nodup, by simp, ?_⟩
    intro a ha b hb
    simp at hb; subst hb
    intro e; exact nm (e ▸ ha)

set_option maxHeartbeats 1600000 in
theorem inv_casNextOk {c s t} (h : Inv c s) (hp : s.pc t = .eCas) (h0 : s.next (s.tl t) = 0) :
    Inv c (casNextOk s t) := by
  have ⟨f1, f2, f3, f4, f5, f6⟩ := casNext_facts h hp h0
  have tlL := h.tl_live; have hdL := h.hd_live; have nextMem := h.next_mem; have lastU := h.last_unique
  simp only [HoldsTl, HoldsHd] at tlL hdL
  inv_open h; simp only [casNextOk]; inv_close

/-- a CAS that moves `q.tail` from `a` to `x = a->next ≠ NULL` -/
theorem tail_move_facts {c s} (h : Inv c s) {x : Nat} (hx : s.next s.tail = x) (x0 : x ≠ 0) :
    x ∈ s.chain ∧ x ≠ s.head ∧ s.next x = 0 ∧ x ≠ s.tail := by
  have ⟨m1, m2⟩ := h.next_mem s.tail h.tail_in (by rw [hx]; exact x0)
  rw [hx] at m1 m2
  refine ⟨m1, m2, ?_, ?_⟩
  · rcases h.tail_ok with r | r
    · rw [hx] at r; exact absurd r x0
    · rw [hx] at r; exact r
  · intro e
    rcases h.tail_ok with r | r
    · rw [hx] at r; exact absurd r x0
    · rw [hx] at r; rw [e, hx] at r; exact x0 r

set_option maxHeartbeats 1600000 in
theorem inv_casTailAdvOk {c s t} (h : Inv c s) (hp : s.pc t = .eAdv) (ht : s.tail = s.tl t) :
    Inv c (casTailAdvOk s t) := by
  have ⟨f1, f2, f3, f4⟩ := tail_move_facts h (x := s.node t) (by rw [ht]; exact (h.e_adv t hp).1) (h.e_adv t hp).2
  have nextMem := h.next_mem
  inv_open h; simp only [casTailAdvOk]; inv_close

set_option maxHeartbeats 1600000 in
theorem inv_casTailHelpOk {c s t} (h : Inv c s) (hp : s.pc t = .eHelp) (ht : s.tail = s.tl t) :
    Inv c (casTailHelpOk s t) := by
  have ⟨f1, f2, f3, f4⟩ := tail_move_facts h (x := s.nx t) (by rw [ht]; exact (h.e_help t hp).1) (h.e_help t hp).2
  have nextMem := h.next_mem
  inv_open h; simp only [casTailHelpOk]; inv_close

set_option maxHeartbeats 1600000 in
theorem inv_casTailDOk {c s t} (h : Inv c s) (hp : s.pc t = .dHelpT) (ht : s.tail = s.hd t) :
    Inv c (casTailDOk s t) := by
  have ⟨f1, f2, f3, f4⟩ := tail_move_facts h (x := s.nx t) (by rw [ht]; exact (h.d_nx t (by simp [hp])).1) (h.d_nx t (by simp [hp])).2
  have nextMem := h.next_mem
  inv_open h; simp only [casTailDOk]; inv_close

theorem inv_ldNextNull {c s t} (h : Inv c s) (hp : s.pc t = .dLdN) : Inv c (ldNextNull s t) := by
  have hdL := h.hd_live t (by simp [HoldsHd, hp])
  inv_open h; simp only [ldNextNull]; inv_close

theorem inv_ldNextGo1 {c s t} (h : Inv c s) (hp : s.pc t = .dLdN) (h0 : s.next (s.hd t) ≠ 0) (hc : c.helpTail = true) :
    Inv c (ldNextGo c s t) := by
  have hdL := h.hd_live t (by simp [HoldsHd, hp])
  inv_open h; simp only [ldNextGo, hc]; inv_close

theorem inv_ldNextGo2 {c s t} (h : Inv c s) (hp : s.pc t = .dLdN2) (hc : c.helpTail = true) :
    Inv c (ldNextGo c s t) := by
  have hdL := h.hd_live t (by simp [HoldsHd, hp])
  inv_open h; simp only [ldNextGo, hc]; inv_close

set_option maxHeartbeats 1600000 in
theorem inv_ldNextAlloc {c s t d} (h : Inv c s) (hp : s.pc t = .dLdN) (h0 : s.next (s.hd t) = 0)
    (d0 : d ≠ 0) (hf : s.life d = .fresh) : Inv c (ldNextAlloc s t d) := by
  have hn : d ∉ s.chain := fun e => by have := (h.inq_iff _).mpr e; simp [hf] at this
  have segc : Seg (upd s.next d 0) s.head s.chain :=
    seg_congr h.seg (by intro x hx; have : x ≠ d := fun e => hn (e ▸ hx); simp [upd, this])
  have filt : s.chain.filter (fun p => !(if p = d then true else s.isDummy p)) = s.chain.filter (fun p => !s.isDummy p) :=
    filter_congr' (by intro x hx; have : x ≠ d := fun e => hn (e ▸ hx); simp [this])
  have tlL := h.tl_live; have hdL := h.hd_live; have nextMem := h.next_mem
  simp only [HoldsTl, HoldsHd] at tlL hdL
  inv_open h; simp only [ldNextAlloc]; inv_close

theorem casHead_facts {c s t} (h : Inv c s) (hp : s.pc t = .dCas) (hh : s.head = s.hd t) :
    s.chain = s.head :: s.chain.tail ∧ Seg s.next (s.nx t) s.chain.tail ∧ s.chain.tail.Nodup ∧
    s.head ∉ s.chain.tail ∧ s.tail ∈ s.chain.tail ∧ s.nx t ∈ s.chain.tail ∧ s.next s.head ≠ 0 := by
  have hin := h.head_in
  have h0 := seg_mem_ne_zero h.seg hin
  obtain ⟨l, e, sg⟩ := seg_head h.seg h0
  have ⟨n1, n2⟩ := h.d_nx t (by simp [hp])
  rw [← hh] at n1
  rw [n1] at sg
  have nd := h.nodup
  rw [e] at nd
  have ⟨nd1, nd2⟩ := List.nodup_cons.mp nd
  have tin := h.tail_in
  have tne := h.d_tail t hp hh.symm
  obtain ⟨l2, e2, _⟩ := seg_head sg n2
  rw [e]
  simp only [List.tail_cons]
  refine ⟨trivial, sg, nd2, nd1, ?_, by rw [e2]; simp, by rw [n1]; exact n2⟩
  rw [e] at tin
  rcases List.mem_cons.mp tin with r | r
  · exact absurd r tne
  · exact r

set_option maxHeartbeats 1600000 in
theorem inv_casHeadOk {c s t} (ret : Bool) (h : Inv c s) (hp : s.pc t = .dCas) (hh : s.head = s.hd t)
    (hd : s.isDummy (s.hd t) = !ret) : Inv c (casHeadOk s t ret) := by
  have ⟨f1, f2, f3, f4, f5, f6, f7⟩ := casHead_facts h hp hh
  have mem : ∀ x, x ∈ s.chain ↔ (x = s.head ∨ x ∈ s.chain.tail) := by
    intro x; rw [f1]; simp
  have filt : s.chain.filter (fun p => !s.isDummy p) =
      if ret then s.head :: s.chain.tail.filter (fun p => !s.isDummy p) else s.chain.tail.filter (fun p => !s.isDummy p) := by
    conv => lhs; rw [f1]
    rw [List.filter_cons, hh, hd]; cases ret <;> simp
  have tlL := h.tl_live; have hdL := h.hd_live; have nextMem := h.next_mem
  simp only [HoldsTl, HoldsHd] at tlL hdL
  have preOk := h.pre_ok; have clkCs := h.clk_cs
  inv_open h; simp only [casHeadOk]; inv_most
  intro p u hpu
  by_cases e : p = s.hd t
  · simp only [e, if_true] at hpu ⊢
    cases ec : s.cs u with
    | none => simp [ec] at hpu
    | some b => exact ⟨b, rfl, Nat.le_of_lt (clkCs u b ec)⟩
  · simp only [e, if_false] at hpu ⊢
    exact preOk p u hpu

/-- nobody inside a section holds a node whose grace period has elapsed -/
theorem reclaim_not_held {c s p} (h : Inv c s) (hl : s.life p = .removed) (hg : gpElapsed c s p) :
    (∀ t, HoldsTl (s.pc t) → s.tl t ≠ p) ∧ (∀ t, HoldsHd s t → s.hd t ≠ p) := by
  constructor
  · intro t ht e
    cases ec : s.cs t with
    | none => have := h.op_cs t ec; simp [HoldsTl, this] at ht
    | some b =>
      have := h.tl_held t ht b ec
      rw [e] at this
      rcases this with r | r
      · rw [hl] at r; cases r
      · have := hg t (h.cs_n t b ec) b ec; omega
  · intro t ht e
    cases ec : s.cs t with
    | none => have := h.op_cs t ec; simp [HoldsHd, this] at ht
    | some b =>
      have := h.hd_held t ht b ec
      rw [e] at this
      rcases this with r | r
      · rw [hl] at r; cases r
      · have := hg t (h.cs_n t b ec) b ec; omega

set_option maxHeartbeats 1600000 in
theorem inv_reclaimS {c s p} (h : Inv c s) (hl : s.life p = .removed) (hg : gpElapsed c s p) :
    Inv c (reclaimS s p) := by
  have ⟨nh1, nh2⟩ := reclaim_not_held h hl hg
  have hn : p ∉ s.chain := fun e => by have := (h.inq_iff _).mpr e; simp [hl] at this
  have tin := h.tail_in
  simp only [HoldsTl, HoldsHd] at nh1 nh2
  inv_open h; simp only [reclaimS]; inv_most

end UrcuVerif.Lfq
