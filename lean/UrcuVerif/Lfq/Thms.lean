import UrcuVerif.Lfq.InvStep2
/-! `Inv` holds in every reachable state of the current code; consequences used by `Props/C12.lean`. -/
namespace UrcuVerif.Lfq

theorem inv_step {c s s' t l o} (hc : c.helpTail = true) (h : Inv c s) (st : step c s t l = some (s', o)) :
    Inv c s' := by
  cases l with
  | lock => exact inv_lock h st
  | unlock => exact inv_unlock h st
  | enqCall n =>
    simp only [step] at st
    split at st
    · next g => st_inj st; exact inv_enqCallS h g.1 g.2.1 g.2.2.2.1 g.2.2.2.2
    · simp at st
  | ldTail => exact inv_ldTail h st
  | casNext =>
    simp only [step] at st
    split at st
    · next g =>
      split at st
      · next g0 => st_inj st; exact inv_casNextOk h g g0
      · next g0 => st_inj st; exact inv_casNextFail h g g0
    · simp at st
  | casTailAdv =>
    simp only [step] at st
    split at st
    · next g =>
      split at st
      · next g0 => st_inj st; exact inv_casTailAdvOk h g g0
      · st_inj st; exact inv_casTailAdvFail h g
    · simp at st
  | casTailHelp =>
    simp only [step] at st
    split at st
    · next g =>
      split at st
      · next g0 => st_inj st; exact inv_casTailHelpOk h g g0
      · st_inj st; exact inv_casTailHelpFail h g
    · simp at st
  | deqCall => exact inv_deqCall h st
  | ldHead => exact inv_ldHead h st
  | ldNext d =>
    simp only [step] at st
    split at st
    · next g =>
      split at st
      · next g0 =>
        split at st
        · st_inj st; exact inv_ldNextNull h g
        · split at st
          · next g1 => st_inj st; exact inv_ldNextAlloc h g g0 g1.1 g1.2
          · simp at st
      · next g0 => st_inj st; exact inv_ldNextGo1 h g g0 hc
    · simp at st
  | ldNext2 =>
    simp only [step] at st
    split at st
    · next g => st_inj st; exact inv_ldNextGo2 h g hc
    · simp at st
  | ldTailD =>
    simp only [step] at st
    split at st
    · next g => st_inj st; exact inv_ldTailDS h g
    · simp at st
  | casTailD =>
    simp only [step] at st
    split at st
    · next g =>
      split at st
      · next g0 => st_inj st; exact inv_casTailDOk h g g0
      · next g0 => st_inj st; exact inv_casTailDFail h g g0
    · simp at st
  | casHead =>
    simp only [step] at st
    split at st
    · next g =>
      split at st
      · next g0 =>
        split at st
        · next g1 => st_inj st; exact inv_casHeadOk false h g g0 (by simp [g1])
        · next g1 => st_inj st; exact inv_casHeadOk true h g g0 (by simpa using g1)
      · st_inj st; exact inv_casHeadFail h g
    · simp at st
  | reclaim p =>
    simp only [step] at st
    split at st
    · next g => st_inj st; exact inv_reclaimS h g.1 g.2
    · simp at st
  | destroy => exact inv_destroy h st

theorem reach_inv {c s} (hc : c.helpTail = true) (r : Reach c s) : Inv c s := by
  induction r with
  | init => exact inv_init c
  | step _ st ih => exact inv_step hc ih st

/-! ### how a step changes the ghost histories and what it returns -/

macro "step_split" st:ident : tactic => `(tactic|
  (simp only [step] at $st:ident
   repeat' (split at $st:ident)
   all_goals (try (simp at $st:ident; done))
   all_goals (simp only [Option.some.injEq, Prod.mk.injEq] at $st:ident)))

/-- a step returns a node only at a successful CAS on `q.head` that removes a user node -/
theorem out_node {c s s' t l o p} (st : step c s t l = some (s', o)) (ho : o = .node p) :
    l = .casHead ∧ p = s.hd t ∧ s.pc t = .dCas ∧ s.head = s.hd t ∧ s.isDummy p = false ∧
    s' = casHeadOk s t true := by
  cases l <;> step_split st <;> (try (obtain ⟨rfl, rfl⟩ := st; simp at ho; done))
  obtain ⟨rfl, rfl⟩ := st
  simp only [Out.node.injEq] at ho
  subst ho
  simp_all

/-- a dequeue answers NULL only at the load of `head->next` -/
theorem out_null {c s s' t l o} (st : step c s t l = some (s', o)) (ho : o = .null) :
    (∃ d, l = .ldNext d) ∧ s.pc t = .dLdN ∧ s.next (s.hd t) = 0 ∧ s.isDummy (s.hd t) = true ∧
    s' = ldNextNull s t := by
  cases l <;> step_split st <;> (try (obtain ⟨rfl, rfl⟩ := st; simp at ho; done))
  obtain ⟨rfl, rfl⟩ := st
  simp_all

/-- only `destroy` answers `destroyed` -/
theorem out_destroyed {c s s' t l o b} (st : step c s t l = some (s', o)) (ho : o = .destroyed b) :
    l = .destroy ∧ b = destroyOk c s ∧ quiescent c s ∧ s'.enqd = s.enqd ∧ s'.deqd = s.deqd ∧ s'.chain = s.chain ∧
    s'.isDummy = s.isDummy := by
  cases l <;> step_split st <;> (try (obtain ⟨rfl, rfl⟩ := st; simp at ho; done))
  all_goals (obtain ⟨rfl, rfl⟩ := st; simp only [Out.destroyed.injEq] at ho; subst ho; simp_all [tick])

/-- the enqueue history grows only at a successful link CAS of a user node -/
theorem step_enqd {c s s' t l o} (st : step c s t l = some (s', o)) :
    s'.enqd = s.enqd ∨
    (l = .casNext ∧ s.pc t = .eCas ∧ s.next (s.tl t) = 0 ∧ s.isDummy (s.node t) = false ∧ o = .unit ∧
      s'.enqd = s.enqd ++ [s.node t] ∧ s'.deqd = s.deqd) := by
  cases l <;> step_split st <;> obtain ⟨rfl, rfl⟩ := st <;>
    simp [tick, enqCallS, casNextOk, casNextFail, casTailAdvOk, casTailAdvFail, casTailHelpOk, casTailHelpFail,
      ldNextNull, ldNextAlloc, ldNextGo, ldTailDS, casTailDOk, casTailDFail, casHeadOk, casHeadFail, reclaimS, *]
  all_goals (split <;> simp_all)

/-- the dequeue history grows only when a node is returned -/
theorem step_deqd {c s s' t l o} (st : step c s t l = some (s', o)) :
    s'.deqd = s.deqd ∨ (o = .node (s.hd t) ∧ s'.deqd = s.deqd ++ [s.hd t] ∧ s'.enqd = s.enqd) := by
  cases l <;> step_split st <;> obtain ⟨rfl, rfl⟩ := st <;>
    simp [tick, enqCallS, casNextOk, casNextFail, casTailAdvOk, casTailAdvFail, casTailHelpOk, casTailHelpFail,
      ldNextNull, ldNextAlloc, ldNextGo, ldTailDS, casTailDOk, casTailDFail, casHeadOk, casHeadFail, reclaimS, *]

theorem walk_all {nx : Nat → Nat} {isD : Nat → Bool} {a l} (h : Seg nx a l) :
    walkAllDummy nx isD l.length a = l.all isD := by
  induction l generalizing a with
  | nil => simp only [Seg] at h; simp [walkAllDummy, h]
  | cons b l ih =>
    simp only [Seg] at h
    obtain ⟨rfl, h2, h3⟩ := h
    simp [walkAllDummy, h2, ih h3]

/-- at the load that answers NULL the chain is the single dummy -/
theorem null_chain {c s t} (h : Inv c s) (hp : s.pc t = .dLdN) (h0 : s.next (s.hd t) = 0) :
    s.hd t = s.head ∧ s.chain = [s.head] := by
  have e : s.hd t = s.head := by
    rcases h.d_hd t (by simp [HoldsHd, hp]) with r | r
    · exact r
    · exact absurd h0 (h.rem_next _ r)
  refine ⟨e, ?_⟩
  rw [e] at h0
  exact seg_single h.seg (seg_mem_ne_zero h.seg h.head_in) h0

end UrcuVerif.Lfq
