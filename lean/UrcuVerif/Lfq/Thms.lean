import UrcuVerif.Lfq.InvStep2
/-! `Inv` holds in every reachable state of the current code; consequences used by `Props/C12.lean`. -/
namespace UrcuVerif.Lfq

theorem inv_step {c s s' t l o} (hc : c.helpTail = true) (h : Inv c s) (st : step c s t l = some (s', o)) :
    Inv c s' := by
  cases l with
  | lock => exact inv_lock h st
  | unlock => exact inv_unlock h st
  | enqCall n =>
    simp only [step] at st
    split at st
    · next g => st_inj st; exact inv_enqCallS h g.1 g.2.1 g.2.2.2.1 g.2.2.2.2
    · simp at st
  | ldTail => exact inv_ldTail h st
  | casNext =>
    simp only [step] at st
    split at st
    · next g =>
      split at st
      · next g0 => st_inj st; exact inv_casNextOk h g g0
      · next g0 => st_inj st; exact inv_casNextFail h g g0
    · simp at st
  | casTailAdv =>
    simp only [step] at st
    split at st
    · next g =>
      split at st
      · next g0 => st_inj st; exact inv_casTailAdvOk h g g0
      · st_inj st; exact inv_casTailAdvFail h g
    · simp at st
  | casTailHelp =>
    simp only [step] at st
    split at st
    · next g =>
      split at st
      · next g0 => st_inj st; exact inv_casTailHelpOk h g g0
      · st_inj st; exact inv_casTailHelpFail h g
    · simp at st
  | deqCall => exact inv_deqCall h st
  | ldHead => exact inv_ldHead h st
  | ldNext d =>
    simp only [step] at st
    split at st
    · next g =>
      split at st
      · next g0 =>
        split at st
        · st_inj st; exact inv_ldNextNull h g
        · split at st
          · next g1 => st_inj st; exact inv_ldNextAlloc h g g0 g1.1 g1.2
          · simp at st
      · next g0 => st_inj st; exact inv_ldNextGo1 h g g0 hc
    · simp at st
  | ldNext2 =>
    simp only [step] at st
    split at st
    · next g => st_inj st; exact inv_ldNextGo2 h g hc
    · simp at st
  | ldTailD =>
    simp only [step] at st
    split at st
    · next g => st_inj st; exact inv_ldTailDS h g
    · simp at st
  | casTailD =>
    simp only [step] at st
    split at st
    · next g =>
      split at st
      · next g0 => st_inj st; exact inv_casTailDOk h g g0
      · next g0 => st_inj st; exact inv_casTailDFail h g g0
    · simp at st
  | casHead =>
    simp only [step] at st
    split at st
    · next g =>
      split at st
      · next g0 =>
        split at st
        · next g1 => st_inj st; exact inv_casHeadOk false h g g0 (by simp [g1])
        · next g1 => st_inj st; exact inv_casHeadOk true h g g0 (by simpa using g1)
      · st_inj st; exact inv_casHeadFail h g
    · simp at st
  | reclaim p =>
    simp only [step] at st
    split at st
    · next g => st_inj st; exact inv_reclaimS h g.1 g.2
    · simp at st
  | destroy => exact inv_destroy h st

theorem reach_inv {c s} (hc : c.helpTail = true) (r : Reach c s) : Inv c s := by
  induction r with
  | init => exact inv_init c
  | step _ st ih => exact inv_step hc ih st

end UrcuVerif.Lfq
