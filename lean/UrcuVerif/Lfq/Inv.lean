import UrcuVerif.Lfq.Seg
/-! Inductive invariant of the rculfqueue model (current code: `helpTail = true`). -/
namespace UrcuVerif.Lfq

/-- thread `t` holds `tl t` (loaded from `q.tail`) -/
def HoldsTl (p : Pc) : Prop := p = .eCas ∨ p = .eAdv ∨ p = .eHelp
/-- thread `t` holds `hd t` (loaded from `q.head`) -/
def HoldsHd (s : State) (t : Nat) : Prop :=
  s.pc t = .dLdN ∨ s.pc t = .dLdN2 ∨ s.pc t = .dLdT ∨ s.pc t = .dHelpT ∨ s.pc t = .dCas ∨
  (s.inDeq t = true ∧ (s.pc t = .eLd ∨ s.pc t = .eCas ∨ s.pc t = .eAdv ∨ s.pc t = .eHelp))
/-- `node t` is still private to `t` -/
def Owns (p : Pc) : Prop := p = .eLd ∨ p = .eCas ∨ p = .eHelp

/-- a pointer held inside a read-side section: linked, or removed after the section began -/
def Held (s : State) (t p : Nat) : Prop :=
  ∀ b, s.cs t = some b → s.life p = .inq ∨ (s.life p = .removed ∧ b ≤ s.removedAt p)

structure Inv (c : Cfg) (s : State) : Prop where
  seg : Seg s.next s.head s.chain
  nodup : s.chain.Nodup
  inq_iff : ∀ p, s.life p = .inq ↔ p ∈ s.chain
  rem_next : ∀ p, s.life p = .removed → s.next p ≠ 0
  tail_in : s.tail ∈ s.chain
  tail_ok : s.next s.tail = 0 ∨ s.next (s.next s.tail) = 0
  clk_cs : ∀ t b, s.cs t = some b → b < s.clock
  clk_rm : ∀ p, s.removedAt p < s.clock
  op_cs : ∀ t, s.cs t = none → s.pc t = .idle
  cs_n : ∀ t b, s.cs t = some b → t < c.n
  tl_held : ∀ t, HoldsTl (s.pc t) → Held s t (s.tl t)
  hd_held : ∀ t, HoldsHd s t → Held s t (s.hd t)
  e_node : ∀ t, Owns (s.pc t) → s.life (s.node t) = .priv ∧ s.next (s.node t) = 0 ∧ s.node t ≠ 0
  node_inj : ∀ t u, Owns (s.pc t) → Owns (s.pc u) → s.node t = s.node u → t = u
  e_cas : ∀ t, s.pc t = .eCas → s.tl t = s.tail ∨ s.next (s.tl t) ≠ 0
  e_adv : ∀ t, s.pc t = .eAdv → s.next (s.tl t) = s.node t ∧ s.node t ≠ 0
  e_help : ∀ t, s.pc t = .eHelp → s.next (s.tl t) = s.nx t ∧ s.nx t ≠ 0
  d_hd : ∀ t, HoldsHd s t → s.hd t = s.head ∨ s.life (s.hd t) = .removed
  d_nx : ∀ t, (s.pc t = .dLdT ∨ s.pc t = .dHelpT ∨ s.pc t = .dCas) → s.next (s.hd t) = s.nx t ∧ s.nx t ≠ 0
  d_ldn2 : ∀ t, (s.pc t = .dLdN2 ∨ (s.inDeq t = true ∧ s.pc t = .eAdv)) → s.next (s.hd t) ≠ 0
  d_tail : ∀ t, s.pc t = .dCas → s.hd t = s.head → s.tail ≠ s.head
  fifo : s.enqd = s.deqd ++ abs s
  gens_tl : ∀ t, HoldsTl (s.pc t) → s.gtl t = s.gen (s.tl t)
  gens_hd : ∀ t, HoldsHd s t → s.ghd t = s.gen (s.hd t)
  hi_fresh : ∀ p, s.hi ≤ p → s.life p = .fresh
  pre_ok : ∀ p u, s.pre p u = true → ∃ b, s.cs u = some b ∧ b ≤ s.removedAt p
  no_uaf : s.uaf = false
  e_kind : ∀ t, Owns (s.pc t) → s.isDummy (s.node t) = s.inDeq t

theorem inv_init (c : Cfg) : Inv c init := by
  constructor <;> simp [init, Seg, HoldsTl, HoldsHd, Owns, Held, abs] <;> intro p <;> (first | omega | (split <;> simp_all))

theorem Inv.tl_live {c s} (h : Inv c s) (u : Nat) (hp : HoldsTl (s.pc u)) :
    s.life (s.tl u) = .inq ∨ s.life (s.tl u) = .removed := by
  cases e : s.cs u with
  | none => have := h.op_cs u e; simp [HoldsTl, this] at hp
  | some b => rcases h.tl_held u hp b e with r | r; exact .inl r; exact .inr r.1

theorem Inv.hd_live {c s} (h : Inv c s) (u : Nat) (hp : HoldsHd s u) :
    s.life (s.hd u) = .inq ∨ s.life (s.hd u) = .removed := by
  cases e : s.cs u with
  | none => have := h.op_cs u e; simp [HoldsHd, this] at hp
  | some b => rcases h.hd_held u hp b e with r | r; exact .inl r; exact .inr r.1

theorem Inv.head_in {c s} (h : Inv c s) : s.head ∈ s.chain := seg_head_mem h.seg h.tail_in

theorem Inv.next_mem {c s} (h : Inv c s) (x : Nat) (hx : x ∈ s.chain) (hn : s.next x ≠ 0) :
    s.next x ∈ s.chain ∧ s.next x ≠ s.head := seg_next_mem h.seg h.nodup hx hn

theorem Inv.last_unique {c s} (h : Inv c s) (x y : Nat) (hx : x ∈ s.chain) (hy : y ∈ s.chain)
    (nx0 : s.next x = 0) (ny0 : s.next y = 0) : x = y := seg_last_unique h.seg h.nodup hx hy nx0 ny0

end UrcuVerif.Lfq
