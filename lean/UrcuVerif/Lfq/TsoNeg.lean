import UrcuVerif.Lfq.TsoModel
/-!
Necessity witness for the TSO argument of C12: the simulation `Lfq/TsoSim.lean` uses exactly one property of the
machine — the publishing `cmpxchg(&tail->next, NULL, node)` does not act on memory before the issuing thread's
store buffer (holding `node->next = NULL`, `node->dummy = …`) has drained.  x86 guarantees that for every
`lock`-prefixed instruction, and FIFO store buffers would give the same order for a plain-store publication.
On a machine WITHOUT it (`TCfg.drain = false`: the node becomes reachable while its initialisation is still in
flight — what a weaker-than-TSO machine does to a relaxed publication) a recycled node is linked while memory
still holds the `next` pointer of its previous incarnation; another enqueuer follows that stale pointer, moves
`q.tail` to a freed node and then runs its `cmpxchg` on freed memory.  Replayed by the kernel on the
executable `tstep`.
-/
namespace UrcuVerif.Lfq.Tso.Neg
open UrcuVerif.Lfq UrcuVerif.Lfq.Tso Label

def noDrain : TCfg := { c := { n := 2 }, drain := false }
def x86 : TCfg := { c := { n := 2 } }

/-- a complete enqueue of `n` by thread `t` whose two initialising stores are flushed before the link -/
def enq (t n : Nat) : List (Nat × TLabel) :=
  [(t, .op (enqCall n)), (t, .flush), (t, .flush), (t, .op ldTail), (t, .op casNext), (t, .op casTailAdv)]

/-- thread 0 enqueues 2 and 4, dequeues both (inserting dummy 5), leaves its section; 2 and 4 are reclaimed:
memory still holds `2->next = 4` -/
def setup : List (Nat × TLabel) :=
  [(0, .op lock)] ++ enq 0 2 ++ enq 0 4 ++
  [(0, .op deqCall), (0, .op ldHead), (0, .op (ldNext 0)), (0, .op ldTailD), (0, .op casHead),      -- dummy 1 removed
   (0, .op ldHead), (0, .op (ldNext 0)), (0, .op ldTailD), (0, .op casHead),                         -- returns 2
   (0, .op deqCall), (0, .op ldHead), (0, .op (ldNext 5)), (0, .flush), (0, .flush),                 -- last node: dummy 5
   (0, .op ldTail), (0, .op casNext), (0, .op casTailAdv), (0, .op ldNext2), (0, .op ldTailD), (0, .op casHead),  -- returns 4
   (0, .op unlock), (0, .op (reclaim 2)), (0, .op (reclaim 4))]

/-- thread 0 re-enqueues node 2; its stores `2->next = NULL; 2->dummy = 0` stay in its buffer; the link CAS goes
ahead; thread 1 then enqueues node 6 -/
def race : List (Nat × TLabel) :=
  [(0, .op lock), (0, .op (enqCall 2)), (0, .op ldTail), (0, .op casNext),                           -- 5 -> 2 linked, init still buffered
   (1, .op lock), (1, .op (enqCall 6)), (1, .flush), (1, .flush),
   (1, .op ldTail), (1, .op casNext), (1, .op casTailHelp),                                          -- tail 5 -> 2
   (1, .op ldTail), (1, .op casNext), (1, .op casTailHelp),                                          -- reads 2->next = 4 (stale): tail -> 4, a freed node
   (1, .op ldTail), (1, .op casNext)]                                                                -- cmpxchg(&4->next, …) on freed memory

example : (trun noDrain tinit setup).map (fun ts => (ts.s.chain, ts.s.next 2, ts.s.life 2, ts.s.life 4)) =
    some ([5], 4, .fresh, .fresh) := by decide

/-- **publication_must_follow_initialisation**: without the drain a use-after-free is reachable -/
theorem uaf_reachable_without_drain : ∃ ts, TReach noDrain ts ∧ ts.s.uaf = true ∧ ts.s.life ts.s.tail = .fresh := by
  have h : (trun noDrain tinit (setup ++ race)).map (fun ts => (ts.s.uaf, ts.s.life ts.s.tail)) = some (true, .fresh) := by decide
  cases e : trun noDrain tinit (setup ++ race) with
  | none => rw [e] at h; simp at h
  | some ts =>
    rw [e] at h
    simp only [Option.map_some, Option.some.injEq, Prod.mk.injEq] at h
    exact ⟨ts, trun_reach .init e, h.1, h.2⟩

/-- on x86 the same schedule is not a run: the link CAS of thread 0 waits for its buffer -/
example : trun x86 tinit (setup ++ race) = none := by decide
/-- … and once the two stores have drained, thread 1 reads `2->next = NULL`, links behind node 2, nothing is wrong -/
def raceX86 : List (Nat × TLabel) :=
  [(0, .op lock), (0, .op (enqCall 2)), (0, .op ldTail), (0, .flush), (0, .flush), (0, .op casNext),
   (1, .op lock), (1, .op (enqCall 6)), (1, .flush), (1, .flush),
   (1, .op ldTail), (1, .op casNext), (1, .op casTailHelp), (1, .op ldTail), (1, .op casNext), (1, .op casTailAdv)]
example : (trun x86 tinit (setup ++ raceX86)).map (fun ts => (ts.s.uaf, ts.s.chain, ts.s.tail)) = some (false, [5, 2, 6], 6) := by decide

end UrcuVerif.Lfq.Tso.Neg
