import UrcuVerif.Lfq.Model
/-! List-segment lemmas for the queue's pointer chain (proof-only file). -/
namespace UrcuVerif.Lfq

/-- `Seg nx a l`: following `nx` from `a` visits exactly the nodes of `l`, in order, and the last
one's successor is NULL. -/
def Seg (nx : Nat → Nat) : Nat → List Nat → Prop
  | a, [] => a = 0
  | a, b :: l => a = b ∧ b ≠ 0 ∧ Seg nx (nx b) l

theorem seg_zero {nx l} (h : Seg nx 0 l) : l = [] := by
  cases l with
  | nil => rfl
  | cons b l => simp only [Seg] at h; omega

theorem seg_head {nx a l} (h : Seg nx a l) (ha : a ≠ 0) : ∃ l', l = a :: l' ∧ Seg nx (nx a) l' := by
  cases l with
  | nil => simp only [Seg] at h; omega
  | cons b l => simp only [Seg] at h; obtain ⟨rfl, _, h3⟩ := h; exact ⟨l, rfl, h3⟩

theorem seg_head_mem {nx a l} (h : Seg nx a l) {x} (hx : x ∈ l) : a ∈ l := by
  cases l with
  | nil => simp at hx
  | cons b l => simp only [Seg] at h; simp [h.1]

theorem seg_congr {nx nx' : Nat → Nat} {a l} (h : Seg nx a l) (hx : ∀ x, x ∈ l → nx' x = nx x) :
    Seg nx' a l := by
  induction l generalizing a with
  | nil => exact h
  | cons b l ih =>
    simp only [Seg] at h ⊢
    obtain ⟨h1, h2, h3⟩ := h
    refine ⟨h1, h2, ?_⟩
    rw [hx b (by simp)]
    exact ih h3 (fun x hm => hx x (by simp [hm]))

theorem seg_mem_ne_zero {nx a l} (h : Seg nx a l) {x} (hm : x ∈ l) : x ≠ 0 := by
  induction l generalizing a with
  | nil => simp at hm
  | cons b l ih =>
    simp only [Seg] at h
    obtain ⟨_, h2, h3⟩ := h
    rcases List.mem_cons.mp hm with rfl | hm
    · exact h2
    · exact ih h3 hm

/-- the successor of a chain node is NULL or a later chain node (never the first one) -/
theorem seg_next_mem {nx a l} (h : Seg nx a l) (nd : l.Nodup) {x} (hm : x ∈ l) (hx : nx x ≠ 0) :
    nx x ∈ l ∧ nx x ≠ a := by
  induction l generalizing a with
  | nil => simp at hm
  | cons b l ih =>
    simp only [Seg] at h
    obtain ⟨rfl, h2, h3⟩ := h
    have ⟨hb, nd'⟩ := List.nodup_cons.mp nd
    rcases List.mem_cons.mp hm with rfl | hm
    · obtain ⟨l', rfl, _⟩ := seg_head h3 hx
      refine ⟨by simp, ?_⟩
      intro e; apply hb; rw [e]; exact List.mem_cons_self
    · have ⟨i1, _⟩ := ih h3 nd' hm
      refine ⟨by simp [i1], ?_⟩
      intro e; apply hb; rw [← e]; exact i1

/-- only the last node has a NULL successor -/
theorem seg_last_unique {nx a l} (h : Seg nx a l) (nd : l.Nodup) {x y} (hx : x ∈ l) (hy : y ∈ l)
    (nx0 : nx x = 0) (ny0 : nx y = 0) : x = y := by
  induction l generalizing a with
  | nil => simp at hx
  | cons b l ih =>
    simp only [Seg] at h
    obtain ⟨rfl, h2, h3⟩ := h
    have ⟨hb, nd'⟩ := List.nodup_cons.mp nd
    rcases List.mem_cons.mp hx with rfl | hx' <;> rcases List.mem_cons.mp hy with rfl | hy'
    · rfl
    · rw [nx0] at h3; have := seg_zero h3; subst this; simp at hy'
    · rw [ny0] at h3; have := seg_zero h3; subst this; simp at hx'
    · exact ih h3 nd' hx' hy'

theorem seg_single {nx a l} (h : Seg nx a l) (ha : a ≠ 0) (h0 : nx a = 0) : l = [a] := by
  obtain ⟨l', rfl, h3⟩ := seg_head h ha
  rw [h0] at h3
  rw [seg_zero h3]

/-- linking `n` after the last node -/
theorem seg_snoc {nx a l} (h : Seg nx a l) (nd : l.Nodup) {x n} (hx : x ∈ l) (x0 : nx x = 0)
    (hn : n ∉ l) (n0 : n ≠ 0) (nn : nx n = 0) : Seg (upd nx x n) a (l ++ [n]) := by
  induction l generalizing a with
  | nil => simp at hx
  | cons b l ih =>
    simp only [Seg] at h
    obtain ⟨rfl, h2, h3⟩ := h
    have ⟨hb, nd'⟩ := List.nodup_cons.mp nd
    have hnb : n ≠ a := fun e => hn (by simp [e])
    have hnl : n ∉ l := fun e => hn (by simp [e])
    by_cases e : x = a
    · subst e
      rw [x0] at h3
      have := seg_zero h3; subst this
      simp only [List.nil_append, List.cons_append, Seg, upd, if_true, true_and]
      refine ⟨h2, n0, ?_⟩
      simp [hnb, nn]
    · have hxl : x ∈ l := by
        rcases List.mem_cons.mp hx with r | r
        · exact absurd r e
        · exact r
      simp only [List.cons_append, Seg, true_and]
      refine ⟨h2, ?_⟩
      have : upd nx x n a = nx a := by simp [upd]; intro e'; exact absurd e'.symm e
      rw [this]
      exact ih h3 nd' hxl hnl

theorem filter_congr' {l : List Nat} {f g : Nat → Bool} (h : ∀ x, x ∈ l → f x = g x) :
    l.filter f = l.filter g := by
  induction l with
  | nil => rfl
  | cons b l ih =>
    simp only [List.filter_cons]
    rw [h b (by simp), ih (fun x hm => h x (by simp [hm]))]

end UrcuVerif.Lfq
