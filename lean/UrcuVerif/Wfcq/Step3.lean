import UrcuVerif.Wfcq.Step2
/-! Inductive step, part 3: fence, consumer-role acquire / release. -/
set_option linter.unusedVariables false
set_option linter.unusedSimpArgs false
namespace UrcuVerif.Wfcq

theorem inv_fence {s s' : State} (I : Inv s) (t) (st : step s (.fence t) = some s') : Inv s' := by
  simp only [step] at st
  split at st <;> simp at st
  subst st; exact I

theorem inv_acquire {s s' : State} (I : Inv s) (t q) (st : step s (.acquire t q) = some s') : Inv s' := by
  simp only [step] at st
  split at st <;> simp at st
  rename_i hg; subst st
  obtain ⟨hq, hl, hb, hpc⟩ := hg
  obtain ⟨A, M, P⟩ := I
  refine ⟨absInv_frame A rfl rfl rfl rfl rfl, ?_, ?_⟩
  · obtain ⟨m1, m2, m3, m4, m5, m6, m7, m8, m9, m10, m11, m12, m13⟩ := M
    constructor <;> simp only [upd, exp] at * <;> grind
  · obtain ⟨p1, p2, p3, p4, p5, p6⟩ := P
    constructor
    · intro u
      have hu := p1 u
      show PcOk _ u (s.pc u)
      generalize s.pc u = pcu at hu
      cases pcu <;> (try cases ‹K›) <;>
        simp only [PcOk, EOk, SyncOk, Cons, Hd, upd] at hu ⊢ <;> grind
    · intro q' u; simp only [upd]; grind
    · exact p3
    · intro q' hq'; have := p4 q' hq'; simp only [upd]; grind
    · intro q' hq' hl'; have := p5 q' hq' hl'; simp only [upd]; grind
    · exact p6

theorem inv_release {s s' : State} (I : Inv s) (t q) (st : step s (.release t q) = some s') : Inv s' := by
  simp only [step] at st
  split at st <;> simp at st
  rename_i hg; subst st
  obtain ⟨hq, hl, hb, hpc⟩ := hg
  have hh := hclr_idle I hpc hl
  have hlim : s.limbo q = [] := by
    cases h : s.limbo q with
    | nil => rfl
    | cons a l =>
      have := (I.p.limbo_win q hq (by simp [h])).2 t hl
      rw [hpc] at this; exact this.elim
  obtain ⟨A, M, P⟩ := I
  refine ⟨absInv_frame A rfl rfl rfl rfl rfl, ?_, ?_⟩
  · obtain ⟨m1, m2, m3, m4, m5, m6, m7, m8, m9, m10, m11, m12, m13⟩ := M
    have hw : s.wr q ≠ some t := by
      intro h; have := m2 t q h; simp [hb] at this
    constructor <;> simp only [upd, exp] at * <;> grind [cnt_nil]
  · obtain ⟨p1, p2, p3, p4, p5, p6⟩ := P
    constructor
    · intro u
      have hu := p1 u
      show PcOk _ u (s.pc u)
      by_cases hut : u = t
      · subst hut; rw [hpc]; trivial
      · generalize s.pc u = pcu at hu
        cases pcu <;> (try cases ‹K›) <;>
          simp only [PcOk, EOk, SyncOk, Cons, Hd, upd] at hu ⊢ <;> grind
    · intro q' u; simp only [upd]; grind
    · exact p3
    · intro q' hq'; have := p4 q' hq'; simp only [upd]; grind
    · intro q' hq' hl'; have := p5 q' hq' hl'; simp only [upd]; grind
    · exact p6

end UrcuVerif.Wfcq
