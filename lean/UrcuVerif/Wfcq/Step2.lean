import UrcuVerif.Wfcq.Step1
/-! Inductive step, part 2: the labels that only move a program counter (calls, loads, returns). -/
set_option linter.unusedVariables false
namespace UrcuVerif.Wfcq

/-- an idle consumer's queue is not in a clearing window -/
theorem hclr_idle {s : State} (I : Inv s) {t q : Nat} (hpc : s.pc t = .idle) (hl : s.lock q = some t) :
    s.hclr q = false := by
  cases h : s.hclr q with
  | false => rfl
  | true => have := (I.p.hclr_win q h).2 t hl; rw [hpc] at this; exact this.elim

/-- the node the consumer has in hand is the first node of the queue -/
theorem hd_node {s : State} (I : Inv s) {t q nd : Nat} (h : Hd s t q nd) : 3 ≤ nd ∧ nd ∈ s.abs q := by
  obtain ⟨hq, hl, hne, hx, -, -⟩ := h
  have hlk := I.a.linked q hq
  cases hab : s.abs q with
  | nil => exact absurd hab hne
  | cons a l =>
    rw [hab] at hlk
    have : a = nd := by rw [← hx, hlk.1]
    subst this
    exact ⟨(I.a.nodes a (mem_abs_all hq (by simp [hab]))).1, by simp⟩

theorem inv_callEmpty {s s' : State} (I : Inv s) (t q) (st : step s (.callEmpty t q) = some s') : Inv s' := by
  simp only [step] at st
  split at st <;> simp at st
  rename_i hg; subst st
  apply inv_setPc' I
  · exact hg.2
  · rfl
  · intro q'; rw [hg.1]; simp [inWin]
  · intro q'; rw [hg.1]; simp [inS6]

theorem inv_callFirst {s s' : State} (I : Inv s) (t q b) (st : step s (.callFirst t q b) = some s') : Inv s' := by
  simp only [step] at st
  split at st <;> simp at st
  rename_i hg; subst st
  apply inv_setPc' I
  · exact ⟨hg.2.1, hg.2.2, hclr_idle I hg.1 hg.2.2⟩
  · rfl
  · intro q'; rw [hg.1]; simp [inWin]
  · intro q'; rw [hg.1]; simp [inS6]

theorem inv_callDeq {s s' : State} (I : Inv s) (t q b) (st : step s (.callDeq t q b) = some s') : Inv s' := by
  simp only [step] at st
  split at st <;> simp at st
  rename_i hg; subst st
  apply inv_setPc' I
  · exact ⟨hg.2.1, hg.2.2, hclr_idle I hg.1 hg.2.2⟩
  · rfl
  · intro q'; rw [hg.1]; simp [inWin]
  · intro q'; rw [hg.1]; simp [inS6]

theorem inv_callNext {s s' : State} (I : Inv s) (t q a b) (st : step s (.callNext t q a b) = some s') : Inv s' := by
  simp only [step] at st
  split at st <;> simp at st
  rename_i hg; subst st
  apply inv_setPc' I
  · exact ⟨hg.2.1, hg.2.2.1, hg.2.2.2⟩
  · rfl
  · intro q'; rw [hg.1]; simp [inWin]
  · intro q'; rw [hg.1]; simp [inS6]

theorem inv_callSplice {s s' : State} (I : Inv s) (t dst src b) (st : step s (.callSplice t dst src b) = some s') : Inv s' := by
  simp only [step] at st
  split at st <;> simp at st
  rename_i hg; subst st
  obtain ⟨hpc, hd, hs, hne, hl⟩ := hg
  apply inv_setPc' I
  · exact ⟨⟨hs, hl, hclr_idle I hpc hl⟩, hd, hne⟩
  · rfl
  · intro q'; rw [hpc]; simp [inWin]
  · intro q'; rw [hpc]; simp [inS6]

theorem inv_ret {s s' : State} (I : Inv s) (t) (st : step s (.ret t) = some s') : Inv s' := by
  simp only [step] at st
  split at st <;> simp at st
  rename_i r hpc; subst st
  apply inv_setPc' I
  · trivial
  · rfl
  · intro q'; rw [hpc]; simp [inWin]
  · intro q'; rw [hpc]; simp [inS6]

theorem inv_ld1 {s s' : State} (I : Inv s) (t) (st : step s (.ld1 t) = some s') : Inv s' := by
  simp only [step] at st
  split at st <;> simp at st
  rename_i k q hpc; subst st
  have hp := I.p.ok t; rw [hpc] at hp
  apply inv_setPc' I
  · cases k <;> split <;> simp_all [PcOk, EOk, SyncOk, nonEmptyPc]
  · cases k <;> split <;> simp [pendOld, nonEmptyPc]
  · intro q'; rw [hpc]; simp [inWin]
  · intro q'; rw [hpc]; simp [inS6]

theorem inv_ld2 {s s' : State} (I : Inv s) (t) (st : step s (.ld2 t) = some s') : Inv s' := by
  simp only [step] at st
  split at st <;> simp at st
  rename_i k q hpc; subst st
  have hp := I.p.ok t; rw [hpc] at hp
  apply inv_setPc' I
  · cases k <;> split <;> simp_all [PcOk, EOk, SyncOk, nonEmptyPc]
  · cases k <;> split <;> simp [pendOld, nonEmptyPc]
  · intro q'; rw [hpc]; simp [inWin]
  · intro q'; rw [hpc]; simp [inS6]

theorem inv_nx1 {s s' : State} (I : Inv s) (t) (st : step s (.nx1 t) = some s') : Inv s' := by
  simp only [step] at st
  split at st <;> simp at st
  rename_i q a b hpc; subst st
  have hp := I.p.ok t; rw [hpc] at hp
  apply inv_setPc' I
  · split <;> simp_all [PcOk]
  · split <;> simp [pendOld]
  · intro q'; rw [hpc]; simp [inWin]
  · intro q'; rw [hpc]; simp [inS6]

theorem inv_nx2 {s s' : State} (I : Inv s) (t) (st : step s (.nx2 t) = some s') : Inv s' := by
  simp only [step] at st
  split at st <;> simp at st
  rename_i q a b hpc; subst st
  have hp := I.p.ok t; rw [hpc] at hp
  apply inv_setPc' I
  · split <;> simp_all [PcOk, SyncOk]
  · split <;> simp [pendOld]
  · intro q'; rw [hpc]; simp [inWin]
  · intro q'; rw [hpc]; simp [inS6]

theorem inv_s4 {s s' : State} (I : Inv s) (t) (st : step s (.s4 t) = some s') : Inv s' := by
  simp only [step] at st
  split at st <;> simp at st
  rename_i dst src b hpc; subst st
  have hp := I.p.ok t; rw [hpc] at hp
  apply inv_setPc' I
  · split <;> (try split) <;> simp_all [PcOk]
  · split <;> (try split) <;> simp [pendOld]
  · intro q'; rw [hpc]; simp [inWin]
  · intro q'; rw [hpc]; simp [inS6]

theorem inv_d2 {s s' : State} (I : Inv s) (t) (st : step s (.d2 t) = some s') : Inv s' := by
  simp only [step] at st
  split at st <;> simp at st
  rename_i q nd b hpc; subst st
  have hp := I.p.ok t; rw [hpc] at hp
  have h3 := (hd_node I hp.1).1
  apply inv_setPc' I
  · by_cases hv : rd s t nd = 0
    · rw [if_pos hv]; exact hp
    · rw [if_neg hv]; exact ⟨hp.1, hv, rd_node I.m t nd h3 hv, rd_pnd I.m t nd hv⟩
  · split <;> simp [pendOld]
  · intro q'; rw [hpc]; simp [inWin]
  · intro q'; rw [hpc]; simp [inS6]

theorem inv_sync {s s' : State} (I : Inv s) (t) (st : step s (.sync t) = some s') : Inv s' := by
  simp only [step] at st
  split at st <;> try (simp at st; done)
  rename_i k q a hpc
  have hp := I.p.ok t; rw [hpc] at hp
  split at st
  · -- a non-NULL successor was read
    rename_i hv
    simp only [Option.some.injEq] at st; subst st
    apply inv_setPc' I
    · cases k <;> simp only [syncGotPc, PcOk, SyncOk] at hp ⊢
      rename_i b
      by_cases haq : a = q
      · rw [if_pos haq]; subst haq
        have := rd_head_cons I t a (hp.1 rfl) hv
        exact ⟨this.1, (hp.1 rfl).2.2⟩
      · rw [if_neg haq]
        have h3 := (hd_node I (hp.2 haq).1).1
        exact ⟨(hp.2 haq).1, hv, rd_node I.m t a h3 hv, rd_pnd I.m t a hv⟩
    · cases k <;> simp [syncGotPc, pendOld]; by_cases haq : a = q <;> simp [haq, pendOld]
    · intro q'; rw [hpc]; cases k <;> simp [inWin, syncGotPc]
      intro h1 h2; split <;> simp_all [inWin]
    · intro q'; rw [hpc]; simp [inS6]
  · split at st
    · simp only [Option.some.injEq] at st; subst st; exact I
    · simp only [Option.some.injEq] at st; subst st
      apply inv_setPc' I
      · cases k <;> simp only [syncWbPc, PcOk, SyncOk] at hp ⊢
        by_cases haq : a = q
        · rw [if_pos haq]; trivial
        · rw [if_neg haq]; exact hp.2 haq
      · cases k <;> simp [syncWbPc, pendOld]; by_cases haq : a = q <;> simp [haq, pendOld]
      · intro q'; rw [hpc]; cases k <;> simp [inWin, syncWbPc]
        intro h1 h2; split <;> simp_all [inWin]
      · intro q'; rw [hpc]; simp [inS6]

end UrcuVerif.Wfcq
