import UrcuVerif.Wfcq.Model
/-!
# Necessity witnesses for C10 (concrete runs of the executable model, checked by `decide`)

Each mutant `step…` is the model's `step` with ONE ingredient of the algorithm removed; the run
shows the property violated.  The same prefix on the real `step` behaves correctly.

* `stepNoCas`   – the dequeuer that finds `node->next == NULL` does not `cmpxchg` the tail (it
                  assumes the node is the last one: no wait for an in-flight enqueue): a node is lost.
* `stepEmptyHeadOnly` – `empty()` tests only `head->node.next`: a queue with an in-flight enqueue
                  is reported empty.
* `stepNoTailReset` – splice does not reset the source tail: the next enqueue on the (empty) source
                  reports "was non-empty" and links itself behind a node that now lives in the destination.
-/
namespace UrcuVerif.Wfcq.Neg
open UrcuVerif UrcuVerif.Wfcq

def runWith (f : State → Label → Option State) : State → List Label → Option State
  | s, [] => some s
  | s, l :: ls => match f s l with
    | none => none
    | some s' => runWith f s' ls

/-- dequeue without the `cmpxchg` test / the wait on a NULL `next` -/
def stepNoCas (s : State) : Label → Option State
  | .d4 t =>
    match s.pc t with
    | .d4 q nd _ =>
      if s.buf t = [] then
        some { s with tail := upd s.tail q q, abs := upd s.abs q (s.abs q).tail, lnx := upd s.lnx q 0,
                      hclr := upd s.hclr q false, inq := upd s.inq nd false,
                      pc := upd s.pc t (.done (.node nd true)) }
      else none
    | _ => none
  | l => step s l

/-- T1 enqueues node 3 on queue 1 completely; T2 exchanges the tail for node 4 and is suspended
before its link store; T0 dequeues: it sees `n3.next == NULL` -/
def lostPrefix : List Label :=
  [.enqXchg 1 1 3, .stIssue 1, .flush 1, .ret 1,
   .enqXchg 2 1 4,
   .acquire 0 1, .callDeq 0 1 true, .ld1 0, .sync 0, .d2 0, .d3 0, .flush 0, .d4 0]

/-- mutant: node 3 is returned as "last", the tail is reset to the head – node 4 is lost: the next
dequeue answers NULL although node 4 was enqueued (and stays NULL after T2's store) -/
theorem no_wait_loses_node :
    (runWith stepNoCas init (lostPrefix ++ [.ret 0, .stIssue 2, .flush 2, .ret 2, .callDeq 0 1 true, .ld1 0, .ld2 0])).map
      (fun s => (s.pc 0, s.abs 1, s.tail 1, s.next 3)) = some (.done .null, [4], 1, 4) := by decide

/-- real model: the `cmpxchg` fails, the dequeuer waits (stutters) until T2's store is visible,
then returns node 3 (not last) and, next, node 4 (last) -/
theorem real_waits_and_keeps_node :
    (run init lostPrefix).map (fun s => (s.pc 0, s.abs 1)) = some (.sync (.deq true) 1 3, [3, 4]) ∧
    ((run init lostPrefix).bind (fun s => step s (.sync 0))).map (fun s => s.pc 0) = some (.sync (.deq true) 1 3) ∧
    (run init (lostPrefix ++ [.stIssue 2, .flush 2, .ret 2, .sync 0, .d6 0])).map (fun s => (s.pc 0, s.abs 1)) =
      some (.done (.node 3 false), [4]) ∧
    (run init (lostPrefix ++ [.stIssue 2, .flush 2, .ret 2, .sync 0, .d6 0, .flush 0, .ret 0,
        .callDeq 0 1 true, .ld1 0, .sync 0, .d2 0, .d3 0, .flush 0, .d4 0])).map (fun s => (s.pc 0, s.abs 1, s.tail 1)) =
      some (.done (.node 4 true), [], 1) := by decide

/-- `empty()` that looks at `head->node.next` only -/
def stepEmptyHeadOnly (s : State) : Label → Option State
  | .ld1 t =>
    match s.pc t with
    | .e1 k q => some (setPc s t (if rd s t q ≠ 0 then nonEmptyPc k q else .done (emptyRes k)))
    | _ => none
  | l => step s l

/-- T2 is suspended between its xchg and its store: mutant `empty()` answers true although node 3
is in the queue; the real code looks at the tail and answers false -/
theorem empty_head_only_wrong :
    (runWith stepEmptyHeadOnly init [.enqXchg 2 1 3, .callEmpty 0 1, .ld1 0]).map (fun s => (s.pc 0, s.abs 1)) =
      some (.done (.bool true), [3]) ∧
    (run init [.enqXchg 2 1 3, .callEmpty 0 1, .ld1 0, .ld2 0]).map (fun s => (s.pc 0, s.abs 1)) =
      some (.done (.bool false), [3]) := by decide

/-- splice that does not exchange the source tail back to the head -/
def stepNoTailReset (s : State) : Label → Option State
  | .s5 t =>
    match s.pc t with
    | .s5 dst src h =>
      if s.buf t = [] then
        some { s with limbo := upd s.limbo src (s.abs src), abs := upd s.abs src [],
                      lnx := upd s.lnx src 0, hclr := upd s.hclr src false,
                      pc := upd s.pc t (.s6 dst src h (s.tail src)) }
      else none
    | _ => none
  | l => step s l

def splicePrefix : List Label :=
  [.enqXchg 1 1 3, .stIssue 1, .flush 1, .ret 1,
   .acquire 0 1, .callSplice 0 2 1 true, .ld1 0, .s3 0, .s5 0, .s6 0, .stIssue 0, .flush 0, .ret 0]

/-- mutant: after the splice queue 1 is abstractly empty but its tail still points to node 3 (now in
queue 2): the next enqueue on queue 1 reports "was non-empty" and hangs node 4 behind node 3 -/
theorem splice_no_tail_reset_wrong :
    (runWith stepNoTailReset init (splicePrefix ++ [.enqXchg 1 1 4, .stIssue 1, .flush 1])).map
      (fun s => (s.pc 1, s.abs 2, s.tail 1, s.next 3, s.next 1)) = some (.done (.bool true), [3], 4, 4, 0) ∧
    (run init (splicePrefix ++ [.enqXchg 1 1 4, .stIssue 1, .flush 1])).map
      (fun s => (s.pc 1, s.abs 1, s.abs 2, s.tail 1, s.next 3, s.next 1)) = some (.done (.bool false), [4], [3], 4, 0, 4) := by
  decide

end UrcuVerif.Wfcq.Neg
