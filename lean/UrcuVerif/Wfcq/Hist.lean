import UrcuVerif.Wfcq.Step6
import UrcuVerif.Wfcq.Fifo
/-!
Linearisation events of the wfcqueue model and the refinement to the sequential specification
(`Wfcq/Fifo.lean`).  `ev s l` is the event the step `l` records in state `s`; it is computed from
*concrete* state only (`tail`, the value the load returns, the thread's program counter), never
from the ghost fields.  Linearisation points:

* enqueue            – the `xchg` of the tail (`enqXchg`);
* dequeue → node     – the store that moves the head forward (`d6`), or the successful `cmpxchg`
                       of the tail for the last node (`d4`);
* dequeue / first → NULL, splice → SRC_EMPTY, empty() → true – the load of `tail.p == &head`
                       (`ld2`; for the retry loop of splice `s4`);
* empty() → false    – the load that saw a non-NULL `head.next` (`ld1`) or `tail.p != &head` (`ld2`);
* first / next → node – the load that returned the node (`sync`, `nx1`); next → NULL – the load of `tail.p` (`nx2`);
* splice             – `xchg` of the source tail (`s5`: the content leaves the source), then `xchg`
                       of the destination tail (`s6`: it is appended to the destination).
-/
set_option linter.unusedVariables false
set_option linter.unusedSimpArgs false
namespace UrcuVerif.Wfcq
open Spec

/-- the answer "queue `q` is empty" inside operation `k` -/
def emptyEv (t : Nat) (q : Nat) : K → Option Ev
  | .empty => some ⟨t, .empty q, .flag true⟩
  | .first _ => some ⟨t, .first q, .null⟩
  | .next _ => none
  | .deq _ => some ⟨t, .deq q, .null⟩
  | .splice _ _ => some ⟨t, .spliceOut q, .srcEmpty⟩

/-- the linearisation event recorded by step `l` in state `s` (`none`: not a linearisation point) -/
def ev (s : State) : Label → Option Ev
  | .enqXchg t q n => some ⟨t, .enq q n, .flag (decide (s.tail q ≠ q))⟩
  | .ld1 t =>
    match s.pc t with
    | .e1 .empty q => if rd s t q ≠ 0 then some ⟨t, .empty q, .flag false⟩ else none
    | _ => none
  | .ld2 t =>
    match s.pc t with
    | .e2 k q =>
      if s.tail q = q then emptyEv t q k
      else match k with
        | .empty => some ⟨t, .empty q, .flag false⟩
        | _ => none
    | _ => none
  | .sync t =>
    match s.pc t with
    | .sync (.first _) q a => if rd s t a ≠ 0 then some ⟨t, .first q, .node (rd s t a) false⟩ else none
    | .sync (.next _) q a => if rd s t a ≠ 0 then some ⟨t, .next q a, .node (rd s t a) false⟩ else none
    | _ => none
  | .nx1 t =>
    match s.pc t with
    | .nx1 q a _ => if rd s t a ≠ 0 then some ⟨t, .next q a, .node (rd s t a) false⟩ else none
    | _ => none
  | .nx2 t =>
    match s.pc t with
    | .nx2 q a _ => if s.tail q = a then some ⟨t, .next q a, .null⟩ else none
    | _ => none
  | .d4 t =>
    match s.pc t with
    | .d4 q nd _ => if s.tail q = nd then some ⟨t, .deq q, .node nd true⟩ else none
    | _ => none
  | .d6 t =>
    match s.pc t with
    | .d6 q nd _ => some ⟨t, .deq q, .node nd false⟩
    | _ => none
  | .s4 t =>
    match s.pc t with
    | .s4 _ src _ => if s.tail src = src then some ⟨t, .spliceOut src, .srcEmpty⟩ else none
    | _ => none
  | .s5 t =>
    match s.pc t with
    | .s5 _ src h => some ⟨t, .spliceOut src, .chain h (s.tail src)⟩
    | _ => none
  | .s6 t =>
    match s.pc t with
    | .s6 dst src _ _ => some ⟨t, .spliceIn dst src, .flag (decide (s.tail dst ≠ dst))⟩
    | _ => none
  | _ => none

/-- reachability together with the history of linearisation events (newest first) -/
inductive ReachH : State → List Ev → Prop
  | init : ReachH init []
  | step {s s' l h} : ReachH s h → step s l = some s' → ReachH s' ((ev s l).toList ++ h)

theorem ReachH.reach {s h} (r : ReachH s h) : Reach s := by
  induction r with
  | init => exact Reach.init
  | step _ st ih => exact Reach.step ih st

theorem Reach.hist {s} (r : Reach s) : ∃ h, ReachH s h := by
  induction r with
  | init => exact ⟨[], ReachH.init⟩
  | step _ st ih => obtain ⟨h, ih⟩ := ih; exact ⟨_, ReachH.step ih st⟩

/-- the abstract state of the model as a state of the specification -/
def State.q (s : State) : Q := ⟨s.abs, s.limbo⟩

/-! ### chain lemmas for first / next -/

theorem succOf_notin (a : Nat) (l : List Nat) (h : a ∉ l) : succOf a l = none := by
  induction l with
  | nil => rfl
  | cons x l ih =>
    simp only [List.mem_cons, not_or] at h
    simp [succOf, Ne.symm h.1, ih h.2]

/-- in a duplicate-free chain the successor in the list is the abstract successor function -/
theorem succOf_linked (f : Nat → Nat) (p a : Nat) (l : List Nat) (hl : Linked f p l) (hn : l.Nodup) (ha : a ∈ l) :
    (a = lastOf p l ∧ succOf a l = none) ∨ (succOf a l = some (f a) ∧ f a ∈ l) := by
  induction l generalizing p with
  | nil => simp at ha
  | cons x l ih =>
    have hn' := (List.nodup_cons.1 hn).2
    have hx := (List.nodup_cons.1 hn).1
    by_cases e : x = a
    · subst e
      cases l with
      | nil => left; simp [succOf]
      | cons y m => right; simp only [Linked_cons] at hl; simp [succOf, hl.2.1]
    · have ha' : a ∈ l := by simpa [Ne.symm e] using ha
      rcases ih x hl.2 hn' ha' with ⟨h1, h2⟩ | ⟨h1, h2⟩
      · left; exact ⟨by simpa using h1, by simp [succOf, e, h2]⟩
      · right; exact ⟨by simp [succOf, e, h1], by simp [h2]⟩

/-- what `first` / `next` see in the chain of queue `q` -/
theorem abs_succ {s : State} (A : AbsInv s) {q a : Nat} (hq : isQ q) (ha : a ∈ s.abs q) :
    (a = s.tail q ∧ succOf a (s.abs q) = none) ∨ (succOf a (s.abs q) = some (s.lnx a) ∧ 3 ≤ s.lnx a) := by
  rcases succOf_linked s.lnx q a (s.abs q) (A.linked q hq) (abs_nodup A hq) ha with ⟨h1, h2⟩ | ⟨h1, h2⟩
  · left; exact ⟨by rw [h1, A.last q hq], h2⟩
  · right; exact ⟨h1, (A.nodes _ (mem_abs_all hq h2)).1⟩

/-- the head of a non-empty chain -/
theorem abs_head {s : State} (A : AbsInv s) {q : Nat} (hq : isQ q) (hne : s.abs q ≠ []) :
    ∃ l, s.abs q = s.lnx q :: l := by
  have hlk := A.linked q hq
  cases hab : s.abs q with
  | nil => exact absurd hab hne
  | cons a l => rw [hab] at hlk; exact ⟨l, by rw [hlk.1]⟩


/-- a step is a stutter of the specification or exactly the sequential operation of its event,
with the result the implementation computed -/
def Refines (s s' : State) : Option Ev → Prop
  | none => s'.abs = s.abs ∧ s'.limbo = s.limbo
  | some e => e.op.wf ∧ e.res = (apply s.q e.op).2 ∧ s'.q = (apply s.q e.op).1

theorem isEmpty_false_of_ne {l : List Nat} (h : l ≠ []) : l.isEmpty = false := by
  cases l <;> simp_all

theorem ref_enqXchg {s s' : State} (I : Inv s) (t q n) (st : step s (.enqXchg t q n) = some s') :
    Refines s s' (ev s (.enqXchg t q n)) := by
  simp only [step] at st
  split at st <;> try (simp at st; done)
  rename_i hg
  simp only [Option.some.injEq] at st; subst st
  obtain ⟨hpc, hq, hn3, -⟩ := hg
  refine ⟨⟨hq, hn3⟩, ?_, rfl⟩
  simp only [ev, apply, State.q]
  have := abs_nil_iff I.a q hq
  by_cases e : s.tail q = q
  · simp [e, this.2 e]
  · have h2 : s.abs q ≠ [] := fun h => e (this.1 h)
    simp [e, isEmpty_false_of_ne h2]

theorem ref_ld1 {s s' : State} (I : Inv s) (t) (st : step s (.ld1 t) = some s') : Refines s s' (ev s (.ld1 t)) := by
  simp only [step] at st
  split at st <;> try (simp at st; done)
  rename_i k q hpc
  simp only [Option.some.injEq] at st; subst st
  have hp := I.p.ok t; rw [hpc] at hp
  simp only [ev, hpc]
  cases k <;> try exact ⟨rfl, rfl⟩
  simp only
  split
  · rename_i hv
    have hq : isQ q := hp
    have := rd_head_any I t q hq hv
    exact ⟨hq, by simp [apply, State.q, isEmpty_false_of_ne this], rfl⟩
  · exact ⟨rfl, rfl⟩

theorem ref_ld2 {s s' : State} (I : Inv s) (t) (st : step s (.ld2 t) = some s') : Refines s s' (ev s (.ld2 t)) := by
  simp only [step] at st
  split at st <;> try (simp at st; done)
  rename_i k q hpc
  simp only [Option.some.injEq] at st; subst st
  have hp := I.p.ok t; rw [hpc] at hp
  simp only [ev, hpc]
  have hq : isQ q := by cases k <;> simp only [PcOk, EOk, Cons] at hp <;> first | exact hp | exact hp.1 | exact hp.1.1 | exact hp.elim
  have hiff := abs_nil_iff I.a q hq
  split
  · rename_i htl
    have he := hiff.2 htl
    cases k <;> simp only [emptyEv] <;> first
      | exact ⟨rfl, rfl⟩
      | exact ⟨hq, by simp [apply, State.q, he], by simp [apply, State.q, he, setPc]⟩
  · rename_i htl
    have hne : s.abs q ≠ [] := fun h => htl (hiff.1 h)
    cases k <;> first
      | exact ⟨rfl, rfl⟩
      | exact ⟨hq, by simp [apply, State.q, isEmpty_false_of_ne hne], rfl⟩

theorem node_ge {s : State} (A : AbsInv s) {q a : Nat} (hq : isQ q) (h : a ∈ s.abs q) : 3 ≤ a :=
  (A.nodes a (mem_abs_all hq h)).1

/-- `next(a)` read a non-NULL successor: it is the element after `a` in the abstract queue -/
theorem next_got {s : State} (I : Inv s) {t q a : Nat} (hq : isQ q) (ha : a ∈ s.abs q) (hv : rd s t a ≠ 0) :
    succOf a (s.abs q) = some (rd s t a) := by
  have h3 := node_ge I.a hq ha
  have hr := rd_node I.m t a h3 hv
  rcases abs_succ I.a hq ha with ⟨h1, -⟩ | ⟨h1, -⟩
  · exfalso; have := I.a.lnxtail q hq; rw [← h1] at this; rw [hr] at hv; exact hv this
  · rw [hr]; exact h1

theorem ref_sync {s s' : State} (I : Inv s) (t) (st : step s (.sync t) = some s') : Refines s s' (ev s (.sync t)) := by
  simp only [step] at st
  split at st <;> try (simp at st; done)
  rename_i k q a hpc
  have hp := I.p.ok t; rw [hpc] at hp
  have hsame : s'.abs = s.abs ∧ s'.limbo = s.limbo := by
    split at st
    · simp only [Option.some.injEq] at st; subst st; exact ⟨rfl, rfl⟩
    · split at st <;> (simp only [Option.some.injEq] at st; subst st; exact ⟨rfl, rfl⟩)
  simp only [ev, hpc]
  cases k with
  | empty => exact hsame
  | deq b => exact hsame
  | splice d b => exact hsame
  | first b =>
    simp only
    split
    · rename_i hv
      obtain ⟨rfl, hc⟩ := hp
      obtain ⟨hhd, -⟩ := rd_head_cons I t a hc hv
      obtain ⟨l, hl⟩ := abs_head I.a hc.1 hhd.2.2.1
      rw [hhd.2.2.2.1] at hl
      refine ⟨hc.1, by simp [apply, State.q, hl], ?_⟩
      simp only [apply, State.q, hl]
      rw [show s'.abs = s.abs from hsame.1, show s'.limbo = s.limbo from hsame.2]
    · exact hsame
  | next b =>
    simp only
    split
    · rename_i hv
      obtain ⟨hq, hl, ha⟩ := hp
      have := next_got I hq ha hv
      refine ⟨hq, by simp [apply, State.q, this], ?_⟩
      simp only [apply, State.q, this]
      rw [show s'.abs = s.abs from hsame.1, show s'.limbo = s.limbo from hsame.2]
    · exact hsame

theorem ref_nx1 {s s' : State} (I : Inv s) (t) (st : step s (.nx1 t) = some s') : Refines s s' (ev s (.nx1 t)) := by
  simp only [step] at st
  split at st <;> try (simp at st; done)
  rename_i q a b hpc
  simp only [Option.some.injEq] at st; subst st
  have hp := I.p.ok t; rw [hpc] at hp
  obtain ⟨hq, hl, ha⟩ := hp
  simp only [ev, hpc]
  split
  · rename_i hv
    have := next_got I hq ha hv
    exact ⟨hq, by simp [apply, State.q, this], by simp [apply, State.q, this, setPc]⟩
  · exact ⟨rfl, rfl⟩

theorem ref_nx2 {s s' : State} (I : Inv s) (t) (st : step s (.nx2 t) = some s') : Refines s s' (ev s (.nx2 t)) := by
  simp only [step] at st
  split at st <;> try (simp at st; done)
  rename_i q a b hpc
  simp only [Option.some.injEq] at st; subst st
  have hp := I.p.ok t; rw [hpc] at hp
  obtain ⟨hq, hl, ha⟩ := hp
  simp only [ev, hpc]
  split
  · rename_i htl
    have : succOf a (s.abs q) = none := by
      rcases abs_succ I.a hq ha with ⟨-, h2⟩ | ⟨-, h2⟩
      · exact h2
      · exfalso; have := I.a.lnxtail q hq; rw [htl] at this; omega
    exact ⟨hq, by simp [apply, State.q, this], by simp [apply, State.q, this, setPc]⟩
  · exact ⟨rfl, rfl⟩

theorem ref_d4 {s s' : State} (I : Inv s) (t) (st : step s (.d4 t) = some s') : Refines s s' (ev s (.d4 t)) := by
  simp only [step] at st
  split at st <;> try (simp at st; done)
  rename_i q nd b hpc
  have hp := I.p.ok t; rw [hpc] at hp
  obtain ⟨hhd, hhc⟩ := hp
  split at st <;> try (simp at st; done)
  simp only [ev, hpc]
  split at st
  · rename_i htl
    simp only [Option.some.injEq] at st; subst st
    obtain ⟨l, hab, hnd3, -, -⟩ := hd_facts I hhd
    have hq := hhd.1
    have hls := I.a.last q hq; rw [hab] at hls
    have hl : l = [] := by
      have hn := abs_nodup I.a hq; rw [hab] at hn
      simp only [lastOf_cons] at hls
      exact lastOf_eq_head nd l hn (by rw [hls, htl])
    subst hl
    simp only [htl, if_true]
    exact ⟨hq, by simp [apply, State.q, hab], by simp [apply, State.q, hab]⟩
  · rename_i htl
    simp only [Option.some.injEq] at st; subst st
    simp only [htl, if_false]
    exact ⟨rfl, rfl⟩

theorem ref_d6 {s s' : State} (I : Inv s) (t) (st : step s (.d6 t) = some s') : Refines s s' (ev s (.d6 t)) := by
  simp only [step] at st
  split at st <;> try (simp at st; done)
  rename_i q nd nxt hpc
  simp only [Option.some.injEq] at st; subst st
  have hp := I.p.ok t; rw [hpc] at hp
  obtain ⟨hhd, hnx0, hnx, -⟩ := hp
  obtain ⟨l, hab, hnd3, -, -⟩ := hd_facts I hhd
  have hq := hhd.1
  have hlk2 := I.a.linked q hq; rw [hab] at hlk2
  have hls := I.a.last q hq; rw [hab] at hls
  have hlt := I.a.lnxtail q hq
  obtain ⟨b, m, hl⟩ : ∃ b m, l = b :: m := by
    cases l with
    | nil => simp at hls; rw [← hls] at hlt; rw [hlt] at hnx; exact absurd hnx hnx0
    | cons b m => exact ⟨b, m, rfl⟩
  subst hl
  simp only [ev, hpc]
  exact ⟨hq, by simp [apply, State.q, hab], by simp [apply, State.q, hab]⟩

theorem ref_s4 {s s' : State} (I : Inv s) (t) (st : step s (.s4 t) = some s') : Refines s s' (ev s (.s4 t)) := by
  simp only [step] at st
  split at st <;> try (simp at st; done)
  rename_i dst src b hpc
  simp only [Option.some.injEq] at st; subst st
  have hp := I.p.ok t; rw [hpc] at hp
  obtain ⟨⟨hs, -, -⟩, -, -⟩ := hp
  simp only [ev, hpc]
  split
  · rename_i htl
    have he := (abs_nil_iff I.a src hs).2 htl
    exact ⟨hs, by simp [apply, State.q, he], by simp [apply, State.q, he, setPc]⟩
  · exact ⟨rfl, rfl⟩

theorem ref_s5 {s s' : State} (I : Inv s) (t) (st : step s (.s5 t) = some s') : Refines s s' (ev s (.s5 t)) := by
  simp only [step] at st
  split at st <;> try (simp at st; done)
  rename_i dst src h hpc
  have hp := I.p.ok t; rw [hpc] at hp
  obtain ⟨hd, hs, hne, hlk, hhc, hh, hh0, hnx, hwn, hpn⟩ := hp
  split at st <;> try (simp at st; done)
  simp only [Option.some.injEq] at st; subst st
  have hab : s.abs src ≠ [] := by
    intro he; have := I.m.empty_ok src hs he; rw [hhc] at this; simp at this
  have hlim : s.limbo src = [] := limbo_nil_of_pc I hs hlk (by rw [hpc]; simp [inS6])
  obtain ⟨l, hl⟩ := abs_head I.a hs hab
  have hls := I.a.last src hs; rw [hl] at hls
  simp only [lastOf_cons] at hls
  simp only [ev, hpc]
  refine ⟨hs, by simp [apply, State.q, hl, hh, hls], ?_⟩
  simp only [apply, State.q, hl, hlim, List.nil_append]

theorem ref_s6 {s s' : State} (I : Inv s) (t) (st : step s (.s6 t) = some s') : Refines s s' (ev s (.s6 t)) := by
  simp only [step] at st
  split at st <;> try (simp at st; done)
  rename_i dst src h tl hpc
  have hp := I.p.ok t; rw [hpc] at hp
  obtain ⟨hd, hs, hne, -⟩ := hp
  split at st <;> try (simp at st; done)
  simp only [Option.some.injEq] at st; subst st
  simp only [ev, hpc]
  refine ⟨⟨hd, hs, hne⟩, ?_, rfl⟩
  simp only [apply, State.q]
  have := abs_nil_iff I.a dst hd
  by_cases e : s.tail dst = dst
  · simp [e, this.2 e]
  · have h2 : s.abs dst ≠ [] := fun h => e (this.1 h)
    simp [e, isEmpty_false_of_ne h2]

/-- **every step refines the sequential specification** -/
theorem step_refines {s s' : State} {l : Label} (I : Inv s) (st : step s l = some s') : Refines s s' (ev s l) := by
  cases l with
  | enqXchg t q n => exact ref_enqXchg I t q n st
  | ld1 t => exact ref_ld1 I t st
  | ld2 t => exact ref_ld2 I t st
  | sync t => exact ref_sync I t st
  | nx1 t => exact ref_nx1 I t st
  | nx2 t => exact ref_nx2 I t st
  | d4 t => exact ref_d4 I t st
  | d6 t => exact ref_d6 I t st
  | s4 t => exact ref_s4 I t st
  | s5 t => exact ref_s5 I t st
  | s6 t => exact ref_s6 I t st
  | flush t =>
    simp only [step] at st; split at st <;> simp at st; subst st; exact ⟨rfl, rfl⟩
  | fence t =>
    simp only [step] at st; split at st <;> simp at st; subst st; exact ⟨rfl, rfl⟩
  | acquire t q =>
    simp only [step] at st; split at st <;> simp at st; subst st; exact ⟨rfl, rfl⟩
  | release t q =>
    simp only [step] at st; split at st <;> simp at st; subst st; exact ⟨rfl, rfl⟩
  | stIssue t =>
    simp only [step] at st; split at st <;> simp at st; subst st; exact ⟨rfl, rfl⟩
  | callEmpty t q =>
    simp only [step] at st; split at st <;> simp at st; subst st; exact ⟨rfl, rfl⟩
  | callFirst t q b =>
    simp only [step] at st; split at st <;> simp at st; subst st; exact ⟨rfl, rfl⟩
  | callNext t q a b =>
    simp only [step] at st; split at st <;> simp at st; subst st; exact ⟨rfl, rfl⟩
  | callDeq t q b =>
    simp only [step] at st; split at st <;> simp at st; subst st; exact ⟨rfl, rfl⟩
  | callSplice t dst src b =>
    simp only [step] at st; split at st <;> simp at st; subst st; exact ⟨rfl, rfl⟩
  | d2 t =>
    simp only [step] at st; split at st <;> simp at st; subst st; exact ⟨rfl, rfl⟩
  | d3 t =>
    simp only [step] at st; split at st <;> simp at st; subst st; exact ⟨rfl, rfl⟩
  | d7 t =>
    simp only [step] at st; split at st <;> simp at st; subst st; exact ⟨rfl, rfl⟩
  | s3 t =>
    simp only [step] at st; split at st <;> try (simp at st; done)
    split at st <;> try (simp at st; done)
    split at st <;> (simp only [Option.some.injEq] at st; subst st; exact ⟨rfl, rfl⟩)
  | ret t =>
    simp only [step] at st; split at st <;> simp at st; subst st; exact ⟨rfl, rfl⟩

/-- **linearizability**: the recorded history is a legal sequential history of the specification
ending in the abstract state of the model -/
theorem hist_valid {s : State} {h : List Ev} (r : ReachH s h) : Valid h s.q := by
  induction r with
  | init => exact Valid.nil
  | step r st ih =>
    rename_i s s' l h
    have := step_refines (inv_reach r.reach) st
    cases he : ev s l with
    | none =>
      rw [he] at this
      simp only [Option.toList, List.nil_append]
      have e : s'.q = s.q := by simp only [State.q, this.1, this.2]
      rw [e]; exact ih
    | some e =>
      rw [he] at this
      simp only [Option.toList, List.cons_append, List.nil_append]
      exact Valid.cons ih this.1 this.2.1 this.2.2

end UrcuVerif.Wfcq
