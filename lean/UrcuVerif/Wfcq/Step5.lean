import UrcuVerif.Wfcq.Step4
set_option linter.unusedVariables false
set_option linter.unusedSimpArgs false
/-! Inductive step, part 5: the dequeuer's stores to `head.next` and its `cmpxchg` of the tail. -/
namespace UrcuVerif.Wfcq

/-! generic bookkeeping for a step of thread `t` that moves its pc to `p` (not an append pc) -/

theorem enq_inj_upd {pc : Nat → Pc} (p3 : ∀ t u a, pendOld (pc t) = some a → pendOld (pc u) = some a → t = u)
    (t : Nat) (p : Pc) (hp : pendOld p = none) :
    ∀ u v a, pendOld (upd pc t p u) = some a → pendOld (upd pc t p v) = some a → u = v := by
  intro u v a h1 h2
  simp only [upd] at h1 h2
  by_cases hu : u = t
  · simp [hu, hp] at h1
  · by_cases hv : v = t
    · simp [hv, hp] at h2
    · simp only [hu, hv, if_false] at h1 h2; exact p3 u v a h1 h2

@[simp] theorem issue_next (s : State) (t a v) : (issue s t a v).next = s.next := rfl
@[simp] theorem issue_tail (s : State) (t a v) : (issue s t a v).tail = s.tail := rfl
@[simp] theorem issue_buf (s : State) (t a v) : (issue s t a v).buf = upd s.buf t (s.buf t ++ [(a, v)]) := rfl
@[simp] theorem issue_lock (s : State) (t a v) : (issue s t a v).lock = s.lock := rfl
@[simp] theorem issue_pc (s : State) (t a v) : (issue s t a v).pc = s.pc := rfl
@[simp] theorem issue_abs (s : State) (t a v) : (issue s t a v).abs = s.abs := rfl
@[simp] theorem issue_limbo (s : State) (t a v) : (issue s t a v).limbo = s.limbo := rfl
@[simp] theorem issue_lnx (s : State) (t a v) : (issue s t a v).lnx = s.lnx := rfl
@[simp] theorem issue_inq (s : State) (t a v) : (issue s t a v).inq = s.inq := rfl
@[simp] theorem issue_hclr (s : State) (t a v) : (issue s t a v).hclr = s.hclr := rfl
@[simp] theorem issue_pnd (s : State) (t a v) : (issue s t a v).pnd = s.pnd := rfl
@[simp] theorem issue_wr (s : State) (t a v) : (issue s t a v).wr = upd s.wr a (some t) := rfl

/-- the old tail a splicer holds in `s6` is a node -/
theorem s6_tl_node {s : State} (A : AbsInv s) {q h : Nat} (hq : isQ q) (h1 : s.limbo q ≠ []) (h2 : (s.limbo q).headD 0 = h) :
    3 ≤ lastOf h (s.limbo q).tail ∧ lastOf h (s.limbo q).tail ∈ s.limbo q :=
  ⟨(A.nodes _ (mem_limbo_all hq (s6_tl_mem _ h h1 h2))).1, s6_tl_mem _ h h1 h2⟩

theorem isQ_lt {q : Nat} (h : isQ q) : q < 3 := by rcases h with rfl | rfl <;> omega

/-- facts the consumer knows when it holds the first node `nd` -/
theorem hd_facts {s : State} (I : Inv s) {t q nd : Nat} (h : Hd s t q nd) :
    ∃ l, s.abs q = nd :: l ∧ 3 ≤ nd ∧ s.tail q ≠ q ∧ (∀ q', isQ q' → s.tail q' ≠ q) := by
  obtain ⟨hq, hl, hne, hx, -, -⟩ := h
  have hlk := I.a.linked q hq
  cases hab : s.abs q with
  | nil => exact absurd hab hne
  | cons a l =>
    rw [hab] at hlk
    have : a = nd := by rw [← hx, hlk.1]
    subst this
    refine ⟨l, rfl, (I.a.nodes a (mem_abs_all hq (by simp [hab]))).1, ?_, ?_⟩
    · intro e; have := (abs_nil_iff I.a q hq).2 e; rw [hab] at this; simp at this
    · intro q' hq' e
      by_cases e2 : q' = q
      · subst e2; have := (abs_nil_iff I.a q' hq).2 e; rw [hab] at this; simp at this
      · have := tail_mem_cons I.a hq'
        rw [e] at this
        simp only [List.mem_cons] at this
        rcases this with h | h
        · exact e2 h.symm
        · exact q_notin_abs I.a hq hq' h

theorem inv_d3 {s s' : State} (I : Inv s) (t) (st : step s (.d3 t) = some s') : Inv s' := by
  simp only [step] at st
  split at st <;> try (simp at st; done)
  rename_i q nd b hpc
  simp only [Option.some.injEq] at st
  have hp := I.p.ok t; rw [hpc] at hp
  obtain ⟨hhd, hhc⟩ := hp
  obtain ⟨l, hab, hnd3, htq, htq'⟩ := hd_facts I hhd
  obtain ⟨hq, hlk, hne, hlx, hpq, hwq⟩ := hhd
  obtain ⟨A, M, P⟩ := I
  subst st
  refine ⟨absInv_frame A rfl rfl rfl rfl rfl, ?_, ?_⟩
  · obtain ⟨m1, m2, m3, m4, m5, m6, m7, m8, m9, m10, m11, m12, m13⟩ := M
    have hq3 := @isQ_lt
    have hbuf : ∀ u v, (q, v) ∈ s.buf u → u = t := by
      intro u v h; have := m1 u q v h; rcases hwq with h2 | h2 <;> rw [h2] at this <;> simp at this; exact this.symm
    have hlfm : ∀ u a v, lastFor (s.buf u) a = some v → (a, v) ∈ s.buf u := fun u a v h => lastFor_mem _ _ _ h
    constructor
    all_goals (try (simp only [issue_next, issue_tail, issue_buf, issue_lock, issue_pc, issue_abs, issue_limbo, issue_lnx, issue_inq, issue_hclr, issue_pnd, issue_wr, upd, exp] at * ; grind [lastFor_snoc, cnt_snoc, List.mem_append]))

  · obtain ⟨p1, p2, p3, p4, p5, p6⟩ := P
    have hq3 := @isQ_lt
    have hs6 := fun q h => @s6_tl_node s A q h
    constructor
    · intro u
      by_cases hut : u = t
      · subst hut; simp [upd, PcOk, Hd, hq, hlk, hne, hlx, hpq]
      · have hu := p1 u
        show PcOk _ u (upd s.pc t _ u)
        simp only [upd, hut, if_false]
        generalize s.pc u = pcu at hu
        cases pcu <;> (try cases ‹K›) <;>
          simp only [PcOk, EOk, SyncOk, Cons, Hd, upd, issue_next, issue_tail, issue_buf, issue_lock, issue_pc, issue_abs, issue_limbo, issue_lnx, issue_inq, issue_hclr, issue_pnd, issue_wr] at hu ⊢ <;>
          first
          | grind
          | skip
    · exact p2
    · exact enq_inj_upd p3 t _ rfl
    · intro q' hq'
      simp only [upd] at hq' ⊢
      by_cases e : q' = q
      · subst e
        refine ⟨by simp [hlk], ?_⟩
        intro u hu; simp [hlk] at hu; subst hu; simp [inWin]
      · simp only [e, if_false] at hq'
        refine ⟨(p4 q' hq').1, ?_⟩
        intro u hu
        have := (p4 q' hq').2 u hu
        by_cases hut : u = t
        · subst hut; rw [hpc] at this; simp only [inWin] at this
        · simpa [hut] using this
    · intro q' hq' hl
      refine ⟨(p5 q' hq' hl).1, ?_⟩
      intro u hu
      have := (p5 q' hq' hl).2 u hu
      simp only [upd]
      by_cases hut : u = t
      · subst hut; rw [hpc] at this; exact this.elim
      · simpa [hut] using this
    · exact p6

theorem inv_d7 {s s' : State} (I : Inv s) (t) (st : step s (.d7 t) = some s') : Inv s' := by
  simp only [step] at st
  split at st <;> try (simp at st; done)
  rename_i q nd hpc
  simp only [Option.some.injEq] at st
  have hp := I.p.ok t; rw [hpc] at hp
  obtain ⟨hhd, hhc⟩ := hp
  obtain ⟨l, hab, hnd3, htq, htq'⟩ := hd_facts I hhd
  obtain ⟨hq, hlk, hne, hlx, hpq, hwq⟩ := hhd
  obtain ⟨A, M, P⟩ := I
  subst st
  refine ⟨absInv_frame A rfl rfl rfl rfl rfl, ?_, ?_⟩
  · obtain ⟨m1, m2, m3, m4, m5, m6, m7, m8, m9, m10, m11, m12, m13⟩ := M
    have hq3 := @isQ_lt
    have hbuf : ∀ u v, (q, v) ∈ s.buf u → u = t := by
      intro u v h; have := m1 u q v h; rcases hwq with h2 | h2 <;> rw [h2] at this <;> simp at this; exact this.symm
    have hlfm : ∀ u a v, lastFor (s.buf u) a = some v → (a, v) ∈ s.buf u := fun u a v h => lastFor_mem _ _ _ h
    constructor
    all_goals (try (simp only [issue_next, issue_tail, issue_buf, issue_lock, issue_pc, issue_abs, issue_limbo, issue_lnx, issue_inq, issue_hclr, issue_pnd, issue_wr, upd, exp] at * ; grind [lastFor_snoc, cnt_snoc, List.mem_append]))

  · obtain ⟨p1, p2, p3, p4, p5, p6⟩ := P
    have hq3 := @isQ_lt
    have hs6 := fun q h => @s6_tl_node s A q h
    constructor
    · intro u
      by_cases hut : u = t
      · subst hut; simp [upd, PcOk]
      · have hu := p1 u
        show PcOk _ u (upd s.pc t _ u)
        simp only [upd, hut, if_false]
        generalize s.pc u = pcu at hu
        cases pcu <;> (try cases ‹K›) <;>
          simp only [PcOk, EOk, SyncOk, Cons, Hd, upd, issue_next, issue_tail, issue_buf, issue_lock, issue_pc, issue_abs, issue_limbo, issue_lnx, issue_inq, issue_hclr, issue_pnd, issue_wr] at hu ⊢ <;>
          first
          | grind
          | skip
    · exact p2
    · exact enq_inj_upd p3 t _ rfl
    · intro q' hq'
      simp only [upd] at hq' ⊢
      by_cases e : q' = q
      · subst e; simp at hq'
      · simp only [e, if_false] at hq'
        refine ⟨(p4 q' hq').1, ?_⟩
        intro u hu
        have := (p4 q' hq').2 u hu
        by_cases hut : u = t
        · subst hut; rw [hpc] at this; simp only [inWin] at this; exact absurd this.symm e
        · simpa [hut] using this
    · intro q' hq' hl
      refine ⟨(p5 q' hq' hl).1, ?_⟩
      intro u hu
      have := (p5 q' hq' hl).2 u hu
      simp only [upd]
      by_cases hut : u = t
      · subst hut; rw [hpc] at this; exact this.elim
      · simpa [hut] using this
    · exact p6


/-- removing the first node `nd` of queue `q` (dequeue) preserves the abstract invariant -/
theorem absInv_pop {s s' : State} (A : AbsInv s) {q nd : Nat} {l : List Nat} (hq : isQ q)
    (hab : s.abs q = nd :: l)
    (h1 : s'.abs = upd s.abs q l) (h2 : s'.limbo = s.limbo) (h3 : s'.lnx = upd s.lnx q (s.lnx nd))
    (h4 : ∀ q', s'.tail q' = if q' = q ∧ l = [] then q else s.tail q')
    (h5 : s'.inq = upd s.inq nd false) : AbsInv s' := by
  obtain ⟨a1, a2, a3, a4, a5, a6, a7⟩ := A
  have A : AbsInv s := ⟨a1, a2, a3, a4, a5, a6, a7⟩
  have hlk := a1 q hq; rw [hab] at hlk
  have hls := a2 q hq; rw [hab] at hls
  have hnd : nd ∈ s.abs q := by rw [hab]; simp
  have hcn : ∀ x, (l.count x) + (if nd = x then 1 else 0) = (s.abs q).count x := by
    intro x; rw [hab, List.count_cons]; by_cases e : nd = x <;> simp [e]
  have hndl : nd ∉ l := by
    have := abs_nodup A hq; rw [hab] at this; exact (List.nodup_cons.1 this).1
  have hql : q ∉ l := fun h => q_notin_abs A hq hq (by rw [hab]; simp [h])
  have hl : ∀ x, x ∈ l ↔ (x ∈ s.abs q ∧ x ≠ nd) := by
    intro x; rw [hab]; simp only [List.mem_cons]
    constructor
    · intro h; exact ⟨Or.inr h, fun e => hndl (e ▸ h)⟩
    · rintro ⟨h | h, h2⟩
      · exact absurd h h2
      · exact h
  have hmem : ∀ x, x ∈ allNodes s' ↔ (x ∈ allNodes s ∧ x ≠ nd) := by
    intro x
    rw [mem_all_iff, mem_all_iff, h1, h2]
    have d1 := fun q' hq' hne => @abs_disj s A q q' hq hq' hne nd hnd
    have d2 := fun q' hq' => @abs_limbo_disj s A q q' hq hq' nd hnd
    rcases hq with rfl | rfl
    · have := d1 2 (Or.inr rfl) (by decide); have := d2 1 (Or.inl rfl); have := d2 2 (Or.inr rfl)
      simp only [upd]; simp [hl]; grind
    · have := d1 1 (Or.inl rfl) (by decide); have := d2 1 (Or.inl rfl); have := d2 2 (Or.inr rfl)
      simp only [upd]; simp [hl]; grind
  constructor
  · intro q' hq'
    rw [h1, h3]
    by_cases e : q' = q
    · subst e
      simp only [upd, if_true]
      cases l with
      | nil => simp
      | cons b m =>
        simp only [Linked_cons] at hlk ⊢
        refine ⟨by simp [hlk.2.1], ?_⟩
        rw [Linked_upd_notin _ _ _ _ _ hql]
        exact hlk.2.2
    · simp only [upd, e, if_false]
      rw [Linked_upd_notin]
      · exact a1 q' hq'
      · exact chain_disj A hq hq' (Ne.symm e) (by simp)
  · intro q' hq'
    rw [h1, h4]
    by_cases e : q' = q
    · subst e
      cases l with
      | nil => simp [upd]
      | cons b m => simpa [upd] using hls
    · simp [upd, e, a2 q' hq']
  · intro q' hq'
    rw [h3, h4]
    by_cases e : q' = q
    · subst e
      cases l with
      | nil => simp at hls; simp [upd, hls, a3 q' hq]
      | cons b m =>
        have : s.tail q' ≠ q' := by
          intro e2; have := (abs_nil_iff A q' hq).2 e2; rw [hab] at this; simp at this
        simp [upd, this, a3 q' hq]
    · have : s.tail q' ≠ q := by
        intro e2; have := tail_mem_cons A hq'; rw [e2] at this
        exact chain_disj A hq hq' (Ne.symm e) (by simp) this
      simp [upd, e, this, a3 q' hq']
  · intro x hx
    have hx' := (hmem x).1 hx
    refine ⟨(a4 x hx'.1).1, ?_⟩
    rw [h5]; simp [upd, hx'.2, (a4 x hx'.1).2]
  · apply nodup_of_cnt
    intro x
    rw [h1, h2]
    have c1 := A.cnt1 x
    have c2 := hcn x
    rcases hq with rfl | rfl <;> simp only [upd] <;> simp <;> split at c2 <;> omega
  · intro x hx
    rw [h5] at hx
    simp only [upd] at hx
    have hxn : x ≠ nd := by intro e; simp [e] at hx
    simp only [hxn, if_false] at hx
    exact (hmem x).2 ⟨a6 x hx, hxn⟩
  · intro q' hq'
    rw [h2, h3, limboOk_upd_notin]
    · exact a7 q' hq'
    · exact q_notin_limbo A hq hq'


theorem inv_d6 {s s' : State} (I : Inv s) (t) (st : step s (.d6 t) = some s') : Inv s' := by
  simp only [step] at st
  split at st <;> try (simp at st; done)
  rename_i q nd nxt hpc
  simp only [Option.some.injEq] at st
  have hp := I.p.ok t; rw [hpc] at hp
  obtain ⟨hhd, hnx0, hnx, hpnd⟩ := hp
  obtain ⟨l, hab, hnd3, htq, htq'⟩ := hd_facts I hhd
  obtain ⟨hq, hlk, hne, hlx, hpq, hwq⟩ := hhd
  have hlim : s.limbo q = [] := by
    cases h : s.limbo q with
    | nil => rfl
    | cons a l =>
      have := (I.p.limbo_win q hq (by simp [h])).2 t hlk
      rw [hpc] at this; exact this.elim
  obtain ⟨A, M, P⟩ := I
  -- the queue has a second node
  have hlk2 := A.linked q hq; rw [hab] at hlk2
  have hls := A.last q hq; rw [hab] at hls
  have hlt := A.lnxtail q hq
  obtain ⟨b, m, hl, hb⟩ : ∃ b m, l = b :: m ∧ s.lnx nd = b := by
    cases l with
    | nil => simp at hls; rw [← hls] at hlt; rw [hlt] at hnx; exact absurd hnx hnx0
    | cons b m => exact ⟨b, m, rfl, hlk2.2.1⟩
  subst hl
  subst st
  refine ⟨?_, ?_, ?_⟩
  · exact absInv_pop A hq hab (l := b :: m) (by show upd s.abs q (s.abs q).tail = _; rw [hab]; rfl) rfl
      (by show upd s.lnx q nxt = _; rw [hnx]) (by intro q'; simp) rfl
  · obtain ⟨m1, m2, m3, m4, m5, m6, m7, m8, m9, m10, m11, m12, m13⟩ := M
    have hq3 := @isQ_lt
    have hbuf : ∀ u v, (q, v) ∈ s.buf u → u = t := by
      intro u v h; have := m1 u q v h; rcases hwq with h2 | h2 <;> rw [h2] at this <;> simp at this; exact this.symm
    have hlfm : ∀ u a v, lastFor (s.buf u) a = some v → (a, v) ∈ s.buf u := fun u a v h => lastFor_mem _ _ _ h
    constructor
    all_goals (try (simp only [issue_next, issue_tail, issue_buf, issue_lock, issue_pc, issue_abs, issue_limbo, issue_lnx, issue_inq, issue_hclr, issue_pnd, issue_wr, upd, exp] at * ; grind [lastFor_snoc, cnt_snoc, List.mem_append]))
  · obtain ⟨p1, p2, p3, p4, p5, p6⟩ := P
    have hq3 := @isQ_lt
    have hs6 := fun q h => @s6_tl_node s A q h
    have hHd3 : ∀ q' nd', isQ q' → s.abs q' ≠ [] → s.lnx q' = nd' → 3 ≤ nd' := by
      intro q' nd' hq' hne' hx
      have hlk := A.linked q' hq'
      cases hab' : s.abs q' with
      | nil => exact absurd hab' hne'
      | cons a l =>
        rw [hab'] at hlk; rw [← hx, hlk.1]
        exact (A.nodes a (mem_abs_all hq' (by simp [hab']))).1
    constructor
    · intro u
      by_cases hut : u = t
      · subst hut; simp [upd, PcOk]
      · have hu := p1 u
        show PcOk _ u (upd s.pc t _ u)
        simp only [upd, hut, if_false]
        generalize s.pc u = pcu at hu
        cases pcu <;> (try cases ‹K›) <;>
          simp only [PcOk, EOk, SyncOk, Cons, Hd, upd, issue_next, issue_tail, issue_buf, issue_lock, issue_pc, issue_abs, issue_limbo, issue_lnx, issue_inq, issue_hclr, issue_pnd, issue_wr] at hu ⊢ <;>
          first
          | grind
          | skip
    · exact p2
    · exact enq_inj_upd p3 t _ rfl
    · intro q' hq'
      simp only [upd] at hq' ⊢
      by_cases e : q' = q
      · subst e; simp at hq'
      · simp only [e, if_false] at hq'
        refine ⟨(p4 q' hq').1, ?_⟩
        intro u hu
        have := (p4 q' hq').2 u hu
        by_cases hut : u = t
        · subst hut; rw [hpc] at this; simp only [inWin] at this; exact absurd this.symm e
        · simpa [hut] using this
    · intro q' hq' hl
      refine ⟨(p5 q' hq' hl).1, ?_⟩
      intro u hu
      have := (p5 q' hq' hl).2 u hu
      simp only [upd]
      by_cases hut : u = t
      · subst hut; rw [hpc] at this; exact this.elim
      · simpa [hut] using this
    · intro q' hq'
      have : q' ≠ q := fun e => hq' (e ▸ hq)
      simpa [upd, this] using p6 q' hq'


theorem inv_d4 {s s' : State} (I : Inv s) (t) (st : step s (.d4 t) = some s') : Inv s' := by
  simp only [step] at st
  split at st <;> try (simp at st; done)
  rename_i q nd b hpc
  have hp := I.p.ok t; rw [hpc] at hp
  obtain ⟨hhd, hhc⟩ := hp
  split at st <;> try (simp at st; done)
  rename_i hbt
  split at st
  · -- the cmpxchg succeeds: `nd` was the only node
    rename_i htl
    simp only [Option.some.injEq] at st
    obtain ⟨l, hab, hnd3, htq, htq'⟩ := hd_facts I hhd
    obtain ⟨hq, hlk, hne, hlx, hpq, hwq⟩ := hhd
    have hlim : s.limbo q = [] := by
      cases h : s.limbo q with
      | nil => rfl
      | cons a l =>
        have := (I.p.limbo_win q hq (by simp [h])).2 t hlk
        rw [hpc] at this; exact this.elim
    obtain ⟨A, M, P⟩ := I
    have hls := A.last q hq; rw [hab] at hls
    have hlt := A.lnxtail q hq
    have hl : l = [] := by
      have hn := abs_nodup A hq; rw [hab] at hn
      simp only [lastOf_cons] at hls
      exact lastOf_eq_head nd l hn (by rw [hls, htl])
    subst hl
    have hwn : s.wr q = none := by
      rcases hwq with h | h
      · exact h
      · have := M.wr_ent t q h; rw [hbt] at this; simp at this
    have hnq0 : s.next q = 0 := by
      have := M.mem_head q hq hwn hpq; simpa [exp, hq, hhc] using this
    obtain ⟨hk1, hk2, hk3⟩ := M.tail_ok q hq
    rw [htl] at hk1 hk2 hk3 hlt
    subst st
    refine ⟨?_, ?_, ?_⟩
    · exact absInv_pop A hq hab (l := []) (by show upd s.abs q (s.abs q).tail = _; rw [hab]; rfl) rfl
        (by show upd s.lnx q 0 = _; rw [hlt]) (by intro q'; simp [upd]) rfl
    · obtain ⟨m1, m2, m3, m4, m5, m6, m7, m8, m9, m10, m11, m12, m13⟩ := M
      have hq3 := @isQ_lt
      have hlfm : ∀ u a v, lastFor (s.buf u) a = some v → (a, v) ∈ s.buf u := fun u a v h => lastFor_mem _ _ _ h
      constructor
      all_goals (try (simp only [upd, exp] at * ; grind))
    · obtain ⟨p1, p2, p3, p4, p5, p6⟩ := P
      have hq3 := @isQ_lt
      have hs6 := fun q h => @s6_tl_node s A q h
      have hHd3 : ∀ q' nd', isQ q' → s.abs q' ≠ [] → s.lnx q' = nd' → 3 ≤ nd' := by
        intro q' nd' hq' hne' hx
        have hlk := A.linked q' hq'
        cases hab' : s.abs q' with
        | nil => exact absurd hab' hne'
        | cons a l =>
          rw [hab'] at hlk; rw [← hx, hlk.1]
          exact (A.nodes a (mem_abs_all hq' (by simp [hab']))).1
      constructor
      · intro u
        by_cases hut : u = t
        · subst hut; simp [upd, PcOk]
        · have hu := p1 u
          show PcOk _ u (upd s.pc t _ u)
          simp only [upd, hut, if_false]
          generalize s.pc u = pcu at hu
          cases pcu <;> (try cases ‹K›) <;>
            simp only [PcOk, EOk, SyncOk, Cons, Hd, upd] at hu ⊢ <;>
            first
            | grind
            | skip
      · exact p2
      · exact enq_inj_upd p3 t _ rfl
      · intro q' hq'
        simp only [upd] at hq' ⊢
        by_cases e : q' = q
        · subst e; simp at hq'
        · simp only [e, if_false] at hq'
          refine ⟨(p4 q' hq').1, ?_⟩
          intro u hu
          have := (p4 q' hq').2 u hu
          by_cases hut : u = t
          · subst hut; rw [hpc] at this; simp only [inWin] at this; exact absurd this.symm e
          · simpa [hut] using this
      · intro q' hq' hl
        refine ⟨(p5 q' hq' hl).1, ?_⟩
        intro u hu
        have := (p5 q' hq' hl).2 u hu
        simp only [upd]
        by_cases hut : u = t
        · subst hut; rw [hpc] at this; exact this.elim
        · simpa [hut] using this
      · intro q' hq'
        have : q' ≠ q := fun e => hq' (e ▸ hq)
        simpa [upd, this] using p6 q' hq'
  · -- the cmpxchg fails: an enqueue slipped in; wait for the link
    rename_i htl
    simp only [Option.some.injEq] at st; subst st
    have h3 := (hd_node I hhd).1
    have hne : nd ≠ q := by have := isQ_lt hhd.1; omega
    apply inv_setPc' I
    · exact ⟨fun e => absurd e hne, fun _ => ⟨hhd, hhc⟩⟩
    · rfl
    · intro q'; rw [hpc]; simp only [inWin]; intro e; exact ⟨e, e ▸ hne⟩
    · intro q'; rw [hpc]; simp [inS6]

end UrcuVerif.Wfcq
