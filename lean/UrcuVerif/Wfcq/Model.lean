import UrcuVerif.Machine.Upd
/-!
# C10 / C17 — `cds_wfcq` (include/urcu/static/wfcqueue.h) on an explicit x86-TSO machine

L2 model: one step per shared-memory access of the C text that matters (every `uatomic_load`,
`uatomic_store`, `uatomic_xchg`, `uatomic_cmpxchg` on `head->node.next`, `node->next`, `tail->p`).
`Driver/Wfcq.lean` (L1) transliterates the C functions event by event and replays these labels.

* Addresses: `0` = NULL; `1`, `2` = the two queues (a queue is identified with its head node:
  `next q` is `head->node.next`, `tail q` is `tail->p`); nodes are `≥ 3`.  Nodes may be re-used
  after they were dequeued (`enqXchg` re-initialises `next`).
* x86-TSO: every plain/release store to a `next` field goes through the issuing thread's FIFO
  store buffer `buf t` (oldest first) and reaches memory at a later `flush t` step; loads read
  the newest own buffered value, else memory (`rd`).  `xchg`/`cmpxchg`/mutex operations are
  locked: they require an empty own buffer and act on memory.  `tail` is only ever written by
  locked operations.
* any number of threads; every thread may enqueue on either queue and call `empty()`; dequeue,
  first/next, splice-as-source on queue `q` require the consumer role `lock q = some t`
  (the queue's mutex, or – for single-consumer usage – a role acquired once and never released).
* ghost (never read by a guard that corresponds to C code): `abs q` abstract FIFO content,
  `limbo q` nodes taken out of source `q` by a splice and not yet appended to the destination,
  `lnx` abstract successor (set at linearisation points), `inq` node is inside the structure,
  `hclr q` memory `head.next` was cleared by the consumer while the abstract queue is non-empty,
  `pnd a` an enqueuer is between its xchg and the issue of its store to `a.next`,
  `wr a` the thread that has buffered stores to `a.next`.
  The only ghost-reading guards are API-contract preconditions: `enqXchg` (the node is not in a
  queue and no store to it is in flight), `callNext` (the cursor is in the queue).
-/
namespace UrcuVerif.Wfcq

/-- what an API call returns -/
inductive Res
  | bool (b : Bool)                 -- enqueue ("was non-empty"), empty()
  | null                            -- dequeue / first / next: NULL
  | node (n : Nat) (last : Bool)    -- dequeue: node and CDS_WFCQ_STATE_LAST; first/next: node
  | wouldblock                      -- CDS_WFCQ_WOULDBLOCK / CDS_WFCQ_RET_WOULDBLOCK
  | srcEmpty                        -- CDS_WFCQ_RET_SRC_EMPTY
  | dest (nonEmpty : Bool)          -- CDS_WFCQ_RET_DEST_NON_EMPTY / CDS_WFCQ_RET_DEST_EMPTY
  deriving DecidableEq, Repr

/-- the operation that runs the shared `_cds_wfcq_empty` / `___cds_wfcq_node_sync_next` code -/
inductive K
  | empty | first (b : Bool) | next (b : Bool) | deq (b : Bool) | splice (dst : Nat) (b : Bool)
  deriving DecidableEq, Repr

def K.blocking : K → Bool
  | .empty => true | .first b => b | .next b => b | .deq b => b | .splice _ b => b

inductive Pc
  | idle
  | enq (q old n : Nat) (spl : Bool)   -- after xchg tail: the store `old.next := n` is still to be issued
  | e1 (k : K) (q : Nat)               -- `_cds_wfcq_empty`: about to load head.next
  | e2 (k : K) (q : Nat)               --                     about to load tail.p
  | sync (k : K) (q a : Nat)           -- `___cds_wfcq_node_sync_next(a)`: about to load a.next
  | nx1 (q a : Nat) (b : Bool)         -- `___cds_wfcq_next`: load a.next
  | nx2 (q a : Nat) (b : Bool)         --                     load tail.p
  | d2 (q nd : Nat) (b : Bool)         -- dequeue: load nd.next
  | d3 (q nd : Nat) (b : Bool)         --          store head.next := NULL
  | d4 (q nd : Nat) (b : Bool)         --          cmpxchg tail.p nd → head
  | d6 (q nd nxt : Nat)                --          store head.next := nxt, return nd
  | d7 (q nd : Nat)                    --          non-blocking: store head.next := nd, return WOULDBLOCK
  | s3 (dst src : Nat) (b : Bool)      -- splice: xchg src.head.next := NULL
  | s4 (dst src : Nat) (b : Bool)      --         load src.tail
  | s5 (dst src h : Nat)               --         xchg src.tail := &src.head
  | s6 (dst src h tl : Nat)            --         append: xchg dst.tail := tl
  | done (r : Res)
  deriving DecidableEq, Repr

structure State where
  next  : Nat → Nat
  tail  : Nat → Nat
  buf   : Nat → List (Nat × Nat)
  lock  : Nat → Option Nat
  pc    : Nat → Pc
  abs   : Nat → List Nat
  limbo : Nat → List Nat
  lnx   : Nat → Nat
  inq   : Nat → Bool
  hclr  : Nat → Bool
  pnd   : Nat → Bool
  wr    : Nat → Option Nat

def init : State :=
  { next := fun _ => 0, tail := fun q => q, buf := fun _ => [], lock := fun _ => none,
    pc := fun _ => .idle, abs := fun _ => [], limbo := fun _ => [], lnx := fun _ => 0,
    inq := fun _ => false, hclr := fun _ => false, pnd := fun _ => false, wr := fun _ => none }

def isQ (q : Nat) : Prop := q = 1 ∨ q = 2
instance (q : Nat) : Decidable (isQ q) := by unfold isQ; infer_instance

/-- newest buffered value for address `a` -/
def lastFor : List (Nat × Nat) → Nat → Option Nat
  | [], _ => none
  | (b, v) :: rest, a =>
    match lastFor rest a with
    | some w => some w
    | none => if b = a then some v else none

/-- TSO load by thread `t` -/
def rd (s : State) (t a : Nat) : Nat := (lastFor (s.buf t) a).getD (s.next a)

/-- TSO store issue -/
def issue (s : State) (t a v : Nat) : State :=
  { s with buf := upd s.buf t (s.buf t ++ [(a, v)]), wr := upd s.wr a (some t) }

inductive Label
  | flush (t : Nat) | fence (t : Nat)
  | acquire (t q : Nat) | release (t q : Nat)
  | enqXchg (t q n : Nat) | stIssue (t : Nat)
  | callEmpty (t q : Nat) | callFirst (t q : Nat) (b : Bool) | callNext (t q a : Nat) (b : Bool)
  | callDeq (t q : Nat) (b : Bool) | callSplice (t dst src : Nat) (b : Bool)
  | ld1 (t : Nat) | ld2 (t : Nat) | sync (t : Nat) | nx1 (t : Nat) | nx2 (t : Nat)
  | d2 (t : Nat) | d3 (t : Nat) | d4 (t : Nat) | d6 (t : Nat) | d7 (t : Nat)
  | s3 (t : Nat) | s4 (t : Nat) | s5 (t : Nat) | s6 (t : Nat)
  | ret (t : Nat)
  deriving DecidableEq, Repr

def Label.tid : Label → Nat
  | .flush t | .fence t | .acquire t _ | .release t _ | .enqXchg t _ _ | .stIssue t
  | .callEmpty t _ | .callFirst t _ _ | .callNext t _ _ _ | .callDeq t _ _ | .callSplice t _ _ _
  | .ld1 t | .ld2 t | .sync t | .nx1 t | .nx2 t | .d2 t | .d3 t | .d4 t | .d6 t | .d7 t
  | .s3 t | .s4 t | .s5 t | .s6 t | .ret t => t

def setPc (s : State) (t : Nat) (p : Pc) : State := { s with pc := upd s.pc t p }

/-- result of `_cds_wfcq_empty() == true` inside operation `k` -/
def emptyRes : K → Res
  | .empty => .bool true | .first _ => .null | .next _ => .null | .deq _ => .null | .splice _ _ => .srcEmpty

/-- continuation after `_cds_wfcq_empty() == false` -/
def nonEmptyPc (k : K) (q : Nat) : Pc :=
  match k with
  | .empty => .done (.bool false)
  | .first b => .sync (.first b) q q
  | .next b => .sync (.next b) q q
  | .deq b => .sync (.deq b) q q
  | .splice dst b => .s3 dst q b

/-- continuation of `___cds_wfcq_node_sync_next(a)` returning `v ≠ NULL` -/
def syncGotPc (k : K) (q a v : Nat) : Pc :=
  match k with
  | .deq b => if a = q then .d2 q v b else .d6 q a v
  | _ => .done (.node v false)

/-- continuation of the non-blocking `sync_next` returning WOULDBLOCK -/
def syncWbPc (k : K) (q a : Nat) : Pc :=
  match k with
  | .deq _ => if a = q then .done .wouldblock else .d7 q a
  | _ => .done .wouldblock

/-- One step; `none` = not enabled. -/
def step (s : State) : Label → Option State
  | .flush t =>
    match s.buf t with
    | (a, v) :: rest =>
      some { s with next := upd s.next a v, buf := upd s.buf t rest,
                    wr := if lastFor rest a = none then upd s.wr a none else s.wr }
    | [] => none
  | .fence t => if s.buf t = [] then some s else none
  | .acquire t q =>
    if isQ q ∧ s.lock q = none ∧ s.buf t = [] ∧ s.pc t = .idle then
      some { s with lock := upd s.lock q (some t) } else none
  | .release t q =>
    if isQ q ∧ s.lock q = some t ∧ s.buf t = [] ∧ s.pc t = .idle then
      some { s with lock := upd s.lock q none } else none
  | .enqXchg t q n =>
    if s.pc t = .idle ∧ isQ q ∧ 3 ≤ n ∧ s.inq n = false ∧ s.wr n = none ∧ s.buf t = [] then
      let old := s.tail q
      some { s with tail := upd s.tail q n, next := upd s.next n 0,
                    lnx := upd (upd s.lnx n 0) old n, abs := upd s.abs q (s.abs q ++ [n]),
                    inq := upd s.inq n true, pnd := upd s.pnd old true,
                    pc := upd s.pc t (.enq q old n false) }
    else none
  | .stIssue t =>
    match s.pc t with
    | .enq q old n spl =>
      some { issue s t old n with
               pnd := upd s.pnd old false,
               pc := upd s.pc t (.done (if spl then .dest (decide (old ≠ q)) else .bool (decide (old ≠ q)))) }
    | _ => none
  | .callEmpty t q =>
    if s.pc t = .idle ∧ isQ q then some (setPc s t (.e1 .empty q)) else none
  | .callFirst t q b =>
    if s.pc t = .idle ∧ isQ q ∧ s.lock q = some t then some (setPc s t (.e1 (.first b) q)) else none
  | .callNext t q a b =>
    if s.pc t = .idle ∧ isQ q ∧ s.lock q = some t ∧ a ∈ s.abs q then some (setPc s t (.nx1 q a b)) else none
  | .callDeq t q b =>
    if s.pc t = .idle ∧ isQ q ∧ s.lock q = some t then some (setPc s t (.e1 (.deq b) q)) else none
  | .callSplice t dst src b =>
    if s.pc t = .idle ∧ isQ dst ∧ isQ src ∧ dst ≠ src ∧ s.lock src = some t then
      some (setPc s t (.e1 (.splice dst b) src)) else none
  | .ld1 t =>
    match s.pc t with
    | .e1 k q => some (setPc s t (if rd s t q ≠ 0 then nonEmptyPc k q else .e2 k q))
    | _ => none
  | .ld2 t =>
    match s.pc t with
    | .e2 k q => some (setPc s t (if s.tail q = q then .done (emptyRes k) else nonEmptyPc k q))
    | _ => none
  | .sync t =>
    match s.pc t with
    | .sync k q a =>
      if rd s t a ≠ 0 then some (setPc s t (syncGotPc k q a (rd s t a)))
      else if k.blocking then some s
      else some (setPc s t (syncWbPc k q a))
    | _ => none
  | .nx1 t =>
    match s.pc t with
    | .nx1 q a b => some (setPc s t (if rd s t a ≠ 0 then .done (.node (rd s t a) false) else .nx2 q a b))
    | _ => none
  | .nx2 t =>
    match s.pc t with
    | .nx2 q a b => some (setPc s t (if s.tail q = a then .done .null else .sync (.next b) q a))
    | _ => none
  | .d2 t =>
    match s.pc t with
    | .d2 q nd b => some (setPc s t (if rd s t nd ≠ 0 then .d6 q nd (rd s t nd) else .d3 q nd b))
    | _ => none
  | .d3 t =>
    match s.pc t with
    | .d3 q nd b => some { issue s t q 0 with hclr := upd s.hclr q true, pc := upd s.pc t (.d4 q nd b) }
    | _ => none
  | .d4 t =>
    match s.pc t with
    | .d4 q nd b =>
      if s.buf t = [] then
        if s.tail q = nd then
          some { s with tail := upd s.tail q q, abs := upd s.abs q (s.abs q).tail, lnx := upd s.lnx q 0,
                        hclr := upd s.hclr q false, inq := upd s.inq nd false,
                        pc := upd s.pc t (.done (.node nd true)) }
        else some (setPc s t (.sync (.deq b) q nd))
      else none
    | _ => none
  | .d6 t =>
    match s.pc t with
    | .d6 q nd nxt =>
      some { issue s t q nxt with hclr := upd s.hclr q false, abs := upd s.abs q (s.abs q).tail,
                                  lnx := upd s.lnx q nxt, inq := upd s.inq nd false,
                                  pc := upd s.pc t (.done (.node nd false)) }
    | _ => none
  | .d7 t =>
    match s.pc t with
    | .d7 q nd => some { issue s t q nd with hclr := upd s.hclr q false, pc := upd s.pc t (.done .wouldblock) }
    | _ => none
  | .s3 t =>
    match s.pc t with
    | .s3 dst src b =>
      if s.buf t = [] then
        if s.next src ≠ 0 then
          some { s with next := upd s.next src 0, hclr := upd s.hclr src true,
                        pc := upd s.pc t (.s5 dst src (s.next src)) }
        else some (setPc s t (.s4 dst src b))
      else none
    | _ => none
  | .s4 t =>
    match s.pc t with
    | .s4 dst src b =>
      some (setPc s t (if s.tail src = src then .done .srcEmpty else if b then .s3 dst src b else .done .wouldblock))
    | _ => none
  | .s5 t =>
    match s.pc t with
    | .s5 dst src h =>
      if s.buf t = [] then
        some { s with tail := upd s.tail src src, limbo := upd s.limbo src (s.abs src), abs := upd s.abs src [],
                      lnx := upd s.lnx src 0, hclr := upd s.hclr src false,
                      pc := upd s.pc t (.s6 dst src h (s.tail src)) }
      else none
    | _ => none
  | .s6 t =>
    match s.pc t with
    | .s6 dst src h tl =>
      if s.buf t = [] then
        let old := s.tail dst
        some { s with tail := upd s.tail dst tl, abs := upd s.abs dst (s.abs dst ++ s.limbo src),
                      limbo := upd s.limbo src [], lnx := upd s.lnx old h, pnd := upd s.pnd old true,
                      pc := upd s.pc t (.enq dst old h true) }
      else none
    | _ => none
  | .ret t =>
    match s.pc t with
    | .done _ => some (setPc s t .idle)
    | _ => none

/-- executable replay of a label list (non-vacuity examples, driver) -/
def run : State → List Label → Option State
  | s, [] => some s
  | s, l :: ls => match step s l with
    | none => none
    | some s' => run s' ls

end UrcuVerif.Wfcq
