import UrcuVerif.Wfcq.Thms
/-!
C17 facets of the wfcqueue model: what a thread inside `sync_next` knows (`SyncKnows`), WOULDBLOCK
only while an append is in flight, and solo runs (all other threads frozen wherever they are).
-/
set_option linter.unusedVariables false
set_option linter.unusedSimpArgs false
namespace UrcuVerif.Wfcq
open Spec

/-! ### what a thread inside `sync_next` knows (separate invariant, uses `Inv`) -/

/-- `sync_next(&head)` is only entered on a non-empty queue; `sync_next(node)` only on a node that
is not the tail -/
def SyncKnows (s : State) (t : Nat) : Prop :=
  match s.pc t with
  | .sync (.first _) q _ => s.abs q ≠ []
  | .sync (.deq _) q a => if a = q then s.abs q ≠ [] else s.tail q ≠ a
  | .sync (.next _) q a => s.tail q ≠ a
  | _ => True

/-- steps of other threads keep the consumer's knowledge about its queue -/
theorem others_keep {s s' : State} {l : Label} (h : Reach s) (st : step s l = some s') (t q : Nat)
    (hl : s.lock q = some t) (hne : l.tid ≠ t) :
    (s.abs q ≠ [] → s'.abs q ≠ []) ∧ (∀ a, a ∈ s.abs q → s.tail q ≠ a → s'.tail q ≠ a) := by
  have I := inv_reach h
  have I' := inv_step I st
  have hq := I.p.lock_q q t hl
  obtain ⟨⟨m, hm⟩, -⟩ := others_only_append h t q hl hne st
  refine ⟨fun h1 h2 => by rw [hm] at h2; simp at h2; exact h1 h2.1, ?_⟩
  intro a ha hta
  have h1 := I'.a.last q hq
  have h0 := I.a.last q hq
  cases m with
  | nil => rw [hm, List.append_nil, h0] at h1; rw [← h1]; exact hta
  | cons b m' =>
    rw [hm, lastOf_append_cons] at h1
    have hn := abs_nodup I'.a hq
    rw [hm] at hn
    intro e
    have : a ∈ b :: m' := by rw [← e, ← h1]; exact lastOf_mem_cons b m'
    exact (List.nodup_append.1 hn).2.2 a ha a this rfl

theorem syncKnows_step {s s' : State} {l : Label} (h : Reach s) (hk : ∀ t, SyncKnows s t)
    (st : step s l = some s') : ∀ t, SyncKnows s' t := by
  have I := inv_reach h
  intro t
  by_cases hu : t = l.tid
  · subst hu
    cases l with
    | ld1 t =>
      simp only [Label.tid]
      have hp := I.p.ok t
      simp only [step] at st; split at st <;> try (simp at st; done)
      rename_i k q hpc
      rw [hpc] at hp
      simp only [Option.some.injEq] at st; subst st
      by_cases e : rd s t q = 0
      · simp [SyncKnows, setPc, upd, e]
      · have hq : isQ q := by cases k <;> simp only [PcOk, EOk, Cons] at hp <;> first | exact hp | exact hp.1 | exact hp.1.1 | exact hp.elim
        have := rd_head_any I t q hq e
        cases k <;> first | exact hp.elim | simp [SyncKnows, setPc, upd, e, nonEmptyPc, this]
    | ld2 t =>
      simp only [Label.tid]
      have hp := I.p.ok t
      simp only [step] at st; split at st <;> try (simp at st; done)
      rename_i k q hpc
      rw [hpc] at hp
      simp only [Option.some.injEq] at st; subst st
      by_cases e : s.tail q = q
      · simp [SyncKnows, setPc, upd, e]
      · have hq : isQ q := by cases k <;> simp only [PcOk, EOk, Cons] at hp <;> first | exact hp | exact hp.1 | exact hp.1.1 | exact hp.elim
        have : s.abs q ≠ [] := fun h => e ((abs_nil_iff I.a q hq).1 h)
        cases k <;> first | exact hp.elim | simp [SyncKnows, setPc, upd, e, nonEmptyPc, this]
    | sync t =>
      simp only [Label.tid]
      have hkt := hk t
      simp only [step] at st; split at st <;> try (simp at st; done)
      rename_i k q a hpc
      split at st
      · simp only [Option.some.injEq] at st; subst st
        cases k <;> simp only [SyncKnows, setPc, upd, syncGotPc, if_true] <;> try trivial
        by_cases e : a = q <;> simp [e]
      · split at st <;> (simp only [Option.some.injEq] at st; subst st)
        · exact hkt
        · cases k <;> simp only [SyncKnows, setPc, upd, syncWbPc, if_true] <;> try trivial
          by_cases e : a = q <;> simp [e]
    | nx2 t =>
      simp only [Label.tid]
      simp only [step] at st; split at st <;> try (simp at st; done)
      rename_i q a b hpc
      simp only [Option.some.injEq] at st; subst st
      by_cases e : s.tail q = a <;> simp [SyncKnows, setPc, upd, e]
    | d4 t =>
      simp only [Label.tid]
      have hp := I.p.ok t
      simp only [step] at st; split at st <;> try (simp at st; done)
      rename_i q nd b hpc
      rw [hpc] at hp
      split at st <;> try (simp at st; done)
      split at st <;> (simp only [Option.some.injEq] at st; subst st)
      · simp [SyncKnows, upd]
      · rename_i htl
        have h3 := (hd_node I hp.1).1
        have hne : nd ≠ q := by have := isQ_lt hp.1.1; omega
        simp [SyncKnows, setPc, upd, hne, htl]
    | flush t => simp only [step] at st; split at st <;> simp at st; subst st; exact hk t
    | fence t => simp only [step] at st; split at st <;> simp at st; subst st; exact hk t
    | acquire t q => simp only [step] at st; split at st <;> simp at st; subst st; exact hk t
    | release t q => simp only [step] at st; split at st <;> simp at st; subst st; exact hk t
    | _ =>
      simp only [step] at st <;> (repeat' split at st) <;>
      first
      | (simp at st; done)
      | (simp only [Option.some.injEq] at st; subst st; simp [SyncKnows, Label.tid, setPc, upd, issue]; done)
      | (simp only [Option.some.injEq] at st; subst st; simp only [SyncKnows, Label.tid, setPc, upd, issue]
         split <;> simp_all
         done)
  · have hf := (step_frame st t hu).1
    have hkt := hk t
    have hp := I.p.ok t
    simp only [SyncKnows, hf] at hkt ⊢
    cases hpc : s.pc t with
    | sync k q a =>
      rw [hpc] at hp hkt
      cases k with
      | empty => trivial
      | splice d b => trivial
      | first b =>
        simp only at hkt ⊢
        exact (others_keep h st t q hp.2.2.1 (Ne.symm hu)).1 hkt
      | next b =>
        simp only at hkt ⊢
        obtain ⟨hq, hl, ha⟩ := hp
        exact (others_keep h st t q hl (Ne.symm hu)).2 a ha hkt
      | deq b =>
        simp only at hkt ⊢
        by_cases e : a = q
        · simp only [e, if_true] at hkt ⊢
          exact (others_keep h st t q (hp.1 e).2.1 (Ne.symm hu)).1 hkt
        · simp only [e, if_false] at hkt ⊢
          obtain ⟨hhd, -⟩ := hp.2 e
          exact (others_keep h st t q hhd.2.1 (Ne.symm hu)).2 a (hd_node I hhd).2 hkt
    | _ => trivial

theorem syncKnows_reach {s : State} (h : Reach s) : ∀ t, SyncKnows s t := by
  induction h with
  | init => intro t; simp [SyncKnows, init]
  | step r st ih => exact syncKnows_step r ih st

/-! ### WOULDBLOCK only while an append is in flight -/

/-- an append that links `a` to its successor is in flight: its thread is between the `xchg` and
the store (`Pc.enq _ a _ _`), or the store sits in the store buffer of a thread other than `t` -/
def InFlight (s : State) (t a : Nat) : Prop :=
  (∃ u q n spl, s.pc u = .enq q a n spl) ∨ (∃ u v, u ≠ t ∧ (a, v) ∈ s.buf u)

theorem inflight_of {s : State} (I : Inv s) (hp : PndPc s) (t a x : Nat) (hx : x ≠ 0)
    (hrd : rd s t a = 0)
    (hexp : ∀ u v, lastFor (s.buf u) a = some v → v = x)
    (hmem : s.wr a = none → s.pnd a = false → s.next a = x) : InFlight s t a := by
  have hnone : lastFor (s.buf t) a = none := by
    rcases rd_eq s t a with ⟨v, h1, h2⟩ | ⟨h1, -⟩
    · rw [hexp t v h1] at h2; rw [h2] at hrd; exact absurd hrd hx
    · exact h1
  have hnx : s.next a = 0 := by
    rcases rd_eq s t a with ⟨v, h1, -⟩ | ⟨-, h2⟩
    · rw [hnone] at h1; simp at h1
    · rw [← h2]; exact hrd
  cases hw : s.wr a with
  | some u =>
    have h1 := I.m.wr_ent u a hw
    have hut : u ≠ t := by intro e; subst e; exact h1 hnone
    cases h2 : lastFor (s.buf u) a with
    | none => exact absurd h2 h1
    | some v => right; exact ⟨u, v, hut, lastFor_mem _ _ _ h2⟩
  | none =>
    cases hpn : s.pnd a with
    | false => rw [hmem hw hpn] at hnx; exact absurd hnx hx
    | true =>
      left
      obtain ⟨u, hu⟩ := hp a hpn
      cases hpcu : s.pc u with
      | enq q0 old n spl => rw [hpcu] at hu; simp [pendOld] at hu; subst hu; exact ⟨u, q0, n, spl, hpcu⟩
      | _ => rw [hpcu] at hu; simp [pendOld] at hu

/-- the head of a non-empty queue reads NULL (outside the consumer's own window) only while the
append of the first node is in flight -/
theorem head_null_inflight {s : State} (h : Reach s) (t q : Nat) (hc : Cons s t q) (hne : s.abs q ≠ [])
    (hrd : rd s t q = 0) : InFlight s t q := by
  have I := inv_reach h
  have hp := pndPc_reach h
  obtain ⟨l, hl⟩ := abs_head I.a hc.1 hne
  have hx3 : 3 ≤ s.lnx q := node_ge I.a hc.1 (by rw [hl]; simp)
  have hexp : exp s q = s.lnx q := by simp [exp, hc.2.2]
  exact inflight_of I hp t q (s.lnx q) (by omega) hrd
    (fun u v hv => by rw [I.m.last_head u q v hc.1 hv, hexp])
    (fun hw hpn => by rw [I.m.mem_head q hc.1 hw hpn, hexp])

/-- a queued node that is not the tail reads NULL only while the append of its successor is in flight -/
theorem node_null_inflight {s : State} (h : Reach s) (t q a : Nat) (hq : isQ q) (ha : a ∈ s.abs q)
    (hta : s.tail q ≠ a) (hrd : rd s t a = 0) : InFlight s t a := by
  have I := inv_reach h
  have hp := pndPc_reach h
  have h3 := node_ge I.a hq ha
  have hx3 : 3 ≤ s.lnx a := by
    rcases abs_succ I.a hq ha with ⟨h1, -⟩ | ⟨-, h2⟩
    · exact absurd h1.symm hta
    · exact h2
  exact inflight_of I hp t a (s.lnx a) (by omega) hrd
    (fun u v hv => I.m.ent_node u a v (lastFor_mem _ _ _ hv) h3)
    (fun hw hpn => I.m.mem_node_eq a h3 (I.a.nodes a (mem_abs_all hq ha)).2 hw hpn)

/-- **wouldblock_only_if_inflight**: `sync_next` (inside first / next / dequeue, blocking or not)
sees a NULL `next` only while an append to that very node is in flight -/
theorem sync_null_inflight {s : State} (h : Reach s) (t q a : Nat) (k : K) (hpc : s.pc t = .sync k q a)
    (hrd : rd s t a = 0) : InFlight s t a := by
  have I := inv_reach h
  have hp := pndPc_reach h
  have hk := syncKnows_reach h t
  have hok := I.p.ok t
  rw [hpc] at hok
  simp only [SyncKnows, hpc] at hk
  -- the two situations: `a` is the head of a non-empty queue, or a queued node that is not the tail
  have head_case : ∀ (hc : Cons s t q) (hne : s.abs q ≠ []) (e : a = q), InFlight s t a := by
    intro hc hne e
    subst e
    obtain ⟨l, hl⟩ := abs_head I.a hc.1 hne
    have hx3 : 3 ≤ s.lnx a := node_ge I.a hc.1 (by rw [hl]; simp)
    have hexp : exp s a = s.lnx a := by simp [exp, hc.2.2]
    exact inflight_of I hp t a (s.lnx a) (by omega) hrd
      (fun u v hv => by rw [I.m.last_head u a v hc.1 hv, hexp])
      (fun hw hpn => by rw [I.m.mem_head a hc.1 hw hpn, hexp])
  have node_case : ∀ (hq : isQ q) (ha : a ∈ s.abs q) (hta : s.tail q ≠ a), InFlight s t a := by
    intro hq ha hta
    have h3 := node_ge I.a hq ha
    have hx3 : 3 ≤ s.lnx a := by
      rcases abs_succ I.a hq ha with ⟨h1, -⟩ | ⟨-, h2⟩
      · exact absurd h1.symm hta
      · exact h2
    exact inflight_of I hp t a (s.lnx a) (by omega) hrd
      (fun u v hv => I.m.ent_node u a v (lastFor_mem _ _ _ hv) h3)
      (fun hw hpn => I.m.mem_node_eq a h3 (I.a.nodes a (mem_abs_all hq ha)).2 hw hpn)
  cases k with
  | empty => exact hok.elim
  | splice d b => exact hok.elim
  | first b => exact head_case hok.2 hk hok.1
  | next b => exact node_case hok.1 hok.2.2 hk
  | deq b =>
    simp only at hk
    by_cases e : a = q
    · simp only [e, if_true] at hk; exact head_case (hok.1 e) (e ▸ hk) e
    · simp only [e, if_false] at hk
      exact node_case (hok.2 e).1.1 (hd_node I (hok.2 e).1).2 hk

/-- **wouldblock_changes_nothing**: the non-blocking `sync_next` that gives up only moves the
program counter; when the dequeuer had already cleared `head.next` (last-node path) its next step
stores the first node back, and the abstract queue is never touched -/
theorem sync_wouldblock_step {s : State} (t q a : Nat) (k : K) (hpc : s.pc t = .sync k q a)
    (hb : k.blocking = false) (hrd : rd s t a = 0) :
    step s (.sync t) = some (setPc s t (syncWbPc k q a)) := by
  simp [step, hpc, hrd, hb]

theorem restore_step {s s' : State} (h : Reach s) (t q nd : Nat) (hpc : s.pc t = .d7 q nd)
    (st : step s (.d7 t) = some s') :
    s'.pc t = .done .wouldblock ∧ s'.abs = s.abs ∧ s'.limbo = s.limbo ∧ s'.tail = s.tail ∧
    rd s' t q = nd ∧ (∃ l, s.abs q = nd :: l) := by
  have I := inv_reach h
  have hk := I.p.ok t; rw [hpc] at hk
  obtain ⟨l, hab, -⟩ := hd_facts I hk.1
  simp only [step, hpc, Option.some.injEq] at st; subst st
  refine ⟨by simp [upd], rfl, rfl, rfl, ?_, ⟨l, hab⟩⟩
  simp [rd, issue, upd, lastFor_snoc]

/-- a blocking `sync_next` that sees NULL waits (stutters) -/
theorem sync_blocking_waits {s : State} (t q a : Nat) (k : K) (hpc : s.pc t = .sync k q a)
    (hb : k.blocking = true) (hrd : rd s t a = 0) : step s (.sync t) = some s := by
  simp [step, hpc, hrd, hb]


/-! ### store-buffer occupancy of a producer -/

/-- a thread that holds no consumer role has at most one buffered store (the trailing link store
of its last append: every append starts with an `xchg`, which drains the buffer) -/
def BufLe1 (s : State) : Prop := ∀ t, (∀ q, s.lock q ≠ some t) → (s.buf t).length ≤ 1

theorem bufLe1_step {s s' : State} {l : Label} (I : Inv s) (h : BufLe1 s) (st : step s l = some s') : BufLe1 s' := by
  intro u hu
  by_cases hul : u = l.tid
  · subst hul
    have hp := I.p.ok l.tid
    cases l with
    | flush t =>
      simp only [Label.tid] at hu hp ⊢
      simp only [step] at st; split at st <;> simp at st
      rename_i a v rest hb; subst st
      have := h t hu; rw [hb] at this
      simp only [List.length_cons] at this
      simp [upd]; omega
    | acquire t q =>
      simp only [Label.tid] at hu ⊢
      simp only [step] at st; split at st <;> simp at st
      subst st; exact absurd (by simp [upd]) (hu q)
    | release t q =>
      simp only [Label.tid] at hu ⊢
      simp only [step] at st; split at st <;> simp at st
      rename_i hg; subst st; simp [hg.2.2.1]
    | stIssue t =>
      simp only [Label.tid] at hu hp ⊢
      simp only [step] at st; split at st <;> simp at st
      rename_i q old n spl hpc; subst st
      rw [hpc] at hp
      simp [issue, upd, hp.2.2.2]
    | d3 t =>
      simp only [Label.tid] at hu hp ⊢
      simp only [step] at st; split at st <;> simp at st
      rename_i q nd b hpc; subst st
      rw [hpc] at hp; exact absurd hp.1.2.1 (hu q)
    | d6 t =>
      simp only [Label.tid] at hu hp ⊢
      simp only [step] at st; split at st <;> simp at st
      rename_i q nd b hpc; subst st
      rw [hpc] at hp; exact absurd hp.1.2.1 (hu q)
    | d7 t =>
      simp only [Label.tid] at hu hp ⊢
      simp only [step] at st; split at st <;> simp at st
      rename_i q nd hpc; subst st
      rw [hpc] at hp; exact absurd hp.1.2.1 (hu q)
    | _ =>
      simp only [Label.tid] at hu ⊢
      simp only [step] at st <;> (repeat' split at st) <;>
      first
      | (simp at st; done)
      | (simp only [Option.some.injEq] at st; subst st; exact h _ hu)
  · rw [(step_frame st u hul).2]
    apply h u
    intro q hq
    -- the lock of `q` changes only by an acquire / release of the stepping thread
    cases l with
    | acquire t q' =>
      simp only [step] at st; split at st <;> simp at st
      rename_i hg; subst st
      have := hu q; simp only [upd] at this
      by_cases e : q = q'
      · subst e; rw [hg.2.1] at hq; simp at hq
      · simp [e] at this; exact this hq
    | release t q' =>
      simp only [step] at st; split at st <;> simp at st
      rename_i hg; subst st
      have := hu q; simp only [upd] at this
      by_cases e : q = q'
      · subst e; rw [hg.2.1] at hq; simp at hq; simp only [Label.tid] at hul; exact hul hq.symm
      · simp [e] at this; exact this hq
    | _ =>
      simp only [step] at st <;> (repeat' split at st) <;>
      first
      | (simp at st; done)
      | (simp only [Option.some.injEq] at st; subst st; exact hu q hq)

theorem bufLe1_reach {s : State} (h : Reach s) : BufLe1 s := by
  induction h with
  | init => intro t _; simp [init]
  | step r st ih => exact bufLe1_step (inv_reach r) ih st

/-! ### enqueue is wait-free -/

theorem run_append (s : State) (l1 l2 : List Label) : run s (l1 ++ l2) = (run s l1).bind (fun s' => run s' l2) := by
  induction l1 generalizing s with
  | nil => simp [run]
  | cons a l ih =>
    simp only [List.cons_append, run]
    cases step s a <;> simp [ih]

theorem run_reach {s s' : State} (h : Reach s) (ls : List Label) (hr : run s ls = some s') : Reach s' := by
  induction ls generalizing s with
  | nil => simp [run] at hr; subst hr; exact h
  | cons a l ih =>
    simp only [run] at hr
    cases hs : step s a with
    | none => rw [hs] at hr; simp at hr
    | some s1 => rw [hs] at hr; exact ih (Reach.step h hs) hr

/-- draining the own store buffer: `n` flush steps of thread `t` are enabled when it holds `n` entries -/
theorem drain_own (s : State) (t : Nat) :
    ∃ s', run s (List.replicate (s.buf t).length (.flush t)) = some s' ∧ s'.buf t = [] ∧ s'.pc = s.pc ∧
      s'.inq = s.inq ∧ s'.lock = s.lock ∧ s'.tail = s.tail ∧ s'.abs = s.abs ∧ (∀ a, s.wr a = none → s'.wr a = none) := by
  generalize hn : (s.buf t).length = n
  induction n generalizing s with
  | zero =>
    exact ⟨s, by simp [run], by simpa using hn, rfl, rfl, rfl, rfl, rfl, fun a h => h⟩
  | succ n ih =>
    cases hb : s.buf t with
    | nil => rw [hb] at hn; simp at hn
    | cons e rest =>
      obtain ⟨a, v⟩ := e
      have hst : ∃ s1, step s (.flush t) = some s1 ∧ s1.buf t = rest ∧ s1.pc = s.pc ∧ s1.inq = s.inq ∧
          s1.lock = s.lock ∧ s1.tail = s.tail ∧ s1.abs = s.abs ∧ (∀ b, s.wr b = none → s1.wr b = none) := by
        simp only [step, hb]
        refine ⟨_, rfl, by simp [upd], rfl, rfl, rfl, rfl, rfl, ?_⟩
        intro b hb0
        show (if lastFor rest a = none then upd s.wr a none else s.wr) b = none
        split
        · by_cases e : b = a <;> simp [upd, e, hb0]
        · exact hb0
      obtain ⟨s1, hst, g1, g2, g3, g4, g5, g6, g7⟩ := hst
      obtain ⟨s', h1, h2, h3, h4, h5, h6, h7, h8⟩ := ih s1 (by rw [hb] at hn; simp at hn; rw [g1]; exact hn)
      exact ⟨s', by simp [List.replicate_succ, run, hst, h1], h2, by rw [h3, g2], by rw [h4, g3], by rw [h5, g4],
        by rw [h6, g5], by rw [h7, g6], fun b hb0 => h8 b (g7 b hb0)⟩

/-- **enqueue is wait-free**: from any reachable state, whatever the other threads are in the
middle of (suspended between their `xchg` and their store, inside a dequeue, with stores sitting
in their buffers), the sequence *drain own store buffer; `xchg` tail; store link; return* of
thread `t` is enabled step by step with no step of any other thread in between:
`(s.buf t).length + 3` own steps. -/
theorem enqueue_solo {s : State} (h : Reach s) (t q n : Nat) (hpc : s.pc t = .idle) (hq : isQ q)
    (hn3 : 3 ≤ n) (hinq : s.inq n = false) (hwn : s.wr n = none) :
    ∃ s', run s (List.replicate (s.buf t).length (.flush t) ++ [.enqXchg t q n, .stIssue t, .ret t]) = some s' ∧
      s'.pc t = .idle ∧ s'.abs q = s.abs q ++ [n] ∧ Reach s' := by
  obtain ⟨s1, h1, hb1, hpc1, hinq1, -, htl1, habs1, hwr1⟩ := drain_own s t
  have hr1 : Reach s1 := run_reach h _ h1
  obtain ⟨s2, hx⟩ : ∃ s2, step s1 (.enqXchg t q n) = some s2 := by
    simp [step, hpc1, hpc, hq, hn3, hinq1, hinq, hwr1 n hwn, hb1]
  obtain ⟨ha2, hp2, -⟩ := enq_result hr1 t q n hx
  rw [habs1] at ha2
  obtain ⟨s3, hs3⟩ : ∃ s3, step s2 (.stIssue t) = some s3 := by simp [step, hp2]
  obtain ⟨hp3, ha3, -⟩ := enq_ret t q _ n false hp2 hs3
  obtain ⟨s4, hs4⟩ : ∃ s4, step s3 (.ret t) = some s4 := by simp [step, hp3]
  have hp4 : s4.pc t = .idle ∧ s4.abs = s3.abs := by
    simp only [step, hp3, Option.some.injEq] at hs4; subst hs4; simp [setPc, upd]
  have hrun : run s (List.replicate (s.buf t).length (.flush t) ++ [.enqXchg t q n, .stIssue t, .ret t]) = some s4 := by
    rw [run_append, h1]; simp [run, hx, hs3, hs4]
  exact ⟨s4, hrun, hp4.1, by rw [hp4.2, ha3, ha2], run_reach h _ hrun⟩

/-- … and a thread that holds no consumer role has at most one store to drain: at most 4 own steps -/
theorem producer_buf_le_one {s : State} (h : Reach s) (t : Nat) (hl : ∀ q, s.lock q ≠ some t) :
    (s.buf t).length ≤ 1 := bufLe1_reach h t hl


/-! ### solo runs -/

/-- the next own step of thread `t` inside an operation (its next instruction, or – when that
instruction is a locked RMW and its store buffer is not empty – the draining of its own buffer) -/
def ownNext (s : State) (t : Nat) : Option Label :=
  match s.pc t with
  | .idle => none
  | .enq _ _ _ _ => some (.stIssue t)
  | .e1 _ _ => some (.ld1 t)
  | .e2 _ _ => some (.ld2 t)
  | .sync _ _ _ => some (.sync t)
  | .nx1 _ _ _ => some (.nx1 t)
  | .nx2 _ _ _ => some (.nx2 t)
  | .d2 _ _ _ => some (.d2 t)
  | .d3 _ _ _ => some (.d3 t)
  | .d4 _ _ _ => if s.buf t = [] then some (.d4 t) else some (.flush t)
  | .d6 _ _ _ => some (.d6 t)
  | .d7 _ _ => some (.d7 t)
  | .s3 _ _ _ => if s.buf t = [] then some (.s3 t) else some (.flush t)
  | .s4 _ _ _ => some (.s4 t)
  | .s5 _ _ _ => if s.buf t = [] then some (.s5 t) else some (.flush t)
  | .s6 _ _ _ _ => if s.buf t = [] then some (.s6 t) else some (.flush t)
  | .done _ => some (.ret t)

/-- `k` own steps of `t` with every other thread frozen; `none` = stuck (needs somebody else) -/
def solo (t : Nat) : Nat → State → Option State
  | 0, s => some s
  | k+1, s =>
    match ownNext s t with
    | none => some s
    | some l =>
      match step s l with
      | none => none
      | some s' => solo t k s'

theorem solo_measure (t : Nat) (μ : State → Nat) (P : State → Prop)
    (hstep : ∀ s, P s → s.pc t ≠ .idle →
      ∃ l s', ownNext s t = some l ∧ step s l = some s' ∧ P s' ∧ μ s' < μ s) :
    ∀ n s, P s → μ s ≤ n → ∃ k s', k ≤ n ∧ solo t k s = some s' ∧ s'.pc t = .idle ∧ P s' := by
  intro n
  induction n with
  | zero =>
    intro s hP hμ
    by_cases hi : s.pc t = .idle
    · exact ⟨0, s, Nat.le_refl _, rfl, hi, hP⟩
    · obtain ⟨l, s', _, _, _, hlt⟩ := hstep s hP hi
      omega
  | succ n ih =>
    intro s hP hμ
    by_cases hi : s.pc t = .idle
    · exact ⟨0, s, Nat.zero_le _, rfl, hi, hP⟩
    · obtain ⟨l, s', h1, h2, h3, hlt⟩ := hstep s hP hi
      obtain ⟨k, s'', hk, hs, hi', hP'⟩ := ih s' h3 (by omega)
      exact ⟨k + 1, s'', by omega, by simp [solo, h1, h2, hs], hi', hP'⟩

/-- program counters with no wait loop ahead: non-blocking variants, and the straight-line tails -/
def nbPc : Pc → Bool
  | .idle => true
  | .done _ => true
  | .enq _ _ _ _ => true
  | .d6 _ _ _ => true
  | .d7 _ _ => true
  | .s5 _ _ _ => true
  | .s6 _ _ _ _ => true
  | .e1 k _ => !k.blocking
  | .e2 k _ => !k.blocking
  | .sync k _ _ => !k.blocking
  | .nx1 _ _ b => !b
  | .nx2 _ _ b => !b
  | .d2 _ _ b => !b
  | .d3 _ _ b => !b
  | .d4 _ _ b => !b
  | .s3 _ _ b => !b
  | .s4 _ _ b => !b

/-- remaining instructions (upper bound; a step that issues a store counts two: the store will
have to be drained before a later locked instruction) -/
def rank : Pc → Nat
  | .idle => 0
  | .done _ => 1
  | .enq _ _ _ _ => 3
  | .d6 _ _ _ => 3
  | .d7 _ _ => 3
  | .s6 _ _ _ _ => 4
  | .s5 _ _ _ => 5
  | .d4 _ _ _ => 5
  | .s4 _ _ _ => 6
  | .s3 _ _ _ => 7
  | .d3 _ _ _ => 7
  | .d2 _ _ _ => 8
  | .sync (.deq _) q a => if a = q then 9 else 4
  | .sync _ _ _ => 9
  | .e2 _ _ => 10
  | .nx2 _ _ _ => 10
  | .e1 _ _ => 11
  | .nx1 _ _ _ => 11

def mu (s : State) (t : Nat) : Nat := rank (s.pc t) + (s.buf t).length

theorem rank_le (p : Pc) : rank p ≤ 11 := by
  cases p <;> simp only [rank] <;> (try omega)
  rename_i k q a; cases k <;> simp only [rank] <;> (try split) <;> omega

def nbP (t : Nat) (s : State) : Prop := Reach s ∧ nbPc (s.pc t) = true

theorem en_flush {s : State} {t : Nat} (hb : s.buf t ≠ []) :
    ∃ s', step s (.flush t) = some s' ∧ s'.pc = s.pc ∧ (s'.buf t).length + 1 = (s.buf t).length := by
  cases h : s.buf t with
  | nil => exact absurd h hb
  | cons e rest =>
    obtain ⟨a, v⟩ := e
    simp only [step, h]
    exact ⟨_, rfl, rfl, by simp [upd]⟩

theorem nb_own_step (t : Nat) (s : State) (hP : nbP t s) (hi : s.pc t ≠ .idle) :
    ∃ l s', ownNext s t = some l ∧ step s l = some s' ∧ nbP t s' ∧ mu s' t < mu s t := by
  obtain ⟨hr, hnb⟩ := hP
  have I := inv_reach hr
  have hok := I.p.ok t
  -- a step that keeps the buffer and moves the pc to a lower rank
  -- any own step that lowers the measure
  have stp : ∀ (l : Label), ownNext s t = some l →
      (∃ s', step s l = some s' ∧ nbPc (s'.pc t) = true ∧ rank (s'.pc t) + (s'.buf t).length < rank (s.pc t) + (s.buf t).length) →
      ∃ l s', ownNext s t = some l ∧ step s l = some s' ∧ nbP t s' ∧ mu s' t < mu s t := by
    intro l h1 ⟨s', h2, h3, h4⟩
    exact ⟨l, s', h1, h2, ⟨Reach.step hr h2, h3⟩, h4⟩
  -- draining one own entry
  have fl : (s.buf t ≠ []) → ownNext s t = some (.flush t) →
      ∃ l s', ownNext s t = some l ∧ step s l = some s' ∧ nbP t s' ∧ mu s' t < mu s t := by
    intro hb h1
    obtain ⟨s', h2, h3, h4⟩ := en_flush hb
    exact ⟨_, s', h1, h2, ⟨Reach.step hr h2, by rw [h3]; exact hnb⟩, by simp only [mu, h3]; omega⟩
  cases hpc : s.pc t with
  | idle => exact absurd hpc hi
  | done r =>
    exact stp (.ret t) (by simp [ownNext, hpc]) (by simp [step, hpc, setPc, upd, nbPc, rank])
  | enq q old n spl =>
    exact stp (.stIssue t) (by simp [ownNext, hpc]) (by simp [step, hpc, upd, issue, nbPc, rank] <;> omega)
  | e1 k q =>
    rw [hpc] at hnb
    have hb : k.blocking = false := by simpa [nbPc] using hnb
    by_cases hv : rd s t q = 0
    · exact stp (.ld1 t) (by simp [ownNext, hpc]) (by simp [step, hpc, hv, setPc, upd, nbPc, rank, hb])
    · cases k <;>
        exact stp (.ld1 t) (by simp [ownNext, hpc])
          (by simp [step, hpc, hv, setPc, upd, nbPc, rank, nonEmptyPc] <;> simp_all [K.blocking])
  | e2 k q =>
    rw [hpc] at hnb
    have hb : k.blocking = false := by simpa [nbPc] using hnb
    by_cases hv : s.tail q = q
    · exact stp (.ld2 t) (by simp [ownNext, hpc]) (by simp [step, hpc, hv, setPc, upd, nbPc, rank])
    · cases k <;>
        exact stp (.ld2 t) (by simp [ownNext, hpc])
          (by simp [step, hpc, hv, setPc, upd, nbPc, rank, nonEmptyPc] <;> simp_all [K.blocking])
  | sync k q a =>
    rw [hpc] at hnb
    have hb : k.blocking = false := by simpa [nbPc] using hnb
    by_cases hv : rd s t a = 0
    · by_cases e : a = q
      · subst e
        cases k <;>
          exact stp (.sync t) (by simp [ownNext, hpc])
            (by simp [step, hpc, hv, hb, setPc, upd, nbPc, rank, syncWbPc])
      · cases k <;>
          exact stp (.sync t) (by simp [ownNext, hpc])
            (by simp [step, hpc, hv, hb, e, setPc, upd, nbPc, rank, syncWbPc])
    · by_cases e : a = q
      · subst e
        cases k <;>
          exact stp (.sync t) (by simp [ownNext, hpc])
            (by simp [step, hpc, hv, setPc, upd, nbPc, rank, syncGotPc] <;> simp_all [K.blocking])
      · cases k <;>
          exact stp (.sync t) (by simp [ownNext, hpc])
            (by simp [step, hpc, hv, e, setPc, upd, nbPc, rank, syncGotPc])
  | nx1 q a b =>
    rw [hpc] at hnb
    have hbf : b = false := by simpa [nbPc] using hnb
    by_cases hv : rd s t a = 0
    · exact stp (.nx1 t) (by simp [ownNext, hpc]) (by simp [step, hpc, hv, setPc, upd, nbPc, rank, hbf])
    · exact stp (.nx1 t) (by simp [ownNext, hpc]) (by simp [step, hpc, hv, setPc, upd, nbPc, rank])
  | nx2 q a b =>
    rw [hpc] at hnb
    have hbf : b = false := by simpa [nbPc] using hnb
    by_cases hv : s.tail q = a
    · exact stp (.nx2 t) (by simp [ownNext, hpc]) (by simp [step, hpc, hv, setPc, upd, nbPc, rank])
    · exact stp (.nx2 t) (by simp [ownNext, hpc]) (by simp [step, hpc, hv, setPc, upd, nbPc, rank, hbf, K.blocking])
  | d2 q nd b =>
    rw [hpc] at hnb
    have hbf : b = false := by simpa [nbPc] using hnb
    by_cases hv : rd s t nd = 0
    · exact stp (.d2 t) (by simp [ownNext, hpc]) (by simp [step, hpc, hv, setPc, upd, nbPc, rank, hbf])
    · exact stp (.d2 t) (by simp [ownNext, hpc]) (by simp [step, hpc, hv, setPc, upd, nbPc, rank])
  | d3 q nd b =>
    rw [hpc] at hnb
    have hbf : b = false := by simpa [nbPc] using hnb
    exact stp (.d3 t) (by simp [ownNext, hpc]) (by simp [step, hpc, upd, issue, nbPc, rank, hbf] <;> omega)
  | d4 q nd b =>
    rw [hpc] at hnb hok
    have hbf : b = false := by simpa [nbPc] using hnb
    by_cases hb : s.buf t = []
    · have hne : nd ≠ q := by have := (hd_node I hok.1).1; have := isQ_lt hok.1.1; omega
      by_cases htl : s.tail q = nd
      · exact stp (.d4 t) (by simp [ownNext, hpc, hb]) (by simp [step, hpc, hb, htl, upd, nbPc, rank])
      · exact stp (.d4 t) (by simp [ownNext, hpc, hb])
          (by simp [step, hpc, hb, htl, setPc, upd, nbPc, rank, hbf, K.blocking, hne])
    · exact fl hb (by simp [ownNext, hpc, hb])
  | d6 q nd nxt =>
    exact stp (.d6 t) (by simp [ownNext, hpc]) (by simp [step, hpc, upd, issue, nbPc, rank] <;> omega)
  | d7 q nd =>
    exact stp (.d7 t) (by simp [ownNext, hpc]) (by simp [step, hpc, upd, issue, nbPc, rank] <;> omega)
  | s3 dst src b =>
    rw [hpc] at hnb
    have hbf : b = false := by simpa [nbPc] using hnb
    by_cases hb : s.buf t = []
    · by_cases hx : s.next src = 0
      · exact stp (.s3 t) (by simp [ownNext, hpc, hb]) (by simp [step, hpc, hb, hx, setPc, upd, nbPc, rank, hbf])
      · exact stp (.s3 t) (by simp [ownNext, hpc, hb]) (by simp [step, hpc, hb, hx, upd, nbPc, rank])
    · exact fl hb (by simp [ownNext, hpc, hb])
  | s4 dst src b =>
    rw [hpc] at hnb
    have hbf : b = false := by simpa [nbPc] using hnb
    by_cases hv : s.tail src = src
    · exact stp (.s4 t) (by simp [ownNext, hpc]) (by simp [step, hpc, hv, setPc, upd, nbPc, rank])
    · exact stp (.s4 t) (by simp [ownNext, hpc]) (by simp [step, hpc, hv, hbf, setPc, upd, nbPc, rank])
  | s5 dst src h =>
    by_cases hb : s.buf t = []
    · exact stp (.s5 t) (by simp [ownNext, hpc, hb]) (by simp [step, hpc, hb, upd, nbPc, rank])
    · exact fl hb (by simp [ownNext, hpc, hb])
  | s6 dst src h tl =>
    by_cases hb : s.buf t = []
    · exact stp (.s6 t) (by simp [ownNext, hpc, hb]) (by simp [step, hpc, hb, upd, nbPc, rank])
    · exact fl hb (by simp [ownNext, hpc, hb])

/-- **nonblocking_never_waits**: from any reachable state, a thread that is inside a non-blocking
operation (or in the straight-line tail of any operation) returns within `11 + |own buffer|` own
steps, with every other thread frozen wherever it is -/
theorem nonblocking_never_waits {s : State} (h : Reach s) (t : Nat) (hnb : nbPc (s.pc t) = true) :
    ∃ k s', k ≤ 11 + (s.buf t).length ∧ solo t k s = some s' ∧ s'.pc t = .idle ∧ Reach s' := by
  obtain ⟨k, s', hk, hs, hi, hP⟩ := solo_measure t (mu · t) (nbP t) (nb_own_step t) (11 + (s.buf t).length) s
    ⟨h, hnb⟩ (by simp only [mu]; have := rank_le (s.pc t); omega)
  exact ⟨k, s', hk, hs, hi, hP.1⟩


/-! ### never WOULDBLOCK when no other operation is in progress -/

/-- no other operation is in progress: every other thread is outside the queue API and its stores
have reached memory -/
def Quiet (s : State) (t : Nat) : Prop := ∀ u, u ≠ t → s.pc u = .idle ∧ s.buf u = []

theorem quiet_own_step {s s' : State} {l : Label} {t : Nat} (hq : Quiet s t) (st : step s l = some s')
    (hl : l.tid = t) : Quiet s' t := by
  intro u hu
  have := step_frame st u (by rw [hl]; exact hu)
  rw [this.1, this.2]; exact hq u hu

theorem quiet_no_inflight {s : State} {t a : Nat} (hq : Quiet s t) (hp : ∀ q n spl, s.pc t ≠ .enq q a n spl)
    (h : InFlight s t a) : False := by
  rcases h with ⟨u, q, n, spl, hu⟩ | ⟨u, v, hut, hm⟩
  · by_cases e : u = t
    · subst e; exact hp q n spl hu
    · rw [(hq u e).1] at hu; simp at hu
  · rw [(hq u hut).2] at hm; simp at hm

/-- what the solo run of a non-blocking operation knows in a quiet state -/
def QOk (s : State) (t : Nat) : Prop :=
  match s.pc t with
  | .idle => False
  | .done r => r ≠ .wouldblock
  | .d3 q nd _ => s.tail q = nd
  | .d4 q nd _ => s.tail q = nd
  | .sync (.deq _) q a => a = q
  | .d7 _ _ => False
  | .s4 _ src _ => s.abs src = []
  | _ => True

theorem solo_until (t : Nat) (μ : State → Nat) (P G : State → Prop)
    (hstep : ∀ s, P s → ¬ G s → ∃ l s', ownNext s t = some l ∧ step s l = some s' ∧ P s' ∧ μ s' < μ s) :
    ∀ n s, P s → μ s ≤ n → ∃ k s', k ≤ n ∧ solo t k s = some s' ∧ G s' ∧ P s' := by
  intro n
  induction n with
  | zero =>
    intro s hP hμ
    by_cases hi : G s
    · exact ⟨0, s, Nat.le_refl _, rfl, hi, hP⟩
    · obtain ⟨l, s', _, _, _, hlt⟩ := hstep s hP hi
      omega
  | succ n ih =>
    intro s hP hμ
    by_cases hi : G s
    · exact ⟨0, s, Nat.zero_le _, rfl, hi, hP⟩
    · obtain ⟨l, s', h1, h2, h3, hlt⟩ := hstep s hP hi
      obtain ⟨k, s'', hk, hs, hi', hP'⟩ := ih s' h3 (by omega)
      exact ⟨k + 1, s'', by omega, by simp [solo, h1, h2, hs], hi', hP'⟩

theorem qok_step {s s' : State} {l : Label} {t : Nat} (h : Reach s) (hq : Quiet s t) (hk : QOk s t)
    (h1 : ownNext s t = some l) (h2 : step s l = some s') (hnd : ∀ r, s.pc t ≠ .done r) : QOk s' t := by
  have I := inv_reach h
  have hok := I.p.ok t
  cases hpc : s.pc t with
  | idle => simp [QOk, hpc] at hk
  | done r => exact absurd hpc (hnd r)
  | enq q old n spl =>
    simp [ownNext, hpc] at h1; subst h1
    simp only [step, hpc, Option.some.injEq] at h2; subst h2
    simp only [QOk, upd, if_true]; split <;> simp
  | e1 k q =>
    simp [ownNext, hpc] at h1; subst h1
    simp only [step, hpc, Option.some.injEq] at h2; subst h2
    by_cases hv : rd s t q = 0
    · simp [QOk, setPc, upd, hv]
    · cases k <;> simp [QOk, setPc, upd, hv, nonEmptyPc]
  | e2 k q =>
    simp [ownNext, hpc] at h1; subst h1
    simp only [step, hpc, Option.some.injEq] at h2; subst h2
    by_cases hv : s.tail q = q
    · cases k <;> simp [QOk, setPc, upd, hv, emptyRes]
    · cases k <;> simp [QOk, setPc, upd, hv, nonEmptyPc]
  | sync k q a =>
    simp [ownNext, hpc] at h1; subst h1
    have hv : rd s t a ≠ 0 := by
      intro hv
      exact quiet_no_inflight hq (by intro q n spl; rw [hpc]; simp) (sync_null_inflight h t q a k hpc hv)
    simp only [step, hpc, hv, ne_eq, not_false_eq_true, if_true, Option.some.injEq] at h2; subst h2
    cases k <;> simp [QOk, setPc, upd, syncGotPc]
    simp [QOk, hpc] at hk
    simp [hk]
  | nx1 q a b =>
    simp [ownNext, hpc] at h1; subst h1
    simp only [step, hpc, Option.some.injEq] at h2; subst h2
    by_cases hv : rd s t a = 0 <;> simp [QOk, setPc, upd, hv]
  | nx2 q a b =>
    simp [ownNext, hpc] at h1; subst h1
    simp only [step, hpc, Option.some.injEq] at h2; subst h2
    by_cases hv : s.tail q = a <;> simp [QOk, setPc, upd, hv]
  | d2 q nd b =>
    simp [ownNext, hpc] at h1; subst h1
    rw [hpc] at hok
    simp only [step, hpc, Option.some.injEq] at h2; subst h2
    by_cases hv : rd s t nd = 0
    · simp only [QOk, setPc, upd, hv, if_true, ne_eq, not_true_eq_false, if_false]
      apply Classical.byContradiction; intro hta
      exact quiet_no_inflight hq (by intro q n spl; rw [hpc]; simp)
        (node_null_inflight h t q nd hok.1.1 (hd_node I hok.1).2 hta hv)
    · simp [QOk, setPc, upd, hv]
  | d3 q nd b =>
    simp [ownNext, hpc] at h1; subst h1
    simp only [step, hpc, Option.some.injEq] at h2; subst h2
    simp [QOk, hpc] at hk
    simp [QOk, upd, hk]
  | d4 q nd b =>
    simp [QOk, hpc] at hk
    by_cases hb : s.buf t = []
    · simp [ownNext, hpc, hb] at h1; subst h1
      simp only [step, hpc, hb, hk, if_true, Option.some.injEq] at h2; subst h2
      simp [QOk, upd]
    · simp [ownNext, hpc, hb] at h1; subst h1
      simp only [step] at h2; split at h2 <;> simp at h2
      subst h2; simp [QOk, hpc, hk]
  | d6 q nd nxt =>
    simp [ownNext, hpc] at h1; subst h1
    simp only [step, hpc, Option.some.injEq] at h2; subst h2
    simp [QOk, upd]
  | d7 q nd => simp [QOk, hpc] at hk
  | s3 dst src b =>
    rw [hpc] at hok
    by_cases hb : s.buf t = []
    · simp [ownNext, hpc, hb] at h1; subst h1
      by_cases hx : s.next src = 0
      · simp only [step, hpc, hb, hx, if_true, ne_eq, not_true_eq_false, if_false, Option.some.injEq] at h2; subst h2
        simp only [QOk, setPc, upd, if_true]
        apply Classical.byContradiction; intro hne
        have hrd : rd s t src = 0 := by simp [rd, hb, hx]
        exact quiet_no_inflight hq (by intro q n spl; rw [hpc]; simp) (head_null_inflight h t src hok.1 hne hrd)
      · simp only [step, hpc, hb, hx, if_true, ne_eq, not_false_eq_true, Option.some.injEq] at h2; subst h2
        simp [QOk, upd]
    · simp [ownNext, hpc, hb] at h1; subst h1
      simp only [step] at h2; split at h2 <;> simp at h2
      subst h2; simp [QOk, hpc]
  | s4 dst src b =>
    rw [hpc] at hok
    simp [ownNext, hpc] at h1; subst h1
    simp [QOk, hpc] at hk
    have := (abs_nil_iff I.a src hok.1.1).1 hk
    simp only [step, hpc, this, if_true, Option.some.injEq] at h2; subst h2
    simp [QOk, setPc, upd]
  | s5 dst src hd =>
    by_cases hb : s.buf t = []
    · simp [ownNext, hpc, hb] at h1; subst h1
      simp only [step, hpc, hb, if_true, Option.some.injEq] at h2; subst h2
      simp [QOk, upd]
    · simp [ownNext, hpc, hb] at h1; subst h1
      simp only [step] at h2; split at h2 <;> simp at h2
      subst h2; simp [QOk, hpc]
  | s6 dst src hd tl =>
    by_cases hb : s.buf t = []
    · simp [ownNext, hpc, hb] at h1; subst h1
      simp only [step, hpc, hb, if_true, Option.some.injEq] at h2; subst h2
      simp [QOk, upd]
    · simp [ownNext, hpc, hb] at h1; subst h1
      simp only [step] at h2; split at h2 <;> simp at h2
      subst h2; simp [QOk, hpc]

def nbQ (t : Nat) (s : State) : Prop := nbP t s ∧ Quiet s t ∧ QOk s t

theorem ownNext_tid {s : State} {t : Nat} {l : Label} (h : ownNext s t = some l) : l.tid = t := by
  unfold ownNext at h
  split at h <;> (try split at h) <;> simp at h <;> subst h <;> rfl

theorem nbq_own_step (t : Nat) (s : State) (hP : nbQ t s) (hi : ¬ ∃ r, s.pc t = .done r) :
    ∃ l s', ownNext s t = some l ∧ step s l = some s' ∧ nbQ t s' ∧ mu s' t < mu s t := by
  obtain ⟨hnb, hq, hk⟩ := hP
  have hidle : s.pc t ≠ .idle := by intro e; simp [QOk, e] at hk
  obtain ⟨l, s', h1, h2, h3, h4⟩ := nb_own_step t s hnb hidle
  exact ⟨l, s', h1, h2, ⟨h3, quiet_own_step hq h2 (ownNext_tid h1),
    qok_step hnb.1 hq hk h1 h2 (fun r e => hi ⟨r, e⟩)⟩, h4⟩

/-- **nonblocking_quiet_succeeds**: with every other thread outside the API and its stores
flushed, a non-blocking dequeue / first / next / splice that is started (`e1` resp. `nx1`) reaches
its return with a proper result – node, NULL, SRC_EMPTY or DEST_(NON_)EMPTY, never WOULDBLOCK –
within `11 + |own buffer|` own steps -/
theorem nonblocking_quiet_succeeds {s : State} (h : Reach s) (t : Nat) (hq : Quiet s t)
    (hpc : (∃ k q, s.pc t = .e1 k q ∧ k.blocking = false) ∨ (∃ q a, s.pc t = .nx1 q a false)) :
    ∃ k s' r, k ≤ 11 + (s.buf t).length ∧ solo t k s = some s' ∧ s'.pc t = .done r ∧ r ≠ .wouldblock ∧ Reach s' := by
  have hP : nbQ t s := by
    rcases hpc with ⟨k, q, h1, h2⟩ | ⟨q, a, h1⟩
    · exact ⟨⟨h, by simp [h1, nbPc, h2]⟩, hq, by simp [QOk, h1]⟩
    · exact ⟨⟨h, by simp [h1, nbPc]⟩, hq, by simp [QOk, h1]⟩
  obtain ⟨k, s', hk, hs, ⟨r, hr⟩, hP'⟩ := solo_until t (mu · t) (nbQ t) (fun s => ∃ r, s.pc t = .done r)
    (nbq_own_step t) (11 + (s.buf t).length) s hP (by simp only [mu]; have := rank_le (s.pc t); omega)
  refine ⟨k, s', r, hk, hs, hr, ?_, hP'.1.1⟩
  have := hP'.2.2; simp [QOk, hr] at this; exact this

end UrcuVerif.Wfcq
