import UrcuVerif.Wfcq.Hist
/-!
Consequences of the invariant used by `Props/C10.lean`: every pending link has an owner (`PndPc`),
concrete memory represents the abstract queues (`Rep`), and the result of every operation
(enqueue, dequeue, empty, splice, first/next) in terms of the abstract FIFO contents.
-/
set_option linter.unusedVariables false
set_option linter.unusedSimpArgs false
namespace UrcuVerif.Wfcq
open Spec

/-! ### every pending link has an owner -/

/-- an append that is between its `xchg` and the issue of its link store belongs to a thread -/
def PndPc (s : State) : Prop := ∀ a, s.pnd a = true → ∃ t, pendOld (s.pc t) = some a

theorem pndPc_of {s s' : State} (h : PndPc s) (t : Nat) (hpnd : s'.pnd = s.pnd)
    (hpc : ∀ u, u ≠ t → s'.pc u = s.pc u) (ht : pendOld (s.pc t) = none) : PndPc s' := by
  intro a ha
  rw [hpnd] at ha
  obtain ⟨u, hu⟩ := h a ha
  have : u ≠ t := by intro e; subst e; rw [ht] at hu; simp at hu
  exact ⟨u, by rw [hpc u this]; exact hu⟩

theorem pndPc_same {s s' : State} (h : PndPc s) (hpnd : s'.pnd = s.pnd) (hpc : s'.pc = s.pc) : PndPc s' := by
  intro a ha
  rw [hpnd] at ha
  obtain ⟨u, hu⟩ := h a ha
  exact ⟨u, by rw [hpc]; exact hu⟩

theorem pndPc_set {s s' : State} (h : PndPc s) (t old : Nat) (p : Pc) (hpnd : s'.pnd = upd s.pnd old true)
    (hpc : s'.pc = upd s.pc t p) (hp : pendOld p = some old) (ht : pendOld (s.pc t) = none) : PndPc s' := by
  intro a ha
  rw [hpnd] at ha; simp only [upd] at ha
  by_cases e : a = old
  · subst e; exact ⟨t, by rw [hpc]; simp [upd, hp]⟩
  · simp only [e, if_false] at ha
    obtain ⟨u, hu⟩ := h a ha
    have : u ≠ t := by intro e; subst e; rw [ht] at hu; simp at hu
    exact ⟨u, by rw [hpc]; simp [upd, this, hu]⟩

theorem upd_ne {α} (f : Nat → α) (t : Nat) (v : α) (u : Nat) (h : u ≠ t) : upd f t v u = f u := by simp [upd, h]

theorem pndPc_step {s s' : State} {l : Label} (h : PndPc s) (st : step s l = some s') : PndPc s' := by
  cases l with
  | flush t => simp only [step] at st; split at st <;> simp at st; subst st; exact pndPc_same h rfl rfl
  | fence t => simp only [step] at st; split at st <;> simp at st; subst st; exact pndPc_same h rfl rfl
  | acquire t q => simp only [step] at st; split at st <;> simp at st; subst st; exact pndPc_same h rfl rfl
  | release t q => simp only [step] at st; split at st <;> simp at st; subst st; exact pndPc_same h rfl rfl
  | enqXchg t q n =>
    simp only [step] at st; split at st <;> simp at st
    rename_i hg; subst st
    exact pndPc_set h t (s.tail q) _ rfl rfl rfl (by rw [hg.1]; rfl)
  | stIssue t =>
    simp only [step] at st; split at st <;> simp at st
    rename_i q old n spl hpc; subst st
    intro a ha
    simp only [upd] at ha
    by_cases e : a = old
    · simp [e] at ha
    · simp only [e, if_false] at ha
      obtain ⟨u, hu⟩ := h a ha
      have : u ≠ t := by intro e2; subst e2; rw [hpc] at hu; simp [pendOld] at hu; exact e hu.symm
      exact ⟨u, by simp [upd, this, hu]⟩
  | s6 t =>
    simp only [step] at st; split at st <;> try (simp at st; done)
    rename_i dst src h' tl hpc
    split at st <;> simp at st
    subst st
    exact pndPc_set h t (s.tail dst) _ rfl rfl rfl (by rw [hpc]; rfl)
  | callEmpty t q =>
    simp only [step] at st; split at st <;> simp at st
    rename_i hg; subst st
    exact pndPc_of h t rfl (fun u hu => upd_ne _ _ _ _ hu) (by rw [hg.1]; rfl)
  | callFirst t q b =>
    simp only [step] at st; split at st <;> simp at st
    rename_i hg; subst st
    exact pndPc_of h t rfl (fun u hu => upd_ne _ _ _ _ hu) (by rw [hg.1]; rfl)
  | callNext t q a b =>
    simp only [step] at st; split at st <;> simp at st
    rename_i hg; subst st
    exact pndPc_of h t rfl (fun u hu => upd_ne _ _ _ _ hu) (by rw [hg.1]; rfl)
  | callDeq t q b =>
    simp only [step] at st; split at st <;> simp at st
    rename_i hg; subst st
    exact pndPc_of h t rfl (fun u hu => upd_ne _ _ _ _ hu) (by rw [hg.1]; rfl)
  | callSplice t dst src b =>
    simp only [step] at st; split at st <;> simp at st
    rename_i hg; subst st
    exact pndPc_of h t rfl (fun u hu => upd_ne _ _ _ _ hu) (by rw [hg.1]; rfl)
  | ld1 t =>
    simp only [step] at st; split at st <;> simp at st
    rename_i k q hpc; subst st
    exact pndPc_of h t rfl (fun u hu => upd_ne _ _ _ _ hu) (by rw [hpc]; rfl)
  | ld2 t =>
    simp only [step] at st; split at st <;> simp at st
    rename_i k q hpc; subst st
    exact pndPc_of h t rfl (fun u hu => upd_ne _ _ _ _ hu) (by rw [hpc]; rfl)
  | sync t =>
    simp only [step] at st; split at st <;> try (simp at st; done)
    rename_i k q a hpc
    split at st
    · simp at st; subst st; exact pndPc_of h t rfl (fun u hu => upd_ne _ _ _ _ hu) (by rw [hpc]; rfl)
    · split at st <;> simp at st <;> subst st
      · exact h
      · exact pndPc_of h t rfl (fun u hu => upd_ne _ _ _ _ hu) (by rw [hpc]; rfl)
  | nx1 t =>
    simp only [step] at st; split at st <;> simp at st
    rename_i q a b hpc; subst st
    exact pndPc_of h t rfl (fun u hu => upd_ne _ _ _ _ hu) (by rw [hpc]; rfl)
  | nx2 t =>
    simp only [step] at st; split at st <;> simp at st
    rename_i q a b hpc; subst st
    exact pndPc_of h t rfl (fun u hu => upd_ne _ _ _ _ hu) (by rw [hpc]; rfl)
  | d2 t =>
    simp only [step] at st; split at st <;> simp at st
    rename_i q a b hpc; subst st
    exact pndPc_of h t rfl (fun u hu => upd_ne _ _ _ _ hu) (by rw [hpc]; rfl)
  | d3 t =>
    simp only [step] at st; split at st <;> simp at st
    rename_i q a b hpc; subst st
    exact pndPc_of h t rfl (fun u hu => upd_ne _ _ _ _ hu) (by rw [hpc]; rfl)
  | d4 t =>
    simp only [step] at st; split at st <;> try (simp at st; done)
    rename_i q a b hpc
    split at st <;> try (simp at st; done)
    split at st <;> (simp at st; subst st; exact pndPc_of h t rfl (fun u hu => upd_ne _ _ _ _ hu) (by rw [hpc]; rfl))
  | d6 t =>
    simp only [step] at st; split at st <;> simp at st
    rename_i q a b hpc; subst st
    exact pndPc_of h t rfl (fun u hu => upd_ne _ _ _ _ hu) (by rw [hpc]; rfl)
  | d7 t =>
    simp only [step] at st; split at st <;> simp at st
    rename_i q a hpc; subst st
    exact pndPc_of h t rfl (fun u hu => upd_ne _ _ _ _ hu) (by rw [hpc]; rfl)
  | s3 t =>
    simp only [step] at st; split at st <;> try (simp at st; done)
    rename_i q a b hpc
    split at st <;> try (simp at st; done)
    split at st <;> (simp at st; subst st; exact pndPc_of h t rfl (fun u hu => upd_ne _ _ _ _ hu) (by rw [hpc]; rfl))
  | s4 t =>
    simp only [step] at st; split at st <;> simp at st
    rename_i q a b hpc; subst st
    exact pndPc_of h t rfl (fun u hu => upd_ne _ _ _ _ hu) (by rw [hpc]; rfl)
  | s5 t =>
    simp only [step] at st; split at st <;> try (simp at st; done)
    rename_i q a b hpc
    split at st <;> simp at st
    subst st; exact pndPc_of h t rfl (fun u hu => upd_ne _ _ _ _ hu) (by rw [hpc]; rfl)
  | ret t =>
    simp only [step] at st; split at st <;> simp at st
    rename_i r hpc; subst st
    exact pndPc_of h t rfl (fun u hu => upd_ne _ _ _ _ hu) (by rw [hpc]; rfl)

theorem pndPc_reach {s : State} (h : Reach s) : PndPc s := by
  induction h with
  | init => intro a ha; simp [init] at ha
  | step _ st ih => exact pndPc_step ih st

/-! ### concrete memory represents the abstract queues -/

/-- the link `p → a` is in memory, or on its way to memory: in some store buffer (newest entry for
`p`), or its append is between the `xchg` and the store (`Pc.enq _ p a _`).  Concrete state only. -/
def Link (s : State) (p a : Nat) : Prop :=
  s.next p = a ∨ (∃ t, lastFor (s.buf t) p = some a) ∨ (∃ t q spl, s.pc t = .enq q p a spl)

/-- **concrete memory represents `abs q`**: the tail pointer is the last node (or the head); the
last node's `next` is NULL with no store to it in flight; every other queued node is linked to its
successor; the head is linked to the first node unless the consumer is inside its window
(between clearing `head.next` and re-linking it, `inWin`). -/
structure Rep (s : State) (q : Nat) : Prop where
  tail : s.tail q = lastOf q (s.abs q)
  last : s.next (s.tail q) = 0 ∧ ∀ t, lastFor (s.buf t) (s.tail q) = none
  nodes : ∀ p a, succOf p (s.abs q) = some a → Link s p a
  head : ∀ a l, s.abs q = a :: l → (∀ t, ¬ inWin (s.pc t) q) → Link s q a

theorem link_of {s : State} (I : Inv s) (hp : PndPc s) (p : Nat) (hexp : ∀ t v, lastFor (s.buf t) p = some v → v = s.lnx p)
    (hmem : s.wr p = none → s.pnd p = false → s.next p = s.lnx p) : Link s p (s.lnx p) := by
  cases hw : s.wr p with
  | some u =>
    have h1 := I.m.wr_ent u p hw
    cases h2 : lastFor (s.buf u) p with
    | none => exact absurd h2 h1
    | some v => right; left; exact ⟨u, by rw [h2, hexp u v h2]⟩
  | none =>
    cases hpn : s.pnd p with
    | false => left; exact hmem hw hpn
    | true =>
      right; right
      obtain ⟨u, hu⟩ := hp p hpn
      have hk := I.p.ok u
      cases hpcu : s.pc u with
      | enq q0 old n spl =>
        rw [hpcu] at hu hk
        simp [pendOld] at hu; subst hu
        exact ⟨u, q0, spl, by rw [hk.2.2.1]; exact hpcu⟩
      | _ => rw [hpcu] at hu; simp [pendOld] at hu

theorem rep_reach {s : State} (h : Reach s) (q : Nat) (hq : isQ q) : Rep s q := by
  have I := inv_reach h
  have hp := pndPc_reach h
  refine ⟨(I.a.last q hq).symm, ?_, ?_, ?_⟩
  · obtain ⟨h1, h2, -⟩ := I.m.tail_ok q hq
    refine ⟨h1, fun t => ?_⟩
    cases h3 : lastFor (s.buf t) (s.tail q) with
    | none => rfl
    | some v => have := I.m.ent_wr t _ v (lastFor_mem _ _ _ h3); rw [h2] at this; simp at this
  · intro p a hs
    have hpm : p ∈ s.abs q := by
      apply Classical.byContradiction; intro hn; rw [succOf_notin p _ hn] at hs; simp at hs
    have hp3 := node_ge I.a hq hpm
    rcases abs_succ I.a hq hpm with ⟨-, h2⟩ | ⟨h2, -⟩
    · rw [h2] at hs; simp at hs
    · rw [h2] at hs; simp at hs; subst hs
      apply link_of I hp
      · intro t v hv; exact I.m.ent_node t p v (lastFor_mem _ _ _ hv) hp3
      · intro hw hpn; exact I.m.mem_node_eq p hp3 (I.a.nodes p (mem_abs_all hq hpm)).2 hw hpn
  · intro a l hab hnw
    have hhc : s.hclr q = false := by
      cases hh : s.hclr q with
      | false => rfl
      | true =>
        obtain ⟨h1, h2⟩ := I.p.hclr_win q hh
        cases hl : s.lock q with
        | none => exact absurd hl h1
        | some t => exact absurd (h2 t hl) (hnw t)
    have hlx : s.lnx q = a := by have := I.a.linked q hq; rw [hab] at this; exact this.1
    have hexp : exp s q = a := by simp [exp, hhc, hlx]
    rw [← hlx]
    apply link_of I hp
    · intro t v hv; rw [I.m.last_head t q v hq hv, hexp, hlx]
    · intro hw hpn; rw [I.m.mem_head q hq hw hpn, hexp, hlx]

/-! ### results of the operations -/

/-- enqueue, at its `xchg`: the node is appended, and the old tail the `xchg` returned is the
head iff the abstract queue was empty -/
theorem enq_result {s s' : State} (h : Reach s) (t q n : Nat) (st : step s (.enqXchg t q n) = some s') :
    s'.abs q = s.abs q ++ [n] ∧ s'.pc t = .enq q (s.tail q) n false ∧
    (decide (s.tail q ≠ q) = !(s.abs q).isEmpty) ∧ s'.limbo = s.limbo ∧ ∀ q', q' ≠ q → s'.abs q' = s.abs q' := by
  have I := inv_reach h
  simp only [step] at st
  split at st <;> try (simp at st; done)
  rename_i hg
  simp only [Option.some.injEq] at st; subst st
  have := abs_nil_iff I.a q hg.2.1
  refine ⟨by simp [upd], by simp [upd], ?_, rfl, fun q' hq' => by simp [upd, hq']⟩
  by_cases e : s.tail q = q
  · simp [e, this.2 e]
  · have h2 : s.abs q ≠ [] := fun h => e (this.1 h)
    simp [e, isEmpty_false_of_ne h2]

/-- … and the value `___cds_wfcq_append` returns afterwards is `old_tail != &head->node` -/
theorem enq_ret {s s' : State} (t q old n : Nat) (spl : Bool) (hp : s.pc t = .enq q old n spl)
    (st : step s (.stIssue t) = some s') :
    s'.pc t = .done (if spl then .dest (decide (old ≠ q)) else .bool (decide (old ≠ q))) ∧
    s'.abs = s.abs ∧ s'.limbo = s.limbo := by
  simp only [step, hp, Option.some.injEq] at st; subst st
  exact ⟨by simp [upd], rfl, rfl⟩

/-- dequeue of a node that has a successor (`d6`: the store that moves the head forward) -/
theorem deq_result {s s' : State} (h : Reach s) (t q nd nxt : Nat) (hp : s.pc t = .d6 q nd nxt)
    (st : step s (.d6 t) = some s') :
    s.abs q = nd :: s'.abs q ∧ s'.abs q ≠ [] ∧ s'.pc t = .done (.node nd false) ∧ s'.limbo = s.limbo ∧
    ∀ q', q' ≠ q → s'.abs q' = s.abs q' := by
  have I := inv_reach h
  have hk := I.p.ok t; rw [hp] at hk
  obtain ⟨hhd, hnx0, hnx, -⟩ := hk
  obtain ⟨l, hab, hnd3, -, -⟩ := hd_facts I hhd
  have hq := hhd.1
  have hls := I.a.last q hq; rw [hab] at hls
  have hlt := I.a.lnxtail q hq
  have hl : l ≠ [] := by
    intro e; subst e; simp at hls; rw [← hls] at hlt; rw [hlt] at hnx; exact hnx0 hnx
  simp only [step, hp, Option.some.injEq] at st; subst st
  exact ⟨by simp [upd, hab], by simp [upd, hab, hl], by simp [upd], rfl, fun q' hq' => by simp [upd, hq']⟩

/-- dequeue of the last node (`d4`): the `cmpxchg` of the tail succeeds iff the node is the only
one; then the queue is empty and `CDS_WFCQ_STATE_LAST` is reported; otherwise nothing changes and
the dequeuer waits for the link -/
theorem deq_last_result {s s' : State} (h : Reach s) (t q nd : Nat) (b : Bool) (hp : s.pc t = .d4 q nd b)
    (st : step s (.d4 t) = some s') :
    (s.tail q = nd ∧ s.abs q = [nd] ∧ s'.abs q = [] ∧ s'.tail q = q ∧ s'.pc t = .done (.node nd true)) ∨
    (s.tail q ≠ nd ∧ (∃ l, s.abs q = nd :: l ∧ l ≠ []) ∧ s'.abs = s.abs ∧ s'.pc t = .sync (.deq b) q nd) := by
  have I := inv_reach h
  have hk := I.p.ok t; rw [hp] at hk
  obtain ⟨hhd, -⟩ := hk
  obtain ⟨l, hab, hnd3, -, -⟩ := hd_facts I hhd
  have hq := hhd.1
  have hls := I.a.last q hq; rw [hab] at hls
  simp only [lastOf_cons] at hls
  simp only [step, hp] at st
  split at st <;> try (simp at st; done)
  split at st
  · rename_i htl
    simp only [Option.some.injEq] at st; subst st
    have hl : l = [] := by
      have hn := abs_nodup I.a hq; rw [hab] at hn
      exact lastOf_eq_head nd l hn (by rw [hls, htl])
    subst hl
    left; exact ⟨htl, hab, by simp [upd, hab], by simp [upd], by simp [upd]⟩
  · rename_i htl
    simp only [Option.some.injEq] at st; subst st
    right
    refine ⟨htl, ⟨l, hab, ?_⟩, rfl, by simp [setPc, upd]⟩
    intro e; subst e; simp at hls; exact htl hls.symm

/-- `_cds_wfcq_empty` inside any operation: the answer "empty" is given exactly when the abstract
queue is empty at the load of `tail.p` -/
theorem empty_tail_load {s s' : State} (h : Reach s) (t q : Nat) (k : K) (hp : s.pc t = .e2 k q)
    (st : step s (.ld2 t) = some s') :
    (s.abs q = [] ∧ s'.pc t = .done (emptyRes k)) ∨ (s.abs q ≠ [] ∧ s'.pc t = nonEmptyPc k q) := by
  have I := inv_reach h
  have hk := I.p.ok t; rw [hp] at hk
  have hq : isQ q := by cases k <;> simp only [PcOk, EOk, Cons] at hk <;> first | exact hk | exact hk.1 | exact hk.1.1 | exact hk.elim
  have hiff := abs_nil_iff I.a q hq
  simp only [step, hp, Option.some.injEq] at st; subst st
  by_cases e : s.tail q = q
  · left; exact ⟨hiff.2 e, by simp [setPc, upd, e]⟩
  · right; exact ⟨fun h => e (hiff.1 h), by simp [setPc, upd, e]⟩

/-- … and a non-NULL `head.next` is seen only when the queue is not empty -/
theorem empty_head_load {s s' : State} (h : Reach s) (t q : Nat) (k : K) (hp : s.pc t = .e1 k q)
    (st : step s (.ld1 t) = some s') :
    (rd s t q ≠ 0 ∧ s.abs q ≠ [] ∧ s'.pc t = nonEmptyPc k q) ∨ (rd s t q = 0 ∧ s'.pc t = .e2 k q) := by
  have I := inv_reach h
  have hk := I.p.ok t; rw [hp] at hk
  have hq : isQ q := by cases k <;> simp only [PcOk, EOk, Cons] at hk <;> first | exact hk | exact hk.1 | exact hk.1.1 | exact hk.elim
  simp only [step, hp, Option.some.injEq] at st; subst st
  by_cases e : rd s t q = 0
  · right; exact ⟨e, by simp [setPc, upd, e]⟩
  · left; exact ⟨e, rd_head_any I t q hq e, by simp [setPc, upd, e]⟩

/-- splice, source side (`s5`, the `xchg` of the source tail): the whole content leaves the
source, in order, and the source is left in the state of a freshly initialised queue -/
theorem splice_out_result {s s' : State} (h : Reach s) (t dst src hd : Nat) (hp : s.pc t = .s5 dst src hd)
    (st : step s (.s5 t) = some s') :
    s.abs src ≠ [] ∧ s.limbo src = [] ∧ s'.limbo src = s.abs src ∧ s'.abs src = [] ∧
    s'.tail src = src ∧ s'.next src = 0 ∧ (∀ u, lastFor (s'.buf u) src = none) ∧
    s'.pc t = .s6 dst src hd (s.tail src) ∧ (s.abs src).head? = some hd ∧ lastOf src (s.abs src) = s.tail src ∧
    s'.abs dst = s.abs dst := by
  have I := inv_reach h
  have hk := I.p.ok t; rw [hp] at hk
  obtain ⟨hd', hs, hne, hlk, hhc, hh, hh0, hnx, hwn, hpn⟩ := hk
  have hab : s.abs src ≠ [] := by
    intro he; have := I.m.empty_ok src hs he; rw [hhc] at this; simp at this
  have hlim : s.limbo src = [] := limbo_nil_of_pc I hs hlk (by rw [hp]; simp [inS6])
  obtain ⟨l, hl⟩ := abs_head I.a hs hab
  simp only [step, hp] at st
  split at st <;> try (simp at st; done)
  simp only [Option.some.injEq] at st; subst st
  refine ⟨hab, hlim, by simp [upd], by simp [upd], by simp [upd], hnx, ?_, by simp [upd], by rw [hl, hh]; rfl,
    I.a.last src hs, by simp [upd, hne]⟩
  intro u
  cases h3 : lastFor (s.buf u) src with
  | none => rfl
  | some v => have := I.m.ent_wr u _ v (lastFor_mem _ _ _ h3); rw [hwn] at this; simp at this

/-- splice, destination side (`s6`, the `xchg` of the destination tail): the chain in transit is
appended to the destination, in order -/
theorem splice_in_result {s s' : State} (h : Reach s) (t dst src hd tl : Nat) (hp : s.pc t = .s6 dst src hd tl)
    (st : step s (.s6 t) = some s') :
    s'.abs dst = s.abs dst ++ s.limbo src ∧ s'.limbo src = [] ∧ s'.abs src = s.abs src ∧
    s'.pc t = .enq dst (s.tail dst) hd true ∧ (decide (s.tail dst ≠ dst) = !(s.abs dst).isEmpty) := by
  have I := inv_reach h
  have hk := I.p.ok t; rw [hp] at hk
  obtain ⟨hd', hs, hne, -⟩ := hk
  simp only [step, hp] at st
  split at st <;> try (simp at st; done)
  simp only [Option.some.injEq] at st; subst st
  refine ⟨by simp [upd], by simp [upd], by simp [upd, Ne.symm hne], by simp [upd], ?_⟩
  have := abs_nil_iff I.a dst hd'
  by_cases e : s.tail dst = dst
  · simp [e, this.2 e]
  · have h2 : s.abs dst ≠ [] := fun h => e (this.1 h)
    simp [e, isEmpty_false_of_ne h2]

/-- a step of a thread that does not hold the consumer role of `q` can only append to `q`, and
never touches the chain a splicer of `q` has in transit -/
theorem others_only_append {s s' : State} {l : Label} (h : Reach s) (t q : Nat) (hl : s.lock q = some t)
    (hne : l.tid ≠ t) (st : step s l = some s') :
    (∃ m, s'.abs q = s.abs q ++ m) ∧ s'.limbo q = s.limbo q := by
  have I := inv_reach h
  have hq := I.p.lock_q q t hl
  have hsame : s'.abs = s.abs → s'.limbo = s.limbo → (∃ m, s'.abs q = s.abs q ++ m) ∧ s'.limbo q = s.limbo q :=
    fun h1 h2 => ⟨⟨[], by rw [h1]; simp⟩, by rw [h2]⟩
  cases l with
  | enqXchg t' q' n =>
    obtain ⟨h1, -, -, h4, h5⟩ := enq_result h t' q' n st
    refine ⟨?_, by rw [h4]⟩
    by_cases e : q = q'
    · subst e; exact ⟨[n], h1⟩
    · exact ⟨[], by rw [h5 q e]; simp⟩
  | d6 t' =>
    simp only [Label.tid] at hne
    have hk := I.p.ok t'
    cases hpc : s.pc t' with
    | d6 q' nd nxt =>
      rw [hpc] at hk
      have : q ≠ q' := by intro e; subst e; rw [hk.1.2.1] at hl; simp at hl; exact hne hl
      obtain ⟨-, -, -, h4, h5⟩ := deq_result h t' q' nd nxt hpc st
      exact ⟨⟨[], by rw [h5 q this]; simp⟩, by rw [h4]⟩
    | _ => simp [step, hpc] at st
  | d4 t' =>
    simp only [Label.tid] at hne
    have hk := I.p.ok t'
    cases hpc : s.pc t' with
    | d4 q' nd b =>
      rw [hpc] at hk
      have : q ≠ q' := by intro e; subst e; rw [hk.1.2.1] at hl; simp at hl; exact hne hl
      simp only [step, hpc] at st
      split at st <;> try (simp at st; done)
      split at st <;> (simp only [Option.some.injEq] at st; subst st)
      · exact ⟨⟨[], by simp [upd, this]⟩, rfl⟩
      · exact hsame rfl rfl
    | _ => simp [step, hpc] at st
  | s5 t' =>
    simp only [Label.tid] at hne
    have hk := I.p.ok t'
    cases hpc : s.pc t' with
    | s5 dst src hd =>
      rw [hpc] at hk
      have : q ≠ src := by intro e; subst e; rw [hk.2.2.2.1] at hl; simp at hl; exact hne hl
      simp only [step, hpc] at st
      split at st <;> try (simp at st; done)
      simp only [Option.some.injEq] at st; subst st
      exact ⟨⟨[], by simp [upd, this]⟩, by simp [upd, this]⟩
    | _ => simp [step, hpc] at st
  | s6 t' =>
    simp only [Label.tid] at hne
    have hk := I.p.ok t'
    cases hpc : s.pc t' with
    | s6 dst src hd tl =>
      rw [hpc] at hk
      have : q ≠ src := by intro e; subst e; rw [hk.2.2.2.1] at hl; simp at hl; exact hne hl
      simp only [step, hpc] at st
      split at st <;> try (simp at st; done)
      simp only [Option.some.injEq] at st; subst st
      refine ⟨?_, by simp [upd, this]⟩
      by_cases e : q = dst
      · subst e; exact ⟨s.limbo src, by simp [upd]⟩
      · exact ⟨[], by simp [upd, e]⟩
    | _ => simp [step, hpc] at st
  | flush t' => simp only [step] at st; split at st <;> simp at st; subst st; exact hsame rfl rfl
  | fence t' => simp only [step] at st; split at st <;> simp at st; subst st; exact hsame rfl rfl
  | acquire t' q' => simp only [step] at st; split at st <;> simp at st; subst st; exact hsame rfl rfl
  | release t' q' => simp only [step] at st; split at st <;> simp at st; subst st; exact hsame rfl rfl
  | stIssue t' => simp only [step] at st; split at st <;> simp at st; subst st; exact hsame rfl rfl
  | callEmpty t' q' => simp only [step] at st; split at st <;> simp at st; subst st; exact hsame rfl rfl
  | callFirst t' q' b => simp only [step] at st; split at st <;> simp at st; subst st; exact hsame rfl rfl
  | callNext t' q' a b => simp only [step] at st; split at st <;> simp at st; subst st; exact hsame rfl rfl
  | callDeq t' q' b => simp only [step] at st; split at st <;> simp at st; subst st; exact hsame rfl rfl
  | callSplice t' d' s'' b => simp only [step] at st; split at st <;> simp at st; subst st; exact hsame rfl rfl
  | ld1 t' => simp only [step] at st; split at st <;> simp at st; subst st; exact hsame rfl rfl
  | ld2 t' => simp only [step] at st; split at st <;> simp at st; subst st; exact hsame rfl rfl
  | sync t' =>
    simp only [step] at st; split at st <;> try (simp at st; done)
    split at st
    · simp at st; subst st; exact hsame rfl rfl
    · split at st <;> simp at st <;> subst st <;> exact hsame rfl rfl
  | nx1 t' => simp only [step] at st; split at st <;> simp at st; subst st; exact hsame rfl rfl
  | nx2 t' => simp only [step] at st; split at st <;> simp at st; subst st; exact hsame rfl rfl
  | d2 t' => simp only [step] at st; split at st <;> simp at st; subst st; exact hsame rfl rfl
  | d3 t' => simp only [step] at st; split at st <;> simp at st; subst st; exact hsame rfl rfl
  | d7 t' => simp only [step] at st; split at st <;> simp at st; subst st; exact hsame rfl rfl
  | s3 t' =>
    simp only [step] at st; split at st <;> try (simp at st; done)
    split at st <;> try (simp at st; done)
    split at st <;> (simp only [Option.some.injEq] at st; subst st; exact hsame rfl rfl)
  | s4 t' => simp only [step] at st; split at st <;> simp at st; subst st; exact hsame rfl rfl
  | ret t' => simp only [step] at st; split at st <;> simp at st; subst st; exact hsame rfl rfl


/-- a step of thread `l.tid` does not touch the program counter or the store buffer of another thread -/
theorem step_frame {s s' : State} {l : Label} (st : step s l = some s') (u : Nat) (hu : u ≠ l.tid) :
    s'.pc u = s.pc u ∧ s'.buf u = s.buf u := by
  cases l <;> simp only [step] at st <;> (repeat' split at st) <;>
    first
    | (simp at st; done)
    | (simp only [Option.some.injEq] at st; subst st; simp only [Label.tid] at hu
       simp [setPc, upd, issue, hu])

/-- the only ways to the answer NULL: the load of `tail.p` found the queue empty (`ld2`), or
`next(a)` found `a` to be the tail (`nx2`) -/
theorem null_only {s s' : State} {l : Label} (st : step s l = some s') (t : Nat)
    (hn : s'.pc t = .done .null) (ho : s.pc t ≠ .done .null) :
    (∃ k q, s.pc t = .e2 k q ∧ s.tail q = q ∧ l = .ld2 t) ∨ (∃ q a b, s.pc t = .nx2 q a b ∧ s.tail q = a ∧ l = .nx2 t) := by
  by_cases hu : t = l.tid
  · subst hu
    cases l with
    | ld1 t =>
      simp only [Label.tid] at hn ho ⊢
      simp only [step] at st; split at st <;> try (simp at st; done)
      rename_i k q hpc
      simp only [Option.some.injEq] at st; subst st
      exfalso
      cases k <;> simp [setPc, upd, nonEmptyPc] at hn <;> split at hn <;> simp at hn
    | ld2 t =>
      simp only [Label.tid] at hn ho ⊢
      simp only [step] at st; split at st <;> try (simp at st; done)
      rename_i k q hpc
      simp only [Option.some.injEq] at st; subst st
      by_cases e : s.tail q = q
      · left; exact ⟨k, q, hpc, e, trivial⟩
      · exfalso
        cases k <;> simp [setPc, upd, nonEmptyPc, e] at hn
    | sync t =>
      simp only [Label.tid] at hn ho ⊢
      simp only [step] at st; split at st <;> try (simp at st; done)
      rename_i k q a hpc
      exfalso
      split at st
      · simp only [Option.some.injEq] at st; subst st
        cases k <;> simp [setPc, upd, syncGotPc] at hn
        split at hn <;> simp at hn
      · split at st <;> (simp only [Option.some.injEq] at st; subst st)
        · exact ho hn
        · cases k <;> simp [setPc, upd, syncWbPc] at hn
          split at hn <;> simp at hn
    | nx2 t =>
      simp only [Label.tid] at hn ho ⊢
      simp only [step] at st; split at st <;> try (simp at st; done)
      rename_i q a b hpc
      simp only [Option.some.injEq] at st; subst st
      by_cases e : s.tail q = a
      · right; exact ⟨q, a, b, hpc, e, trivial⟩
      · exfalso; simp [setPc, upd, e] at hn
    | _ =>
      simp only [step] at st <;> (repeat' split at st) <;>
      first
      | (simp at st; done)
      | (simp only [Option.some.injEq] at st; subst st; simp only [Label.tid] at hn ho ⊢
         simp [setPc, upd, issue] at hn
         done)
      | (simp only [Option.some.injEq] at st; subst st; simp only [Label.tid] at hn ho ⊢
         simp_all [setPc, upd, issue]
         done)
  · rw [(step_frame st t hu).1] at hn; exact absurd hn ho


/-! ### iteration -/

/-- `first`: the node `sync_next(&head)` returns is the first node of the abstract queue -/
theorem first_result {s s' : State} (h : Reach s) (t q : Nat) (b : Bool) (hp : s.pc t = .sync (.first b) q q)
    (hv : rd s t q ≠ 0) (st : step s (.sync t) = some s') :
    (∃ l, s.abs q = rd s t q :: l) ∧ s'.pc t = .done (.node (rd s t q) false) ∧ s'.abs = s.abs := by
  have I := inv_reach h
  have hk := I.p.ok t; rw [hp] at hk
  obtain ⟨-, hc⟩ := hk
  obtain ⟨hhd, -⟩ := rd_head_cons I t q hc hv
  obtain ⟨l, hl⟩ := abs_head I.a hc.1 hhd.2.2.1
  rw [hhd.2.2.2.1] at hl
  simp only [step, hp, hv, ne_eq, not_false_eq_true, if_true, Option.some.injEq] at st; subst st
  exact ⟨⟨l, hl⟩, by simp [setPc, upd, syncGotPc], rfl⟩

/-- `next(a)`, fast path: a non-NULL `a->next` is the successor of `a` in the abstract queue -/
theorem next_result_fast {s s' : State} (h : Reach s) (t q a : Nat) (b : Bool) (hp : s.pc t = .nx1 q a b)
    (st : step s (.nx1 t) = some s') :
    (rd s t a ≠ 0 ∧ succOf a (s.abs q) = some (rd s t a) ∧ s'.pc t = .done (.node (rd s t a) false)) ∨
    (rd s t a = 0 ∧ s'.pc t = .nx2 q a b) := by
  have I := inv_reach h
  have hk := I.p.ok t; rw [hp] at hk
  obtain ⟨hq, hl, ha⟩ := hk
  simp only [step, hp, Option.some.injEq] at st; subst st
  by_cases e : rd s t a = 0
  · right; exact ⟨e, by simp [setPc, upd, e]⟩
  · left; exact ⟨e, next_got I hq ha e, by simp [setPc, upd, e]⟩

/-- `next(a)`, end test: NULL is returned exactly when `a` is the last node of the abstract queue -/
theorem next_result_end {s s' : State} (h : Reach s) (t q a : Nat) (b : Bool) (hp : s.pc t = .nx2 q a b)
    (st : step s (.nx2 t) = some s') :
    (s.tail q = a ∧ succOf a (s.abs q) = none ∧ s'.pc t = .done .null) ∨
    (s.tail q ≠ a ∧ (∃ n, succOf a (s.abs q) = some n) ∧ s'.pc t = .sync (.next b) q a) := by
  have I := inv_reach h
  have hk := I.p.ok t; rw [hp] at hk
  obtain ⟨hq, hl, ha⟩ := hk
  simp only [step, hp, Option.some.injEq] at st; subst st
  by_cases e : s.tail q = a
  · left
    refine ⟨e, ?_, by simp [setPc, upd, e]⟩
    rcases abs_succ I.a hq ha with ⟨-, h2⟩ | ⟨-, h2⟩
    · exact h2
    · exfalso; have := I.a.lnxtail q hq; rw [e] at this; omega
  · right
    refine ⟨e, ?_, by simp [setPc, upd, e]⟩
    rcases abs_succ I.a hq ha with ⟨h1, -⟩ | ⟨h2, -⟩
    · exact absurd h1.symm e
    · exact ⟨_, h2⟩

/-- `next(a)` after waiting for the link -/
theorem next_result_sync {s s' : State} (h : Reach s) (t q a : Nat) (b : Bool) (hp : s.pc t = .sync (.next b) q a)
    (hv : rd s t a ≠ 0) (st : step s (.sync t) = some s') :
    succOf a (s.abs q) = some (rd s t a) ∧ s'.pc t = .done (.node (rd s t a) false) ∧ s'.abs = s.abs := by
  have I := inv_reach h
  have hk := I.p.ok t; rw [hp] at hk
  obtain ⟨hq, hl, ha⟩ := hk
  simp only [step, hp, hv, ne_eq, not_false_eq_true, if_true, Option.some.injEq] at st; subst st
  exact ⟨next_got I hq ha hv, by simp [setPc, upd, syncGotPc], rfl⟩

/-- dequeue: the node `sync_next(&head)` returns is the first node of the abstract queue -/
theorem deq_head_result {s s' : State} (h : Reach s) (t q : Nat) (b : Bool) (hp : s.pc t = .sync (.deq b) q q)
    (hv : rd s t q ≠ 0) (st : step s (.sync t) = some s') :
    (∃ l, s.abs q = rd s t q :: l) ∧ s'.pc t = .d2 q (rd s t q) b ∧ s'.abs = s.abs := by
  have I := inv_reach h
  have hk := I.p.ok t; rw [hp] at hk
  have hc := hk.1 rfl
  obtain ⟨hhd, -⟩ := rd_head_cons I t q hc hv
  obtain ⟨l, hl⟩ := abs_head I.a hc.1 hhd.2.2.1
  rw [hhd.2.2.2.1] at hl
  simp only [step, hp, hv, ne_eq, not_false_eq_true, if_true, Option.some.injEq] at st; subst st
  exact ⟨⟨l, hl⟩, by simp [setPc, upd, syncGotPc], rfl⟩

end UrcuVerif.Wfcq
