import UrcuVerif.Wfcq.Lists
/-!
# Sequential specification of the wait-free queues (`Spec.Fifo` of DESIGN §2 "Layering"), used by C10

The abstract state is a family of FIFO contents `abs q` plus, per queue, the chain `limbo q` that a
splice has taken out of source `q` and not yet appended to its destination (a splice has two
linearisation points: the `xchg` of the source tail and the `xchg` of the destination tail).

`apply st op` is the sequential system: new state and the result the operation must return.
`Valid h st`: the history `h` (newest event first) of linearisation events, *with the results the
implementation computed from its concrete memory*, is a legal sequential history ending in `st`.
Linearizability of the concurrent model is `Valid hist ⟨s.abs, s.limbo⟩` in every reachable state
(each event is recorded by a step of the operation itself, hence inside its call/return interval).
-/
namespace UrcuVerif.Wfcq.Spec
open UrcuVerif UrcuVerif.Wfcq

structure Q where
  abs : Nat → List Nat
  limbo : Nat → List Nat

def Q.init : Q := ⟨fun _ => [], fun _ => []⟩

inductive Op
  | enq (q n : Nat)
  | deq (q : Nat)
  | empty (q : Nat)
  | first (q : Nat)
  | next (q a : Nat)
  | spliceOut (src : Nat)        -- source side of a splice (or the SRC_EMPTY answer)
  | spliceIn (dst src : Nat)     -- destination side of a splice
  deriving DecidableEq, Repr

inductive Res
  | flag (b : Bool)              -- enq / spliceIn: "was non-empty"; empty: "is empty"
  | null                         -- deq / first / next: NULL
  | node (n : Nat) (last : Bool) -- deq: node and CDS_WFCQ_STATE_LAST; first / next: node
  | chain (h tl : Nat)           -- spliceOut: first and last node of the chain taken
  | srcEmpty                     -- spliceOut on an empty source: CDS_WFCQ_RET_SRC_EMPTY
  deriving DecidableEq, Repr

/-- the element that follows `a` in `l` -/
def succOf (a : Nat) : List Nat → Option Nat
  | [] => none
  | x :: l => if x = a then l.head? else succOf a l

def apply (st : Q) : Op → Q × Res
  | .enq q n => ({ st with abs := upd st.abs q (st.abs q ++ [n]) }, .flag (!(st.abs q).isEmpty))
  | .deq q =>
    match st.abs q with
    | [] => (st, .null)
    | n :: r => ({ st with abs := upd st.abs q r }, .node n r.isEmpty)
  | .empty q => (st, .flag (st.abs q).isEmpty)
  | .first q =>
    match st.abs q with
    | [] => (st, .null)
    | n :: _ => (st, .node n false)
  | .next q a =>
    match succOf a (st.abs q) with
    | none => (st, .null)
    | some n => (st, .node n false)
  | .spliceOut src =>
    match st.abs src with
    | [] => (st, .srcEmpty)
    | h :: m => ({ abs := upd st.abs src [], limbo := upd st.limbo src (st.limbo src ++ h :: m) }, .chain h (lastOf h m))
  | .spliceIn dst src =>
    ({ abs := upd st.abs dst (st.abs dst ++ st.limbo src), limbo := upd st.limbo src [] }, .flag (!(st.abs dst).isEmpty))

/-- the two queues of the model are `1` and `2`; nodes are `≥ 3` -/
def Op.wf : Op → Prop
  | .enq q n => isQ q ∧ 3 ≤ n
  | .deq q => isQ q
  | .empty q => isQ q
  | .first q => isQ q
  | .next q _ => isQ q
  | .spliceOut src => isQ src
  | .spliceIn dst src => isQ dst ∧ isQ src ∧ dst ≠ src

structure Ev where
  tid : Nat
  op : Op
  res : Res
  deriving DecidableEq, Repr

inductive Valid : List Ev → Q → Prop
  | nil : Valid [] Q.init
  | cons {h st e st'} : Valid h st → e.op.wf → e.res = (apply st e.op).2 → st' = (apply st e.op).1 → Valid (e :: h) st'

/-- every node in the system -/
def Q.all (st : Q) : List Nat := st.abs 1 ++ st.abs 2 ++ st.limbo 1 ++ st.limbo 2

/-- number of times node `n` was enqueued -/
def enqs (n : Nat) : List Ev → Nat
  | [] => 0
  | e :: h => (match e.op with | .enq _ m => if m = n then 1 else 0 | _ => 0) + enqs n h

/-- number of times node `n` was handed out by a dequeue -/
def outs (n : Nat) : List Ev → Nat
  | [] => 0
  | e :: h => (match e.op, e.res with | .deq _, .node m _ => if m = n then 1 else 0 | _, _ => 0) + outs n h

theorem all_count (st : Q) (x : Nat) : st.all.count x =
    (st.abs 1).count x + (st.abs 2).count x + (st.limbo 1).count x + (st.limbo 2).count x := by
  simp [Q.all, List.count_append]; omega

/-- **lose nothing, duplicate nothing** (sequential fact): every enqueue of `n` is matched by
exactly one dequeue of `n` or by one occurrence of `n` in a queue or in a chain in transit. -/
theorem conservation {h st} (v : Valid h st) (n : Nat) : enqs n h = outs n h + st.all.count n := by
  induction v with
  | nil => simp [enqs, outs, Q.all, Q.init]
  | cons v hw hr hs ih =>
    rename_i h st e st'
    obtain ⟨t, op, res⟩ := e
    simp only at hr hs hw
    subst hr; subst hs
    rw [all_count] at ih ⊢
    cases op with
    | enq q m =>
      obtain ⟨hq, -⟩ := hw
      simp only [enqs, outs, apply]
      rcases hq with rfl | rfl <;> simp only [upd] <;> simp [List.count_append, List.count_cons] <;>
        (by_cases e : m = n <;> simp [e] <;> omega)
    | deq q =>
      simp only [Op.wf] at hw
      simp only [enqs, outs, apply]
      cases hc : st.abs q with
      | nil => simp; omega
      | cons a r =>
        rcases hw with rfl | rfl <;> simp only [upd] <;> simp [hc, List.count_cons] at ih ⊢ <;>
          (by_cases e : a = n <;> simp [e] at ih ⊢ <;> omega)
    | empty q => simp only [enqs, outs, apply]; simp; omega
    | first q =>
      simp only [enqs, outs, apply]
      cases hc : st.abs q <;> simp <;> omega
    | next q a =>
      simp only [enqs, outs, apply]
      cases hc : succOf a (st.abs q) <;> simp <;> omega
    | spliceOut src =>
      simp only [Op.wf] at hw
      simp only [enqs, outs, apply]
      cases hc : st.abs src with
      | nil => simp; omega
      | cons a r =>
        rcases hw with rfl | rfl <;> simp only [upd] <;> simp [hc, List.count_append] at ih ⊢ <;> omega
    | spliceIn dst src =>
      obtain ⟨hd, hs, hne⟩ := hw
      simp only [enqs, outs, apply]
      rcases hd with rfl | rfl <;> rcases hs with rfl | rfl <;> first
        | exact absurd rfl hne
        | (simp only [upd]; simp [List.count_append]; omega)

/-- the final state is a function of the history -/
theorem Valid.functional {h st st'} (v : Valid h st) (v' : Valid h st') : st = st' := by
  induction v generalizing st' with
  | nil => cases v'; rfl
  | cons v hw hr hs ih =>
    cases v' with
    | cons w hw' hr' hs' => rw [hs, hs', ih w]

/-- one more linearisation event on top of a valid history is the sequential step -/
theorem Valid.inv_cons {h st st'} {e : Ev} (v : Valid h st) (v' : Valid (e :: h) st') :
    e.res = (apply st e.op).2 ∧ st' = (apply st e.op).1 := by
  cases v' with
  | cons w hw hr hs =>
    have := w.functional v
    subst this
    exact ⟨hr, hs⟩

end UrcuVerif.Wfcq.Spec
