import UrcuVerif.Wfcq.Step5
/-! Inductive step, part 6: splice (`xchg` of the source head, `xchg` of the source tail, `xchg` of the
destination tail), and the combined `inv_step` / `inv_reach`. -/
set_option linter.unusedVariables false
set_option linter.unusedSimpArgs false
namespace UrcuVerif.Wfcq

theorem hd3 {s : State} (A : AbsInv s) : ∀ q' nd', isQ q' → s.abs q' ≠ [] → s.lnx q' = nd' → 3 ≤ nd' := by
  intro q' nd' hq' hne' hx
  have hlk := A.linked q' hq'
  cases hab' : s.abs q' with
  | nil => exact absurd hab' hne'
  | cons a l =>
    rw [hab'] at hlk; rw [← hx, hlk.1]
    exact (A.nodes a (mem_abs_all hq' (by simp [hab']))).1

theorem limbo_nil_of_pc {s : State} (I : Inv s) {t q : Nat} (hq : isQ q) (hl : s.lock q = some t)
    (h : ¬ inS6 (s.pc t) q) : s.limbo q = [] := by
  cases h2 : s.limbo q with
  | nil => rfl
  | cons a l => exact absurd ((I.p.limbo_win q hq (by simp [h2])).2 t hl) h

theorem inv_s3 {s s' : State} (I : Inv s) (t) (st : step s (.s3 t) = some s') : Inv s' := by
  simp only [step] at st
  split at st <;> try (simp at st; done)
  rename_i dst src b hpc
  have hp := I.p.ok t; rw [hpc] at hp
  obtain ⟨⟨hs, hlk, hhc⟩, hd, hne⟩ := hp
  split at st <;> try (simp at st; done)
  rename_i hbt
  split at st
  · rename_i hnx
    simp only [Option.some.injEq] at st
    have hwn : s.wr src = none := by
      cases hw : s.wr src with
      | none => rfl
      | some u =>
        exfalso
        by_cases hu : u = t
        · subst hu; have := I.m.wr_ent u src hw; rw [hbt] at this; simp at this
        · exact hnx (I.m.foreign u src hs hw (by rw [hlk]; simp; exact fun e => hu e.symm))
    have hpn : s.pnd src = false := by
      cases hp : s.pnd src with
      | false => rfl
      | true => exact absurd (I.m.pnd_ok src hp).1 hnx
    have hmh : s.next src = s.lnx src := by
      have := I.m.mem_head src hs hwn hpn; simpa [exp, hhc] using this
    have hab : s.abs src ≠ [] := by
      intro he
      have ht := (abs_nil_iff I.a src hs).mp he
      have hk := I.m.tail_ok src hs
      rw [ht] at hk; exact hnx hk.1
    obtain ⟨A, M, P⟩ := I
    subst st
    refine ⟨absInv_frame A rfl rfl rfl rfl rfl, ?_, ?_⟩
    · obtain ⟨m1, m2, m3, m4, m5, m6, m7, m8, m9, m10, m11, m12, m13⟩ := M
      have hq3 := @isQ_lt
      have hlfm : ∀ u a v, lastFor (s.buf u) a = some v → (a, v) ∈ s.buf u := fun u a v h => lastFor_mem _ _ _ h
      constructor
      all_goals (try (simp only [upd, exp] at * ; grind))
    · obtain ⟨p1, p2, p3, p4, p5, p6⟩ := P
      have hq3 := @isQ_lt
      have hs6 := fun q h => @s6_tl_node s A q h
      have hHd3 := hd3 A
      constructor
      · intro u
        by_cases hut : u = t
        · subst hut; simp [upd, PcOk, hd, hs, hne, hlk, hmh, hwn, hpn]; rw [← hmh]; exact hnx
        · have hu := p1 u
          show PcOk _ u (upd s.pc t _ u)
          simp only [upd, hut, if_false]
          generalize s.pc u = pcu at hu
          cases pcu <;> (try cases ‹K›) <;>
            simp only [PcOk, EOk, SyncOk, Cons, Hd, upd] at hu ⊢ <;>
            first
            | grind
            | skip
      · exact p2
      · exact enq_inj_upd p3 t _ rfl
      · intro q' hq'
        simp only [upd] at hq' ⊢
        by_cases e : q' = src
        · subst e
          refine ⟨by simp [hlk], ?_⟩
          intro u hu; simp [hlk] at hu; subst hu; simp [inWin]
        · simp only [e, if_false] at hq'
          refine ⟨(p4 q' hq').1, ?_⟩
          intro u hu
          have := (p4 q' hq').2 u hu
          by_cases hut : u = t
          · subst hut; rw [hpc] at this; simp only [inWin] at this
          · simpa [hut] using this
      · intro q' hq' hl
        refine ⟨(p5 q' hq' hl).1, ?_⟩
        intro u hu
        have := (p5 q' hq' hl).2 u hu
        simp only [upd]
        by_cases hut : u = t
        · subst hut; rw [hpc] at this; exact this.elim
        · simpa [hut] using this
      · exact p6
  · simp only [Option.some.injEq] at st; subst st
    apply inv_setPc' I
    · exact ⟨⟨hs, hlk, hhc⟩, hd, hne⟩
    · rfl
    · intro q'; rw [hpc]; simp [inWin]
    · intro q'; rw [hpc]; simp [inS6]

/-- splice, source side: the whole chain of `src` becomes the limbo chain of `src` -/
theorem absInv_spliceOut {s s' : State} (A : AbsInv s) {src : Nat} (hs : isQ src)
    (hab : s.abs src ≠ []) (hlim : s.limbo src = [])
    (h1 : s'.abs = upd s.abs src []) (h2 : s'.limbo = upd s.limbo src (s.abs src))
    (h3 : s'.lnx = upd s.lnx src 0) (h4 : s'.tail = upd s.tail src src) (h5 : s'.inq = s.inq) : AbsInv s' := by
  obtain ⟨a1, a2, a3, a4, a5, a6, a7⟩ := A
  have A : AbsInv s := ⟨a1, a2, a3, a4, a5, a6, a7⟩
  have hmem : ∀ x, x ∈ allNodes s' ↔ x ∈ allNodes s := by
    intro x
    rw [mem_all_iff, mem_all_iff, h1, h2]
    rcases hs with rfl | rfl <;> simp only [upd] <;> simp [hlim] <;> grind
  constructor
  · intro q' hq'
    rw [h1, h3]
    by_cases e : q' = src
    · subst e; simp [upd]
    · simp only [upd, e, if_false]
      rw [Linked_upd_notin]
      · exact a1 q' hq'
      · exact chain_disj A hs hq' (Ne.symm e) (by simp)
  · intro q' hq'
    rw [h1, h4]
    by_cases e : q' = src
    · subst e; simp [upd]
    · simp [upd, e, a2 q' hq']
  · intro q' hq'
    rw [h3, h4]
    by_cases e : q' = src
    · subst e; simp [upd]
    · have : s.tail q' ≠ src := by
        intro e2; have := tail_mem_cons A hq'; rw [e2] at this
        exact chain_disj A hs hq' (Ne.symm e) (by simp) this
      simp [upd, e, this, a3 q' hq']
  · intro x hx
    rw [h5]; exact a4 x ((hmem x).1 hx)
  · apply nodup_of_cnt
    intro x
    rw [h1, h2]
    have c1 := A.cnt1 x
    rcases hs with rfl | rfl <;> simp only [upd] <;> simp [hlim] at c1 ⊢ <;> omega
  · intro x hx
    rw [h5] at hx; exact (hmem x).2 (a6 x hx)
  · intro q' hq'
    rw [h2, h3]
    by_cases e : q' = src
    · subst e
      simp only [upd, if_true]
      have hlk := a1 q' hs
      have hls := a2 q' hs
      have hlt := a3 q' hs
      cases hc : s.abs q' with
      | nil => exact absurd hc hab
      | cons a l =>
        rw [hc] at hlk hls
        have hq'l : q' ∉ a :: l := by rw [← hc]; exact q_notin_abs A hs hs
        simp only [LimboOk]
        rw [Linked_upd_notin _ _ _ _ _ hq'l]
        refine ⟨hlk.2, ?_⟩
        simp only [lastOf_cons] at hls
        have : lastOf a l ≠ q' := fun e => hq'l (e ▸ lastOf_mem_cons a l)
        simp [upd, this, hls, hlt]
    · simp only [upd, e, if_false]
      rw [limboOk_upd_notin]
      · exact a7 q' hq'
      · exact q_notin_limbo A hs hq'

theorem inv_s5 {s s' : State} (I : Inv s) (t) (st : step s (.s5 t) = some s') : Inv s' := by
  simp only [step] at st
  split at st <;> try (simp at st; done)
  rename_i dst src h hpc
  have hp := I.p.ok t; rw [hpc] at hp
  obtain ⟨hd, hs, hne, hlk, hhc, hh, hh0, hnx, hwn, hpn⟩ := hp
  split at st <;> try (simp at st; done)
  rename_i hbt
  simp only [Option.some.injEq] at st
  have hab : s.abs src ≠ [] := by
    intro he; have := I.m.empty_ok src hs he; rw [hhc] at this; simp at this
  have hlim : s.limbo src = [] := limbo_nil_of_pc I hs hlk (by rw [hpc]; simp [inS6])
  obtain ⟨A, M, P⟩ := I
  obtain ⟨hk1, hk2, hk3⟩ := M.tail_ok src hs
  have hlk1 := A.linked src hs
  have hls := A.last src hs
  have htq : s.tail src ≠ src := fun e => hab ((abs_nil_iff A src hs).2 e)
  subst st
  refine ⟨?_, ?_, ?_⟩
  · exact absInv_spliceOut A hs hab hlim rfl rfl rfl rfl rfl
  · obtain ⟨m1, m2, m3, m4, m5, m6, m7, m8, m9, m10, m11, m12, m13⟩ := M
    have hq3 := @isQ_lt
    have hlfm : ∀ u a v, lastFor (s.buf u) a = some v → (a, v) ∈ s.buf u := fun u a v h => lastFor_mem _ _ _ h
    have htq' : ∀ q', isQ q' → q' ≠ src → s.tail q' ≠ src := by
      intro q' hq' e e2; have := tail_mem_cons A hq'; rw [e2] at this
      exact chain_disj A hs hq' (Ne.symm e) (by simp) this
    constructor
    all_goals (try (simp only [upd, exp] at * ; grind))
  · obtain ⟨p1, p2, p3, p4, p5, p6⟩ := P
    have hq3 := @isQ_lt
    have hs6 := fun q h => @s6_tl_node s A q h
    have hHd3 := hd3 A
    constructor
    · intro u
      by_cases hut : u = t
      · subst hut
        cases hc : s.abs src with
        | nil => exact absurd hc hab
        | cons a l =>
          rw [hc] at hlk1 hls
          have ha : h = a := by rw [hh, hlk1.1]
          subst ha
          simp only [lastOf_cons] at hls
          simp [upd, PcOk, hd, hs, hne, hlk, hc, hk1, hk2, hk3, hls]
      · have hu := p1 u
        show PcOk _ u (upd s.pc t _ u)
        simp only [upd, hut, if_false]
        generalize s.pc u = pcu at hu
        cases pcu <;> (try cases ‹K›) <;>
          simp only [PcOk, EOk, SyncOk, Cons, Hd, upd] at hu ⊢ <;>
          first
          | grind
          | skip
    · exact p2
    · exact enq_inj_upd p3 t _ rfl
    · intro q' hq'
      simp only [upd] at hq' ⊢
      by_cases e : q' = src
      · subst e; simp at hq'
      · simp only [e, if_false] at hq'
        refine ⟨(p4 q' hq').1, ?_⟩
        intro u hu
        have := (p4 q' hq').2 u hu
        by_cases hut : u = t
        · subst hut; rw [hpc] at this; simp only [inWin] at this; exact absurd this.symm e
        · simpa [hut] using this
    · intro q' hq' hl
      simp only [upd] at hl ⊢
      by_cases e : q' = src
      · subst e
        refine ⟨by simp [hlk], ?_⟩
        intro u hu; simp [hlk] at hu; subst hu; simp [inS6]
      · simp only [e, if_false] at hl
        refine ⟨(p5 q' hq' hl).1, ?_⟩
        intro u hu
        have := (p5 q' hq' hl).2 u hu
        by_cases hut : u = t
        · subst hut; rw [hpc] at this; exact this.elim
        · simpa [hut] using this
    · intro q' hq'
      have : q' ≠ src := fun e => hq' (e ▸ hs)
      simpa [upd, this] using p6 q' hq'

/-- splice, destination side: the limbo chain of `src` is appended to `dst` -/
theorem absInv_spliceIn {s s' : State} (A : AbsInv s) {dst src h : Nat} {m : List Nat} (hd : isQ dst) (hs : isQ src)
    (hne : dst ≠ src) (hlim : s.limbo src = h :: m)
    (h1 : s'.abs = upd s.abs dst (s.abs dst ++ s.limbo src)) (h2 : s'.limbo = upd s.limbo src [])
    (h3 : s'.lnx = upd s.lnx (s.tail dst) h) (h4 : s'.tail = upd s.tail dst (lastOf h m)) (h5 : s'.inq = s.inq) :
    AbsInv s' := by
  obtain ⟨a1, a2, a3, a4, a5, a6, a7⟩ := A
  have A : AbsInv s := ⟨a1, a2, a3, a4, a5, a6, a7⟩
  have hmem : ∀ x, x ∈ allNodes s' ↔ x ∈ allNodes s := by
    intro x
    rw [mem_all_iff, mem_all_iff, h1, h2]
    rcases other_q hs hd hne with ⟨rfl, rfl⟩ | ⟨rfl, rfl⟩ <;> simp only [upd] <;> simp <;> grind
  have hold := tail_mem_cons A hd
  have holdl : ∀ q', isQ q' → s.tail dst ∉ s.limbo q' := fun q' hq' => chain_limbo_disj A hd hq' hold
  have hlo := a7 src hs; rw [hlim] at hlo
  obtain ⟨hl1, hl2⟩ := hlo
  have htl : lastOf h m ∈ s.limbo src := by rw [hlim]; exact lastOf_mem_cons h m
  constructor
  · intro q' hq'
    rw [h1, h3]
    by_cases e : q' = dst
    · subst e
      simp only [upd, if_true]
      rw [hlim, Linked_append_cons]
      refine ⟨?_, ?_, ?_⟩
      · have h1 := Linked_upd_last s.lnx h q' (s.abs q') (chain_nodup A hd)
        rw [a2 q' hd] at h1
        exact h1.2 (a1 q' hd)
      · rw [a2 q' hd]; simp [upd]
      · rw [Linked_upd_notin]
        · exact hl1
        · rw [← hlim]; exact holdl src hs
    · simp only [upd, e, if_false]
      rw [Linked_upd_notin]
      · exact a1 q' hq'
      · exact chain_disj A hd hq' (Ne.symm e) hold
  · intro q' hq'
    rw [h1, h4]
    by_cases e : q' = dst
    · subst e; simp [upd, hlim, lastOf_append_cons]
    · simp [upd, e, a2 q' hq']
  · intro q' hq'
    rw [h3, h4]
    by_cases e : q' = dst
    · subst e
      have : lastOf h m ≠ s.tail q' := fun e2 => holdl src hs (e2 ▸ htl)
      simp [upd, this, hl2]
    · have : s.tail q' ≠ s.tail dst := by
        intro e2; exact chain_disj A hd hq' (Ne.symm e) hold (e2 ▸ tail_mem_cons A hq')
      simp [upd, e, this, a3 q' hq']
  · intro x hx
    rw [h5]; exact a4 x ((hmem x).1 hx)
  · apply nodup_of_cnt
    intro x
    rw [h1, h2]
    have c1 := A.cnt1 x
    rcases other_q hs hd hne with ⟨rfl, rfl⟩ | ⟨rfl, rfl⟩ <;> simp only [upd] <;> simp [List.count_append] <;> omega
  · intro x hx
    rw [h5] at hx; exact (hmem x).2 (a6 x hx)
  · intro q' hq'
    rw [h2, h3]
    by_cases e : q' = src
    · subst e; simp [upd, LimboOk]
    · simp only [upd, e, if_false]
      rw [limboOk_upd_notin]
      · exact a7 q' hq'
      · exact holdl q' hq'

theorem inv_s6 {s s' : State} (I : Inv s) (t) (st : step s (.s6 t) = some s') : Inv s' := by
  simp only [step] at st
  split at st <;> try (simp at st; done)
  rename_i dst src h tl hpc
  have hp := I.p.ok t; rw [hpc] at hp
  obtain ⟨hd, hs, hne, hlk, hlne, hhd, hlast, hnx, hwn, hpn⟩ := hp
  split at st <;> try (simp at st; done)
  rename_i hbt
  simp only [Option.some.injEq] at st
  have hhc : s.hclr src = false := by
    cases hh : s.hclr src with
    | false => rfl
    | true => have := (I.p.hclr_win src hh).2 t hlk; rw [hpc] at this; exact this.elim
  obtain ⟨A, M, P⟩ := I
  obtain ⟨m, hlim⟩ : ∃ m, s.limbo src = h :: m := by
    cases hc : s.limbo src with
    | nil => exact absurd hc hlne
    | cons a m => rw [hc] at hhd; simp at hhd; subst hhd; exact ⟨m, rfl⟩
  rw [hlim] at hlast; simp only [List.tail_cons] at hlast
  subst hlast
  obtain ⟨hk1, hk2, hk3⟩ := M.tail_ok dst hd
  have hold := tail_mem_cons A hd
  have htlm : lastOf h m ∈ s.limbo src := by rw [hlim]; exact lastOf_mem_cons h m
  have hhm : h ∈ s.limbo src := by rw [hlim]; simp
  have hh3 : 3 ≤ h := (A.nodes h (mem_limbo_all hs hhm)).1
  have htlo : lastOf h m ≠ s.tail dst := fun e => chain_limbo_disj A hd hs hold (e ▸ htlm)
  have hlt := A.lnxtail dst hd
  have hemp := abs_nil_iff A dst hd
  have holdq : s.tail dst = dst ∨ (3 ≤ s.tail dst ∧ s.inq (s.tail dst) = true) := by
    rcases tail_mem A hd with h | h
    · exact Or.inl h
    · exact Or.inr (A.nodes _ (mem_abs_all hd h))
  have hte : ∀ q', isQ q' → s.tail q' = s.tail dst → q' = dst := by
    intro q' hq' e2
    apply Classical.byContradiction; intro e
    exact chain_disj A hd hq' (Ne.symm e) hold (e2 ▸ tail_mem_cons A hq')
  subst st
  refine ⟨?_, ?_, ?_⟩
  · exact absInv_spliceIn A hd hs hne hlim rfl rfl rfl rfl rfl
  · obtain ⟨m1, m2, m3, m4, m5, m6, m7, m8, m9, m10, m11, m12, m13⟩ := M
    have hq3 := @isQ_lt
    have hlfm : ∀ u a v, lastFor (s.buf u) a = some v → (a, v) ∈ s.buf u := fun u a v h => lastFor_mem _ _ _ h
    constructor
    all_goals (try (simp only [upd, exp] at * ; grind [List.append_eq_nil_iff]))
  · obtain ⟨p1, p2, p3, p4, p5, p6⟩ := P
    have hq3 := @isQ_lt
    have hlimd : ∀ q', isQ q' → ∀ x, x ∈ s.limbo q' → x ≠ s.tail dst := by
      intro q' hq' x hx e; exact chain_limbo_disj A hd hq' hold (e ▸ hx)
    have hs6 : ∀ q' h, isQ q' → s.limbo q' ≠ [] → (s.limbo q').headD 0 = h →
        lastOf h (s.limbo q').tail ≠ s.tail dst := by
      intro q' h hq' h1 h2
      exact hlimd q' hq' _ (s6_tl_mem _ h h1 h2)
    have hHd3 := hd3 A
    constructor
    · intro u
      by_cases hut : u = t
      · subst hut; simp [upd, PcOk, hd, hbt]
      · have hu := p1 u
        show PcOk _ u (upd s.pc t _ u)
        simp only [upd, hut, if_false]
        generalize s.pc u = pcu at hu
        cases pcu <;> (try cases ‹K›) <;>
          simp only [PcOk, EOk, SyncOk, Cons, Hd, upd] at hu ⊢ <;>
          first
          | grind [List.append_eq_nil_iff]
          | skip
    · exact p2
    · -- enq_inj
      intro u v a h1 h2
      simp only [upd] at h1 h2
      have key : ∀ w, w ≠ t → pendOld (s.pc w) = some a → a ≠ s.tail dst := by
        intro w hw h e
        have := p1 w
        generalize s.pc w = pcw at this h
        cases pcw <;> simp [pendOld] at h
        subst h; simp only [PcOk] at this; rw [e, hk3] at this; simp at this
      by_cases hu : u = t <;> by_cases hv : v = t
      · rw [hu, hv]
      · exfalso; simp [hu, hv, pendOld] at h1 h2; exact key v hv h2 h1.symm
      · exfalso; simp [hu, hv, pendOld] at h1 h2; exact key u hu h1 h2.symm
      · simp only [hu, hv, if_false] at h1 h2; exact p3 u v a h1 h2
    · intro q' hq'
      refine ⟨(p4 q' hq').1, ?_⟩
      intro u hu
      have := (p4 q' hq').2 u hu
      simp only [upd]
      by_cases hut : u = t
      · subst hut; rw [hpc] at this; exact this.elim
      · simpa [hut] using this
    · intro q' hq' hl
      simp only [upd] at hl ⊢
      by_cases e : q' = src
      · subst e; simp at hl
      · simp only [e, if_false] at hl
        refine ⟨(p5 q' hq' hl).1, ?_⟩
        intro u hu
        have := (p5 q' hq' hl).2 u hu
        by_cases hut : u = t
        · subst hut; rw [hpc] at this; simp only [inS6] at this; exact absurd this.symm e
        · simpa [hut] using this
    · intro q' hq'
      have e1 : q' ≠ src := fun e => hq' (e ▸ hs)
      have e2 : q' ≠ dst := fun e => hq' (e ▸ hd)
      simpa [upd, e1, e2] using p6 q' hq'


/-- **the invariant is inductive**: one lemma per label -/
theorem inv_step {s s' : State} {l : Label} (I : Inv s) (st : step s l = some s') : Inv s' := by
  cases l with
  | flush t => exact inv_flush I t st
  | fence t => exact inv_fence I t st
  | acquire t q => exact inv_acquire I t q st
  | release t q => exact inv_release I t q st
  | enqXchg t q n => exact inv_enqXchg I t q n st
  | stIssue t => exact inv_stIssue I t st
  | callEmpty t q => exact inv_callEmpty I t q st
  | callFirst t q b => exact inv_callFirst I t q b st
  | callNext t q a b => exact inv_callNext I t q a b st
  | callDeq t q b => exact inv_callDeq I t q b st
  | callSplice t dst src b => exact inv_callSplice I t dst src b st
  | ld1 t => exact inv_ld1 I t st
  | ld2 t => exact inv_ld2 I t st
  | sync t => exact inv_sync I t st
  | nx1 t => exact inv_nx1 I t st
  | nx2 t => exact inv_nx2 I t st
  | d2 t => exact inv_d2 I t st
  | d3 t => exact inv_d3 I t st
  | d4 t => exact inv_d4 I t st
  | d6 t => exact inv_d6 I t st
  | d7 t => exact inv_d7 I t st
  | s3 t => exact inv_s3 I t st
  | s4 t => exact inv_s4 I t st
  | s5 t => exact inv_s5 I t st
  | s6 t => exact inv_s6 I t st
  | ret t => exact inv_ret I t st

theorem inv_reach {s : State} (h : Reach s) : Inv s := by
  induction h with
  | init => exact inv_init
  | step _ st ih => exact inv_step ih st

end UrcuVerif.Wfcq
