import UrcuVerif.Wfcq.Step3
/-! Inductive step, part 4: store-buffer flush, the two steps of an append (`xchg`, store issue). -/
set_option linter.unusedVariables false
set_option linter.unusedSimpArgs false
namespace UrcuVerif.Wfcq

theorem lastFor_cons_ne (b w : Nat) (l : List (Nat × Nat)) (a : Nat) (h : b ≠ a) :
    lastFor ((b, w) :: l) a = lastFor l a := by
  simp only [lastFor]
  cases lastFor l a <;> simp [h]

theorem lastFor_cons_same_none (b w : Nat) (l : List (Nat × Nat)) (h : lastFor l b = none) :
    lastFor ((b, w) :: l) b = some w := by
  simp [lastFor, h]

theorem lastFor_cons_ne_none (b w : Nat) (l : List (Nat × Nat)) (a : Nat) :
    lastFor ((b, w) :: l) a ≠ none → b ≠ a → lastFor l a ≠ none := by
  intro h1 h2; rwa [lastFor_cons_ne b w l a h2] at h1

theorem cnt_pos_of_lastFor (l : List (Nat × Nat)) (a : Nat) (h : lastFor l a ≠ none) : 1 ≤ cnt l a := by
  have : cnt l a ≠ 0 := fun e => h ((lastFor_none_cnt l a).mpr e)
  omega

theorem cnt_cons_le (b v : Nat) (l : List (Nat × Nat)) (a : Nat) : cnt l a ≤ cnt ((b, v) :: l) a := by
  rw [cnt_cons]; omega

theorem pcOk_flush (s : State) (t a v : Nat) (rest : List (Nat × Nat)) (w : Nat → Option Nat) (u : Nat) (x : Pc)
    (hb : s.buf t = (a, v) :: rest)
    (hw : ∀ b, w b = s.wr b ∨ (b = a ∧ w b = none))
    (hwa : ∀ b, s.wr b = none → w b = none)
    (hn : s.wr a = some t)
    (h : PcOk s u x) :
    PcOk { s with next := upd s.next a v, buf := upd s.buf t rest, wr := w } u x := by
  have hne : ∀ b, s.wr b = none → b ≠ a := by intro b hbn e; subst e; rw [hn] at hbn; simp at hbn
  cases x <;> (try cases ‹K›) <;> simp only [PcOk, EOk, SyncOk, Cons, Hd, upd] at h ⊢ <;> grind

theorem inv_flush {s s' : State} (I : Inv s) (t) (st : step s (.flush t) = some s') : Inv s' := by
  simp only [step] at st
  split at st <;> try (simp at st; done)
  rename_i a v rest hb
  simp only [Option.some.injEq] at st
  have hwa : s.wr a = some t := I.m.ent_wr t a v (by rw [hb]; simp)
  obtain ⟨A, M, P⟩ := I
  have hmem : ∀ b w, (b, w) ∈ rest → (b, w) ∈ s.buf t := by intro b w h; rw [hb]; simp [h]
  subst st
  refine ⟨absInv_frame A rfl rfl rfl rfl rfl, ?_, ?_⟩
  · obtain ⟨m1, m2, m3, m4, m5, m6, m7, m8, m9, m10, m11, m12, m13⟩ := M
    have hcnt : ∀ q, cnt rest q ≤ cnt (s.buf t) q := by intro q; rw [hb]; exact cnt_cons_le a v rest q
    have hlf : ∀ q x, lastFor rest q = some x → lastFor (s.buf t) q = some x := by
      intro q x h; rw [hb]; exact lastFor_cons_of_rest a v rest q x h
    have hlfne : ∀ b, b ≠ a → lastFor (s.buf t) b ≠ none → lastFor rest b ≠ none := by
      intro b hne h; rw [hb] at h; exact lastFor_cons_ne_none a v rest b h (Ne.symm hne)
    have hlast : lastFor rest a = none → lastFor (s.buf t) a = some v := by
      intro h; rw [hb]; exact lastFor_cons_same_none a v rest h
    have hcnt2 : lastFor rest a ≠ none → 2 ≤ cnt (s.buf t) a := by
      intro h; rw [hb, cnt_cons]; have := cnt_pos_of_lastFor rest a h; simp; omega
    have hav : (a, v) ∈ s.buf t := by rw [hb]; simp
    constructor
    · -- ent_wr
      intro u b w h
      simp only [upd] at h ⊢
      by_cases hu : u = t
      · subst hu; simp only [if_true] at h
        have h1 := m1 u b w (hmem b w h)
        split
        · rename_i hl
          by_cases hba : b = a
          · subst hba; exact absurd h ((lastFor_none_iff rest b).mp hl w)
          · simp [upd, hba, h1]
        · exact h1
      · simp only [hu, if_false] at h
        have h1 := m1 u b w h
        have hba : b ≠ a := by intro e; subst e; rw [hwa] at h1; simp at h1; exact hu h1.symm
        split <;> simp [upd, hba, h1]
    · -- wr_ent
      intro u b h
      simp only [upd] at h ⊢
      by_cases hba : b = a
      · subst hba
        split at h
        · simp [upd] at h
        · rename_i hl
          rw [hwa] at h; simp at h; subst h; simpa using hl
      · have h1 : s.wr b = some u := by split at h <;> simpa [upd, hba] using h
        have h2 := m2 u b h1
        by_cases hu : u = t
        · subst hu; simp only [if_true]; exact hlfne b hba h2
        · simpa [hu] using h2
    · -- ent_node
      intro u b w h hb3
      simp only [upd] at h
      by_cases hu : u = t
      · subst hu; simp only [if_true] at h; exact m3 u b w (hmem b w h) hb3
      · simp only [hu, if_false] at h; exact m3 u b w h hb3
    · -- last_head
      intro u q x hq h
      simp only [upd] at h
      show x = exp s q
      by_cases hu : u = t
      · subst hu; simp only [if_true] at h; exact m4 u q x hq (hlf q x h)
      · simp only [hu, if_false] at h; exact m4 u q x hq h
    · -- mem_node
      intro b hb3 h
      simp only [upd] at h ⊢
      by_cases hba : b = a
      · subst hba; simp; exact m3 t b v hav hb3
      · simp only [hba, if_false] at h ⊢; exact m5 b hb3 h
    · -- mem_node_eq
      intro b hb3 hi hw hp
      simp only [upd] at hw ⊢
      by_cases hba : b = a
      · subst hba; simp; exact m3 t b v hav hb3
      · simp only [hba, if_false]
        have : s.wr b = none := by split at hw <;> simpa [upd, hba] using hw
        exact m6 b hb3 hi this hp
    · -- mem_head
      intro q hq hw hp
      simp only [upd] at hw ⊢
      show _ = exp s q
      by_cases hqa : q = a
      · subst hqa
        simp only [if_true]
        have hl : lastFor rest q = none := by
          cases hl : lastFor rest q with
          | none => rfl
          | some x => rw [hl] at hw; simp at hw; rw [hwa] at hw; simp at hw
        exact m4 t q v hq (hlast hl)
      · simp only [hqa, if_false]
        have : s.wr q = none := by split at hw <;> simpa [upd, hqa] using hw
        exact m7 q hq this hp
    · -- foreign
      intro u q hq hw hl
      simp only [upd] at hw ⊢
      by_cases hqa : q = a
      · subst hqa
        exfalso
        split at hw
        · simp [upd] at hw
        · rename_i hne
          rw [hwa] at hw; simp at hw; subst hw
          have := m9 t q hq hl
          have := hcnt2 hne
          omega
      · simp only [hqa, if_false]
        have : s.wr q = some u := by split at hw <;> simpa [upd, hqa] using hw
        exact m8 u q hq this hl
    · -- foreign_cnt
      intro u q hq hl
      simp only [upd]
      by_cases hu : u = t
      · subst hu; simp only [if_true]; have := m9 u q hq hl; have := hcnt q; omega
      · simp only [hu, if_false]; exact m9 u q hq hl
    · -- pnd_ok
      intro b hp
      obtain ⟨h1, h2, h3, h4⟩ := m10 b hp
      have hba : b ≠ a := by intro e; subst e; rw [hwa] at h2; simp at h2
      refine ⟨by simp [upd, hba, h1], ?_, h3, h4⟩
      show (if lastFor rest a = none then upd s.wr a none else s.wr) b = none
      split <;> simp [upd, hba, h2]
    · -- tail_ok
      intro q hq
      obtain ⟨h1, h2, h3⟩ := m11 q hq
      have hba : s.tail q ≠ a := by intro e; rw [e, hwa] at h2; simp at h2
      refine ⟨by simp [upd, hba, h1], ?_, h3⟩
      show (if lastFor rest a = none then upd s.wr a none else s.wr) (s.tail q) = none
      split <;> simp [upd, hba, h2]
    · exact m12
    · exact m13
  · obtain ⟨p1, p2, p3, p4, p5, p6⟩ := P
    constructor
    · intro u
      have hu := p1 u
      show PcOk _ u (s.pc u)
      apply pcOk_flush s t a v rest _ u (s.pc u) hb _ _ hwa hu
      · intro b; split
        · by_cases hba : b = a
          · right; simp [hba, upd]
          · left; simp [upd, hba]
        · left; rfl
      · intro b hbn; split
        · by_cases hba : b = a <;> simp [upd, hba, hbn]
        · exact hbn
    · exact p2
    · exact p3
    · exact p4
    · exact p5
    · exact p6

/-! ### bookkeeping of the node set (counting instead of `Nodup`: permutations become arithmetic) -/

theorem allNodes_count (s : State) (x : Nat) : (allNodes s).count x =
    (s.abs 1).count x + (s.abs 2).count x + (s.limbo 1).count x + (s.limbo 2).count x := by
  simp [allNodes, List.count_append]; omega

theorem mem_all_iff (s : State) (x : Nat) :
    x ∈ allNodes s ↔ x ∈ s.abs 1 ∨ x ∈ s.abs 2 ∨ x ∈ s.limbo 1 ∨ x ∈ s.limbo 2 := by
  simp [allNodes]

theorem AbsInv.cnt1 {s : State} (A : AbsInv s) (x : Nat) :
    (s.abs 1).count x + (s.abs 2).count x + (s.limbo 1).count x + (s.limbo 2).count x ≤ 1 := by
  rw [← allNodes_count]; exact List.nodup_iff_count.1 A.nodup x

theorem nodup_of_cnt {s : State}
    (h : ∀ x, (s.abs 1).count x + (s.abs 2).count x + (s.limbo 1).count x + (s.limbo 2).count x ≤ 1) :
    (allNodes s).Nodup :=
  List.nodup_iff_count.2 (by intro x; rw [allNodes_count]; exact h x)

theorem mem_iff_count (l : List Nat) (x : Nat) : x ∈ l ↔ 1 ≤ l.count x := List.count_pos_iff.symm

theorem notMem_iff_count (l : List Nat) (x : Nat) : x ∉ l ↔ l.count x = 0 := by
  rw [mem_iff_count]; omega

/-- the queue head is not a node -/
theorem q_notin_abs {s : State} (A : AbsInv s) {q q' : Nat} (hq : isQ q) (hq' : isQ q') : q ∉ s.abs q' := by
  intro h
  have := (A.nodes q (mem_abs_all hq' h)).1
  rcases hq with rfl | rfl <;> omega

theorem q_notin_limbo {s : State} (A : AbsInv s) {q q' : Nat} (hq : isQ q) (hq' : isQ q') : q ∉ s.limbo q' := by
  intro h
  have := (A.nodes q (mem_limbo_all hq' h)).1
  rcases hq with rfl | rfl <;> omega

theorem abs_nodup {s : State} (A : AbsInv s) {q : Nat} (hq : isQ q) : (s.abs q).Nodup := by
  apply List.nodup_iff_count.2
  intro x; have := A.cnt1 x
  rcases hq with rfl | rfl <;> omega

theorem limbo_nodup {s : State} (A : AbsInv s) {q : Nat} (hq : isQ q) : (s.limbo q).Nodup := by
  apply List.nodup_iff_count.2
  intro x; have := A.cnt1 x
  rcases hq with rfl | rfl <;> omega

theorem chain_nodup {s : State} (A : AbsInv s) {q : Nat} (hq : isQ q) : (q :: s.abs q).Nodup :=
  List.nodup_cons.2 ⟨q_notin_abs A hq hq, abs_nodup A hq⟩

/-- the tail is the head itself or a queued node -/
theorem tail_mem {s : State} (A : AbsInv s) {q : Nat} (hq : isQ q) : s.tail q = q ∨ s.tail q ∈ s.abs q := by
  rw [← A.last q hq]; exact lastOf_mem q (s.abs q)

theorem tail_mem_cons {s : State} (A : AbsInv s) {q : Nat} (hq : isQ q) : s.tail q ∈ q :: s.abs q := by
  rw [← A.last q hq]; exact lastOf_mem_cons q (s.abs q)

/-- members of different chains are different -/
theorem abs_disj {s : State} (A : AbsInv s) {q q' : Nat} (hq : isQ q) (hq' : isQ q') (hne : q ≠ q')
    {x : Nat} (h : x ∈ s.abs q) : x ∉ s.abs q' := by
  rw [mem_iff_count] at h; rw [notMem_iff_count]
  have := A.cnt1 x
  rcases hq with rfl | rfl <;> rcases hq' with rfl | rfl <;> first | omega | exact absurd rfl hne

theorem abs_limbo_disj {s : State} (A : AbsInv s) {q q' : Nat} (hq : isQ q) (hq' : isQ q')
    {x : Nat} (h : x ∈ s.abs q) : x ∉ s.limbo q' := by
  rw [mem_iff_count] at h; rw [notMem_iff_count]
  have := A.cnt1 x
  rcases hq with rfl | rfl <;> rcases hq' with rfl | rfl <;> omega

theorem limbo_disj {s : State} (A : AbsInv s) {q q' : Nat} (hq : isQ q) (hq' : isQ q') (hne : q ≠ q')
    {x : Nat} (h : x ∈ s.limbo q) : x ∉ s.limbo q' := by
  rw [mem_iff_count] at h; rw [notMem_iff_count]
  have := A.cnt1 x
  rcases hq with rfl | rfl <;> rcases hq' with rfl | rfl <;> first | omega | exact absurd rfl hne

theorem chain_disj {s : State} (A : AbsInv s) {q q' : Nat} (hq : isQ q) (hq' : isQ q') (hne : q ≠ q')
    {x : Nat} (h : x ∈ q :: s.abs q) : x ∉ q' :: s.abs q' := by
  simp only [List.mem_cons, not_or] at h ⊢
  rcases h with rfl | h
  · exact ⟨hne, q_notin_abs A hq hq'⟩
  · exact ⟨fun e => q_notin_abs A hq' hq (e ▸ h), abs_disj A hq hq' hne h⟩

theorem chain_limbo_disj {s : State} (A : AbsInv s) {q q' : Nat} (hq : isQ q) (hq' : isQ q')
    {x : Nat} (h : x ∈ q :: s.abs q) : x ∉ s.limbo q' := by
  simp only [List.mem_cons] at h
  rcases h with rfl | h
  · exact q_notin_limbo A hq hq'
  · exact abs_limbo_disj A hq hq' h

theorem limboOk_upd_notin (f : Nat → Nat) (x v : Nat) (l : List Nat) (hx : x ∉ l) :
    LimboOk (upd f x v) l ↔ LimboOk f l := by
  cases l with
  | nil => simp [LimboOk]
  | cons h m =>
    have hl : lastOf h m ≠ x := by
      intro e; apply hx; rw [← e]; exact lastOf_mem_cons h m
    simp only [LimboOk, Linked_upd_notin f x v h m hx, upd, hl, if_false]

theorem other_q {q q' : Nat} (hq : isQ q) (hq' : isQ q') (hne : q' ≠ q) : (q = 1 ∧ q' = 2) ∨ (q = 2 ∧ q' = 1) := by
  rcases hq with rfl | rfl <;> rcases hq' with rfl | rfl <;> simp_all


theorem s6_tl_mem (l : List Nat) (h : Nat) (h1 : l ≠ []) (h2 : l.headD 0 = h) : lastOf h l.tail ∈ l := by
  cases l with
  | nil => exact absurd rfl h1
  | cons a m => simp at h2; subst h2; simpa using lastOf_mem_cons a m

theorem inv_enqXchg {s s' : State} (I : Inv s) (t q n) (st : step s (.enqXchg t q n) = some s') : Inv s' := by
  simp only [step] at st
  split at st <;> try (simp at st; done)
  rename_i hg
  simp only [Option.some.injEq] at st
  obtain ⟨hpc, hq, hn3, hinq, hwn, hbt⟩ := hg
  obtain ⟨A, M, P⟩ := I
  -- basic facts
  have hnall : n ∉ allNodes s := fun h => by have := (A.nodes n h).2; rw [hinq] at this; simp at this
  have hnq : ∀ q', isQ q' → n ≠ q' := by intro q' h; rcases h with rfl | rfl <;> omega
  have hold := tail_mem_cons A hq
  have hno : n ≠ s.tail q := by
    intro e; rw [← e] at hold; simp only [List.mem_cons] at hold
    rcases hold with h | h
    · exact hnq q hq h
    · exact hnall (mem_abs_all hq h)
  have hpn : s.pnd n = false := by
    cases h : s.pnd n with
    | false => rfl
    | true =>
      obtain ⟨-, -, -, h4⟩ := M.pnd_ok n h
      rcases h4 with h4 | h4
      · exact absurd rfl (hnq n h4)
      · rw [hinq] at h4; simp at h4
  have htk := M.tail_ok q hq
  have hnabs : ∀ q', isQ q' → n ∉ s.abs q' := fun q' h h2 => hnall (mem_abs_all h h2)
  have hnlim : ∀ q', isQ q' → n ∉ s.limbo q' := fun q' h h2 => hnall (mem_limbo_all h h2)
  subst st
  refine ⟨?_, ?_, ?_⟩
  · -- AbsInv
    obtain ⟨a1, a2, a3, a4, a5, a6, a7⟩ := A
    have A : AbsInv s := ⟨a1, a2, a3, a4, a5, a6, a7⟩
    constructor
    · -- linked
      intro q' hq'
      by_cases e : q' = q
      · subst e
        simp only [upd, if_true]
        rw [Linked_snoc]
        constructor
        · have h1 := Linked_upd_last (upd s.lnx n 0) n q' (s.abs q') (chain_nodup A hq)
          rw [a2 q' hq] at h1
          show Linked (upd (upd s.lnx n 0) (s.tail q') n) q' (s.abs q')
          rw [h1, Linked_upd_notin]
          · exact a1 q' hq
          · simp only [List.mem_cons, not_or]; exact ⟨hnq q' hq, hnabs q' hq⟩
        · rw [a2 q' hq]; simp [upd]
      · simp only [upd, e, if_false]
        show Linked (upd (upd s.lnx n 0) (s.tail q) n) q' (s.abs q')
        rw [Linked_upd_notin, Linked_upd_notin]
        · exact a1 q' hq'
        · simp only [List.mem_cons, not_or]; exact ⟨hnq q' hq', hnabs q' hq'⟩
        · exact chain_disj A hq hq' (Ne.symm e) hold
    · -- last
      intro q' hq'
      by_cases e : q' = q
      · subst e; simp [upd, lastOf_snoc]
      · simp [upd, e, a2 q' hq']
    · -- lnxtail
      intro q' hq'
      by_cases e : q' = q
      · subst e; simp [upd, Ne.symm hno, hno]
      · have h1 : s.tail q' ≠ s.tail q := by
          intro e2; exact chain_disj A hq hq' (Ne.symm e) hold (e2 ▸ tail_mem_cons A hq')
        have h2 : s.tail q' ≠ n := by
          intro e2; have := tail_mem_cons A hq'; rw [e2] at this
          simp only [List.mem_cons] at this; rcases this with h | h
          · exact hnq q' hq' h
          · exact hnabs q' hq' h
        simp [upd, e, h1, h2, a3 q' hq']
    · -- nodes
      intro x hx
      have : x = n ∨ x ∈ allNodes s := by
        rw [mem_all_iff] at hx ⊢
        simp only [upd] at hx
        rcases hq with rfl | rfl <;> simp at hx <;> grind
      rcases this with rfl | h
      · exact ⟨hn3, by simp [upd]⟩
      · have := a4 x h
        refine ⟨this.1, ?_⟩
        simp only [upd]; split <;> simp [this.2]
    · -- nodup
      apply nodup_of_cnt
      intro x
      have h1 := A.cnt1 x
      have h2 : (s.abs 1).count n = 0 ∧ (s.abs 2).count n = 0 ∧ (s.limbo 1).count n = 0 ∧ (s.limbo 2).count n = 0 :=
        ⟨(notMem_iff_count _ _).1 (hnabs 1 (Or.inl rfl)), (notMem_iff_count _ _).1 (hnabs 2 (Or.inr rfl)),
         (notMem_iff_count _ _).1 (hnlim 1 (Or.inl rfl)), (notMem_iff_count _ _).1 (hnlim 2 (Or.inr rfl))⟩
      by_cases e : n = x
      · subst e
        rcases hq with rfl | rfl <;> simp only [upd] <;> simp [List.count_append, List.count_cons] <;> omega
      · rcases hq with rfl | rfl <;> simp only [upd] <;> simp [List.count_append, List.count_cons, e] <;> omega
    · -- inq
      intro x hx
      simp only [upd] at hx
      rw [mem_all_iff]
      by_cases e : x = n
      · subst e; rcases hq with rfl | rfl <;> simp [upd]
      · simp only [e, if_false] at hx
        have := (mem_all_iff s x).1 (a6 x hx)
        rcases hq with rfl | rfl <;> simp [upd] <;> grind
    · -- limbo
      intro q' hq'
      show LimboOk (upd (upd s.lnx n 0) (s.tail q) n) (s.limbo q')
      rw [limboOk_upd_notin, limboOk_upd_notin]
      · exact a7 q' hq'
      · exact hnlim q' hq'
      · exact chain_limbo_disj A hq hq' hold
  · -- MemInv
    obtain ⟨m1, m2, m3, m4, m5, m6, m7, m8, m9, m10, m11, m12, m13⟩ := M
    obtain ⟨hnexto, hwo, hpo⟩ := htk
    have hbuf : ∀ u a v, (a, v) ∈ s.buf u → a ≠ n ∧ a ≠ s.tail q := by
      intro u a v h; have := m1 u a v h
      constructor <;> (intro e; subst e; simp_all)
    have hlf : ∀ u a v, lastFor (s.buf u) a = some v → a ≠ n ∧ a ≠ s.tail q :=
      fun u a v h => hbuf u a v (lastFor_mem _ _ _ h)
    have hte : ∀ q', isQ q' → s.tail q' = s.tail q → q' = q := by
      intro q' hq' e2
      apply Classical.byContradiction; intro e
      exact chain_disj A hq hq' (Ne.symm e) hold (e2 ▸ tail_mem_cons A hq')
    have htn : ∀ q', isQ q' → s.tail q' ≠ n := by
      intro q' hq' e2; have := tail_mem_cons A hq'; rw [e2] at this
      simp only [List.mem_cons] at this; rcases this with h | h
      · exact hnq q' hq' h
      · exact hnabs q' hq' h
    have holdq : s.tail q = q ∨ (3 ≤ s.tail q ∧ s.inq (s.tail q) = true) := by
      rcases tail_mem A hq with h | h
      · exact Or.inl h
      · exact Or.inr (A.nodes _ (mem_abs_all hq h))
    have hemp := abs_nil_iff A q hq
    have hq3 : ∀ q', isQ q' → q' < 3 := by intro q' h; rcases h with rfl | rfl <;> omega
    clear P hnabs hnlim hnall
    constructor
    all_goals (try (simp only [upd, exp] at * ; grind [List.append_eq_nil_iff]))
  · -- PcInv
    obtain ⟨p1, p2, p3, p4, p5, p6⟩ := P
    obtain ⟨hnexto, hwo, hpo⟩ := htk
    have hq3 : ∀ q', isQ q' → q' < 3 := by intro q' h; rcases h with rfl | rfl <;> omega
    have holdq : s.tail q = q ∨ (3 ≤ s.tail q ∧ s.inq (s.tail q) = true) := by
      rcases tail_mem A hq with h | h
      · exact Or.inl h
      · exact Or.inr (A.nodes _ (mem_abs_all hq h))
    have hemp := abs_nil_iff A q hq
    have hlt := A.lnxtail q hq
    have hlim : ∀ q', isQ q' → ∀ x, x ∈ s.limbo q' → x ≠ n ∧ x ≠ s.tail q := by
      intro q' hq' x hx
      exact ⟨fun e => hnlim q' hq' (e ▸ hx), fun e => chain_limbo_disj A hq hq' hold (e ▸ hx)⟩
    have hpin : ∀ a, s.pnd a = true → a ≠ n := by
      intro a h e; subst e; rw [hpn] at h; simp at h
    have habs3 : ∀ q' x, isQ q' → x ∈ s.abs q' → x ≠ n := fun q' x h1 h2 e => hnabs q' h1 (e ▸ h2)
    have hHd : ∀ q' nd, isQ q' → s.abs q' ≠ [] → s.lnx q' = nd → nd ∈ s.abs q' := by
      intro q' nd hq' hne hx
      have hlk := A.linked q' hq'
      cases hab : s.abs q' with
      | nil => exact absurd hab hne
      | cons a l => rw [hab] at hlk; rw [← hx, hlk.1]; simp
    have hs6 : ∀ q' h, isQ q' → s.limbo q' ≠ [] → (s.limbo q').headD 0 = h →
        lastOf h (s.limbo q').tail ≠ n ∧ lastOf h (s.limbo q').tail ≠ s.tail q := by
      intro q' h hq' h1 h2
      exact hlim q' hq' _ (s6_tl_mem _ h h1 h2)
    constructor
    · intro u
      by_cases hut : u = t
      · subst hut
        simp [upd, PcOk, hq, hbt]
      · have hu := p1 u
        show PcOk _ u (upd s.pc t _ u)
        simp only [upd, hut, if_false]
        generalize s.pc u = pcu at hu
        cases pcu <;> (try cases ‹K›) <;>
          simp only [PcOk, EOk, SyncOk, Cons, Hd, upd] at hu ⊢ <;>
          first
          | grind [List.append_eq_nil_iff, List.mem_append]
          | skip
    · exact p2
    · -- enq_inj
      intro u v a h1 h2
      simp only [upd] at h1 h2
      have key : ∀ w, w ≠ t → pendOld (s.pc w) = some a → a ≠ s.tail q := by
        intro w hw h e
        have := p1 w
        generalize s.pc w = pcw at this h
        cases pcw <;> simp [pendOld] at h
        subst h; simp only [PcOk] at this; rw [e, hpo] at this; simp at this
      by_cases hu : u = t <;> by_cases hv : v = t
      · rw [hu, hv]
      · exfalso; simp [hu, hv, pendOld] at h1 h2; exact key v hv h2 h1.symm
      · exfalso; simp [hu, hv, pendOld] at h1 h2; exact key u hu h1 h2.symm
      · simp only [hu, hv, if_false] at h1 h2; exact p3 u v a h1 h2
    · -- hclr_win
      intro q' hq'
      refine ⟨(p4 q' hq').1, ?_⟩
      intro u hu
      have := (p4 q' hq').2 u hu
      simp only [upd]
      by_cases hut : u = t
      · subst hut; rw [hpc] at this; exact this.elim
      · simpa [hut] using this
    · -- limbo_win
      intro q' hq' hl
      refine ⟨(p5 q' hq' hl).1, ?_⟩
      intro u hu
      have := (p5 q' hq' hl).2 u hu
      simp only [upd]
      by_cases hut : u = t
      · subst hut; rw [hpc] at this; exact this.elim
      · simpa [hut] using this
    · -- limbo_nq
      intro q' hq'
      have : q' ≠ q := fun e => hq' (e ▸ hq)
      simpa [upd, this] using p6 q' hq'



/-- while the consumer is inside its clearing window nobody is about to link the head -/
theorem hclr_pnd {s : State} (I : Inv s) {q : Nat} (h : s.hclr q = true) : s.pnd q = false := by
  obtain ⟨h1, h2⟩ := I.p.hclr_win q h
  cases hl : s.lock q with
  | none => exact absurd hl h1
  | some t =>
    have hw := h2 t hl
    have hp := I.p.ok t
    generalize s.pc t = pct at hw hp
    cases pct <;> (try cases ‹K›) <;> simp only [inWin] at hw <;>
      simp only [PcOk, SyncOk, Hd] at hp <;> grind

theorem inv_stIssue {s s' : State} (I : Inv s) (t) (st : step s (.stIssue t) = some s') : Inv s' := by
  simp only [step] at st
  split at st <;> try (simp at st; done)
  rename_i q old n spl hpc
  simp only [Option.some.injEq] at st
  have hp := I.p.ok t; rw [hpc] at hp
  obtain ⟨hq, hpo, hlx, hbt⟩ := hp
  have hhc : isQ old → s.hclr old = false := by
    intro h; cases hh : s.hclr old with
    | false => rfl
    | true => have := hclr_pnd I hh; rw [hpo] at this; simp at this
  obtain ⟨A, M, P⟩ := I
  obtain ⟨hn0, hw0, hl0, hin0⟩ := M.pnd_ok old hpo
  subst st
  refine ⟨absInv_frame A rfl rfl rfl rfl rfl, ?_, ?_⟩
  · obtain ⟨m1, m2, m3, m4, m5, m6, m7, m8, m9, m10, m11, m12, m13⟩ := M
    have hbuf : ∀ u v, (old, v) ∉ s.buf u := by
      intro u v h; have := m1 u old v h; rw [hw0] at this; simp at this
    have hwt : ∀ a, s.wr a ≠ some t := by
      intro a h; have := m2 t a h; rw [hbt] at this; simp at this
    have hq3 : ∀ q', isQ q' → q' < 3 := by intro q' h; rcases h with rfl | rfl <;> omega
    constructor
    all_goals (try (simp only [issue, upd, exp, hbt, List.nil_append] at * ; grind [lastFor, cnt]))
  · obtain ⟨p1, p2, p3, p4, p5, p6⟩ := P
    have hinj : ∀ u, u ≠ t → pendOld (s.pc u) ≠ some old := by
      intro u hu h; exact hu (p3 u t old h (by rw [hpc]; rfl))
    constructor
    · intro u
      by_cases hut : u = t
      · subst hut; simp [upd, PcOk]
      · have hu := p1 u
        have hi := hinj u hut
        show PcOk _ u (upd s.pc t _ u)
        simp only [upd, hut, if_false]
        generalize s.pc u = pcu at hu hi
        cases pcu <;> (try cases ‹K›) <;>
          simp only [PcOk, EOk, SyncOk, Cons, Hd, upd, issue, pendOld] at hu hi ⊢ <;>
          first
          | grind
          | skip
    · exact p2
    · intro u v a h1 h2
      simp only [upd] at h1 h2
      by_cases hu : u = t
      · simp [hu, pendOld] at h1
      · by_cases hv : v = t
        · simp [hv, pendOld] at h2
        · simp only [hu, hv, if_false] at h1 h2; exact p3 u v a h1 h2
    · intro q' hq'
      refine ⟨(p4 q' hq').1, ?_⟩
      intro u hu
      have := (p4 q' hq').2 u hu
      simp only [upd]
      by_cases hut : u = t
      · subst hut; rw [hpc] at this; exact this.elim
      · simpa [hut] using this
    · intro q' hq' hl
      refine ⟨(p5 q' hq' hl).1, ?_⟩
      intro u hu
      have := (p5 q' hq' hl).2 u hu
      simp only [upd]
      by_cases hut : u = t
      · subst hut; rw [hpc] at this; exact this.elim
      · simpa [hut] using this
    · exact p6

end UrcuVerif.Wfcq
