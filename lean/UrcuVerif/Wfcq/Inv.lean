import UrcuVerif.Wfcq.Lists
/-!
Inductive invariant of the wfcqueue model (helper definitions; the property statements are in
`Props/C10.lean` and `Props/C17Wfcq.lean`).  Three groups:

* `AbsInv` – the abstract layer (`abs`, `limbo`, `lnx`, `tail`, `inq`): each abstract queue is a
  chain of the abstract successor function from its head, ending at `tail`; all nodes distinct;
  `inq` = membership (conservation).
* `MemInv` – memory and store buffers versus the abstract successor function.
* `PcInv` – what each program counter knows about its locals.
-/
set_option linter.unusedVariables false
namespace UrcuVerif.Wfcq

inductive Reach : State → Prop
  | init : Reach init
  | step {s s' l} : Reach s → step s l = some s' → Reach s'

/-- every node that is inside the data structure -/
def allNodes (s : State) : List Nat := s.abs 1 ++ s.abs 2 ++ s.limbo 1 ++ s.limbo 2

/-- a chain taken out by a splice: linked, its last node has no successor -/
def LimboOk (f : Nat → Nat) : List Nat → Prop
  | [] => True
  | h :: m => Linked f h m ∧ f (lastOf h m) = 0

structure AbsInv (s : State) : Prop where
  linked : ∀ q, isQ q → Linked s.lnx q (s.abs q)
  last : ∀ q, isQ q → lastOf q (s.abs q) = s.tail q
  lnxtail : ∀ q, isQ q → s.lnx (s.tail q) = 0
  nodes : ∀ n, n ∈ allNodes s → 3 ≤ n ∧ s.inq n = true
  nodup : (allNodes s).Nodup
  inq : ∀ n, s.inq n = true → n ∈ allNodes s
  limbo : ∀ q, isQ q → LimboOk s.lnx (s.limbo q)

/-- the value the program last wrote (logically) to `a.next` -/
def exp (s : State) (a : Nat) : Nat := if isQ a ∧ s.hclr a = true then 0 else s.lnx a

structure MemInv (s : State) : Prop where
  ent_wr : ∀ t a v, (a, v) ∈ s.buf t → s.wr a = some t
  wr_ent : ∀ t a, s.wr a = some t → lastFor (s.buf t) a ≠ none
  ent_node : ∀ t a v, (a, v) ∈ s.buf t → 3 ≤ a → v = s.lnx a
  last_head : ∀ t q v, isQ q → lastFor (s.buf t) q = some v → v = exp s q
  mem_node : ∀ a, 3 ≤ a → s.next a ≠ 0 → s.next a = s.lnx a
  mem_node_eq : ∀ a, 3 ≤ a → s.inq a = true → s.wr a = none → s.pnd a = false → s.next a = s.lnx a
  mem_head : ∀ q, isQ q → s.wr q = none → s.pnd q = false → s.next q = exp s q
  foreign : ∀ t q, isQ q → s.wr q = some t → s.lock q ≠ some t → s.next q = 0
  foreign_cnt : ∀ t q, isQ q → s.lock q ≠ some t → cnt (s.buf t) q ≤ 1
  pnd_ok : ∀ a, s.pnd a = true → s.next a = 0 ∧ s.wr a = none ∧ s.lnx a ≠ 0 ∧ (isQ a ∨ s.inq a = true)
  tail_ok : ∀ q, isQ q → s.next (s.tail q) = 0 ∧ s.wr (s.tail q) = none ∧ s.pnd (s.tail q) = false
  empty_ok : ∀ q, isQ q → s.abs q = [] → s.hclr q = false
  hclr_q : ∀ q, s.hclr q = true → isQ q

/-- the consumer of `q` has the first node `nd` of the queue in hand -/
def Hd (s : State) (t q nd : Nat) : Prop :=
  isQ q ∧ s.lock q = some t ∧ s.abs q ≠ [] ∧ s.lnx q = nd ∧ s.pnd q = false ∧ (s.wr q = none ∨ s.wr q = some t)

/-- program counters of the consumer of `q` at which memory `head.next` is cleared although the
abstract queue is not empty -/
def inWin : Pc → Nat → Prop
  | .d4 q' _ _, q => q' = q
  | .sync (.deq _) q' a, q => q' = q ∧ a ≠ q
  | .d6 q' _ _, q => q' = q
  | .d7 q' _, q => q' = q
  | .s5 _ src _, q => src = q
  | _, _ => False

def inS6 : Pc → Nat → Prop
  | .s6 _ src _ _, q => src = q
  | _, _ => False

/-- consumer-side precondition shared by the pcs of first / dequeue / splice before they own a node -/
def Cons (s : State) (t q : Nat) : Prop := isQ q ∧ s.lock q = some t ∧ s.hclr q = false

/-- `_cds_wfcq_empty` running inside operation `k` -/
def EOk (s : State) (t : Nat) : K → Nat → Prop
  | .empty, q => isQ q
  | .next _, _ => False
  | .first _, q => Cons s t q
  | .deq _, q => Cons s t q
  | .splice dst _, q => Cons s t q ∧ isQ dst ∧ dst ≠ q

/-- `___cds_wfcq_node_sync_next(a)` running inside operation `k` -/
def SyncOk (s : State) (t : Nat) : K → Nat → Nat → Prop
  | .empty, _, _ => False
  | .splice _ _, _, _ => False
  | .first _, q, a => a = q ∧ Cons s t q
  | .next _, q, a => isQ q ∧ s.lock q = some t ∧ a ∈ s.abs q
  | .deq _, q, a => (a = q → Cons s t q) ∧ (a ≠ q → Hd s t q a ∧ s.hclr q = true)

/-- what thread `t` knows at program counter `p` (never mentions the `pc` field) -/
def PcOk (s : State) (t : Nat) : Pc → Prop
  | .idle => True
  | .done _ => True
  | .enq q old n _ => isQ q ∧ s.pnd old = true ∧ s.lnx old = n ∧ s.buf t = []
  | .e1 k q => EOk s t k q
  | .e2 k q => EOk s t k q
  | .sync k q a => SyncOk s t k q a
  | .nx1 q a _ => isQ q ∧ s.lock q = some t ∧ a ∈ s.abs q
  | .nx2 q a _ => isQ q ∧ s.lock q = some t ∧ a ∈ s.abs q
  | .d2 q nd _ => Hd s t q nd ∧ s.hclr q = false
  | .d3 q nd _ => Hd s t q nd ∧ s.hclr q = false
  | .d4 q nd _ => Hd s t q nd ∧ s.hclr q = true
  | .d6 q nd nxt => Hd s t q nd ∧ nxt ≠ 0 ∧ nxt = s.lnx nd ∧ s.pnd nd = false
  | .d7 q nd => Hd s t q nd ∧ s.hclr q = true
  | .s3 dst src _ => Cons s t src ∧ isQ dst ∧ dst ≠ src
  | .s4 dst src _ => Cons s t src ∧ isQ dst ∧ dst ≠ src
  | .s5 dst src h => isQ dst ∧ isQ src ∧ dst ≠ src ∧ s.lock src = some t ∧ s.hclr src = true
        ∧ h = s.lnx src ∧ h ≠ 0 ∧ s.next src = 0 ∧ s.wr src = none ∧ s.pnd src = false
  | .s6 dst src h tl => isQ dst ∧ isQ src ∧ dst ≠ src ∧ s.lock src = some t
        ∧ s.limbo src ≠ [] ∧ (s.limbo src).headD 0 = h ∧ lastOf h (s.limbo src).tail = tl
        ∧ s.next tl = 0 ∧ s.wr tl = none ∧ s.pnd tl = false

/-- the old tail a thread is about to link (between its xchg and the issue of its store) -/
def pendOld : Pc → Option Nat
  | .enq _ old _ _ => some old
  | _ => none

structure PcInv (s : State) : Prop where
  ok : ∀ t, PcOk s t (s.pc t)
  lock_q : ∀ q t, s.lock q = some t → isQ q
  enq_inj : ∀ t u a, pendOld (s.pc t) = some a → pendOld (s.pc u) = some a → t = u
  hclr_win : ∀ q, s.hclr q = true → s.lock q ≠ none ∧ ∀ t, s.lock q = some t → inWin (s.pc t) q
  limbo_win : ∀ q, isQ q → s.limbo q ≠ [] → s.lock q ≠ none ∧ ∀ t, s.lock q = some t → inS6 (s.pc t) q
  limbo_nq : ∀ q, ¬ isQ q → s.limbo q = [] ∧ s.abs q = []

structure Inv (s : State) : Prop where
  a : AbsInv s
  m : MemInv s
  p : PcInv s

theorem absInv_init : AbsInv init := by
  constructor <;> simp [init, allNodes, LimboOk]

theorem memInv_init : MemInv init := by
  constructor <;> simp [init, exp]

theorem pcInv_init : PcInv init := by
  constructor <;> simp [init, PcOk, pendOld]

theorem inv_init : Inv init := ⟨absInv_init, memInv_init, pcInv_init⟩

end UrcuVerif.Wfcq
