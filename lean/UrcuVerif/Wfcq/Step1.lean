import UrcuVerif.Wfcq.Inv
/-! Inductive step, part 1: labels that only move a program counter. -/
set_option linter.unusedVariables false
namespace UrcuVerif.Wfcq

theorem absInv_frame {s s' : State} (h : AbsInv s) (h1 : s'.abs = s.abs) (h2 : s'.limbo = s.limbo)
    (h3 : s'.lnx = s.lnx) (h4 : s'.tail = s.tail) (h5 : s'.inq = s.inq) : AbsInv s' := by
  obtain ⟨a1, a2, a3, a4, a5, a6, a7⟩ := h
  constructor <;> simp only [allNodes, h1, h2, h3, h4, h5] at * <;> assumption

theorem pcOk_setPc (s : State) (t : Nat) (p : Pc) (u : Nat) (x : Pc) :
    PcOk (setPc s t p) u x = PcOk s u x := by
  cases x <;> first | rfl | (rename_i k _; cases k <;> rfl) | (rename_i k _ _; cases k <;> rfl)

theorem memInv_setPc {s : State} (h : MemInv s) (t : Nat) (p : Pc) : MemInv (setPc s t p) := by
  obtain ⟨m1, m2, m3, m4, m5, m6, m7, m8, m9, m10, m11, m12, m13⟩ := h
  constructor <;> assumption

/-- a step that only moves the program counter of `t` to `p` -/
theorem inv_setPc {s : State} (I : Inv s) (t : Nat) (p : Pc) (hok : PcOk s t p)
    (hpend : pendOld p = none)
    (hwin : ∀ q, s.hclr q = true → s.lock q = some t → inWin p q)
    (hs6 : ∀ q, isQ q → s.limbo q ≠ [] → s.lock q = some t → inS6 p q) : Inv (setPc s t p) := by
  obtain ⟨A, M, P⟩ := I
  refine ⟨absInv_frame A rfl rfl rfl rfl rfl, memInv_setPc M t p, ?_⟩
  obtain ⟨p1, p2, p3, p4, p5, p6⟩ := P
  constructor
  · intro u
    rw [pcOk_setPc]
    by_cases hu : u = t
    · subst hu; simpa [setPc] using hok
    · simpa [setPc, upd, hu] using p1 u
  · exact p2
  · intro u v a h1 h2
    simp only [setPc, upd] at h1 h2
    by_cases hu : u = t <;> by_cases hv : v = t <;> simp_all
    exact p3 u v a h1 h2
  · intro q hq
    refine ⟨(p4 q hq).1, ?_⟩
    intro u hu
    simp only [setPc, upd]
    by_cases hut : u = t
    · subst hut; simpa using hwin q hq hu
    · simpa [hut] using (p4 q hq).2 u hu
  · intro q hq hl
    refine ⟨(p5 q hq hl).1, ?_⟩
    intro u hu
    simp only [setPc, upd]
    by_cases hut : u = t
    · subst hut; simpa using hs6 q hq hl hu
    · simpa [hut] using (p5 q hq hl).2 u hu
  · exact p6

/-- same, with the window side conditions stated on the program counters only -/
theorem inv_setPc' {s : State} (I : Inv s) (t : Nat) (p : Pc) (hok : PcOk s t p)
    (hpend : pendOld p = none)
    (hwin : ∀ q, inWin (s.pc t) q → inWin p q)
    (hs6 : ∀ q, inS6 (s.pc t) q → inS6 p q) : Inv (setPc s t p) :=
  inv_setPc I t p hok hpend
    (fun q h1 h2 => hwin q ((I.p.hclr_win q h1).2 t h2))
    (fun q hq h1 h2 => hs6 q ((I.p.limbo_win q hq h1).2 t h2))

/-! ### what a load can return -/

theorem rd_eq (s : State) (t a : Nat) :
    (∃ v, lastFor (s.buf t) a = some v ∧ rd s t a = v) ∨ (lastFor (s.buf t) a = none ∧ rd s t a = s.next a) := by
  unfold rd
  cases h : lastFor (s.buf t) a <;> simp

/-- a non-NULL value read from a node's `next` is its abstract successor -/
theorem rd_node {s : State} (M : MemInv s) (t a : Nat) (ha : 3 ≤ a) (h : rd s t a ≠ 0) : rd s t a = s.lnx a := by
  rcases rd_eq s t a with ⟨v, h1, h2⟩ | ⟨h1, h2⟩
  · rw [h2]; exact M.ent_node t a v (lastFor_mem _ _ _ h1) ha
  · rw [h2] at h ⊢; exact M.mem_node a ha h

/-- a non-NULL value read from `a.next`: no append to `a` is between its xchg and its store issue -/
theorem rd_pnd {s : State} (M : MemInv s) (t a : Nat) (h : rd s t a ≠ 0) : s.pnd a = false := by
  cases hp : s.pnd a with
  | false => rfl
  | true =>
    exfalso
    obtain ⟨h1, h2, -, -⟩ := M.pnd_ok a hp
    rcases rd_eq s t a with ⟨v, h3, h4⟩ | ⟨h3, h4⟩
    · have := M.ent_wr t a v (lastFor_mem _ _ _ h3)
      rw [h2] at this; simp at this
    · rw [h4] at h; exact h h1

theorem mem_abs_all {s : State} {q n : Nat} (hq : isQ q) (h : n ∈ s.abs q) : n ∈ allNodes s := by
  unfold allNodes; rcases hq with rfl | rfl <;> simp [h]

theorem mem_limbo_all {s : State} {q n : Nat} (hq : isQ q) (h : n ∈ s.limbo q) : n ∈ allNodes s := by
  unfold allNodes; rcases hq with rfl | rfl <;> simp [h]

/-- the queue is empty exactly when the tail points to the head -/
theorem abs_nil_iff {s : State} (A : AbsInv s) (q : Nat) (hq : isQ q) : s.abs q = [] ↔ s.tail q = q := by
  have hl := A.last q hq
  constructor
  · intro h; rw [h] at hl; simpa using hl.symm
  · intro h
    cases hab : s.abs q with
    | nil => rfl
    | cons a l =>
      exfalso
      rw [hab] at hl
      have hm : lastOf a l ∈ a :: l := lastOf_mem_cons a l
      simp at hl
      rw [hl, h] at hm
      have : q ∈ allNodes s := mem_abs_all hq (by rw [hab]; exact hm)
      have h3 := (A.nodes q this).1
      rcases hq with rfl | rfl <;> omega

/-- a non-NULL `head.next` seen by anybody means the abstract queue is not empty -/
theorem rd_head_any {s : State} (I : Inv s) (t q : Nat) (hq : isQ q) (h : rd s t q ≠ 0) : s.abs q ≠ [] := by
  intro he
  have ht := (abs_nil_iff I.a q hq).mp he
  have hk := I.m.tail_ok q hq
  rw [ht] at hk
  rcases rd_eq s t q with ⟨v, h1, h2⟩ | ⟨h1, h2⟩
  · have := I.m.ent_wr t q v (lastFor_mem _ _ _ h1)
    rw [hk.2.1] at this; simp at this
  · rw [h2] at h; exact h hk.1

/-- a non-NULL `head.next` seen by the consumer outside its clearing window is the first node -/
theorem rd_head_cons {s : State} (I : Inv s) (t q : Nat) (hc : Cons s t q) (h : rd s t q ≠ 0) :
    Hd s t q (rd s t q) ∧ 3 ≤ rd s t q := by
  obtain ⟨hq, hl, hh⟩ := hc
  have hne := rd_head_any I t q hq h
  have hexp : exp s q = s.lnx q := by simp [exp, hh]
  have key : rd s t q = s.lnx q ∧ s.pnd q = false ∧ (s.wr q = none ∨ s.wr q = some t) := by
    rcases rd_eq s t q with ⟨v, h1, h2⟩ | ⟨h1, h2⟩
    · have hw := I.m.ent_wr t q v (lastFor_mem _ _ _ h1)
      have hv := I.m.last_head t q v hq h1
      refine ⟨by rw [h2, hv, hexp], ?_, Or.inr hw⟩
      cases hp : s.pnd q with
      | false => rfl
      | true => have := (I.m.pnd_ok q hp).2.1; rw [hw] at this; simp at this
    · rw [h2] at h ⊢
      have hp : s.pnd q = false := by
        cases hp : s.pnd q with
        | false => rfl
        | true => exact absurd (I.m.pnd_ok q hp).1 h
      cases hw : s.wr q with
      | none => exact ⟨by rw [I.m.mem_head q hq hw hp, hexp], hp, Or.inl rfl⟩
      | some u =>
        by_cases hu : u = t
        · subst hu; exact absurd h1 (I.m.wr_ent u q hw)
        · have := I.m.foreign u q hq hw (by rw [hl]; simp; exact fun e => hu e.symm)
          exact absurd this h
  refine ⟨⟨hq, hl, hne, key.1.symm, key.2.1, key.2.2⟩, ?_⟩
  have hlk := I.a.linked q hq
  cases hab : s.abs q with
  | nil => exact absurd hab hne
  | cons a l =>
    rw [hab] at hlk
    rw [key.1, hlk.1]
    have : a ∈ allNodes s := mem_abs_all hq (by simp [hab])
    exact (I.a.nodes a this).1

end UrcuVerif.Wfcq
