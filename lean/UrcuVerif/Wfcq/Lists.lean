import UrcuVerif.Wfcq.Model
/-! List / chain lemmas for the wfcqueue invariant (proof-only helpers, core Lean). -/
namespace UrcuVerif.Wfcq

/-- `Linked f p l`: following the successor function `f` from `p` visits exactly `l`, in order. -/
def Linked (f : Nat → Nat) : Nat → List Nat → Prop
  | _, [] => True
  | p, a :: l => f p = a ∧ Linked f a l

/-- last element of the chain `p :: l` -/
def lastOf : Nat → List Nat → Nat
  | p, [] => p
  | _, a :: l => lastOf a l

@[simp] theorem Linked_nil (f p) : Linked f p [] = True := rfl
@[simp] theorem Linked_cons (f p a l) : Linked f p (a :: l) = (f p = a ∧ Linked f a l) := rfl
@[simp] theorem lastOf_nil (p) : lastOf p [] = p := rfl
@[simp] theorem lastOf_cons (p a l) : lastOf p (a :: l) = lastOf a l := rfl

theorem lastOf_mem (p : Nat) (l : List Nat) : lastOf p l = p ∨ lastOf p l ∈ l := by
  induction l generalizing p with
  | nil => simp
  | cons a l ih =>
    rcases ih a with h | h
    · right; simp [h]
    · right; simp [h]

theorem lastOf_mem_cons (p : Nat) (l : List Nat) : lastOf p l ∈ p :: l := by
  rcases lastOf_mem p l with h | h <;> simp [h]

theorem lastOf_snoc (p : Nat) (l : List Nat) (n : Nat) : lastOf p (l ++ [n]) = n := by
  induction l generalizing p with
  | nil => simp
  | cons a l ih => simp [ih]

theorem lastOf_append_cons (p : Nat) (l : List Nat) (h : Nat) (m : List Nat) :
    lastOf p (l ++ h :: m) = lastOf h m := by
  induction l generalizing p with
  | nil => simp
  | cons a l ih => simp [ih]

theorem Linked_snoc (f : Nat → Nat) (p : Nat) (l : List Nat) (n : Nat) :
    Linked f p (l ++ [n]) ↔ Linked f p l ∧ f (lastOf p l) = n := by
  induction l generalizing p with
  | nil => simp
  | cons a l ih => simp [ih, and_assoc]

theorem Linked_append_cons (f : Nat → Nat) (p : Nat) (l : List Nat) (h : Nat) (m : List Nat) :
    Linked f p (l ++ h :: m) ↔ Linked f p l ∧ f (lastOf p l) = h ∧ Linked f h m := by
  induction l generalizing p with
  | nil => simp
  | cons a l ih => simp [ih, and_assoc]

/-- updating the successor of an address outside the chain does not change the chain -/
theorem Linked_upd_notin (f : Nat → Nat) (x v p : Nat) (l : List Nat) (hx : x ∉ p :: l) :
    Linked (upd f x v) p l ↔ Linked f p l := by
  induction l generalizing p with
  | nil => simp
  | cons a l ih =>
    have h1 : p ≠ x := by intro e; apply hx; simp [e]
    have h2 : x ∉ a :: l := by intro e; apply hx; simp at e ⊢; rcases e with e | e <;> simp [e]
    simp [upd, h1, ih a h2]

/-- updating the successor of the LAST element of a duplicate-free chain does not change it -/
theorem Linked_upd_last (f : Nat → Nat) (v p : Nat) (l : List Nat) (hn : (p :: l).Nodup) :
    Linked (upd f (lastOf p l) v) p l ↔ Linked f p l := by
  induction l generalizing p with
  | nil => simp
  | cons a l ih =>
    have hn' : (a :: l).Nodup := (List.nodup_cons.mp hn).2
    have hp : p ∉ a :: l := (List.nodup_cons.mp hn).1
    have h1 : p ≠ lastOf a l := by
      intro e; apply hp; rw [e]; exact lastOf_mem_cons a l
    simp [upd, h1, ih a hn']

/-- in a duplicate-free chain whose last element has successor 0, a non-zero successor of the
first element after `p` means the chain continues -/
theorem Linked_second (f : Nat → Nat) (p a : Nat) (l : List Nat) (h : Linked f p (a :: l))
    (hl : f (lastOf p (a :: l)) = 0) (hne : f a ≠ 0) : ∃ b m, l = b :: m ∧ f a = b := by
  cases l with
  | nil => simp at hl; exact absurd hl hne
  | cons b m => exact ⟨b, m, rfl, h.2.1⟩

/-- a chain that starts and ends at the same node of a duplicate-free list is that single node -/
theorem lastOf_eq_head (a : Nat) (l : List Nat) (hn : (a :: l).Nodup) (h : lastOf a l = a) : l = [] := by
  cases l with
  | nil => rfl
  | cons b m =>
    exfalso
    have : lastOf b m ∈ b :: m := lastOf_mem_cons b m
    simp at h
    rw [h] at this
    exact (List.nodup_cons.mp hn).1 this

/-- number of buffered stores to address `a` -/
def cnt (l : List (Nat × Nat)) (a : Nat) : Nat := (l.filter (fun e => e.1 = a)).length

@[simp] theorem cnt_nil (a) : cnt [] a = 0 := rfl
theorem cnt_cons (b v : Nat) (l a) : cnt ((b, v) :: l) a = (if b = a then 1 else 0) + cnt l a := by
  simp only [cnt, List.filter_cons]; split <;> simp_all <;> omega
theorem cnt_snoc (l : List (Nat × Nat)) (b v a : Nat) : cnt (l ++ [(b, v)]) a = cnt l a + (if b = a then 1 else 0) := by
  simp only [cnt, List.filter_append, List.length_append, List.filter_cons]; split <;> simp_all

@[simp] theorem lastFor_nil (a) : lastFor [] a = none := rfl

theorem lastFor_none_iff (l : List (Nat × Nat)) (a : Nat) : lastFor l a = none ↔ ∀ v, (a, v) ∉ l := by
  induction l with
  | nil => simp
  | cons e l ih =>
    obtain ⟨b, w⟩ := e
    simp only [lastFor, List.mem_cons, Prod.mk.injEq, not_or]
    cases h : lastFor l a with
    | some x =>
      have h1 : ¬ ∀ v, (a, v) ∉ l := by rw [← ih, h]; simp
      simp only [reduceCtorEq, false_iff]
      intro hc; exact h1 (fun v => (hc v).2)
    | none =>
      have hl := ih.mp h
      by_cases hb : b = a
      · subst hb; simp only [if_true, reduceCtorEq, false_iff]
        intro hc; have := (hc w).1; simp at this
      · simp only [hb, if_false, true_iff]
        intro v; exact ⟨fun e => hb e.1.symm, hl v⟩

theorem lastFor_none_cnt (l : List (Nat × Nat)) (a : Nat) : lastFor l a = none ↔ cnt l a = 0 := by
  rw [lastFor_none_iff]
  simp only [cnt, List.length_eq_zero_iff, List.filter_eq_nil_iff]
  constructor
  · intro h e he; simp; intro e1; apply h e.2; rw [← e1]; exact he
  · intro h v hv; have := h (a, v) hv; simp at this

theorem lastFor_mem (l : List (Nat × Nat)) (a v : Nat) (h : lastFor l a = some v) : (a, v) ∈ l := by
  induction l with
  | nil => simp at h
  | cons e l ih =>
    obtain ⟨b, w⟩ := e
    simp only [lastFor] at h
    cases h2 : lastFor l a with
    | some x => rw [h2] at h; simp at h; subst h; simp [ih h2]
    | none =>
      rw [h2] at h
      simp at h
      obtain ⟨rfl, rfl⟩ := h
      simp

theorem lastFor_snoc (l : List (Nat × Nat)) (b v a : Nat) :
    lastFor (l ++ [(b, v)]) a = if b = a then some v else lastFor l a := by
  induction l with
  | nil => simp [lastFor]
  | cons e l ih =>
    obtain ⟨c, w⟩ := e
    simp only [List.cons_append, lastFor, ih]
    by_cases hb : b = a
    · simp [hb]
    · simp only [hb, if_false]

theorem lastFor_cons_of_rest (b w : Nat) (l : List (Nat × Nat)) (a x : Nat) (h : lastFor l a = some x) :
    lastFor ((b, w) :: l) a = some x := by simp [lastFor, h]

theorem lastFor_cons_none (b w : Nat) (l : List (Nat × Nat)) (a : Nat) (h : lastFor l a = none) :
    lastFor ((b, w) :: l) a = if b = a then some w else none := by simp [lastFor, h]

end UrcuVerif.Wfcq
