import UrcuVerif.Gen.Src
import UrcuVerif.Src.SyncLocal
/-!
# Grace-period updater (memb / mb): event abstraction, list-oracle discipline, proof rules

(the refinement theorems themselves are in `Src/SyncScan.lean` (reader_state, scan loop, `wait_for_readers`) and
`Src/SyncGp.lean` (`smp_mb_master`, `wait_gp`, generated `wait_for_readers`), `Src/SyncSync.lean` (`synchronize_rcu`); final statements in `Props/SrcSync.lean`.)

## The checker `absRun`

`absRun trk ss wins es` reads the event list `es` of the updater thread from the checker state `ss` = (local L2 state
`ls : LState` of `Src/SyncLocal.lean`, whose four lists ARE the abstract list state, + `pend` = the reader whose
`cds_list_move` is due) and answers

* `.ok labs ss' wins'`  every event fits the protocol; `labs` are the L2 labels (with the observed values) and `lrun`
                        accepts them (`absRun_lrun`);
* `.undisc`             the ORACLE left the **list-oracle discipline / environment assumptions** (below) at some event:
                        the theorems say nothing about such runs;
* `.bad`                an event that has no place in the protocol, or a label that the local automaton refuses: what the
                        refinement theorems exclude.

Registry lists are not modelled by the IR (`cds_list_*` are `ext` events answered by the oracle).  The discipline,
checked event by event against the abstract lists of `ls` (reader `i`'s record is `Val.ptr (Loc.obj i)`):

* `cds_list_empty(h)` answers (truthy) iff the abstract list named by `h` is empty: `registry` ↦ `ls.reg` before the grace
  period starts (pc `idle`), ↦ `ls.inp` during pass 1, `&cur_snap_readers` ↦ `ls.snap` during pass 2;
* `cds_list_for_each_entry_safe.first(h)` answers `0` or a MEMBER of that list, `….next(h, index)` answers `0` or a member
  different from `index` (this is all the refinement needs; a real list, enumerated in order with the `safe` lookahead,
  answers like that when it has no duplicates: `Props.SrcSync.first_disc`, `succOf_disc`);
* `cds_list_move(&index->node, dest)` has to be the move announced by the classification just made (`pend`);
* a word loaded from `index->ctr` is a non-negative integer; `membarrier()` returns 0 and `urcu_die()` does not return;
* the lists change behind the updater's back only while `rcu_registry_lock` is not held: at every
  `mutex_lock(&rcu_registry_lock)` event the next *window* of `wins` (a list of `reg i` / `unreg i` operations of other
  threads, chosen by the environment – the theorems hold for every `wins`) is applied to the lists, as L2's `reg` /
  `unreg` labels (`LLabel.envReg / envUnreg`).

## Labels

`cds_list_empty(&registry)` at pc `idle` ↦ `uStartEmpty` / `uStart`; the master barrier (`fence mb` or `membarrier()`)
↦ `uMbarRet sys` at pc `mbar1`, `uEnd sys` at pc `mbar2`, silent elsewhere (futex handshake barriers inside
`wait_for_readers`, the two `cmm_smp_mb()` around the flip); load of `index->ctr` = `w` ↦ `uScan1Inactive j (decW w)` /
`uScan1Current j (decW w)` / nothing (ACTIVE_OLD) in pass 1, `uScan2 j (decW w)` / nothing in pass 2 (the label is taken
at the LOAD, the moment the value is observed; the list move that follows is checked against it); the store to
`rcu_gp.ctr` ↦ `uFlip g`; `cds_list_splice(&qsreaders, &registry)` ↦ `uP2Done`.

Silent (no L2 counterpart in `Gp/Flip.lean`): compiler barriers, `caa_cpu_relax`, the `wait_loops` counter, the futex
protocol of `wait_for_readers` / `wait_gp` (`uatomic_dec(&rcu_gp.futex)`, its reset, `futex_async`, `errno`: they belong to
the Handshake model), both mutexes (except for the windows above), and every access to the wait queue
(`urcu_wait_add`, `urcu_move_waiters`, `urcu_wake_all_waiters`, `urcu_adaptative_busy_wait`: the batching of
`synchronize_rcu` callers in front of and behind the grace period is not part of the Flip model).
Any other access to `rcu_gp.ctr` is `.bad`.
-/
set_option maxRecDepth 8192
set_option linter.unusedSimpArgs false
set_option linter.unusedVariables false
namespace UrcuVerif.Src.Sync
open UrcuVerif UrcuVerif.Src UrcuVerif.Gen.Src

/-! ## words -/

/-- `rcu_gp.ctr` = `URCU_GP_COUNT` + phase bit -/
def encGp (g : Bool) : Int := 1 + (if g then 4294967296 else 0)
/-- `(v & URCU_GP_CTR_NEST_MASK, v & URCU_GP_CTR_PHASE ≠ 0)` of a loaded reader word -/
def decW (w : Int) : Nat × Bool := (w.toNat % 4294967296, w.toNat.testBit 32)

theorem tb_phase (i : Nat) : Nat.testBit 4294967296 i = decide (32 = i) := by
  rw [show (4294967296:Nat) = 2^32 from rfl, Nat.testBit_two_pow]
theorem xor_and_phase (a b : Nat) :
    (a ^^^ b) &&& 4294967296 = if a.testBit 32 = b.testBit 32 then 0 else 4294967296 := by
  apply Nat.eq_of_testBit_eq
  intro i
  rw [Nat.testBit_and, Nat.testBit_xor, tb_phase]
  by_cases h : 32 = i
  · subst h
    cases a.testBit 32 <;> cases b.testBit 32 <;> simp [tb_phase]
  · split <;> simp [h, tb_phase]
theorem encGp_toNat (g : Bool) : (encGp g).toNat = 1 + (if g then 4294967296 else 0) := by
  unfold encGp; cases g <;> simp
theorem encGp_nonneg (g) : 0 ≤ encGp g := by unfold encGp; split <;> omega
theorem encGp_bit (g : Bool) : (encGp g).toNat.testBit 32 = g := by
  rw [encGp_toNat]; cases g <;> decide
theorem and_mask (x : Nat) : x &&& 4294967295 = x % 4294967296 := Nat.and_two_pow_sub_one_eq_mod x 32

theorem band_mask (w : Int) (h : 0 ≤ w) :
    evalBin .band (.int w) (.int 4294967295) = .ok (.int ((w.toNat % 4294967296 : Nat) : Int)) := by
  have : (4294967295 : Int).toNat = 4294967295 := by decide
  simp [evalBin, h, this, and_mask]
theorem bxor_gp (w : Int) (g : Bool) (h : 0 ≤ w) :
    evalBin .bxor (.int w) (.int (encGp g)) = .ok (.int ((w.toNat ^^^ (encGp g).toNat : Nat) : Int)) := by
  simp [evalBin, h, encGp_nonneg]
theorem band_phase (a : Nat) (g : Bool) :
    evalBin .band (.int ((a ^^^ (encGp g).toNat : Nat) : Int)) (.int 4294967296) =
      .ok (.int (if a.testBit 32 = g then 0 else 4294967296)) := by
  have : (4294967296 : Int).toNat = 4294967296 := by decide
  have h0 : (0:Int) ≤ ((a ^^^ (encGp g).toNat : Nat) : Int) := Int.natCast_nonneg _
  have h1 : (0:Int) ≤ 4294967296 := by decide
  simp only [evalBin, h0, h1, and_self, if_true, this, Int.toNat_natCast, xor_and_phase, encGp_bit]
  by_cases h : a.testBit 32 = g <;> simp [h]
theorem bxor_flip (g : Bool) :
    evalBin .bxor (.int (encGp g)) (.int 4294967296) = .ok (.int (encGp (!g))) := by
  cases g <;> simp [evalBin, encGp] <;> decide

/-! ## locations -/

def registry : Loc := .glob "registry"
def curSnap : Loc := .glob "&cur_snap_readers"
def qsr : Loc := .glob "&qsreaders"
def gpCtr : Loc := .field (.glob "rcu_gp") "ctr"
def gpFutex : Loc := .field (.glob "rcu_gp") "futex"
def regLock : Loc := .glob "rcu_registry_lock"

/-! ## checker -/

inductive EnvOp | reg (i : Nat) | unreg (i : Nat)
  deriving DecidableEq, Repr
def EnvOp.lab : EnvOp → LLabel
  | .reg i => .envReg i
  | .unreg i => .envUnreg i
abbrev Wins := List (List EnvOp)

structure SS where
  ls : LState
  pend : Option (Nat × Bool)     -- (reader, destination is `cur_snap_readers`) of the `cds_list_move` that is due
  deriving DecidableEq, Repr

inductive Act
  | bad | undisc
  | step (labs : List LLabel) (pend : Option (Nat × Bool))
  | window

inductive Res
  | bad | undisc
  | ok (labs : List LLabel) (ss : SS) (wins : Wins)
  deriving DecidableEq, Repr

def Res.prepend (l : List LLabel) : Res → Res
  | .ok labs ss w => .ok (l ++ labs) ss w
  | r => r

/-- the abstract list an input-list head denotes, by pass -/
def inList (ls : LState) (h : Loc) : Option (List Nat) :=
  if ls.upc = .p1 ∧ h = registry then some ls.inp
  else if ls.upc = .p2 ∧ h = curSnap then some ls.snap
  else none

/-- answer of `first` / `next`: NULL or a member of the list (other than `excl`) -/
def curOK (l : List Nat) (excl : Option Nat) : Val → Bool
  | .int n => n == 0
  | .ptr (.obj k) => decide (k ∈ l) && decide (excl ≠ some k)
  | _ => false

def masterAct (ss : SS) (sys : Bool) : Act :=
  match ss.ls.upc with
  | .mbar1 => .step [.uMbarRet sys] ss.pend
  | .mbar2 => .step [.uEnd sys] ss.pend
  | _ => .step [] ss.pend

def absExt (trk : Bool) (ss : SS) (name : String) (args : List Val) (r : Val) : Act :=
  if name = "cds_list_empty" then
    match args with
    | [.ptr h] =>
      if ss.pend ≠ none then .bad
      else if ss.ls.upc = .idle ∧ h = registry then
        (if r.truthy then (if ss.ls.reg = [] then .step [.uStartEmpty trk] none else .undisc)
         else (if ss.ls.reg ≠ [] then .step [.uStart trk] none else .undisc))
      else match inList ss.ls h with
        | some l => if r.truthy = decide (l = []) then .step [] none else .undisc
        | none => .bad
    | _ => .bad
  else if name = "cds_list_for_each_entry_safe.first" then
    match args with
    | [.ptr h] =>
      if ss.pend ≠ none then .bad
      else match inList ss.ls h with
        | some l => if curOK l none r then .step [] none else .undisc
        | none => .bad
    | _ => .bad
  else if name = "cds_list_for_each_entry_safe.next" then
    match args with
    | [.ptr h, .ptr (.obj j)] =>
      if ss.pend ≠ none then .bad
      else match inList ss.ls h with
        | some l => if curOK l (some j) r then .step [] none else .undisc
        | none => .bad
    | _ => .bad
  else if name = "cds_list_move" then
    match args with
    | [.ptr (.field (.obj j) f), .ptr d] =>
      if f = "node" ∧ (ss.pend = some (j, true) ∧ d = curSnap ∨ ss.pend = some (j, false) ∧ d = qsr) then .step [] none
      else .bad
    | _ => .bad
  else if name = "cds_list_splice" then
    (if args = [.ptr qsr, .ptr registry] ∧ ss.pend = none then .step [.uP2Done] none else .bad)
  else if name = "membarrier" then
    (if r = .int 0 then masterAct ss true else .undisc)
  else if name = "urcu_die" then .undisc
  else if name = "mutex_lock" ∧ args = [.ptr regLock] then .window
  else .step [] ss.pend

def absEv (trk : Bool) (ss : SS) : Event → Act
  | .ext name args r => absExt trk ss name args r
  | .fence p => if p = .mb then masterAct ss false else .step [] ss.pend
  | .ld l v _ =>
    match l with
    | .field (.obj j) f =>
      if f = "ctr" then
        match v with
        | .int w =>
          if w < 0 then .undisc
          else if ss.pend ≠ none then .bad
          else match ss.ls.upc with
            | .p1 =>
              if (decW w).1 = 0 then .step [.uScan1Inactive j (decW w)] (some (j, false))
              else if (decW w).2 = ss.ls.gp then .step [.uScan1Current j (decW w)] (some (j, true))
              else .step [] none
            | .p2 =>
              if (decW w).1 = 0 ∨ (decW w).2 = ss.ls.gp then .step [.uScan2 j (decW w)] (some (j, false))
              else .step [] none
            | _ => .bad
        | _ => .undisc
      else .step [] ss.pend
    | l => if l = gpCtr then .bad else .step [] ss.pend
  | .st l v _ =>
    if l = gpCtr then
      match v with
      | .int w => if w = encGp (decW w).2 ∧ ss.pend = none then .step [.uFlip (decW w).2] none else .bad
      | _ => .bad
    else .step [] ss.pend
  | .xchg l _ _ _ | .cas l _ _ _ _ _ | .rmw _ l _ _ _ => if l = gpCtr then .bad else .step [] ss.pend

def absRun (trk : Bool) : SS → Wins → List Event → Res
  | ss, wins, [] => .ok [] ss wins
  | ss, wins, e :: es =>
    match absEv trk ss e with
    | .bad => .bad
    | .undisc => .undisc
    | .step labs p =>
      match lrun ss.ls labs with
      | none => .bad
      | some ls' => (absRun trk ⟨ls', p⟩ wins es).prepend labs
    | .window =>
      match lrun ss.ls ((wins.headD []).map EnvOp.lab) with
      | none => .bad
      | some ls' => (absRun trk ⟨ls', ss.pend⟩ wins.tail es).prepend ((wins.headD []).map EnvOp.lab)

theorem absRun_lrun (trk) : ∀ (es : List Event) (ss wins labs ss' wins'),
    absRun trk ss wins es = .ok labs ss' wins' → lrun ss.ls labs = some ss'.ls := by
  intro es
  induction es with
  | nil => intro ss wins labs ss' wins' h; simp only [absRun, Res.ok.injEq] at h; obtain ⟨rfl, rfl, rfl⟩ := h; rfl
  | cons e es ih =>
    intro ss wins labs ss' wins' h
    simp only [absRun] at h
    split at h
    · simp at h
    · simp at h
    · split at h
      · simp at h
      · rename_i _ l1 p _ _ ls1 h1
        cases h2 : absRun trk ⟨ls1, p⟩ wins es with
        | bad => simp [h2, Res.prepend] at h
        | undisc => simp [h2, Res.prepend] at h
        | ok labs2 ss2 w2 =>
          simp only [h2, Res.prepend, Res.ok.injEq] at h
          obtain ⟨rfl, rfl, rfl⟩ := h
          exact lrun_append _ _ _ _ _ h1 (ih _ _ _ _ _ h2)
    · split at h
      · simp at h
      · rename_i _ ls1 h1
        cases h2 : absRun trk ⟨ls1, ss.pend⟩ wins.tail es with
        | bad => simp [h2, Res.prepend] at h
        | undisc => simp [h2, Res.prepend] at h
        | ok labs2 ss2 w2 =>
          simp only [h2, Res.prepend, Res.ok.injEq] at h
          obtain ⟨rfl, rfl, rfl⟩ := h
          exact lrun_append _ _ _ _ _ h1 (ih _ _ _ _ _ h2)

/-- the events are accepted (or the oracle left the discipline) and the checker ends in a state satisfying `R` -/
def Ok (trk : Bool) (ss : SS) (wins : Wins) (es : List Event) (R : SS → Wins → Prop) : Prop :=
  match absRun trk ss wins es with
  | .bad => False
  | .undisc => True
  | .ok _ ss' wins' => R ss' wins'

theorem Ok_nil (trk ss wins R) (h : R ss wins) : Ok trk ss wins [] R := by simpa [Ok, absRun] using h

def Res.andThen (r : Res) (k : SS → Wins → Res) : Res :=
  match r with
  | .ok l s w => (k s w).prepend l
  | .bad => .bad
  | .undisc => .undisc

theorem Res.prepend_andThen (r : Res) (l k) : (r.prepend l).andThen k = (r.andThen k).prepend l := by
  cases r with
  | bad => rfl
  | undisc => rfl
  | ok l1 s w =>
    simp only [Res.prepend, Res.andThen]
    cases k s w <;> simp [Res.prepend, List.append_assoc]

theorem absRun_append (trk) : ∀ (e1 e2 : List Event) (ss wins),
    absRun trk ss wins (e1 ++ e2) = (absRun trk ss wins e1).andThen (fun s w => absRun trk s w e2) := by
  intro e1
  induction e1 with
  | nil =>
    intro e2 ss wins
    simp only [absRun, List.nil_append, Res.andThen]
    cases absRun trk ss wins e2 <;> simp [Res.prepend]
  | cons e es ih =>
    intro e2 ss wins
    simp only [List.cons_append, absRun]
    split
    · rfl
    · rfl
    · split
      · rfl
      · rw [ih, Res.prepend_andThen]
    · split
      · rfl
      · rw [ih, Res.prepend_andThen]

theorem Ok_append (trk ss wins e1 e2 R) (h : Ok trk ss wins e1 (fun ss1 w1 => Ok trk ss1 w1 e2 R)) :
    Ok trk ss wins (e1 ++ e2) R := by
  unfold Ok at h ⊢
  rw [absRun_append]
  cases h1 : absRun trk ss wins e1 with
  | bad => simp [h1] at h
  | undisc => simp [Res.andThen]
  | ok l1 ss1 w1 =>
    simp only [h1, Res.andThen] at h ⊢
    cases h2 : absRun trk ss1 w1 e2 <;> simp_all [Res.prepend]

theorem Ok_iff (trk ss wins es R) :
    Ok trk ss wins es R ↔
      absRun trk ss wins es ≠ .bad ∧ ∀ labs ss' wins', absRun trk ss wins es = .ok labs ss' wins' → R ss' wins' := by
  unfold Ok
  cases absRun trk ss wins es <;> simp

theorem Ok_nil_iff (trk ss wins R) : Ok trk ss wins [] R ↔ R ss wins := by simp [Ok, absRun]

theorem Ok_cons (trk ss wins e es R) :
    Ok trk ss wins (e :: es) R ↔
      match absEv trk ss e with
      | .bad => False
      | .undisc => True
      | .step labs p =>
        (match lrun ss.ls labs with
         | none => False
         | some ls' => Ok trk ⟨ls', p⟩ wins es R)
      | .window =>
        (match lrun ss.ls ((wins.headD []).map EnvOp.lab) with
         | none => False
         | some ls' => Ok trk ⟨ls', ss.pend⟩ wins.tail es R) := by
  unfold Ok
  simp only [absRun]
  cases absEv trk ss e with
  | bad => simp
  | undisc => simp
  | step labs p =>
    simp only []
    cases lrun ss.ls labs with
    | none => simp
    | some ls' => simp only []; cases absRun trk ⟨ls', p⟩ wins es <;> simp [Res.prepend]
  | window =>
    simp only []
    cases lrun ss.ls ((wins.headD []).map EnvOp.lab) with
    | none => simp
    | some ls' => simp only []; cases absRun trk ⟨ls', ss.pend⟩ wins.tail es <;> simp [Res.prepend]

theorem Ok_mono (trk ss wins es) (R R' : SS → Wins → Prop) (h : Ok trk ss wins es R) (hm : ∀ s w, R s w → R' s w) :
    Ok trk ss wins es R' := by
  unfold Ok at h ⊢
  cases h1 : absRun trk ss wins es <;> simp_all

/-- the environment's list operations never block and leave the updater's pc and phase alone -/
theorem lrun_env : ∀ (ops : List EnvOp) (ls : LState),
    ∃ ls', lrun ls (ops.map EnvOp.lab) = some ls' ∧ ls'.upc = ls.upc ∧ ls'.gp = ls.gp := by
  intro ops
  induction ops with
  | nil => intro ls; exact ⟨ls, rfl, rfl, rfl⟩
  | cons o ops ih =>
    intro ls
    cases o with
    | reg i =>
      obtain ⟨ls', h1, h2, h3⟩ := ih { ls with reg := i :: ls.reg, inp := if ls.upc = .mbar1 ∨ ls.upc = .p1 then i :: ls.inp else ls.inp }
      exact ⟨ls', by simpa [lrun, lstep, EnvOp.lab] using h1, h2, h3⟩
    | unreg i =>
      obtain ⟨ls', h1, h2, h3⟩ := ih { ls with reg := rm i ls.reg, inp := rm i ls.inp, snap := rm i ls.snap, qs := rm i ls.qs }
      exact ⟨ls', by simpa [lrun, lstep, EnvOp.lab] using h1, h2, h3⟩

/-! ## partial-correctness triples over `exec` -/

abbrev Pre := Env → SS → Wins → Prop
abbrev Post := Ctl → Env → SS → Wins → Prop

/-- every `.ok` run of `r` from a state satisfying the precondition has its events accepted by the checker (from `ss`,
`wins`) into a checker state satisfying `Q` -/
def Holds (trk : Bool) (r : Except String Out) (ss : SS) (wins : Wins) (Q : Post) : Prop :=
  ∀ out, r = .ok out → Ok trk ss wins out.events (fun ss' wins' => Q out.ctl out.env ss' wins')

def Triple (trk : Bool) (fuel : Nat) (s : Stmt) (P : Pre) (Q : Post) : Prop :=
  ∀ env inp ss wins, P env ss wins → Holds trk (exec fuel s env inp) ss wins Q

theorem Holds.mono {trk r ss wins} {Q Q' : Post} (h : Holds trk r ss wins Q) (hm : ∀ c e s w, Q c e s w → Q' c e s w) :
    Holds trk r ss wins Q' := fun out ho => Ok_mono _ _ _ _ _ _ (h out ho) (fun s w => hm _ _ s w)

theorem Triple.conseq {trk fuel s} {P P' : Pre} {Q Q' : Post} (h : Triple trk fuel s P Q)
    (hp : ∀ e s w, P' e s w → P e s w) (hq : ∀ c e s w, Q c e s w → Q' c e s w) : Triple trk fuel s P' Q' :=
  fun env inp ss wins hP => (h env inp ss wins (hp _ _ _ hP)).mono hq

theorem Holds.seq {trk fuel a b env inp ss wins} {Qa Q : Post}
    (ha : Holds trk (exec fuel a env inp) ss wins Qa)
    (hb : ∀ e i s w, Qa .normal e s w → Holds trk (exec fuel b e i) s w Q)
    (hc : ∀ c e s w, c ≠ .normal → Qa c e s w → Q c e s w) :
    Holds trk (exec fuel (.seq a b) env inp) ss wins Q := by
  intro out ho
  simp only [exec, bind, Except.bind] at ho
  cases h1 : exec fuel a env inp with
  | error m => simp [h1] at ho
  | ok o =>
    simp only [h1] at ho
    have hA := ha o h1
    by_cases hn : o.ctl = .normal
    · simp only [hn] at ho
      cases h2 : exec fuel b o.env o.inp with
      | error m => simp [h2] at ho
      | ok o2 =>
        simp only [h2, Except.ok.injEq] at ho
        subst ho
        apply Ok_append
        refine Ok_mono _ _ _ _ _ _ hA ?_
        intro s w hq
        rw [hn] at hq
        exact hb _ _ _ _ hq o2 h2
    · have : out = o := by
        revert ho; cases hc' : o.ctl <;> simp_all
      subst this
      exact Ok_mono _ _ _ _ _ _ hA (fun s w hq => hc _ _ _ _ hn hq)

theorem Triple.seq {trk fuel a b} {P : Pre} {Qa Q : Post} (ha : Triple trk fuel a P Qa)
    (hb : Triple trk fuel b (Qa .normal) Q) (hc : ∀ c e s w, c ≠ .normal → Qa c e s w → Q c e s w) :
    Triple trk fuel (.seq a b) P Q :=
  fun env inp ss wins hP => Holds.seq (ha env inp ss wins hP) (fun e i s w hq => hb e i s w hq) hc

theorem iterate_acc (body : Env → List Val → Except String Out) : ∀ (n : Nat) (env inp) (acc : List Event),
    iterate body n env inp acc =
      (match iterate body n env inp [] with
       | .ok o => .ok { o with events := acc ++ o.events }
       | .error m => .error m) := by
  intro n
  induction n with
  | zero => intro env inp acc; simp [iterate]
  | succ n ih =>
    intro env inp acc
    simp only [iterate, bind, Except.bind, List.nil_append]
    cases h : body env inp with
    | error m => rfl
    | ok o =>
      simp only []
      cases hc : o.ctl <;> simp only [] <;>
        first
        | (rw [ih _ _ (acc ++ o.events), ih _ _ o.events]
           cases iterate body n o.env o.inp [] <;> simp [List.append_assoc])
        | rfl

/-- loop rule: `I` = loop invariant, `B` = postcondition of one execution of the body -/
theorem Holds.loop {trk} (body : Env → List Val → Except String Out) (I : Pre) (B Q : Post)
    (hbody : ∀ env inp ss wins, I env ss wins → Holds trk (body env inp) ss wins B)
    (hn : ∀ e s w, B .normal e s w → I e s w) (hcn : ∀ e s w, B .cont e s w → I e s w)
    (hbrk : ∀ e s w, B .brk e s w → Q .normal e s w)
    (hoth : ∀ c e s w, c ≠ .normal → c ≠ .cont → c ≠ .brk → B c e s w → Q c e s w)
    (hfuel : ∀ e s w, I e s w → Q .fuel e s w) :
    ∀ (n : Nat) env inp ss wins, I env ss wins → Holds trk (iterate body n env inp []) ss wins Q := by
  intro n
  induction n with
  | zero =>
    intro env inp ss wins hI out ho
    simp only [iterate, Except.ok.injEq] at ho
    subst ho
    exact Ok_nil _ _ _ _ (hfuel _ _ _ hI)
  | succ n ih =>
    intro env inp ss wins hI out ho
    simp only [iterate, bind, Except.bind, List.nil_append] at ho
    cases h : body env inp with
    | error m => simp [h] at ho
    | ok o =>
      simp only [h] at ho
      have hB := hbody env inp ss wins hI o h
      have hrec : ∀ (hI' : ∀ s w, B o.ctl o.env s w → I o.env s w),
          iterate body n o.env o.inp o.events = .ok out → Ok trk ss wins out.events (fun s w => Q out.ctl out.env s w) := by
        intro hI' hit
        rw [iterate_acc] at hit
        cases h2 : iterate body n o.env o.inp [] with
        | error m => simp [h2] at hit
        | ok o2 =>
          simp only [h2, Except.ok.injEq] at hit
          subst hit
          apply Ok_append
          refine Ok_mono _ _ _ _ _ _ hB ?_
          intro s w hq
          exact ih _ _ _ _ (hI' _ _ hq) o2 h2
      cases hc : o.ctl with
      | normal => simp only [hc] at ho; exact hrec (fun s w hq => hn _ _ _ (hc ▸ hq)) ho
      | cont => simp only [hc] at ho; exact hrec (fun s w hq => hcn _ _ _ (hc ▸ hq)) ho
      | brk =>
        simp only [hc, Except.ok.injEq] at ho; subst ho
        exact Ok_mono _ _ _ _ _ _ hB (fun s w hq => hbrk _ _ _ (hc ▸ hq))
      | ret v =>
        simp only [hc, Except.ok.injEq] at ho; subst ho
        refine Ok_mono _ _ _ _ _ _ hB (fun s w hq => ?_)
        simp only [List.nil_append]
        exact hoth _ _ _ _ (by simp) (by simp) (by simp) (hc ▸ hq)
      | blocked =>
        simp only [hc, Except.ok.injEq] at ho; subst ho
        refine Ok_mono _ _ _ _ _ _ hB (fun s w hq => ?_)
        exact hoth _ _ _ _ (by simp) (by simp) (by simp) (hc ▸ hq)
      | fuel =>
        simp only [hc, Except.ok.injEq] at ho; subst ho
        refine Ok_mono _ _ _ _ _ _ hB (fun s w hq => ?_)
        exact hoth _ _ _ _ (by simp) (by simp) (by simp) (hc ▸ hq)

theorem Triple.loop {trk fuel body} (I : Pre) (B Q : Post) (hbody : Triple trk fuel body I B)
    (hn : ∀ e s w, B .normal e s w → I e s w) (hcn : ∀ e s w, B .cont e s w → I e s w)
    (hbrk : ∀ e s w, B .brk e s w → Q .normal e s w)
    (hoth : ∀ c e s w, c ≠ .normal → c ≠ .cont → c ≠ .brk → B c e s w → Q c e s w)
    (hfuel : ∀ e s w, I e s w → Q .fuel e s w) : Triple trk fuel (.loop body) I Q := by
  intro env inp ss wins hI
  simp only [exec]
  exact Holds.loop _ I B Q (fun e i s w h => hbody e i s w h) hn hcn hbrk hoth hfuel fuel env inp ss wins hI

end UrcuVerif.Src.Sync
