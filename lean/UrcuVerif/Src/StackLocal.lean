import UrcuVerif.Wfs.Model
import UrcuVerif.Lfs.Model
/-!
# Thread-local projections of the L2 stack models (`Wfs/Model.lean`, `Lfs/Model.lean`)

For a calling thread `t` the *local part* of the L2 state is `(pc t, ret t)`.  `LLabel` = the L2 labels of the
thread **with the values the access writes and observes** (`pushX n old` = "`uatomic_xchg(&s->head, n)` returned
`old`").  `lstep` is the deterministic local automaton.  Proved against the real L2 `step`:

* `proj_step`  : every L2 step of thread `t` (of a label that has a local counterpart) is a local step whose label
  carries values that are the stated functions of the global state (`Obs`), and its global guard (`Guard`) holds;
* `lift_step`  : conversely a local step whose observed values agree with the global state (`Obs`) and whose global
  guard holds *is* an enabled L2 step, and the successor projects to the local successor
  (together: L2 step enabled ⟺ `lstep` enabled ∧ `Guard`, with the same values);
* `frame`      : labels of other threads and the thread-less labels (`gpStart`, `gpEnd`, `reclaim`) leave the
  projection of `t` unchanged; `frame_own`: so do the thread's own environment labels `flush t` (memory copy only),
  `lock t`, `unlock t`, `rlock t`, `runlock t`; `iterNext t` (the list iteration API, not one of the translated
  functions) leaves `pc t` unchanged (it sets `ret t`).
-/
namespace UrcuVerif.Src

-- ==========================================================================================================
namespace WfsL
open UrcuVerif

structure LState where
  pc : Wfs.Pc
  ret : Wfs.Ret
  deriving DecidableEq, Repr

inductive LLabel
  | pushBegin (n : Nat)            -- cds_wfs_node_init: node->next := NULL
  | pushX (n old : Nat)            -- xchg(&s->head, n) returned old
  | pushSt (n o : Nat)             -- store n->next := o
  | popBegin (b : Bool)            -- call of ___cds_wfs_pop(…, blocking = b)
  | popLd (h : Nat)                -- load s->head saw h
  | popSync (h v : Nat)            -- load h->next saw v
  | popCas (h nx cur : Nat)        -- cmpxchg(&s->head, h, nx) read cur
  | popAll (old : Nat)             -- xchg(&s->head, END) returned old
  | empty (h : Nat)                -- load s->head saw h
  | bad                            -- an event that is no access of the stack protocol / an ill-typed value
  deriving DecidableEq, Repr

def lstep (ls : LState) : LLabel → Option LState
  | .pushBegin n => if ls.pc = .idle then some { ls with pc := .pushX n } else none
  | .pushX n old => if ls.pc = .pushX n then some { ls with pc := .pushSt n old } else none
  | .pushSt n o => if ls.pc = .pushSt n o then some { pc := .idle, ret := .flag (o != Wfs.END) } else none
  | .popBegin b => if ls.pc = .idle then some { ls with pc := .popLd b } else none
  | .popLd h =>
    match ls.pc with
    | .popLd b => if h = Wfs.END then some { pc := .idle, ret := .null } else some { ls with pc := .popSync b h }
    | _ => none
  | .popSync h v =>
    match ls.pc with
    | .popSync b h' =>
      if h' = h then
        if v = 0 then (if b then some ls else some { pc := .idle, ret := .wouldblock })
        else some { ls with pc := .popCas b h v }
      else none
    | _ => none
  | .popCas h nx cur =>
    match ls.pc with
    | .popCas b h' nx' =>
      if h' = h ∧ nx' = nx then
        if cur = h then some { pc := .idle, ret := .node h (nx == Wfs.END) }
        else if b then some { ls with pc := .popLd b }
        else some { pc := .idle, ret := .wouldblock }
      else none
    | _ => none
  | .popAll old => if ls.pc = .idle then some { ls with ret := if old = Wfs.END then .null else .head old } else none
  | .empty h => if ls.pc = .idle then some { ls with ret := .flag (h == Wfs.END) } else none
  | .bad => none

def lrun : LState → List LLabel → Option LState
  | ls, [] => some ls
  | ls, l :: r => match lstep ls l with
    | some ls' => lrun ls' r
    | none => none

theorem lrun_append (ls : LState) (a b : List LLabel) :
    lrun ls (a ++ b) = (lrun ls a).bind (fun m => lrun m b) := by
  induction a generalizing ls with
  | nil => rfl
  | cons l r ih => simp only [List.cons_append, lrun]; cases lstep ls l <;> simp [ih]

/-- projection of the L2 state to thread `t` -/
def proj (s : Wfs.State) (t : Nat) : LState := { pc := s.pc t, ret := s.ret t }

/-- the L2 label of a local label of thread `t` -/
def toL2 (t : Nat) : LLabel → Option Wfs.Label
  | .pushBegin n => some (.pushBegin t n)
  | .pushX _ _ => some (.pushX t)
  | .pushSt _ _ => some (.pushSt t)
  | .popBegin b => some (.popBegin t b)
  | .popLd _ => some (.popLd t)
  | .popSync _ _ => some (.popSync t)
  | .popCas _ _ _ => some (.popCas t)
  | .popAll _ => some (.popAll t)
  | .empty _ => some (.empty t)
  | .bad => none

/-- the values a label *observes* are these functions of the global state -/
def Obs (s : Wfs.State) (t : Nat) : LLabel → Prop
  | .pushX _ old => old = s.head
  | .popLd h => h = s.head
  | .popSync h v => v = Wfs.rd s t h
  | .popCas _ _ cur => cur = s.head
  | .popAll old => old = s.head
  | .empty h => h = s.head
  | _ => True

/-- the part of the L2 guard that is not a condition on the thread's own `pc` -/
def Guard (c : Wfs.Cfg) (s : Wfs.State) (t : Nat) : LLabel → Prop
  | .pushBegin n => Wfs.isNode n ∧ s.nst n = .free
  | .pushX _ _ => s.buf t = []
  | .popBegin _ => Wfs.hasRight c s t
  | .popCas _ _ _ => s.buf t = []
  | .popAll _ => Wfs.hasRightAll c s t ∧ s.buf t = [] ∧ s.priv t = []
  | .bad => False
  | _ => True

/-- local step + observed values agree with the global state + global guard ⇒ enabled L2 step with the projected
successor -/
theorem lift_step (c : Wfs.Cfg) (s : Wfs.State) (t : Nat) (l : LLabel) (L : Wfs.Label) (ls' : LState)
    (hL : toL2 t l = some L) (ho : Obs s t l) (hg : Guard c s t l) (h : lstep (proj s t) l = some ls') :
    ∃ s', Wfs.step c s L = some s' ∧ proj s' t = ls' := by
  cases l <;> simp only [toL2, Option.some.injEq, reduceCtorEq] at hL <;> subst hL <;>
    simp only [Obs] at ho <;> simp only [Guard] at hg <;> unfold proj at h <;> simp only [lstep] at h
  case pushBegin n =>
    simp only [Option.ite_none_right_eq_some, Option.some.injEq] at h; obtain ⟨hpc, rfl⟩ := h
    simp [Wfs.step, proj, *]
  case pushX n old =>
    simp only [Option.ite_none_right_eq_some, Option.some.injEq] at h; obtain ⟨hpc, rfl⟩ := h
    simp [Wfs.step, proj, *]
  case pushSt n o =>
    simp only [Option.ite_none_right_eq_some, Option.some.injEq] at h; obtain ⟨hpc, rfl⟩ := h
    simp [Wfs.step, proj, *]
  case popBegin b =>
    simp only [Option.ite_none_right_eq_some, Option.some.injEq] at h; obtain ⟨hpc, rfl⟩ := h
    simp [Wfs.step, proj, *]
  case popLd hd =>
    split at h <;> try simp only [reduceCtorEq] at h
    rename_i b hpc
    split at h <;> simp only [Option.some.injEq] at h <;> subst h <;> subst ho <;> simp [Wfs.step, proj, *]
  case popSync hd v =>
    split at h <;> try simp only [reduceCtorEq] at h
    rename_i b h' hpc
    split at h <;> try simp only [reduceCtorEq] at h
    subst_vars
    split at h
    · split at h <;> simp only [Option.some.injEq] at h <;> subst h <;> simp_all [Wfs.step, proj]
    · simp only [Option.some.injEq] at h; subst h; simp_all [Wfs.step, proj]
  case popCas hd nx cur =>
    split at h <;> try simp only [reduceCtorEq] at h
    rename_i b h' nx' hpc
    split at h <;> try simp only [reduceCtorEq] at h
    rename_i heq; obtain ⟨rfl, rfl⟩ := heq
    subst ho
    split at h
    · simp only [Option.some.injEq] at h; subst h; simp_all [Wfs.step, proj]
    · split at h <;> simp only [Option.some.injEq] at h <;> subst h <;> simp_all [Wfs.step, proj]
  case popAll old =>
    simp only [Option.ite_none_right_eq_some, Option.some.injEq] at h; obtain ⟨hpc, rfl⟩ := h; subst ho
    simp [Wfs.step, proj, *]
  case empty hd =>
    simp only [Option.ite_none_right_eq_some, Option.some.injEq] at h; obtain ⟨hpc, rfl⟩ := h; subst ho
    simp [Wfs.step, proj, *]

/-- every L2 step of thread `t` with a label that has a local counterpart is a local step; the label's values are
functions of the global state (`Obs`) and the global guard holds -/
theorem proj_step (c : Wfs.Cfg) (s s' : Wfs.State) (t : Nat) (L : Wfs.Label)
    (hL : ∃ l0, toL2 t l0 = some L) (h : Wfs.step c s L = some s') :
    ∃ l, toL2 t l = some L ∧ Obs s t l ∧ Guard c s t l ∧ lstep (proj s t) l = some (proj s' t) := by
  obtain ⟨l0, hl0⟩ := hL
  cases l0 <;> simp only [toL2, Option.some.injEq, reduceCtorEq] at hl0 <;> subst hl0 <;>
    simp only [Wfs.step] at h
  case pushBegin n =>
    split at h <;> simp only [Option.some.injEq, reduceCtorEq] at h; subst h
    rename_i hg
    exact ⟨.pushBegin n, rfl, trivial, hg.2, by simp [lstep, proj, hg.1]⟩
  case pushX =>
    split at h <;> try simp only [reduceCtorEq] at h
    rename_i n hpc
    split at h <;> simp only [Option.some.injEq, reduceCtorEq] at h; subst h
    rename_i hb
    exact ⟨.pushX n s.head, rfl, rfl, hb, by simp [lstep, proj, hpc]⟩
  case pushSt =>
    split at h <;> simp only [Option.some.injEq, reduceCtorEq] at h; subst h
    rename_i n o hpc
    exact ⟨.pushSt n o, rfl, trivial, trivial, by simp [lstep, proj, hpc]⟩
  case popBegin b =>
    split at h <;> simp only [Option.some.injEq, reduceCtorEq] at h; subst h
    rename_i hg
    exact ⟨.popBegin b, rfl, trivial, hg.2, by simp [lstep, proj, hg.1]⟩
  case popLd =>
    split at h <;> try simp only [reduceCtorEq] at h
    rename_i b hpc
    refine ⟨.popLd s.head, rfl, rfl, trivial, ?_⟩
    split at h <;> simp only [Option.some.injEq] at h <;> subst h <;> simp [lstep, proj, *]
  case popSync =>
    split at h <;> try simp only [reduceCtorEq] at h
    rename_i b hd hpc
    refine ⟨.popSync hd (Wfs.rd s t hd), rfl, rfl, trivial, ?_⟩
    split at h
    · split at h <;> simp only [Option.some.injEq] at h <;> subst h <;> simp_all [lstep, proj]
    · simp only [Option.some.injEq] at h; subst h; simp_all [lstep, proj]
  case popCas =>
    split at h <;> try simp only [reduceCtorEq] at h
    rename_i b hd nx hpc
    split at h <;> try simp only [reduceCtorEq] at h
    rename_i hb
    refine ⟨.popCas hd nx s.head, rfl, rfl, hb, ?_⟩
    split at h
    · simp only [Option.some.injEq] at h; subst h; simp_all [lstep, proj]
    · split at h <;> simp only [Option.some.injEq] at h <;> subst h <;> simp_all [lstep, proj]
  case popAll =>
    split at h <;> simp only [Option.some.injEq, reduceCtorEq] at h; subst h
    rename_i hg
    exact ⟨.popAll s.head, rfl, rfl, hg.2, by simp [lstep, proj, hg.1]⟩
  case empty =>
    split at h <;> simp only [Option.some.injEq, reduceCtorEq] at h; subst h
    rename_i hg
    exact ⟨.empty s.head, rfl, rfl, trivial, by simp [lstep, proj, hg]⟩

/-- the thread a label belongs to (`none`: grace-period machinery / reclamation, no thread of the stack API) -/
def tidOf : Wfs.Label → Option Nat
  | .pushBegin t _ | .pushX t | .pushSt t | .flush t | .lock t | .unlock t | .rlock t | .runlock t | .empty t
  | .popBegin t _ | .popLd t | .popSync t | .popCas t | .popAll t | .iterNext t _ => some t
  | .gpStart | .gpEnd | .reclaim _ => none

/-- frame: steps of other threads and of the environment leave the projection of `t` unchanged -/
theorem frame (c : Wfs.Cfg) (s s' : Wfs.State) (t : Nat) (L : Wfs.Label)
    (ht : tidOf L ≠ some t) (h : Wfs.step c s L = some s') : proj s' t = proj s t := by
  cases L <;> simp only [tidOf, ne_eq, Option.some.injEq, reduceCtorEq, not_false_eq_true] at ht <;>
    simp only [Wfs.step] at h <;> (repeat' split at h) <;>
    simp only [Option.some.injEq, reduceCtorEq] at h <;> subst h <;>
    first | rfl | (have ht' := Ne.symm ht; simp [proj, upd, ht'])

/-- the thread's own labels without a local counterpart: store-buffer drain and lock / read-side section markers
leave the projection unchanged -/
theorem frame_own (c : Wfs.Cfg) (s s' : Wfs.State) (t : Nat) (L : Wfs.Label)
    (hL : L = .flush t ∨ L = .lock t ∨ L = .unlock t ∨ L = .rlock t ∨ L = .runlock t)
    (h : Wfs.step c s L = some s') : proj s' t = proj s t := by
  rcases hL with rfl | rfl | rfl | rfl | rfl <;> simp only [Wfs.step] at h <;> (repeat' split at h) <;>
    simp only [Option.some.injEq, reduceCtorEq] at h <;> subst h <;> rfl

/-- `iterNext` (iteration over a popped list: `cds_wfs_next_*`, not one of the translated functions) keeps the pc -/
theorem frame_iterNext (c : Wfs.Cfg) (s s' : Wfs.State) (t : Nat) (b : Bool)
    (h : Wfs.step c s (.iterNext t b) = some s') : (proj s' t).pc = (proj s t).pc := by
  simp only [Wfs.step] at h; (repeat' split at h) <;>
    simp only [Option.some.injEq, reduceCtorEq] at h <;> subst h <;> rfl

/-- L2 step of thread `t` enabled ⟺ some decoration `l` of the label with the values of the global state is enabled
in the local automaton and the global guard holds -/
theorem enabled_iff (c : Wfs.Cfg) (s : Wfs.State) (t : Nat) (L : Wfs.Label) (hL : ∃ l0, toL2 t l0 = some L) :
    (∃ s', Wfs.step c s L = some s') ↔
      ∃ l ls', toL2 t l = some L ∧ Obs s t l ∧ Guard c s t l ∧ lstep (proj s t) l = some ls' := by
  constructor
  · rintro ⟨s', h⟩
    obtain ⟨l, h1, h2, h3, h4⟩ := proj_step c s s' t L hL h
    exact ⟨l, _, h1, h2, h3, h4⟩
  · rintro ⟨l, ls', h1, h2, h3, h4⟩
    obtain ⟨s', h, -⟩ := lift_step c s t l L ls' h1 h2 h3 h4
    exact ⟨s', h⟩

/-- the labels of thread `t` that have a local counterpart -/
def own (t : Nat) : Wfs.Label → Bool
  | .pushBegin t' _ | .pushX t' | .pushSt t' | .popBegin t' _ | .popLd t' | .popSync t' | .popCas t' | .popAll t'
  | .empty t' => t' == t
  | _ => false

theorem own_iff (t : Nat) (L : Wfs.Label) : own t L = true ↔ ∃ l0, toL2 t l0 = some L := by
  constructor
  · intro h
    cases L <;> simp only [own, beq_iff_eq, Bool.false_eq_true] at h <;> subst h
    case pushBegin n => exact ⟨.pushBegin n, rfl⟩
    case pushX => exact ⟨.pushX 0 0, rfl⟩
    case pushSt => exact ⟨.pushSt 0 0, rfl⟩
    case popBegin b => exact ⟨.popBegin b, rfl⟩
    case popLd => exact ⟨.popLd 0, rfl⟩
    case popSync => exact ⟨.popSync 0 0, rfl⟩
    case popCas => exact ⟨.popCas 0 0 0, rfl⟩
    case popAll => exact ⟨.popAll 0, rfl⟩
    case empty => exact ⟨.empty 0, rfl⟩
  · rintro ⟨l0, h⟩
    cases l0 <;> simp only [toL2, Option.some.injEq, reduceCtorEq] at h <;> subst h <;> simp [own]

/-- a label that is not `own t` belongs to another thread / the environment, or is one of `t`'s own environment
labels, or is `iterNext t` -/
theorem not_own (t : Nat) (L : Wfs.Label) (h : own t L = false) :
    tidOf L ≠ some t ∨ (L = .flush t ∨ L = .lock t ∨ L = .unlock t ∨ L = .rlock t ∨ L = .runlock t) ∨
      ∃ b, L = .iterNext t b := by
  cases L with
  | flush t' | lock t' | unlock t' | rlock t' | runlock t' =>
    by_cases e : t' = t
    · subst e; simp
    · exact .inl (by simp [tidOf, e])
  | iterNext t' b =>
    by_cases e : t' = t
    · subst e; simp
    · exact .inl (by simp [tidOf, e])
  | gpStart | gpEnd | reclaim _ => exact .inl (by simp [tidOf])
  | _ => exact .inl (by simpa [tidOf, own] using h)

/-- **Every L2 run projects to a run of the local automaton**: the subsequence of `t`'s labels (decorated with the
values the global states determine) is accepted from `proj s t` and ends in `proj s' t` – provided `t` does not
iterate a popped list meanwhile (`iterNext` overwrites `ret t`). -/
theorem proj_run (c : Wfs.Cfg) (t : Nat) : ∀ (Ls : List Wfs.Label) (s s' : Wfs.State),
    Wfs.run c s Ls = some s' → (∀ b, Wfs.Label.iterNext t b ∉ Ls) →
    ∃ ls, ls.filterMap (toL2 t) = Ls.filter (own t) ∧ lrun (proj s t) ls = some (proj s' t) := by
  intro Ls
  induction Ls with
  | nil => intro s s' h _; simp only [Wfs.run, Option.some.injEq] at h; subst h; exact ⟨[], rfl, rfl⟩
  | cons L Ls ih =>
    intro s s' h hno
    simp only [Wfs.run] at h
    cases hs : Wfs.step c s L with
    | none => simp [hs] at h
    | some s1 =>
      simp only [hs] at h
      obtain ⟨ls, hls, hrun⟩ := ih s1 s' h (fun b hb => hno b (List.mem_cons_of_mem _ hb))
      cases ho : own t L with
      | true =>
        obtain ⟨l, h1, -, -, h4⟩ := proj_step c s s1 t L ((own_iff t L).mp ho) hs
        exact ⟨l :: ls, by simp [h1, hls, ho], by simp [lrun, h4, hrun]⟩
      | false =>
        have hp : proj s1 t = proj s t := by
          rcases not_own t L ho with h1 | h1 | ⟨b, rfl⟩
          · exact frame c s s1 t L h1 hs
          · exact frame_own c s s1 t L h1 hs
          · exact absurd List.mem_cons_self (hno b)
        exact ⟨ls, by simp [ho, hls], by rw [← hp]; exact hrun⟩

end WfsL

-- ==========================================================================================================
namespace LfsL
open UrcuVerif

structure LState where
  pc : Lfs.Pc
  ret : Lfs.Ret
  deriving DecidableEq, Repr

inductive LLabel
  | pushBegin (n : Nat)            -- entry of cds_lfs_push(node n): head guess := NULL
  | pushSt (n h : Nat)             -- plain store n->next := h
  | pushCas (n h cur : Nat)        -- cmpxchg(&s->head, h, n) read cur
  | popBegin                       -- call of ___cds_lfs_pop
  | popLd (h : Nat)                -- load s->head saw h
  | popLdN (h v : Nat)             -- load h->next saw v
  | popCas (h nx cur : Nat)        -- cmpxchg(&s->head, h, nx) read cur
  | popAll (old : Nat)             -- xchg(&s->head, NULL) returned old
  | empty (h : Nat)                -- load s->head saw h
  | bad
  deriving DecidableEq, Repr

def lstep (ls : LState) : LLabel → Option LState
  | .pushBegin n => if ls.pc = .idle then some { ls with pc := .pushSt n 0 } else none
  | .pushSt n h => if ls.pc = .pushSt n h then some { ls with pc := .pushCas n h } else none
  | .pushCas n h cur =>
    if ls.pc = .pushCas n h then
      if cur = h then some { pc := .idle, ret := .flag (h != 0) } else some { ls with pc := .pushSt n cur }
    else none
  | .popBegin => if ls.pc = .idle then some { ls with pc := .popLd } else none
  | .popLd h =>
    if ls.pc = .popLd then
      if h = 0 then some { pc := .idle, ret := .null } else some { ls with pc := .popLdN h }
    else none
  | .popLdN h v => if ls.pc = .popLdN h then some { ls with pc := .popCas h v } else none
  | .popCas h nx cur =>
    if ls.pc = .popCas h nx then
      if cur = h then some { pc := .idle, ret := .node h } else some { ls with pc := .popLd }
    else none
  | .popAll old => if ls.pc = .idle then some { ls with ret := if old = 0 then .null else .head old } else none
  | .empty h => if ls.pc = .idle then some { ls with ret := .flag (h == 0) } else none
  | .bad => none

def lrun : LState → List LLabel → Option LState
  | ls, [] => some ls
  | ls, l :: r => match lstep ls l with
    | some ls' => lrun ls' r
    | none => none

theorem lrun_append (ls : LState) (a b : List LLabel) :
    lrun ls (a ++ b) = (lrun ls a).bind (fun m => lrun m b) := by
  induction a generalizing ls with
  | nil => rfl
  | cons l r ih => simp only [List.cons_append, lrun]; cases lstep ls l <;> simp [ih]

def proj (s : Lfs.State) (t : Nat) : LState := { pc := s.pc t, ret := s.ret t }

def toL2 (t : Nat) : LLabel → Option Lfs.Label
  | .pushBegin n => some (.pushBegin t n)
  | .pushSt _ _ => some (.pushSt t)
  | .pushCas _ _ _ => some (.pushCas t)
  | .popBegin => some (.popBegin t)
  | .popLd _ => some (.popLd t)
  | .popLdN _ _ => some (.popLdN t)
  | .popCas _ _ _ => some (.popCas t)
  | .popAll _ => some (.popAll t)
  | .empty _ => some (.empty t)
  | .bad => none

def Obs (s : Lfs.State) (t : Nat) : LLabel → Prop
  | .pushCas _ _ cur => cur = s.head
  | .popLd h => h = s.head
  | .popLdN h v => v = Lfs.rd s t h
  | .popCas _ _ cur => cur = s.head
  | .popAll old => old = s.head
  | .empty h => h = s.head
  | _ => True

def Guard (c : Lfs.Cfg) (s : Lfs.State) (t : Nat) : LLabel → Prop
  | .pushBegin n => n ≠ 0 ∧ s.nst n = .free
  | .pushCas _ _ _ => s.buf t = []
  | .popBegin => Lfs.mayPop c s t
  | .popCas _ _ _ => s.buf t = []
  | .popAll _ => Lfs.mayPopAll c s t ∧ s.buf t = [] ∧ s.priv t = []
  | .bad => False
  | _ => True

theorem lift_step (c : Lfs.Cfg) (s : Lfs.State) (t : Nat) (l : LLabel) (L : Lfs.Label) (ls' : LState)
    (hL : toL2 t l = some L) (ho : Obs s t l) (hg : Guard c s t l) (h : lstep (proj s t) l = some ls') :
    ∃ s', Lfs.step c s L = some s' ∧ proj s' t = ls' := by
  cases l <;> simp only [toL2, Option.some.injEq, reduceCtorEq] at hL <;> subst hL <;>
    simp only [Obs] at ho <;> simp only [Guard] at hg <;> unfold proj at h <;> simp only [lstep] at h
  case pushBegin n =>
    simp only [Option.ite_none_right_eq_some, Option.some.injEq] at h; obtain ⟨hpc, rfl⟩ := h
    simp [Lfs.step, proj, *]
  case pushSt n hd =>
    simp only [Option.ite_none_right_eq_some, Option.some.injEq] at h; obtain ⟨hpc, rfl⟩ := h
    simp [Lfs.step, proj, *]
  case pushCas n hd cur =>
    split at h <;> try simp only [reduceCtorEq] at h
    subst ho
    split at h <;> simp only [Option.some.injEq] at h <;> subst h <;> simp_all [Lfs.step, proj]
  case popBegin =>
    simp only [Option.ite_none_right_eq_some, Option.some.injEq] at h; obtain ⟨hpc, rfl⟩ := h
    simp [Lfs.step, proj, *]
  case popLd hd =>
    split at h <;> try simp only [reduceCtorEq] at h
    subst ho
    split at h <;> simp only [Option.some.injEq] at h <;> subst h <;> simp_all [Lfs.step, proj]
  case popLdN hd v =>
    simp only [Option.ite_none_right_eq_some, Option.some.injEq] at h; obtain ⟨hpc, rfl⟩ := h
    simp [Lfs.step, proj, *]
  case popCas hd nx cur =>
    split at h <;> try simp only [reduceCtorEq] at h
    subst ho
    split at h <;> simp only [Option.some.injEq] at h <;> subst h <;> simp_all [Lfs.step, proj]
  case popAll old =>
    simp only [Option.ite_none_right_eq_some, Option.some.injEq] at h; obtain ⟨hpc, rfl⟩ := h; subst ho
    simp [Lfs.step, proj, *]
  case empty hd =>
    simp only [Option.ite_none_right_eq_some, Option.some.injEq] at h; obtain ⟨hpc, rfl⟩ := h; subst ho
    simp [Lfs.step, proj, *]

theorem proj_step (c : Lfs.Cfg) (s s' : Lfs.State) (t : Nat) (L : Lfs.Label)
    (hL : ∃ l0, toL2 t l0 = some L) (h : Lfs.step c s L = some s') :
    ∃ l, toL2 t l = some L ∧ Obs s t l ∧ Guard c s t l ∧ lstep (proj s t) l = some (proj s' t) := by
  obtain ⟨l0, hl0⟩ := hL
  cases l0 <;> simp only [toL2, Option.some.injEq, reduceCtorEq] at hl0 <;> subst hl0 <;>
    simp only [Lfs.step] at h
  case pushBegin n =>
    split at h <;> simp only [Option.some.injEq, reduceCtorEq] at h; subst h
    rename_i hg
    exact ⟨.pushBegin n, rfl, trivial, hg.2, by simp [lstep, proj, hg.1]⟩
  case pushSt =>
    split at h <;> simp only [Option.some.injEq, reduceCtorEq] at h; subst h
    rename_i n hd hpc
    exact ⟨.pushSt n hd, rfl, trivial, trivial, by simp [lstep, proj, hpc]⟩
  case pushCas =>
    split at h <;> try simp only [reduceCtorEq] at h
    rename_i n hd hpc
    split at h <;> try simp only [reduceCtorEq] at h
    rename_i hb
    refine ⟨.pushCas n hd s.head, rfl, rfl, hb, ?_⟩
    split at h <;> simp only [Option.some.injEq] at h <;> subst h <;> simp_all [lstep, proj]
  case popBegin =>
    split at h <;> simp only [Option.some.injEq, reduceCtorEq] at h; subst h
    rename_i hg
    exact ⟨.popBegin, rfl, trivial, hg.2, by simp [lstep, proj, hg.1]⟩
  case popLd =>
    split at h <;> try simp only [reduceCtorEq] at h
    rename_i hpc
    refine ⟨.popLd s.head, rfl, rfl, trivial, ?_⟩
    split at h <;> simp only [Option.some.injEq] at h <;> subst h <;> simp_all [lstep, proj]
  case popLdN =>
    split at h <;> simp only [Option.some.injEq, reduceCtorEq] at h; subst h
    rename_i hd hpc
    exact ⟨.popLdN hd (Lfs.rd s t hd), rfl, rfl, trivial, by simp [lstep, proj, hpc]⟩
  case popCas =>
    split at h <;> try simp only [reduceCtorEq] at h
    rename_i hd nx hpc
    split at h <;> try simp only [reduceCtorEq] at h
    rename_i hb
    refine ⟨.popCas hd nx s.head, rfl, rfl, hb, ?_⟩
    split at h <;> simp only [Option.some.injEq] at h <;> subst h <;> simp_all [lstep, proj]
  case popAll =>
    split at h <;> simp only [Option.some.injEq, reduceCtorEq] at h; subst h
    rename_i hg
    exact ⟨.popAll s.head, rfl, rfl, hg.2, by simp [lstep, proj, hg.1]⟩
  case empty =>
    split at h <;> simp only [Option.some.injEq, reduceCtorEq] at h; subst h
    rename_i hg
    exact ⟨.empty s.head, rfl, rfl, trivial, by simp [lstep, proj, hg]⟩

def tidOf : Lfs.Label → Option Nat
  | .pushBegin t _ | .pushSt t | .pushCas t | .flush t | .lock t | .unlock t | .rlock t | .runlock t | .empty t
  | .popBegin t | .popLd t | .popLdN t | .popCas t | .popAll t | .iterNext t => some t
  | .gpStart | .gpEnd | .reclaim _ => none

theorem frame (c : Lfs.Cfg) (s s' : Lfs.State) (t : Nat) (L : Lfs.Label)
    (ht : tidOf L ≠ some t) (h : Lfs.step c s L = some s') : proj s' t = proj s t := by
  cases L <;> simp only [tidOf, ne_eq, Option.some.injEq, reduceCtorEq, not_false_eq_true] at ht <;>
    simp only [Lfs.step] at h <;> (repeat' split at h) <;>
    simp only [Option.some.injEq, reduceCtorEq] at h <;> subst h <;>
    first | rfl | (have ht' := Ne.symm ht; simp [proj, upd, ht'])

theorem frame_own (c : Lfs.Cfg) (s s' : Lfs.State) (t : Nat) (L : Lfs.Label)
    (hL : L = .flush t ∨ L = .lock t ∨ L = .unlock t ∨ L = .rlock t ∨ L = .runlock t)
    (h : Lfs.step c s L = some s') : proj s' t = proj s t := by
  rcases hL with rfl | rfl | rfl | rfl | rfl <;> simp only [Lfs.step] at h <;> (repeat' split at h) <;>
    simp only [Option.some.injEq, reduceCtorEq] at h <;> subst h <;> rfl

theorem frame_iterNext (c : Lfs.Cfg) (s s' : Lfs.State) (t : Nat)
    (h : Lfs.step c s (.iterNext t) = some s') : (proj s' t).pc = (proj s t).pc := by
  simp only [Lfs.step] at h; (repeat' split at h) <;>
    simp only [Option.some.injEq, reduceCtorEq] at h <;> subst h <;> rfl

/-- L2 step of thread `t` enabled ⟺ some decoration `l` of the label with the values of the global state is enabled
in the local automaton and the global guard holds -/
theorem enabled_iff (c : Lfs.Cfg) (s : Lfs.State) (t : Nat) (L : Lfs.Label) (hL : ∃ l0, toL2 t l0 = some L) :
    (∃ s', Lfs.step c s L = some s') ↔
      ∃ l ls', toL2 t l = some L ∧ Obs s t l ∧ Guard c s t l ∧ lstep (proj s t) l = some ls' := by
  constructor
  · rintro ⟨s', h⟩
    obtain ⟨l, h1, h2, h3, h4⟩ := proj_step c s s' t L hL h
    exact ⟨l, _, h1, h2, h3, h4⟩
  · rintro ⟨l, ls', h1, h2, h3, h4⟩
    obtain ⟨s', h, -⟩ := lift_step c s t l L ls' h1 h2 h3 h4
    exact ⟨s', h⟩

/-- the labels of thread `t` that have a local counterpart -/
def own (t : Nat) : Lfs.Label → Bool
  | .pushBegin t' _ | .pushSt t' | .pushCas t' | .popBegin t' | .popLd t' | .popLdN t' | .popCas t' | .popAll t'
  | .empty t' => t' == t
  | _ => false

theorem own_iff (t : Nat) (L : Lfs.Label) : own t L = true ↔ ∃ l0, toL2 t l0 = some L := by
  constructor
  · intro h
    cases L <;> simp only [own, beq_iff_eq, Bool.false_eq_true] at h <;> subst h
    case pushBegin n => exact ⟨.pushBegin n, rfl⟩
    case pushSt => exact ⟨.pushSt 0 0, rfl⟩
    case pushCas => exact ⟨.pushCas 0 0 0, rfl⟩
    case popBegin => exact ⟨.popBegin, rfl⟩
    case popLd => exact ⟨.popLd 0, rfl⟩
    case popLdN => exact ⟨.popLdN 0 0, rfl⟩
    case popCas => exact ⟨.popCas 0 0 0, rfl⟩
    case popAll => exact ⟨.popAll 0, rfl⟩
    case empty => exact ⟨.empty 0, rfl⟩
  · rintro ⟨l0, h⟩
    cases l0 <;> simp only [toL2, Option.some.injEq, reduceCtorEq] at h <;> subst h <;> simp [own]

/-- a label that is not `own t` belongs to another thread / the environment, or is one of `t`'s own environment
labels, or is `iterNext t` -/
theorem not_own (t : Nat) (L : Lfs.Label) (h : own t L = false) :
    tidOf L ≠ some t ∨ (L = .flush t ∨ L = .lock t ∨ L = .unlock t ∨ L = .rlock t ∨ L = .runlock t) ∨
      L = .iterNext t := by
  cases L with
  | flush t' | lock t' | unlock t' | rlock t' | runlock t' =>
    by_cases e : t' = t
    · subst e; simp
    · exact .inl (by simp [tidOf, e])
  | iterNext t' =>
    by_cases e : t' = t
    · subst e; simp
    · exact .inl (by simp [tidOf, e])
  | gpStart | gpEnd | reclaim _ => exact .inl (by simp [tidOf])
  | _ => exact .inl (by simpa [tidOf, own] using h)

/-- **Every L2 run projects to a run of the local automaton**: the subsequence of `t`'s labels (decorated with the
values the global states determine) is accepted from `proj s t` and ends in `proj s' t` – provided `t` does not
iterate a popped list meanwhile (`iterNext` overwrites `ret t`). -/
theorem proj_run (c : Lfs.Cfg) (t : Nat) : ∀ (Ls : List Lfs.Label) (s s' : Lfs.State),
    Lfs.run c s Ls = some s' → (Lfs.Label.iterNext t ∉ Ls) →
    ∃ ls, ls.filterMap (toL2 t) = Ls.filter (own t) ∧ lrun (proj s t) ls = some (proj s' t) := by
  intro Ls
  induction Ls with
  | nil => intro s s' h _; simp only [Lfs.run, Option.some.injEq] at h; subst h; exact ⟨[], rfl, rfl⟩
  | cons L Ls ih =>
    intro s s' h hno
    simp only [Lfs.run] at h
    cases hs : Lfs.step c s L with
    | none => simp [hs] at h
    | some s1 =>
      simp only [hs] at h
      obtain ⟨ls, hls, hrun⟩ := ih s1 s' h (fun hb => hno (List.mem_cons_of_mem _ hb))
      cases ho : own t L with
      | true =>
        obtain ⟨l, h1, -, -, h4⟩ := proj_step c s s1 t L ((own_iff t L).mp ho) hs
        exact ⟨l :: ls, by simp [h1, hls, ho], by simp [lrun, h4, hrun]⟩
      | false =>
        have hp : proj s1 t = proj s t := by
          rcases not_own t L ho with h1 | h1 | rfl
          · exact frame c s s1 t L h1 hs
          · exact frame_own c s s1 t L h1 hs
          · exact absurd List.mem_cons_self hno
        exact ⟨ls, by simp [ho, hls], by rw [← hp]; exact hrun⟩

end LfsL

end UrcuVerif.Src
