import UrcuVerif.Src.Sync2Bp
/-!
# bp flavor: `smp_mb_master` and the whole `urcu_bp_synchronize_rcu`

`bp_sync_eq : «bp.urcu_bp_synchronize_rcu» = syncBp «bp.smp_mb_master» «bp.wait_for_readers» := rfl`.
`gpBlock master wfr` = the grace period proper (the `else` branch of `if (cds_list_empty(&registry)) goto out;`):
master barrier (`uMbarRet`) → pass 1 → `cmm_smp_mb` → store `urcu_bp_gp.ctr ^ URCU_BP_GP_CTR_PHASE` (`uFlip`) →
`cmm_smp_mb` → pass 2 → `cds_list_splice` (`uP2Done`) → master barrier (`uEnd`).
Around it: `sigfillset`, `pthread_sigmask(SIG_BLOCK)` (silent), `mutex_lock(&rcu_gp_lock)` (silent),
`mutex_lock(&rcu_registry_lock)` (window), `cds_list_empty(&registry)` (`uStartEmpty` / `uStart`), the two unlocks and
`pthread_sigmask(SIG_SETMASK)` (silent).  No wait queue, no assumption.
-/
set_option maxRecDepth 8192
set_option linter.unusedSimpArgs false
set_option linter.unusedVariables false
namespace UrcuVerif.Src.Sync2
open UrcuVerif UrcuVerif.Src UrcuVerif.Gen.Src UrcuVerif.Src.Sync

/-! ## `smp_mb_master` -/

/-- `smp_mb_master()`: one master-barrier event (or a prefix of the call), no change of the environment -/
def MasterSpec (trk : Bool) (master : Stmt) (MPre : (Loc → Option Val) → Prop) : Prop :=
  ∀ fuel env inp ss wins, MPre env.priv →
    Holds trk (exec fuel (.call none [] [] master) env inp) ss wins
      (fun ctl e s w => (ctl = .normal ∧ e = env ∧ w = wins ∧ MasterAfter ss s) ∨ ctl = .blocked ∨ ctl = .fuel)

/-- the precondition of the master barrier does not depend on the word the updater itself stores (`urcu_bp_gp.ctr`) -/
def MStable (MPre : (Loc → Option Val) → Prop) : Prop :=
  ∀ priv v, MPre priv → MPre (fun m => if m = gpCtr then some v else priv m)

/-- bp: the configuration global is set (`urcu_bp_sys_membarrier_init` ran) -/
def BpPre (priv : Loc → Option Val) : Prop :=
  ∃ b : Int, priv (.glob "urcu_bp_has_sys_membarrier") = some (.int b)

theorem BpPre_stable : MStable BpPre := by
  intro priv v ⟨b, h1⟩
  exact ⟨b, by simp [gpCtr, h1]⟩

theorem Ok_master (trk : Bool) (ss : SS) (wins : Wins) (e : Event) (sys : Bool) (R : SS → Wins → Prop)
    (he : absEv trk ss e = masterAct ss sys) (h : ∀ s, MasterAfter ss s → R s wins) : Ok trk ss wins [e] R := by
  rw [Ok_cons, he]
  obtain ⟨⟨upc, gp, reg, inpl, snap, qs⟩, pend⟩ := ss
  cases upc <;> simp [masterAct, lrun, lstep, Ok_nil_iff] <;> apply h <;> simp [MasterAfter]

theorem bp_master_spec (trk : Bool) : MasterSpec trk «bp.smp_mb_master» BpPre := by
  intro fuel env inp ss wins ⟨b, h1⟩ out ho
  by_cases hb : b = 0
  · subst hb
    exec_simp_at ho [«bp.smp_mb_master», h1]; subst ho
    refine Ok_master trk ss wins _ false _ (by simp [absEv]) ?_
    intro s hs; exact Or.inl ⟨rfl, rfl, rfl, hs⟩
  · cases inp with
    | nil => exec_simp_at ho [«bp.smp_mb_master», h1, hb]; subst ho; simp [Ok_nil_iff]
    | cons r rest =>
      by_cases hr : r = .int 0
      · subst hr
        exec_simp_at ho [«bp.smp_mb_master», h1, hb]; subst ho
        refine Ok_master trk ss wins _ true _ (by simp [absEv, absExt]) ?_
        intro s hs; exact Or.inl ⟨rfl, rfl, rfl, hs⟩
      · have hund : ∀ cmd es R, Ok trk ss wins (Event.ext "membarrier" [.int cmd, .int 0] r :: es) R := by
          intro cmd es R; simp [Ok_cons, absEv, absExt, hr]
        cases r with
        | int z =>
          have hz : z ≠ 0 := by intro h; apply hr; rw [h]
          rcases rest with _ | ⟨v, _ | ⟨v2, rest⟩⟩ <;>
            exec_simp_at ho [«bp.smp_mb_master», h1, hb, hz] <;> subst ho <;> exact hund _ _ _
        | ptr l =>
          rcases rest with _ | ⟨v, _ | ⟨v2, rest⟩⟩ <;>
            exec_simp_at ho [«bp.smp_mb_master», h1, hb] <;> subst ho <;> exact hund _ _ _

/-! ## call rules -/

/-- call of a `void` function whose result is not used -/
theorem Holds.callN {trk fuel body env inp ss wins} {params : List String} {args : List Expr} {vs : List Val}
    {Qb Q : Post} (hargs : evalArgs env args = .ok vs) (hlen : params.length = vs.length)
    (hb : Holds trk (exec fuel body { vars := bindParams params vs, priv := env.priv } inp) ss wins Qb)
    (hn : ∀ e s w, Qb .normal e s w → Q .normal { vars := env.vars, priv := e.priv } s w)
    (hr : ∀ e s w, Qb (.ret none) e s w → Q .normal { vars := env.vars, priv := e.priv } s w)
    (hrs : ∀ v e s w, Qb (.ret (some v)) e s w → Q .normal { vars := env.vars, priv := e.priv } s w)
    (hbl : ∀ e s w, Qb .blocked e s w → Q .blocked e s w) (hf : ∀ e s w, Qb .fuel e s w → Q .fuel e s w) :
    Holds trk (exec fuel (.call none params args body) env inp) ss wins Q := by
  intro out ho
  simp only [exec, hargs, bind, Except.bind, hlen, ne_eq, not_true_eq_false, if_false] at ho
  cases h : exec fuel body { vars := bindParams params vs, priv := env.priv } inp with
  | error m => simp [h] at ho
  | ok o =>
    have hB := hb o h
    simp only [h] at ho
    cases hc : o.ctl with
    | normal => simp only [hc, Except.ok.injEq] at ho; subst ho; exact Ok_mono _ _ _ _ _ _ hB (fun s w hq => hn _ _ _ (hc ▸ hq))
    | ret v =>
      cases v with
      | none => simp only [hc, Except.ok.injEq] at ho; subst ho; exact Ok_mono _ _ _ _ _ _ hB (fun s w hq => hr _ _ _ (hc ▸ hq))
      | some v =>
        simp only [hc, Except.ok.injEq, setDst] at ho; subst ho
        exact Ok_mono _ _ _ _ _ _ hB (fun s w hq => hrs v _ _ _ (hc ▸ hq))
    | brk => simp [hc] at ho
    | cont => simp [hc] at ho
    | blocked => simp only [hc, Except.ok.injEq] at ho; subst ho; exact Ok_mono _ _ _ _ _ _ hB (fun s w hq => hbl _ _ _ (hc ▸ hq))
    | fuel => simp only [hc, Except.ok.injEq] at ho; subst ho; exact Ok_mono _ _ _ _ _ _ hB (fun s w hq => hf _ _ _ (hc ▸ hq))

/-- call of a parameterless `void` function -/
theorem Holds.call0 {trk fuel body env inp ss wins} {Qb Q : Post}
    (hb : Holds trk (exec fuel body { vars := bindParams [] [], priv := env.priv } inp) ss wins Qb)
    (hn : ∀ e s w, Qb .normal e s w → Q .normal { vars := env.vars, priv := e.priv } s w)
    (hr : ∀ e s w, Qb (.ret none) e s w → Q .normal { vars := env.vars, priv := e.priv } s w)
    (hrs : ∀ v e s w, Qb (.ret (some v)) e s w → Q .normal { vars := env.vars, priv := e.priv } s w)
    (hbl : ∀ e s w, Qb .blocked e s w → Q .blocked e s w) (hf : ∀ e s w, Qb .fuel e s w → Q .fuel e s w) :
    Holds trk (exec fuel (.call none [] [] body) env inp) ss wins Q := by
  intro out ho
  simp only [exec, evalArgs, bind, Except.bind, List.length_nil, ne_eq, not_true_eq_false, if_false] at ho
  cases h : exec fuel body { vars := bindParams [] [], priv := env.priv } inp with
  | error m => simp [h] at ho
  | ok o =>
    have hB := hb o h
    simp only [h] at ho
    cases hc : o.ctl with
    | normal => simp only [hc, Except.ok.injEq] at ho; subst ho; exact Ok_mono _ _ _ _ _ _ hB (fun s w hq => hn _ _ _ (hc ▸ hq))
    | ret v =>
      cases v with
      | none => simp only [hc, Except.ok.injEq] at ho; subst ho; exact Ok_mono _ _ _ _ _ _ hB (fun s w hq => hr _ _ _ (hc ▸ hq))
      | some v =>
        simp only [hc, Except.ok.injEq, setDst] at ho; subst ho
        exact Ok_mono _ _ _ _ _ _ hB (fun s w hq => hrs v _ _ _ (hc ▸ hq))
    | brk => simp [hc] at ho
    | cont => simp [hc] at ho
    | blocked => simp only [hc, Except.ok.injEq] at ho; subst ho; exact Ok_mono _ _ _ _ _ _ hB (fun s w hq => hbl _ _ _ (hc ▸ hq))
    | fuel => simp only [hc, Except.ok.injEq] at ho; subst ho; exact Ok_mono _ _ _ _ _ _ hB (fun s w hq => hf _ _ _ (hc ▸ hq))

/-! ## the grace period proper -/

/-- state of the updater between the statements of `synchronize_rcu`: pc, phase, no pending move, `rcu_gp.ctr` in the
private view, the master barrier's precondition, and a fact `K` about the lists -/
def GInv (MPre : (Loc → Option Val) → Prop) (upc : Gp.UPc) (g : Bool) (K : LState → Prop) (vars : String → Option Val) :
    Env → SS → Prop := fun env ss =>
  env.vars = vars ∧ ss.ls.upc = upc ∧ ss.ls.gp = g ∧ ss.pend = none ∧ env.priv gpCtr = some (.int (encGp g)) ∧
  MPre env.priv ∧ K ss.ls

def GPost (MPre : (Loc → Option Val) → Prop) (upc : Gp.UPc) (g : Bool) (K : LState → Prop)
    (vars : String → Option Val) : Post := fun ctl env ss _ =>
  match ctl with
  | .normal => GInv MPre upc g K vars env ss
  | .blocked | .fuel => True
  | _ => False

/-- the flip: `uatomic_store(&urcu_bp_gp.ctr, urcu_bp_gp.ctr ^ URCU_BP_GP_CTR_PHASE)` -/
def stFlip : Stmt :=
  .prim none .ustore [.fieldAddr (.addrGlob "urcu_bp_gp") "ctr",
    .bin .bxor (.pload (.fieldAddr (.addrGlob "urcu_bp_gp") "ctr")) (.cst "URCU_BP_GP_CTR_PHASE" (4294967296)), .cst "CMM_RELAXED" (0)]

def gpBlock (master wfr : Stmt) : Stmt :=
  block [(.call none [] [] master), callP1 wfr, (.prim none .mb []), stFlip, (.prim none .mb []), callP2 wfr, stSplice,
    (.call none [] [] master)]

/-- what the pass needs of `wait_for_readers` (instance: `bp_wfr_holds`) -/
def WfrSpec (trk : Bool) (wfr : Stmt) (MPre : (Loc → Option Val) → Prop) : Prop :=
  ∀ fuel hd csv gv g upc env inp ss wins,
    WfrPre { hd := hd, csv := csv, gv := gv, g := g, upc := upc, MPre := MPre } env ss →
    Holds trk (exec fuel wfr env inp) ss wins (WfrPost { hd := hd, csv := csv, gv := gv, g := g, upc := upc, MPre := MPre })

theorem decW_encGp (g : Bool) : (decW (encGp g)).2 = g := by simp [decW, encGp_bit]

theorem fence_holds (trk fuel) (p : Prim) (hp : p = .barrier ∨ p = .mb) (MPre upc g K vars env inp ss wins)
    (hu : upc = .p1 ∨ upc = .p2) (hI : GInv MPre upc g K vars env ss) :
    Holds trk (exec fuel (.prim none p []) env inp) ss wins (GPost MPre upc g K vars) := by
  intro out ho
  obtain ⟨⟨u, gp, reg, inpl, snap, qs⟩, pend⟩ := ss
  obtain ⟨h1, h2, h3, h4, h5, h6, h7⟩ := hI
  simp only at h2; subst h2
  rcases hp with rfl | rfl <;> exec_simp_at ho [] <;> subst ho <;> rcases hu with rfl | rfl <;>
    abs_simp2 [GPost] <;> exact ⟨h1, rfl, h3, h4, h5, h6, h7⟩

theorem pass_holds (trk fuel wfr MPre) (hW : WfrSpec trk wfr MPre) (g : Bool) (vars) (env inp ss wins)
    (args : List Expr) (hd : Loc) (csv : Val) (upc : Gp.UPc)
    (hargs : evalArgs env args = .ok [.ptr hd, csv, .ptr qsr, .ptr (.glob "&acquire_group")])
    (hpass : Pass upc hd csv) (hI : GInv MPre upc g (fun _ => True) vars env ss) :
    Holds trk (exec fuel (.call none wfrParams args wfr) env inp) ss wins
      (GPost MPre upc g (fun ls => inputOf ls = []) vars) := by
  obtain ⟨h1, h2, h3, h4, h5, h6, _⟩ := hI
  refine Holds.callN hargs rfl (hW fuel hd csv (.ptr (.glob "&acquire_group")) g upc _ inp ss wins
    ⟨rfl, rfl, rfl, rfl, h5, h6, hpass, h2, h3, h4⟩) ?_ ?_ ?_ ?_ ?_
  · intro e s w h
    obtain ⟨⟨_, _, _, _, _, a6, a7, _, a9, a10, a11⟩, hnil⟩ := h
    exact ⟨h1, a9, a10, a11, a6, a7, hnil⟩
  · intro e s w h; exact h.elim
  · intro v e s w h; exact h.elim
  · intro e s w h; trivial
  · intro e s w h; trivial

theorem flip_holds (trk fuel MPre) (hS : MStable MPre) (g : Bool) (vars env inp ss wins)
    (hI : GInv MPre .p1 g (fun ls => inputOf ls = []) vars env ss) :
    Holds trk (exec fuel stFlip env inp) ss wins (GPost MPre .p2 (!g) (fun _ => True) vars) := by
  intro out ho
  obtain ⟨⟨u, gp, reg, inpl, snap, qs⟩, pend⟩ := ss
  obtain ⟨h1, h2, h3, h4, h5, h6, h7⟩ := hI
  simp only at h2 h3 h4; subst h2; subst h3; subst h4
  have hnil : inpl = [] := by simpa [inputOf] using h7
  subst hnil
  simp only [gpCtr] at h5
  have hS' := hS _ (.int (encGp (!gp))) h6
  simp only [gpCtr] at hS'
  cases gp <;> simp only [encGp] at h5 hS' <;> simp at h5 hS' <;>
    exec_simp_at ho [stFlip, h5] <;> subst ho <;>
    abs_simp2 [GPost, GInv, h1, decW, encGp, show Nat.testBit 4294967297 32 = true from by decide,
      show Nat.testBit 1 32 = false from by decide] <;> exact hS'


theorem splice_holds (trk fuel MPre) (g : Bool) (vars env inp ss wins)
    (hI : GInv MPre .p2 g (fun ls => inputOf ls = []) vars env ss) :
    Holds trk (exec fuel stSplice env inp) ss wins (GPost MPre .mbar2 g (fun _ => True) vars) := by
  intro out ho
  obtain ⟨⟨u, gp, reg, inpl, snap, qs⟩, pend⟩ := ss
  obtain ⟨h1, h2, h3, h4, h5, h6, h7⟩ := hI
  simp only at h2 h3 h4; subst h2; subst h3; subst h4
  have hnil : snap = [] := by simpa [inputOf] using h7
  subst hnil
  cases inp <;> exec_simp_at ho [stSplice] <;> subst ho <;> abs_simp2 [GPost, GInv, h1]
  exact ⟨h5, h6⟩

theorem masterG_holds (trk fuel master MPre) (hM : MasterSpec trk master MPre) (g : Bool) (vars env inp ss wins)
    (upc upc' : Gp.UPc) (hu : (upc = .mbar1 ∧ upc' = .p1) ∨ (upc = .mbar2 ∧ upc' = .idle))
    (hI : GInv MPre upc g (fun _ => True) vars env ss) :
    Holds trk (exec fuel (.call none [] [] master) env inp) ss wins (GPost MPre upc' g (fun _ => True) vars) := by
  obtain ⟨h1, h2, h3, h4, h5, h6, _⟩ := hI
  refine (hM fuel env inp ss wins h6).mono ?_
  intro ctl e s w h
  rcases h with ⟨rfl, rfl, rfl, hm1, hm2⟩ | rfl | rfl
  · rcases hu with ⟨rfl, rfl⟩ | ⟨rfl, rfl⟩ <;> simp only [h2] at hm2 <;>
      exact ⟨h1, by rw [hm2], by rw [hm2]; exact h3, by rw [hm1]; exact h4, h5, h6, trivial⟩
  · trivial
  · trivial

theorem GPost_nn {MPre upc g K vars} {MPre' upc' g' K' vars'} (ctl e s w) (hn : ctl ≠ .normal)
    (h : GPost MPre upc g K vars ctl e s w) : GPost MPre' upc' g' K' vars' ctl e s w := by
  cases ctl <;> simp_all [GPost]

theorem GInv_weaken {MPre upc g K vars env ss} (h : GInv MPre upc g K vars env ss) :
    GInv MPre upc g (fun _ => True) vars env ss := by
  obtain ⟨h1, h2, h3, h4, h5, h6, _⟩ := h; exact ⟨h1, h2, h3, h4, h5, h6, trivial⟩

/-- the grace period proper: from pc `mbar1` (after `uStart`) back to pc `idle`, phase flipped -/
theorem gpBlock_holds (trk fuel master wfr MPre) (hM : MasterSpec trk master MPre) (hW : WfrSpec trk wfr MPre)
    (hS : MStable MPre) (g : Bool) (vars env inp ss wins) (hI : GInv MPre .mbar1 g (fun _ => True) vars env ss) :
    Holds trk (exec fuel (gpBlock master wfr) env inp) ss wins (GPost MPre .idle (!g) (fun _ => True) vars) := by
  refine Holds.seq (masterG_holds trk fuel master MPre hM g vars env inp ss wins _ _ (Or.inl ⟨rfl, rfl⟩) hI) ?_
    (fun ctl e s w hn h => GPost_nn ctl e s w hn h)
  intro e i s w hq
  refine Holds.seq (pass_holds trk fuel wfr MPre hW g vars e i s w _ registry (.ptr curSnap) .p1
    (by simp [evalArgs, eval, bind, Except.bind, registry, curSnap, qsr]) (Or.inl ⟨rfl, rfl, rfl⟩) hq) ?_
    (fun ctl e s w hn h => GPost_nn ctl e s w hn h)
  intro e i s w hq
  refine Holds.seq (fence_holds trk fuel .mb (Or.inr rfl) MPre .p1 g (fun ls => inputOf ls = []) vars e i s w (Or.inl rfl) hq) ?_
    (fun ctl e s w hn h => GPost_nn ctl e s w hn h)
  intro e i s w hq
  refine Holds.seq (flip_holds trk fuel MPre hS g vars e i s w hq) ?_
    (fun ctl e s w hn h => GPost_nn ctl e s w hn h)
  intro e i s w hq
  refine Holds.seq (fence_holds trk fuel .mb (Or.inr rfl) MPre .p2 (!g) (fun _ => True) vars e i s w (Or.inr rfl) hq) ?_
    (fun ctl e s w hn h => GPost_nn ctl e s w hn h)
  intro e i s w hq
  refine Holds.seq (pass_holds trk fuel wfr MPre hW (!g) vars e i s w _ curSnap (.int 0) .p2
    (by simp [evalArgs, eval, bind, Except.bind, registry, curSnap, qsr]) (Or.inr ⟨rfl, rfl, rfl⟩) hq) ?_
    (fun ctl e s w hn h => GPost_nn ctl e s w hn h)
  intro e i s w hq
  refine Holds.seq (splice_holds trk fuel MPre (!g) vars e i s w hq) ?_
    (fun ctl e s w hn h => GPost_nn ctl e s w hn h)
  intro e i s w hq
  exact masterG_holds trk fuel master MPre hM (!g) vars e i s w _ _ (Or.inr ⟨rfl, rfl⟩) hq

/-! ## the whole function -/

/-- before the grace period: pc `idle`, phase `g`, `V` = what is known about the locals -/
def PI (MPre : (Loc → Option Val) → Prop) (g : Bool) (V : (String → Option Val) → Prop) (env : Env) (ss : SS) : Prop :=
  ss.ls.upc = .idle ∧ ss.pend = none ∧ ss.ls.gp = g ∧ env.priv gpCtr = some (.int (encGp g)) ∧ MPre env.priv ∧ V env.vars

def SP (MPre : (Loc → Option Val) → Prop) (g : Bool) (V : (String → Option Val) → Prop) : Post := fun ctl env ss _ =>
  match ctl with
  | .normal => PI MPre g V env ss
  | .blocked | .fuel => True
  | _ => False

/-- a completed `urcu_bp_synchronize_rcu` leaves the updater automaton at pc `idle` -/
def SyncPost : Post := fun ctl _ ss _ =>
  match ctl with
  | .normal => ss.ls.upc = .idle ∧ ss.pend = none
  | .blocked | .fuel => True
  | _ => False

theorem SP_nn {MPre g V g' V'} (ctl e s w) (hn : ctl ≠ .normal) (h : SP MPre g V ctl e s w) : SP MPre g' V' ctl e s w := by
  cases ctl <;> simp_all [SP]

theorem SP_sync {MPre g V} (ctl e s w) (hn : ctl ≠ .normal) (h : SP MPre g V ctl e s w) : SyncPost ctl e s w := by
  cases ctl <;> simp_all [SP, SyncPost]

def stRegEmpty : Stmt := .prim (some "_t3") (.ext "cds_list_empty") [.addrGlob "registry"]
def stSigFill : Stmt := .prim (some "_t1") (.ext "sigfillset") [.addrGlob "&newmask"]
def stSigBlock : Stmt :=
  .prim (some "_t2") (.ext "pthread_sigmask") [.cst "SIG_BLOCK" (0), .addrGlob "&newmask", .addrGlob "&oldmask"]
def stSigRestore : Stmt := .prim (some "_t4") (.ext "pthread_sigmask") [.cst "SIG_SETMASK" (2), .addrGlob "&oldmask", .null]

def syncBp (master wfr : Stmt) : Stmt :=
  block [(.assign "_goto_out" (.lit 0)), stSigFill, (.assign "ret" (.var "_t1")), stSigBlock, (.assign "ret" (.var "_t2")),
    stLockGp, stLockReg, stRegEmpty,
    (.ifte (.var "_t3") (.assign "_goto_out" (.lit 1)) (.skip)),
    (.ifte (.var "_goto_out") (.skip) (gpBlock master wfr)),
    (.assign "_goto_out" (.lit 0)), stUnlockReg, stUnlockGp, stSigRestore, (.assign "ret" (.var "_t4"))]

theorem bp_sync_eq : «bp.urcu_bp_synchronize_rcu» = syncBp «bp.smp_mb_master» «bp.wait_for_readers» := rfl

/-- `cds_list_empty(&registry)` under both locks: `uStartEmpty` (stay at `idle`) or `uStart` (to `mbar1`) -/
def A9 (MPre : (Loc → Option Val) → Prop) (g : Bool) : Post := fun ctl env ss _ =>
  match ctl with
  | .normal => ∃ r, env.vars "_t3" = some r ∧ env.vars "_goto_out" = some (.int 0) ∧
      (if r.truthy then PI MPre g (fun _ => True) env ss else GInv MPre .mbar1 g (fun _ => True) env.vars env ss)
  | .blocked | .fuel => True
  | _ => False

theorem regEmpty_holds (trk fuel MPre g env inp ss wins)
    (hI : PI MPre g (fun vars => vars "_goto_out" = some (.int 0)) env ss) :
    Holds trk (exec fuel stRegEmpty env inp) ss wins (A9 MPre g) := by
  intro out ho
  obtain ⟨⟨u, gp, reg, inpl, snap, qs⟩, pend⟩ := ss
  obtain ⟨h1, h2, h3, h4, h5, h6⟩ := hI
  simp only at h1 h2 h3; subst h1; subst h2; subst h3
  cases inp with
  | nil => exec_simp_at ho [stRegEmpty]; subst ho; simp [Ok_nil_iff, A9]
  | cons r rest =>
    simp [stRegEmpty, exec, evalArgs, eval, execPrim, bind, Except.bind, setDst, Env.setVar] at ho; subst ho
    by_cases hr : r.truthy = true
    · by_cases hreg : reg = []
      · subst hreg
        simp [Ok_cons, absEv, absExt, registry, hr, lrun, lstep, Ok_nil_iff, A9, h6]
        exact ⟨rfl, rfl, rfl, h4, h5, trivial⟩
      · simp [Ok_cons, absEv, absExt, registry, hr, hreg]
    · by_cases hreg : reg = []
      · simp [Ok_cons, absEv, absExt, registry, hr, hreg]
      · simp [Ok_cons, absEv, absExt, registry, hr, lrun, lstep, Ok_nil_iff, A9, h6, hreg]
        exact ⟨rfl, rfl, rfl, rfl, h4, h5, trivial⟩

theorem lockReg_holds (trk fuel MPre g V env inp ss wins) (hI : PI MPre g V env ss) :
    Holds trk (exec fuel stLockReg env inp) ss wins (SP MPre g V) := by
  intro out ho
  obtain ⟨ls, pend⟩ := ss
  obtain ⟨ls', hl1, hl2, hl3⟩ := lrun_env (wins.head?.getD []) ls
  obtain ⟨h1, h2, h3, h4, h5, h6⟩ := hI
  cases inp <;> exec_simp_at ho [stLockReg] <;> subst ho <;> abs_simp2 [SP, hl1, PI]
  exact ⟨by rw [hl2]; exact h1, h2, by rw [hl3]; exact h3, h4, h5, h6⟩

theorem eval_ne0 (env : Env) (v : Val) (h : env.vars "_t1" = some v) :
    eval env (.bin .ne (.var "_t1") (.lit 0)) = .ok (boolV (v ≠ .int 0)) := by
  cases v <;> simp [eval, h, bind, Except.bind, evalBin]

theorem A9_sync {MPre g} (ctl e s w) (hn : ctl ≠ .normal) (h : A9 MPre g ctl e s w) : SyncPost ctl e s w := by
  cases ctl <;> simp_all [A9, SyncPost]

/-- after `if (cds_list_empty(&registry)) goto out;` … `out:` -/
def A11 (MPre : (Loc → Option Val) → Prop) : Post := fun ctl env ss _ =>
  match ctl with
  | .normal => ∃ g', PI MPre g' (fun _ => True) env ss
  | .blocked | .fuel => True
  | _ => False

theorem GInv_PI {MPre g vars env ss} (h : GInv MPre .idle g (fun _ => True) vars env ss) : PI MPre g (fun _ => True) env ss := by
  obtain ⟨h1, h2, h3, h4, h5, h6, _⟩ := h; exact ⟨h2, h4, h3, h5, h6, trivial⟩


/-- `sigfillset` / `pthread_sigmask`: silent external calls whose result is stored in a temporary -/
theorem sigext_holds (trk fuel MPre g) (V V' : (String → Option Val) → Prop) (env inp ss wins) (st : Stmt) (x : String)
    (hst : (st = stSigFill ∧ x = "_t1") ∨ (st = stSigBlock ∧ x = "_t2") ∨ (st = stSigRestore ∧ x = "_t4"))
    (hV : ∀ r, V env.vars → V' (fun z => if z = x then some r else env.vars z)) (hI : PI MPre g V env ss) :
    Holds trk (exec fuel st env inp) ss wins (SP MPre g V') := by
  intro out ho
  obtain ⟨ls, pend⟩ := ss
  obtain ⟨h1, h2, h3, h4, h5, h6⟩ := hI
  rcases hst with ⟨rfl, rfl⟩ | ⟨rfl, rfl⟩ | ⟨rfl, rfl⟩ <;> cases inp <;>
    exec_simp_at ho [stSigFill, stSigBlock, stSigRestore] <;> subst ho <;> abs_simp2 [SP, PI] <;>
    exact ⟨h1, h2, h3, h4, h5, hV _ h6⟩

theorem assignVar_holds (trk fuel MPre g) (V V' : (String → Option Val) → Prop) (env inp ss wins) (y x : String)
    (hx : V env.vars → ∃ v, env.vars x = some v)
    (hV : ∀ v, V env.vars → V' (fun z => if z = y then some v else env.vars z)) (hI : PI MPre g V env ss) :
    Holds trk (exec fuel (.assign y (.var x)) env inp) ss wins (SP MPre g V') := by
  intro out ho
  obtain ⟨h1, h2, h3, h4, h5, h6⟩ := hI
  obtain ⟨v, hv⟩ := hx h6
  exec_simp_at ho [hv]; subst ho
  simp only [Ok_nil_iff, SP]
  exact ⟨h1, h2, h3, h4, h5, hV _ h6⟩

theorem ext_silent (trk fuel MPre g V env inp ss wins) (name x : String)
    (hs : ∀ ss r, absExt trk ss name [.ptr (.glob x)] r = .step [] ss.pend) (hI : PI MPre g V env ss) :
    Holds trk (exec fuel (.prim none (.ext name) [.addrGlob x]) env inp) ss wins (SP MPre g V) := by
  intro out ho
  obtain ⟨ls, pend⟩ := ss
  cases inp <;> simp [exec, evalArgs, eval, execPrim, bind, Except.bind, setDst] at ho <;> subst ho
  · simp [Ok_nil_iff, SP]
  · simp only [Ok_cons, absEv, hs, lrun, Ok_nil_iff, SP]; exact hI

theorem lockGp_holds (trk fuel MPre g V env inp ss wins) (hI : PI MPre g V env ss) :
    Holds trk (exec fuel stLockGp env inp) ss wins (SP MPre g V) :=
  ext_silent trk fuel MPre g V env inp ss wins _ _ (by intro ss r; simp [absExt, regLock]) hI
theorem unlockReg_holds (trk fuel MPre g V env inp ss wins) (hI : PI MPre g V env ss) :
    Holds trk (exec fuel stUnlockReg env inp) ss wins (SP MPre g V) :=
  ext_silent trk fuel MPre g V env inp ss wins _ _ (by intro ss r; simp [absExt, regLock]) hI
theorem unlockGp_holds (trk fuel MPre g V env inp ss wins) (hI : PI MPre g V env ss) :
    Holds trk (exec fuel stUnlockGp env inp) ss wins (SP MPre g V) :=
  ext_silent trk fuel MPre g V env inp ss wins _ _ (by intro ss r; simp [absExt, regLock]) hI

theorem tail_holds (trk fuel MPre) (g env inp ss wins) (hI : PI MPre g (fun _ => True) env ss) :
    Holds trk (exec fuel (block [(.assign "_goto_out" (.lit 0)), stUnlockReg, stUnlockGp, stSigRestore,
      (.assign "ret" (.var "_t4"))]) env inp) ss wins SyncPost := by
  have hnn : ∀ {V} ctl e s w, ctl ≠ .normal → SP MPre g V ctl e s w → SyncPost ctl e s w :=
    fun ctl e s w hn h => SP_sync ctl e s w hn h
  refine Holds.seq (Qa := SP MPre g (fun _ => True)) ?_ ?_ hnn
  · intro out ho; exec_simp_at ho []; subst ho
    simp only [Ok_nil_iff, SP]; exact hI
  intro e i s w hq
  refine Holds.seq (unlockReg_holds trk fuel MPre g (fun _ => True) e i s w hq) ?_ hnn
  intro e i s w hq
  refine Holds.seq (unlockGp_holds trk fuel MPre g (fun _ => True) e i s w hq) ?_ hnn
  intro e i s w hq
  refine Holds.seq (sigext_holds trk fuel MPre g (fun _ => True) (fun vars => ∃ v, vars "_t4" = some v) e i s w stSigRestore "_t4"
    (Or.inr (Or.inr ⟨rfl, rfl⟩)) (fun r _ => ⟨r, by simp⟩) hq) ?_ hnn
  intro e i s w hq
  refine (assignVar_holds trk fuel MPre g (fun vars => ∃ v, vars "_t4" = some v) (fun _ => True) e i s w "ret" "_t4"
    (fun h => h) (fun _ _ => trivial) hq).mono ?_
  intro ctl e s w h
  cases ctl <;> simp_all [SP, SyncPost]
  exact ⟨h.1, h.2.1⟩

set_option maxHeartbeats 800000 in
theorem syncBp_holds (trk fuel master wfr MPre) (hM : MasterSpec trk master MPre)
    (hW : WfrSpec trk wfr MPre) (hS : MStable MPre) (g : Bool) (env inp ss wins) (hI : PI MPre g (fun _ => True) env ss) :
    Holds trk (exec fuel (syncBp master wfr) env inp) ss wins SyncPost := by
  let V1 : (String → Option Val) → Prop := fun vars => vars "_goto_out" = some (.int 0)
  let V2 (x : String) : (String → Option Val) → Prop := fun vars => vars "_goto_out" = some (.int 0) ∧ ∃ v, vars x = some v
  have hnn : ∀ {g V} ctl e s w, ctl ≠ .normal → SP MPre g V ctl e s w → SyncPost ctl e s w :=
    fun ctl e s w hn h => SP_sync ctl e s w hn h
  -- _goto_out = 0
  refine Holds.seq (Qa := SP MPre g V1) ?_ ?_ hnn
  · intro out ho; exec_simp_at ho []; subst ho
    obtain ⟨h1, h2, h3, h4, h5, _⟩ := hI
    simp only [Ok_nil_iff, SP]; exact ⟨h1, h2, h3, h4, h5, by simp [V1]⟩
  intro e i s w hq
  -- ret = sigfillset(&newmask)
  refine Holds.seq (sigext_holds trk fuel MPre g V1 (V2 "_t1") e i s w stSigFill "_t1" (Or.inl ⟨rfl, rfl⟩)
    (fun r h => ⟨by simpa [V1] using h, r, by simp⟩) hq) ?_ hnn
  intro e i s w hq
  refine Holds.seq (assignVar_holds trk fuel MPre g (V2 "_t1") V1 e i s w "ret" "_t1" (fun h => h.2)
    (fun v h => by simpa [V1] using h.1) hq) ?_ hnn
  intro e i s w hq
  -- ret = pthread_sigmask(SIG_BLOCK, &newmask, &oldmask)
  refine Holds.seq (sigext_holds trk fuel MPre g V1 (V2 "_t2") e i s w stSigBlock "_t2" (Or.inr (Or.inl ⟨rfl, rfl⟩))
    (fun r h => ⟨by simpa [V1] using h, r, by simp⟩) hq) ?_ hnn
  intro e i s w hq
  refine Holds.seq (assignVar_holds trk fuel MPre g (V2 "_t2") V1 e i s w "ret" "_t2" (fun h => h.2)
    (fun v h => by simpa [V1] using h.1) hq) ?_ hnn
  intro e i s w hq
  refine Holds.seq (lockGp_holds trk fuel MPre g V1 e i s w hq) ?_ hnn
  intro e i s w hq
  refine Holds.seq (lockReg_holds trk fuel MPre g V1 e i s w hq) ?_ hnn
  intro e i s w hq
  refine Holds.seq (regEmpty_holds trk fuel MPre g e i s w hq) ?_ (fun ctl e s w hn h => A9_sync ctl e s w hn h)
  intro e i s w hq
  obtain ⟨r, hr2, hgo, hcase⟩ := hq
  -- if (…) goto out
  refine Holds.seq (Qa := fun ctl e' s' w' => ctl = .normal ∧ s' = s ∧ e'.priv = e.priv ∧
      e'.vars "_goto_out" = some (.int (if r.truthy then 1 else 0)) ∧ (r.truthy = false → e' = e)) ?_ ?_
      (fun ctl e s w hn h => absurd h.1 hn)
  · rw [exec_ifte _ _ _ _ _ _ _ (eval_var e "_t3" r hr2)]
    by_cases ht : r.truthy = true
    · simp only [ht, if_true]
      intro out ho; exec_simp_at ho []; subst ho
      simp [Ok_nil_iff]
    · simp only [ht, if_false]
      intro out ho; simp [exec] at ho; subst ho
      simp [Ok_nil_iff, ht, hgo]
  intro e' i s' w' hq
  obtain ⟨_, rfl, hpriv, hgo', hsame⟩ := hq
  refine Holds.seq (Qa := A11 MPre) ?_ ?_ ?_
  · rw [exec_ifte _ _ _ _ _ _ _ (eval_var e' "_goto_out" _ hgo')]
    by_cases ht : r.truthy = true
    · simp only [ht, if_true] at hcase ⊢
      simp [Val.truthy]
      intro out ho; simp only [exec, Except.ok.injEq] at ho; subst ho
      obtain ⟨h1, h2, h3, h4, h5, _⟩ := hcase
      simp only [Ok_nil_iff, A11]
      exact ⟨g, h1, h2, h3, by rw [hpriv]; exact h4, by rw [hpriv]; exact h5, trivial⟩
    · simp only [ht, if_false] at hcase ⊢
      simp [Val.truthy]
      have he : e' = e := hsame (by simpa using ht)
      subst he
      refine (gpBlock_holds trk fuel master wfr MPre hM hW hS g _ e' i s' w' hcase).mono ?_
      intro ctl e2 s2 w2 h
      cases ctl with
      | normal => exact ⟨!g, GInv_PI h⟩
      | blocked => trivial
      | fuel => trivial
      | _ => exact h.elim
  · intro e2 i2 s2 w2 hq
    obtain ⟨g', hq⟩ := hq
    exact tail_holds trk fuel MPre g' e2 i2 s2 w2 hq
  · intro ctl e2 s2 w2 hn h
    cases ctl <;> simp_all [A11, SyncPost]

/-! ## the generated values -/

theorem bp_wfr_spec (trk : Bool) : WfrSpec trk «bp.wait_for_readers» BpPre :=
  fun fuel hd csv gv g upc env inp ss wins h => bp_wfr_holds trk fuel _ env inp ss wins h

theorem bp_gp_holds (trk fuel) (g : Bool) (vars env inp ss wins) (hI : GInv BpPre .mbar1 g (fun _ => True) vars env ss) :
    Holds trk (exec fuel (gpBlock «bp.smp_mb_master» «bp.wait_for_readers») env inp) ss wins
      (GPost BpPre .idle (!g) (fun _ => True) vars) :=
  gpBlock_holds trk fuel _ _ BpPre (bp_master_spec trk) (bp_wfr_spec trk) BpPre_stable g vars env inp ss wins hI

theorem bp_sync_holds (trk fuel) (g : Bool) (env inp ss wins) (hI : PI BpPre g (fun _ => True) env ss) :
    Holds trk (exec fuel «bp.urcu_bp_synchronize_rcu» env inp) ss wins SyncPost := by
  rw [bp_sync_eq]
  exact syncBp_holds trk fuel _ _ BpPre (bp_master_spec trk) (bp_wfr_spec trk) BpPre_stable g env inp ss wins hI

end UrcuVerif.Src.Sync2
