import UrcuVerif.Src.IR
/-!
# Symbolic execution of `Src.exec` (lemmas shared by `StackRefine.lean`)

* `exec_*`: one rewriting lemma per `Stmt` constructor (`exec_loop` is eta-reduced, so that `simp` does not descend
  into a loop body: loops are handled by `iterate_inv`);
* `iterate_inv`: the invariant rule for `for (;;) body` – induction on the budget.
-/
namespace UrcuVerif.Src

theorem exec_skip (fuel env inp) :
    exec fuel .skip env inp = .ok { events := [], env := env, inp := inp, ctl := .normal } := by rw [exec]
/-- continuation of `a; b` after `a` -/
def seqPost (fuel : Nat) (b : Stmt) (o : Out) : Except String Out :=
  match o.ctl with
  | .normal => match exec fuel b o.env o.inp with
    | .ok o2 => .ok { o2 with events := o.events ++ o2.events }
    | .error e => .error e
  | _ => .ok o
theorem exec_seq (fuel a b env inp) :
    exec fuel (.seq a b) env inp = (match exec fuel a env inp with
      | .ok o => seqPost fuel b o
      | .error e => .error e) := by
  rw [exec]
  cases exec fuel a env inp with
  | error e => rfl
  | ok o =>
    rcases o with ⟨ev, en, ip, ctl⟩
    cases ctl <;> simp only [bind, Except.bind, seqPost]
    cases exec fuel b en ip <;> rfl
theorem exec_assign (fuel x e env inp) :
    exec fuel (.assign x e) env inp = (do
      let v ← eval env e
      .ok { events := [], env := env.setVar x v, inp := inp, ctl := .normal }) := by rw [exec]
theorem exec_pstore (fuel l e env inp) :
    exec fuel (.pstore l e) env inp = (do
      let a ← asLoc (← eval env l)
      let v ← eval env e
      .ok { events := [], env := env.setPriv a v, inp := inp, ctl := .normal }) := by rw [exec]
theorem exec_ifte (fuel c a b env inp) :
    exec fuel (.ifte c a b) env inp = (do
      let v ← eval env c
      if v.truthy then exec fuel a env inp else exec fuel b env inp) := by rw [exec]
theorem exec_loop (fuel body env inp) :
    exec fuel (.loop body) env inp = iterate (exec fuel body) fuel env inp [] := by rw [exec]
theorem exec_brk (fuel env inp) :
    exec fuel .brk env inp = .ok { events := [], env := env, inp := inp, ctl := .brk } := by rw [exec]
theorem exec_cont (fuel env inp) :
    exec fuel .cont env inp = .ok { events := [], env := env, inp := inp, ctl := .cont } := by rw [exec]
theorem exec_prim (fuel dst p args env inp) :
    exec fuel (.prim dst p args) env inp = (do
      let vs ← evalArgs env args
      execPrim env inp dst p vs) := by rw [exec]
theorem exec_assertDbg (fuel e env inp) :
    exec fuel (.assertDbg e) env inp = .ok { events := [], env := env, inp := inp, ctl := .normal } := by rw [exec]
theorem exec_ret_none (fuel env inp) :
    exec fuel (.ret none) env inp = .ok { events := [], env := env, inp := inp, ctl := .ret none } := by rw [exec]
theorem exec_ret_some (fuel e env inp) :
    exec fuel (.ret (some e)) env inp = (do
      let v ← eval env e
      .ok { events := [], env := env, inp := inp, ctl := .ret (some v) }) := by rw [exec]
/-- return from a callee: the caller's locals are restored, the private view is kept, `dst` gets the value -/
def callPost (env : Env) (dst : Option String) (o : Out) : Except String Out :=
  match o.ctl with
  | .normal | .ret none => .ok { o with env := { vars := env.vars, priv := o.env.priv }, ctl := .normal }
  | .ret (some v) => .ok { o with env := setDst { vars := env.vars, priv := o.env.priv } dst v, ctl := .normal }
  | .brk | .cont => .error "break/continue escapes a function body"
  | c => .ok { o with ctl := c }
theorem exec_call (fuel dst params args body env inp) :
    exec fuel (.call dst params args body) env inp = (match evalArgs env args with
      | .error e => .error e
      | .ok vs =>
        if params.length ≠ vs.length then .error "call: arity" else
        match exec fuel body { vars := bindParams params vs, priv := env.priv } inp with
        | .error e => .error e
        | .ok o => callPost env dst o) := by
  rw [exec]
  cases evalArgs env args with
  | error e => rfl
  | ok vs =>
    simp only [bind, Except.bind]
    split
    · rfl
    · cases exec fuel body { vars := bindParams params vs, priv := env.priv } inp with
      | error e => rfl
      | ok o =>
        rcases o with ⟨ev, en, ip, ctl⟩
        cases ctl with
        | ret v => cases v <;> rfl
        | _ => rfl

/-- symbolic execution of the generated terms: `sexec [defs of the functions to unfold, facts]` -/
syntax "sexec" (" [" Lean.Parser.Tactic.simpLemma,* "]")? : tactic
macro_rules
  | `(tactic| sexec) =>
    `(tactic| simp [block, exec_skip, exec_seq, exec_assign, exec_pstore, exec_ifte, exec_loop, exec_brk, exec_cont,
        exec_prim, exec_assertDbg, exec_ret_none, exec_ret_some, exec_call, seqPost, callPost,
        eval, evalArgs, execPrim, asLoc, Env.setVar, Env.setPriv, setDst, bind, Except.bind,
        Val.truthy, bindParams, evalBin, evalUn, boolV, *])
  | `(tactic| sexec [$ls,*]) =>
    `(tactic| simp [block, exec_skip, exec_seq, exec_assign, exec_pstore, exec_ifte, exec_loop, exec_brk, exec_cont,
        exec_prim, exec_assertDbg, exec_ret_none, exec_ret_some, exec_call, seqPost, callPost,
        eval, evalArgs, execPrim, asLoc, Env.setVar, Env.setPriv, setDst, bind, Except.bind,
        Val.truthy, bindParams, evalBin, evalUn, boolV, *, $ls,*])

/-- the body of the first `for (;;)` of a statement (to state a lemma about "the loop body of the generated function"
without copying its text) -/
def firstLoop : Stmt → Option Stmt
  | .loop b => some b
  | .seq a b => match firstLoop a with
    | some x => some x
    | none => firstLoop b
  | _ => none

/-- the body outcomes after which `for (;;)` goes round again -/
def Ctl.goesOn : Ctl → Bool
  | .normal | .cont => true
  | _ => false

/-- what `for (;;)` turns a terminal body outcome into -/
def Ctl.afterLoop : Ctl → Ctl
  | .brk => .normal
  | c => c

/-- Invariant rule for `for (;;) body`.  `lr ls evs` = replay of the abstraction of `evs` on the local automaton.
`I` = loop invariant (environment, remaining oracle, local L2 state), `R c` = what holds when the body ends with the
terminal outcome `c` (`brk`, `ret`, `blocked`, `fuel` of an inner loop).  Conclusion: the loop's events extend the
accumulated ones by a sequence the automaton accepts, and either the budget ran out or some terminal outcome's `R`
holds for the final environment. -/
theorem iterate_inv {σ : Type} (lr : σ → List Event → Option σ)
    (lr_nil : ∀ s, lr s [] = some s)
    (lr_append : ∀ s a b, lr s (a ++ b) = (lr s a).bind (fun m => lr m b))
    (body : Env → List Val → Except String Out)
    (I : Env → List Val → σ → Prop) (R : Ctl → Env → List Val → σ → Prop)
    (hbody : ∀ env inp ls, I env inp ls → ∃ o, body env inp = .ok o ∧ ∃ ls', lr ls o.events = some ls' ∧
      (if o.ctl.goesOn then I o.env o.inp ls' else R o.ctl o.env o.inp ls')) :
    ∀ n env inp ls acc, I env inp ls → ∃ out, iterate body n env inp acc = .ok out ∧
      ∃ evs ls', out.events = acc ++ evs ∧ lr ls evs = some ls' ∧
        (out.ctl = .fuel ∨ ∃ c, c.goesOn = false ∧ R c out.env out.inp ls' ∧ out.ctl = c.afterLoop) := by
  intro n
  induction n with
  | zero =>
    intro env inp ls acc _
    exact ⟨_, rfl, [], ls, by simp, lr_nil ls, .inl rfl⟩
  | succ n ih =>
    intro env inp ls acc hI
    obtain ⟨o, ho, ls1, hl1, hpost⟩ := hbody env inp ls hI
    rcases o with ⟨oev, oenv, oinp, octl⟩
    simp only [iterate, ho, bind, Except.bind]
    cases octl with
    | normal =>
      simp only [Ctl.goesOn, if_true] at hpost
      obtain ⟨out, hout, evs, ls2, hev, hl2, hfin⟩ := ih oenv oinp ls1 (acc ++ oev) hpost
      refine ⟨out, hout, oev ++ evs, ls2, by simp [hev], ?_, hfin⟩
      simp [lr_append, hl1, hl2]
    | cont =>
      simp only [Ctl.goesOn, if_true] at hpost
      obtain ⟨out, hout, evs, ls2, hev, hl2, hfin⟩ := ih oenv oinp ls1 (acc ++ oev) hpost
      refine ⟨out, hout, oev ++ evs, ls2, by simp [hev], ?_, hfin⟩
      simp [lr_append, hl1, hl2]
    | brk =>
      simp only [Ctl.goesOn] at hpost
      exact ⟨_, rfl, oev, ls1, rfl, hl1, .inr ⟨.brk, rfl, by simpa using hpost, rfl⟩⟩
    | ret v =>
      simp only [Ctl.goesOn] at hpost
      exact ⟨_, rfl, oev, ls1, rfl, hl1, .inr ⟨.ret v, rfl, by simpa using hpost, rfl⟩⟩
    | blocked =>
      simp only [Ctl.goesOn] at hpost
      exact ⟨_, rfl, oev, ls1, rfl, hl1, .inr ⟨.blocked, rfl, by simpa using hpost, rfl⟩⟩
    | fuel =>
      simp only [Ctl.goesOn] at hpost
      exact ⟨_, rfl, oev, ls1, rfl, hl1, .inr ⟨.fuel, rfl, by simpa using hpost, rfl⟩⟩

/-- case analysis on a run's result (used instead of a `match` in statements) -/
def Outcome (x : Except String Out) (ok : Out → Prop) (err : Prop) : Prop :=
  match x with
  | .ok o => ok o
  | .error _ => err

@[simp] theorem Outcome_ok (o ok err) : Outcome (.ok o) ok err = ok o := rfl
@[simp] theorem Outcome_error (e ok err) : Outcome (.error e) ok err = err := rfl

/-- `iterate_inv` for bodies that may fail: `Bad` = what holds of the state in which the body returns `.error`
(e.g. "the oracle handed NULL for the stack head, which the source dereferences").  Then the loop fails only in a
`Bad` state that the local automaton reaches by an accepted event sequence. -/
theorem iterate_inv_gen {σ : Type} (lr : σ → List Event → Option σ)
    (lr_nil : ∀ s, lr s [] = some s)
    (lr_append : ∀ s a b, lr s (a ++ b) = (lr s a).bind (fun m => lr m b))
    (body : Env → List Val → Except String Out)
    (I : Env → List Val → σ → Prop) (R : Ctl → Env → List Val → σ → Prop) (Bad : Env → List Val → σ → Prop)
    (hbody : ∀ env inp ls, I env inp ls → Outcome (body env inp)
      (fun o => ∃ ls', lr ls o.events = some ls' ∧
          (if o.ctl.goesOn then I o.env o.inp ls' else R o.ctl o.env o.inp ls'))
      (Bad env inp ls)) :
    ∀ n env inp ls acc, I env inp ls → Outcome (iterate body n env inp acc)
      (fun out => ∃ evs ls', out.events = acc ++ evs ∧ lr ls evs = some ls' ∧
          (out.ctl = .fuel ∨ ∃ c, c.goesOn = false ∧ R c out.env out.inp ls' ∧ out.ctl = c.afterLoop))
      (∃ evs ls' env' inp', lr ls evs = some ls' ∧ Bad env' inp' ls') := by
  intro n
  induction n with
  | zero =>
    intro env inp ls acc _
    rw [iterate, Outcome_ok]
    exact ⟨[], ls, by simp, lr_nil ls, .inl rfl⟩
  | succ n ih =>
    intro env inp ls acc hI
    have hb := hbody env inp ls hI
    cases hbe : body env inp with
    | error e =>
      rw [hbe, Outcome_error] at hb
      simp only [iterate, hbe, bind, Except.bind, Outcome_error]
      exact ⟨[], ls, env, inp, lr_nil ls, hb⟩
    | ok o =>
      rw [hbe, Outcome_ok] at hb
      obtain ⟨ls1, hl1, hpost⟩ := hb
      rcases o with ⟨oev, oenv, oinp, octl⟩
      simp only [iterate, hbe, bind, Except.bind]
      cases octl with
      | normal =>
        simp only [Ctl.goesOn, if_true] at hpost
        have ih' := ih oenv oinp ls1 (acc ++ oev) hpost
        cases hi : iterate body n oenv oinp (acc ++ oev) with
        | error e =>
          rw [hi, Outcome_error] at ih'
          rw [Outcome_error]
          obtain ⟨evs, ls2, env', inp', hl2, hbad⟩ := ih'
          exact ⟨oev ++ evs, ls2, env', inp', by simp [lr_append, hl1, hl2], hbad⟩
        | ok out =>
          rw [hi, Outcome_ok] at ih'
          rw [Outcome_ok]
          obtain ⟨evs, ls2, hev, hl2, hfin⟩ := ih'
          exact ⟨oev ++ evs, ls2, by simp [hev], by simp [lr_append, hl1, hl2], hfin⟩
      | cont =>
        simp only [Ctl.goesOn, if_true] at hpost
        have ih' := ih oenv oinp ls1 (acc ++ oev) hpost
        cases hi : iterate body n oenv oinp (acc ++ oev) with
        | error e =>
          rw [hi, Outcome_error] at ih'
          rw [Outcome_error]
          obtain ⟨evs, ls2, env', inp', hl2, hbad⟩ := ih'
          exact ⟨oev ++ evs, ls2, env', inp', by simp [lr_append, hl1, hl2], hbad⟩
        | ok out =>
          rw [hi, Outcome_ok] at ih'
          rw [Outcome_ok]
          obtain ⟨evs, ls2, hev, hl2, hfin⟩ := ih'
          exact ⟨oev ++ evs, ls2, by simp [hev], by simp [lr_append, hl1, hl2], hfin⟩
      | brk =>
        simp only [Ctl.goesOn] at hpost
        rw [Outcome_ok]
        exact ⟨oev, ls1, rfl, hl1, .inr ⟨.brk, rfl, by simpa using hpost, rfl⟩⟩
      | ret v =>
        simp only [Ctl.goesOn] at hpost
        rw [Outcome_ok]
        exact ⟨oev, ls1, rfl, hl1, .inr ⟨.ret v, rfl, by simpa using hpost, rfl⟩⟩
      | blocked =>
        simp only [Ctl.goesOn] at hpost
        rw [Outcome_ok]
        exact ⟨oev, ls1, rfl, hl1, .inr ⟨.blocked, rfl, by simpa using hpost, rfl⟩⟩
      | fuel =>
        simp only [Ctl.goesOn] at hpost
        rw [Outcome_ok]
        exact ⟨oev, ls1, rfl, hl1, .inr ⟨.fuel, rfl, by simpa using hpost, rfl⟩⟩

/-- the events of `a` are a prefix of the events of `a; b` -/
theorem exec_seq_events (fuel a b env inp o) (h : exec fuel (.seq a b) env inp = .ok o) :
    ∃ o1, exec fuel a env inp = .ok o1 ∧ ∃ tl, o.events = o1.events ++ tl := by
  rw [exec_seq] at h
  cases h1 : exec fuel a env inp with
  | error e => rw [h1] at h; cases h
  | ok o1 =>
    rw [h1] at h
    refine ⟨o1, rfl, ?_⟩
    rcases o1 with ⟨ev, en, ip, ctl⟩
    cases ctl <;> simp only [seqPost] at h <;> try (cases h; exact ⟨[], by simp⟩)
    cases h2 : exec fuel b en ip with
    | error e => rw [h2] at h; cases h
    | ok o2 => rw [h2] at h; cases h; exact ⟨o2.events, rfl⟩

/-- Invariant rule for `for (;;) body`, **for every oracle**: no assumption on the oracle's values; instead the
conclusion about the local automaton is conditional on `W` (well-typedness of the observed value) holding for the
events the run produced.  `J` / `RJ`: unconditional invariant / terminal facts about the environment (enough to keep
executing symbolically); `I` / `R`: the relation to the local L2 state, maintained as long as the events are `W`. -/
theorem iterate_inv_wt {σ : Type} (lr : σ → List Event → Option σ) (W : Event → Prop)
    (lr_nil : ∀ s, lr s [] = some s)
    (lr_append : ∀ s a b, lr s (a ++ b) = (lr s a).bind (fun m => lr m b))
    (body : Env → List Val → Except String Out)
    (J : Env → Prop) (RJ : Ctl → Env → Prop) (I : Env → σ → Prop) (R : Ctl → Env → σ → Prop)
    (hbody : ∀ env inp o, J env → body env inp = .ok o →
      (if o.ctl.goesOn then J o.env else RJ o.ctl o.env) ∧
      (∀ ls, I env ls → (∀ e ∈ o.events, W e) → ∃ ls', lr ls o.events = some ls' ∧
        (if o.ctl.goesOn then I o.env ls' else R o.ctl o.env ls'))) :
    ∀ n env inp acc out, J env → iterate body n env inp acc = .ok out →
      ∃ evs, out.events = acc ++ evs ∧
        (out.ctl = .fuel ∨ ∃ c, c.goesOn = false ∧ RJ c out.env ∧ out.ctl = c.afterLoop) ∧
        (∀ ls, I env ls → (∀ e ∈ evs, W e) → ∃ ls', lr ls evs = some ls' ∧
          (out.ctl = .fuel ∨ ∃ c, c.goesOn = false ∧ R c out.env ls' ∧ out.ctl = c.afterLoop)) := by
  intro n
  induction n with
  | zero =>
    intro env inp acc out _ h
    rw [iterate] at h; cases h
    exact ⟨[], by simp, .inl rfl, fun ls _ _ => ⟨ls, lr_nil ls, .inl rfl⟩⟩
  | succ n ih =>
    intro env inp acc out hJ h
    simp only [iterate, bind, Except.bind] at h
    cases hb : body env inp with
    | error e => rw [hb] at h; cases h
    | ok o =>
      rw [hb] at h
      obtain ⟨hj, hi⟩ := hbody env inp o hJ hb
      rcases o with ⟨oev, oenv, oinp, octl⟩
      cases octl with
      | normal =>
        simp only [Ctl.goesOn, if_true] at hj hi h
        obtain ⟨evs, hev, hs, ht⟩ := ih oenv oinp (acc ++ oev) out hj h
        refine ⟨oev ++ evs, by simp [hev], hs, ?_⟩
        intro ls hI hW
        obtain ⟨ls1, hl1, hI1⟩ := hi ls hI (fun e he => hW e (List.mem_append_left _ he))
        obtain ⟨ls2, hl2, hfin⟩ := ht ls1 hI1 (fun e he => hW e (List.mem_append_right _ he))
        exact ⟨ls2, by simp [lr_append, hl1, hl2], hfin⟩
      | cont =>
        simp only [Ctl.goesOn, if_true] at hj hi h
        obtain ⟨evs, hev, hs, ht⟩ := ih oenv oinp (acc ++ oev) out hj h
        refine ⟨oev ++ evs, by simp [hev], hs, ?_⟩
        intro ls hI hW
        obtain ⟨ls1, hl1, hI1⟩ := hi ls hI (fun e he => hW e (List.mem_append_left _ he))
        obtain ⟨ls2, hl2, hfin⟩ := ht ls1 hI1 (fun e he => hW e (List.mem_append_right _ he))
        exact ⟨ls2, by simp [lr_append, hl1, hl2], hfin⟩
      | brk =>
        simp only [Ctl.goesOn] at hj hi h; cases h
        refine ⟨oev, rfl, .inr ⟨.brk, rfl, by simpa using hj, rfl⟩, ?_⟩
        intro ls hI hW
        obtain ⟨ls1, hl1, hR⟩ := hi ls hI hW
        exact ⟨ls1, hl1, .inr ⟨.brk, rfl, by simpa using hR, rfl⟩⟩
      | ret v =>
        simp only [Ctl.goesOn] at hj hi h; cases h
        refine ⟨oev, rfl, .inr ⟨.ret v, rfl, by simpa using hj, rfl⟩, ?_⟩
        intro ls hI hW
        obtain ⟨ls1, hl1, hR⟩ := hi ls hI hW
        exact ⟨ls1, hl1, .inr ⟨.ret v, rfl, by simpa using hR, rfl⟩⟩
      | blocked =>
        simp only [Ctl.goesOn] at hj hi h; cases h
        refine ⟨oev, rfl, .inr ⟨.blocked, rfl, by simpa using hj, rfl⟩, ?_⟩
        intro ls hI hW
        obtain ⟨ls1, hl1, hR⟩ := hi ls hI hW
        exact ⟨ls1, hl1, .inr ⟨.blocked, rfl, by simpa using hR, rfl⟩⟩
      | fuel =>
        simp only [Ctl.goesOn] at hj hi h; cases h
        refine ⟨oev, rfl, .inr ⟨.fuel, rfl, by simpa using hj, rfl⟩, ?_⟩
        intro ls hI hW
        obtain ⟨ls1, hl1, hR⟩ := hi ls hI hW
        exact ⟨ls1, hl1, .inr ⟨.fuel, rfl, by simpa using hR, rfl⟩⟩

end UrcuVerif.Src
