import UrcuVerif.Fork.Model
import UrcuVerif.Fork.Bp
import UrcuVerif.Src.IR
/-!
# Thread-local projections of the L2 fork models (`Fork/Model.lean`, `Fork/Bp.lean`) for the fork handlers

Two deterministic local automata whose labels are **accesses of the source text with the values they observe**:

* `cstep` – the thread `t` that runs `call_rcu_before_fork` / `call_rcu_after_fork_parent` (and the path "call_rcu() has
  not been used" of `call_rcu_after_fork_child`: `acUnlock`, `acCreate`) (`src/urcu-call-rcu-impl.h`).  Local state `CLState`: a pc that refines L2's `upc t` by the position inside the two
  `cds_list_for_each_entry` loops and inside `wake_call_rcu_thread`, `l` = `call_rcu_data_list` as it was when the
  mutex was taken (helper ids, in list order), `on` = the local `was_online`.
  **List-oracle discipline**: the list is not modelled by the IR (`cds_list_for_each_entry.first/.next` are external
  events answered by the oracle); the automaton accepts `first v` only for `v = l.head?` and `next h v` only when `h`
  is the current element and `v` the head of what follows it: *the answers enumerate L2's helper list*.  That the list
  cannot change meanwhile is the frame lemma `cframe_held` (every L2 label that changes `list` is guarded by
  `mutex = none`).
* `bstep` – the thread that runs `urcu_bp_before_fork` / `urcu_bp_after_fork_parent` / `urcu_bp_after_fork_child`
  (`src/urcu-bp.c`), local state = a pc refining `ForkBp.State.pc t`.

`cL2` / `bL2` give the L2 label(s) an access stands for at a pc (`[]`: a stutter step).  Proved against the real
`Fork.step` / `ForkBp.step`: `cproj_lift`, `cframe`, `cframe_held`, `bfRet_enabled`; `bproj_lift`, `bframe`.
-/
set_option linter.unusedSimpArgs false
set_option linter.unusedVariables false
namespace UrcuVerif.Src.ForkL
open UrcuVerif

/-- `f & m` is non-zero -/
def bit (f m : Nat) : Bool := f &&& m != 0

-- ==========================================================================================================
/-! ## `call_rcu_before_fork` / `call_rcu_after_fork_parent` -/
section callrcu
open UrcuVerif.Fork

inductive CLabel
  | ongoing (b : Bool)              -- `_rcu_read_ongoing()` answered `b` (qsbr: the thread is online)
  | offline | online                -- `rcu_thread_offline()` / `rcu_thread_online()`
  | lock (l : List Nat)             -- `pthread_mutex_lock(&call_rcu_mutex)` returned 0; `l` = the helper list at that moment
  | unlock                          -- `pthread_mutex_unlock(&call_rcu_mutex)` returned 0
  | first (v : Option Nat)          -- `cds_list_for_each_entry.first(&call_rcu_data_list)` answered helper `v` / NULL
  | next (h : Nat) (v : Option Nat) -- `….next(&call_rcu_data_list, crd h)` answered `v`
  | orPause (h : Nat)               -- `uatomic_or(&crd h->flags, URCU_CALL_RCU_PAUSE)`
  | clrPause (h : Nat)              -- `uatomic_and(&crd h->flags, ~URCU_CALL_RCU_PAUSE)`
  | ldFl (h f : Nat)                -- load of `crd h->flags` saw `f`
  | ldFutex (h : Nat) (v : Int)     -- load of `crd h->futex` saw `v`
  | stFutex (h : Nat)               -- `uatomic_store(&crd h->futex, 0)`
  | wake (h : Nat)                  -- `futex(&crd h->futex, FUTEX_WAKE, 1)`
  | listEmpty (b : Bool)            -- `cds_list_empty(&call_rcu_data_list)` answered `b`
  | bad                             -- an event that has no place in the protocol / an ill-typed value
  deriving DecidableEq, Repr

inductive CPc
  | idle
  | bfOff                           -- before_fork: was online, about to go offline (L2: idle)
  | bfLock                          -- about to take `call_rcu_mutex` (L2: idle)
  | bfFirst                         -- mutex held, about to ask for the first helper (L2: `bfPause l`)
  | bfTop (rem : List Nat)          -- top of the PAUSE loop, `rem` = helpers not yet handled (L2: `bfPause rem`)
  | bfOr (h : Nat) (rem : List Nat) -- successor fetched, about to set PAUSE of `h` (L2: `bfPause (h :: rem)`)
  | wkFl (h : Nat) (rem : List Nat) | wkFutex (h : Nat) (rem : List Nat) | wkSt (h : Nat) (rem : List Nat)
  | wkWake (h : Nat) (rem : List Nat)   -- inside `wake_call_rcu_thread(crd h)` (L2: `bfPause rem`)
  | bwTop (rem : List Nat)          -- top of the wait loop (L2: `bfWait rem`); `bwTop []` with `on = false`: returned
  | bwPoll (h : Nat) (rem : List Nat)   -- polling `crd h->flags` for PAUSED (L2: `bfWait (h :: rem)`)
  | apFirst                         -- after_fork_parent entered (L2: `afpClr l`)
  | apTop (rem : List Nat)          -- top of the clear loop (L2: `afpClr rem`)
  | apAnd (h : Nat) (rem : List Nat)    -- about to clear PAUSE of `h` (L2: `afpClr (h :: rem)`)
  | awTop (rem : List Nat)          -- top of the wait loop (L2: `afpWait rem`)
  | awPoll (h : Nat) (rem : List Nat)   -- polling for PAUSED clear (L2: `afpWait (h :: rem)`)
  | acUnlock                        -- after_fork_child entered, the (inherited) mutex still held (L2: `afcUnlock`)
  | acCreate                        -- mutex released, about to test `cds_list_empty` (L2: `afcCreate`)
  deriving DecidableEq, Repr

structure CLState where
  pc : CPc
  l : List Nat
  on : Bool
  deriving DecidableEq, Repr

def cstep (ls : CLState) (lab : CLabel) : Option CLState :=
  match ls.pc with
  | .idle => (match lab with
    | .ongoing b => some { ls with pc := if b = true then .bfOff else .bfLock, on := b }
    | _ => none)
  | .bfOff => (match lab with
    | .offline => some { ls with pc := .bfLock }
    | _ => none)
  | .bfLock => (match lab with
    | .lock l => some { ls with pc := .bfFirst, l := l }
    | _ => none)
  | .bfFirst => (match lab with
    | .first v => if v = ls.l.head? then some { ls with pc := .bfTop ls.l } else none
    | _ => none)
  | .bfTop rem => (match rem with
    | h :: rem' => (match lab with
      | .next h' v => if h' = h ∧ v = rem'.head? then some { ls with pc := .bfOr h rem' } else none
      | _ => none)
    | [] => (match lab with
      | .first v => if v = ls.l.head? then some { ls with pc := .bwTop ls.l } else none
      | _ => none))
  | .bfOr h rem => (match lab with
    | .orPause h' => if h' = h then some { ls with pc := .wkFl h rem } else none
    | _ => none)
  | .wkFl h rem => (match lab with
    | .ldFl h' f => if h' = h then some { ls with pc := if bit f 1 = true then .bfTop rem else .wkFutex h rem } else none
    | _ => none)
  | .wkFutex h rem => (match lab with
    | .ldFutex h' v => if h' = h then some { ls with pc := if v = -1 then .wkSt h rem else .bfTop rem } else none
    | _ => none)
  | .wkSt h rem => (match lab with
    | .stFutex h' => if h' = h then some { ls with pc := .wkWake h rem } else none
    | _ => none)
  | .wkWake h rem => (match lab with
    | .wake h' => if h' = h then some { ls with pc := .bfTop rem } else none
    | _ => none)
  | .bwTop rem => (match rem with
    | h :: rem' => (match lab with
      | .next h' v => if h' = h ∧ v = rem'.head? then some { ls with pc := .bwPoll h rem' } else none
      | _ => none)
    | [] => (match lab with
      | .online => if ls.on = true then some { ls with on := false } else none
      | _ => none))
  | .bwPoll h rem => (match lab with
    | .ldFl h' f => if h' = h then some { ls with pc := if bit f 32 = true then .bwTop rem else .bwPoll h rem } else none
    | _ => none)
  | .apFirst => (match lab with
    | .first v => if v = ls.l.head? then some { ls with pc := .apTop ls.l } else none
    | _ => none)
  | .apTop rem => (match rem with
    | h :: rem' => (match lab with
      | .next h' v => if h' = h ∧ v = rem'.head? then some { ls with pc := .apAnd h rem' } else none
      | _ => none)
    | [] => (match lab with
      | .first v => if v = ls.l.head? then some { ls with pc := .awTop ls.l } else none
      | _ => none))
  | .apAnd h rem => (match lab with
    | .clrPause h' => if h' = h then some { ls with pc := .apTop rem } else none
    | _ => none)
  | .awTop rem => (match rem with
    | h :: rem' => (match lab with
      | .next h' v => if h' = h ∧ v = rem'.head? then some { ls with pc := .awPoll h rem' } else none
      | _ => none)
    | [] => (match lab with
      | .unlock => some { ls with pc := .idle }
      | _ => none))
  | .awPoll h rem => (match lab with
    | .ldFl h' f => if h' = h then some { ls with pc := if bit f 32 = true then .awPoll h rem else .awTop rem } else none
    | _ => none)
  | .acUnlock => (match lab with
    | .unlock => some { ls with pc := .acCreate }
    | _ => none)
  | .acCreate => (match lab with
    | .listEmpty b => if b = true then some { ls with pc := .idle } else none   -- the non-empty path is not modelled here
    | _ => none)

def crun : CLState → List CLabel → Option CLState
  | ls, [] => some ls
  | ls, l :: r => match cstep ls l with
    | some ls' => crun ls' r
    | none => none

theorem crun_append (ls : CLState) (a b : List CLabel) :
    crun ls (a ++ b) = (crun ls a).bind (fun m => crun m b) := by
  induction a generalizing ls with
  | nil => rfl
  | cons x a ih =>
    simp only [List.cons_append, crun]
    cases cstep ls x with
    | none => rfl
    | some p => exact ih p

/-- L2's `upc t` of a local state -/
def CLState.abs (ls : CLState) : UPc :=
  match ls.pc with
  | .idle | .bfOff | .bfLock => .idle
  | .bfFirst => .bfPause ls.l
  | .bfTop rem => .bfPause rem
  | .bfOr h rem => .bfPause (h :: rem)
  | .wkFl _ rem | .wkFutex _ rem | .wkSt _ rem | .wkWake _ rem => .bfPause rem
  | .bwTop rem => .bfWait rem
  | .bwPoll h rem => .bfWait (h :: rem)
  | .apFirst => .afpClr ls.l
  | .apTop rem => .afpClr rem
  | .apAnd h rem => .afpClr (h :: rem)
  | .awTop rem => .afpWait rem
  | .awPoll h rem => .afpWait (h :: rem)
  | .acUnlock => .afcUnlock
  | .acCreate => .afcCreate

/-- the thread holds `call_rcu_mutex` (between the lock of `before_fork` and the unlock of `after_fork_parent`) -/
def CLState.holds (ls : CLState) : Bool :=
  match ls.pc with
  | .idle | .bfOff | .bfLock | .acCreate => false
  | _ => true

/-- the L2 label(s) of thread `t` an access stands for.  Stutter steps: the qsbr online/offline bracket, the list
iteration answers (L2 takes the whole list at `bfLock` / `forkParent`), the accesses of `wake_call_rcu_thread` (L2
abstracts the helper's futex: `hWait` may always continue), poll-loop loads that do not see the awaited value.
`bfPauseDone` / `afpClrDone` (the exit of the first loop, no event) are taken at the `first` of the second loop. -/
def cL2 (t : Nat) (ls : CLState) : CLabel → List Label
  | .lock _ => [.bfLock t]
  | .first _ => (match ls.pc with
    | .bfTop [] => [.bfPauseDone t]
    | .apTop [] => [.afpClrDone t]
    | _ => [])
  | .orPause _ => [.bfPause t]
  | .clrPause _ => [.afpClr t]
  | .ldFl _ f => (match ls.pc with
    | .bwPoll _ _ => if bit f 32 = true then [.bfWait t] else []
    | .awPoll _ _ => if bit f 32 = true then [] else [.afpWait t]
    | _ => [])
  | .unlock => (match ls.pc with
    | .acUnlock => [.afcUnlock t]
    | _ => [.afpUnlock t])
  | .listEmpty b => if b = true then [.afcNone t] else []
  | _ => []

/-- the observed values are the stated functions of the global state: the list at the lock, the PAUSED bit of a polled
flags word -/
def cObs (s : State) (ls : CLState) : CLabel → Prop
  | .lock l => l = s.list
  | .ldFl h f => (match ls.pc with
    | .bwPoll _ _ | .awPoll _ _ => bit f 32 = s.paused h
    | _ => True)
  | .listEmpty b => b = decide (s.list = [])
  | _ => True

/-- the non-local part of L2's guards: the mutex is free when `pthread_mutex_lock` returns; `bfLock`'s API contract (an
application thread, outside any read-side section) -/
def cGuard (c : Cfg) (s : State) (t : Nat) : CLabel → Prop
  | .lock _ => t < c.n ∧ s.nest t = 0 ∧ s.mutex = none
  | _ => True

/-- relation between the global L2 state and the local state of thread `t` -/
def CRel (s : State) (t : Nat) (ls : CLState) : Prop :=
  s.upc t = ls.abs ∧ (ls.holds = true → s.list = ls.l ∧ s.mutex = some t)

theorem run_nil (c : Cfg) (s s' : State) : (Fork.run c s [] = some s') = (s = s') := by simp [Fork.run]
theorem run_single (c : Cfg) (s s' : State) (L : Label) : (Fork.run c s [L] = some s') = (step c s L = some s') := by
  simp only [Fork.run]
  cases step c s L <;> simp

/-- **lift**: a local step with the observed values of the global state and the global guard is the enabled L2
step(s) `cL2`, and the relation is preserved -/
theorem cproj_lift (c : Cfg) (s : State) (t : Nat) (ls ls' : CLState) (lab : CLabel)
    (hr : CRel s t ls) (hl : cstep ls lab = some ls') (ho : cObs s ls lab) (hg : cGuard c s t lab) :
    ∃ s', Fork.run c s (cL2 t ls lab) = some s' ∧ CRel s' t ls' := by
  obtain ⟨pc, l, on⟩ := ls
  obtain ⟨hu, hh⟩ := hr
  cases pc <;> cases lab <;> simp only [cstep] at hl <;> (try split at hl) <;> (try split at hl) <;>
    first
    | (simp at hl; done)
    | (simp only [Option.some.injEq] at hl; subst hl
       simp_all [cL2, Fork.run, step, cObs, cGuard, CRel, CLState.abs, CLState.holds]
       try (split <;> simp_all))

/-- L2's `bfRet t` is the return of `call_rcu_before_fork()`, which has no event: from the local final state of the call
(`bwTop []`) it is enabled without any guard and leads to `atFork` -/
theorem bfRet_enabled (c : Cfg) (s : State) (t : Nat) (ls : CLState) (hr : CRel s t ls) (hp : ls.pc = .bwTop []) :
    ∃ s', step c s (.bfRet t) = some s' ∧ s'.upc t = .atFork ∧ s'.list = s.list ∧ s'.mutex = s.mutex ∧
      s'.pause = s.pause ∧ s'.paused = s.paused := by
  obtain ⟨pc, l, on⟩ := ls
  obtain ⟨hu, hh⟩ := hr
  simp only at hp; subst hp
  simp [step, hu, CLState.abs]

/-- the application thread that owns a label (`none`: a helper thread's label) -/
def owner : Label → Option Nat
  | .spawn t | .rlock t | .runlock t | .register t | .unregister t | .gpBegin t | .gpEnd t => some t
  | .enq t _ _ | .createDflt t | .create t | .setCpu t _ _ | .setThr t _ => some t
  | .barCall t _ | .barEnq t _ | .barUnlock t | .barRet t => some t
  | .bfLock t | .bfPause t | .bfPauseDone t | .bfWait t | .bfRet t | .forkParent t | .forkChild t => some t
  | .afpClr t | .afpClrDone t | .afpWait t | .afpUnlock t => some t
  | .afcUnlock t | .afcNone t | .afcCreate t | .afcSkip t | .afcDispose t | .afcDone t => some t
  | _ => none

/-- **frame**: a label that is not thread `t`'s, other than another thread's `forkChild` (the child has only the forking
thread), leaves `upc t` unchanged -/
theorem cframe (c : Cfg) (s s' : State) (t : Nat) (L : Label) (st : step c s L = some s')
    (ho : owner L ≠ some t) (hf : ∀ u, L ≠ .forkChild u) : s'.upc t = s.upc t := by
  cases L <;> simp only [step] at st <;> (repeat' split at st) <;>
    first
    | (simp at st; done)
    | (simp only [Option.some.injEq] at st; subst st; simp_all [owner, upd, newHelper, parentOf] <;> grind)

/-- **frame of the mutex-protected part**: while thread `t` holds `call_rcu_mutex`, no label of another thread (helper
threads and `fork` included) changes the helper list or the owner of the mutex: the list-oracle discipline of the two
loops is sound -/
theorem cframe_held (c : Cfg) (s s' : State) (t : Nat) (L : Label) (st : step c s L = some s')
    (ho : owner L ≠ some t) (hm : s.mutex = some t) : s'.mutex = some t ∧ s'.list = s.list := by
  cases L <;> simp only [step] at st <;> (repeat' split at st) <;>
    first
    | (simp at st; done)
    | (simp only [Option.some.injEq] at st; subst st; simp_all [owner, upd, newHelper, parentOf, childOf] <;> grind)

/-- **no write other than `or PAUSE` / `and ~PAUSE`**: the only labels of the local automaton that stand for an L2
label changing a helper's `pause` word are `orPause h` (sets it, for the current helper of the first loop of
`before_fork`) and `clrPause h` (clears it, in `after_fork_parent`); no label of the automaton changes `paused`,
`stopped`, `queue`, `batch` -/
theorem cstep_writes (c : Cfg) (s s' : State) (t : Nat) (ls ls' : CLState) (lab : CLabel)
    (hr : CRel s t ls) (hl : cstep ls lab = some ls') (hrun : Fork.run c s (cL2 t ls lab) = some s') :
    s'.paused = s.paused ∧ s'.stopped = s.stopped ∧ s'.queue = s.queue ∧ s'.batch = s.batch ∧ s'.list = s.list ∧
    (s'.pause = s.pause ∨ (∃ h rem, lab = .orPause h ∧ ls.pc = .bfOr h rem ∧ s'.pause = upd s.pause h true) ∨
      (∃ h rem, lab = .clrPause h ∧ ls.pc = .apAnd h rem ∧ s'.pause = upd s.pause h false)) := by
  obtain ⟨pc, l, on⟩ := ls
  obtain ⟨hu, hh⟩ := hr
  cases pc <;> cases lab <;> simp only [cstep] at hl <;> (try split at hl) <;> (try split at hl) <;>
    first
    | (simp at hl; done)
    | (simp only [Option.some.injEq] at hl; subst hl
       simp only [cL2, CLState.abs] at hrun hu
       try (split at hrun)
       all_goals (simp only [run_single, run_nil] at hrun)
       all_goals (try (simp only [step, hu] at hrun))
       all_goals (try (split at hrun))
       all_goals (first
         | (simp at hrun; done)
         | (subst hrun; simp_all)
         | (simp only [Option.some.injEq] at hrun; subst hrun; simp_all)))

end callrcu

-- ==========================================================================================================
/-! ## urcu-bp: `urcu_bp_before_fork` / `urcu_bp_after_fork_parent` / `urcu_bp_after_fork_child` -/
section bp
open UrcuVerif.ForkBp

inductive BLabel
  | fill                  -- `sigfillset(&newmask)`
  | sigBlock              -- `pthread_sigmask(SIG_BLOCK, &newmask, &oldmask)`
  | lockGp | lockRg       -- `mutex_lock(&rcu_gp_lock)` / `mutex_lock(&rcu_registry_lock)`
  | unlockRg | unlockGp
  | sigSet                -- `pthread_sigmask(SIG_SETMASK, &oldmask, NULL)`
  | pruneFirst            -- `cds_list_for_each_entry.first(&registry_arena.chunk_list)`: the prune starts
  | prune                 -- any other event of `urcu_bp_prune_registry` (`.next`, `pthread_self`, `cds_list_del`)
  | bad
  deriving DecidableEq, Repr

inductive BPc
  | at (p : Pc)           -- at L2's pc `p`
  | bfFill                -- `sigfillset` done (L2: idle)
  | apSig | acSig         -- both locks released, the mask not yet restored (L2: idle – see `bL2`)
  deriving DecidableEq, Repr

def bstep (pc : BPc) (l : BLabel) : Option BPc :=
  match pc with
  | .at .idle => (match l with
    | .fill => some .bfFill
    | _ => none)
  | .bfFill => (match l with
    | .sigBlock => some (.at .bf1)
    | _ => none)
  | .at .bf1 => (match l with
    | .lockGp => some (.at .bf2)
    | _ => none)
  | .at .bf2 => (match l with
    | .lockRg => some (.at .atFork)
    | _ => none)
  | .at .ap1 => (match l with
    | .unlockRg => some (.at .ap2)
    | _ => none)
  | .at .ap2 => (match l with
    | .unlockGp => some .apSig
    | _ => none)
  | .apSig => (match l with
    | .sigSet => some (.at .idle)
    | _ => none)
  | .at .ac0 => (match l with
    | .pruneFirst => some (.at .ac1)
    | _ => none)
  | .at .ac1 => (match l with
    | .prune => some (.at .ac1)
    | .unlockRg => some (.at .ac2)
    | _ => none)
  | .at .ac2 => (match l with
    | .unlockGp => some .acSig
    | _ => none)
  | .acSig => (match l with
    | .sigSet => some (.at .idle)
    | _ => none)
  | _ => none

def brun : BPc → List BLabel → Option BPc
  | pc, [] => some pc
  | pc, l :: r => match bstep pc l with
    | some pc' => brun pc' r
    | none => none

theorem brun_append (pc : BPc) (a b : List BLabel) :
    brun pc (a ++ b) = (brun pc a).bind (fun m => brun m b) := by
  induction a generalizing pc with
  | nil => rfl
  | cons x a ih =>
    simp only [List.cons_append, brun]
    cases bstep pc x with
    | none => rfl
    | some p => exact ih p

def BPc.abs : BPc → Pc
  | .at p => p
  | .bfFill | .apSig | .acSig => .idle

/-- the L2 label(s) an access stands for.  L2 folds `mutex_unlock(&rcu_gp_lock); pthread_sigmask(SIG_SETMASK, &oldmask)`
into ONE label (`apGp` / `acGp`): it is taken at the unlock (what other threads observe); the restore of the mask that
follows acts on the thread's own `mask t` / `sigblk t` only, which no other thread's label reads (`sigReg t` is the
thread's own signal handler), so L2 has the mask restored a moment early – a stutter step here.  The whole prune of the
child is L2's atomic `acPrune` (nobody else runs in the child), taken at its first event. -/
def bL2 (t : Nat) (pc : BPc) : BLabel → List Label
  | .sigBlock => [.bfCall t]
  | .lockGp => [.bfGp t]
  | .lockRg => [.bfRg t]
  | .unlockRg => (match pc with
    | .at .ap1 => [.apRg t]
    | .at .ac1 => [.acRg t]
    | _ => [])
  | .unlockGp => (match pc with
    | .at .ap2 => [.apGp t]
    | .at .ac2 => [.acGp t]
    | _ => [])
  | .pruneFirst => [.acPrune t]
  | _ => []

/-- the non-local part of L2's guards: a lock is free when `mutex_lock` returns; the thread owns what it unlocks (L2
invariants `g_pc`, `r_pc` of `ForkBp.Inv`) -/
def bGuard (s : State) (t : Nat) : BLabel → Prop
  | .lockGp => s.gpl = none
  | .lockRg => s.rgl = none
  | .unlockRg => s.rgl = some t
  | .unlockGp => s.gpl = some t
  | _ => True

theorem brun_nil (s s' : State) : (ForkBp.run s [] = some s') = (s = s') := by simp [ForkBp.run]
theorem brun_single (s s' : State) (L : Label) : (ForkBp.run s [L] = some s') = (ForkBp.step s L = some s') := by
  simp only [ForkBp.run]
  cases ForkBp.step s L <;> simp

theorem bproj_lift (s : State) (t : Nat) (pc pc' : BPc) (l : BLabel)
    (hr : s.pc t = pc.abs) (hl : bstep pc l = some pc') (hg : bGuard s t l) :
    ∃ s', ForkBp.run s (bL2 t pc l) = some s' ∧ s'.pc t = pc'.abs := by
  cases pc with
  | «at» p =>
    cases p <;> cases l <;> simp only [bstep] at hl <;>
      first
      | (simp at hl; done)
      | (simp only [Option.some.injEq] at hl; subst hl
         simp_all [bL2, ForkBp.run, ForkBp.step, bGuard, BPc.abs])
  | _ =>
    cases l <;> simp only [bstep] at hl <;>
      first
      | (simp at hl; done)
      | (simp only [Option.some.injEq] at hl; subst hl
         simp_all [bL2, ForkBp.run, ForkBp.step, bGuard, BPc.abs])

/-- **the masks along the handlers**: the L2 steps of `before_fork` copy the thread's mask to `saved`
(`bfCall`: `omask t := mask t`, `bfRg`: `saved := omask t`), those of `after_fork_parent` / `after_fork_child` copy
`saved` back to the thread's mask (`apRg` / `acPrune`: `omask t := saved`; `apGp` / `acGp`: `mask t := omask t`) -/
theorem bstep_masks (s s' : State) (t : Nat) (pc pc' : BPc) (l : BLabel) (hr : s.pc t = pc.abs)
    (hl : bstep pc l = some pc') (hrun : ForkBp.run s (bL2 t pc l) = some s') :
    (l = .sigBlock → s'.omask t = s.mask t ∧ s'.saved = s.saved ∧ s'.mask t = s.mask t) ∧
    (l = .lockGp → s'.omask t = s.omask t ∧ s'.saved = s.saved ∧ s'.mask t = s.mask t) ∧
    (l = .lockRg → s'.saved = s.omask t ∧ s'.mask t = s.mask t) ∧
    (l = .unlockRg → pc = .at .ap1 → s'.omask t = s.saved ∧ s'.saved = s.saved) ∧
    (l = .pruneFirst → s'.omask t = s.saved ∧ s'.saved = s.saved ∧ s'.registry = s.registry.filter (· = t)) ∧
    (l = .unlockRg → pc = .at .ac1 → s'.omask t = s.omask t) ∧
    (l = .unlockGp → s'.mask t = s.omask t ∧ s'.sigblk t = false) := by
  cases pc with
  | «at» p =>
    cases p <;> cases l <;> simp only [bstep] at hl <;>
      first
      | (simp at hl; done)
      | (simp only [Option.some.injEq] at hl; subst hl
         simp only [bL2, brun_single, brun_nil, BPc.abs] at hrun hr
         try (simp only [ForkBp.step, hr] at hrun)
         try (split at hrun)
         all_goals (first
           | (simp at hrun; done)
           | (subst hrun; simp_all)
           | (simp only [Option.some.injEq] at hrun; subst hrun; simp_all)))
  | _ =>
    cases l <;> simp only [bstep] at hl <;>
      first
      | (simp at hl; done)
      | (simp only [Option.some.injEq] at hl; subst hl
         simp only [bL2, brun_single, brun_nil, BPc.abs] at hrun hr
         try (simp only [ForkBp.step, hr] at hrun)
         try (split at hrun)
         all_goals (first
           | (simp at hrun; done)
           | (subst hrun; simp_all)
           | (simp only [Option.some.injEq] at hrun; subst hrun; simp_all)))

/-- the thread that owns a label -/
def bowner : Label → Nat
  | .spawn t | .setMask t _ | .rlock t | .runlock t | .regBegin t | .regEnd t | .unregBegin t | .unregEnd t | .sigReg t => t
  | .gpCall t | .gpLock t | .rgLock t | .gpMove t _ | .rgDrop t | .gpBack t | .rgUnlock t | .gpUnlock t => t
  | .bfCall t | .bfGp t | .bfRg t | .fork t | .forkParent t | .apRg t | .apGp t | .acPrune t | .acRg t | .acGp t => t

/-- **frame**: a label of another thread, other than its `fork` (the child has only the forking thread), leaves thread
`t`'s pc, masks and blocked-signals flag unchanged; and while `t` holds both locks (`atFork`, `ap1`, `ac0`) nobody else
writes `saved_fork_signal_mask` or releases `rcu_registry_lock` (`hR` = the invariant `r_pc` of `ForkBp.Inv`, which holds in
every reachable state: `ForkBp.inv_reach`) -/
theorem bframe (s s' : State) (t : Nat) (L : Label) (st : ForkBp.step s L = some s') (ho : bowner L ≠ t)
    (hf : ∀ u, L ≠ .fork u) (hR : ∀ u, (s.pc u).holdsR = true → s.rgl = some u) :
    s'.pc t = s.pc t ∧ s'.mask t = s.mask t ∧ s'.omask t = s.omask t ∧ s'.sigblk t = s.sigblk t ∧
      (s.rgl = some t → s'.saved = s.saved ∧ s'.rgl = some t) := by
  cases L <;> simp only [ForkBp.step] at st <;> (repeat' split at st) <;>
    first
    | (simp at st; done)
    | (simp only [Option.some.injEq] at st; subst st; simp_all [bowner, upd] <;> grind [Pc.holdsR])

end bp

end UrcuVerif.Src.ForkL
