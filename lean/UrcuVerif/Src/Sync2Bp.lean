import UrcuVerif.Src.Sync2Refine
/-!
# bp flavor: `smp_mb_master`, `urcu_bp_reader_state`, the scan loop and `wait_for_readers` refine `Gp/Flip.lean`

Same structure as `Src/SyncScan.lean` / `Src/SyncGp.lean` (memb / mb), for the generated values `«bp.smp_mb_master»`,
`«urcu_bp_reader_state»` and `«bp.wait_for_readers»` (`bp_wfr_eq : «bp.wait_for_readers» = wfrBp := rfl`, a divergence of
the regenerated text breaks that line).  Differences of the C text: the reader state function takes no `gp` (it reads
`urcu_bp_gp.ctr`) and answers INACTIVE for a NULL `ctr` (never the case here: `&index->ctr`); there is no futex (no
`uatomic_dec(&gp.futex)`, no master barrier inside the retry loop, no `wait_gp`): the retry path is
`mutex_unlock(&rcu_registry_lock); poll(NULL, 0, 10) or caa_cpu_relax(); mutex_lock(&rcu_registry_lock)` – ONE window.
-/
set_option maxRecDepth 8192
set_option linter.unusedSimpArgs false
set_option linter.unusedVariables false
namespace UrcuVerif.Src.Sync2
open UrcuVerif UrcuVerif.Src UrcuVerif.Gen.Src UrcuVerif.Src.Sync

/-! ## the template -/

def rsCall : Stmt :=
  .call (some "_t3") ["gp", "ctr", "group"] [.addrGlob "rcu_gp", .fieldAddr (.var "index") "ctr", .var "group"]
    «urcu_common_reader_state»

def mvSnap : Stmt := .prim none (.ext "cds_list_move") [.fieldAddr (.var "index") "node", .var "cur_snap_readers"]
def mvQs : Stmt := .prim none (.ext "cds_list_move") [.fieldAddr (.var "index") "node", .var "qsreaders"]

/-- the `switch` on the reader state (rendered as a loop that is left by `break`) -/
def scanSwitch : Stmt :=
  .loop (block [
    (.ifte (.bin .eq (.var "_t4") (.cst "URCU_READER_ACTIVE_CURRENT" (0)))
      (block [(.ifte (.var "cur_snap_readers") (block [mvSnap, (.brk)]) (.skip)), mvQs, (.brk)])
      (.ifte (.bin .eq (.var "_t4") (.cst "URCU_READER_INACTIVE" (2))) (block [mvQs, (.brk)])
        (.ifte (.bin .eq (.var "_t4") (.cst "URCU_READER_ACTIVE_OLD" (1))) (.brk) (.skip)))),
    (.brk)])

/-- body of `cds_list_for_each_entry_safe(index, tmp, input_readers, node)` -/
def scanRest : Stmt := block [(.assign "tmp" (.var "_t2")), rsCall, (.assign "_t4" (.var "_t3")), scanSwitch]
def scanBody : Stmt :=
  block [(.assign "index" (.var "_t2")),
    (.ifte (.var "index") (.skip) (.brk)),
    (.prim (some "_t2") (.ext "cds_list_for_each_entry_safe.next") ([.var "input_readers"] ++ [.var "index"])),
    scanRest]

def stA (qa : String) : Stmt :=
  .ifte (.bin .lt (.var "wait_loops") (.cst qa (100)))
    (block [(.assign "_t1" (.var "wait_loops")), (.assign "wait_loops" (.bin .add (.var "wait_loops") (.lit 1)))]) (.skip)
def stDec : Stmt := .prim none .udec [.fieldAddr (.addrGlob "rcu_gp") "futex", .cst "CMM_RELAXED" (0)]
def stB (qa : String) (master : Stmt) : Stmt :=
  .ifte (.bin .ge (.var "wait_loops") (.cst qa (100))) (block [stDec, (.call none [] [] master)]) (.skip)
def stFirst : Stmt := .prim (some "_t2") (.ext "cds_list_for_each_entry_safe.first") [.var "input_readers"]
def stEmpty : Stmt := .prim (some "_t5") (.ext "cds_list_empty") [.var "input_readers"]
def stReset : Stmt := .prim none .ustore [.fieldAddr (.addrGlob "rcu_gp") "futex", .lit 0, .cst "CMM_RELAXED" (0)]
def stRelock : Stmt :=
  block [(.prim none (.ext "mutex_unlock") [.addrGlob "rcu_registry_lock"]), (.prim none .relax []),
    (.prim none (.ext "mutex_lock") [.addrGlob "rcu_registry_lock"])]
def stTail (qa : String) (master waitgp : Stmt) : Stmt :=
  .ifte (.var "_t5")
    (block [(.ifte (.bin .ge (.var "wait_loops") (.cst qa (100))) (block [(.call none [] [] master), stReset]) (.skip)),
      (.brk)])
    (.ifte (.bin .ge (.var "wait_loops") (.cst qa (100))) (.call none [] [] waitgp) stRelock)

def wfrBody (qa : String) (master waitgp : Stmt) : Stmt :=
  block [stA qa, stB qa master, stFirst, (.loop scanBody), stEmpty, stTail qa master waitgp]

def wfrT (qa : String) (master waitgp : Stmt) : Stmt :=
  block [(.assign "wait_loops" (.lit 0)), (.loop (wfrBody qa master waitgp))]

open Lean.Parser.Tactic in
/-- run the checker on a closed event list -/
macro "abs_simp" "[" ts:simpLemma,* "]" : tactic =>
  `(tactic| simp [Ok_cons, Ok_nil_iff, absEv, absExt, inList, curOK, masterAct, lrun, lstep, registry, curSnap, qsr, gpCtr,
      gpFutex, regLock, mem_rm, $ts,*])

/-! ## `urcu_common_reader_state` -/

/-- the function's answer: `URCU_READER_INACTIVE` = 2, `URCU_READER_ACTIVE_CURRENT` = 0, `URCU_READER_ACTIVE_OLD` = 1 -/
def cls (g : Bool) (w : Int) : Int := if (decW w).1 = 0 then 2 else if (decW w).2 = g then 0 else 1

theorem rs_call_cons (fuel : Nat) (env : Env) (w : Int) (rest : List Val) (j : Nat) (gv : Val) (g : Bool)
    (hi : env.vars "index" = some (.ptr (.obj j))) (hg : env.vars "group" = some gv)
    (hp : env.priv gpCtr = some (.int (encGp g))) (hw : 0 ≤ w) :
    exec fuel rsCall env (.int w :: rest) =
      .ok { events := [.ld (.field (.obj j) "ctr") (.int w) 0], env := env.setVar "_t3" (.int (cls g w)), inp := rest,
            ctl := .normal } := by
  simp only [gpCtr] at hp
  obtain ⟨n, rfl⟩ := Int.eq_ofNat_of_zero_le hw
  by_cases h0 : n % 4294967296 = 0
  · simp [rsCall, «urcu_common_reader_state», block, exec, eval, evalArgs, execPrim, bind, Except.bind, asLoc, Env.setVar,
      bindParams, setDst, evalUn, Val.truthy, hi, hg, hp, band_mask, bxor_gp, band_phase, hw, cls, decW, h0]
  · have h0' : ¬ ((n:Int) % 4294967296 = 0) := by omega
    by_cases h1 : n.testBit 32 = g <;>
    simp [rsCall, «urcu_common_reader_state», block, exec, eval, evalArgs, execPrim, bind, Except.bind, asLoc, Env.setVar,
        bindParams, setDst, evalUn, Val.truthy, hi, hg, hp, band_mask, bxor_gp, band_phase, hw, cls, decW, h0, h0', h1]

theorem rs_call_nil (fuel : Nat) (env : Env) (j : Nat) (gv : Val)
    (hi : env.vars "index" = some (.ptr (.obj j))) (hg : env.vars "group" = some gv) :
    exec fuel rsCall env [] =
      .ok { events := [], env := { vars := bindParams ["gp", "ctr", "group"] [.ptr (.glob "rcu_gp"), .ptr (.field (.obj j) "ctr"), gv],
                                   priv := env.priv }, inp := [], ctl := .blocked } := by
  simp [rsCall, «urcu_common_reader_state», block, exec, eval, evalArgs, execPrim, bind, Except.bind, asLoc, Env.setVar,
      bindParams, setDst, evalUn, Val.truthy, hi, hg]

/-- a word that is not a non-negative integer makes the IR fail (bitwise operators are defined on non-negative integers
only): such oracles are outside every theorem about `.ok` runs -/
theorem rs_call_err (fuel : Nat) (env : Env) (v : Val) (rest : List Val) (j : Nat) (gv : Val)
    (hi : env.vars "index" = some (.ptr (.obj j))) (hg : env.vars "group" = some gv)
    (hv : ∀ w, v = .int w → w < 0) (out : Out) : exec fuel rsCall env (v :: rest) ≠ .ok out := by
  cases v with
  | ptr l =>
    simp [rsCall, «urcu_common_reader_state», block, exec, eval, evalArgs, execPrim, bind, Except.bind, asLoc, Env.setVar,
      bindParams, setDst, evalUn, Val.truthy, hi, hg, evalBin]
  | int w =>
    have := hv w rfl
    have h2 : ¬ (0 ≤ w) := by omega
    simp [rsCall, «urcu_common_reader_state», block, exec, eval, evalArgs, execPrim, bind, Except.bind, asLoc, Env.setVar,
      bindParams, setDst, evalUn, Val.truthy, hi, hg, evalBin, h2]

/-! ## the switch -/

theorem switch_old (n : Nat) (env : Env) (inp : List Val) (h4 : env.vars "_t4" = some (.int 1)) :
    exec (n+1) scanSwitch env inp = .ok { events := [], env := env, inp := inp, ctl := .normal } := by
  exec_simp [scanSwitch, h4]

theorem switch_move (n : Nat) (env : Env) (inp : List Val) (c : Int) (k : Nat) (csv : Val)
    (hc : c = 0 ∨ c = 2) (h4 : env.vars "_t4" = some (.int c)) (hi : env.vars "index" = some (.ptr (.obj k)))
    (hcs : env.vars "cur_snap_readers" = some csv) (hcsv : csv = .ptr curSnap ∨ csv = .int 0)
    (hq : env.vars "qsreaders" = some (.ptr qsr)) :
    exec (n+1) scanSwitch env inp =
      match inp with
      | [] => .ok { events := [], env := env, inp := [], ctl := .blocked }
      | r :: rest => .ok { events := [.ext "cds_list_move" [.ptr (.field (.obj k) "node"),
                              .ptr (if c = 0 ∧ csv = .ptr curSnap then curSnap else qsr)] r],
                           env := env, inp := rest, ctl := .normal } := by
  rcases hc with rfl | rfl <;> rcases hcsv with rfl | rfl <;> cases inp <;>
    exec_simp [scanSwitch, mvSnap, mvQs, h4, hi, hcs, hq]

/-! ## invariants -/

/-- the two ways `wait_for_readers` is called: pass 1 `(&registry, &cur_snap_readers, &qsreaders)` at pc `p1`, pass 2
`(&cur_snap_readers, NULL, &qsreaders)` at pc `p2` -/
def Pass (upc : Gp.UPc) (hd : Loc) (csv : Val) : Prop :=
  (upc = .p1 ∧ hd = registry ∧ csv = .ptr curSnap) ∨ (upc = .p2 ∧ hd = curSnap ∧ csv = .int 0)

/-- the input list of the current pass -/
def inputOf (ls : LState) : List Nat := if ls.upc = .p1 then ls.inp else ls.snap

structure Ctx where
  hd : Loc          -- `input_readers`
  csv : Val         -- `cur_snap_readers`
  gv : Val          -- `group`
  g : Bool          -- phase of `rcu_gp.ctr`
  upc : Gp.UPc
  MPre : (Loc → Option Val) → Prop   -- what `smp_mb_master` needs of the private view (configuration globals)

/-- invariant of the retry loop of `wait_for_readers` -/
def IterInv (c : Ctx) (env : Env) (ss : SS) : Prop :=
  env.vars "input_readers" = some (.ptr c.hd) ∧ env.vars "cur_snap_readers" = some c.csv ∧
  env.vars "qsreaders" = some (.ptr qsr) ∧ env.vars "group" = some c.gv ∧ (∃ k : Int, env.vars "wait_loops" = some (.int k)) ∧
  env.priv gpCtr = some (.int (encGp c.g)) ∧ c.MPre env.priv ∧
  Pass c.upc c.hd c.csv ∧ ss.ls.upc = c.upc ∧ ss.ls.gp = c.g ∧ ss.pend = none

/-- invariant of the list iteration: `_t2` (the cursor) is NULL or a member of the input list -/
def ScanInv (c : Ctx) (env : Env) (ss : SS) : Prop :=
  IterInv c env ss ∧ ∃ cur, env.vars "_t2" = some cur ∧ curOK (inputOf ss.ls) none cur = true

theorem inList_of_pass {c : Ctx} {env ss} (h : IterInv c env ss) : inList ss.ls c.hd = some (inputOf ss.ls) := by
  obtain ⟨_, _, _, _, _, _, _, hp, hu, _, _⟩ := h
  rcases hp with ⟨h1, h2, _⟩ | ⟨h1, h2, _⟩ <;> simp [inList, inputOf, hu, h1, h2, registry, curSnap]

def ScanPost (c : Ctx) : Post := fun ctl env ss _ =>
  match ctl with
  | .normal => ScanInv c env ss
  | .brk => IterInv c env ss
  | .blocked => True
  | _ => False

theorem curOK_rm (l : List Nat) (k : Nat) (r : Val) (h : curOK l (some k) r = true) : curOK (rm k l) none r = true := by
  cases r with
  | int z => simpa [curOK] using h
  | ptr p =>
    cases p <;> simp_all [curOK, mem_rm]
    intro hh; exact h.2 hh.symm

theorem curOK_weaken (l : List Nat) (k : Nat) (r : Val) (h : curOK l (some k) r = true) : curOK l none r = true := by
  cases r with
  | int z => simpa [curOK] using h
  | ptr p => cases p <;> simp_all [curOK]

set_option maxHeartbeats 1600000 in
theorem scanRest_holds (trk : Bool) (n : Nat) (c : Ctx) (env : Env) (inp : List Val) (ss : SS) (wins : Wins) (k : Nat) (r : Val)
    (hit : IterInv c env ss) (hi : env.vars "index" = some (.ptr (.obj k))) (hk : k ∈ inputOf ss.ls)
    (h2 : env.vars "_t2" = some r) (hr : curOK (inputOf ss.ls) (some k) r = true) :
    Holds trk (exec (n+1) scanRest env inp) ss wins (ScanPost c) := by
  intro out ho
  have hil := inList_of_pass hit
  obtain ⟨hin, hcs, hq, hg, ⟨wl, hwl⟩, hp, hm, hpass, hupc, hgp, hpend⟩ := hit
  have hcsv : c.csv = .ptr curSnap ∨ c.csv = .int 0 := by rcases hpass with ⟨_, _, h⟩ | ⟨_, _, h⟩ <;> simp [h]
  simp only [scanRest, block] at ho
  exec_simp_at ho [h2]
  cases inp with
  | nil =>
    rw [rs_call_nil (n+1) _ k c.gv (by simp [hi]) (by simp [hg])] at ho
    simp at ho; subst ho
    simp [Ok_nil_iff, ScanPost]
  | cons v rest2 =>
    by_cases hv : ∀ w, v = .int w → w < 0
    · generalize hrs : exec (n + 1) rsCall _ (v :: rest2) = R at ho
      cases R with
      | error m => simp at ho
      | ok o => exact absurd hrs (rs_call_err (n+1) _ v rest2 k c.gv (by simp [hi]) (by simp [hg]) hv o)
    · have : ∃ w, v = .int w ∧ 0 ≤ w := by
        cases v with
        | int w => exact ⟨w, rfl, by
            apply Classical.byContradiction; intro hh; apply hv; intro w' hw'; cases hw'; omega⟩
        | ptr l => exact absurd (by intro w hw; cases hw) hv
      obtain ⟨w, rfl, hw⟩ := this
      rw [rs_call_cons (n+1) _ w rest2 k c.gv c.g (by simp [hi]) (by simp [hg]) (by simpa using hp) hw] at ho
      exec_simp_at ho []
      obtain ⟨⟨upc, gp, reg, inpl, snap, qs⟩, pend⟩ := ss
      simp only at hupc hgp hpend hk hr hil
      subst hpend
      simp only [gpCtr] at hp
      have hw' : ¬ (w < 0) := by omega
      by_cases h0 : (decW w).1 = 0
      · -- INACTIVE
        have hc2 : cls c.g w = 2 := by simp [cls, h0]
        rw [switch_move n _ rest2 (cls c.g w) k c.csv (Or.inr hc2) (by simp) (by simp [hi]) (by simp [hcs]) hcsv
          (by simp [hq])] at ho
        rcases hpass with ⟨hu, hh, hc⟩ | ⟨hu, hh, hc⟩ <;> cases rest2 <;> simp [hc2] at ho <;> subst ho <;>
          simp [inputOf, hupc, hu] at hk hr ⊢ <;>
          abs_simp [hw', hupc, hu, h0, hk, ScanPost, ScanInv, IterInv, hc, hh, hin, hcs, hq, hg, hwl, hp, hm, Pass, hgp, h2, inputOf,
            curOK_rm _ _ _ hr] <;>
          (try (have := curOK_rm _ _ _ hr; simpa [curOK, mem_rm] using this))
      · by_cases h1 : (decW w).2 = c.g
        · -- ACTIVE_CURRENT
          have hc0 : cls c.g w = 0 := by simp [cls, h0, h1]
          have h0' : 0 < (decW w).1 := by omega
          rw [switch_move n _ rest2 (cls c.g w) k c.csv (Or.inl hc0) (by simp) (by simp [hi]) (by simp [hcs]) hcsv
            (by simp [hq])] at ho
          rcases hpass with ⟨hu, hh, hc⟩ | ⟨hu, hh, hc⟩ <;> cases rest2 <;> simp [hc0, hc] at ho <;> subst ho <;>
            simp [inputOf, hupc, hu] at hk hr ⊢ <;>
            abs_simp [hw', hupc, hu, h0, h0', h1, hk, ScanPost, ScanInv, IterInv, hc, hh, hin, hcs, hq, hg, hwl, hp, hm, Pass, hgp,
              h2, inputOf, curOK_rm _ _ _ hr] <;>
            (try (have := curOK_rm _ _ _ hr; simpa [curOK, mem_rm] using this))
        · -- ACTIVE_OLD
          have hc1 : cls c.g w = 1 := by simp [cls, h0, h1]
          rw [switch_old n _ rest2 (by simp [hc1])] at ho
          simp at ho; subst ho
          rcases hpass with ⟨hu, hh, hc⟩ | ⟨hu, hh, hc⟩ <;>
            simp [inputOf, hupc, hu] at hk hr ⊢ <;>
            abs_simp [hw', hupc, hu, h0, h1, hk, ScanPost, ScanInv, IterInv, hc, hh, hin, hcs, hq, hg, hwl, hp, hm, Pass, hgp,
              h2, inputOf] <;>
            (try (have := curOK_weaken _ _ _ hr; simpa [curOK, mem_rm] using this))

set_option maxHeartbeats 1600000 in
theorem scanBody_holds (trk : Bool) (n : Nat) (c : Ctx) (env : Env) (inp : List Val) (ss : SS) (wins : Wins)
    (hI : ScanInv c env ss) : Holds trk (exec (n+1) scanBody env inp) ss wins (ScanPost c) := by
  intro out ho
  obtain ⟨hit, cur, h2, hcur⟩ := hI
  have hil := inList_of_pass hit
  obtain ⟨hin, hcs, hq, hg, ⟨wl, hwl⟩, hp, hm, hpass, hupc, hgp, hpend⟩ := hit
  have hcsv : c.csv = .ptr curSnap ∨ c.csv = .int 0 := by rcases hpass with ⟨_, _, h⟩ | ⟨_, _, h⟩ <;> simp [h]
  simp only [scanBody, block] at ho
  cases cur with
  | int z =>
    have hz : z = 0 := by simpa [curOK] using hcur
    subst hz
    exec_simp_at ho [h2]
    subst ho
    simp only [Ok_nil_iff, ScanPost]
    exact ⟨hin, hcs, hq, hg, ⟨wl, by simpa using hwl⟩, hp, hm, hpass, hupc, hgp, hpend⟩
  | ptr l =>
    cases l with
    | obj k =>
      have hk : k ∈ inputOf ss.ls := by simpa [curOK] using hcur
      cases inp with
      | nil => exec_simp_at ho [h2, hin]; subst ho; simp [Ok_nil_iff, ScanPost]
      | cons r rest =>
        exec_simp_at ho [h2, hin]
        generalize hR : exec (n + 1) scanRest _ rest = R at ho
        cases R with
        | error m => simp at ho
        | ok o2 =>
          simp at ho; subst ho
          dsimp only
          by_cases hr : curOK (inputOf ss.ls) (some k) r = true
          · have := fun h1 h2 h3 h4 h5 => scanRest_holds trk n c _ rest ss wins k r h1 h2 h3 h4 h5 o2 hR
            have := this
              ⟨by simp [hin], by simp [hcs], by simp [hq], by simp [hg], ⟨wl, by simp [hwl]⟩, hp, hm, hpass, hupc, hgp, hpend⟩
              (by simp) hk (by simp) hr
            simp only [Ok_cons, absEv, absExt]
            simp [hil, hpend, hr, lrun]
            have hss : ({ ls := ss.ls, pend := none } : SS) = ss := by cases ss; simp_all
            rw [hss]; exact this
          · simp [Ok_cons, absEv, absExt, hil, hpend, hr]
    | _ => simp [curOK] at hcur

/-- the list iteration: from a valid cursor, every event is accepted and the loop ends with the retry-loop invariant -/
def ScanLoopPost (c : Ctx) : Post := fun ctl env ss _ =>
  match ctl with
  | .normal => IterInv c env ss
  | .blocked | .fuel => True
  | _ => False

theorem scanLoop_holds (trk : Bool) (n : Nat) (c : Ctx) (env : Env) (inp : List Val) (ss : SS) (wins : Wins)
    (hI : ScanInv c env ss) : Holds trk (exec (n+1) (.loop scanBody) env inp) ss wins (ScanLoopPost c) := by
  simp only [exec]
  refine Holds.loop _ (fun e s _ => ScanInv c e s) (ScanPost c) (ScanLoopPost c)
    (fun e i s w h => scanBody_holds trk n c e i s w h) ?_ ?_ ?_ ?_ ?_ (n+1) env inp ss wins hI
  · intro e s w h; exact h
  · intro e s w h; exact h.elim
  · intro e s w h; exact h
  · intro ctl e s w h1 h2 h3 h; cases ctl <;> simp_all [ScanPost, ScanLoopPost]
  · intro e s w h; trivial

