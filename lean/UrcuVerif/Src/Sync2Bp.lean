import UrcuVerif.Src.Sync2Refine
/-!
# bp flavor: `smp_mb_master`, `urcu_bp_reader_state`, the scan loop and `wait_for_readers` refine `Gp/Flip.lean`

Same structure as `Src/SyncScan.lean` / `Src/SyncGp.lean` (memb / mb), for the generated values `«bp.smp_mb_master»`,
`«urcu_bp_reader_state»` and `«bp.wait_for_readers»` (`bp_wfr_eq : «bp.wait_for_readers» = wfrBp := rfl`, a divergence of
the regenerated text breaks that line).  Differences of the C text: the reader state function takes no `gp` (it reads
`urcu_bp_gp.ctr`) and answers INACTIVE for a NULL `ctr` (never the case here: `&index->ctr`); there is no futex (no
`uatomic_dec(&gp.futex)`, no master barrier inside the retry loop, no `wait_gp`): the retry path is
`mutex_unlock(&rcu_registry_lock); poll(NULL, 0, 10) or caa_cpu_relax(); mutex_lock(&rcu_registry_lock)` – ONE window.
-/
set_option maxRecDepth 8192
set_option linter.unusedSimpArgs false
set_option linter.unusedVariables false
namespace UrcuVerif.Src.Sync2
open UrcuVerif UrcuVerif.Src UrcuVerif.Gen.Src UrcuVerif.Src.Sync

/-! ## the template -/

def rsCall : Stmt :=
  .call (some "_t3") ["ctr", "group"] [.fieldAddr (.var "index") "ctr", .var "group"] «urcu_bp_reader_state»

/-- the `switch` on the reader state (rendered as a loop that is left by `break`) -/
def scanSwitch : Stmt :=
  .loop (block [
    (.ifte (.bin .eq (.var "_t4") (.cst "URCU_BP_READER_ACTIVE_CURRENT" (0)))
      (block [(.ifte (.var "cur_snap_readers") (block [mvSnap, (.brk)]) (.skip)), mvQs, (.brk)])
      (.ifte (.bin .eq (.var "_t4") (.cst "URCU_BP_READER_INACTIVE" (2))) (block [mvQs, (.brk)])
        (.ifte (.bin .eq (.var "_t4") (.cst "URCU_BP_READER_ACTIVE_OLD" (1))) (.brk) (.skip)))),
    (.brk)])

/-- body of `cds_list_for_each_entry_safe(index, tmp, input_readers, node)` -/
def scanRest : Stmt := block [(.assign "tmp" (.var "_t2")), rsCall, (.assign "_t4" (.var "_t3")), scanSwitch]
def scanBody : Stmt :=
  block [(.assign "index" (.var "_t2")),
    (.ifte (.var "index") (.skip) (.brk)),
    (.prim (some "_t2") (.ext "cds_list_for_each_entry_safe.next") ([.var "input_readers"] ++ [.var "index"])),
    scanRest]

def qaBp : String := "bp.RCU_QS_ACTIVE_ATTEMPTS"
def stUnlock : Stmt := .prim none (.ext "mutex_unlock") [.addrGlob "rcu_registry_lock"]
def stLock : Stmt := .prim none (.ext "mutex_lock") [.addrGlob "rcu_registry_lock"]
/-- `if (wait_loops >= RCU_QS_ACTIVE_ATTEMPTS) (void) poll(NULL, 0, RCU_SLEEP_DELAY_MS); else caa_cpu_relax();` -/
def stSleep : Stmt :=
  .ifte (.bin .ge (.var "wait_loops") (.cst "bp.RCU_QS_ACTIVE_ATTEMPTS" (100)))
    (.prim none (.ext "poll") [.null, .lit 0, .cst "bp.RCU_SLEEP_DELAY_MS" (10)]) (.prim none .relax [])
def stTail : Stmt := .ifte (.var "_t5") (.brk) (block [stUnlock, stSleep, stLock])

def wfrBody : Stmt := block [stA "bp.RCU_QS_ACTIVE_ATTEMPTS", stFirst, (.loop scanBody), stEmpty, stTail]

def wfrBp : Stmt := block [(.assign "wait_loops" (.lit 0)), (.loop wfrBody)]

theorem bp_wfr_eq : «bp.wait_for_readers» = wfrBp := rfl

open Lean.Parser.Tactic in
/-- run the checker on a closed event list -/
macro "abs_simp2" "[" ts:simpLemma,* "]" : tactic =>
  `(tactic| simp [Ok_cons, Ok_nil_iff, absEv, absExt, inList, curOK, masterAct, lrun, lstep, registry, curSnap, qsr, gpCtr,
      regLock, mem_rm, $ts,*])

/-! ## `urcu_bp_reader_state` -/

theorem eq_null (l : Loc) : evalBin .eq (.ptr l) (.int 0) = .ok (.int 0) := by simp [evalBin, boolV]

theorem rs_call_cons (fuel : Nat) (env : Env) (w : Int) (rest : List Val) (j : Nat) (gv : Val) (g : Bool)
    (hi : env.vars "index" = some (.ptr (.obj j))) (hg : env.vars "group" = some gv)
    (hp : env.priv gpCtr = some (.int (encGp g))) (hw : 0 ≤ w) :
    exec fuel rsCall env (.int w :: rest) =
      .ok { events := [.ld (.field (.obj j) "ctr") (.int w) 0], env := env.setVar "_t3" (.int (cls g w)), inp := rest,
            ctl := .normal } := by
  simp only [gpCtr] at hp
  obtain ⟨n, rfl⟩ := Int.eq_ofNat_of_zero_le hw
  by_cases h0 : n % 4294967296 = 0
  · simp [rsCall, «urcu_bp_reader_state», block, exec, eval, evalArgs, execPrim, bind, Except.bind, asLoc, Env.setVar,
      bindParams, setDst, evalUn, Val.truthy, eq_null, hi, hg, hp, band_mask, bxor_gp, band_phase, hw, cls, decW, h0]
  · have h0' : ¬ ((n:Int) % 4294967296 = 0) := by omega
    by_cases h1 : n.testBit 32 = g <;>
    simp [rsCall, «urcu_bp_reader_state», block, exec, eval, evalArgs, execPrim, bind, Except.bind, asLoc, Env.setVar,
        bindParams, setDst, evalUn, Val.truthy, eq_null, hi, hg, hp, band_mask, bxor_gp, band_phase, hw, cls, decW, h0, h0', h1]

theorem rs_call_nil (fuel : Nat) (env : Env) (j : Nat) (gv : Val)
    (hi : env.vars "index" = some (.ptr (.obj j))) (hg : env.vars "group" = some gv) :
    exec fuel rsCall env [] =
      .ok { events := [], env := { vars := bindParams ["ctr", "group"] [.ptr (.field (.obj j) "ctr"), gv],
                                   priv := env.priv }, inp := [], ctl := .blocked } := by
  simp [rsCall, «urcu_bp_reader_state», block, exec, eval, evalArgs, execPrim, bind, Except.bind, asLoc, Env.setVar,
      bindParams, setDst, evalUn, Val.truthy, eq_null, hi, hg]

/-- a word that is not a non-negative integer makes the IR fail (bitwise operators are defined on non-negative integers
only): such oracles are outside every theorem about `.ok` runs -/
theorem rs_call_err (fuel : Nat) (env : Env) (v : Val) (rest : List Val) (j : Nat) (gv : Val)
    (hi : env.vars "index" = some (.ptr (.obj j))) (hg : env.vars "group" = some gv)
    (hv : ∀ w, v = .int w → w < 0) (out : Out) : exec fuel rsCall env (v :: rest) ≠ .ok out := by
  cases v with
  | ptr l =>
    simp [rsCall, «urcu_bp_reader_state», block, exec, eval, evalArgs, execPrim, bind, Except.bind, asLoc, Env.setVar,
      bindParams, setDst, evalUn, Val.truthy, eq_null, hi, hg, evalBin, boolV]
  | int w =>
    have := hv w rfl
    have h2 : ¬ (0 ≤ w) := by omega
    simp [rsCall, «urcu_bp_reader_state», block, exec, eval, evalArgs, execPrim, bind, Except.bind, asLoc, Env.setVar,
      bindParams, setDst, evalUn, Val.truthy, eq_null, hi, hg, evalBin, boolV, h2]

/-- `urcu_bp_reader_state(ctr, group)` on its own (`ctr` non-NULL): ONE load of `*ctr` (relaxed), and the answer is L2's scan
guard on the loaded word `(nest, ph) = decW w` against the phase `g` of the plain-read `urcu_bp_gp.ctr`: INACTIVE (2) iff
`nest = 0`, ACTIVE_CURRENT (0) iff `0 < nest ∧ ph = g`, ACTIVE_OLD (1) otherwise (`Sync.cls`, the same function as for
`urcu_common_reader_state`) -/
theorem reader_state_exec (fuel : Nat) (env : Env) (C : Loc) (g : Bool) (w : Int) (rest : List Val)
    (hc : env.vars "ctr" = some (.ptr C)) (hp : env.priv gpCtr = some (.int (encGp g))) (hw : 0 ≤ w) :
    ∃ out, exec fuel «urcu_bp_reader_state» env (.int w :: rest) = .ok out ∧
      out.events = [.ld C (.int w) 0] ∧ out.ctl = .ret (some (.int (cls g w))) ∧ out.inp = rest ∧
      out.env.priv = env.priv := by
  simp only [gpCtr] at hp
  obtain ⟨n, rfl⟩ := Int.eq_ofNat_of_zero_le hw
  by_cases h0 : n % 4294967296 = 0
  · simp [«urcu_bp_reader_state», block, exec, eval, evalArgs, execPrim, bind, Except.bind, asLoc, Env.setVar,
      bindParams, setDst, evalUn, Val.truthy, eq_null, hc, hp, band_mask, bxor_gp, band_phase, hw, cls, decW, h0]
  · have h0' : ¬ ((n:Int) % 4294967296 = 0) := by omega
    by_cases h1 : n.testBit 32 = g <;>
    simp [«urcu_bp_reader_state», block, exec, eval, evalArgs, execPrim, bind, Except.bind, asLoc, Env.setVar,
        bindParams, setDst, evalUn, Val.truthy, eq_null, hc, hp, band_mask, bxor_gp, band_phase, hw, cls, decW, h0, h0', h1]

/-- the NULL case of the C text (never taken by `wait_for_readers`, which passes `&index->ctr`): no event, INACTIVE -/
theorem reader_state_null (fuel : Nat) (env : Env) (inp : List Val) (hc : env.vars "ctr" = some (.int 0)) :
    exec fuel «urcu_bp_reader_state» env inp = .ok { events := [], env := env, inp := inp, ctl := .ret (some (.int 2)) } := by
  simp [«urcu_bp_reader_state», block, exec, eval, bind, Except.bind, evalBin, boolV, Val.truthy, hc]

theorem reader_state_blocked (fuel : Nat) (env : Env) (C : Loc) (hc : env.vars "ctr" = some (.ptr C)) :
    ∃ out, exec fuel «urcu_bp_reader_state» env [] = .ok out ∧ out.events = [] ∧ out.ctl = .blocked := by
  simp [«urcu_bp_reader_state», block, exec, eval, evalArgs, execPrim, bind, Except.bind, asLoc, eq_null, Val.truthy, hc]

/-! ## the switch -/

theorem switch_old (n : Nat) (env : Env) (inp : List Val) (h4 : env.vars "_t4" = some (.int 1)) :
    exec (n+1) scanSwitch env inp = .ok { events := [], env := env, inp := inp, ctl := .normal } := by
  exec_simp [scanSwitch, h4]

theorem switch_move (n : Nat) (env : Env) (inp : List Val) (c : Int) (k : Nat) (csv : Val)
    (hc : c = 0 ∨ c = 2) (h4 : env.vars "_t4" = some (.int c)) (hi : env.vars "index" = some (.ptr (.obj k)))
    (hcs : env.vars "cur_snap_readers" = some csv) (hcsv : csv = .ptr curSnap ∨ csv = .int 0)
    (hq : env.vars "qsreaders" = some (.ptr qsr)) :
    exec (n+1) scanSwitch env inp =
      match inp with
      | [] => .ok { events := [], env := env, inp := [], ctl := .blocked }
      | r :: rest => .ok { events := [.ext "cds_list_move" [.ptr (.field (.obj k) "node"),
                              .ptr (if c = 0 ∧ csv = .ptr curSnap then curSnap else qsr)] r],
                           env := env, inp := rest, ctl := .normal } := by
  rcases hc with rfl | rfl <;> rcases hcsv with rfl | rfl <;> cases inp <;>
    exec_simp [scanSwitch, mvSnap, mvQs, h4, hi, hcs, hq]

/-! ## invariants -/

/-- invariant of the retry loop of `wait_for_readers` -/
def IterInv (c : Ctx) (env : Env) (ss : SS) : Prop :=
  env.vars "input_readers" = some (.ptr c.hd) ∧ env.vars "cur_snap_readers" = some c.csv ∧
  env.vars "qsreaders" = some (.ptr qsr) ∧ env.vars "group" = some c.gv ∧ (∃ k : Int, env.vars "wait_loops" = some (.int k)) ∧
  env.priv gpCtr = some (.int (encGp c.g)) ∧ c.MPre env.priv ∧
  Pass c.upc c.hd c.csv ∧ ss.ls.upc = c.upc ∧ ss.ls.gp = c.g ∧ ss.pend = none

/-- invariant of the list iteration: `_t2` (the cursor) is NULL or a member of the input list -/
def ScanInv (c : Ctx) (env : Env) (ss : SS) : Prop :=
  IterInv c env ss ∧ ∃ cur, env.vars "_t2" = some cur ∧ curOK (inputOf ss.ls) none cur = true

theorem inList_of_pass {c : Ctx} {env ss} (h : IterInv c env ss) : inList ss.ls c.hd = some (inputOf ss.ls) := by
  obtain ⟨_, _, _, _, _, _, _, hp, hu, _, _⟩ := h
  rcases hp with ⟨h1, h2, _⟩ | ⟨h1, h2, _⟩ <;> simp [inList, inputOf, hu, h1, h2, registry, curSnap]

def ScanPost (c : Ctx) : Post := fun ctl env ss _ =>
  match ctl with
  | .normal => ScanInv c env ss
  | .brk => IterInv c env ss
  | .blocked => True
  | _ => False

theorem curOK_rm (l : List Nat) (k : Nat) (r : Val) (h : curOK l (some k) r = true) : curOK (rm k l) none r = true := by
  cases r with
  | int z => simpa [curOK] using h
  | ptr p =>
    cases p <;> simp_all [curOK, mem_rm]
    intro hh; exact h.2 hh.symm

theorem curOK_weaken (l : List Nat) (k : Nat) (r : Val) (h : curOK l (some k) r = true) : curOK l none r = true := by
  cases r with
  | int z => simpa [curOK] using h
  | ptr p => cases p <;> simp_all [curOK]

set_option maxHeartbeats 1600000 in
theorem scanRest_holds (trk : Bool) (n : Nat) (c : Ctx) (env : Env) (inp : List Val) (ss : SS) (wins : Wins) (k : Nat) (r : Val)
    (hit : IterInv c env ss) (hi : env.vars "index" = some (.ptr (.obj k))) (hk : k ∈ inputOf ss.ls)
    (h2 : env.vars "_t2" = some r) (hr : curOK (inputOf ss.ls) (some k) r = true) :
    Holds trk (exec (n+1) scanRest env inp) ss wins (ScanPost c) := by
  intro out ho
  have hil := inList_of_pass hit
  obtain ⟨hin, hcs, hq, hg, ⟨wl, hwl⟩, hp, hm, hpass, hupc, hgp, hpend⟩ := hit
  have hcsv : c.csv = .ptr curSnap ∨ c.csv = .int 0 := by rcases hpass with ⟨_, _, h⟩ | ⟨_, _, h⟩ <;> simp [h]
  simp only [scanRest, block] at ho
  exec_simp_at ho [h2]
  cases inp with
  | nil =>
    rw [rs_call_nil (n+1) _ k c.gv (by simp [hi]) (by simp [hg])] at ho
    simp at ho; subst ho
    simp [Ok_nil_iff, ScanPost]
  | cons v rest2 =>
    by_cases hv : ∀ w, v = .int w → w < 0
    · generalize hrs : exec (n + 1) rsCall _ (v :: rest2) = R at ho
      cases R with
      | error m => simp at ho
      | ok o => exact absurd hrs (rs_call_err (n+1) _ v rest2 k c.gv (by simp [hi]) (by simp [hg]) hv o)
    · have : ∃ w, v = .int w ∧ 0 ≤ w := by
        cases v with
        | int w => exact ⟨w, rfl, by
            apply Classical.byContradiction; intro hh; apply hv; intro w' hw'; cases hw'; omega⟩
        | ptr l => exact absurd (by intro w hw; cases hw) hv
      obtain ⟨w, rfl, hw⟩ := this
      rw [rs_call_cons (n+1) _ w rest2 k c.gv c.g (by simp [hi]) (by simp [hg]) (by simpa using hp) hw] at ho
      exec_simp_at ho []
      obtain ⟨⟨upc, gp, reg, inpl, snap, qs⟩, pend⟩ := ss
      simp only at hupc hgp hpend hk hr hil
      subst hpend
      simp only [gpCtr] at hp
      have hw' : ¬ (w < 0) := by omega
      by_cases h0 : (decW w).1 = 0
      · -- INACTIVE
        have hc2 : cls c.g w = 2 := by simp [cls, h0]
        rw [switch_move n _ rest2 (cls c.g w) k c.csv (Or.inr hc2) (by simp) (by simp [hi]) (by simp [hcs]) hcsv
          (by simp [hq])] at ho
        rcases hpass with ⟨hu, hh, hc⟩ | ⟨hu, hh, hc⟩ <;> cases rest2 <;> simp [hc2] at ho <;> subst ho <;>
          simp [inputOf, hupc, hu] at hk hr ⊢ <;>
          abs_simp2 [hw', hupc, hu, h0, hk, ScanPost, ScanInv, IterInv, hc, hh, hin, hcs, hq, hg, hwl, hp, hm, Pass, hgp, h2, inputOf,
            curOK_rm _ _ _ hr] <;>
          (try (have := curOK_rm _ _ _ hr; simpa [curOK, mem_rm] using this))
      · by_cases h1 : (decW w).2 = c.g
        · -- ACTIVE_CURRENT
          have hc0 : cls c.g w = 0 := by simp [cls, h0, h1]
          have h0' : 0 < (decW w).1 := by omega
          rw [switch_move n _ rest2 (cls c.g w) k c.csv (Or.inl hc0) (by simp) (by simp [hi]) (by simp [hcs]) hcsv
            (by simp [hq])] at ho
          rcases hpass with ⟨hu, hh, hc⟩ | ⟨hu, hh, hc⟩ <;> cases rest2 <;> simp [hc0, hc] at ho <;> subst ho <;>
            simp [inputOf, hupc, hu] at hk hr ⊢ <;>
            abs_simp2 [hw', hupc, hu, h0, h0', h1, hk, ScanPost, ScanInv, IterInv, hc, hh, hin, hcs, hq, hg, hwl, hp, hm, Pass, hgp,
              h2, inputOf, curOK_rm _ _ _ hr] <;>
            (try (have := curOK_rm _ _ _ hr; simpa [curOK, mem_rm] using this))
        · -- ACTIVE_OLD
          have hc1 : cls c.g w = 1 := by simp [cls, h0, h1]
          rw [switch_old n _ rest2 (by simp [hc1])] at ho
          simp at ho; subst ho
          rcases hpass with ⟨hu, hh, hc⟩ | ⟨hu, hh, hc⟩ <;>
            simp [inputOf, hupc, hu] at hk hr ⊢ <;>
            abs_simp2 [hw', hupc, hu, h0, h1, hk, ScanPost, ScanInv, IterInv, hc, hh, hin, hcs, hq, hg, hwl, hp, hm, Pass, hgp,
              h2, inputOf] <;>
            (try (have := curOK_weaken _ _ _ hr; simpa [curOK, mem_rm] using this))

set_option maxHeartbeats 1600000 in
theorem scanBody_holds (trk : Bool) (n : Nat) (c : Ctx) (env : Env) (inp : List Val) (ss : SS) (wins : Wins)
    (hI : ScanInv c env ss) : Holds trk (exec (n+1) scanBody env inp) ss wins (ScanPost c) := by
  intro out ho
  obtain ⟨hit, cur, h2, hcur⟩ := hI
  have hil := inList_of_pass hit
  obtain ⟨hin, hcs, hq, hg, ⟨wl, hwl⟩, hp, hm, hpass, hupc, hgp, hpend⟩ := hit
  have hcsv : c.csv = .ptr curSnap ∨ c.csv = .int 0 := by rcases hpass with ⟨_, _, h⟩ | ⟨_, _, h⟩ <;> simp [h]
  simp only [scanBody, block] at ho
  cases cur with
  | int z =>
    have hz : z = 0 := by simpa [curOK] using hcur
    subst hz
    exec_simp_at ho [h2]
    subst ho
    simp only [Ok_nil_iff, ScanPost]
    exact ⟨hin, hcs, hq, hg, ⟨wl, by simpa using hwl⟩, hp, hm, hpass, hupc, hgp, hpend⟩
  | ptr l =>
    cases l with
    | obj k =>
      have hk : k ∈ inputOf ss.ls := by simpa [curOK] using hcur
      cases inp with
      | nil => exec_simp_at ho [h2, hin]; subst ho; simp [Ok_nil_iff, ScanPost]
      | cons r rest =>
        exec_simp_at ho [h2, hin]
        generalize hR : exec (n + 1) scanRest _ rest = R at ho
        cases R with
        | error m => simp at ho
        | ok o2 =>
          simp at ho; subst ho
          dsimp only
          by_cases hr : curOK (inputOf ss.ls) (some k) r = true
          · have := fun h1 h2 h3 h4 h5 => scanRest_holds trk n c _ rest ss wins k r h1 h2 h3 h4 h5 o2 hR
            have := this
              ⟨by simp [hin], by simp [hcs], by simp [hq], by simp [hg], ⟨wl, by simp [hwl]⟩, hp, hm, hpass, hupc, hgp, hpend⟩
              (by simp) hk (by simp) hr
            simp only [Ok_cons, absEv, absExt]
            simp [hil, hpend, hr, lrun]
            have hss : ({ ls := ss.ls, pend := none } : SS) = ss := by cases ss; simp_all
            rw [hss]; exact this
          · simp [Ok_cons, absEv, absExt, hil, hpend, hr]
    | _ => simp [curOK] at hcur

/-- the list iteration: from a valid cursor, every event is accepted and the loop ends with the retry-loop invariant -/
def ScanLoopPost (c : Ctx) : Post := fun ctl env ss _ =>
  match ctl with
  | .normal => IterInv c env ss
  | .blocked | .fuel => True
  | _ => False

theorem scanLoop_holds (trk : Bool) (n : Nat) (c : Ctx) (env : Env) (inp : List Val) (ss : SS) (wins : Wins)
    (hI : ScanInv c env ss) : Holds trk (exec (n+1) (.loop scanBody) env inp) ss wins (ScanLoopPost c) := by
  simp only [exec]
  refine Holds.loop _ (fun e s _ => ScanInv c e s) (ScanPost c) (ScanLoopPost c)
    (fun e i s w h => scanBody_holds trk n c e i s w h) ?_ ?_ ?_ ?_ ?_ (n+1) env inp ss wins hI
  · intro e s w h; exact h
  · intro e s w h; exact h.elim
  · intro e s w h; exact h
  · intro ctl e s w h1 h2 h3 h; cases ctl <;> simp_all [ScanPost, ScanLoopPost]
  · intro e s w h; trivial


/-! ## the statements of one retry iteration -/

def StepPost (c : Ctx) : Post := fun ctl env ss _ =>
  match ctl with
  | .normal => IterInv c env ss
  | .blocked | .fuel => True
  | _ => False

theorem IterInv_pass {c : Ctx} {env ss} (h : IterInv c env ss) : ss.ls.upc = .p1 ∨ ss.ls.upc = .p2 := by
  obtain ⟨_, _, _, _, _, _, _, hp, hu, _, _⟩ := h
  rcases hp with ⟨h1, _, _⟩ | ⟨h1, _, _⟩ <;> simp [hu, h1]

theorem stA_holds (trk fuel qa) (c : Ctx) (env inp ss wins) (hI : IterInv c env ss) :
    Holds trk (exec fuel (stA qa) env inp) ss wins (StepPost c) := by
  intro out ho
  obtain ⟨h1, h2, h3, h4, ⟨k, h5⟩, h6, h7, h8, h9, h10, h11⟩ := hI
  by_cases hk : k < 100 <;> exec_simp_at ho [stA, h5, hk] <;> subst ho <;>
    simp [Ok_nil_iff, StepPost, IterInv, *]
theorem IterInv_setVar {c : Ctx} {env : Env} {ss : SS} (x : String) (v : Val) (h : IterInv c env ss)
    (hx : x ≠ "input_readers" ∧ x ≠ "cur_snap_readers" ∧ x ≠ "qsreaders" ∧ x ≠ "group" ∧ x ≠ "wait_loops") :
    IterInv c { vars := fun y => if y = x then some v else env.vars y, priv := env.priv } ss := by
  obtain ⟨h1, h2, h3, h4, ⟨k, h5⟩, h6, h7, h8, h9, h10, h11⟩ := h
  obtain ⟨x1, x2, x3, x4, x5⟩ := hx
  refine ⟨?_, ?_, ?_, ?_, ⟨k, ?_⟩, h6, h7, h8, h9, h10, h11⟩ <;> simp only <;> rw [if_neg (Ne.symm ‹_›)] <;> assumption

theorem IterInv_ss {c : Ctx} {env : Env} {ss ss' : SS} (h : IterInv c env ss) (h1 : ss'.ls.upc = ss.ls.upc)
    (h2 : ss'.ls.gp = ss.ls.gp) (h3 : ss'.pend = ss.pend) : IterInv c env ss' := by
  obtain ⟨a1, a2, a3, a4, a5, a6, a7, a8, a9, a10, a11⟩ := h
  exact ⟨a1, a2, a3, a4, a5, a6, a7, a8, by rw [h1]; exact a9, by rw [h2]; exact a10, by rw [h3]; exact a11⟩

theorem stFirst_holds (trk fuel) (c : Ctx) (env inp ss wins) (hI : IterInv c env ss) :
    Holds trk (exec fuel stFirst env inp) ss wins
      (fun ctl e s _ => match ctl with | .normal => ScanInv c e s | .blocked => True | _ => False) := by
  intro out ho
  have hil := inList_of_pass hI
  have h1 := hI.1
  have h11 := hI.2.2.2.2.2.2.2.2.2.2
  obtain ⟨ls, pend⟩ := ss
  simp only at h11 hil; subst h11
  cases inp with
  | nil => exec_simp_at ho [stFirst, h1]; subst ho; simp [Ok_nil_iff]
  | cons r rest =>
    exec_simp_at ho [stFirst, h1]; subst ho
    have hI2 := IterInv_setVar "_t2" r hI (by decide)
    by_cases hr : curOK (inputOf ls) none r = true
    · simp only [Ok_cons, absEv, absExt]
      simp [hil, hr, lrun, Ok_nil_iff, ScanInv, hI2]
    · simp [Ok_cons, absEv, absExt, hil, hr]

theorem stEmpty_holds (trk fuel) (c : Ctx) (env inp ss wins) (hI : IterInv c env ss) :
    Holds trk (exec fuel stEmpty env inp) ss wins
      (fun ctl e s _ => match ctl with
        | .normal => IterInv c e s ∧ ∃ r, e.vars "_t5" = some r ∧ r.truthy = decide (inputOf s.ls = [])
        | .blocked => True
        | _ => False) := by
  intro out ho
  have hil := inList_of_pass hI
  have hps := IterInv_pass hI
  have h1 := hI.1
  have h11 := hI.2.2.2.2.2.2.2.2.2.2
  obtain ⟨ls, pend⟩ := ss
  simp only at h11 hil hps; subst h11
  have hnidle : ¬ (ls.upc = .idle ∧ c.hd = registry) := by rcases hps with h | h <;> simp [h]
  cases inp with
  | nil => exec_simp_at ho [stEmpty, h1]; subst ho; simp [Ok_nil_iff]
  | cons r rest =>
    exec_simp_at ho [stEmpty, h1]; subst ho
    have hI2 := IterInv_setVar "_t5" r hI (by decide)
    by_cases hr : r.truthy = decide (inputOf ls = [])
    · simp only [Ok_cons, absEv, absExt]
      simp [hil, hr, lrun, Ok_nil_iff, hnidle, hI2]
    · simp [Ok_cons, absEv, absExt, hil, hr, hnidle]

theorem stUnlock_holds (trk fuel) (c : Ctx) (env inp ss wins) (hI : IterInv c env ss) :
    Holds trk (exec fuel stUnlock env inp) ss wins (StepPost c) := by
  intro out ho
  have hI' := hI
  obtain ⟨ls, pend⟩ := ss
  cases inp <;> exec_simp_at ho [stUnlock] <;> subst ho
  · simp [Ok_nil_iff, StepPost]
  · abs_simp2 [StepPost]; exact hI'

/-- the sleep of the retry path (`poll` after `RCU_QS_ACTIVE_ATTEMPTS` attempts, `caa_cpu_relax` before): silent -/
theorem stSleep_holds (trk fuel) (c : Ctx) (env inp ss wins) (hI : IterInv c env ss) :
    Holds trk (exec fuel stSleep env inp) ss wins (StepPost c) := by
  have hI' := hI
  obtain ⟨k, hk⟩ := hI.2.2.2.2.1
  obtain ⟨ls, pend⟩ := ss
  rw [stSleep, exec_ifte _ _ _ _ _ _ _ (eval_ge env _ k hk)]
  by_cases hk100 : k ≥ 100
  · simp only [boolV, hk100, decide_true, if_true, Val.truthy]
    intro out ho
    cases inp <;> exec_simp_at ho [] <;> subst ho
    · simp [Ok_nil_iff, StepPost]
    · abs_simp2 [StepPost]; exact hI'
  · simp only [boolV, hk100, decide_false, Val.truthy]
    intro out ho
    exec_simp_at ho []; subst ho
    abs_simp2 [StepPost]; exact hI'

/-- `mutex_lock(&rcu_registry_lock)`: the window – the other threads' `reg` / `unreg` operations are applied -/
theorem stLock_holds (trk fuel) (c : Ctx) (env inp ss wins) (hI : IterInv c env ss) :
    Holds trk (exec fuel stLock env inp) ss wins (StepPost c) := by
  intro out ho
  obtain ⟨ls, pend⟩ := ss
  obtain ⟨ls', hl1, hl2, hl3⟩ := lrun_env (wins.head?.getD []) ls
  have hI2 : IterInv c env ⟨ls', pend⟩ := IterInv_ss hI hl2 hl3 rfl
  cases inp <;> exec_simp_at ho [stLock] <;> subst ho <;> abs_simp2 [StepPost, hl1, hI, hI2]

/-! ## one retry iteration and the whole `wait_for_readers` -/

/-- postcondition of one retry iteration: `break` only with an empty input list -/
def IterPost (c : Ctx) : Post := fun ctl env ss _ =>
  match ctl with
  | .normal => IterInv c env ss
  | .brk => IterInv c env ss ∧ inputOf ss.ls = []
  | .blocked | .fuel => True
  | _ => False

theorem stTail_holds (trk fuel) (c : Ctx) (env inp ss wins) (hI : IterInv c env ss)
    (r : Val) (h5 : env.vars "_t5" = some r) (hr : r.truthy = decide (inputOf ss.ls = [])) :
    Holds trk (exec fuel stTail env inp) ss wins (IterPost c) := by
  rw [stTail, exec_ifte _ _ _ _ _ _ _ (eval_var env "_t5" r h5)]
  by_cases ht : r.truthy = true
  · have hnil : inputOf ss.ls = [] := by simpa [ht] using hr
    simp only [ht, if_true]
    intro out ho
    simp only [exec, Except.ok.injEq] at ho; subst ho
    simp only [Ok_nil_iff, IterPost]
    exact ⟨hI, hnil⟩
  · simp only [ht, if_false]
    have hnn : ∀ ctl e s w, ctl ≠ .normal → StepPost c ctl e s w → IterPost c ctl e s w := by
      intro ctl e s w hn h; cases ctl <;> simp_all [StepPost, IterPost]
    refine Holds.seq (stUnlock_holds trk fuel c env inp ss wins hI) ?_ hnn
    intro e i s w hq
    refine Holds.seq (stSleep_holds trk fuel c e i s w hq) ?_ hnn
    intro e i s w hq
    refine (stLock_holds trk fuel c e i s w hq).mono ?_
    intro ctl e s w h
    cases ctl <;> simp_all [StepPost, IterPost]

theorem wfrBody_holds (trk n) (c : Ctx) (env inp ss wins) (hI : IterInv c env ss) :
    Holds trk (exec (n+1) wfrBody env inp) ss wins (IterPost c) := by
  have hnn : ∀ ctl e s w, ctl ≠ .normal → StepPost c ctl e s w → IterPost c ctl e s w := by
    intro ctl e s w hn h; cases ctl <;> simp_all [StepPost, IterPost]
  refine Holds.seq (stA_holds trk (n+1) _ c env inp ss wins hI) ?_ hnn
  intro e i s w hq
  refine Holds.seq (stFirst_holds trk (n+1) c e i s w hq) ?_ ?_
  · intro e i s w hq
    refine Holds.seq (scanLoop_holds trk n c e i s w hq) ?_ ?_
    · intro e i s w hq
      refine Holds.seq (stEmpty_holds trk (n+1) c e i s w hq) ?_ ?_
      · intro e i s w hq
        obtain ⟨hq1, r, hq2, hq3⟩ := hq
        exact stTail_holds trk (n+1) c e i s w hq1 r hq2 hq3
      · intro ctl e s w hn h; cases ctl <;> simp_all [IterPost]
    · intro ctl e s w hn h; cases ctl <;> simp_all [ScanLoopPost, IterPost]
  · intro ctl e s w hn h; cases ctl <;> simp_all [IterPost]

/-- what a completed `wait_for_readers` guarantees: the input list is empty (abstractly), the environment is as before
except for `wait_loops`-like locals, the checker is at the same pc and phase -/
def WfrPost (c : Ctx) : Post := fun ctl env ss _ =>
  match ctl with
  | .normal => IterInv c env ss ∧ inputOf ss.ls = []
  | .blocked | .fuel => True
  | _ => False

/-- the hypotheses on a call of `wait_for_readers`: the parameters are bound as `Ctx` says -/
def WfrPre (c : Ctx) (env : Env) (ss : SS) : Prop :=
  env.vars "input_readers" = some (.ptr c.hd) ∧ env.vars "cur_snap_readers" = some c.csv ∧
  env.vars "qsreaders" = some (.ptr qsr) ∧ env.vars "group" = some c.gv ∧
  env.priv gpCtr = some (.int (encGp c.g)) ∧ c.MPre env.priv ∧
  Pass c.upc c.hd c.csv ∧ ss.ls.upc = c.upc ∧ ss.ls.gp = c.g ∧ ss.pend = none

theorem wfrBp_holds (trk fuel) (c : Ctx) (env inp ss wins) (hP : WfrPre c env ss) :
    Holds trk (exec fuel wfrBp env inp) ss wins (WfrPost c) := by
  obtain ⟨h1, h2, h3, h4, h6, h7, h8, h9, h10, h11⟩ := hP
  have hI : IterInv c (env.setVar "wait_loops" (.int 0)) ss :=
    ⟨by simp [Env.setVar, h1], by simp [Env.setVar, h2], by simp [Env.setVar, h3], by simp [Env.setVar, h4],
      ⟨0, by simp [Env.setVar]⟩, h6, h7, h8, h9, h10, h11⟩
  refine Holds.seq (Qa := fun ctl e s w => ctl = .normal ∧ IterInv c e s) ?_ ?_ ?_
  · intro out ho
    exec_simp_at ho []; subst ho
    simp only [Ok_nil_iff, true_and]
    simpa [Env.setVar] using hI
  · intro e i s w hq
    cases fuel with
    | zero =>
      intro out ho
      simp only [block, exec, iterate, Except.ok.injEq] at ho; subst ho
      simp [Ok_nil_iff, WfrPost]
    | succ n =>
      simp only [block, exec]
      refine Holds.loop _ (fun e s _ => IterInv c e s) (IterPost c) (WfrPost c)
        (fun e i s w h => wfrBody_holds trk n c e i s w h) ?_ ?_ ?_ ?_ ?_ (n+1) e i s w hq.2
      · intro e s w h; exact h
      · intro e s w h; exact h.elim
      · intro e s w h; exact h
      · intro ctl e s w h1 h2 h3 h; cases ctl <;> simp_all [IterPost, WfrPost]
      · intro e s w h; trivial
  · intro ctl e s w hn h; exact absurd h.1 hn

theorem bp_wfr_holds (trk fuel) (c : Ctx) (env inp ss wins) (hP : WfrPre c env ss) :
    Holds trk (exec fuel «bp.wait_for_readers» env inp) ss wins (WfrPost c) := by
  rw [bp_wfr_eq]; exact wfrBp_holds trk fuel c env inp ss wins hP

end UrcuVerif.Src.Sync2
