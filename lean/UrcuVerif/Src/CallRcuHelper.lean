import UrcuVerif.Gen.Src
import UrcuVerif.Src.StackExec
import UrcuVerif.Src.CallRcuLocal
import UrcuVerif.Src.CallRcuRefine
/-!
# Generated source IR of `call_rcu_thread` ⊑ thread-local projection of `CallRcu/Model.lean` (helper thread)

This file: the pieces of one iteration of the helper's main loop on the path "non-empty batch"
(`gpBlock` = the statement guarded by `splice_ret != CDS_WFCQ_RET_SRC_EMPTY`: `synchronize_rcu()`, the
`__cds_wfcq_for_each_blocking_safe` iteration that invokes the callbacks, `uatomic_sub(&crdp->qlen, cbcount)`).
The statements are *extracted* from the generated value `Gen.Src.«call_rcu_thread»` (`mainBody`, `gpBlock`, `iterBody`),
not copied.

## Abstraction of events (`absH L C`; `C` = the helper's `struct call_rcu_data`)

* `ld C->flags = n` ↦ `ldFlags n`; `ld C->futex = v` ↦ `ldFutex v`; `st C->futex := 0` ↦ `stFutex0`;
  `uatomic_dec(&C->futex)` ↦ `decFutex`; `uatomic_or/and(&C->flags, m)` ↦ `orFlags m` / `andFlags m`;
  `uatomic_sub(&C->qlen, n)` ↦ `sub n`
* public queue: `ld C->cbs_head.next = v` ↦ `ldHead (v ≠ NULL)`; `ld C->cbs_tail.p = v` ↦ `ldTail (v = &C->cbs_head)`;
  `xchg(&C->cbs_head.next, NULL) = v` ↦ `xchgHead (cb of v)`;
  `xchg(&C->cbs_tail.p, &C->cbs_head) = &H->next` ↦ `splice (L.batch H) (cb H)` – **L2's `hSplice`: the abstract batch
  is not a value of the event (the event returns only the last node); it is `Layout.batch` of the last node – a
  prophecy parameter of the abstraction (an `rcu_head` is queued once, so the batch that ends with it is unique), tied
  to the run by the queue oracle discipline below and by `Obs` (`b = queue h`, `last = b.getLast`)**
* `ext synchronize_rcu` ↦ `gp`; `ext (*func)(fv, H)` ↦ `run (cb H)`; `ext poll` ↦ `poll`;
  `futex_async(&C->futex, FUTEX_WAIT, -1, …) = r` ↦ `futexWait r`; `ext errno = e` ↦ `errno e`
* silent: fences / compiler barriers; `rcu_register_thread`, `rcu_unregister_thread`, `rcu_thread_offline`,
  `rcu_thread_online` (no-ops except in qsbr, where L2 folds the online/offline transitions into the neighbouring labels
  `hTop`, `hPause`, `hUnpause`, `hSplice`, `hGpEnd`, `hStopChk`, `hExitOr` – the `nest` updates of `CallRcu.step`);
  `pthread_mutex_init` (of the private queue head); `CDS_WFCQ_WAIT_SLEEP`; **every access to the helper's private queue**
  `cbs_tmp_head` / `cbs_tmp_tail` and to the `next` words of callback nodes (`privLoc`): L2's `batch h` is an abstract
  list, its traversal has no label
* everything else (`urcu_die`, accesses to other words, ill-typed values) ↦ `bad`, never accepted.

## Queue oracle discipline (`Follows spec inp`)

The wfcqueue operations inside (`___cds_wfcq_splice_blocking`, `___cds_wfcq_first_blocking`,
`___cds_wfcq_next_blocking`) are not re-verified here (their refinement is `Props/SrcQueue.lean`); L2's CallRcu model
abstracts the queue as a list.  The theorems therefore constrain the oracle values *these sub-calls consume* to be those
of a correct queue holding the batch `Hs = [H₁ … H_k]` (`rcu_head` objects) whose links are already published when the
helper traverses them (**settled** discipline: no busy-wait in `___cds_wfcq_node_sync_next`):
`Follows spec inp` = "as far as `inp` goes, its i-th value satisfies `spec[i]`" (so every prefix of a disciplined oracle is
disciplined: preemption anywhere is covered).  Return values of `ext` calls are unconstrained.
-/
set_option linter.unusedSimpArgs false
set_option linter.unusedVariables false
set_option maxRecDepth 8192
namespace UrcuVerif.Src.CallRcuR
open UrcuVerif UrcuVerif.Src UrcuVerif.Gen.Src UrcuVerif.CallRcu UrcuVerif.Src.CallRcuL

/-! ## statements extracted from the generated term -/

def seqNth : Stmt → Nat → Stmt
  | .seq a _, 0 => a
  | .seq _ b, n+1 => seqNth b n
  | s, 0 => s
  | _, _ => .skip

/-- body of the helper's main loop `for (;;)` -/
def mainBody : Stmt := match seqNth «call_rcu_thread» 9 with | .loop b => b | _ => .skip
/-- the statement guarded by `if (splice_ret != CDS_WFCQ_RET_SRC_EMPTY)` -/
def gpBlock : Stmt := match seqNth mainBody 7 with | .ifte _ a _ => a | _ => .skip
/-- body of `__cds_wfcq_for_each_blocking_safe(&cbs_tmp_head, &cbs_tmp_tail, cbs, cbs_tmp_n)` -/
def iterBody : Stmt := match seqNth gpBlock 4 with | .loop b => b | _ => .skip

/-! ## abstraction -/

/-- the queue node of an `rcu_head` -/
abbrev nd (Hd : Loc) : Loc := .field Hd "next"
abbrev tmpH : Loc := .glob "&cbs_tmp_head"
abbrev tmpT : Loc := .glob "&cbs_tmp_tail"

/-- words of the helper's private queue and of callback nodes -/
def privLoc (L : Layout) : Loc → Bool
  | .field (.glob g) f => (g = "&cbs_tmp_head" && f = "next") || (g = "&cbs_tmp_tail" && f = "p")
  | .field (.field Hd f1) f2 => f1 = "next" && f2 = "next" && (L.cb Hd).isSome
  | _ => false

def waitArgs (F : Loc) : List Val := [.ptr F, .int 0, .int (-1), .int 0, .int 0, .int 0]

def silentExt (name : String) : Bool :=
  name = "rcu_register_thread" || name = "rcu_unregister_thread" || name = "rcu_thread_offline" ||
  name = "rcu_thread_online" || name = "pthread_mutex_init" || name = "CDS_WFCQ_WAIT_SLEEP"

def cbOfNode (L : Layout) : Val → Option Nat
  | .ptr (.field Hd f) => if f = "next" then L.cb Hd else none
  | _ => none

def absH (L : Layout) (C : Loc) : Event → List H.LLabel
  | .fence _ => []
  | .ext name args r =>
    if name = "synchronize_rcu" then [.gp]
    else if name = "(*func)" then
      match args with
      | [_, .ptr Hd] => (match L.cb Hd with | some id => [.run id] | none => [.bad])
      | _ => [.bad]
    else if name = "poll" then [.poll]
    else if name = "futex_async" then
      (if args = waitArgs (.field C "futex") then (match r with | .int n => [.futexWait n] | _ => [.bad]) else [.bad])
    else if name = "errno" then (match r with | .int e => [.errno e] | _ => [.bad])
    else if silentExt name then []
    else [.bad]
  | .ld l v _ =>
    if l = .field C "flags" then (match v with | .int n => if 0 ≤ n then [.ldFlags n.toNat] else [.bad] | _ => [.bad])
    else if l = .field C "futex" then (match v with | .int n => [.ldFutex n] | _ => [.bad])
    else if l = .field (.field C "cbs_head") "next" then [.ldHead (v != .int 0)]
    else if l = .field (.field C "cbs_tail") "p" then [.ldTail (v == .ptr (.field C "cbs_head"))]
    else if privLoc L l then []
    else [.bad]
  | .xchg l new old _ =>
    if l = .field (.field C "cbs_head") "next" ∧ new = .int 0 then
      (if old = .int 0 then [.xchgHead none]
       else match cbOfNode L old with | some id => [.xchgHead (some id)] | none => [.bad])
    else if l = .field (.field C "cbs_tail") "p" ∧ new = .ptr (.field C "cbs_head") then
      (match old, cbOfNode L old with
       | .ptr (.field Hl _), some id => [.splice (L.batch Hl) id]
       | _, _ => [.bad])
    else if l = .field tmpT "p" then []
    else [.bad]
  | .st l v _ =>
    if l = .field C "futex" then (if v = .int 0 then [.stFutex0] else [.bad])
    else if privLoc L l then []
    else [.bad]
  | .rmw p l operand _ _ =>
    if l = .field C "futex" then (if p = .udec then [.decFutex] else [.bad])
    else if l = .field C "flags" then
      (match operand with
       | .int n => if 0 ≤ n then (if p = .uor then [.orFlags n.toNat] else if p = .uand then [.andFlags n.toNat] else [.bad])
                   else [.bad]
       | _ => [.bad])
    else if l = .field C "qlen" then
      (match operand with | .int n => if p = .usub then [.sub n] else [.bad] | _ => [.bad])
    else [.bad]
  | .cas .. => [.bad]

/-! ## oracle discipline -/

def Follows : List (Val → Prop) → List Val → Prop
  | [], _ => True
  | _ :: _, [] => True
  | p :: ps, v :: vs => p v ∧ Follows ps vs

def anyV : Val → Prop := fun _ => True

theorem follows_nil (spec) : Follows spec [] := by cases spec <;> trivial

/-- values consumed by the traversal of the private queue from node `H₁` on: for every callback the load of its `next`
word (the next node, or NULL followed by the load of the private tail – which is this node – for the last one) and the
return of the callback -/
def iterSpec : List Loc → List (Val → Prop)
  | [] => []
  | [Hd] => [(· = .int 0), (· = .ptr (nd Hd)), anyV]
  | _ :: Hd' :: t => (· = .ptr (nd Hd')) :: anyV :: iterSpec (Hd' :: t)

/-- the callback ids of a list of `rcu_head` objects -/
def idsOf (L : Layout) (Hs : List Loc) : List Nat := Hs.filterMap L.cb

/-- what the iteration needs of the environment: the layout knows every `rcu_head` of the batch and the helper's private
view holds its `func` member (the plain load `rhp->func`) -/
def HeadsOk (L : Layout) (priv : Loc → Option Val) (Hs : List Loc) : Prop :=
  ∀ Hd ∈ Hs, (∃ id, L.cb Hd = some id) ∧ ∃ fv, priv (.field Hd "func") = some fv

/-- the value of the cursor `_t10` -/
def curOf : List Loc → Val
  | [] => .int 0
  | Hd :: _ => .ptr (nd Hd)

/-! ## the iteration over the private queue -/

/-- the loop-carried part of the environment: cursor `_t10`, counter `cbcount`; `crdp`, `rt` and the private view are
those of the reference environment `env0` (the iteration writes neither) -/
def IterEnv (env : Env) (cur : Val) (c : Nat) (env0 : Env) : Prop :=
  env.vars "_t10" = some cur ∧ env.vars "cbcount" = some (.int c) ∧ env.vars "crdp" = env0.vars "crdp" ∧
  env.vars "rt" = env0.vars "rt" ∧ env.priv = env0.priv

open Lean.Parser.Tactic in
set_option hygiene false in
macro "iter_exec" : tactic => `(tactic| (
  obtain ⟨h1, h2, h3, h4, h5⟩ := hE
  rw [show iterBody = .seq _ (.seq _ (.seq _ (.seq _ (.seq _ (.seq _ (.seq _ (.seq _ _))))))) from rfl]
  sexec [«___cds_wfcq_next_blocking», «___cds_wfcq_next», nd, IterEnv, h5]))

theorem iterBody_end (fuel : Nat) (env env0 : Env) (inp : List Val) (c : Nat) (hE : IterEnv env (.int 0) c env0) :
    ∃ o, exec fuel iterBody env inp = .ok o ∧ o.ctl = .brk ∧ o.inp = inp ∧ o.events = [] ∧
      IterEnv o.env (.int 0) c env0 := by
  iter_exec

theorem iterBody_blk0 (fuel : Nat) (env env0 : Env) (Hd : Loc) (c : Nat) (hE : IterEnv env (.ptr (nd Hd)) c env0) :
    ∃ o, exec fuel iterBody env [] = .ok o ∧ o.ctl = .blocked ∧ o.events = [] := by
  iter_exec

theorem iterBody_blk1 (fuel : Nat) (env env0 : Env) (Hd : Loc) (v : Val) (hv : v ≠ .int 0) (fv : Val) (c : Nat)
    (hE : IterEnv env (.ptr (nd Hd)) c env0) (hf : env0.priv (.field Hd "func") = some fv) :
    ∃ o, exec fuel iterBody env [v] = .ok o ∧ o.ctl = .blocked ∧
      o.events = [.ld (.field (nd Hd) "next") v 1] := by
  iter_exec

theorem iterBody_next (fuel : Nat) (env env0 : Env) (inp : List Val) (Hd : Loc) (v r : Val) (hv : v ≠ .int 0)
    (fv : Val) (c : Nat)
    (hE : IterEnv env (.ptr (nd Hd)) c env0) (hf : env0.priv (.field Hd "func") = some fv) :
    ∃ o, exec fuel iterBody env (v :: r :: inp) = .ok o ∧ o.ctl = .normal ∧ o.inp = inp ∧
      o.events = [.ld (.field (nd Hd) "next") v 1, .ext "(*func)" [fv, .ptr Hd] r] ∧
      IterEnv o.env v (c + 1) env0 := by
  iter_exec

theorem iterBody_blk2 (fuel : Nat) (env env0 : Env) (Hd : Loc) (c : Nat) (hE : IterEnv env (.ptr (nd Hd)) c env0) :
    ∃ o, exec fuel iterBody env [.int 0] = .ok o ∧ o.ctl = .blocked ∧
      o.events = [.ld (.field (nd Hd) "next") (.int 0) 1] := by
  iter_exec

theorem iterBody_blk3 (fuel : Nat) (env env0 : Env) (Hd : Loc) (fv : Val) (c : Nat)
    (hE : IterEnv env (.ptr (nd Hd)) c env0) (hf : env0.priv (.field Hd "func") = some fv) :
    ∃ o, exec fuel iterBody env [.int 0, .ptr (nd Hd)] = .ok o ∧ o.ctl = .blocked ∧
      o.events = [.ld (.field (nd Hd) "next") (.int 0) 1, .ld (.field tmpT "p") (.ptr (nd Hd)) 0] := by
  iter_exec

theorem iterBody_last (fuel : Nat) (env env0 : Env) (inp : List Val) (Hd : Loc) (r : Val) (fv : Val) (c : Nat)
    (hE : IterEnv env (.ptr (nd Hd)) c env0) (hf : env0.priv (.field Hd "func") = some fv) :
    ∃ o, exec fuel iterBody env (.int 0 :: .ptr (nd Hd) :: r :: inp) = .ok o ∧ o.ctl = .normal ∧ o.inp = inp ∧
      o.events = [.ld (.field (nd Hd) "next") (.int 0) 1, .ld (.field tmpT "p") (.ptr (nd Hd)) 0,
        .ext "(*func)" [fv, .ptr Hd] r] ∧
      IterEnv o.env (.int 0) (c + 1) env0 := by
  iter_exec

/-- how the iteration loop ends, against the local state reached -/
def IterPost (L : Layout) (env0 : Env) (rt : Bool) (more : List (Val → Prop)) (c : Nat) (Hs : List Loc)
    (out : Out) (ls' : H.LState) : Prop :=
  ((out.ctl = .blocked ∨ out.ctl = .fuel) ∧ ls'.pc = .inv ∧ ls'.rt = rt) ∨
  (out.ctl = .normal ∧ ls' = ⟨.inv, 0, [], c + Hs.length, rt⟩ ∧ IterEnv out.env (.int 0) (c + Hs.length) env0 ∧
    Follows more out.inp)

theorem iter_loop (L : Layout) (C : Loc) (fuel : Nat) (env0 : Env) (rt : Bool)
    (more : List (Val → Prop)) :
    ∀ (n : Nat) (Hs : List Loc) (env : Env) (inp : List Val) (acc : List Event) (c : Nat),
      HeadsOk L env0.priv Hs → IterEnv env (curOf Hs) c env0 → Follows (iterSpec Hs ++ more) inp →
      ∃ out evs, iterate (exec fuel iterBody) n env inp acc = .ok out ∧ out.events = acc ++ evs ∧
        ∃ ls', H.lrun ⟨.inv, 0, idsOf L Hs, c, rt⟩ (evs.flatMap (absH L C)) = some ls' ∧
          IterPost L env0 rt more c Hs out ls' := by
  intro n
  induction n with
  | zero =>
    intro Hs env inp acc c hH hE hF
    exact ⟨_, [], rfl, by simp, _, rfl, .inl ⟨.inr rfl, rfl, rfl⟩⟩
  | succ n ih =>
    intro Hs env inp acc c hH hE hF
    match Hs, hH, hE, hF with
    | [], hH, hE, hF =>
      obtain ⟨o, ho, hc, hi, he, hE'⟩ := iterBody_end fuel env env0 inp c hE
      rcases o with ⟨oev, oenv, oinp, octl⟩
      simp only [] at hc hi he hE'; subst hc hi he
      refine ⟨_, [], by simp only [iterate, ho, bind, Except.bind]; rfl, by simp, _, rfl, .inr ⟨rfl, rfl, hE', ?_⟩⟩
      simpa [iterSpec] using hF
    | [Hd], hH, hE, hF =>
      obtain ⟨⟨id, hid⟩, fv, hfv⟩ := hH Hd (by simp)
      have hids : idsOf L [Hd] = [id] := by simp [idsOf, hid]
      rw [hids]
      match inp, hF with
      | [], _ =>
        obtain ⟨o, ho, hc, he⟩ := iterBody_blk0 fuel env env0 Hd c hE
        rcases o with ⟨oev, oenv, oinp, octl⟩
        simp only [] at hc he; subst hc he
        refine ⟨_, _, by simp only [iterate, ho, bind, Except.bind]; rfl, rfl, ?_⟩
        simp [H.lrun, IterPost]
      | [v], hF =>
        obtain rfl : v = .int 0 := by simpa [iterSpec, Follows] using hF
        obtain ⟨o, ho, hc, he⟩ := iterBody_blk2 fuel env env0 Hd c hE
        rcases o with ⟨oev, oenv, oinp, octl⟩
        simp only [] at hc he; subst hc he
        refine ⟨_, _, by simp only [iterate, ho, bind, Except.bind]; rfl, rfl, ?_⟩
        simp [absH, privLoc, hid, H.lrun, IterPost]
      | [v, w], hF =>
        obtain ⟨rfl, rfl⟩ : v = .int 0 ∧ w = .ptr (nd Hd) := by simpa [iterSpec, Follows] using hF
        obtain ⟨o, ho, hc, he⟩ := iterBody_blk3 fuel env env0 Hd fv c hE hfv
        rcases o with ⟨oev, oenv, oinp, octl⟩
        simp only [] at hc he; subst hc he
        refine ⟨_, _, by simp only [iterate, ho, bind, Except.bind]; rfl, rfl, ?_⟩
        simp [absH, privLoc, hid, H.lrun, IterPost]
      | v :: w :: r :: rest, hF =>
        obtain ⟨rfl, rfl, hF'⟩ : v = .int 0 ∧ w = .ptr (nd Hd) ∧ Follows more rest := by
          simpa [iterSpec, Follows, anyV] using hF
        obtain ⟨o, ho, hc, hi, he, hE'⟩ := iterBody_last fuel env env0 rest Hd r fv c hE hfv
        rcases o with ⟨oev, oenv, oinp, octl⟩
        simp only [] at hc hi he hE'; subst hc hi
        obtain ⟨out, evs, hit, hev, ls', hl, hp⟩ := ih [] oenv oinp (acc ++ oev) (c + 1) (by simp [HeadsOk]) hE'
          (by simpa [iterSpec] using hF')
        refine ⟨out, oev ++ evs, by simp only [iterate, ho, bind, Except.bind]; exact hit, by simp [hev], ls', ?_, ?_⟩
        · simp [he, List.flatMap_append, H.lrun_append, absH, privLoc, hid, H.lrun, H.lstep, H.lstepAt, idsOf] at hl ⊢
          exact hl
        · simpa [IterPost, Nat.add_assoc] using hp
    | Hd :: Hd' :: t, hH, hE, hF =>
      obtain ⟨⟨id, hid⟩, fv, hfv⟩ := hH Hd (by simp)
      have hids : idsOf L (Hd :: Hd' :: t) = id :: idsOf L (Hd' :: t) := by simp [idsOf, hid, List.filterMap_cons]
      rw [hids]
      have hne : Val.ptr (nd Hd') ≠ .int 0 := by simp
      match inp, hF with
      | [], _ =>
        obtain ⟨o, ho, hc, he⟩ := iterBody_blk0 fuel env env0 Hd c hE
        rcases o with ⟨oev, oenv, oinp, octl⟩
        simp only [] at hc he; subst hc he
        refine ⟨_, _, by simp only [iterate, ho, bind, Except.bind]; rfl, rfl, ?_⟩
        simp [H.lrun, IterPost]
      | [v], hF =>
        obtain rfl : v = .ptr (nd Hd') := by simpa [iterSpec, Follows] using hF
        obtain ⟨o, ho, hc, he⟩ := iterBody_blk1 fuel env env0 Hd _ hne fv c hE hfv
        rcases o with ⟨oev, oenv, oinp, octl⟩
        simp only [] at hc he; subst hc he
        refine ⟨_, _, by simp only [iterate, ho, bind, Except.bind]; rfl, rfl, ?_⟩
        simp [absH, privLoc, hid, H.lrun, IterPost]
      | v :: r :: rest, hF =>
        obtain ⟨rfl, hF'⟩ : v = .ptr (nd Hd') ∧ Follows (iterSpec (Hd' :: t) ++ more) rest := by
          simpa [iterSpec, Follows, anyV] using hF
        obtain ⟨o, ho, hc, hi, he, hE'⟩ := iterBody_next fuel env env0 rest Hd _ r hne fv c hE hfv
        rcases o with ⟨oev, oenv, oinp, octl⟩
        simp only [] at hc hi he hE'; subst hc hi
        obtain ⟨out, evs, hit, hev, ls', hl, hp⟩ := ih (Hd' :: t) oenv oinp (acc ++ oev) (c + 1)
          (fun x hx => hH x (by simp [List.mem_cons] at hx ⊢; exact .inr hx)) hE' hF'
        refine ⟨out, oev ++ evs, by simp only [iterate, ho, bind, Except.bind]; exact hit, by simp [hev], ls', ?_, ?_⟩
        · simp [he, List.flatMap_append, H.lrun_append, absH, privLoc, hid, H.lrun, H.lstep, H.lstepAt] at hl ⊢
          exact hl
        · simp only [IterPost, List.length_cons] at hp ⊢
          rw [show c + (t.length + 1 + 1) = c + 1 + (t.length + 1) by omega]
          exact hp

/-- `iter_loop` in the form used after `generalize hit : iterate … = r` -/
theorem iter_loop' (L : Layout) (C : Loc) (rt : Bool) (more : List (Val → Prop))
    {fuel n : Nat} {env : Env} {inp : List Val} {acc : List Event} {r : Except String Out}
    (hit : iterate (exec fuel iterBody) n env inp acc = r) (env0 : Env) (Hs : List Loc) (c : Nat)
    (hH : HeadsOk L env0.priv Hs) (hE : IterEnv env (curOf Hs) c env0) (hF : Follows (iterSpec Hs ++ more) inp) :
    ∃ out evs, r = .ok out ∧ out.events = acc ++ evs ∧
      ∃ ls', H.lrun ⟨.inv, 0, idsOf L Hs, c, rt⟩ (evs.flatMap (absH L C)) = some ls' ∧
        IterPost L env0 rt more c Hs out ls' := by
  subst hit
  exact iter_loop L C fuel env0 rt more n Hs env inp acc c hH hE hF

/-- `iter_loop'` with the loop's initial environment as the reference environment -/
theorem iter_loop'' (L : Layout) (C : Loc) (rt : Bool) (more : List (Val → Prop))
    {fuel n : Nat} {env : Env} {inp : List Val} {acc : List Event} {r : Except String Out}
    (hit : iterate (exec fuel iterBody) n env inp acc = r) (Hs : List Loc) (c : Nat)
    (hH : HeadsOk L env.priv Hs) (h10 : env.vars "_t10" = some (curOf Hs)) (hcc : env.vars "cbcount" = some (.int c))
    (hF : Follows (iterSpec Hs ++ more) inp) :
    ∃ out evs, r = .ok out ∧ out.events = acc ++ evs ∧
      ∃ ls', H.lrun ⟨.inv, 0, idsOf L Hs, c, rt⟩ (evs.flatMap (absH L C)) = some ls' ∧
        IterPost L env rt more c Hs out ls' :=
  iter_loop' L C rt more hit env Hs c hH ⟨h10, hcc, rfl, rfl, rfl⟩ hF

/-- `___cds_wfcq_first_blocking(head, tail)` on a queue whose first link is published: the two loads of `head->next`
(by `_cds_wfcq_empty` and by `___cds_wfcq_node_sync_next`) -/
theorem first_blocking_settled {fuel : Nat} {env : Env} {r : Except String Out} (v v' : Val) (rest : List Val)
    (Hq Tq : Loc) (hE : exec (fuel + 1) «___cds_wfcq_first_blocking» env (v :: v' :: rest) = r)
    (h1 : env.vars "head" = some (.ptr Hq)) (h2 : env.vars "tail" = some (.ptr Tq))
    (hv : v ≠ .int 0) (hv' : v' ≠ .int 0) :
    ∃ vars, r = .ok ⟨[.ld (.field Hq "next") v 1, .ld (.field Hq "next") v' 1],
      ⟨vars, fun m => if m = .glob "&attempt" then some (.int 0) else env.priv m⟩, rest, .ret (some v')⟩ := by
  subst hE
  sexec [«___cds_wfcq_first_blocking», «___cds_wfcq_first», «_cds_wfcq_empty», «___cds_wfcq_node_sync_next», iterate]

/-- values consumed by `gpBlock` when the private queue holds `Hs = H₁ :: _`: return of `synchronize_rcu()`, the load of
`cbs_tmp_head.next` by `_cds_wfcq_empty`, the same load by `___cds_wfcq_node_sync_next` (both see the first node), the
traversal, the result of `uatomic_sub` -/
def gpSpec : List Loc → List (Val → Prop)
  | [] => []
  | H1 :: t => anyV :: (· = .ptr (nd H1)) :: (· = .ptr (nd H1)) :: (iterSpec (H1 :: t) ++ [anyV])

def GpPost (env : Env) (rt : Bool) (more : List (Val → Prop)) (k : Nat) (out : Out) (ls' : H.LState) : Prop :=
  ((out.ctl = .blocked ∨ out.ctl = .fuel) ∧ (ls'.pc = .gp ∨ ls'.pc = .inv) ∧ ls'.rt = rt) ∨
  (out.ctl = .normal ∧ ls' = ⟨.stopchk, 0, [], k, rt⟩ ∧ out.env.vars "crdp" = env.vars "crdp" ∧
    out.env.vars "rt" = env.vars "rt" ∧ (∀ m, m ≠ .glob "&attempt" → out.env.priv m = env.priv m) ∧
    Follows more out.inp)

theorem gpBlock_refines (L : Layout) (C : Loc) (rt : Bool) (more : List (Val → Prop))
    (fuel : Nat) (env : Env) (inp : List Val) (H1 : Loc) (t : List Loc)
    (hc : env.vars "crdp" = some (.ptr C)) (hH : HeadsOk L env.priv (H1 :: t))
    (hF : Follows (gpSpec (H1 :: t) ++ more) inp) :
    ∃ out, exec fuel gpBlock env inp = .ok out ∧
      ∃ ls', H.lrun ⟨.gp, 0, idsOf L (H1 :: t), 0, rt⟩ (out.events.flatMap (absH L C)) = some ls' ∧
        GpPost env rt more (t.length + 1) out ls' := by
  rw [show gpBlock = .seq _ (.seq _ (.seq _ (.seq _ (.seq (.loop iterBody) _)))) from rfl]
  match inp, hF with
  | [], _ =>
    sexec; simp [H.lrun, GpPost]
  | [r0], _ =>
    sexec [«___cds_wfcq_first_blocking», «___cds_wfcq_first», «_cds_wfcq_empty»]
    simp [H.lrun, H.lstep, H.lstepAt, absH, GpPost]
  | [r0, v1], hF =>
    obtain rfl : v1 = .ptr (nd H1) := by simpa [gpSpec, Follows, anyV] using hF
    cases fuel <;>
    sexec [«___cds_wfcq_first_blocking», «___cds_wfcq_first», «_cds_wfcq_empty», «___cds_wfcq_node_sync_next», iterate] <;>
    simp [H.lrun, H.lstep, H.lstepAt, absH, GpPost, privLoc, List.flatMap_cons]
  | r0 :: v1 :: v2 :: rest, hF =>
    obtain ⟨rfl, rfl, hF'⟩ : v1 = .ptr (nd H1) ∧ v2 = .ptr (nd H1) ∧
        Follows (iterSpec (H1 :: t) ++ ([anyV] ++ more)) rest := by
      simpa [gpSpec, Follows, anyV, List.append_assoc] using hF
    cases fuel with
    | zero =>
      sexec [«___cds_wfcq_first_blocking», «___cds_wfcq_first», «_cds_wfcq_empty», «___cds_wfcq_node_sync_next», iterate]
      simp [H.lrun, H.lstep, H.lstepAt, absH, GpPost, privLoc, List.flatMap_cons]
    | succ fuel =>
      have hne : Val.ptr (nd H1) ≠ .int 0 := by simp
      sexec
      generalize hfb : exec (fuel + 1) «___cds_wfcq_first_blocking» _ _ = rfb
      obtain ⟨vars, rfl⟩ := first_blocking_settled _ _ rest tmpH tmpT hfb (by simp) (by simp) hne hne
      clear hfb
      sexec
      generalize hit : iterate (exec (fuel + 1) iterBody) _ _ _ _ = r
      obtain ⟨out, evs, rfl, hev, ls', hl, hp⟩ := iter_loop'' L C rt ([anyV] ++ more) hit (H1 :: t) 0
        (by intro Hd hHd; obtain ⟨h1, fv, h2⟩ := hH Hd hHd; exact ⟨h1, fv, by simpa using h2⟩)
        (by simp [curOf]) (by simp) hF'
      clear hit
      rcases out with ⟨oev, oenv, oinp, octl⟩
      simp only [List.nil_append] at hev; subst hev
      rcases hp with ⟨hctl, hpc, hrt⟩ | ⟨hctl, rfl, ⟨h10, hcc, hcr, hrt, hpr⟩, hFm⟩
      · simp only [] at hctl
        rcases hctl with rfl | rfl <;>
        · simp [H.lrun, H.lstep, H.lstepAt, absH, GpPost, List.flatMap_cons, privLoc, hl, hpc, hrt]
      · simp only [] at hctl h10 hcc hcr hrt hpr hFm; subst hctl
        simp only [hc, if_neg, String.reduceEq] at hcr
        have hlen : (0 : Nat) + (H1 :: t).length = t.length + 1 := by simp
        rw [hlen] at hl hcc
        cases oinp with
        | nil =>
          simp [H.lrun, H.lstep, H.lstepAt, absH, GpPost, List.flatMap_cons, privLoc, hl, hcr, hcc, H.lrun_append,
            List.flatMap_append]
        | cons x oinp =>
          have hFm' : Follows more oinp := by simpa [Follows, anyV] using hFm
          simp [H.lrun, H.lstep, H.lstepAt, absH, GpPost, List.flatMap_cons, privLoc, hl, hcr, hcc, H.lrun_append,
            List.flatMap_append, hFm', hrt, hpr, hc]
          intro m h1 h2; exact absurd h2 h1

/-! ## the splice of the public queue into the private one -/

/-- values consumed by `___cds_wfcq_splice_blocking(&cbs_tmp, &crdp->cbs)` when the public queue holds `H₁ … H_l`
(settled): `_cds_wfcq_empty` sees a non-NULL `cbs_head.next` (`sawNull = false`) or NULL and then a tail that is not the
head; the exchange of `cbs_head.next` returns the first node, the exchange of `cbs_tail.p` the last node, the exchange of
the private tail `cbs_tmp_tail.p` returns the private head (the queue was initialised just before: its own store) -/
def spliceSpec (C H1 Hl : Loc) (sawNull : Bool) : List (Val → Prop) :=
  (if sawNull then [(· = .int 0), (· ≠ .ptr (.field C "cbs_head"))] else [(· ≠ .int 0)]) ++
  [(· = .ptr (nd H1)), (· = .ptr (nd Hl)), (· = .ptr tmpH)]

def SplicePost (env : Env) (b : List Nat) (rt : Bool) (more : List (Val → Prop)) (out : Out) (ls' : H.LState) : Prop :=
  ((out.ctl = .blocked ∨ out.ctl = .fuel) ∧ (ls'.pc = .splice ∨ ls'.pc = .gp) ∧ ls'.rt = rt) ∨
  (out.ctl = .ret (some (.int 0)) ∧ ls' = ⟨.gp, 0, b, 0, rt⟩ ∧
    (∀ m, m ≠ .glob "&attempt" → m ≠ .field tmpH "next" → out.env.priv m = env.priv m) ∧ Follows more out.inp)

open Lean.Parser.Tactic in
set_option hygiene false in
macro "splice_leaves" : tactic => `(tactic| (
  (rcases inp with _ | ⟨v1, _ | ⟨v2, _ | ⟨v3, _ | ⟨v4, _ | ⟨v5, rest⟩⟩⟩⟩⟩) <;>
  simp only [spliceSpec, Follows, if_true, if_false, List.cons_append, List.nil_append, Bool.false_eq_true] at hF <;>
  sexec [«___cds_wfcq_splice_blocking», «___cds_wfcq_splice», «_cds_wfcq_empty», «___cds_wfcq_append», iterate] <;>
  simp [absH, H.lrun, H.lstep, H.lstepAt, SplicePost, privLoc, cbOfNode, List.flatMap_cons, hcb1, hcbl, hB, hb, hF] <;>
  (try (intro m hm1 hm2; simp [hm1, hm2]))))

theorem splice_nonempty_aux (L : Layout) (C : Loc) (b b0 : List Nat) (c0 : Nat) (rt : Bool) (more : List (Val → Prop))
    (fuel : Nat) (env : Env) (inp : List Val) (H1 Hl : Loc) (sn : Bool) (id1 idl : Nat) (mbv : Int) (hmb : mbv = 0)
    (h1 : env.vars "dest_q_head" = some (.ptr tmpH)) (h2 : env.vars "dest_q_tail" = some (.ptr tmpT))
    (h3 : env.vars "src_q_head" = some (.ptr (.field C "cbs_head")))
    (h4 : env.vars "src_q_tail" = some (.ptr (.field C "cbs_tail")))
    (hcfg : env.priv (.glob "CONFIG_RCU_EMIT_LEGACY_MB") = some (.int mbv))
    (hcb1 : L.cb H1 = some id1) (hcbl : L.cb Hl = some idl) (hB : L.batch Hl = b) (hb : b ≠ [])
    (hF : Follows (spliceSpec C H1 Hl sn ++ more) inp) :
    ∃ out, exec (fuel + 1) «___cds_wfcq_splice_blocking» env inp = .ok out ∧
      ∃ ls', H.lrun ⟨.splice, 0, b0, c0, rt⟩ (out.events.flatMap (absH L C)) = some ls' ∧
        SplicePost env b rt more out ls' := by
  cases sn
  · splice_leaves
  · splice_leaves

theorem splice_nonempty_aux' (L : Layout) (C : Loc) (b b0 : List Nat) (c0 : Nat) (rt : Bool) (more : List (Val → Prop))
    (fuel : Nat) (env : Env) (inp : List Val) (H1 Hl : Loc) (sn : Bool) (id1 idl : Nat) (mbv : Int) (hmb : ¬ mbv = 0)
    (h1 : env.vars "dest_q_head" = some (.ptr tmpH)) (h2 : env.vars "dest_q_tail" = some (.ptr tmpT))
    (h3 : env.vars "src_q_head" = some (.ptr (.field C "cbs_head")))
    (h4 : env.vars "src_q_tail" = some (.ptr (.field C "cbs_tail")))
    (hcfg : env.priv (.glob "CONFIG_RCU_EMIT_LEGACY_MB") = some (.int mbv))
    (hcb1 : L.cb H1 = some id1) (hcbl : L.cb Hl = some idl) (hB : L.batch Hl = b) (hb : b ≠ [])
    (hF : Follows (spliceSpec C H1 Hl sn ++ more) inp) :
    ∃ out, exec (fuel + 1) «___cds_wfcq_splice_blocking» env inp = .ok out ∧
      ∃ ls', H.lrun ⟨.splice, 0, b0, c0, rt⟩ (out.events.flatMap (absH L C)) = some ls' ∧
        SplicePost env b rt more out ls' := by
  cases sn
  · splice_leaves
  · splice_leaves

/-- `___cds_wfcq_splice_blocking(&cbs_tmp, &crdp->cbs)` on a non-empty settled public queue: from L2's pc `splice` to
`gp` with `batch := b` (`hSplice`), return value `CDS_WFCQ_RET_DEST_EMPTY` -/
theorem splice_nonempty (L : Layout) (C : Loc) (b b0 : List Nat) (c0 : Nat) (rt : Bool) (more : List (Val → Prop))
    {fuel : Nat} {env : Env} {inp : List Val} {r : Except String Out}
    (hE : exec (fuel + 1) «___cds_wfcq_splice_blocking» env inp = r) (H1 Hl : Loc) (sn : Bool) (id1 idl : Nat) (mbv : Int)
    (h1 : env.vars "dest_q_head" = some (.ptr tmpH)) (h2 : env.vars "dest_q_tail" = some (.ptr tmpT))
    (h3 : env.vars "src_q_head" = some (.ptr (.field C "cbs_head")))
    (h4 : env.vars "src_q_tail" = some (.ptr (.field C "cbs_tail")))
    (hcfg : env.priv (.glob "CONFIG_RCU_EMIT_LEGACY_MB") = some (.int mbv))
    (hcb1 : L.cb H1 = some id1) (hcbl : L.cb Hl = some idl) (hB : L.batch Hl = b) (hb : b ≠ [])
    (hF : Follows (spliceSpec C H1 Hl sn ++ more) inp) :
    ∃ out, r = .ok out ∧
      ∃ ls', H.lrun ⟨.splice, 0, b0, c0, rt⟩ (out.events.flatMap (absH L C)) = some ls' ∧
        SplicePost env b rt more out ls' := by
  subst hE
  by_cases hmb : mbv = 0
  · exact splice_nonempty_aux L C b b0 c0 rt more fuel env inp H1 Hl sn id1 idl mbv hmb h1 h2 h3 h4 hcfg hcb1 hcbl hB hb hF
  · exact splice_nonempty_aux' L C b b0 c0 rt more fuel env inp H1 Hl sn id1 idl mbv hmb h1 h2 h3 h4 hcfg hcb1 hcbl hB hb hF

/-- `___cds_wfcq_splice_blocking(&cbs_tmp, &crdp->cbs)` on an empty public queue (`cbs_head.next` NULL and
`cbs_tail.p == &cbs_head`): L2's `hSplice` with an empty queue, return value `CDS_WFCQ_RET_SRC_EMPTY` -/
theorem splice_empty (L : Layout) (C : Loc) (b0 : List Nat) (c0 : Nat) (rt : Bool) (more : List (Val → Prop))
    {fuel : Nat} {env : Env} {inp : List Val} {r : Except String Out}
    (hE : exec fuel «___cds_wfcq_splice_blocking» env inp = r)
    (h1 : env.vars "dest_q_head" = some (.ptr tmpH)) (h2 : env.vars "dest_q_tail" = some (.ptr tmpT))
    (h3 : env.vars "src_q_head" = some (.ptr (.field C "cbs_head")))
    (h4 : env.vars "src_q_tail" = some (.ptr (.field C "cbs_tail")))
    (hF : Follows ([(· = .int 0), (· = .ptr (.field C "cbs_head"))] ++ more) inp) :
    ∃ out, r = .ok out ∧
      ∃ ls', H.lrun ⟨.splice, 0, b0, c0, rt⟩ (out.events.flatMap (absH L C)) = some ls' ∧
        ((out.ctl = .blocked ∧ ls'.pc = .splice ∧ ls'.rt = rt) ∨
         (out.ctl = .ret (some (.int 2)) ∧ ls' = ⟨.stopchk, 0, b0, c0, rt⟩ ∧
           (∀ m, m ≠ .glob "&attempt" → out.env.priv m = env.priv m) ∧ Follows more out.inp)) := by
  subst hE
  (rcases inp with _ | ⟨v1, _ | ⟨v2, rest⟩⟩) <;>
  simp only [Follows, List.cons_append, List.nil_append] at hF <;>
  sexec [«___cds_wfcq_splice_blocking», «___cds_wfcq_splice», «_cds_wfcq_empty»] <;>
  simp [absH, H.lrun, H.lstep, H.lstepAt, privLoc, List.flatMap_cons, hF] <;>
  (try (intro m hm1 hm2; simp [hm1] at hm2))



end UrcuVerif.Src.CallRcuR
