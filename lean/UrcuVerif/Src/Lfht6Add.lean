import UrcuVerif.Src.Lfht5Add
/-!
# `_cds_lfht_add`, unique / replace modes: `insert:`, `gc_node:`, the outer loop, the prologue and the epilogue, on the union
automaton (`LfhtU.lrun`); the inner loop is `LfhtUR.addU_inner_loop` (`Lfht5Add.lean`)
-/
namespace UrcuVerif.Src.LfhtUR
open UrcuVerif UrcuVerif.Src UrcuVerif.Lfht.Conc UrcuVerif.Src.LfhtR UrcuVerif.Src.LfhtAR

/-- L2's `Out` of a successful insertion (`addDone`): the new node in mode `uniq`, NULL in mode `repl` -/
def outM (M : Mode) (n : Nat) : Lfht.Conc.Out :=
  match M with
  | .uniq => .node n
  | _ => .node 0

theorem laddDone_M {M : Mode} (hM : M = .uniq ∨ M = .repl) {x : Thr} (hmode : x.mode = M) :
    LfhtA.laddDone x = some ({ x with pc := .idle, op := .none }, outM M x.node) := by
  rcases hM with rfl | rfl <;> simp [LfhtA.laddDone, hmode, outM]

/-- invariant at the head of the outer loop (L2 at `aHead`: first pass and every retry) -/
def AddOU (rev : Nat → Nat) (B N U ky : Nat) (M : Mode) (htv szv mv : Val) (env : Env) (inp : List Val) (ls : US) : Prop :=
  env.vars "bucket" = some (.ptr (.obj B)) ∧ env.vars "node" = some (.ptr (.obj N)) ∧
    env.vars "bucket_flag" = some (.int 0) ∧ env.vars "unique_ret" = some (.ptr (.obj U)) ∧
    env.vars "_goto_insert" = some (.int 0) ∧ env.vars "_goto_gc_node" = some (.int 0) ∧
    env.vars "_goto_end" = some (.int 0) ∧ env.vars "ht" = some htv ∧ env.vars "size" = some szv ∧
    env.vars "key" = some (.int ky) ∧ env.vars "match" = some mv ∧
    RevView rev env.priv ∧ ls.pa = .none ∧ ls.pw = .none ∧ ls.x.pc = .aHead ∧ ls.x.bkt = B ∧ ls.x.node = N ∧
    ls.x.mode = M ∧ ls.x.ky = ky ∧ LfhtU.OracleU rev ls inp

/-- the insertion cmpxchg succeeded: L2's thread has returned (`addDone`), the private store `node->next = clear_flag(iter)`
wrote the word L2's `casIns` gives the node, `return_node = node` -/
def AddFinU (rev : Nat → Nat) (N U : Nat) (M : Mode) (env : Env) (ls : US) : Prop :=
  env.vars "unique_ret" = some (.ptr (.obj U)) ∧ env.vars "return_node" = some (.ptr (.obj N)) ∧
    RevView rev env.priv ∧ ls.pa = .none ∧ ls.pw = .none ∧ ls.x.pc = .idle ∧ ls.x.op = .none ∧
    ls.out = outM M N ∧ ls.x.node = N ∧ env.priv (.field (.obj N) "next") = some (encP ls.x.iter.ptr)

/-- `insert:` -/
theorem addU_post_ins (fuel : Nat) (rev : Nat → Nat) (B N U ky : Nat) (M : Mode) (htv szv mv : Val)
    (hM : M = .uniq ∨ M = .repl) (hN : N ≠ 0)
    (env : Env) (inp : List Val) (ls : US) (r : Except String Src.Out)
    (hE : exec fuel addPost env inp = r)
    (hrel : AddRelU rev B N U ky M htv szv mv 1 0 env ls.x) (hpa : ls.pa = .none) (hpw : ls.pw = .none)
    (hpc : ls.x.pc = .aCas) (hO : LfhtU.OracleU rev ls inp) :
    ∃ o, r = .ok o ∧ ∃ ls', LfhtU.lrun rev ls o.events = some ls' ∧
      (o.ctl = .blocked ∨ (o.ctl = .cont ∧ AddOU rev B N U ky M htv szv mv o.env o.inp ls') ∨
        (o.ctl = .brk ∧ AddFinU rev N U M o.env ls')) := by
  rcases ls with ⟨x, pa, pw, out⟩
  dsimp only at hrel hpa hpw hpc; subst hpa; subst hpw; subst hE
  obtain ⟨hb, hn, hp, hi, hbf, hur, hgi, hgg, hge, hht, hsz, hkey, hmt, ⟨k, hk⟩, hrev, hxb, hxn, hmode, hxky, hp0,
    hcr, hco, hcn⟩ := hrel
  have hcn' : ¬ N = x.iter.ptr := fun h => hcn h.symm
  have hdn : decW (.ptr (.obj x.node)) = some { ptr := x.node } := by rw [hxn]; exact decW_obj N hN
  have hrv1 : ∀ v, RevView rev (fun m => if m = Loc.field (.obj N) "next" then some v else env.priv m) :=
    fun v => revView_setNext rev env.priv N v hrev
  cases inp with
  | nil =>
    by_cases hbk : x.iter.bkt <;>
    lexec [addPost, seqTail, addOuter, firstLoop, Gen.Src.«lfht._cds_lfht_add», call_is_removed,
      call_is_removal_owner, call_is_bucket, call_clear_flag, call_flag_bucket, pureCall, bind1, obj_eq_encP] <;>
    exact ⟨_, LfhtU.lrun_nil _ _⟩
  | cons v rest =>
    obtain ⟨l, hl, hrest⟩ := LfhtU.oracleU_A hO (by simp [hpc]) (by simp [LfhtAR.active, hpc])
    clear hO
    simp only [LfhtAR.obsLabel, hpc] at hl
    cases hd : decW v with
    | none => simp [hd] at hl
    | some w =>
      have hv := encW_of_decW hd; subst hv
      simp only [decW_encW, Option.map] at hl
      cases hl
      by_cases hs : w = x.iter
      · subst hs
        have hst : LfhtA.lstep rev ⟨x, .none, out⟩
            (.casNext x.prev x.iter { ptr := x.node, bkt := x.iter.bkt } x.iter) =
            some (LfhtA.mk { x with pc := .idle, op := .none } (outM M x.node)) := by
          simp [LfhtA.lstep, hpc, laddDone_M hM hmode]
        clear hrest
        cases hbk : x.iter.bkt <;> rw [hbk] at hst <;>
        lexec [addPost, seqTail, addOuter, firstLoop, Gen.Src.«lfht._cds_lfht_add», call_is_removed,
          call_is_removal_owner, call_is_bucket, call_clear_flag, call_flag_bucket, pureCall, bind1, obj_eq_encP] <;>
        (refine ⟨LfhtU.ofA (LfhtA.mk { x with pc := .idle, op := .none } (outM M x.node)), ?_, ?_⟩
         · simp [LfhtU.lrun, LfhtU.lstep, LfhtU.toA, LfhtAR.absEv, ← hxn, hdn, hst]
         · simp [AddFinU, LfhtU.ofA, LfhtA.mk, *])
      · have hst : LfhtA.lstep rev ⟨x, .none, out⟩
            (.casNext x.prev x.iter { ptr := x.node, bkt := x.iter.bkt } w) =
            some (LfhtA.mk { x with pc := .aHead }) := by
          simp [LfhtA.lstep, hpc, hs]
        have hO1 := hrest _ hst
        clear hrest
        cases hbk : x.iter.bkt <;> rw [hbk] at hst <;>
        lexec [addPost, seqTail, addOuter, firstLoop, Gen.Src.«lfht._cds_lfht_add», call_is_removed,
          call_is_removal_owner, call_is_bucket, call_clear_flag, call_flag_bucket, pureCall, bind1, obj_eq_encP] <;>
        (refine ⟨LfhtU.ofA (LfhtA.mk { x with pc := .aHead }), ?_, ?_⟩
         · simp [LfhtU.lrun, LfhtU.lstep, LfhtU.toA, LfhtAR.absEv, ← hxn, hdn, hst]
         · exact ⟨by simp [*], by simp [*], by simp [*], by simp [*], by simp [*], by simp [*], by simp [*],
             by simp [*], by simp [*], by simp [*], by simp [*], by simp [*], rfl, rfl, rfl, hxb, hxn, hmode, hxky, hO1⟩)

/-- `gc_node:` -/
theorem addU_post_gc (fuel : Nat) (rev : Nat → Nat) (B N U ky : Nat) (M : Mode) (htv szv mv : Val)
    (env : Env) (inp : List Val) (ls : US) (r : Except String Src.Out)
    (hE : exec fuel addPost env inp = r)
    (hrel : AddRelU rev B N U ky M htv szv mv 0 1 env ls.x) (hnx : env.vars "next" = some (encW ls.x.nx))
    (hpa : ls.pa = .none) (hpw : ls.pw = .none) (hpc : ls.x.pc = .aGc) (hO : LfhtU.OracleU rev ls inp) :
    ∃ o, r = .ok o ∧ ∃ ls', LfhtU.lrun rev ls o.events = some ls' ∧
      (o.ctl = .blocked ∨ (o.ctl = .normal ∧ AddOU rev B N U ky M htv szv mv o.env o.inp ls')) := by
  rcases ls with ⟨x, pa, pw, out⟩
  dsimp only at hrel hpa hpw hpc hnx; subst hpa; subst hpw; subst hE
  obtain ⟨hb, hn, hp, hi, hbf, hur, hgi, hgg, hge, hht, hsz, hkey, hmt, ⟨k, hk⟩, hrev, hxb, hxn, hmode, hxky, hp0,
    hcr, hco, hcn⟩ := hrel
  cases inp with
  | nil =>
    by_cases hbk : x.iter.bkt <;>
    lexec [addPost, seqTail, addOuter, firstLoop, Gen.Src.«lfht._cds_lfht_add», call_is_removed,
      call_is_removal_owner, call_is_bucket, call_clear_flag, call_flag_bucket, pureCall, bind1] <;>
    exact ⟨_, LfhtU.lrun_nil _ _⟩
  | cons v rest =>
    obtain ⟨l, hl, hrest⟩ := LfhtU.oracleU_A hO (by simp [hpc]) (by simp [LfhtAR.active, hpc])
    clear hO
    simp only [LfhtAR.obsLabel, hpc] at hl
    cases hd : decW v with
    | none => simp [hd] at hl
    | some w =>
      have hv := encW_of_decW hd; subst hv
      simp only [decW_encW, Option.map] at hl
      cases hl
      have hst : LfhtA.lstep rev ⟨x, .none, out⟩
          (.casNext x.prev x.iter { ptr := x.nx.ptr, bkt := x.iter.bkt } w) = some (LfhtA.mk { x with pc := .aHead }) := by
        simp [LfhtA.lstep, hpc]
      have hO1 := hrest _ hst
      clear hrest
      cases hbk : x.iter.bkt <;> rw [hbk] at hst <;>
      lexec [addPost, seqTail, addOuter, firstLoop, Gen.Src.«lfht._cds_lfht_add», call_is_removed,
        call_is_removal_owner, call_is_bucket, call_clear_flag, call_flag_bucket, pureCall, bind1] <;>
      (refine ⟨LfhtU.ofA (LfhtA.mk { x with pc := .aHead }), ?_, ?_⟩
       · simp [LfhtU.lrun, LfhtU.lstep, LfhtU.toA, LfhtAR.absEv, hst]
       · exact ⟨by simp [*], by simp [*], by simp [*], by simp [*], by simp [*], by simp [*], by simp [*],
           by simp [*], by simp [*], by simp [*], by simp [*], by simp [*], rfl, rfl, rfl, hxb, hxn, hmode, hxky, hO1⟩)

/-- how the outer loop ends -/
def AddROU (rev : Nat → Nat) (N U : Nat) (M : Mode) (c : Ctl) (env : Env) (_inp : List Val) (ls : US) : Prop :=
  match c with
  | .brk => AddFinU rev N U M env ls
  | .ret v => v = none ∧ DupFound rev N U M env ls
  | .blocked => True
  | .fuel => True
  | _ => False

theorem addU_outer_body (fuel : Nat) (rev : Nat → Nat) (B N U ky : Nat) (M : Mode) (htv szv mv : Val)
    (hM : M = .uniq ∨ M = .repl) (hB : B ≠ 0) (hN : N ≠ 0)
    (env : Env) (inp : List Val) (ls : US) (hI : AddOU rev B N U ky M htv szv mv env inp ls) :
    ∃ o, exec fuel addOuter env inp = .ok o ∧ ∃ ls', LfhtU.lrun rev ls o.events = some ls' ∧
      (if o.ctl.goesOn then AddOU rev B N U ky M htv szv mv o.env o.inp ls' else AddROU rev N U M o.ctl o.env o.inp ls') := by
  rcases ls with ⟨x, pa, pw, out⟩
  obtain ⟨hb, hn, hbf, hur, hgi, hgg, hge, hht, hsz, hkey, hmt, hrev, hpa, hpw, hpc, hxb, hxn, hmode, hxky, hO⟩ := hI
  dsimp only at hpa hpw hpc hxb hxn hmode hxky; subst hpa; subst hpw
  have hMb : M ≠ .bkt := by rcases hM with rfl | rfl <;> decide
  have hshape : addOuter = .seq _ (.seq _ (.seq _ (.seq _ (.seq (.loop addInner) addPost)))) := rfl
  cases inp with
  | nil =>
    lexec [addOuter, firstLoop, Gen.Src.«lfht._cds_lfht_add»]
    exact ⟨_, LfhtU.lrun_nil _ _, by simp [Ctl.goesOn, AddROU]⟩
  | cons v rest =>
    obtain ⟨l, hl, hrest⟩ := LfhtU.oracleU_A hO (by simp [hpc]) (by simp [LfhtAR.active, hpc])
    clear hO
    simp only [LfhtAR.obsLabel, hpc] at hl
    cases hd : decW v with
    | none => simp [hd] at hl
    | some w =>
      have hv := encW_of_decW hd; subst hv
      simp only [decW_encW, Option.bind] at hl
      split at hl <;> cases hl
      rename_i hcl
      obtain ⟨hwr, hwo, hwn⟩ := hcl
      obtain ⟨ls0, hls0⟩ : ∃ ls0 : LfhtA.LState, ls0 =
          LfhtA.mk { x with prev := x.bkt, iter := w, pc := apc rev x.node w.ptr } := ⟨_, rfl⟩
      have hstep : LfhtA.lstep rev ⟨x, .none, out⟩ (.ldNext x.bkt w 1) = some ls0 := by
        rw [hls0]
        simp only [LfhtA.lstep, hpc, true_and, if_true, show (1 : Int) ≤ 1 from by decide]
        rw [laddPos_nb rev _ (by dsimp only; exact hmode ▸ hMb)]
      have hO1 := hrest _ hstep
      clear hrest
      have hlr0 : ∀ evs, LfhtU.lrun rev ⟨x, .none, .none, out⟩
          (Event.ld ((Loc.obj B).field "next") (encW w) 1 :: evs) = LfhtU.lrun rev (LfhtU.ofA ls0) evs := by
        intro evs
        exact runA (a := ⟨x, .none, out⟩) (by simpa [LfhtAR.absEv, ← hxb] using hstep) evs
      rw [hshape]
      lexec
      generalize hE : iterate (exec fuel addInner) fuel _ rest [] = r
      obtain ⟨o1, rfl, ls1, hl1, hfin⟩ := addU_inner_loop fuel rev B N U ky M htv szv mv hM hN _ _ (LfhtU.ofA ls0) _ hE
        (by subst hls0
            exact ⟨by simp [AddRelU, LfhtU.ofA, LfhtA.mk, *]; exact hxn ▸ hwn, rfl, rfl, rfl, hO1⟩)
      rcases o1 with ⟨ev1, env1, inp1, ctl1⟩
      rcases hfin with hf | ⟨c, hc, hR, hctl⟩
      · dsimp only at hf; subst hf
        simp [hlr0, hl1, Ctl.goesOn, AddROU]
      · dsimp only at hctl hR hl1
        cases c <;> simp [Ctl.goesOn] at hc <;> simp only [AddRU] at hR <;> simp only [Ctl.afterLoop] at hctl <;> subst hctl
        · -- the inner loop broke out: `insert:` or `gc_node:`
          dsimp only
          generalize hE2 : exec fuel addPost env1 inp1 = r2
          rcases hR with ⟨hrel1, hpa1, hpw1, hpc1, hO1'⟩ | ⟨hrel1, hnx1, hpa1, hpw1, hpc1, hO1'⟩
          · obtain ⟨o2, rfl, ls2, hl2, hfin2⟩ := addU_post_ins fuel rev B N U ky M htv szv mv hM hN env1 inp1 ls1 r2 hE2
              hrel1 hpa1 hpw1 hpc1 hO1'
            rcases o2 with ⟨ev2, env2, inp2, ctl2⟩
            rcases hfin2 with hb2 | ⟨hn2, hI2⟩ | ⟨hn2, hI2⟩
            · dsimp only at hb2; subst hb2
              simp [hlr0, LfhtU.lrun_append, hl1, hl2, Ctl.goesOn, AddROU]
            · dsimp only at hn2 hI2; subst hn2
              simp [hlr0, LfhtU.lrun_append, hl1, hl2, Ctl.goesOn, hI2]
            · dsimp only at hn2 hI2; subst hn2
              simp [hlr0, LfhtU.lrun_append, hl1, hl2, Ctl.goesOn, AddROU, hI2]
          · obtain ⟨o2, rfl, ls2, hl2, hfin2⟩ := addU_post_gc fuel rev B N U ky M htv szv mv env1 inp1 ls1 r2 hE2
              hrel1 hnx1 hpa1 hpw1 hpc1 hO1'
            rcases o2 with ⟨ev2, env2, inp2, ctl2⟩
            rcases hfin2 with hb2 | ⟨hn2, hI2⟩
            · dsimp only at hb2; subst hb2
              simp [hlr0, LfhtU.lrun_append, hl1, hl2, Ctl.goesOn, AddROU]
            · dsimp only at hn2 hI2; subst hn2
              simp [hlr0, LfhtU.lrun_append, hl1, hl2, Ctl.goesOn, hI2]
        · -- duplicate found: `return`
          simp [hlr0, hl1, Ctl.goesOn, AddROU, hR]
        · simp [hlr0, hl1, Ctl.goesOn, AddROU]
        · simp [hlr0, hl1, Ctl.goesOn, AddROU]

theorem addU_outer_loop (fuel : Nat) (rev : Nat → Nat) (B N U ky : Nat) (M : Mode) (htv szv mv : Val)
    (hM : M = .uniq ∨ M = .repl) (hB : B ≠ 0) (hN : N ≠ 0)
    (env : Env) (inp : List Val) (ls : US) (r : Except String Src.Out)
    (hE : iterate (exec fuel addOuter) fuel env inp [] = r) (hI : AddOU rev B N U ky M htv szv mv env inp ls) :
    ∃ out, r = .ok out ∧ ∃ ls', LfhtU.lrun rev ls out.events = some ls' ∧
      (out.ctl = .fuel ∨ ∃ c, c.goesOn = false ∧ AddROU rev N U M c out.env out.inp ls' ∧ out.ctl = c.afterLoop) := by
  obtain ⟨out, hout, evs, ls', hev, hl, hfin⟩ :=
    iterate_inv (LfhtU.lrun rev) (LfhtU.lrun_nil rev) (LfhtU.lrun_append rev) (exec fuel addOuter)
      (AddOU rev B N U ky M htv szv mv) (AddROU rev N U M)
      (addU_outer_body fuel rev B N U ky M htv szv mv hM hB hN) fuel env inp ls [] hI
  refine ⟨out, by rw [← hE, hout], ls', ?_, hfin⟩
  rw [hev]; simpa using hl

/-- how `_cds_lfht_add` ends in the unique / replace modes: preempted, out of budget, **inserted** (L2's thread is `idle`
with `Out.node node` in mode `uniq`, `Out.node 0` in mode `repl`; `unique_ret->node = node`; the node's private `next`
word is the one L2's `casIns` gives it), or **duplicate found** (`return` inside the inner loop: `DupFound`) -/
def AddDoneU (rev : Nat → Nat) (N U : Nat) (M : Mode) (out : Src.Out) (ls' : US) : Prop :=
  out.ctl = .blocked ∨ out.ctl = .fuel ∨
    (out.ctl = .normal ∧ ls'.out = outM M N ∧ ls'.x.pc = .idle ∧ ls'.x.op = .none ∧ ls'.pa = .none ∧ ls'.pw = .none ∧
      ls'.x.node = N ∧ out.env.priv (.field (.obj N) "next") = some (encW { ptr := ls'.x.iter.ptr }) ∧
      out.env.priv (.field (.obj U) "node") = some (.ptr (.obj N)) ∧ RevView rev out.env.priv) ∨
    (out.ctl = .ret none ∧ DupFound rev N U M out.env ls')

/-- **`_cds_lfht_add(ht, hash, match, key, size, node, &U, 0)`** (what `cds_lfht_add_unique` / `cds_lfht_add_replace`
call) from L2's state after the load of `ht->size` (pc `aHead`, the call of `bucket_at` pending), mode `uniq` / `repl` -/
theorem addU_exec (fuel : Nat) (rev : Nat → Nat) (env : Env) (inp : List Val) (x : Thr) (o0 : Lfht.Conc.Out)
    (ht U : Nat) (fp mv : Val) (M : Mode) (hM : M = .uniq ∨ M = .repl)
    (hht : env.vars "ht" = some (.ptr (.obj ht))) (hhash : env.vars "hash" = some (.int x.hs))
    (hsz : env.vars "size" = some (.int x.sz)) (hnode : env.vars "node" = some (.ptr (.obj x.node)))
    (hur : env.vars "unique_ret" = some (.ptr (.obj U))) (hbf : env.vars "bucket_flag" = some (.int 0))
    (hkey : env.vars "key" = some (.int x.ky)) (hmt : env.vars "match" = some mv)
    (hn0 : x.node ≠ 0) (hsz1 : 1 ≤ x.sz)
    (hfp : env.priv (.field (.obj ht) "bucket_at") = some fp) (hrev : RevView rev env.priv)
    (hpc : x.pc = .aHead) (hmode : x.mode = M)
    (hO : LfhtU.OracleU rev ⟨x, .bkt, .none, o0⟩ inp) :
    ∃ out, exec fuel Gen.Src.«lfht._cds_lfht_add» env inp = .ok out ∧
      ∃ ls', LfhtU.lrun rev ⟨x, .bkt, .none, o0⟩ out.events = some ls' ∧ AddDoneU rev x.node U M out ls' := by
  have hshape : Gen.Src.«lfht._cds_lfht_add» =
      .seq _ (.seq _ (.seq _ (.seq _ (.seq _ (.seq _ (.seq _ (.seq _ (.seq _ (.seq _ (.seq _
        (.seq (.loop addOuter) addTail))))))))))) := rfl
  rw [hshape]
  have hszi : (1 : Int) ≤ (x.sz : Int) := by omega
  have hcast : ((x.sz : Int) - 1).toNat = x.sz - 1 := by omega
  cases inp with
  | nil =>
    lexec [exec_call, Gen.Src.«lfht.is_bucket», Gen.Src.«lfht.is_removed», Gen.Src.«lfht.is_removal_owner»,
      Gen.Src.«lfht.lookup_bucket», Gen.Src.«lfht.bucket_at»]
    exact ⟨_, LfhtU.lrun_nil _ _, .inl rfl⟩
  | cons v1 rest =>
    obtain ⟨l, hl, hrest⟩ := LfhtU.oracleU_A hO (by simp [hpc]) (by simp [LfhtAR.active])
    clear hO
    simp only [LfhtAR.obsLabel] at hl
    cases v1 with
    | int _ => simp at hl
    | ptr lo =>
      cases lo with
      | obj b =>
        simp only [Option.ite_none_right_eq_some, Option.some.injEq] at hl
        obtain ⟨hb0, rfl⟩ := hl
        obtain ⟨x1, hx1⟩ : ∃ x1 : Thr, x1 = { x with bkt := b } := ⟨_, rfl⟩
        have hs1 : LfhtA.lstep rev ⟨x, .bkt, o0⟩ (.bktAt (x.hs &&& (x.sz - 1)) b) = some (LfhtA.mk x1) := by
          rw [hx1]; simp [LfhtA.lstep, LfhtA.mk]
        have hO1 := hrest _ hs1
        clear hrest
        have hlr1 : ∀ evs, LfhtU.lrun rev ⟨x, .bkt, .none, o0⟩
            (Event.ext "(*bucket_at)" [fp, Val.ptr (Loc.obj ht), Val.int ((x.hs &&& (x.sz - 1) : Nat) : Int)]
              (Val.ptr (Loc.obj b)) :: evs) = LfhtU.lrun rev (LfhtU.ofA (LfhtA.mk x1)) evs := by
          intro evs
          exact runA (a := ⟨x, .bkt, o0⟩) (by simpa [LfhtAR.absEv] using hs1) evs
        lexec [exec_call, Gen.Src.«lfht.is_bucket», Gen.Src.«lfht.is_removed», Gen.Src.«lfht.is_removal_owner»,
          Gen.Src.«lfht.lookup_bucket», Gen.Src.«lfht.bucket_at»]
        generalize hE : iterate (exec fuel addOuter) fuel _ rest [] = r
        obtain ⟨o1, rfl, ls1, hl1, hfin⟩ := addU_outer_loop fuel rev b x.node U x.ky M (.ptr (.obj ht)) (.int x.sz) mv
          hM hb0 hn0 _ rest (LfhtU.ofA (LfhtA.mk x1)) r hE
          ⟨by simp, by simp [hnode], by simp [hbf], by simp [hur], by simp, by simp, by simp, by simp [hht],
            by simp [hsz], by simp [hkey], by simp [hmt], hrev, rfl, rfl, by subst hx1; exact hpc, by subst hx1; rfl,
            by subst hx1; rfl, by subst hx1; exact hmode, by subst hx1; rfl, hO1⟩
        rcases o1 with ⟨ev1, env1, inp1, ctl1⟩
        have hl1 : LfhtU.lrun rev (LfhtU.ofA (LfhtA.mk x1)) ev1 = some ls1 := hl1
        rcases hfin with hf | ⟨c, hc, hR, hctl⟩
        · dsimp only at hf; subst hf
          simp [hlr1, AddDoneU]; exact ⟨ls1, hl1⟩
        · dsimp only at hctl hR
          cases c <;> simp [Ctl.goesOn] at hc <;> simp only [AddROU] at hR <;> simp only [Ctl.afterLoop] at hctl <;>
            subst hctl
          · obtain ⟨hur1, hrn1, hrv1, hpa1, hpw1, hpc1, hop1, hout1, hnd1, hnx1⟩ := hR
            lexec [addTail, seqTail, Gen.Src.«lfht._cds_lfht_add»]
            refine ⟨ls1, by rw [hx1, hpc, hmode] at hl1; exact hl1, .inr (.inr (.inl ⟨rfl, hout1, hpc1, hop1, hpa1, hpw1, hnd1, ?_, ?_, ?_⟩))⟩
            · simp [hnx1, encP_eq_encW]
            · simp
            · exact revView_set rev _ _ _ (fun k => rh_ne_field k _ _ (by decide)) hrv1
          · obtain ⟨rfl, hD⟩ := hR
            simp [hlr1, AddDoneU]; exact ⟨ls1, hl1, hD⟩
          · simp [hlr1, AddDoneU]; exact ⟨ls1, hl1⟩
          · simp [hlr1, AddDoneU]; exact ⟨ls1, hl1⟩
      | _ => simp at hl

end UrcuVerif.Src.LfhtUR
