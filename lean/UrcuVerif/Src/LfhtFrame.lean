import UrcuVerif.Src.LfhtLocal
/-!
# Frame lemma for the thread-local projection of `Lfht/Conc`

Every L2 label is a label of exactly one thread (the thread argument `u` of `step c s u L`).  A step of thread `u ≠ t`
leaves the record `s.th t` of thread `t` – hence `LfhtL.proj s t` – unchanged, **except** the two resize labels by
which a resize owner writes the record of a *helper* thread: `spawn t len` (thread `t` becomes a partition helper) and
`join t` (the helper `t` is joined).  There are no thread-less environment labels in this model (`gpStart`/`gpEnd`/
`reclaim`/`tblFree` are steps of the thread that performs them and write only global fields and that thread's record).
-/
namespace UrcuVerif.Src.LfhtL
open UrcuVerif UrcuVerif.Lfht.Conc

theorem setTh_th_ne (s : State) (u t : Nat) (x : Thr) (h : t ≠ u) : (setTh s u x).th t = s.th t := by
  simp [setTh, upd, h]

theorem replTest_th (s : State) (u t : Nat) (x : Thr) (w : W) (h : t ≠ u) : (replTest s u x w).1.th t = s.th t := by
  unfold replTest; split
  · split <;> simp [setTh_th_ne, h]
  · simp [setTh_th_ne, h]

theorem walkRet_th (s : State) (u t : Nat) (x : Thr) (n : Nat) (w : W) (h : t ≠ u) :
    (walkRet s u x n w).1.th t = s.th t := by
  unfold walkRet; split
  · split
    · simp [setTh_th_ne, h]
    · split
      · exact replTest_th s u t _ w h
      · simp [setTh_th_ne, h]
  · simp [setTh_th_ne, h]

theorem walkPos_th (s : State) (u t : Nat) (x : Thr) (n : Nat) (h : t ≠ u) : (walkPos s u x n).1.th t = s.th t := by
  unfold walkPos; split
  · exact walkRet_th s u t x 0 {} h
  · simp [setTh_th_ne, h]

theorem addDone_th (s : State) (u t : Nat) (x : Thr) (h : t ≠ u) : (addDone s u x).1.th t = s.th t := by
  unfold addDone; split <;> simp [setTh_th_ne, h]

@[simp] theorem tick_th' (s : State) (t : Nat) : (tick s).th t = s.th t := rfl

/-- closes `(tick (f …).1).th t = s.th t` for the four state-returning helpers -/
macro "pair_frame" : tactic => `(tactic| first
  | exact walkPos_th _ _ _ _ _ ‹_ ≠ _›
  | exact walkRet_th _ _ _ _ _ _ ‹_ ≠ _›
  | exact replTest_th _ _ _ _ _ ‹_ ≠ _›
  | exact addDone_th _ _ _ _ ‹_ ≠ _›)

theorem stepApi_th (c : Cfg) (s s' : State) (u t : Nat) (x : Thr) (L : Label) (o : Out) (htu : t ≠ u)
    (h : stepApi c s u x L = some (s', o)) : s'.th t = s.th t := by
  cases L <;> simp only [stepApi] at h <;> (try cases h)
  all_goals (repeat' split at h)
  all_goals (try cases h)
  all_goals first
    | rfl
    | (simp [setTh_th_ne, htu]; done)
    | pair_frame

theorem stepAdd_th (c : Cfg) (s s' : State) (u t : Nat) (x : Thr) (L : Label) (o : Out) (htu : t ≠ u)
    (h : stepAdd c s u x L = some (s', o)) : s'.th t = s.th t := by
  cases L <;> simp only [stepAdd, crash] at h <;> (try cases h)
  all_goals (repeat' split at h)
  all_goals (try cases h)
  all_goals first
    | rfl
    | (simp [setTh_th_ne, unlink, htu]; done)
    | pair_frame

theorem stepWalk_th (c : Cfg) (s s' : State) (u t : Nat) (x : Thr) (L : Label) (o : Out) (htu : t ≠ u)
    (h : stepWalk c s u x L = some (s', o)) : s'.th t = s.th t := by
  cases L <;> simp only [stepWalk, crash] at h <;> (try cases h)
  all_goals (repeat' split at h)
  all_goals (try cases h)
  all_goals first
    | rfl
    | (simp [setTh_th_ne, htu]; done)
    | pair_frame

theorem stepRepl_th (c : Cfg) (s s' : State) (u t : Nat) (x : Thr) (L : Label) (o : Out) (htu : t ≠ u)
    (h : stepRepl c s u x L = some (s', o)) : s'.th t = s.th t := by
  cases L <;> simp only [stepRepl, crash] at h <;> (try cases h)
  all_goals (repeat' split at h)
  all_goals (try cases h)
  all_goals first
    | rfl
    | (simp [setTh_th_ne, htu]; done)
    | pair_frame

theorem stepGc_th (c : Cfg) (s s' : State) (u t : Nat) (x : Thr) (L : Label) (o : Out) (htu : t ≠ u)
    (h : stepGc c s u x L = some (s', o)) : s'.th t = s.th t := by
  cases L <;> simp only [stepGc, crash] at h <;> (try cases h)
  all_goals (repeat' split at h)
  all_goals (try cases h)
  all_goals first
    | rfl
    | (simp [setTh_th_ne, htu]; done)
    | pair_frame

theorem stepDel_th (c : Cfg) (s s' : State) (u t : Nat) (x : Thr) (L : Label) (o : Out) (htu : t ≠ u)
    (h : stepDel c s u x L = some (s', o)) : s'.th t = s.th t := by
  cases L <;> simp only [stepDel, crash] at h <;> (try cases h)
  all_goals (repeat' split at h)
  all_goals (try cases h)
  all_goals first
    | rfl
    | (simp [setTh_th_ne, htu]; done)
    | pair_frame

theorem stepRz_th (c : Cfg) (s s' : State) (u t : Nat) (x : Thr) (L : Label) (o : Out) (htu : t ≠ u)
    (hsp : ∀ len, L ≠ .spawn t len) (hjn : L ≠ .join t)
    (h : stepRz c s u x L = some (s', o)) : s'.th t = s.th t := by
  cases L <;> simp only [stepRz] at h <;> (try cases h)
  case spawn v len =>
    have hv : t ≠ v := fun e => hsp len (by rw [e])
    split at h <;> cases h
    simp [setTh_th_ne, htu, hv]
  case join v =>
    have hv : t ≠ v := fun e => hjn (by rw [e])
    split at h <;> cases h
    simp [setTh_th_ne, htu, hv]
  all_goals (repeat' split at h)
  all_goals (try cases h)
  all_goals first
    | rfl
    | (simp [setTh_th_ne, htu]; done)

/-- **frame**: a step of another thread `u ≠ t` leaves `t`'s record unchanged, unless it is `spawn t _` / `join t`
(the resize owner `u` starts / joins the partition helper `t`) -/
theorem frame (c : Cfg) (s s' : State) (u t : Nat) (L : Label) (o : Out) (htu : t ≠ u)
    (hsp : ∀ len, L ≠ .spawn t len) (hjn : L ≠ .join t)
    (h : step c s u L = some (s', o)) : s'.th t = s.th t := by
  unfold step at h
  split at h
  · cases h
  · dsimp only at h
    split at h <;> first
      | exact stepApi_th c s s' u t _ _ o htu h
      | exact stepAdd_th c s s' u t _ _ o htu h
      | exact stepWalk_th c s s' u t _ _ o htu h
      | exact stepRepl_th c s s' u t _ _ o htu h
      | exact stepGc_th c s s' u t _ _ o htu h
      | exact stepDel_th c s s' u t _ _ o htu h
      | exact stepRz_th c s s' u t _ _ o htu hsp hjn h

/-- … hence the local projection -/
theorem frame_proj (c : Cfg) (s s' : State) (u t : Nat) (L : Label) (o o0 : Out) (htu : t ≠ u)
    (hsp : ∀ len, L ≠ .spawn t len) (hjn : L ≠ .join t)
    (h : step c s u L = some (s', o)) : proj s' t o0 = proj s t o0 := by
  unfold proj; rw [frame c s s' u t L o htu hsp hjn h]

end UrcuVerif.Src.LfhtL
