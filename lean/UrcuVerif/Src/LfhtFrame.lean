import UrcuVerif.Src.LfhtLocal
/-!
# Frame lemma for the thread-local projection of `Lfht/Conc`

Every L2 label is a label of exactly one thread (the thread argument `u` of `step c s u L`).  A step of thread `u ≠ t`
leaves the record `s.th t` of thread `t` – hence `LfhtL.proj s t` – unchanged, **except** the two resize labels by
which a resize owner writes the record of a *helper* thread: `spawn t len` (thread `t` becomes a partition helper) and
`join t` (the helper `t` is joined).  There are no thread-less environment labels in this model (`gpStart`/`gpEnd`/
`reclaim`/`tblFree` are steps of the thread that performs them and write only global fields and that thread's record).
-/
namespace UrcuVerif.Src.LfhtL
open UrcuVerif UrcuVerif.Lfht.Conc

theorem setTh_th_ne (s : State) (u t : Nat) (x : Thr) (h : t ≠ u) : (setTh s u x).th t = s.th t := by
  simp [setTh, upd, h]

theorem replTest_th (s : State) (u t : Nat) (x : Thr) (w : W) (h : t ≠ u) : (replTest s u x w).1.th t = s.th t := by
  unfold replTest; split
  · split <;> simp [setTh_th_ne, h]
  · simp [setTh_th_ne, h]

theorem walkRet_th (s : State) (u t : Nat) (x : Thr) (n : Nat) (w : W) (h : t ≠ u) :
    (walkRet s u x n w).1.th t = s.th t := by
  unfold walkRet; split
  · split
    · simp [setTh_th_ne, h]
    · split
      · exact replTest_th s u t _ w h
      · simp [setTh_th_ne, h]
  · simp [setTh_th_ne, h]

theorem walkPos_th (s : State) (u t : Nat) (x : Thr) (n : Nat) (h : t ≠ u) : (walkPos s u x n).1.th t = s.th t := by
  unfold walkPos; split
  · exact walkRet_th s u t x 0 {} h
  · simp [setTh_th_ne, h]

theorem addDone_th (s : State) (u t : Nat) (x : Thr) (h : t ≠ u) : (addDone s u x).1.th t = s.th t := by
  unfold addDone; split <;> simp [setTh_th_ne, h]

end UrcuVerif.Src.LfhtL
