import UrcuVerif.Src.SyncGp
/-!
# `synchronize_rcu` (memb / mb)

`gpBlock master wfr` = the grace period proper (the `else` branch of `if (cds_list_empty(&registry)) goto out;`):
master barrier (`uMbarRet`) → pass 1 → `cmm_barrier; cmm_smp_mb` → store `rcu_gp.ctr ^ URCU_GP_CTR_PHASE` (`uFlip`) →
`cmm_barrier; cmm_smp_mb` → pass 2 → `cds_list_splice` (`uP2Done`) → master barrier (`uEnd`).

`syncT` = the whole function; the five wait-queue callees (`urcu_wait_add`, `urcu_adaptative_busy_wait`,
`urcu_wait_set_state`, `urcu_move_waiters`, `urcu_wake_all_waiters`: the batching of callers in front of and behind the grace
period, not part of the Flip model) are holes of the template, ASSUMED `Quiet` (every event silent for the Flip checker, at
pc `idle`; `rcu_gp.ctr` and the configuration globals untouched in the private view).
-/
set_option maxRecDepth 8192
set_option linter.unusedSimpArgs false
set_option linter.unusedVariables false
namespace UrcuVerif.Src.Sync
open UrcuVerif UrcuVerif.Src UrcuVerif.Gen.Src

def wfrParams : List String := ["input_readers", "cur_snap_readers", "qsreaders", "group"]
def callP1 (wfr : Stmt) : Stmt :=
  .call none wfrParams [.addrGlob "registry", .addrGlob "&cur_snap_readers", .addrGlob "&qsreaders", .addrGlob "&acquire_group"] wfr
def callP2 (wfr : Stmt) : Stmt :=
  .call none wfrParams [.addrGlob "&cur_snap_readers", .null, .addrGlob "&qsreaders", .addrGlob "&acquire_group"] wfr
def stFlip : Stmt :=
  .prim none .ustore [.fieldAddr (.addrGlob "rcu_gp") "ctr",
    .bin .bxor (.pload (.fieldAddr (.addrGlob "rcu_gp") "ctr")) (.cst "URCU_GP_CTR_PHASE" (4294967296)), .cst "CMM_RELAXED" (0)]
def stSplice : Stmt := .prim none (.ext "cds_list_splice") [.addrGlob "&qsreaders", .addrGlob "registry"]

def gpBlock (master wfr : Stmt) : Stmt :=
  block [(.call none [] [] master), callP1 wfr, (.prim none .barrier []), (.prim none .mb []), stFlip,
    (.prim none .barrier []), (.prim none .mb []), callP2 wfr, stSplice, (.call none [] [] master)]

/-- state of the updater between the statements of `synchronize_rcu`: pc, phase, no pending move, `rcu_gp.ctr` in the
private view, the master barrier's precondition, and a fact `K` about the lists -/
def GInv (MPre : (Loc → Option Val) → Prop) (upc : Gp.UPc) (g : Bool) (K : LState → Prop) (vars : String → Option Val) :
    Env → SS → Prop := fun env ss =>
  env.vars = vars ∧ ss.ls.upc = upc ∧ ss.ls.gp = g ∧ ss.pend = none ∧ env.priv gpCtr = some (.int (encGp g)) ∧
  MPre env.priv ∧ K ss.ls

def GPost (MPre : (Loc → Option Val) → Prop) (upc : Gp.UPc) (g : Bool) (K : LState → Prop)
    (vars : String → Option Val) : Post := fun ctl env ss _ =>
  match ctl with
  | .normal => GInv MPre upc g K vars env ss
  | .blocked | .fuel => True
  | _ => False

/-- what the pass needs of `wait_for_readers` (instances: `memb_wfr_holds`, `mb_wfr_holds`) -/
def WfrSpec (trk : Bool) (wfr : Stmt) (MPre : (Loc → Option Val) → Prop) : Prop :=
  ∀ fuel hd csv gv g upc env inp ss wins,
    WfrPre { hd := hd, csv := csv, gv := gv, g := g, upc := upc, MPre := MPre } env ss →
    Holds trk (exec fuel wfr env inp) ss wins (WfrPost { hd := hd, csv := csv, gv := gv, g := g, upc := upc, MPre := MPre })

theorem decW_encGp (g : Bool) : (decW (encGp g)).2 = g := by simp [decW, encGp_bit]

theorem fence_holds (trk fuel) (p : Prim) (hp : p = .barrier ∨ p = .mb) (MPre upc g K vars env inp ss wins)
    (hu : upc = .p1 ∨ upc = .p2) (hI : GInv MPre upc g K vars env ss) :
    Holds trk (exec fuel (.prim none p []) env inp) ss wins (GPost MPre upc g K vars) := by
  intro out ho
  obtain ⟨⟨u, gp, reg, inpl, snap, qs⟩, pend⟩ := ss
  obtain ⟨h1, h2, h3, h4, h5, h6, h7⟩ := hI
  simp only at h2; subst h2
  rcases hp with rfl | rfl <;> exec_simp_at ho [] <;> subst ho <;> rcases hu with rfl | rfl <;>
    abs_simp [GPost] <;> exact ⟨h1, rfl, h3, h4, h5, h6, h7⟩

theorem pass_holds (trk fuel wfr MPre) (hW : WfrSpec trk wfr MPre) (g : Bool) (vars) (env inp ss wins)
    (args : List Expr) (hd : Loc) (csv : Val) (upc : Gp.UPc)
    (hargs : evalArgs env args = .ok [.ptr hd, csv, .ptr qsr, .ptr (.glob "&acquire_group")])
    (hpass : Pass upc hd csv) (hI : GInv MPre upc g (fun _ => True) vars env ss) :
    Holds trk (exec fuel (.call none wfrParams args wfr) env inp) ss wins
      (GPost MPre upc g (fun ls => inputOf ls = []) vars) := by
  obtain ⟨h1, h2, h3, h4, h5, h6, _⟩ := hI
  refine Holds.callN hargs rfl (hW fuel hd csv (.ptr (.glob "&acquire_group")) g upc _ inp ss wins
    ⟨rfl, rfl, rfl, rfl, h5, h6, hpass, h2, h3, h4⟩) ?_ ?_ ?_ ?_ ?_
  · intro e s w h
    obtain ⟨⟨_, _, _, _, _, a6, a7, _, a9, a10, a11⟩, hnil⟩ := h
    exact ⟨h1, a9, a10, a11, a6, a7, hnil⟩
  · intro e s w h; exact h.elim
  · intro v e s w h; exact h.elim
  · intro e s w h; trivial
  · intro e s w h; trivial

theorem flip_holds (trk fuel MPre) (hS : MStable MPre) (g : Bool) (vars env inp ss wins)
    (hI : GInv MPre .p1 g (fun ls => inputOf ls = []) vars env ss) :
    Holds trk (exec fuel stFlip env inp) ss wins (GPost MPre .p2 (!g) (fun _ => True) vars) := by
  intro out ho
  obtain ⟨⟨u, gp, reg, inpl, snap, qs⟩, pend⟩ := ss
  obtain ⟨h1, h2, h3, h4, h5, h6, h7⟩ := hI
  simp only at h2 h3 h4; subst h2; subst h3; subst h4
  have hnil : inpl = [] := by simpa [inputOf] using h7
  subst hnil
  simp only [gpCtr] at h5
  have hS' := hS _ gpCtr (.int (encGp (!gp))) (Or.inr (Or.inl rfl)) h6
  simp only [gpCtr] at hS'
  cases gp <;> simp only [encGp] at h5 hS' <;> simp at h5 hS' <;>
    exec_simp_at ho [stFlip, h5] <;> subst ho <;>
    abs_simp [GPost, GInv, h1, decW, encGp, show Nat.testBit 4294967297 32 = true from by decide,
      show Nat.testBit 1 32 = false from by decide] <;> exact hS'


theorem splice_holds (trk fuel MPre) (g : Bool) (vars env inp ss wins)
    (hI : GInv MPre .p2 g (fun ls => inputOf ls = []) vars env ss) :
    Holds trk (exec fuel stSplice env inp) ss wins (GPost MPre .mbar2 g (fun _ => True) vars) := by
  intro out ho
  obtain ⟨⟨u, gp, reg, inpl, snap, qs⟩, pend⟩ := ss
  obtain ⟨h1, h2, h3, h4, h5, h6, h7⟩ := hI
  simp only at h2 h3 h4; subst h2; subst h3; subst h4
  have hnil : snap = [] := by simpa [inputOf] using h7
  subst hnil
  cases inp <;> exec_simp_at ho [stSplice] <;> subst ho <;> abs_simp [GPost, GInv, h1]
  exact ⟨h5, h6⟩

theorem masterG_holds (trk fuel master MPre) (hM : MasterSpec trk master MPre) (g : Bool) (vars env inp ss wins)
    (upc upc' : Gp.UPc) (hu : (upc = .mbar1 ∧ upc' = .p1) ∨ (upc = .mbar2 ∧ upc' = .idle))
    (hI : GInv MPre upc g (fun _ => True) vars env ss) :
    Holds trk (exec fuel (.call none [] [] master) env inp) ss wins (GPost MPre upc' g (fun _ => True) vars) := by
  obtain ⟨h1, h2, h3, h4, h5, h6, _⟩ := hI
  refine (hM fuel env inp ss wins h6).mono ?_
  intro ctl e s w h
  rcases h with ⟨rfl, rfl, rfl, hm1, hm2⟩ | rfl | rfl
  · rcases hu with ⟨rfl, rfl⟩ | ⟨rfl, rfl⟩ <;> simp only [h2] at hm2 <;>
      exact ⟨h1, by rw [hm2], by rw [hm2]; exact h3, by rw [hm1]; exact h4, h5, h6, trivial⟩
  · trivial
  · trivial

theorem GPost_nn {MPre upc g K vars} {MPre' upc' g' K' vars'} (ctl e s w) (hn : ctl ≠ .normal)
    (h : GPost MPre upc g K vars ctl e s w) : GPost MPre' upc' g' K' vars' ctl e s w := by
  cases ctl <;> simp_all [GPost]

theorem GInv_weaken {MPre upc g K vars env ss} (h : GInv MPre upc g K vars env ss) :
    GInv MPre upc g (fun _ => True) vars env ss := by
  obtain ⟨h1, h2, h3, h4, h5, h6, _⟩ := h; exact ⟨h1, h2, h3, h4, h5, h6, trivial⟩

/-- the grace period proper: from pc `mbar1` (after `uStart`) back to pc `idle`, phase flipped -/
theorem gpBlock_holds (trk fuel master wfr MPre) (hM : MasterSpec trk master MPre) (hW : WfrSpec trk wfr MPre)
    (hS : MStable MPre) (g : Bool) (vars env inp ss wins) (hI : GInv MPre .mbar1 g (fun _ => True) vars env ss) :
    Holds trk (exec fuel (gpBlock master wfr) env inp) ss wins (GPost MPre .idle (!g) (fun _ => True) vars) := by
  refine Holds.seq (masterG_holds trk fuel master MPre hM g vars env inp ss wins _ _ (Or.inl ⟨rfl, rfl⟩) hI) ?_
    (fun ctl e s w hn h => GPost_nn ctl e s w hn h)
  intro e i s w hq
  refine Holds.seq (pass_holds trk fuel wfr MPre hW g vars e i s w _ registry (.ptr curSnap) .p1
    (by simp [evalArgs, eval, bind, Except.bind, registry, curSnap, qsr]) (Or.inl ⟨rfl, rfl, rfl⟩) hq) ?_
    (fun ctl e s w hn h => GPost_nn ctl e s w hn h)
  intro e i s w hq
  refine Holds.seq (fence_holds trk fuel .barrier (Or.inl rfl) MPre .p1 g (fun ls => inputOf ls = []) vars e i s w (Or.inl rfl) hq) ?_
    (fun ctl e s w hn h => GPost_nn ctl e s w hn h)
  intro e i s w hq
  refine Holds.seq (fence_holds trk fuel .mb (Or.inr rfl) MPre .p1 g (fun ls => inputOf ls = []) vars e i s w (Or.inl rfl) hq) ?_
    (fun ctl e s w hn h => GPost_nn ctl e s w hn h)
  intro e i s w hq
  refine Holds.seq (flip_holds trk fuel MPre hS g vars e i s w hq) ?_
    (fun ctl e s w hn h => GPost_nn ctl e s w hn h)
  intro e i s w hq
  refine Holds.seq (fence_holds trk fuel .barrier (Or.inl rfl) MPre .p2 (!g) (fun _ => True) vars e i s w (Or.inr rfl) hq) ?_
    (fun ctl e s w hn h => GPost_nn ctl e s w hn h)
  intro e i s w hq
  refine Holds.seq (fence_holds trk fuel .mb (Or.inr rfl) MPre .p2 (!g) (fun _ => True) vars e i s w (Or.inr rfl) hq) ?_
    (fun ctl e s w hn h => GPost_nn ctl e s w hn h)
  intro e i s w hq
  refine Holds.seq (pass_holds trk fuel wfr MPre hW (!g) vars e i s w _ curSnap (.int 0) .p2
    (by simp [evalArgs, eval, bind, Except.bind, registry, curSnap, qsr]) (Or.inr ⟨rfl, rfl, rfl⟩) hq) ?_
    (fun ctl e s w hn h => GPost_nn ctl e s w hn h)
  intro e i s w hq
  refine Holds.seq (splice_holds trk fuel MPre (!g) vars e i s w hq) ?_
    (fun ctl e s w hn h => GPost_nn ctl e s w hn h)
  intro e i s w hq
  exact masterG_holds trk fuel master MPre hM (!g) vars e i s w _ _ (Or.inr ⟨rfl, rfl⟩) hq

/-! ## the whole function -/

def stWaitInit : Stmt := .pstore (.fieldAddr (.addrGlob "&wait") "state") (.cst "URCU_WAIT_WAITING" (0))
def stLockGp : Stmt := .prim none (.ext "mutex_lock") [.addrGlob "rcu_gp_lock"]
def stLockReg : Stmt := .prim none (.ext "mutex_lock") [.addrGlob "rcu_registry_lock"]
def stUnlockReg : Stmt := .prim none (.ext "mutex_unlock") [.addrGlob "rcu_registry_lock"]
def stUnlockGp : Stmt := .prim none (.ext "mutex_unlock") [.addrGlob "rcu_gp_lock"]
def stRegEmpty : Stmt := .prim (some "_t2") (.ext "cds_list_empty") [.addrGlob "registry"]

def syncT (master wfr q1 q2 q3 q4 q5 : Stmt) : Stmt :=
  block [(.assign "_goto_out" (.lit 0)), stWaitInit, q1,
    (.ifte (.bin .ne (.var "_t1") (.lit 0)) (block [q2, (.ret none)]) (.skip)),
    q3, stLockGp, q4, stLockReg, stRegEmpty,
    (.ifte (.var "_t2") (.assign "_goto_out" (.lit 1)) (.skip)),
    (.ifte (.var "_goto_out") (.skip) (gpBlock master wfr)),
    (.assign "_goto_out" (.lit 0)), stUnlockReg, stUnlockGp, q5]

def qWaitAdd : Stmt := .call (some "_t1") ["queue", "node"] [.addrGlob "gp_waiters", .addrGlob "&wait"] «urcu_wait_add»
def qBusyWait : Stmt := .call none ["wait"] [.addrGlob "&wait"] «urcu_adaptative_busy_wait»
def qSetState : Stmt := .call none ["node", "state"] [.addrGlob "&wait", .cst "URCU_WAIT_RUNNING" (2)] «urcu_wait_set_state»
def qMoveWaiters : Stmt := .call none ["waiters", "queue"] [.addrGlob "&waiters", .addrGlob "gp_waiters"] «urcu_move_waiters»
def qWakeAll : Stmt := .call none ["waiters"] [.addrGlob "&waiters"] «urcu_wake_all_waiters»

theorem memb_sync_eq : «memb.synchronize_rcu» =
    syncT «memb.smp_mb_master» «memb.wait_for_readers» qWaitAdd qBusyWait qSetState qMoveWaiters qWakeAll := rfl
theorem mb_sync_eq : «mb.synchronize_rcu» =
    syncT «mb.smp_mb_master» «mb.wait_for_readers» qWaitAdd qBusyWait qSetState qMoveWaiters qWakeAll := rfl

/-- ASSUMPTION on a wait-queue callee (the call statement `st`, result in `dst`): at pc `idle` all its events are silent
for the Flip checker, it leaves `rcu_gp.ctr` and the master barrier's precondition alone in the private view, and (being a
call) it changes no local of the caller except `dst`, which it sets -/
def Quiet (trk : Bool) (MPre : (Loc → Option Val) → Prop) (st : Stmt) (dst : Option String) : Prop :=
  ∀ fuel env inp ss wins, ss.ls.upc = .idle → ss.pend = none →
    Holds trk (exec fuel st env inp) ss wins (fun ctl e s _ =>
      match ctl with
      | .normal => s = ss ∧ e.priv gpCtr = env.priv gpCtr ∧ (MPre env.priv → MPre e.priv) ∧
          (∀ x, some x ≠ dst → e.vars x = env.vars x) ∧ (∀ x, dst = some x → ∃ v, e.vars x = some v)
      | .blocked | .fuel => True
      | _ => False)

/-- before the grace period: pc `idle`, phase `g`, `V` = what is known about the locals -/
def PI (MPre : (Loc → Option Val) → Prop) (g : Bool) (V : (String → Option Val) → Prop) (env : Env) (ss : SS) : Prop :=
  ss.ls.upc = .idle ∧ ss.pend = none ∧ ss.ls.gp = g ∧ env.priv gpCtr = some (.int (encGp g)) ∧ MPre env.priv ∧ V env.vars

def SP (MPre : (Loc → Option Val) → Prop) (g : Bool) (V : (String → Option Val) → Prop) : Post := fun ctl env ss _ =>
  match ctl with
  | .normal => PI MPre g V env ss
  | .ret none => ss.ls.upc = .idle ∧ ss.pend = none
  | .blocked | .fuel => True
  | _ => False

/-- a completed `synchronize_rcu` (leader: `normal`; non-leader: `return` after the busy wait) leaves the updater
automaton at pc `idle` -/
def SyncPost : Post := fun ctl _ ss _ =>
  match ctl with
  | .normal | .ret none => ss.ls.upc = .idle ∧ ss.pend = none
  | .blocked | .fuel => True
  | _ => False

theorem SP_nn {MPre g V g' V'} (ctl e s w) (hn : ctl ≠ .normal) (h : SP MPre g V ctl e s w) : SP MPre g' V' ctl e s w := by
  cases ctl <;> simp_all [SP]
  rename_i v; cases v <;> simp_all

theorem quiet_step (trk MPre st dst) (hQ : Quiet trk MPre st dst) (g V V') (fuel env inp ss wins)
    (hV : ∀ vars vars', V vars → (∀ x, some x ≠ dst → vars' x = vars x) → (∀ x, dst = some x → ∃ v, vars' x = some v) → V' vars')
    (hI : PI MPre g V env ss) : Holds trk (exec fuel st env inp) ss wins (SP MPre g V') := by
  obtain ⟨h1, h2, h3, h4, h5, h6⟩ := hI
  refine (hQ fuel env inp ss wins h1 h2).mono ?_
  intro ctl e s w h
  cases ctl <;> simp_all [SP]
  obtain ⟨rfl, a2, a3, a4, a5⟩ := h
  exact ⟨h1, h2, h3, a2, a3, hV _ _ h6 a4 a5⟩

theorem ext_silent (trk fuel MPre g V env inp ss wins) (name x : String)
    (hs : ∀ ss r, absExt trk ss name [.ptr (.glob x)] r = .step [] ss.pend) (hI : PI MPre g V env ss) :
    Holds trk (exec fuel (.prim none (.ext name) [.addrGlob x]) env inp) ss wins (SP MPre g V) := by
  intro out ho
  obtain ⟨ls, pend⟩ := ss
  cases inp <;> simp [exec, evalArgs, eval, execPrim, bind, Except.bind, setDst] at ho <;> subst ho
  · simp [Ok_nil_iff, SP]
  · simp only [Ok_cons, absEv, hs, lrun, Ok_nil_iff, SP]; exact hI

theorem lockGp_holds (trk fuel MPre g V env inp ss wins) (hI : PI MPre g V env ss) :
    Holds trk (exec fuel stLockGp env inp) ss wins (SP MPre g V) :=
  ext_silent trk fuel MPre g V env inp ss wins _ _ (by intro ss r; simp [absExt, regLock]) hI
theorem unlockReg_holds (trk fuel MPre g V env inp ss wins) (hI : PI MPre g V env ss) :
    Holds trk (exec fuel stUnlockReg env inp) ss wins (SP MPre g V) :=
  ext_silent trk fuel MPre g V env inp ss wins _ _ (by intro ss r; simp [absExt, regLock]) hI
theorem unlockGp_holds (trk fuel MPre g V env inp ss wins) (hI : PI MPre g V env ss) :
    Holds trk (exec fuel stUnlockGp env inp) ss wins (SP MPre g V) :=
  ext_silent trk fuel MPre g V env inp ss wins _ _ (by intro ss r; simp [absExt, regLock]) hI

end UrcuVerif.Src.Sync
