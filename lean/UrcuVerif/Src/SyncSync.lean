import UrcuVerif.Src.SyncGp
/-!
# `synchronize_rcu` (memb / mb)

`gpBlock master wfr` = the grace period proper (the `else` branch of `if (cds_list_empty(&registry)) goto out;`):
master barrier (`uMbarRet`) → pass 1 → `cmm_barrier; cmm_smp_mb` → store `rcu_gp.ctr ^ URCU_GP_CTR_PHASE` (`uFlip`) →
`cmm_barrier; cmm_smp_mb` → pass 2 → `cds_list_splice` (`uP2Done`) → master barrier (`uEnd`).

`syncT` = the whole function; the five wait-queue callees (`urcu_wait_add`, `urcu_adaptative_busy_wait`,
`urcu_wait_set_state`, `urcu_move_waiters`, `urcu_wake_all_waiters`: the batching of callers in front of and behind the grace
period, not part of the Flip model) are holes of the template, ASSUMED `Quiet` (every event silent for the Flip checker, at
pc `idle`; `rcu_gp.ctr` and the configuration globals untouched in the private view).
-/
set_option maxRecDepth 8192
set_option linter.unusedSimpArgs false
set_option linter.unusedVariables false
namespace UrcuVerif.Src.Sync
open UrcuVerif UrcuVerif.Src UrcuVerif.Gen.Src

def wfrParams : List String := ["input_readers", "cur_snap_readers", "qsreaders", "group"]
def callP1 (wfr : Stmt) : Stmt :=
  .call none wfrParams [.addrGlob "registry", .addrGlob "&cur_snap_readers", .addrGlob "&qsreaders", .addrGlob "&acquire_group"] wfr
def callP2 (wfr : Stmt) : Stmt :=
  .call none wfrParams [.addrGlob "&cur_snap_readers", .null, .addrGlob "&qsreaders", .addrGlob "&acquire_group"] wfr
def stFlip : Stmt :=
  .prim none .ustore [.fieldAddr (.addrGlob "rcu_gp") "ctr",
    .bin .bxor (.pload (.fieldAddr (.addrGlob "rcu_gp") "ctr")) (.cst "URCU_GP_CTR_PHASE" (4294967296)), .cst "CMM_RELAXED" (0)]
def stSplice : Stmt := .prim none (.ext "cds_list_splice") [.addrGlob "&qsreaders", .addrGlob "registry"]

def gpBlock (master wfr : Stmt) : Stmt :=
  block [(.call none [] [] master), callP1 wfr, (.prim none .barrier []), (.prim none .mb []), stFlip,
    (.prim none .barrier []), (.prim none .mb []), callP2 wfr, stSplice, (.call none [] [] master)]

/-- state of the updater between the statements of `synchronize_rcu`: pc, phase, no pending move, `rcu_gp.ctr` in the
private view, the master barrier's precondition, and a fact `K` about the lists -/
def GInv (MPre : (Loc → Option Val) → Prop) (upc : Gp.UPc) (g : Bool) (K : LState → Prop) (vars : String → Option Val) :
    Env → SS → Prop := fun env ss =>
  env.vars = vars ∧ ss.ls.upc = upc ∧ ss.ls.gp = g ∧ ss.pend = none ∧ env.priv gpCtr = some (.int (encGp g)) ∧
  MPre env.priv ∧ K ss.ls

def GPost (MPre : (Loc → Option Val) → Prop) (upc : Gp.UPc) (g : Bool) (K : LState → Prop)
    (vars : String → Option Val) : Post := fun ctl env ss _ =>
  match ctl with
  | .normal => GInv MPre upc g K vars env ss
  | .blocked | .fuel => True
  | _ => False

/-- what the pass needs of `wait_for_readers` (instances: `memb_wfr_holds`, `mb_wfr_holds`) -/
def WfrSpec (trk : Bool) (wfr : Stmt) (MPre : (Loc → Option Val) → Prop) : Prop :=
  ∀ fuel hd csv gv g upc env inp ss wins,
    WfrPre { hd := hd, csv := csv, gv := gv, g := g, upc := upc, MPre := MPre } env ss →
    Holds trk (exec fuel wfr env inp) ss wins (WfrPost { hd := hd, csv := csv, gv := gv, g := g, upc := upc, MPre := MPre })

theorem decW_encGp (g : Bool) : (decW (encGp g)).2 = g := by simp [decW, encGp_bit]

theorem fence_holds (trk fuel) (p : Prim) (hp : p = .barrier ∨ p = .mb) (MPre upc g K vars env inp ss wins)
    (hu : upc = .p1 ∨ upc = .p2) (hI : GInv MPre upc g K vars env ss) :
    Holds trk (exec fuel (.prim none p []) env inp) ss wins (GPost MPre upc g K vars) := by
  intro out ho
  obtain ⟨⟨u, gp, reg, inpl, snap, qs⟩, pend⟩ := ss
  obtain ⟨h1, h2, h3, h4, h5, h6, h7⟩ := hI
  simp only at h2; subst h2
  rcases hp with rfl | rfl <;> exec_simp_at ho [] <;> subst ho <;> rcases hu with rfl | rfl <;>
    abs_simp [GPost] <;> exact ⟨h1, rfl, h3, h4, h5, h6, h7⟩

theorem pass_holds (trk fuel wfr MPre) (hW : WfrSpec trk wfr MPre) (g : Bool) (vars) (env inp ss wins)
    (args : List Expr) (hd : Loc) (csv : Val) (upc : Gp.UPc)
    (hargs : evalArgs env args = .ok [.ptr hd, csv, .ptr qsr, .ptr (.glob "&acquire_group")])
    (hpass : Pass upc hd csv) (hI : GInv MPre upc g (fun _ => True) vars env ss) :
    Holds trk (exec fuel (.call none wfrParams args wfr) env inp) ss wins
      (GPost MPre upc g (fun ls => inputOf ls = []) vars) := by
  obtain ⟨h1, h2, h3, h4, h5, h6, _⟩ := hI
  refine Holds.callN hargs rfl (hW fuel hd csv (.ptr (.glob "&acquire_group")) g upc _ inp ss wins
    ⟨rfl, rfl, rfl, rfl, h5, h6, hpass, h2, h3, h4⟩) ?_ ?_ ?_ ?_ ?_
  · intro e s w h
    obtain ⟨⟨_, _, _, _, _, a6, a7, _, a9, a10, a11⟩, hnil⟩ := h
    exact ⟨h1, a9, a10, a11, a6, a7, hnil⟩
  · intro e s w h; exact h.elim
  · intro v e s w h; exact h.elim
  · intro e s w h; trivial
  · intro e s w h; trivial

theorem flip_holds (trk fuel MPre) (hS : MStable MPre) (g : Bool) (vars env inp ss wins)
    (hI : GInv MPre .p1 g (fun ls => inputOf ls = []) vars env ss) :
    Holds trk (exec fuel stFlip env inp) ss wins (GPost MPre .p2 (!g) (fun _ => True) vars) := by
  intro out ho
  obtain ⟨⟨u, gp, reg, inpl, snap, qs⟩, pend⟩ := ss
  obtain ⟨h1, h2, h3, h4, h5, h6, h7⟩ := hI
  simp only at h2 h3 h4; subst h2; subst h3; subst h4
  have hnil : inpl = [] := by simpa [inputOf] using h7
  subst hnil
  simp only [gpCtr] at h5
  have hS' := hS _ gpCtr (.int (encGp (!gp))) (Or.inr (Or.inl rfl)) h6
  simp only [gpCtr] at hS'
  cases gp <;> simp only [encGp] at h5 hS' <;> simp at h5 hS' <;>
    exec_simp_at ho [stFlip, h5] <;> subst ho <;>
    abs_simp [GPost, GInv, h1, decW, encGp, show Nat.testBit 4294967297 32 = true from by decide,
      show Nat.testBit 1 32 = false from by decide] <;> exact hS'


theorem splice_holds (trk fuel MPre) (g : Bool) (vars env inp ss wins)
    (hI : GInv MPre .p2 g (fun ls => inputOf ls = []) vars env ss) :
    Holds trk (exec fuel stSplice env inp) ss wins (GPost MPre .mbar2 g (fun _ => True) vars) := by
  intro out ho
  obtain ⟨⟨u, gp, reg, inpl, snap, qs⟩, pend⟩ := ss
  obtain ⟨h1, h2, h3, h4, h5, h6, h7⟩ := hI
  simp only at h2 h3 h4; subst h2; subst h3; subst h4
  have hnil : snap = [] := by simpa [inputOf] using h7
  subst hnil
  cases inp <;> exec_simp_at ho [stSplice] <;> subst ho <;> abs_simp [GPost, GInv, h1]
  exact ⟨h5, h6⟩

theorem masterG_holds (trk fuel master MPre) (hM : MasterSpec trk master MPre) (g : Bool) (vars env inp ss wins)
    (upc upc' : Gp.UPc) (hu : (upc = .mbar1 ∧ upc' = .p1) ∨ (upc = .mbar2 ∧ upc' = .idle))
    (hI : GInv MPre upc g (fun _ => True) vars env ss) :
    Holds trk (exec fuel (.call none [] [] master) env inp) ss wins (GPost MPre upc' g (fun _ => True) vars) := by
  obtain ⟨h1, h2, h3, h4, h5, h6, _⟩ := hI
  refine (hM fuel env inp ss wins h6).mono ?_
  intro ctl e s w h
  rcases h with ⟨rfl, rfl, rfl, hm1, hm2⟩ | rfl | rfl
  · rcases hu with ⟨rfl, rfl⟩ | ⟨rfl, rfl⟩ <;> simp only [h2] at hm2 <;>
      exact ⟨h1, by rw [hm2], by rw [hm2]; exact h3, by rw [hm1]; exact h4, h5, h6, trivial⟩
  · trivial
  · trivial

theorem GPost_nn {MPre upc g K vars} {MPre' upc' g' K' vars'} (ctl e s w) (hn : ctl ≠ .normal)
    (h : GPost MPre upc g K vars ctl e s w) : GPost MPre' upc' g' K' vars' ctl e s w := by
  cases ctl <;> simp_all [GPost]

theorem GInv_weaken {MPre upc g K vars env ss} (h : GInv MPre upc g K vars env ss) :
    GInv MPre upc g (fun _ => True) vars env ss := by
  obtain ⟨h1, h2, h3, h4, h5, h6, _⟩ := h; exact ⟨h1, h2, h3, h4, h5, h6, trivial⟩

/-- the grace period proper: from pc `mbar1` (after `uStart`) back to pc `idle`, phase flipped -/
theorem gpBlock_holds (trk fuel master wfr MPre) (hM : MasterSpec trk master MPre) (hW : WfrSpec trk wfr MPre)
    (hS : MStable MPre) (g : Bool) (vars env inp ss wins) (hI : GInv MPre .mbar1 g (fun _ => True) vars env ss) :
    Holds trk (exec fuel (gpBlock master wfr) env inp) ss wins (GPost MPre .idle (!g) (fun _ => True) vars) := by
  refine Holds.seq (masterG_holds trk fuel master MPre hM g vars env inp ss wins _ _ (Or.inl ⟨rfl, rfl⟩) hI) ?_
    (fun ctl e s w hn h => GPost_nn ctl e s w hn h)
  intro e i s w hq
  refine Holds.seq (pass_holds trk fuel wfr MPre hW g vars e i s w _ registry (.ptr curSnap) .p1
    (by simp [evalArgs, eval, bind, Except.bind, registry, curSnap, qsr]) (Or.inl ⟨rfl, rfl, rfl⟩) hq) ?_
    (fun ctl e s w hn h => GPost_nn ctl e s w hn h)
  intro e i s w hq
  refine Holds.seq (fence_holds trk fuel .barrier (Or.inl rfl) MPre .p1 g (fun ls => inputOf ls = []) vars e i s w (Or.inl rfl) hq) ?_
    (fun ctl e s w hn h => GPost_nn ctl e s w hn h)
  intro e i s w hq
  refine Holds.seq (fence_holds trk fuel .mb (Or.inr rfl) MPre .p1 g (fun ls => inputOf ls = []) vars e i s w (Or.inl rfl) hq) ?_
    (fun ctl e s w hn h => GPost_nn ctl e s w hn h)
  intro e i s w hq
  refine Holds.seq (flip_holds trk fuel MPre hS g vars e i s w hq) ?_
    (fun ctl e s w hn h => GPost_nn ctl e s w hn h)
  intro e i s w hq
  refine Holds.seq (fence_holds trk fuel .barrier (Or.inl rfl) MPre .p2 (!g) (fun _ => True) vars e i s w (Or.inr rfl) hq) ?_
    (fun ctl e s w hn h => GPost_nn ctl e s w hn h)
  intro e i s w hq
  refine Holds.seq (fence_holds trk fuel .mb (Or.inr rfl) MPre .p2 (!g) (fun _ => True) vars e i s w (Or.inr rfl) hq) ?_
    (fun ctl e s w hn h => GPost_nn ctl e s w hn h)
  intro e i s w hq
  refine Holds.seq (pass_holds trk fuel wfr MPre hW (!g) vars e i s w _ curSnap (.int 0) .p2
    (by simp [evalArgs, eval, bind, Except.bind, registry, curSnap, qsr]) (Or.inr ⟨rfl, rfl, rfl⟩) hq) ?_
    (fun ctl e s w hn h => GPost_nn ctl e s w hn h)
  intro e i s w hq
  refine Holds.seq (splice_holds trk fuel MPre (!g) vars e i s w hq) ?_
    (fun ctl e s w hn h => GPost_nn ctl e s w hn h)
  intro e i s w hq
  exact masterG_holds trk fuel master MPre hM (!g) vars e i s w _ _ (Or.inr ⟨rfl, rfl⟩) hq

/-! ## the whole function -/

def stWaitInit : Stmt := .pstore (.fieldAddr (.addrGlob "&wait") "state") (.cst "URCU_WAIT_WAITING" (0))
def stLockGp : Stmt := .prim none (.ext "mutex_lock") [.addrGlob "rcu_gp_lock"]
def stLockReg : Stmt := .prim none (.ext "mutex_lock") [.addrGlob "rcu_registry_lock"]
def stUnlockReg : Stmt := .prim none (.ext "mutex_unlock") [.addrGlob "rcu_registry_lock"]
def stUnlockGp : Stmt := .prim none (.ext "mutex_unlock") [.addrGlob "rcu_gp_lock"]
def stRegEmpty : Stmt := .prim (some "_t2") (.ext "cds_list_empty") [.addrGlob "registry"]

def syncT (master wfr q1 q2 q3 q4 q5 : Stmt) : Stmt :=
  block [(.assign "_goto_out" (.lit 0)), stWaitInit, q1,
    (.ifte (.bin .ne (.var "_t1") (.lit 0)) (block [q2, (.ret none)]) (.skip)),
    q3, stLockGp, q4, stLockReg, stRegEmpty,
    (.ifte (.var "_t2") (.assign "_goto_out" (.lit 1)) (.skip)),
    (.ifte (.var "_goto_out") (.skip) (gpBlock master wfr)),
    (.assign "_goto_out" (.lit 0)), stUnlockReg, stUnlockGp, q5]

def qWaitAdd : Stmt := .call (some "_t1") ["queue", "node"] [.addrGlob "gp_waiters", .addrGlob "&wait"] «urcu_wait_add»
def qBusyWait : Stmt := .call none ["wait"] [.addrGlob "&wait"] «urcu_adaptative_busy_wait»
def qSetState : Stmt := .call none ["node", "state"] [.addrGlob "&wait", .cst "URCU_WAIT_RUNNING" (2)] «urcu_wait_set_state»
def qMoveWaiters : Stmt := .call none ["waiters", "queue"] [.addrGlob "&waiters", .addrGlob "gp_waiters"] «urcu_move_waiters»
def qWakeAll : Stmt := .call none ["waiters"] [.addrGlob "&waiters"] «urcu_wake_all_waiters»

theorem memb_sync_eq : «memb.synchronize_rcu» =
    syncT «memb.smp_mb_master» «memb.wait_for_readers» qWaitAdd qBusyWait qSetState qMoveWaiters qWakeAll := rfl
theorem mb_sync_eq : «mb.synchronize_rcu» =
    syncT «mb.smp_mb_master» «mb.wait_for_readers» qWaitAdd qBusyWait qSetState qMoveWaiters qWakeAll := rfl

/-- ASSUMPTION on a wait-queue callee (the call statement `st`, result in `dst`): at pc `idle` all its events are silent
for the Flip checker, it leaves `rcu_gp.ctr` and the master barrier's precondition alone in the private view, and (being a
call) it changes no local of the caller except `dst`, which it sets -/
def Quiet (trk : Bool) (MPre : (Loc → Option Val) → Prop) (st : Stmt) (dst : Option String) : Prop :=
  ∀ fuel env inp ss wins, ss.ls.upc = .idle → ss.pend = none →
    Holds trk (exec fuel st env inp) ss wins (fun ctl e s _ =>
      match ctl with
      | .normal => s = ss ∧ e.priv gpCtr = env.priv gpCtr ∧ (MPre env.priv → MPre e.priv) ∧
          (∀ x, some x ≠ dst → e.vars x = env.vars x) ∧ (∀ x, dst = some x → ∃ v, e.vars x = some v)
      | .blocked | .fuel => True
      | _ => False)

/-- before the grace period: pc `idle`, phase `g`, `V` = what is known about the locals -/
def PI (MPre : (Loc → Option Val) → Prop) (g : Bool) (V : (String → Option Val) → Prop) (env : Env) (ss : SS) : Prop :=
  ss.ls.upc = .idle ∧ ss.pend = none ∧ ss.ls.gp = g ∧ env.priv gpCtr = some (.int (encGp g)) ∧ MPre env.priv ∧ V env.vars

def SP (MPre : (Loc → Option Val) → Prop) (g : Bool) (V : (String → Option Val) → Prop) : Post := fun ctl env ss _ =>
  match ctl with
  | .normal => PI MPre g V env ss
  | .ret none => ss.ls.upc = .idle ∧ ss.pend = none
  | .blocked | .fuel => True
  | _ => False

/-- a completed `synchronize_rcu` (leader: `normal`; non-leader: `return` after the busy wait) leaves the updater
automaton at pc `idle` -/
def SyncPost : Post := fun ctl _ ss _ =>
  match ctl with
  | .normal | .ret none => ss.ls.upc = .idle ∧ ss.pend = none
  | .blocked | .fuel => True
  | _ => False

theorem SP_nn {MPre g V g' V'} (ctl e s w) (hn : ctl ≠ .normal) (h : SP MPre g V ctl e s w) : SP MPre g' V' ctl e s w := by
  cases ctl <;> simp_all [SP]
  rename_i v; cases v <;> simp_all

theorem quiet_step (trk MPre st dst) (hQ : Quiet trk MPre st dst) (g V V') (fuel env inp ss wins)
    (hV : ∀ vars vars', V vars → (∀ x, some x ≠ dst → vars' x = vars x) → (∀ x, dst = some x → ∃ v, vars' x = some v) → V' vars')
    (hI : PI MPre g V env ss) : Holds trk (exec fuel st env inp) ss wins (SP MPre g V') := by
  obtain ⟨h1, h2, h3, h4, h5, h6⟩ := hI
  refine (hQ fuel env inp ss wins h1 h2).mono ?_
  intro ctl e s w h
  cases ctl <;> simp_all [SP]
  obtain ⟨rfl, a2, a3, a4, a5⟩ := h
  exact ⟨h1, h2, h3, a2, a3, hV _ _ h6 a4 a5⟩

theorem ext_silent (trk fuel MPre g V env inp ss wins) (name x : String)
    (hs : ∀ ss r, absExt trk ss name [.ptr (.glob x)] r = .step [] ss.pend) (hI : PI MPre g V env ss) :
    Holds trk (exec fuel (.prim none (.ext name) [.addrGlob x]) env inp) ss wins (SP MPre g V) := by
  intro out ho
  obtain ⟨ls, pend⟩ := ss
  cases inp <;> simp [exec, evalArgs, eval, execPrim, bind, Except.bind, setDst] at ho <;> subst ho
  · simp [Ok_nil_iff, SP]
  · simp only [Ok_cons, absEv, hs, lrun, Ok_nil_iff, SP]; exact hI

theorem lockGp_holds (trk fuel MPre g V env inp ss wins) (hI : PI MPre g V env ss) :
    Holds trk (exec fuel stLockGp env inp) ss wins (SP MPre g V) :=
  ext_silent trk fuel MPre g V env inp ss wins _ _ (by intro ss r; simp [absExt, regLock]) hI
theorem unlockReg_holds (trk fuel MPre g V env inp ss wins) (hI : PI MPre g V env ss) :
    Holds trk (exec fuel stUnlockReg env inp) ss wins (SP MPre g V) :=
  ext_silent trk fuel MPre g V env inp ss wins _ _ (by intro ss r; simp [absExt, regLock]) hI
theorem unlockGp_holds (trk fuel MPre g V env inp ss wins) (hI : PI MPre g V env ss) :
    Holds trk (exec fuel stUnlockGp env inp) ss wins (SP MPre g V) :=
  ext_silent trk fuel MPre g V env inp ss wins _ _ (by intro ss r; simp [absExt, regLock]) hI

theorem SP_sync {MPre g V} (ctl e s w) (hn : ctl ≠ .normal) (h : SP MPre g V ctl e s w) : SyncPost ctl e s w := by
  cases ctl <;> simp_all [SP, SyncPost]
  rename_i v; cases v <;> simp_all

theorem tail_holds (trk fuel MPre q5) (hq5 : Quiet trk MPre q5 none) (g env inp ss wins)
    (hI : PI MPre g (fun _ => True) env ss) :
    Holds trk (exec fuel (block [(.assign "_goto_out" (.lit 0)), stUnlockReg, stUnlockGp, q5]) env inp) ss wins SyncPost := by
  refine Holds.seq (Qa := SP MPre g (fun _ => True)) ?_ ?_ (fun ctl e s w hn h => SP_sync ctl e s w hn h)
  · intro out ho; exec_simp_at ho []; subst ho
    simp only [Ok_nil_iff, SP]; exact hI
  intro e i s w hq
  refine Holds.seq (unlockReg_holds trk fuel MPre g (fun _ => True) e i s w hq) ?_ (fun ctl e s w hn h => SP_sync ctl e s w hn h)
  intro e i s w hq
  refine Holds.seq (unlockGp_holds trk fuel MPre g (fun _ => True) e i s w hq) ?_ (fun ctl e s w hn h => SP_sync ctl e s w hn h)
  intro e i s w hq
  refine (hq5 fuel e i s w hq.1 hq.2.1).mono ?_
  intro ctl e' s' w' h
  cases ctl <;> simp_all [SyncPost]
  obtain ⟨rfl, _⟩ := h; exact ⟨hq.1, hq.2.1⟩

/-- `cds_list_empty(&registry)` under both locks: `uStartEmpty` (stay at `idle`) or `uStart` (to `mbar1`) -/
def A9 (MPre : (Loc → Option Val) → Prop) (g : Bool) : Post := fun ctl env ss _ =>
  match ctl with
  | .normal => ∃ r, env.vars "_t2" = some r ∧ env.vars "_goto_out" = some (.int 0) ∧
      (if r.truthy then PI MPre g (fun _ => True) env ss else GInv MPre .mbar1 g (fun _ => True) env.vars env ss)
  | .blocked | .fuel => True
  | _ => False

theorem regEmpty_holds (trk fuel MPre g env inp ss wins)
    (hI : PI MPre g (fun vars => vars "_goto_out" = some (.int 0)) env ss) :
    Holds trk (exec fuel stRegEmpty env inp) ss wins (A9 MPre g) := by
  intro out ho
  obtain ⟨⟨u, gp, reg, inpl, snap, qs⟩, pend⟩ := ss
  obtain ⟨h1, h2, h3, h4, h5, h6⟩ := hI
  simp only at h1 h2 h3; subst h1; subst h2; subst h3
  cases inp with
  | nil => exec_simp_at ho [stRegEmpty]; subst ho; simp [Ok_nil_iff, A9]
  | cons r rest =>
    simp [stRegEmpty, exec, evalArgs, eval, execPrim, bind, Except.bind, setDst, Env.setVar] at ho; subst ho
    by_cases hr : r.truthy = true
    · by_cases hreg : reg = []
      · subst hreg
        simp [Ok_cons, absEv, absExt, registry, hr, lrun, lstep, Ok_nil_iff, A9, h6]
        exact ⟨rfl, rfl, rfl, h4, h5, trivial⟩
      · simp [Ok_cons, absEv, absExt, registry, hr, hreg]
    · by_cases hreg : reg = []
      · simp [Ok_cons, absEv, absExt, registry, hr, hreg]
      · simp [Ok_cons, absEv, absExt, registry, hr, lrun, lstep, Ok_nil_iff, A9, h6, hreg]
        exact ⟨rfl, rfl, rfl, rfl, h4, h5, trivial⟩

theorem lockReg_holds (trk fuel MPre g V env inp ss wins) (hI : PI MPre g V env ss) :
    Holds trk (exec fuel stLockReg env inp) ss wins (SP MPre g V) := by
  intro out ho
  obtain ⟨ls, pend⟩ := ss
  obtain ⟨ls', hl1, hl2, hl3⟩ := lrun_env (wins.head?.getD []) ls
  obtain ⟨h1, h2, h3, h4, h5, h6⟩ := hI
  cases inp <;> exec_simp_at ho [stLockReg] <;> subst ho <;> abs_simp [SP, hl1, PI]
  exact ⟨by rw [hl2]; exact h1, h2, by rw [hl3]; exact h3, h4, h5, h6⟩

theorem eval_ne0 (env : Env) (v : Val) (h : env.vars "_t1" = some v) :
    eval env (.bin .ne (.var "_t1") (.lit 0)) = .ok (boolV (v ≠ .int 0)) := by
  cases v <;> simp [eval, h, bind, Except.bind, evalBin]

theorem A9_sync {MPre g} (ctl e s w) (hn : ctl ≠ .normal) (h : A9 MPre g ctl e s w) : SyncPost ctl e s w := by
  cases ctl <;> simp_all [A9, SyncPost]

/-- after `if (cds_list_empty(&registry)) goto out;` … `out:` -/
def A11 (MPre : (Loc → Option Val) → Prop) : Post := fun ctl env ss _ =>
  match ctl with
  | .normal => ∃ g', PI MPre g' (fun _ => True) env ss
  | .blocked | .fuel => True
  | _ => False

theorem GInv_PI {MPre g vars env ss} (h : GInv MPre .idle g (fun _ => True) vars env ss) : PI MPre g (fun _ => True) env ss := by
  obtain ⟨h1, h2, h3, h4, h5, h6, _⟩ := h; exact ⟨h2, h4, h3, h5, h6, trivial⟩

set_option maxHeartbeats 800000 in
theorem syncT_holds (trk fuel master wfr q1 q2 q3 q4 q5 MPre) (hM : MasterSpec trk master MPre)
    (hW : WfrSpec trk wfr MPre) (hS : MStable MPre) (hq1 : Quiet trk MPre q1 (some "_t1"))
    (hq2 : Quiet trk MPre q2 none) (hq3 : Quiet trk MPre q3 none) (hq4 : Quiet trk MPre q4 none)
    (hq5 : Quiet trk MPre q5 none) (g : Bool) (env inp ss wins) (hI : PI MPre g (fun _ => True) env ss) :
    Holds trk (exec fuel (syncT master wfr q1 q2 q3 q4 q5) env inp) ss wins SyncPost := by
  let V1 : (String → Option Val) → Prop := fun vars => vars "_goto_out" = some (.int 0)
  let V2 : (String → Option Val) → Prop := fun vars => vars "_goto_out" = some (.int 0) ∧ ∃ v, vars "_t1" = some v
  have hnn : ∀ {g V} ctl e s w, ctl ≠ .normal → SP MPre g V ctl e s w → SyncPost ctl e s w :=
    fun ctl e s w hn h => SP_sync ctl e s w hn h
  have keep : ∀ vars vars' : String → Option Val, V1 vars → (∀ x, some x ≠ (none : Option String) → vars' x = vars x) →
      (∀ x, (none : Option String) = some x → ∃ v, vars' x = some v) → V1 vars' := by
    intro vars vars' h1 h2 _; show vars' "_goto_out" = _; rw [h2 _ (by simp)]; exact h1
  -- _goto_out = 0
  refine Holds.seq (Qa := SP MPre g V1) ?_ ?_ hnn
  · intro out ho; exec_simp_at ho []; subst ho
    obtain ⟨h1, h2, h3, h4, h5, _⟩ := hI
    simp only [Ok_nil_iff, SP]; exact ⟨h1, h2, h3, h4, h5, by simp [V1]⟩
  intro e i s w hq
  -- wait.state = URCU_WAIT_WAITING
  refine Holds.seq (Qa := SP MPre g V1) ?_ ?_ hnn
  · intro out ho; exec_simp_at ho [stWaitInit]; subst ho
    obtain ⟨h1, h2, h3, h4, h5, h6⟩ := hq
    simp only [Ok_nil_iff, SP]
    refine ⟨h1, h2, h3, ?_, hS _ _ _ (Or.inr (Or.inr ⟨rfl, 0, rfl⟩)) h5, h6⟩
    simpa [gpCtr] using h4
  intro e i s w hq
  -- urcu_wait_add
  refine Holds.seq (quiet_step trk MPre q1 _ hq1 g V1 V2 fuel e i s w ?_ hq) ?_ hnn
  · intro vars vars' h1 h2 h3
    exact ⟨by show vars' "_goto_out" = _; rw [h2 _ (by simp)]; exact h1, h3 _ rfl⟩
  intro e i s w hq
  -- not the leader: busy wait and return
  refine Holds.seq (Qa := SP MPre g V1) ?_ ?_ hnn
  · obtain ⟨v, hv⟩ := hq.2.2.2.2.2.2
    rw [exec_ifte _ _ _ _ _ _ _ (eval_ne0 e v hv)]
    by_cases hv0 : v = .int 0
    · simp [boolV, hv0, Val.truthy]
      intro out ho; simp only [exec, Except.ok.injEq] at ho; subst ho
      obtain ⟨h1, h2, h3, h4, h5, h6, _⟩ := hq
      simp only [Ok_nil_iff, SP]; exact ⟨h1, h2, h3, h4, h5, h6⟩
    · simp [boolV, hv0, Val.truthy]
      refine Holds.seq (quiet_step trk MPre q2 _ hq2 g V2 V1 fuel e i s w ?_ hq) ?_ (fun ctl e s w hn h => SP_nn ctl e s w hn h)
      · intro vars vars' h1 h2 _; show vars' "_goto_out" = _; rw [h2 _ (by simp)]; exact h1.1
      intro e i s w hq out ho
      simp only [block, exec, Except.ok.injEq] at ho; subst ho
      simp only [Ok_nil_iff, SP]; exact ⟨hq.1, hq.2.1⟩
  intro e i s w hq
  refine Holds.seq (quiet_step trk MPre q3 _ hq3 g V1 V1 fuel e i s w keep hq) ?_ hnn
  intro e i s w hq
  refine Holds.seq (lockGp_holds trk fuel MPre g V1 e i s w hq) ?_ hnn
  intro e i s w hq
  refine Holds.seq (quiet_step trk MPre q4 _ hq4 g V1 V1 fuel e i s w keep hq) ?_ hnn
  intro e i s w hq
  refine Holds.seq (lockReg_holds trk fuel MPre g V1 e i s w hq) ?_ hnn
  intro e i s w hq
  refine Holds.seq (regEmpty_holds trk fuel MPre g e i s w hq) ?_ (fun ctl e s w hn h => A9_sync ctl e s w hn h)
  intro e i s w hq
  obtain ⟨r, hr2, hgo, hcase⟩ := hq
  -- if (…) goto out
  refine Holds.seq (Qa := fun ctl e' s' w' => ctl = .normal ∧ s' = s ∧ e'.priv = e.priv ∧
      e'.vars "_goto_out" = some (.int (if r.truthy then 1 else 0)) ∧ (r.truthy = false → e' = e)) ?_ ?_
      (fun ctl e s w hn h => absurd h.1 hn)
  · rw [exec_ifte _ _ _ _ _ _ _ (eval_var e "_t2" r hr2)]
    by_cases ht : r.truthy = true
    · simp only [ht, if_true]
      intro out ho; exec_simp_at ho []; subst ho
      simp [Ok_nil_iff]
    · simp only [ht, if_false]
      intro out ho; simp [exec] at ho; subst ho
      simp [Ok_nil_iff, ht, hgo]
  intro e' i s' w' hq
  obtain ⟨_, rfl, hpriv, hgo', hsame⟩ := hq
  refine Holds.seq (Qa := A11 MPre) ?_ ?_ ?_
  · rw [exec_ifte _ _ _ _ _ _ _ (eval_var e' "_goto_out" _ hgo')]
    by_cases ht : r.truthy = true
    · simp only [ht, if_true] at hcase ⊢
      simp [Val.truthy]
      intro out ho; simp only [exec, Except.ok.injEq] at ho; subst ho
      obtain ⟨h1, h2, h3, h4, h5, _⟩ := hcase
      simp only [Ok_nil_iff, A11]
      exact ⟨g, h1, h2, h3, by rw [hpriv]; exact h4, by rw [hpriv]; exact h5, trivial⟩
    · simp only [ht, if_false] at hcase ⊢
      simp [Val.truthy]
      have he : e' = e := hsame (by simpa using ht)
      subst he
      refine (gpBlock_holds trk fuel master wfr MPre hM hW hS g _ e' i s' w' hcase).mono ?_
      intro ctl e2 s2 w2 h
      cases ctl with
      | normal => exact ⟨!g, GInv_PI h⟩
      | blocked => trivial
      | fuel => trivial
      | _ => exact h.elim
  · intro e2 i2 s2 w2 hq
    obtain ⟨g', hq⟩ := hq
    exact tail_holds trk fuel MPre q5 hq5 g' e2 i2 s2 w2 hq
  · intro ctl e2 s2 w2 hn h
    cases ctl <;> simp_all [A11, SyncPost]

/-! ## the generated values -/

theorem memb_wfr_spec (trk : Bool) : WfrSpec trk «memb.wait_for_readers» MembPre :=
  fun fuel hd csv gv g upc env inp ss wins h => memb_wfr_holds trk fuel hd csv gv g upc env inp ss wins h
theorem mb_wfr_spec (trk : Bool) : WfrSpec trk «mb.wait_for_readers» (fun _ => True) :=
  fun fuel hd csv gv g upc env inp ss wins h => mb_wfr_holds trk fuel hd csv gv g upc env inp ss wins h

/-- the assumption on the five wait-queue call statements of `synchronize_rcu` -/
def QueueQuiet (trk : Bool) (MPre : (Loc → Option Val) → Prop) : Prop :=
  Quiet trk MPre qWaitAdd (some "_t1") ∧ Quiet trk MPre qBusyWait none ∧ Quiet trk MPre qSetState none ∧
  Quiet trk MPre qMoveWaiters none ∧ Quiet trk MPre qWakeAll none

theorem memb_sync_holds (trk fuel) (hq : QueueQuiet trk MembPre) (g : Bool) (env inp ss wins)
    (hI : PI MembPre g (fun _ => True) env ss) :
    Holds trk (exec fuel «memb.synchronize_rcu» env inp) ss wins SyncPost := by
  rw [memb_sync_eq]
  exact syncT_holds trk fuel _ _ _ _ _ _ _ MembPre (memb_master_spec trk) (memb_wfr_spec trk) MembPre_stable
    hq.1 hq.2.1 hq.2.2.1 hq.2.2.2.1 hq.2.2.2.2 g env inp ss wins hI

theorem mb_sync_holds (trk fuel) (hq : QueueQuiet trk (fun _ => True)) (g : Bool) (env inp ss wins)
    (hI : PI (fun _ => True) g (fun _ => True) env ss) :
    Holds trk (exec fuel «mb.synchronize_rcu» env inp) ss wins SyncPost := by
  rw [mb_sync_eq]
  exact syncT_holds trk fuel _ _ _ _ _ _ _ (fun _ => True) (mb_master_spec trk) (mb_wfr_spec trk) mb_stable
    hq.1 hq.2.1 hq.2.2.1 hq.2.2.2.1 hq.2.2.2.2 g env inp ss wins hI

end UrcuVerif.Src.Sync
