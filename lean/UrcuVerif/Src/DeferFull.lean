import UrcuVerif.Src.DeferRefine
/-!
# `_defer_rcu`, full-queue path: `rcu_defer_barrier_thread()` inside `_defer_rcu`

When the loaded `tail` satisfies `head - tail >= DEFER_QUEUE_SIZE - 2` the owner flushes its own queue:
`mutex_lock_defer(&rcu_defer_mutex)`, `_rcu_defer_barrier_thread()` (plain loads of the own `head` / `tail` – the thread holds
the mutex, "Tail is only modified when lock is held" –; nothing queued: return; else `synchronize_rcu()` and
`rcu_defer_barrier_queue(&defer_queue, head)`), `mutex_unlock`; then it re-loads `tail`
(`urcu_posix_assert(head - tail == 0)`, rendered as a call of `abort` when it fails) and goes on with the encode part, which
is the same statement as on the non-full path (`encPart`).

`flushSpec` is the run of `rcu_defer_barrier_thread()` as a pure function of the oracle (one value per external call, the
words of the slot loads and the callbacks' "returns" for the loop `loopSpec`).
-/
set_option maxRecDepth 8192
set_option linter.unusedSimpArgs false
set_option linter.unusedVariables false
namespace UrcuVerif.Src.DeferR
open UrcuVerif UrcuVerif.Src UrcuVerif.Defer

/-- `cons_exec` in the form used after `generalize` -/
theorem cons_exec' {fuel : Nat} {env : Env} {inp : List Val} {rc : Except String Out}
    (hE : exec fuel Gen.Src.«rcu_defer_barrier_queue» env inp = rc) (base : Loc) (T H : Nat) (lo : BitVec 64)
    (hq : env.vars "queue" = some (.ptr base)) (hH : env.vars "head" = some (.int (H : Int)))
    (hT : env.priv (.field base "tail") = some (.int (T : Int)))
    (hlo : env.priv (.field base "last_fct_out") = some (wv lo)) (hw : WordInp inp) :
    ∃ o, rc = .ok o ∧
      o.inp = (loopSpec base H fuel T lo inp []).inp ∧
      ((loopSpec base H fuel T lo inp []).ctl = .normal →
        o.events = (loopSpec base H fuel T lo inp []).events ++ [.fence .mb, .st (.field base "tail") (.int (H : Int)) 0] ∧
        o.ctl = .normal ∧ (loopSpec base H fuel T lo inp []).i = H ∧
        o.env.priv (.field base "tail") = some (.int (H : Int)) ∧
        o.env.priv (.field base "last_fct_out") = some (wv (loopSpec base H fuel T lo inp []).lo) ∧
        ∀ l, l ≠ .field base "last_fct_out" → l ≠ .field base "tail" → o.env.priv l = env.priv l) ∧
      ((loopSpec base H fuel T lo inp []).ctl ≠ .normal →
        o.events = (loopSpec base H fuel T lo inp []).events ∧ o.ctl = (loopSpec base H fuel T lo inp []).ctl) := by
  subst hE
  exact cons_exec fuel env base T H lo inp hq hH hT hlo hw

theorem loopSpec_ctl (base : Loc) (H : Nat) : ∀ (n i : Nat) (lo : BitVec 64) (inp : List Val) (acc : List Event),
    (loopSpec base H n i lo inp acc).ctl = .normal ∨ (loopSpec base H n i lo inp acc).ctl = .blocked ∨
    (loopSpec base H n i lo inp acc).ctl = .fuel := by
  intro n
  induction n with
  | zero => intro i lo inp acc; simp [loopSpec]
  | succ n ih =>
    intro i lo inp acc
    unfold loopSpec
    split
    · simp
    · split
      · exact ih _ _ _ _
      · simp

theorem loopSpec_inp_sub (base : Loc) (H : Nat) : ∀ (n i : Nat) (lo : BitVec 64) (inp : List Val) (acc : List Event),
    ∀ v ∈ (loopSpec base H n i lo inp acc).inp, v ∈ inp := by
  intro n
  induction n with
  | zero => intro i lo inp acc v hv; simpa [loopSpec] using hv
  | succ n ih =>
    intro i lo inp acc v hv
    unfold loopSpec at hv
    split at hv
    · exact hv
    · split at hv
      · exact iterSpec_inp_sub base i lo inp v (ih _ _ _ _ v hv)
      · exact iterSpec_inp_sub base i lo inp v hv

/-- `&rcu_defer_mutex` -/
def mutexL : Loc := .glob "rcu_defer_mutex"
def lockE (v : Val) : Event := .ext "mutex_lock_defer" [.ptr mutexL] v
def unlockE (v : Val) : Event := .ext "mutex_unlock" [.ptr mutexL] v
def syncE (v : Val) : Event := .ext "synchronize_rcu" [] v

/-- outcome of `rcu_defer_barrier_thread()` -/
structure Flush where
  events : List Event
  inp : List Val
  ctl : Ctl
  lo : BitVec 64

/-- `rcu_defer_barrier_thread()` of the owner with private `head = H`, `tail = T`, `last_fct_out = lo` -/
def flushSpec (fuel H T : Nat) (lo : BitVec 64) : List Val → Flush
  | [] => ⟨[], [], .blocked, lo⟩
  | l :: [] => ⟨[lockE l], [], .blocked, lo⟩
  | l :: s :: r =>
    if H = T then ⟨[lockE l, unlockE s], r, .normal, lo⟩
    else if (loopSpec dq H fuel T lo r []).ctl = .normal then
      match (loopSpec dq H fuel T lo r []).inp with
      | [] => ⟨lockE l :: syncE s :: ((loopSpec dq H fuel T lo r []).events ++
                [.fence .mb, .st (.field dq "tail") (.int (H : Int)) 0]), [], .blocked, (loopSpec dq H fuel T lo r []).lo⟩
      | u :: r2 => ⟨lockE l :: syncE s :: ((loopSpec dq H fuel T lo r []).events ++
                [.fence .mb, .st (.field dq "tail") (.int (H : Int)) 0, unlockE u]), r2, .normal,
                (loopSpec dq H fuel T lo r []).lo⟩
    else ⟨lockE l :: syncE s :: (loopSpec dq H fuel T lo r []).events, (loopSpec dq H fuel T lo r []).inp,
          (loopSpec dq H fuel T lo r []).ctl, (loopSpec dq H fuel T lo r []).lo⟩

theorem barrier_thread_exec {fuel : Nat} {env : Env} {inp : List Val} {rc : Except String Out}
    (hE : exec fuel Gen.Src.«rcu_defer_barrier_thread» env inp = rc) (H T : Nat) (lo : BitVec 64)
    (hh : env.priv (.field dq "head") = some (.int (H : Int))) (hT : env.priv (.field dq "tail") = some (.int (T : Int)))
    (hlo : env.priv (.field dq "last_fct_out") = some (wv lo)) (hw : WordInp inp) :
    ∃ o, rc = .ok o ∧ o.events = (flushSpec fuel H T lo inp).events ∧ o.inp = (flushSpec fuel H T lo inp).inp ∧
      o.ctl = (flushSpec fuel H T lo inp).ctl ∧
      ((flushSpec fuel H T lo inp).ctl = .normal → o.env.vars = env.vars ∧
        o.env.priv (.field dq "tail") = some (.int (H : Int)) ∧
        o.env.priv (.field dq "last_fct_out") = some (wv (flushSpec fuel H T lo inp).lo) ∧
        ∀ l, l ≠ .field dq "last_fct_out" → l ≠ .field dq "tail" → o.env.priv l = env.priv l) := by
  subst hE
  simp only [dq] at hh hT hlo
  match inp, hw with
  | [], _ => exec_simp [Gen.Src.«rcu_defer_barrier_thread», Gen.Src.«_rcu_defer_barrier_thread», flushSpec]
  | [l], _ =>
    by_cases hHT : H = T
    · have : ((H : Int) - (T : Int) != 0) = false := by simp [hHT]
      exec_simp [Gen.Src.«rcu_defer_barrier_thread», Gen.Src.«_rcu_defer_barrier_thread», flushSpec, hh, hT, lockE, mutexL,
        evalUn, Val.truthy, this]
    · have : ((H : Int) - (T : Int) != 0) = true := by simp; omega
      exec_simp [Gen.Src.«rcu_defer_barrier_thread», Gen.Src.«_rcu_defer_barrier_thread», flushSpec, hh, hT, lockE, mutexL,
        evalUn, Val.truthy, this]
  | l :: s :: r, hw =>
    by_cases hHT : H = T
    · have : ((H : Int) - (T : Int) != 0) = false := by simp [hHT]
      exec_simp [Gen.Src.«rcu_defer_barrier_thread», Gen.Src.«_rcu_defer_barrier_thread», flushSpec, hh, hT, lockE, unlockE,
        mutexL, evalUn, Val.truthy, this, hHT]
      exact ⟨by simpa [dq] using hT, by simpa [dq] using hlo⟩
    · have : ((H : Int) - (T : Int) != 0) = true := by simp; omega
      have hwr : WordInp r := fun v hv => hw v (by simp [hv])
      exec_simp [Gen.Src.«rcu_defer_barrier_thread», Gen.Src.«_rcu_defer_barrier_thread», flushSpec, hh, hT, lockE, unlockE,
        syncE, mutexL, evalUn, Val.truthy, this, hHT]
      generalize hC : exec fuel Gen.Src.«rcu_defer_barrier_queue» _ _ = rc
      obtain ⟨o, rfl, c1, c2, c3⟩ := cons_exec' hC dq T H lo (by simp [bindParams, dq]) (by simp [bindParams])
        (by simpa [dq] using hT) (by simpa [dq] using hlo) hwr
      obtain ⟨oe, oenv, oi, oc⟩ := o
      simp only at c1 c2 c3 ⊢
      rcases loopSpec_ctl dq H fuel T lo r [] with hn | hn | hn
      · obtain ⟨e1, e2, -, e4, e5, e6⟩ := c2 hn
        subst e1 e2 c1
        cases hinp : (loopSpec dq H fuel T lo r []).inp with
        | nil => simp [hn, hinp, execPrim]
        | cons u r2 =>
          simp [hn, hinp, execPrim, e4, e5]
          exact e6
      · obtain ⟨e1, e2⟩ := c3 (by rw [hn]; decide)
        subst e1 e2 c1
        simp [hn]
      · obtain ⟨e1, e2⟩ := c3 (by rw [hn]; decide)
        subst e1 e2 c1
        simp [hn]

theorem flushSpec_ctl (fuel H T : Nat) (lo : BitVec 64) (inp : List Val) :
    (flushSpec fuel H T lo inp).ctl = .normal ∨ (flushSpec fuel H T lo inp).ctl = .blocked ∨
    (flushSpec fuel H T lo inp).ctl = .fuel := by
  match inp with
  | [] => simp [flushSpec]
  | [l] => simp [flushSpec]
  | l :: s :: r =>
    simp only [flushSpec]
    split
    · simp
    · split
      · split <;> simp
      · rename_i hn
        rcases loopSpec_ctl dq H fuel T lo r [] with h | h | h
        · exact absurd h hn
        · simp [h]
        · simp [h]

theorem WordInp.int {inp : List Val} (h : WordInp inp) : IntInp inp := fun v hv => by
  obtain ⟨w, rfl⟩ := h v hv; exact ⟨_, rfl⟩

/-! ## the encode part of `_defer_rcu` (common to both paths) -/

/-- the statement after the threshold test: encode, `wmb`, store `head`, `mb`, `wake_up_defer()` -/
def encPart : Stmt := match Gen.Src.«_defer_rcu» with
  | .seq _ (.seq _ (.seq _ (.seq _ r))) => r
  | _ => .skip
/-- the threshold test with the flush -/
def fullIf : Stmt := match Gen.Src.«_defer_rcu» with
  | .seq _ (.seq _ (.seq _ (.seq c _))) => c
  | _ => .skip

theorem defer_shape : Gen.Src.«_defer_rcu» =
    .seq (.assign "head" (.pload (.fieldAddr (.addrTls "defer_queue") "head")))
      (.seq (.prim (some "_t1") .uload [.fieldAddr (.addrTls "defer_queue") "tail", .cst "CMM_RELAXED" 0])
        (.seq (.assign "tail" (.var "_t1")) (.seq fullIf encPart))) := rfl

theorem encPart_exec {fuel : Nat} {env : Env} {r : Except String Out} (f p last : BitVec 64) (head : Nat)
    (rest : List Val) (hE : exec fuel encPart env rest = r)
    (hf : env.vars "fct" = some (wv f)) (hp : env.vars "p" = some (wv p))
    (hv : env.vars "head" = some (.int (head : Int)))
    (hl : env.priv (.field dq "last_fct_in") = some (wv last)) (hi : IntInp rest) :
    IsOut r
      (stores dq head (enc1 last f p).1 ++
        [.fence .wmb, .st (.field dq "head") (.int ((head : Int) + ((enc1 last f p).1.length : Nat))) 0, .fence .mb] ++
        (wakeSpec rest).1)
      (wakeSpec rest).2.1 (wakeSpec rest).2.2
      (wakePriv (fun m => if m = .field dq "head" then some (.int ((head : Int) + ((enc1 last f p).1.length : Nat)))
        else storesPriv dq (lastPriv env.priv last f p) head (enc1 last f p).1 m) rest) := by
  subst hE
  simp only [dq] at hl
  unfold encPart
  simp only [Gen.Src.«_defer_rcu», block]
  by_cases h1 : last = f ∧ isFct p = false ∧ p ≠ fctMark
  · obtain ⟨h1, h2, h3⟩ := h1
    have he : enc1 last f p = ([p], last) := by simp [enc1, h1, h2, h3]
    have hl' : lastPriv env.priv last f p = env.priv := by simp [lastPriv, h1, h2, h3]
    rw [he, hl']
    exec_simp [hf, hp, hv, hl, h1, h2, h3]
    generalize hW : exec fuel Gen.Src.«wake_up_defer» _ _ = rw
    obtain ⟨vars, rfl⟩ := wake_exec hW hi
    rcases wakeSpec_ctl rest hi with hc | hc <;>
      simp [IsOut, stores, storesPriv, dq, slot, hc] <;> congr
  · have hc1 : (last != f || isFct p || p == fctMark) = true := by
      by_cases a : last = f <;> by_cases b : isFct p = true <;> by_cases c : p = fctMark <;> simp_all
    have hc1' : (¬ last = f ∨ isFct p = true) ∨ p = fctMark := by simpa [or_assoc] using hc1
    have hl' : lastPriv env.priv last f p = fun m => if m = .field dq "last_fct_in" then some (wv f) else env.priv m := by
      simp [lastPriv, hc1]
    by_cases h2 : isFct f = true ∨ f = fctMark
    · have he : enc1 last f p = ([fctMark, f, p], f) := by
        have : (isFct f || f == fctMark) = true := by simpa using h2
        simp [enc1, hc1, this]
      have hm : (Val.int 18446744073709551614) = wv fctMark := by unfold wv; congr 1
      rw [he, hl']
      exec_simp [hf, hp, hv, hl, hc1', h2]
      generalize hW : exec fuel Gen.Src.«wake_up_defer» _ _ = rw
      obtain ⟨vars, rfl⟩ := wake_exec hW hi
      have e3 : (head : Int) + 1 + 1 + 1 = head + 3 := by omega
      rcases wakeSpec_ctl rest hi with hc | hc <;>
        simp [IsOut, stores, storesPriv, dq, slot, hc, hm, e3] <;> congr
    · have h2' : isFct f = false ∧ f ≠ fctMark := by
        by_cases a : isFct f = true <;> by_cases b : f = fctMark <;> simp_all
      have he : enc1 last f p = ([setFct f, p], f) := by
        have : (isFct f || f == fctMark) = false := by simp [h2'.1, h2'.2]
        simp [enc1, hc1, this]
      rw [he, hl']
      exec_simp [hf, hp, hv, hl, hc1', h2'.1, h2'.2]
      generalize hW : exec fuel Gen.Src.«wake_up_defer» _ _ = rw
      obtain ⟨vars, rfl⟩ := wake_exec hW hi
      have e2 : (head : Int) + 1 + 1 = head + 2 := by omega
      rcases wakeSpec_ctl rest hi with hc | hc <;>
        simp [IsOut, stores, storesPriv, dq, slot, hc, e2] <;> congr

theorem flushSpec_inp_sub (fuel H T : Nat) (lo : BitVec 64) (inp : List Val) :
    ∀ v ∈ (flushSpec fuel H T lo inp).inp, v ∈ inp := by
  intro v
  match inp with
  | [] => simp [flushSpec]
  | [l] => simp [flushSpec]
  | l :: s :: r =>
    simp only [flushSpec]
    split
    · intro h; simp [h]
    · split
      · split
        · simp
        · rename_i u r2 hinp
          intro h
          have : v ∈ (loopSpec dq H fuel T lo r []).inp := by rw [hinp]; simp [h]
          simp [loopSpec_inp_sub dq H fuel T lo r [] v this]
      · intro h; simp [loopSpec_inp_sub dq H fuel T lo r [] v h]

/-- the private view after the encode part, away from the words it writes -/
theorem encPriv_frame (priv : Loc → Option Val) (last f p : BitVec 64) (head : Nat) (hv : Val) (rest : List Val) (l : Loc)
    (l1 : l ≠ .field dq "head") (l2 : l ≠ .field dq "last_fct_in") (l3 : l ≠ futexL) (l4 : ∀ k, l ≠ slot dq k) :
    wakePriv (fun m => if m = .field dq "head" then some hv
      else storesPriv dq (lastPriv priv last f p) head (enc1 last f p).1 m) rest l = priv l := by
  rw [wakePriv_frame _ _ _ l3]
  simp only [l1, if_false]
  rw [storesPriv_frame dq _ l4]
  unfold lastPriv
  split
  · simp [l2]
  · rfl

theorem encPriv_lastIn (priv : Loc → Option Val) (last f p : BitVec 64) (head : Nat) (hv : Val) (rest : List Val)
    (hl : priv (.field dq "last_fct_in") = some (wv last)) :
    wakePriv (fun m => if m = .field dq "head" then some hv
      else storesPriv dq (lastPriv priv last f p) head (enc1 last f p).1 m) rest (.field dq "last_fct_in")
      = some (wv (enc1 last f p).2) := by
  rw [wakePriv_frame _ _ _ (by simp [dq, futexL])]
  have hne : (Loc.field dq "last_fct_in") ≠ Loc.field dq "head" := by simp
  simp only [hne, if_false]
  rw [storesPriv_frame dq (.field dq "last_fct_in") (fun k => slot_ne_field dq _ _ k)]
  simp only [enc1_snd]
  unfold lastPriv
  split
  · simp
  · rename_i hc
    have : last = f := by
      by_cases a : last = f
      · exact a
      · exfalso; apply hc; simp [a]
    rw [hl, this]

/-! ## `_defer_rcu`, full path -/

/-- **`_defer_rcu(fct, p)` when the loaded `tail` is at the threshold** (`head - tl ≥ DEFER_QUEUE_SIZE - 2`).  The run is
`ld tail`, then `rcu_defer_barrier_thread()` = `flushSpec` on the owner's own queue (private `tail = T`,
`last_fct_out = lo`), then – if that completed – the second load of `tail`; when it returns `head` (the value the flush
stored: `urcu_posix_assert(head - tail == 0)` holds) the encode part exactly as on the non-full path, from the same `head`. -/
theorem defer_exec_full (fuel : Nat) (env : Env) (f p last lo : BitVec 64) (head T : Nat) (tl : Int) (rest : List Val)
    (hf : env.vars "fct" = some (wv f)) (hp : env.vars "p" = some (wv p))
    (hh : env.priv (.field dq "head") = some (.int (head : Int)))
    (hl : env.priv (.field dq "last_fct_in") = some (wv last))
    (hT : env.priv (.field dq "tail") = some (.int (T : Int)))
    (hlo : env.priv (.field dq "last_fct_out") = some (wv lo))
    (hfull : 4094 ≤ (head : Int) - tl) (hw : WordInp rest) :
    ∃ out, exec fuel Gen.Src.«_defer_rcu» env (.int tl :: rest) = .ok out ∧
      ((flushSpec fuel head T lo rest).ctl ≠ .normal →
        out.events = .ld (.field dq "tail") (.int tl) 0 :: (flushSpec fuel head T lo rest).events ∧
        out.inp = (flushSpec fuel head T lo rest).inp ∧ out.ctl = (flushSpec fuel head T lo rest).ctl) ∧
      ((flushSpec fuel head T lo rest).ctl = .normal →
        ((flushSpec fuel head T lo rest).inp = [] →
          out.events = .ld (.field dq "tail") (.int tl) 0 :: (flushSpec fuel head T lo rest).events ∧ out.ctl = .blocked) ∧
        (∀ r2, (flushSpec fuel head T lo rest).inp = .int (head : Int) :: r2 →
          out.events = .ld (.field dq "tail") (.int tl) 0 :: ((flushSpec fuel head T lo rest).events ++
            .ld (.field dq "tail") (.int (head : Int)) 0 :: (stores dq head (enc1 last f p).1 ++
            [.fence .wmb, .st (.field dq "head") (.int ((head : Int) + ((enc1 last f p).1.length : Nat))) 0, .fence .mb] ++
            (wakeSpec r2).1)) ∧
          out.inp = (wakeSpec r2).2.1 ∧ out.ctl = (wakeSpec r2).2.2 ∧
          out.env.priv (.field dq "head") = some (.int ((head : Int) + ((enc1 last f p).1.length : Nat))) ∧
          out.env.priv (.field dq "last_fct_in") = some (wv (enc1 last f p).2) ∧
          out.env.priv (.field dq "tail") = some (.int (head : Int)) ∧
          out.env.priv (.field dq "last_fct_out") = some (wv (flushSpec fuel head T lo rest).lo))) := by
  rw [defer_shape]
  have hh' := hh
  simp only [dq] at hh'
  unfold fullIf
  simp only [Gen.Src.«_defer_rcu», block]
  exec_simp [hh', hfull]
  generalize hB : exec fuel Gen.Src.«rcu_defer_barrier_thread» _ _ = rb
  obtain ⟨o, rfl, b1, b2, b3, b4⟩ := barrier_thread_exec hB head T lo hh hT hlo hw
  obtain ⟨oe, oenv, oi, oc⟩ := o
  simp only at b1 b2 b3 b4 ⊢
  subst b1 b2 b3
  rcases flushSpec_ctl fuel head T lo rest with hn | hn | hn
  · obtain ⟨v1, v2, v3, v4⟩ := b4 hn
    have hl2 : oenv.priv (.field dq "last_fct_in") = some (wv last) := by
      rw [v4 _ (by simp) (by simp)]; exact hl
    cases hinp : (flushSpec fuel head T lo rest).inp with
    | nil => simp [hn, hinp, dq]
    | cons t2 r2 =>
      have hmem : ∀ v ∈ t2 :: r2, v ∈ rest := by
        intro v hv; rw [← hinp] at hv; exact flushSpec_inp_sub fuel head T lo rest v hv
      obtain ⟨w2, rfl⟩ := hw t2 (hmem t2 (by simp))
      have hi2 : IntInp r2 := fun v hv => (hw v (hmem v (by simp [hv]))).elim fun w h => ⟨_, h⟩
      simp only [hn, hinp]
      by_cases ht : wv w2 = .int (head : Int)
      · rw [ht]
        exec_simp [v1]
        generalize hP : exec fuel encPart _ _ = rp
        obtain ⟨vars, rfl⟩ := encPart_exec f p last head r2 hP (by simp [hf]) (by simp [hp]) (by simp) hl2 hi2
        rcases wakeSpec_ctl r2 hi2 with hc | hc
        · simp only [hc]
          refine ⟨_, rfl, ?_⟩
          refine ⟨by simp [dq], rfl, rfl, ?_, encPriv_lastIn _ _ _ _ _ _ _ hl2, ?_, ?_⟩
          · show wakePriv _ r2 (.field dq "head") = _
            rw [wakePriv_frame _ _ _ (by simp [dq, futexL])]; simp
          · show wakePriv _ r2 (.field dq "tail") = _
            rw [encPriv_frame _ _ _ _ _ _ _ (.field dq "tail") (by simp) (by simp) (by simp [dq, futexL])
              (fun k => slot_ne_field dq _ _ k)]
            exact v2
          · show wakePriv _ r2 (.field dq "last_fct_out") = _
            rw [encPriv_frame _ _ _ _ _ _ _ (.field dq "last_fct_out") (by simp) (by simp) (by simp [dq, futexL])
              (fun k => slot_ne_field dq _ _ k)]
            exact v3
        · simp only [hc]
          refine ⟨_, rfl, ?_⟩
          refine ⟨by simp [dq], rfl, rfl, ?_, encPriv_lastIn _ _ _ _ _ _ _ hl2, ?_, ?_⟩
          · show wakePriv _ r2 (.field dq "head") = _
            rw [wakePriv_frame _ _ _ (by simp [dq, futexL])]; simp
          · show wakePriv _ r2 (.field dq "tail") = _
            rw [encPriv_frame _ _ _ _ _ _ _ (.field dq "tail") (by simp) (by simp) (by simp [dq, futexL])
              (fun k => slot_ne_field dq _ _ k)]
            exact v2
          · show wakePriv _ r2 (.field dq "last_fct_out") = _
            rw [encPriv_frame _ _ _ _ _ _ _ (.field dq "last_fct_out") (by simp) (by simp) (by simp [dq, futexL])
              (fun k => slot_ne_field dq _ _ k)]
            exact v3
      · -- the assertion `head - tail == 0` fails: `abort()`; nothing is claimed, the run does not fail in the IR
        have ht' : ¬ ((head : Int) - (w2.toNat : Int) = 0) := by
          intro h; apply ht; unfold wv; congr 1; omega
        match r2, hi2 with
        | [], _ =>
          exec_simp [v1, wv, ht']
          intros; omega
        | a :: r3, hi2 =>
          have hi3 : IntInp r3 := fun v hv => hi2 v (by simp [hv])
          exec_simp [v1, wv, ht']
          generalize hP : exec fuel encPart _ _ = rp
          obtain ⟨vars, rfl⟩ := encPart_exec f p last head r3 hP (by simp [hf]) (by simp [hp]) (by simp) hl2 hi3
          rcases wakeSpec_ctl r3 hi3 with hc | hc <;> simp [hc] <;> (intros; omega)
  · simp [hn, dq]
  · simp [hn, dq]

/-! ## the flush against the model -/

/-- **`rcu_defer_barrier_thread()` ⊑ `Defer.runQ` on the own queue up to the own `head`** (the model's
`flushSnapshot ; gp ; flushRun`): a completed flush whose slot loads returned the content of the model's ring has made exactly
the calls `runQ` decodes, in order, and leaves `last_fct_out` as the model; `synchronize_rcu()` is called before the first
callback iff something is queued. -/
theorem flushSpec_model (fuel : Nat) (x : TState) (now : Nat) (inp : List Val)
    (hn : (flushSpec fuel x.head x.tail x.lastOut inp).ctl = .normal)
    (hl : LoadsFrom dq x.q (flushSpec fuel x.head x.tail x.lastOut inp).events) :
    ∃ x' calls, runQ Cfg.real x x.head now = some (x', calls) ∧
      callsOf (flushSpec fuel x.head x.tail x.lastOut inp).events = calls.map callV ∧
      x'.lastOut = (flushSpec fuel x.head x.tail x.lastOut inp).lo ∧ x'.tail = x.head ∧ x'.head = x.head ∧
      x'.lastIn = x.lastIn ∧ x'.q = x.q ∧
      (x.head ≠ x.tail → ∃ l s pre, (flushSpec fuel x.head x.tail x.lastOut inp).events = lockE l :: syncE s :: pre) := by
  match inp, hn, hl with
  | [], hn, _ => simp [flushSpec] at hn
  | [l], hn, _ => simp [flushSpec] at hn
  | l :: s :: r, hn, hl =>
    simp only [flushSpec] at hn hl ⊢
    by_cases hHT : x.head = x.tail
    · simp only [hHT, if_true] at hn hl ⊢
      refine ⟨{ x with tail := x.tail, lastOut := x.lastOut, invoked := x.invoked ++ [] }, [],
        ?_, by simp [callsOf, lockE, unlockE], rfl, rfl, hHT, rfl, rfl, fun h => absurd rfl h⟩
      simp [runQ, runLoop]
    · simp only [hHT, if_false] at hn hl ⊢
      by_cases hS : (loopSpec dq x.head fuel x.tail x.lastOut r []).ctl = .normal
      · simp only [hS, if_true] at hn hl ⊢
        cases hinp : (loopSpec dq x.head fuel x.tail x.lastOut r []).inp with
        | nil => simp [hinp] at hn
        | cons u r2 =>
          simp only [hinp] at hl ⊢
          have hl' : LoadsFrom dq x.q (loopSpec dq x.head fuel x.tail x.lastOut r []).events := by
            apply hl.mono; intro e he; simp [he]
          obtain ⟨calls, c1, c2⟩ := loopSpec_model dq x.q x.head fuel x.tail x.lastOut r [] hS hl'
          obtain ⟨-, hlen⟩ := runLoop_len _ _ _ _ _ _ _ _ _ c1
          have c1' := runLoop_mono _ _ _ _ _ _ _ c1 (x.head - x.tail) (by omega)
          refine ⟨{ x with tail := x.head, lastOut := (loopSpec dq x.head fuel x.tail x.lastOut r []).lo,
                           invoked := x.invoked ++ calls.map fun fp => ⟨fp.1, fp.2, now⟩ }, calls,
            by simp only [runQ, c1'], ?_, rfl, rfl, rfl, rfl, rfl, fun _ => ⟨l, s, _, rfl⟩⟩
          simp [callsOf, lockE, syncE, unlockE, callsOf_append, c2]
      · simp [hS] at hn

/-- **`_defer_rcu(fct, p)`, full path ⊑ `Defer` model** (`enq` answers `full`; `flushSnapshot ; gp ; flushRun` of the own
queue; `enq`).  `x` = the model's thread state, related to the private view both as owner (`RelO`) and – under the mutex – as
runner of its own queue (`RelR`); the loaded `tail` is at the threshold (`needFlush` for it).  A run that ends inside the flush
is `ld tail` followed by that prefix of `flushSpec`.  When the flush completes and its loads returned the ring's content, its
calls are exactly those of `runQ x head` (state `x1` afterwards); if the re-load of `tail` then returns `head`, the rest of the
run is the encode part for `enqT x1`: the model's words at the slots from `head`, `wmb`, the new `head`, `mb`,
`wake_up_defer()`, and the private view is the model's state again, for both roles. -/
theorem defer_rcu_full_model (fuel : Nat) (env : Env) (x : TState) (f p : BitVec 64) (tl now : Nat) (rest : List Val)
    (hf : env.vars "fct" = some (wv f)) (hp : env.vars "p" = some (wv p))
    (hr : RelO env x) (hrr : RelR env dq x) (hfull : needFlush Cfg.real { x with tail := tl } = true) (hw : WordInp rest) :
    ∃ out, exec fuel Gen.Src.«_defer_rcu» env (.int (tl : Int) :: rest) = .ok out ∧
      ((flushSpec fuel x.head x.tail x.lastOut rest).ctl ≠ .normal →
        out.events = .ld (.field dq "tail") (.int (tl : Int)) 0 :: (flushSpec fuel x.head x.tail x.lastOut rest).events ∧
        out.ctl = (flushSpec fuel x.head x.tail x.lastOut rest).ctl) ∧
      ((flushSpec fuel x.head x.tail x.lastOut rest).ctl = .normal →
        LoadsFrom dq x.q (flushSpec fuel x.head x.tail x.lastOut rest).events →
        ∃ x1 calls, runQ Cfg.real x x.head now = some (x1, calls) ∧
          callsOf (flushSpec fuel x.head x.tail x.lastOut rest).events = calls.map callV ∧
          ∀ r2, (flushSpec fuel x.head x.tail x.lastOut rest).inp = .int (x.head : Int) :: r2 →
            out.events = .ld (.field dq "tail") (.int (tl : Int)) 0 ::
              ((flushSpec fuel x.head x.tail x.lastOut rest).events ++
                .ld (.field dq "tail") (.int (x.head : Int)) 0 :: (stores dq x.head (enqT Cfg.real x1 f p now).2 ++
                [.fence .wmb, .st (.field dq "head") (.int ((enqT Cfg.real x1 f p now).1.head : Int)) 0, .fence .mb] ++
                (wakeSpec r2).1)) ∧
            out.inp = (wakeSpec r2).2.1 ∧ out.ctl = (wakeSpec r2).2.2 ∧
            RelO out.env (enqT Cfg.real x1 f p now).1 ∧ RelR out.env dq (enqT Cfg.real x1 f p now).1) := by
  have hfull' : (4094 : Int) ≤ (x.head : Int) - (tl : Int) := by
    have h : Cfg.real.size - 2 ≤ x.head - tl := by simpa [needFlush] using hfull
    have hs : Cfg.real.size = 4096 := by decide
    rw [hs] at h
    omega
  obtain ⟨out, hE, h1, h2⟩ := defer_exec_full fuel env f p x.lastIn x.lastOut x.head x.tail tl rest hf hp hr.1 hr.2
    hrr.1 hrr.2 hfull' hw
  refine ⟨out, hE, fun hn => ⟨(h1 hn).1, (h1 hn).2.2⟩, ?_⟩
  intro hn hl
  obtain ⟨x1, calls, m1, m2, m3, m4, m5, m6, m7, -⟩ := flushSpec_model fuel x now rest hn hl
  refine ⟨x1, calls, m1, m2, ?_⟩
  intro r2 hinp
  obtain ⟨e1, e2, e3, p1, p2, p3, p4⟩ := (h2 hn).2 r2 hinp
  refine ⟨?_, e2, e3, ⟨?_, ?_⟩, ⟨?_, ?_⟩⟩
  · rw [e1]; simp [enqT, m5, m6]
  · rw [p1]; simp [enqT, m5, m6]
  · rw [p2]; simp [enqT, m6]
  · rw [p3]; simp [enqT, m4]
  · rw [p4]; simp [enqT, m3]

end UrcuVerif.Src.DeferR
