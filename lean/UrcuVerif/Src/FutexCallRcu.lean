import UrcuVerif.Src.FutexRefine
/-!
# call_rcu helper futex and completion futex (`src/urcu-call-rcu-impl.h`)

* `call_rcu_wait(crdp)`, `call_rcu_completion_wait(completion)` ⊑ generic waiter on `&crdp->futex` / `&completion->futex`
  (`WaitPost`), hence ⊑ the helper of `CallRcu/Wake.lean` from pc `waitLd` (`Cr.sim`) resp. caller `t` of
  `CallRcu/Barrier.lean` from pc `waitLd b` (`Br.sim`);
* `call_rcu_wake_up(crdp)`, `call_rcu_completion_wake_up(completion)` ⊑ generic waker (`WakePost`), hence ⊑ waker `i` of
  `CallRcu/Wake.lean` from pc `kmb` (`Cr.simK`) resp. the marker callback of `CallRcu/Barrier.lean` from `ldFut` (`Br.simK`); `wake_call_rcu_thread(crdp)` = load of `crdp->flags` (silent: L2 folds it
  into `kEnq`; L2 models a futex-woken helper, `URCU_CALL_RCU_RT` clear) + `call_rcu_wake_up`.

Side conditions of the wakers (needed for `exec` not to fail): FUTEX_WAKE returns an integer `≥ 0` (the number of
threads woken; a negative result makes the source call `urcu_die`), `crdp->flags` holds a non-negative integer.
-/
set_option maxRecDepth 8192
set_option linter.unusedSimpArgs false
set_option linter.unusedVariables false
namespace UrcuVerif.Src.Futex
open UrcuVerif UrcuVerif.Src UrcuVerif.Gen.Src

theorem band_nat_one (n : Nat) : evalBin .band (.int n) (.int 1) = .ok (.int ((n &&& 1 : Nat) : Int)) := by
  simp [evalBin]

/-! ## waiters -/

theorem src_call_rcu_wait (fuel : Nat) (env : Env) (inp : List Val) (C : Loc)
    (hc : env.vars "crdp" = some (.ptr C)) :
    ∃ out, exec fuel «call_rcu_wait» env inp = .ok out ∧ WaitPost (.field C "futex") (-1) "futex_async" env out := by
  fx_exec [«call_rcu_wait», WaitPost]
  generalize hL : exec fuel (Stmt.loop _) _ _ = X
  obtain ⟨out, rfl, hE, -, h⟩ := wait_loop (.field C "futex") (-1) "futex_async"
    (fun e => e.priv = env.priv ∧ e.vars "crdp" = some (.ptr C)) hL
    (by intro env1 inp1 hE1; obtain ⟨hp1, hc1⟩ := hE1; wait_body) ⟨rfl, hc⟩
  clear hL
  refine ⟨_, rfl, hE.1, ?_⟩
  unfold LoopPost at h
  loop_post h []

theorem src_call_rcu_completion_wait (fuel : Nat) (env : Env) (inp : List Val) (C : Loc)
    (hc : env.vars "completion" = some (.ptr C)) :
    ∃ out, exec fuel «call_rcu_completion_wait» env inp = .ok out ∧
      WaitPost (.field C "futex") (-1) "futex_async" env out := by
  fx_exec [«call_rcu_completion_wait», WaitPost]
  generalize hL : exec fuel (Stmt.loop _) _ _ = X
  obtain ⟨out, rfl, hE, -, h⟩ := wait_loop (.field C "futex") (-1) "futex_async"
    (fun e => e.priv = env.priv ∧ e.vars "completion" = some (.ptr C)) hL
    (by intro env1 inp1 hE1; obtain ⟨hp1, hc1⟩ := hE1; wait_body) ⟨rfl, hc⟩
  clear hL
  refine ⟨_, rfl, hE.1, ?_⟩
  unfold LoopPost at h
  loop_post h []

/-! ## wakers -/

/-- FUTEX_WAKE returns the number of threads woken -/
def WakeRetOk (inp : List Val) : Prop := ∀ v r rest, inp = v :: r :: rest → ∃ n : Int, 0 ≤ n ∧ r = .int n

set_option hygiene false in
open Lean.Parser.Tactic in
macro "wake_leaf" "[" ts:simpLemma,* "]" : tactic => `(tactic| (
  first
  | (obtain ⟨n, hn0, rfl⟩ := hr _ _ _ rfl
     have hnn : ¬ n < 0 := by omega
     fx_exec [WakePost, $ts,*] <;> fx_abs [] <;> (try (intros; simp_all; done)))
  | (fx_exec [WakePost, $ts,*] <;> fx_abs [] <;> (try (intros; simp_all; done)))))

theorem src_call_rcu_wake_up (fuel : Nat) (env : Env) (inp : List Val) (C : Loc)
    (hc : env.vars "crdp" = some (.ptr C)) (hr : WakeRetOk inp) :
    ∃ out, exec fuel «call_rcu_wake_up» env inp = .ok out ∧ WakePost (.field C "futex") "futex_async" env out := by
  unfold WakeRetOk at hr
  wake_cases (wake_leaf [«call_rcu_wake_up»])

theorem src_call_rcu_completion_wake_up (fuel : Nat) (env : Env) (inp : List Val) (C : Loc)
    (hc : env.vars "completion" = some (.ptr C)) (hr : WakeRetOk inp) :
    ∃ out, exec fuel «call_rcu_completion_wake_up» env inp = .ok out ∧
      WakePost (.field C "futex") "futex_async" env out := by
  unfold WakeRetOk at hr
  wake_cases (wake_leaf [«call_rcu_completion_wake_up»])

/-- `wake_call_rcu_thread(crdp)`: `n` = the value of `crdp->flags`.  Futex-woken helper (`URCU_CALL_RCU_RT` clear): the
load of the flags (silent) followed by `call_rcu_wake_up`; real-time helper: the load only. -/
theorem src_wake_call_rcu_thread (fuel : Nat) (env : Env) (inp : List Val) (C : Loc) (n : Nat)
    (hc : env.vars "crdp" = some (.ptr C))
    (hf : ∀ f rest, inp = f :: rest → f = .int n)
    (hr : ∀ f rest, inp = f :: rest → WakeRetOk rest) :
    ∃ out, exec fuel «wake_call_rcu_thread» env inp = .ok out ∧
      (n &&& 1 = 0 → WakePost (.field C "futex") "futex_async" env out) ∧
      (n &&& 1 ≠ 0 → inp ≠ [] →
        out.events = [.ld (.field C "flags") (.int n) 0] ∧ out.ctl = .normal ∧ out.env.priv = env.priv) := by
  cases inp with
  | nil => fx_exec [«wake_call_rcu_thread», WakePost] <;> fx_abs []
  | cons f inp =>
    obtain rfl := hf _ _ rfl
    have hr := hr _ _ rfl
    unfold WakeRetOk at hr
    clear hf
    by_cases hn : n &&& 1 = 0
    · wake_cases (wake_leaf [«wake_call_rcu_thread», «call_rcu_wake_up», band_nat_one])
    · have hn2 : ¬ ((n : Int) % 2 = 0) := by have := Nat.and_one_is_mod n; omega
      have hn3 : ¬ (n % 2 = 0) := by have := Nat.and_one_is_mod n; omega
      fx_exec [«wake_call_rcu_thread», «call_rcu_wake_up», band_nat_one, WakePost]

end UrcuVerif.Src.Futex
