import UrcuVerif.Src.LfhtLocal
/-!
# Thread-local projection of `Lfht/Conc` for the traversals: `cds_lfht_lookup`, `cds_lfht_next_duplicate` (also the
`dupAdd` walk inside `_cds_lfht_add`), `cds_lfht_next`, `cds_lfht_first`

Same scheme as `LfhtLocal.lean` (own label / state types: that file is frozen).  `LState` = L2's `Thr` record of the
thread + `pend` + the `Out` of the last step.  Labels = accesses of the source with the values passed and observed:

* `hashOf r h` (`bit_reverse_ulong(r)` returned `h`), `ldSize n mo` (load of `ht->size`), `bktAt idx b`
  (`ht->bucket_at(ht, idx)` returned node `b`), `ldNext p w mo` (load of `p->next`), `matchKey p k r`
  (`match(p, key)` returned `r ≠ 0`, `k` = the key argument).

L2 folds several source events into one step; `pend` tracks the position inside such a group:
* `ldSize` at `lSize` = `bit_reverse_ulong(hash)`; load of `ht->size`; `bucket_at(ht, hash & (size-1))`
  (`pend`: `none → size → bkt → none`; L2 sets `rh` already at the call, `sz`, `bkt` at `ldSize`);
* `ldFirst` = `bucket_at(ht, 0)`; load of its `next` (`pend = first b`);
* `ldWalk` = load of `cur->next` + (only when the word is neither REMOVED nor BUCKET, and – in `lookup` – the
  reverse hash is the one looked for, and the walk is not `cds_lfht_next`) the call `match(cur, key)`, whose result
  is L2's key comparison `key cur == ky` (`pend = key w`).

`lwalkRet` / `lwalkPos` / `lreplTest` are L2's `walkRet` / `walkPos` / `replTest` on the thread record
(`walkRet_eq`, `walkPos_eq`: the L2 functions only `setTh` the result).
-/
namespace UrcuVerif.Src.LfhtW
open UrcuVerif UrcuVerif.Lfht.Conc

inductive Pend
  | none
  | size               -- the load of `ht->size` is next
  | bkt                -- `bucket_at(ht, hash & (size-1))` is next
  | first (b : Nat)    -- `cds_lfht_first`: the load of `b->next` is next
  | key (w : W)        -- `match(cur, key)` is next (`w` = the word just loaded from `cur->next`)
  deriving DecidableEq, Repr

structure LState where
  x : Thr
  pend : Pend := .none
  out : Out := .unit

inductive LLabel
  | hashOf (r h : Nat)
  | ldSize (n : Nat) (mo : Int)
  | bktAt (idx b : Nat)
  | ldNext (p : Nat) (w : W) (mo : Int)
  | matchKey (p k : Nat) (r : Bool)
  | bad
  deriving DecidableEq, Repr

def lreplTest (x : Thr) (w : W) : Thr × Out :=
  if w.rem then
    match x.op with
    | .replace => ({ x with pc := .idle, op := .none }, .ret (-ENOENT))
    | _ => ({ x with pc := .aHead }, .unit)
  else ({ x with oldnx := w, pc := .rCas }, .unit)

def lwalkRet (x : Thr) (n : Nat) (w : W) : Thr × Out :=
  match x.wk with
  | .dupAdd =>
    if n = 0 then ({ x with pc := .aCas }, .unit)
    else match x.mode with
      | .repl => lreplTest { x with old := n } w
      | _ => ({ x with pc := .idle, op := .none }, .node n)
  | _ => ({ x with pc := .idle, op := .none, itn := n, itx := w }, .iter n w)

def lwalkPos (rev : Nat → Nat) (x : Thr) (n : Nat) : Thr × Out :=
  if n = 0 ∨ (x.wk ≠ .next ∧ x.rh < rev n) then lwalkRet x 0 {}
  else ({ x with cur := n, pc := .wNext }, .unit)

def ofPair (p : Thr × Out) : LState := { x := p.1, pend := .none, out := p.2 }

/-- the load of `cur->next` saw `w`: is `match` called? (`false`: L2's `found` is decided without the key) -/
def needsMatch (rev : Nat → Nat) (x : Thr) (w : W) : Bool :=
  !w.rem && !w.bkt && decide (¬(x.wk = .lookup ∧ rev x.cur ≠ x.rh)) && decide (x.wk ≠ .next)

/-- … and if it is not called: found (only `cds_lfht_next`, on a word that is neither REMOVED nor BUCKET) -/
def foundNoMatch (x : Thr) (w : W) : Bool := !w.rem && !w.bkt && decide (x.wk = .next)

def lstep (rev : Nat → Nat) (ls : LState) (l : LLabel) : Option LState :=
  let x := ls.x
  match ls.pend with
  | .size =>
    match l with
    | .ldSize n mo => if 2 ≤ mo then some { x := { x with sz := n, pc := .lHead }, pend := .bkt, out := .unit } else none
    | _ => none
  | .bkt =>
    match l with
    | .bktAt idx b => if idx = x.hs &&& (x.sz - 1) then some { x := { x with bkt := b }, pend := .none, out := .unit } else none
    | _ => none
  | .first b =>
    match l with
    | .ldNext p w mo => if p = b ∧ 1 ≤ mo then some (ofPair (lwalkPos rev { x with itx := w } w.ptr)) else none
    | _ => none
  | .key w =>
    match l with
    | .matchKey p k r =>
      if p = x.cur ∧ k = x.ky then
        if r then some { x := { x with wnx := w, pc := .wAssert }, pend := .none, out := .unit }
        else some (ofPair (lwalkPos rev { x with wnx := w } w.ptr))
      else none
    | _ => none
  | .none =>
    match x.pc with
    | .lSize =>
      match l with
      | .hashOf r h => if r = x.hs ∧ h = x.rh then some { ls with pend := .size } else none
      | _ => none
    | .lHead =>
      match l with
      | .ldNext p w mo => if p = x.bkt ∧ 1 ≤ mo then some (ofPair (lwalkPos rev x w.ptr)) else none
      | _ => none
    | .fHead =>
      match l with
      | .bktAt idx b => if idx = 0 then some { ls with pend := .first b } else none
      | _ => none
    | .wNext =>
      match l with
      | .ldNext p w mo =>
        if p = x.cur ∧ 1 ≤ mo then
          if needsMatch rev x w then some { ls with pend := .key w }
          else if foundNoMatch x w then some { x := { x with wnx := w, pc := .wAssert }, pend := .none, out := .unit }
          else some (ofPair (lwalkPos rev { x with wnx := w } w.ptr))
        else none
      | _ => none
    | .wAssert =>
      match l with
      | .ldNext p _ _ => if p = x.cur then some (ofPair (lwalkRet x x.cur x.wnx)) else none
      | _ => none
    | _ => none

def lrun (rev : Nat → Nat) : LState → List LLabel → Option LState
  | ls, [] => some ls
  | ls, l :: r => match lstep rev ls l with
    | some ls' => lrun rev ls' r
    | none => none

theorem lrun_append (rev : Nat → Nat) (ls : LState) (a b : List LLabel) :
    lrun rev ls (a ++ b) = (lrun rev ls a).bind (fun m => lrun rev m b) := by
  induction a generalizing ls with
  | nil => rfl
  | cons l r ih => simp only [List.cons_append, lrun]; cases lstep rev ls l <;> simp [ih]

def proj (s : State) (t : Nat) (o : Out := .unit) : LState := { x := s.th t, pend := .none, out := o }

theorem replTest_eq (s : State) (t : Nat) (x : Thr) (w : W) :
    replTest s t x w = (setTh s t (lreplTest x w).1, (lreplTest x w).2) := by
  unfold replTest lreplTest
  by_cases hr : w.rem = true
  · cases hop : x.op <;> simp [hr]
  · simp [hr]

theorem walkRet_eq (s : State) (t : Nat) (x : Thr) (n : Nat) (w : W) :
    walkRet s t x n w = (setTh s t (lwalkRet x n w).1, (lwalkRet x n w).2) := by
  unfold walkRet lwalkRet
  cases hwk : x.wk
  case dupAdd =>
    dsimp only
    by_cases hn : n = 0
    · simp [hn]
    · rw [if_neg hn, if_neg hn]
      cases hm : x.mode <;> first | rfl | exact replTest_eq s t _ w
  all_goals rfl

theorem walkPos_eq (s : State) (t : Nat) (x : Thr) (n : Nat) :
    walkPos s t x n = (setTh s t (lwalkPos s.rev x n).1, (lwalkPos s.rev x n).2) := by
  unfold walkPos lwalkPos
  by_cases hc : n = 0 ∨ (x.wk ≠ .next ∧ x.rh < s.rev n)
  · rw [if_pos hc, if_pos hc]; exact walkRet_eq s t x 0 {}
  · rw [if_neg hc, if_neg hc]

/-- L2's `found` = "`match` is called and returns `key cur == ky`" or "found without the key" -/
theorem found_eq (s : State) (x : Thr) (w : W) :
    found s x w = ((needsMatch s.rev x w && (s.key x.cur == x.ky)) || foundNoMatch x w) := by
  unfold found needsMatch foundNoMatch
  cases w.rem <;> cases w.bkt <;> cases hwk : x.wk <;> by_cases h : s.rev x.cur = x.rh <;> simp [h]

theorem needsMatch_not_found (rev : Nat → Nat) (x : Thr) (w : W) (h : needsMatch rev x w = true) :
    foundNoMatch x w = false := by
  unfold needsMatch at h; unfold foundNoMatch
  cases hwk : x.wk <;> simp_all

/-- the labels treated here (`ldSize` only at pc `lSize`) -/
def inScope : Label → Bool
  | .ldSize | .ldHeadL | .ldFirst | .ldWalk | .ldAssertW => true
  | _ => false

/-- the local labels of an L2 step, with the values the global state determines -/
def decor (s : State) (t : Nat) : Label → List LLabel :=
  let x := s.th t
  fun
  | .ldSize => [.hashOf x.hs x.rh, .ldSize s.size 2, .bktAt (x.hs &&& (s.size - 1)) (s.tbl (x.hs % s.size))]
  | .ldHeadL => [.ldNext x.bkt (s.nxt x.bkt) 1]
  | .ldFirst => [.bktAt 0 (s.tbl 0), .ldNext (s.tbl 0) (s.nxt (s.tbl 0)) 1]
  | .ldWalk => .ldNext x.cur (s.nxt x.cur) 1 ::
      (if needsMatch s.rev x (s.nxt x.cur) then [.matchKey x.cur x.ky (s.key x.cur == x.ky)] else [])
  | .ldAssertW => [.ldNext x.cur (s.nxt x.cur) 0]
  | _ => []

/-- every non-crashing L2 step of thread `t` (labels in scope) is the local run `decor s t L`, same `Out` -/
theorem proj_step (c : Cfg) (s s' : State) (t : Nat) (L : Label) (o o0 : Out)
    (hL : inScope L = true) (hsz : L = .ldSize → (s.th t).pc = .lSize)
    (h : step c s t L = some (s', o)) (hnc : o ≠ .crash) :
    lrun s.rev (proj s t o0) (decor s t L) = some (proj s' t o) := by
  unfold step at h
  split at h
  · cases h
  · cases L <;> simp only [inScope, Bool.false_eq_true] at hL <;>
      simp only [stepAdd, stepWalk, crash] at h
    case ldSize =>
      have hpc := hsz rfl
      simp only [hpc] at h
      cases h
      simp [decor, lrun, lstep, proj, hpc, setTh]
    case ldHeadL =>
      split at h <;> try cases h
      rename_i hpc
      split at h
      · cases h; exact absurd rfl hnc
      · rw [walkPos_eq] at h; cases h
        simp [decor, lrun, lstep, proj, hpc, ofPair]
    case ldFirst =>
      split at h <;> try cases h
      rename_i hpc
      split at h
      · cases h; exact absurd rfl hnc
      · rw [walkPos_eq] at h; cases h
        simp [decor, lrun, lstep, proj, hpc, ofPair]
    case ldWalk =>
      split at h <;> try cases h
      rename_i hpc
      split at h
      · cases h; exact absurd rfl hnc
      · rw [found_eq, walkPos_eq] at h
        cases hm : needsMatch s.rev (s.th t) (s.nxt (s.th t).cur) <;>
        cases hf : foundNoMatch (s.th t) (s.nxt (s.th t).cur) <;>
        cases hk : (s.key (s.th t).cur == (s.th t).ky) <;>
        (try (have := needsMatch_not_found _ _ _ hm; rw [hf] at this; cases this)) <;>
        simp only [hm, hf, hk, Bool.and_true, Bool.and_false, Bool.or_false, Bool.or_true, if_true, if_false, Bool.false_eq_true, Option.some.injEq, Prod.mk.injEq] at h <;>
        obtain ⟨rfl, rfl⟩ := h <;>
        simp [decor, lrun, lstep, proj, hpc, ofPair, hm, hf, hk]
    case ldAssertW =>
      split at h <;> try cases h
      rename_i hpc
      split at h
      · cases h; exact absurd rfl hnc
      · rw [walkRet_eq] at h; cases h
        simp [decor, lrun, lstep, proj, hpc, ofPair]

end UrcuVerif.Src.LfhtW
