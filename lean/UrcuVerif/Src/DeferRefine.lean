import UrcuVerif.Src.DeferExec
import UrcuVerif.Defer.Model
import UrcuVerif.Defer.Inv
/-!
# defer_rcu queue codec: the GENERATED `_defer_rcu` / `rcu_defer_barrier_queue` refine the sequential codec + ring model

`Src/DeferExec.lean` characterises `exec` on the generated values by pure functions of the oracle (`stores`/`wakeSpec`,
`loopSpec`).  Here these are tied to the L2 model of C13 (`Defer/Codec.lean`, `Ring.lean`, `Model.lean`, configuration
`Cfg.real`: `DEFER_QUEUE_SIZE = 4096`):

* producer: the run of `_defer_rcu(fct, p)` below the threshold stores exactly the words of `Defer.enqT` (= `enc1`) at the
  slots `head, head+1, …` (masked), then `wmb`, the new `head`, `mb`, `wake_up_defer()`; the private `head`/`last_fct_in` are
  the model's afterwards;
* consumer: whenever the slot loads of a *completed* run of `rcu_defer_barrier_queue(queue, head)` returned what the ring
  `q` holds (`LoadsFrom`), the calls `(*fct)(p)` are exactly the list `Ring.runLoop` decodes, in order, followed by `mb` and
  `tail := head`; `last_fct_out` is the model's;
* round trip: a ring that holds `encode lo xs` between `tail` and `head` makes the consumer call exactly `xs`.
-/
set_option maxRecDepth 8192
set_option linter.unusedSimpArgs false
set_option linter.unusedVariables false
namespace UrcuVerif.Src.DeferR
open UrcuVerif UrcuVerif.Src UrcuVerif.Defer

/-! ## producer -/

/-- the owner's private view of its TLS `struct defer_queue` is the model's thread state -/
def RelO (env : Env) (x : TState) : Prop :=
  env.priv (.field dq "head") = some (.int (x.head : Int)) ∧ env.priv (.field dq "last_fct_in") = some (wv x.lastIn)

theorem storesPriv_frame (base : Loc) (l : Loc) (hl : ∀ k, l ≠ slot base k) :
    ∀ (ws : List (BitVec 64)) (priv : Loc → Option Val) (i : Nat), storesPriv base priv i ws l = priv l := by
  intro ws
  induction ws with
  | nil => intro priv i; rfl
  | cons w ws ih =>
    intro priv i
    simp only [storesPriv]
    rw [ih]
    simp [hl i]

theorem slot_ne_field (base : Loc) (g f : String) (k : Nat) : Loc.field (.tls g) f ≠ slot base k := by
  simp [slot]

theorem wakePriv_frame (priv : Loc → Option Val) (inp : List Val) (l : Loc) (hl : l ≠ futexL) :
    wakePriv priv inp l = priv l := by
  unfold wakePriv
  split
  · simp [hl]
  · rfl

/-- the `st` events of a run, as (location, value) pairs -/
def storesOf : List Event → List (Loc × Val)
  | [] => []
  | .st l v _ :: es => (l, v) :: storesOf es
  | _ :: es => storesOf es

theorem storesOf_append (a b : List Event) : storesOf (a ++ b) = storesOf a ++ storesOf b := by
  induction a with
  | nil => rfl
  | cons e a ih => cases e <;> simp [storesOf, ih]

/-- the stores of the model's `writeWords c q i ws`: word `k` goes to slot `(i + k) % size` -/
def slotStores (base : Loc) : Nat → List (BitVec 64) → List (Loc × Val)
  | _, [] => []
  | i, w :: ws => (slot base i, wv w) :: slotStores base (i + 1) ws

theorem storesOf_stores (base : Loc) (ws : List (BitVec 64)) : ∀ i, storesOf (stores base i ws) = slotStores base i ws := by
  induction ws with
  | nil => intro i; rfl
  | cons w ws ih => intro i; simp [stores, storesOf, slotStores, ih]

/-- the stores of `wake_up_defer()`: `defer_thread_futex := 0` iff the futex word was loaded as `-1` -/
theorem storesOf_wake (inp : List Val) :
    storesOf (wakeSpec inp).1 = if inp.head? = some (.int (-1)) then [(futexL, .int 0)] else [] := by
  unfold wakeSpec
  split
  · simp [storesOf]
  · rename_i v rest
    by_cases hv : v = .int (-1)
    · simp only [hv, if_true]
      split
      · simp [storesOf]
      · split
        · split <;> simp [storesOf]
        · simp [storesOf]
      · simp [storesOf]
    · simp [hv, storesOf]

/-- **`_defer_rcu(fct, p)` ⊑ `Defer.enqT`** (queue below the threshold: the loaded `tail` satisfies
`head - tail < DEFER_QUEUE_SIZE - 2`, i.e. `needFlush` is false for the loaded value).  `words` are the words the model
stores (`Out.enqueued words` of `Defer.step … (.enq t f p)`), `x'` the model's thread state afterwards. -/
theorem defer_rcu_enq (fuel : Nat) (env : Env) (x : TState) (f p : BitVec 64) (tl now : Nat) (rest : List Val)
    (hr : RelO env x) (hf : env.vars "fct" = some (wv f)) (hp : env.vars "p" = some (wv p))
    (hnf : needFlush Cfg.real { x with tail := tl } = false) (hi : IntInp rest) :
    ∃ out, exec fuel Gen.Src.«_defer_rcu» env (.int (tl : Int) :: rest) = .ok out ∧
      out.events = .ld (.field dq "tail") (.int (tl : Int)) 0 :: (stores dq x.head (enqT Cfg.real x f p now).2 ++
        [.fence .wmb, .st (.field dq "head") (.int ((enqT Cfg.real x f p now).1.head : Int)) 0, .fence .mb] ++
        (wakeSpec rest).1) ∧
      out.inp = (wakeSpec rest).2.1 ∧ out.ctl = (wakeSpec rest).2.2 ∧
      RelO out.env (enqT Cfg.real x f p now).1 ∧
      (∀ l, l ≠ .field dq "head" → l ≠ .field dq "last_fct_in" → l ≠ futexL → (∀ k, l ≠ slot dq k) →
        out.env.priv l = env.priv l) := by
  obtain ⟨h1, h2⟩ := hr
  have hnf' : (x.head : Int) - (tl : Int) < 4094 := by
    have : ¬ (Cfg.real.size - 2 ≤ x.head - tl) := by simpa [needFlush] using hnf
    have hs : Cfg.real.size = 4096 := by decide
    rw [hs] at this
    omega
  obtain ⟨vars, hE⟩ := defer_exec f p x.lastIn x.head tl rest rfl hf hp h1 h2 hnf' hi
  refine ⟨_, hE, ?_, rfl, rfl, ⟨?_, ?_⟩, ?_⟩
  · simp [enqT]
  · show wakePriv _ rest _ = _
    rw [wakePriv_frame _ _ _ (by simp [dq, futexL])]
    simp [enqT]
  · show wakePriv _ rest _ = _
    rw [wakePriv_frame _ _ _ (by simp [dq, futexL])]
    have hne : (Loc.field dq "last_fct_in") ≠ Loc.field dq "head" := by simp
    simp only [hne, if_false]
    rw [storesPriv_frame dq (.field dq "last_fct_in") (fun k => slot_ne_field dq _ _ k)]
    simp only [enqT, enc1_snd]
    unfold lastPriv
    split
    · simp
    · rename_i hc
      have : x.lastIn = f := by
        by_cases a : x.lastIn = f
        · exact a
        · exfalso; apply hc; simp [a]
      rw [h2, this]
  · intro l l1 l2 l3 l4
    show wakePriv _ rest _ = _
    rw [wakePriv_frame _ _ _ l3]
    simp only [l1, if_false]
    rw [storesPriv_frame dq _ l4]
    unfold lastPriv
    split
    · simp [l2]
    · rfl

/-- the `st` events of that run: exactly the model's `writeWords` stores, then the new `head`, then possibly the futex
reset of the wake-up -/
theorem defer_rcu_stores (fuel : Nat) (env : Env) (x : TState) (f p : BitVec 64) (tl now : Nat) (rest : List Val)
    (hr : RelO env x) (hf : env.vars "fct" = some (wv f)) (hp : env.vars "p" = some (wv p))
    (hnf : needFlush Cfg.real { x with tail := tl } = false) (hi : IntInp rest) :
    ∃ out, exec fuel Gen.Src.«_defer_rcu» env (.int (tl : Int) :: rest) = .ok out ∧
      storesOf out.events = slotStores dq x.head (enqT Cfg.real x f p now).2 ++
        [(Loc.field dq "head", Val.int ((enqT Cfg.real x f p now).1.head : Int))] ++
        (if rest.head? = some (.int (-1)) then [(futexL, .int 0)] else []) := by
  obtain ⟨out, hE, he, -⟩ := defer_rcu_enq fuel env x f p tl now rest hr hf hp hnf hi
  refine ⟨out, hE, ?_⟩
  rw [he]
  simp [storesOf, storesOf_append, storesOf_stores, storesOf_wake]

/-! ## consumer -/

/-- the slot loads of the run returned the content of the ring `q` (what shared memory held) -/
def LoadsFrom (base : Loc) (q : Array (BitVec 64)) (evs : List Event) : Prop :=
  ∀ k v, ldq base k v ∈ evs → v = wv (rget Cfg.real q k)

/-- the calls through the function pointer, in order: (function, argument) -/
def callsOf : List Event → List (Val × Val)
  | [] => []
  | .ext n [f, p] _ :: es => if n = "(*)" then (f, p) :: callsOf es else callsOf es
  | _ :: es => callsOf es

theorem callsOf_append (a b : List Event) : callsOf (a ++ b) = callsOf a ++ callsOf b := by
  induction a with
  | nil => rfl
  | cons e a ih =>
    cases e with
    | ext n args r =>
      match args with
      | [f, p] => by_cases h : n = "(*)" <;> simp [callsOf, h, ih]
      | [] => simp [callsOf, ih]
      | [_] => simp [callsOf, ih]
      | _ :: _ :: _ :: _ => simp [callsOf, ih]
    | _ => simp [callsOf, ih]

/-- a model call as the pair of IR values -/
def callV (fp : BitVec 64 × BitVec 64) : Val × Val := (wv fp.1, wv fp.2)

theorem LoadsFrom.mono {base q a b} (h : LoadsFrom base q b) (hs : ∀ e ∈ a, e ∈ b) : LoadsFrom base q a :=
  fun k v hm => h k v (hs _ hm)

theorem iterSpec_model (base : Loc) (q : Array (BitVec 64)) (i : Nat) (lo : BitVec 64) (inp : List Val)
    (hd : (iterSpec base i lo inp).done = true) (hl : LoadsFrom base q (iterSpec base i lo inp).events) :
    (iterSpec base i lo inp).i = i + (dec1 lo (rget Cfg.real q i) (rget Cfg.real q (i + 1)) (rget Cfg.real q (i + 2))).n ∧
    (iterSpec base i lo inp).lo = (dec1 lo (rget Cfg.real q i) (rget Cfg.real q (i + 1)) (rget Cfg.real q (i + 2))).fct ∧
    callsOf (iterSpec base i lo inp).events =
      [callV ((dec1 lo (rget Cfg.real q i) (rget Cfg.real q (i + 1)) (rget Cfg.real q (i + 2))).fct,
              (dec1 lo (rget Cfg.real q i) (rget Cfg.real q (i + 1)) (rget Cfg.real q (i + 2))).arg)] := by
  match inp with
  | [] => simp [iterSpec] at hd
  | v0 :: r0 =>
    have h0 : v0 = wv (rget Cfg.real q i) := by
      apply hl i v0
      simp only [iterSpec]
      repeat' split
      all_goals simp
    subst h0
    by_cases hf : isFct (rget Cfg.real q i) = true
    · match r0 with
      | [] => simp [iterSpec, hf] at hd
      | [v1] => simp [iterSpec, hf] at hd
      | v1 :: rv :: r2 =>
        have h1 : v1 = wv (rget Cfg.real q (i + 1)) := hl (i + 1) v1 (by simp [iterSpec, hf])
        subst h1
        simp [iterSpec, hf, dec1, callsOf, callEv, callV, ldq]
    · have hf' : isFct (rget Cfg.real q i) = false := by simpa using hf
      by_cases hm : rget Cfg.real q i = fctMark
      · match r0 with
        | [] => simp [iterSpec, hf', hm, isFct_fctMark] at hd
        | [v1] => simp [iterSpec, hf', hm, isFct_fctMark] at hd
        | [v1, v2] => simp [iterSpec, hf', hm, isFct_fctMark] at hd
        | v1 :: v2 :: rv :: r3 =>
          have h1 : v1 = wv (rget Cfg.real q (i + 1)) := hl (i + 1) v1 (by simp [iterSpec, hf', hm, isFct_fctMark])
          have h2 : v2 = wv (rget Cfg.real q (i + 2)) := hl (i + 2) v2 (by simp [iterSpec, hf', hm, isFct_fctMark])
          subst h1 h2
          simp [iterSpec, hf', hm, isFct_fctMark, dec1, callsOf, callEv, callV, ldq]
      · match r0 with
        | [] => simp [iterSpec, hf', hm, isFct_fctMark] at hd
        | rv :: r1 => simp [iterSpec, hf', hm, isFct_fctMark, dec1, callsOf, callEv, callV, ldq]

theorem loopSpec_events_acc (base : Loc) (H : Nat) : ∀ (n i : Nat) (lo : BitVec 64) (inp : List Val) (acc : List Event),
    ∃ t, (loopSpec base H n i lo inp acc).events = acc ++ t := by
  intro n
  induction n with
  | zero => intro i lo inp acc; exact ⟨[], by simp [loopSpec]⟩
  | succ n ih =>
    intro i lo inp acc
    unfold loopSpec
    split
    · exact ⟨[], by simp⟩
    · split
      · obtain ⟨t, ht⟩ := ih (iterSpec base i lo inp).i (iterSpec base i lo inp).lo (iterSpec base i lo inp).inp
          (acc ++ (iterSpec base i lo inp).events)
        exact ⟨(iterSpec base i lo inp).events ++ t, by rw [ht, List.append_assoc]⟩
      · exact ⟨(iterSpec base i lo inp).events, rfl⟩

/-- the loop of the source, fed with the ring's content, is `Ring.runLoop` -/
theorem loopSpec_model (base : Loc) (q : Array (BitVec 64)) (H : Nat) :
    ∀ (n i : Nat) (lo : BitVec 64) (inp : List Val) (acc : List Event),
    (loopSpec base H n i lo inp acc).ctl = .normal → LoadsFrom base q (loopSpec base H n i lo inp acc).events →
    ∃ calls, runLoop Cfg.real q calls.length i H lo = some (H, (loopSpec base H n i lo inp acc).lo, calls) ∧
      callsOf (loopSpec base H n i lo inp acc).events = callsOf acc ++ calls.map callV := by
  intro n
  induction n with
  | zero => intro i lo inp acc h; simp [loopSpec] at h
  | succ n ih =>
    intro i lo inp acc hn hl
    unfold loopSpec at hn hl ⊢
    by_cases hiH : i = H
    · simp only [hiH, if_true]
      exact ⟨[], by simp [runLoop], by simp⟩
    · simp only [hiH, if_false] at hn hl ⊢
      by_cases hd : (iterSpec base i lo inp).done = true
      · simp only [hd, if_true] at hn hl ⊢
        obtain ⟨calls, hc1, hc2⟩ := ih _ _ _ _ hn hl
        obtain ⟨t, ht⟩ := loopSpec_events_acc base H n (iterSpec base i lo inp).i (iterSpec base i lo inp).lo
          (iterSpec base i lo inp).inp (acc ++ (iterSpec base i lo inp).events)
        have hl' : LoadsFrom base q (iterSpec base i lo inp).events := by
          apply hl.mono
          intro e he; rw [ht]; simp [he]
        obtain ⟨m1, m2, m3⟩ := iterSpec_model base q i lo inp hd hl'
        refine ⟨((dec1 lo (rget Cfg.real q i) (rget Cfg.real q (i + 1)) (rget Cfg.real q (i + 2))).fct,
          (dec1 lo (rget Cfg.real q i) (rget Cfg.real q (i + 1)) (rget Cfg.real q (i + 2))).arg) :: calls, ?_, ?_⟩
        · have := runLoop_step Cfg.real q calls.length i H lo _ hiH rfl (by rw [← m1, ← m2]; exact hc1)
          simpa using this
        · rw [hc2, callsOf_append, m3]
          simp
      · simp [hd] at hn

theorem callsOf_iterSpec_blocked (base : Loc) (i : Nat) (lo : BitVec 64) (inp : List Val)
    (hd : (iterSpec base i lo inp).done = false) : callsOf (iterSpec base i lo inp).events = [] := by
  match inp with
  | [] => simp [iterSpec, callsOf]
  | v0 :: r0 =>
    simp only [iterSpec] at hd ⊢
    repeat' split
    all_goals simp_all [callsOf, ldq, callEv]

/-- **prefixes**: every run of the source loop – completed, blocked at any access, or out of budget – whose loads so far
returned the ring's content has called a PREFIX of the list the model decodes (whenever the model's loop does not overrun) -/
theorem loopSpec_model_prefix (base : Loc) (q : Array (BitVec 64)) (H : Nat) :
    ∀ (n i : Nat) (lo : BitVec 64) (inp : List Val) (acc : List Event),
    LoadsFrom base q (loopSpec base H n i lo inp acc).events →
    ∀ (m : Nat) (r : Nat × BitVec 64 × List (BitVec 64 × BitVec 64)), runLoop Cfg.real q m i H lo = some r →
    ∃ k, callsOf (loopSpec base H n i lo inp acc).events = callsOf acc ++ (r.2.2.take k).map callV := by
  intro n
  induction n with
  | zero => intro i lo inp acc _ m r _; exact ⟨0, by simp [loopSpec]⟩
  | succ n ih =>
    intro i lo inp acc hl m r hr
    unfold loopSpec at hl ⊢
    by_cases hiH : i = H
    · simp only [hiH, if_true]; exact ⟨0, by simp⟩
    · simp only [hiH, if_false] at hl ⊢
      by_cases hd : (iterSpec base i lo inp).done = true
      · simp only [hd, if_true] at hl ⊢
        obtain ⟨t, ht⟩ := loopSpec_events_acc base H n (iterSpec base i lo inp).i (iterSpec base i lo inp).lo
          (iterSpec base i lo inp).inp (acc ++ (iterSpec base i lo inp).events)
        have hl' : LoadsFrom base q (iterSpec base i lo inp).events := by
          apply hl.mono
          intro e he; rw [ht]; simp [he]
        obtain ⟨m1, m2, m3⟩ := iterSpec_model base q i lo inp hd hl'
        match m, hr with
        | 0, hr => simp [runLoop, hiH] at hr
        | m + 1, hr =>
          simp only [runLoop, hiH, if_false] at hr
          split at hr
          · rename_i i' lo' cs hr'
            simp only [Option.some.injEq] at hr
            subst hr
            rw [← m1, ← m2] at hr'
            obtain ⟨k, hk⟩ := ih _ _ _ _ hl m _ hr'
            refine ⟨k + 1, ?_⟩
            rw [hk, callsOf_append, m3]
            simp
          · simp at hr
      · have hd' : (iterSpec base i lo inp).done = false := by simpa using hd
        simp only [hd']
        exact ⟨0, by simp [callsOf_append, callsOf_iterSpec_blocked base i lo inp hd']⟩

/-! pure facts about `Ring.runLoop` -/

theorem dec1_n_pos (lo w0 w1 w2 : BitVec 64) : 1 ≤ (dec1 lo w0 w1 w2).n := by
  unfold dec1; split <;> (try split) <;> simp

theorem runLoop_mono (c : Cfg) (q : Array (BitVec 64)) (H : Nat) : ∀ (n i : Nat) (lo : BitVec 64) r,
    runLoop c q n i H lo = some r → ∀ m, n ≤ m → runLoop c q m i H lo = some r := by
  intro n
  induction n with
  | zero =>
    intro i lo r h m _
    simp only [runLoop] at h
    split at h
    · rename_i hi
      subst hi
      cases m <;> simp [runLoop] <;> simpa using h
    · simp at h
  | succ n ih =>
    intro i lo r h m hm
    match m, hm with
    | m + 1, hm =>
      simp only [runLoop] at h ⊢
      split
      · rename_i hi; simpa [hi] using h
      · rename_i hi
        simp only [hi, if_false] at h
        split at h
        · rename_i i' lo' cs hr
          rw [ih _ _ _ hr m (by omega)]
          exact h
        · simp at h

theorem runLoop_len (c : Cfg) (q : Array (BitVec 64)) (H : Nat) : ∀ (n i : Nat) (lo : BitVec 64) i' lo' cs,
    runLoop c q n i H lo = some (i', lo', cs) → i' = H ∧ i + cs.length ≤ i' := by
  intro n
  induction n with
  | zero =>
    intro i lo i' lo' cs h
    simp only [runLoop] at h
    split at h
    · simp at h; obtain ⟨rfl, rfl, rfl⟩ := h; simp [*]
    · simp at h
  | succ n ih =>
    intro i lo i' lo' cs h
    simp only [runLoop] at h
    split at h
    · simp at h; obtain ⟨rfl, rfl, rfl⟩ := h; simp [*]
    · split at h
      · rename_i i2 lo2 cs2 hr
        simp at h
        obtain ⟨rfl, rfl, rfl⟩ := h
        obtain ⟨a, b⟩ := ih _ _ _ _ _ hr
        have := dec1_n_pos lo (rget c q i) (rget c q (i + 1)) (rget c q (i + 2))
        refine ⟨a, ?_⟩
        simp only [List.length_cons]
        omega
      · simp at h

theorem storesOf_iterSpec (base : Loc) (i : Nat) (lo : BitVec 64) (inp : List Val) :
    storesOf (iterSpec base i lo inp).events = [] := by
  match inp with
  | [] => simp [iterSpec, storesOf]
  | v0 :: r0 =>
    simp only [iterSpec]
    repeat' split
    all_goals simp [storesOf, ldq, callEv]

theorem storesOf_loopSpec (base : Loc) (H : Nat) : ∀ (n i : Nat) (lo : BitVec 64) (inp : List Val) (acc : List Event),
    storesOf (loopSpec base H n i lo inp acc).events = storesOf acc := by
  intro n
  induction n with
  | zero => intro i lo inp acc; simp [loopSpec]
  | succ n ih =>
    intro i lo inp acc
    unfold loopSpec
    split
    · rfl
    · split
      · rw [ih, storesOf_append, storesOf_iterSpec]; simp
      · simp [storesOf_append, storesOf_iterSpec]

/-- the runner's private view of the queue it runs (it holds `rcu_defer_mutex`: "Tail is only modified when lock is held",
and so is `last_fct_out`) is the model's thread state -/
def RelR (env : Env) (base : Loc) (x : TState) : Prop :=
  env.priv (.field base "tail") = some (.int (x.tail : Int)) ∧ env.priv (.field base "last_fct_out") = some (wv x.lastOut)

/-- **`rcu_defer_barrier_queue(queue, head)` ⊑ `Defer.runQ`**: for every budget and every oracle of words `exec` does not
fail, and every COMPLETED run whose slot loads returned the content of the model's ring performs exactly the calls
`runQ` decodes (same function, same argument, same order, nothing else), then `cmm_smp_mb()` and the store `tail := head`
(the only store), and leaves `tail` / `last_fct_out` as the model does. -/
theorem barrier_queue_runQ (fuel : Nat) (env : Env) (base : Loc) (x : TState) (H now : Nat) (inp : List Val)
    (hq : env.vars "queue" = some (.ptr base)) (hH : env.vars "head" = some (.int (H : Int)))
    (hr : RelR env base x) (hw : WordInp inp) :
    ∃ out, exec fuel Gen.Src.«rcu_defer_barrier_queue» env inp = .ok out ∧
      (out.ctl = .normal → LoadsFrom base x.q out.events →
        ∃ x' calls, runQ Cfg.real x H now = some (x', calls) ∧
          callsOf out.events = calls.map callV ∧
          (∃ pre, out.events = pre ++ [.fence .mb, .st (.field base "tail") (.int (H : Int)) 0] ∧ storesOf pre = []) ∧
          RelR out.env base x' ∧ x'.tail = H ∧
          (∀ l, l ≠ .field base "last_fct_out" → l ≠ .field base "tail" → out.env.priv l = env.priv l)) := by
  obtain ⟨o, ho, -, h1, h2⟩ := cons_exec fuel env base x.tail H x.lastOut inp hq hH hr.1 hr.2 hw
  refine ⟨o, ho, ?_⟩
  intro hc hl
  by_cases hn : (loopSpec base H fuel x.tail x.lastOut inp []).ctl = .normal
  · obtain ⟨e1, -, -, e4, e5, e6⟩ := h1 hn
    have hl' : LoadsFrom base x.q (loopSpec base H fuel x.tail x.lastOut inp []).events := by
      apply hl.mono; intro e he; rw [e1]; simp [he]
    obtain ⟨calls, c1, c2⟩ := loopSpec_model base x.q H fuel x.tail x.lastOut inp [] hn hl'
    obtain ⟨-, hlen⟩ := runLoop_len _ _ _ _ _ _ _ _ _ c1
    have c1' := runLoop_mono _ _ _ _ _ _ _ c1 (H - x.tail) (by omega)
    refine ⟨{ x with tail := H, lastOut := (loopSpec base H fuel x.tail x.lastOut inp []).lo,
                     invoked := x.invoked ++ calls.map fun fp => ⟨fp.1, fp.2, now⟩ }, calls,
      by simp only [runQ, c1'], ?_, ⟨_, e1, ?_⟩, ⟨e4, e5⟩, rfl, e6⟩
    · rw [e1, callsOf_append, c2]; simp [callsOf]
    · rw [storesOf_loopSpec]; rfl
  · obtain ⟨-, e2⟩ := h2 hn
    rw [e2] at hc
    exact absurd hc hn

/-- **prefixes of `rcu_defer_barrier_queue` ⊑ `Defer.runQ`**: for every budget and every oracle of words, every run –
completed, blocked at any access, out of budget – whose slot loads returned the content of the model's ring has performed
a PREFIX of the calls `runQ` decodes, in order (whenever `runQ` does not overrun); and only a completed run stores `tail` -/
theorem barrier_queue_prefix (fuel : Nat) (env : Env) (base : Loc) (x : TState) (H now : Nat) (inp : List Val)
    (hq : env.vars "queue" = some (.ptr base)) (hH : env.vars "head" = some (.int (H : Int)))
    (hr : RelR env base x) (hw : WordInp inp) :
    ∃ out, exec fuel Gen.Src.«rcu_defer_barrier_queue» env inp = .ok out ∧
      (LoadsFrom base x.q out.events → ∀ x' calls, runQ Cfg.real x H now = some (x', calls) →
        ∃ k, callsOf out.events = (calls.take k).map callV) ∧
      (out.ctl ≠ .normal → storesOf out.events = []) := by
  obtain ⟨o, ho, -, h1, h2⟩ := cons_exec fuel env base x.tail H x.lastOut inp hq hH hr.1 hr.2 hw
  refine ⟨o, ho, ?_, ?_⟩
  · intro hl x' calls hrq
    simp only [runQ] at hrq
    split at hrq
    · simp at hrq
    · rename_i i lo cs hrl
      simp only [Option.some.injEq, Prod.mk.injEq] at hrq
      obtain ⟨-, rfl⟩ := hrq
      by_cases hn : (loopSpec base H fuel x.tail x.lastOut inp []).ctl = .normal
      · obtain ⟨e1, -⟩ := h1 hn
        have hl' : LoadsFrom base x.q (loopSpec base H fuel x.tail x.lastOut inp []).events := by
          apply hl.mono; intro e he; rw [e1]; simp [he]
        obtain ⟨k, hk⟩ := loopSpec_model_prefix base x.q H fuel x.tail x.lastOut inp [] hl' _ _ hrl
        exact ⟨k, by rw [e1, callsOf_append, hk]; simp [callsOf]⟩
      · obtain ⟨e1, -⟩ := h2 hn
        rw [e1] at hl ⊢
        obtain ⟨k, hk⟩ := loopSpec_model_prefix base x.q H fuel x.tail x.lastOut inp [] hl _ _ hrl
        exact ⟨k, by rw [hk]; simp [callsOf]⟩
  · intro hc
    by_cases hn : (loopSpec base H fuel x.tail x.lastOut inp []).ctl = .normal
    · exact absurd (h1 hn).2.1 hc
    · rw [(h2 hn).1, storesOf_loopSpec]; rfl

/-- **round trip through the model's invariant** (`Defer.TInv`, `Defer.Snap`: what `Defer/Inv.lean` proves of every
reachable state of the operation-level model, the ring having been filled by `enqT` = the producer above): a completed run
of the generated consumer whose loads read the ring calls exactly the queued, not yet invoked calls that the snapshot
covers, in queueing order. -/
theorem barrier_queue_roundtrip (fuel : Nat) (env : Env) (base : Loc) (x : TState) (H gs now : Nat) (inp : List Val)
    (hq : env.vars "queue" = some (.ptr base)) (hH : env.vars "head" = some (.int (H : Int)))
    (hr : RelR env base x) (hw : WordInp inp) (hinv : TInv Cfg.real x) (hs : Snap Cfg.real x H gs) :
    ∃ out, exec fuel Gen.Src.«rcu_defer_barrier_queue» env inp = .ok out ∧
      (out.ctl = .normal → LoadsFrom base x.q out.events →
        callsOf out.events = (x.pend.take (x.snapQ - x.invoked.length)).map callV) := by
  obtain ⟨out, ho, h⟩ := barrier_queue_runQ fuel env base x H now inp hq hH hr hw
  refine ⟨out, ho, ?_⟩
  intro hc hl
  obtain ⟨x', calls, hrq, hcalls, -⟩ := h hc hl
  rw [runQ_spec hinv hs now] at hrq
  simp only [Option.some.injEq, Prod.mk.injEq] at hrq
  rw [hcalls, ← hrq.2]

/-- **decode of an encoding**: if the ring holds `encode last_fct_out xs` from `tail` to `head`, a completed run of the
generated consumer calls exactly `xs` -/
theorem barrier_queue_decodes (fuel : Nat) (env : Env) (base : Loc) (x : TState) (now : Nat) (inp : List Val)
    (xs : List (BitVec 64 × BitVec 64))
    (hq : env.vars "queue" = some (.ptr base))
    (hH : env.vars "head" = some (.int ((x.tail + (encode x.lastOut xs).length : Nat) : Int)))
    (hr : RelR env base x) (hw : WordInp inp)
    (hring : ringWords Cfg.real x.q x.tail (encode x.lastOut xs).length = encode x.lastOut xs) :
    ∃ out, exec fuel Gen.Src.«rcu_defer_barrier_queue» env inp = .ok out ∧
      (out.ctl = .normal → LoadsFrom base x.q out.events → callsOf out.events = xs.map callV) := by
  obtain ⟨out, ho, h⟩ := barrier_queue_runQ fuel env base x _ now inp hq hH hr hw
  refine ⟨out, ho, ?_⟩
  intro hc hl
  obtain ⟨x', calls, hrq, hcalls, -⟩ := h hc hl
  have h1 := runLoop_encode Cfg.real x.q xs xs.length x.tail x.lastOut (Nat.le_refl _) hring
  have h2 := runLoop_mono _ _ _ _ _ _ _ h1 (x.tail + (encode x.lastOut xs).length - x.tail)
    (by have := length_le_encode x.lastOut xs; omega)
  simp only [runQ, h2, Option.some.injEq, Prod.mk.injEq] at hrq
  rw [hcalls, ← hrq.2]

/-- **producer then consumer**: what `_defer_rcu(f, p)` stored (model: `enqT`; source: `defer_rcu_enq`) into a ring of the
right size makes a completed run of the generated consumer from the old `head` to the new one call exactly `f(p)` -/
theorem defer_then_barrier (fuel : Nat) (env : Env) (base : Loc) (x y : TState) (f p : BitVec 64) (now : Nat) (inp : List Val)
    (hxq : x.q.size = Cfg.real.size)
    (hyq : y.q = (enqT Cfg.real x f p now).1.q) (hyt : y.tail = x.head) (hyl : y.lastOut = x.lastIn)
    (hq : env.vars "queue" = some (.ptr base))
    (hH : env.vars "head" = some (.int ((enqT Cfg.real x f p now).1.head : Int)))
    (hr : RelR env base y) (hw : WordInp inp) :
    ∃ out, exec fuel Gen.Src.«rcu_defer_barrier_queue» env inp = .ok out ∧
      (out.ctl = .normal → LoadsFrom base y.q out.events → callsOf out.events = [callV (f, p)]) := by
  have henc : encode y.lastOut [(f, p)] = (enc1 x.lastIn f p).1 := by simp [encode, hyl]
  have hlen := enc1_length_le x.lastIn f p
  have hsz : Cfg.real.size = 4096 := by decide
  have := barrier_queue_decodes fuel env base y now inp [(f, p)] hq
    (by rw [hH, henc, hyt]; simp [enqT]) hr hw
    (by
      rw [henc, hyq, hyt]
      simp only [enqT]
      exact ringWords_writeWords_same Cfg.real x.q hxq x.head _ (by omega))
  simpa using this

end UrcuVerif.Src.DeferR
