import UrcuVerif.Gen.Src
import UrcuVerif.Src.RegExec
import UrcuVerif.Gp.BpArena
/-!
# bp registration: the bracket shape of `urcu_bp_register` / `urcu_bp_unregister` (signals blocked, mutexes held)

The external calls of the bp registration functions are classified by a `Tag` (`tagOf`: by the NAME of the call, and for
`pthread_sigmask` / `mutex_lock` / `mutex_unlock` by their first argument: `SIG_BLOCK` / `SIG_SETMASK`, `&init_lock` /
`&rcu_registry_lock`):

* `mask` / `unmask`, `lockI` / `unlockI`, `lockR` / `unlockR`;
* `regList`  `cds_list_add`, `cds_list_del` (in these functions only ever applied to a reader's `node` and `registry`; the
             tag does not look at the arguments);
* `arena`    what `add_thread` / `remove_thread` do besides: chunk-list iteration, `cds_list_empty`, `mmap`, `mremap`, `memset`,
             `assert`, `cds_list_add_tail`, `pthread_setspecific`, `pthread_self`;
* `initOp`   what `_urcu_bp_init` / `urcu_bp_exit` do under `init_lock`: `pthread_key_create`, `membarrier`, `errno`, `munmap`,
             safe chunk-list iteration, `CDS_INIT_LIST_HEAD`, `pthread_key_delete`;
* `pre`      `sigfillset` (touches a local only: allowed anywhere);
* `abort`    `abort`, `urcu_die`: the process is gone – the IR continues after them (the oracle answers the call), the
             checker goes to the absorbing state *dead* (`none`) and accepts whatever the IR does afterwards;
* `other`    anything else, and every non-external event (no `uatomic` access at all happens in these functions): rejected.

The **bracket automaton** `K` on `B = (masked, lockI, lockR)`: `mask` needs all three off; `lockI` / `lockR` need
`masked` and no lock held; `regList`, `arena` need `masked ∧ lockR`; `initOp` needs `masked ∧ lockI`; `unmask` needs both locks
released.  `B` is the projection `(blocked, initHeld, regHeld)` of L2's `BpArena.Sig.State` and `K` the projection of its `run`
step (`sig_proj_enabled`, `sig_proj_silent`).

`flow` is a syntactic abstract interpreter of `Stmt` over `B` (conditions ignored: both branches of an `if` must lead to
the same state, or to *dead*); `flow_sound`: if `flow st s = some s'` then every `.ok` run of `st` (every oracle, every
prefix) is accepted by `K` from `s`, and a run that completes ends in `s'` (or *dead*).  Callees whose primitives are all
state-preserving (or `abort`) at `s` – checked syntactically with `Stmt.prims`, proved by `exec_prims` – are not entered:
this is how the loops of `arena_alloc` / `find_chunk` are covered.  The final statements are `flow … = …  := by decide` on the
GENERATED values.
-/
set_option maxRecDepth 16384
namespace UrcuVerif.Src.RegBp
open UrcuVerif UrcuVerif.Src UrcuVerif.BpArena

inductive Tag | mask | unmask | lockI | unlockI | lockR | unlockR | abort | regList | arena | initOp | pre | other
  deriving DecidableEq, Repr

def needsHead (name : String) : Bool := name = "pthread_sigmask" || name = "mutex_lock" || name = "mutex_unlock"

def tagOf (name : String) (hd : Option Val) : Tag :=
  if name = "pthread_sigmask" then
    (if hd = some (.int 0) then .mask else if hd = some (.int 2) then .unmask else .other)
  else if name = "mutex_lock" then
    (if hd = some (.ptr (.glob "init_lock")) then .lockI
     else if hd = some (.ptr (.glob "rcu_registry_lock")) then .lockR else .other)
  else if name = "mutex_unlock" then
    (if hd = some (.ptr (.glob "init_lock")) then .unlockI
     else if hd = some (.ptr (.glob "rcu_registry_lock")) then .unlockR else .other)
  else if name = "abort" ∨ name = "urcu_die" then .abort
  else if name = "cds_list_add" ∨ name = "cds_list_del" then .regList
  else if name ∈ ["cds_list_for_each_entry.first", "cds_list_for_each_entry.next", "cds_list_empty", "mmap", "memset",
      "mremap", "assert", "cds_list_add_tail", "pthread_setspecific", "pthread_self"] then .arena
  else if name ∈ ["pthread_key_create", "membarrier", "errno", "munmap", "cds_list_for_each_entry_safe.first",
      "cds_list_for_each_entry_safe.next", "CDS_INIT_LIST_HEAD", "pthread_key_delete"] then .initOp
  else if name = "sigfillset" then .pre
  else .other

/-- (`rmw` / `fence` events carry a `Prim`; no run produces one with an `ext` primitive – the clause only makes `evTag`
a function of `Event.prim` for events that have no argument list) -/
def evTag : Event → Tag
  | .ext name args _ => tagOf name args.head?
  | .rmw (.ext name) _ _ _ _ => tagOf name none
  | .fence (.ext name) => tagOf name none
  | _ => .other

theorem tagOf_noHead (name : String) (hd : Option Val) (h : needsHead name = false) : tagOf name hd = tagOf name none := by
  simp only [needsHead, Bool.or_eq_false_iff, decide_eq_false_iff_not] at h
  simp [tagOf, h.1.1, h.1.2, h.2]

/-! ## bracket automaton -/

structure B where
  masked : Bool
  lockI : Bool
  lockR : Bool
  deriving DecidableEq, Repr

/-- checker state; `none` = dead (after `abort`) -/
abbrev BS := Option B

def K (s : B) : Tag → Option BS
  | .mask => if !s.masked && !s.lockI && !s.lockR then some (some { s with masked := true }) else none
  | .unmask => if s.masked && !s.lockI && !s.lockR then some (some { s with masked := false }) else none
  | .lockI => if s.masked && !s.lockI && !s.lockR then some (some { s with lockI := true }) else none
  | .unlockI => if s.lockI then some (some { s with lockI := false }) else none
  | .lockR => if s.masked && !s.lockI && !s.lockR then some (some { s with lockR := true }) else none
  | .unlockR => if s.lockR then some (some { s with lockR := false }) else none
  | .abort => some none
  | .regList => if s.masked && s.lockR then some (some s) else none
  | .arena => if s.masked && s.lockR then some (some s) else none
  | .initOp => if s.masked && s.lockI then some (some s) else none
  | .pre => some (some s)
  | .other => none

def stepB (s : BS) (e : Event) : Option BS :=
  match s with
  | none => some none
  | some b => K b (evTag e)

def runB : BS → List Event → Option BS
  | s, [] => some s
  | s, e :: es => match stepB s e with
    | none => none
    | some s1 => runB s1 es

theorem runB_dead : ∀ es, runB none es = some none := by
  intro es; induction es with
  | nil => rfl
  | cons e es ih => simpa [runB, stepB] using ih

theorem runB_append : ∀ (a b : List Event) (s : BS), runB s (a ++ b) = (runB s a).bind (fun m => runB m b) := by
  intro a
  induction a with
  | nil => intro b s; rfl
  | cons x a ih =>
    intro b s
    simp only [List.cons_append, runB]
    cases stepB s x with
    | none => rfl
    | some s1 => exact ih b s1

/-! ## projection of L2 (`BpArena.Sig`, the code as it is: `Sig.real`) -/

def projB (s : Sig.State) : B := ⟨s.blocked, s.initHeld, s.regHeld⟩

/-- the call a frame performs by its `run` step at this pc (`none`: a step without external call) -/
def tagAt : Sig.Pc → Option Tag
  | .mask | .xmask => some .mask
  | .unmask | .xunmask => some .unmask
  | .initLock | .xinitLock => some .lockI
  | .initUnlock | .xinitUnlock => some .unlockI
  | .lock | .xlock => some .lockR
  | .unlock | .xunlock => some .unlockR
  | .add | .xremove => some .regList
  | _ => none

/-- a call the bracket automaton accepts at a pc of L2 that performs it IS a `run` step of L2 with the same effect on
`(blocked, initHeld, regHeld)` -/
theorem sig_proj_enabled (s : Sig.State) (t : Tag) (b' : B) (ht : tagAt s.top = some t)
    (hk : K (projB s) t = some (some b')) : ∃ s', Sig.step Sig.real s .run = some s' ∧ projB s' = b' := by
  rcases s with ⟨top, below, blocked, tls, regs, regHeld, initHeld, refs⟩
  cases top <;> simp only [tagAt, Option.some.injEq, reduceCtorEq] at ht <;> subst ht <;>
    cases blocked <;> cases initHeld <;> cases regHeld <;>
    first
    | (simp [K, projB] at hk; done)
    | (simp [K, projB] at hk; subst hk; simp [Sig.step, Sig.real, projB])

/-- L2 `run` steps without call (TLS tests, counter updates, the section, `sigreturn`) leave the projection alone -/
theorem sig_proj_silent (s s' : Sig.State) (ht : tagAt s.top = none) (h : Sig.step Sig.real s .run = some s') :
    projB s' = projB s := by
  rcases s with ⟨top, below, blocked, tls, regs, regHeld, initHeld, refs⟩
  cases top <;> simp only [tagAt, reduceCtorEq] at ht <;> simp only [Sig.step] at h <;>
    (try split at h) <;> (try split at h) <;> simp only [Option.some.injEq, reduceCtorEq] at h <;>
    (try subst h) <;> simp_all [projB]

/-! ## syntactic abstract interpreter -/

def closedVal : Expr → Option Val
  | .lit n => some (.int n)
  | .cst _ n => some (.int n)
  | .null => some (.int 0)
  | .addrGlob g => some (.ptr (.glob g))
  | .addrTls g => some (.ptr (.tls g))
  | _ => none

theorem closedVal_eval (env : Env) (e : Expr) (v : Val) (h : closedVal e = some v) : eval env e = .ok v := by
  cases e <;> simp only [closedVal, Option.some.injEq, reduceCtorEq] at h <;> subst h <;> simp [eval]

/-- the tag of `name(args)` as far as the text determines it -/
def tagE (name : String) (args : List Expr) : Option Tag :=
  if needsHead name then
    match args with
    | e :: _ => (closedVal e).map (fun v => tagOf name (some v))
    | [] => some (tagOf name none)
  else some (tagOf name none)

theorem tagE_sound (env : Env) (name : String) (args : List Expr) (vs : List Val) (t : Tag)
    (h : tagE name args = some t) (hv : evalArgs env args = .ok vs) : tagOf name vs.head? = t := by
  unfold tagE at h
  split at h
  · cases args with
    | nil => simp only [evalArgs] at hv; cases hv; simpa using h
    | cons e es =>
      simp only [Option.map_eq_some_iff] at h
      obtain ⟨v, hc, rfl⟩ := h
      simp only [evalArgs, closedVal_eval env e v hc, bind, Except.bind] at hv
      cases hes : evalArgs env es with
      | error x => simp [hes] at hv
      | ok ws => simp only [hes] at hv; cases hv; rfl
  · rename_i hn
    simp only [Option.some.injEq] at h
    subst h
    exact tagOf_noHead name _ (by simpa using hn)

/-- primitives that, at `s`, keep the state (or abort) whatever their arguments -/
def keeps (s : B) : Prim → Bool
  | .ext name => !needsHead name && (K s (tagOf name none) == some (some s) || K s (tagOf name none) == some none)
  | _ => false

theorem keeps_run (s : B) : ∀ es : List Event, (∀ e ∈ es, keeps s e.prim = true) →
    ∃ t, runB (some s) es = some t ∧ (t = none ∨ t = some s) := by
  intro es
  induction es with
  | nil => intro _; exact ⟨some s, rfl, .inr rfl⟩
  | cons e es ih =>
    intro h
    have he := h e (by simp)
    have ih' := ih (fun x hx => h x (by simp [hx]))
    cases e with
    | ext name args r =>
      simp only [Event.prim, keeps, Bool.and_eq_true, Bool.not_eq_true', Bool.or_eq_true, beq_iff_eq] at he
      have ht : evTag (.ext name args r) = tagOf name none := tagOf_noHead name _ he.1
      simp only [runB, stepB, ht]
      rcases he.2 with h1 | h1
      · simp only [h1]; exact ih'
      · simp only [h1]; exact ⟨none, runB_dead es, .inl rfl⟩
    | rmw op l x r mo =>
      cases op with
      | ext name =>
        simp only [Event.prim, keeps, Bool.and_eq_true, Bool.not_eq_true', Bool.or_eq_true, beq_iff_eq] at he
        simp only [runB, stepB, evTag]
        rcases he.2 with h1 | h1
        · simp only [h1]; exact ih'
        · simp only [h1]; exact ⟨none, runB_dead es, .inl rfl⟩
      | _ => simp [Event.prim, keeps] at he
    | fence op =>
      cases op with
      | ext name =>
        simp only [Event.prim, keeps, Bool.and_eq_true, Bool.not_eq_true', Bool.or_eq_true, beq_iff_eq] at he
        simp only [runB, stepB, evTag]
        rcases he.2 with h1 | h1
        · simp only [h1]; exact ih'
        · simp only [h1]; exact ⟨none, runB_dead es, .inl rfl⟩
      | _ => simp [Event.prim, keeps] at he
    | _ => simp [Event.prim, keeps] at he

def join : Option BS → Option BS → Option BS
  | some none, y => y
  | some (some a), some none => some (some a)
  | some (some a), some (some b) => if a = b then some (some a) else none
  | _, _ => none

def flow : Stmt → B → Option BS
  | .skip, s => some (some s)
  | .assign _ _, s => some (some s)
  | .pstore _ _, s => some (some s)
  | .assertDbg _, s => some (some s)
  | .seq a b, s =>
    (match flow a s with
      | none => none
      | some none => some none
      | some (some s1) => flow b s1)
  | .ifte _ a b, s => join (flow a s) (flow b s)
  | .prim _ (.ext name) args, s =>
    (match tagE name args with
      | some t => K s t
      | none => none)
  | .call _ _ _ body, s => if body.prims (keeps s) then some (some s) else flow body s
  | .loop body, s => if body.prims (keeps s) && body.noRet then some (some s) else none
  | _, _ => none

def CtlOk (c : Ctl) : Prop := c = .normal ∨ c = .blocked ∨ c = .fuel

/-- what a run from `s` that `flow` maps to `s'` satisfies: accepted; dead, or ended normally / at an exhausted oracle / loop
budget, in `s'` if it completed -/
def Good (s : B) (s' : BS) (out : Out) : Prop :=
  ∃ t, runB (some s) out.events = some t ∧ (t = none ∨ (CtlOk out.ctl ∧ (out.ctl = .normal → t = s')))

theorem flow_sound : ∀ (st : Stmt) (s : B) (s' : BS), flow st s = some s' →
    ∀ (fuel : Nat) (env : Env) (inp : List Val) (out : Out), exec fuel st env inp = .ok out → Good s s' out := by
  intro st
  induction st with
  | skip =>
    intro s s' hf fuel env inp out h
    simp only [flow, Option.some.injEq] at hf; subst hf
    rw [exec_skip] at h; cases h
    exact ⟨some s, rfl, .inr ⟨.inl rfl, fun _ => rfl⟩⟩
  | assign x e =>
    intro s s' hf fuel env inp out h
    simp only [flow, Option.some.injEq] at hf; subst hf
    rw [exec_assign] at h
    cases he : eval env e <;> simp only [he, bind, Except.bind] at h <;> cases h
    exact ⟨some s, rfl, .inr ⟨.inl rfl, fun _ => rfl⟩⟩
  | pstore l e =>
    intro s s' hf fuel env inp out h
    simp only [flow, Option.some.injEq] at hf; subst hf
    rw [exec_pstore] at h
    simp only [bind, Except.bind] at h
    repeat' split at h
    all_goals first | (cases h; done) | (cases h; exact ⟨some s, rfl, .inr ⟨.inl rfl, fun _ => rfl⟩⟩)
  | assertDbg e =>
    intro s s' hf fuel env inp out h
    simp only [flow, Option.some.injEq] at hf; subst hf
    rw [exec_assertDbg] at h; cases h
    exact ⟨some s, rfl, .inr ⟨.inl rfl, fun _ => rfl⟩⟩
  | seq a b iha ihb =>
    intro s s' hf fuel env inp out h
    simp only [flow] at hf
    rw [exec_seq] at h
    cases ha : exec fuel a env inp with
    | error e => rw [ha] at h; cases h
    | ok o =>
      rw [ha] at h
      cases hfa : flow a s with
      | none => simp [hfa] at hf
      | some sa =>
        obtain ⟨t1, hr1, hg1⟩ := iha s sa hfa fuel env inp o ha
        rcases o with ⟨ev, en, ip, ctl⟩
        by_cases hn : ctl = .normal
        · subst hn
          simp only [seqPost] at h
          cases hb : exec fuel b en ip with
          | error e => rw [hb] at h; cases h
          | ok o2 =>
            rw [hb] at h; cases h
            have hcase : t1 = none ∨ t1 = sa := by
              rcases hg1 with h0 | ⟨_, h1⟩
              · exact .inl h0
              · exact .inr (h1 rfl)
            have hr1' : runB (some s) ev = some t1 := hr1
            unfold Good
            simp only [runB_append, hr1', Option.bind]
            cases sa with
            | none =>
              have : t1 = none := by rcases hcase with h0 | h0 <;> exact h0
              subst this
              exact ⟨none, runB_dead _, .inl rfl⟩
            | some s1 =>
              rcases hcase with h0 | h0
              · subst h0; exact ⟨none, runB_dead _, .inl rfl⟩
              · subst h0
                simp only [hfa] at hf
                exact ihb s1 s' hf fuel en ip o2 hb
        · have : out = ⟨ev, en, ip, ctl⟩ := by
            cases ctl <;> simp only [seqPost] at h <;> first | (cases h; rfl) | exact absurd rfl hn
          subst this
          refine ⟨t1, hr1, ?_⟩
          rcases hg1 with h1 | ⟨h1, _⟩
          · exact .inl h1
          · exact .inr ⟨h1, fun h2 => absurd h2 hn⟩
  | ifte c a b iha ihb =>
    intro s s' hf fuel env inp out h
    simp only [flow] at hf
    rw [exec_ifte] at h
    cases hc : eval env c with
    | error e => simp only [hc, bind, Except.bind] at h; cases h
    | ok v =>
      simp only [hc, bind, Except.bind] at h
      cases hfa : flow a s with
      | none => simp [hfa, join] at hf
      | some sa =>
        cases hfb : flow b s with
        | none => cases sa <;> simp [hfa, hfb, join] at hf
        | some sb =>
          simp only [hfa, hfb] at hf
          split at h
          · obtain ⟨t, hr, hg⟩ := iha s sa hfa fuel env inp out h
            refine ⟨t, hr, ?_⟩
            rcases hg with h1 | ⟨h1, h2⟩
            · exact .inl h1
            · cases sa with
              | none =>
                by_cases hn : out.ctl = .normal
                · exact .inl (h2 hn)
                · exact .inr ⟨h1, fun h3 => absurd h3 hn⟩
              | some x =>
                cases sb with
                | none => simp only [join, Option.some.injEq] at hf; subst hf; exact .inr ⟨h1, h2⟩
                | some y =>
                  simp only [join] at hf
                  split at hf
                  · simp only [Option.some.injEq] at hf; subst hf; exact .inr ⟨h1, h2⟩
                  · cases hf
          · obtain ⟨t, hr, hg⟩ := ihb s sb hfb fuel env inp out h
            refine ⟨t, hr, ?_⟩
            rcases hg with h1 | ⟨h1, h2⟩
            · exact .inl h1
            · cases sb with
              | none =>
                by_cases hn : out.ctl = .normal
                · exact .inl (h2 hn)
                · exact .inr ⟨h1, fun h3 => absurd h3 hn⟩
              | some y =>
                cases sa with
                | none => simp only [join] at hf; cases hf; exact .inr ⟨h1, h2⟩
                | some x =>
                  simp only [join] at hf
                  split at hf
                  · rename_i hxy
                    simp only [Option.some.injEq] at hf; subst hf; subst hxy; exact .inr ⟨h1, h2⟩
                  · cases hf
  | loop body _ =>
    intro s s' hf fuel env inp out h
    simp only [flow] at hf
    split at hf
    · rename_i hk
      simp only [Bool.and_eq_true] at hk
      simp only [Option.some.injEq] at hf; subst hf
      obtain ⟨t, hr, ht⟩ := keeps_run s out.events
        (exec_prims (keeps s) (.loop body) (by simpa [Stmt.prims] using hk.1) fuel env inp out h)
      have hc := exec_loop_ctl body hk.2 fuel env inp out h
      exact ⟨t, hr, ht.elim .inl (fun h1 => .inr ⟨hc, fun _ => h1⟩)⟩
    · cases hf
  | brk => intro s s' hf; simp [flow] at hf
  | cont => intro s s' hf; simp [flow] at hf
  | ret e => intro s s' hf; simp [flow] at hf
  | prim dst p args =>
    intro s s' hf fuel env inp out h
    cases p with
    | ext name =>
      simp only [flow] at hf
      cases ht : tagE name args with
      | none => simp [ht] at hf
      | some t =>
        simp only [ht] at hf
        rw [exec_prim] at h
        cases ha : evalArgs env args with
        | error e => simp only [ha, bind, Except.bind] at h; cases h
        | ok vs =>
          simp only [ha, bind, Except.bind, execPrim] at h
          have htag := tagE_sound env name args vs t ht ha
          cases inp with
          | nil =>
            cases h
            exact ⟨some s, rfl, .inr ⟨.inr (.inl rfl), fun h => by cases h⟩⟩
          | cons r rest =>
            cases h
            refine ⟨s', ?_, .inr ⟨.inl rfl, fun _ => rfl⟩⟩
            simp only [runB, stepB, evTag, htag, hf]
    | _ => simp [flow] at hf
  | call dst params args body ih =>
    intro s s' hf fuel env inp out h
    simp only [flow] at hf
    rw [exec_call] at h
    cases ha : evalArgs env args with
    | error e => simp only [ha] at h; cases h
    | ok vs =>
      simp only [ha] at h
      split at h
      · cases h
      · cases hb : exec fuel body { vars := bindParams params vs, priv := env.priv } inp with
        | error e => simp only [hb] at h; cases h
        | ok o =>
          simp only [hb] at h
          split at hf
          · rename_i hk
            simp only [Option.some.injEq] at hf; subst hf
            obtain ⟨t, hr, ht⟩ := keeps_run s o.events (exec_prims (keeps s) body hk fuel _ inp o hb)
            rcases o with ⟨ev, en, ip, ctl⟩
            cases ctl with
            | ret v =>
              cases v <;> simp only [callPost] at h <;> cases h <;>
                exact ⟨t, hr, ht.elim .inl (fun h1 => .inr ⟨.inl rfl, fun _ => h1⟩)⟩
            | brk => simp only [callPost] at h; cases h
            | cont => simp only [callPost] at h; cases h
            | normal =>
              simp only [callPost] at h; cases h
              exact ⟨t, hr, ht.elim .inl (fun h1 => .inr ⟨.inl rfl, fun _ => h1⟩)⟩
            | blocked =>
              simp only [callPost] at h; cases h
              exact ⟨t, hr, ht.elim .inl (fun h1 => .inr ⟨.inr (.inl rfl), fun h2 => by cases h2⟩)⟩
            | fuel =>
              simp only [callPost] at h; cases h
              exact ⟨t, hr, ht.elim .inl (fun h1 => .inr ⟨.inr (.inr rfl), fun h2 => by cases h2⟩)⟩
          · obtain ⟨t, hr, hg⟩ := ih s s' hf fuel _ inp o hb
            rcases o with ⟨ev, en, ip, ctl⟩
            cases ctl with
            | ret v =>
              rcases hg with h1 | ⟨h1, _⟩
              · cases v <;> simp only [callPost] at h <;> cases h <;> exact ⟨t, hr, .inl h1⟩
              · rcases h1 with h1 | h1 | h1 <;> cases h1
            | brk => simp only [callPost] at h; cases h
            | cont => simp only [callPost] at h; cases h
            | normal => simp only [callPost] at h; cases h; exact ⟨t, hr, hg⟩
            | blocked => simp only [callPost] at h; cases h; exact ⟨t, hr, hg⟩
            | fuel => simp only [callPost] at h; cases h; exact ⟨t, hr, hg⟩

/-! ## the generated functions -/
open UrcuVerif.Gen.Src

/-- signals open, no lock held -/
def B0 : B := ⟨false, false, false⟩
/-- inside the registry section: signals blocked, `rcu_registry_lock` held -/
def BR : B := ⟨true, false, true⟩

theorem flow_register : flow «bp.urcu_bp_register» B0 = some (some B0) := by decide
theorem flow_unregister : flow «bp.urcu_bp_unregister» B0 = some (some B0) := by decide
theorem add_thread_keeps : Stmt.prims (keeps BR) «bp.add_thread» = true := by decide
theorem remove_thread_keeps : Stmt.prims (keeps BR) «bp.remove_thread» = true := by decide

/-! ## `cleanup_thread`, `expand_arena`: exact effects (the fields `BpArena` tracks)

`BpArena.Chunk {cap, used, slots}` ↦ `chunk->capacity`, `chunk->used`, `readers[i].alloc` / `.tid`.  `cleanup_thread(chunk, r)` =
`BpArena.clear`: `cds_list_del(&r->node)` (the registry erase), `r->ctr = 0`, `r->tid = 0`, `r->alloc = 0` (slot := `none`),
`chunk->used--`.  `expand_arena(arena)`: empty chunk list ↦ `Chunk.fresh INIT_READER_COUNT` (`mmap`, `memset 0`,
`capacity = 8`, `cds_list_add_tail` = append): `Grew.first`; else, when `mremap` fails (`MAP_FAILED`), a new chunk of capacity
`2 * last->capacity` appended: `Growth.newChunk`.  (The in-place branch `Growth.inPlace` computes
`(char *) last_chunk + old_chunk_size_bytes`: pointer arithmetic, not in the IR subset – every run that takes it is `.error`.) -/

theorem bp_cleanup_thread (fuel : Nat) (env : Env) (C R : Loc) (u : Int) (v : Val) (rest : List Val)
    (hc : env.vars "chunk" = some (.ptr C)) (hr : env.vars "rcu_reader_reg" = some (.ptr R))
    (hu : env.priv (.field C "used") = some (.int u)) :
    ∃ out, exec fuel «bp.cleanup_thread» env (v :: rest) = .ok out ∧
      out.events = [.ext "cds_list_del" [.ptr (.field R "node")] v] ∧ out.ctl = .normal ∧ out.inp = rest ∧
      ∀ l, out.env.priv l =
        if l = .field C "used" then some (.int (u - 1))
        else if l = .field R "alloc" then some (.int 0)
        else if l = .field R "tid" then some (.int 0)
        else if l = .field R "ctr" then some (.int 0) else env.priv l := by
  sexec [«bp.cleanup_thread», hc, hr, hu]

/-- first expansion: the chunk list is empty (`cds_list_empty` answered non-zero), `mmap` returns the object `N` -/
theorem bp_expand_arena_first (fuel : Nat) (env : Env) (A N : Loc) (v1 v3 v4 : Val) (rest : List Val)
    (ha : env.vars "arena" = some (.ptr A)) (h1 : v1.truthy = true) :
    ∃ out, exec fuel «bp.expand_arena» env (v1 :: .ptr N :: v3 :: v4 :: rest) = .ok out ∧
      out.events = [.ext "cds_list_empty" [.ptr (.field A "chunk_list")] v1,
                    .ext "mmap" [.int 0, .int (8 * 256 + 128), .int 3, .int 34, .int (-1), .int 0] (.ptr N),
                    .ext "memset" [.ptr N, .int 0, .int (8 * 256 + 128)] v3,
                    .ext "cds_list_add_tail" [.ptr (.field N "node"), .ptr (.field A "chunk_list")] v4] ∧
      out.ctl = .ret none ∧ out.inp = rest ∧
      ∀ l, out.env.priv l = if l = .field N "capacity" then some (.int 8) else env.priv l := by
  cases v1 with
  | int n =>
    have hn : n ≠ 0 := by simpa [Val.truthy] using h1
    sexec [«bp.expand_arena», «bp.chunk_allocation_size», ha, hn]
  | ptr p =>
    sexec [«bp.expand_arena», «bp.chunk_allocation_size», ha]

/-- later expansion, `mremap` fails: the last chunk `Lc` (`arena->chunk_list.prev` = `&Lc->node`) has capacity `c`; a new
chunk `N` of capacity `2 c` is mapped, zeroed and appended -/
theorem bp_expand_arena_new (fuel : Nat) (env : Env) (A Lc N : Loc) (c : Nat) (v4 v5 : Val) (rest : List Val)
    (ha : env.vars "arena" = some (.ptr A))
    (hprev : env.priv (.field (.field A "chunk_list") "prev") = some (.ptr (.field Lc "node")))
    (hcap : env.priv (.field Lc "capacity") = some (.int (c : Int))) :
    ∃ out, exec fuel «bp.expand_arena» env (.int 0 :: .int (-1) :: .ptr N :: v4 :: v5 :: rest) = .ok out ∧
      out.events = [.ext "cds_list_empty" [.ptr (.field A "chunk_list")] (.int 0),
                    .ext "mremap" [.ptr Lc, .int ((c : Int) * 256 + 128), .int (((2 * c : Nat) : Int) * 256 + 128), .int 0] (.int (-1)),
                    .ext "mmap" [.int 0, .int (((2 * c : Nat) : Int) * 256 + 128), .int 3, .int 34, .int (-1), .int 0] (.ptr N),
                    .ext "memset" [.ptr N, .int 0, .int (((2 * c : Nat) : Int) * 256 + 128)] v4,
                    .ext "cds_list_add_tail" [.ptr (.field N "node"), .ptr (.field A "chunk_list")] v5] ∧
      out.ctl = .normal ∧ out.inp = rest ∧
      ∀ l, out.env.priv l = if l = .field N "capacity" then some (.int ((2 * c : Nat) : Int)) else env.priv l := by
  have h2 : (c <<< 1 : Nat) = 2 * c := by rw [Nat.shiftLeft_eq]; omega
  sexec [«bp.expand_arena», «bp.chunk_allocation_size», «bp.mremap_wrapper», ha, hprev, hcap, h2]

end UrcuVerif.Src.RegBp
