import UrcuVerif.Src.SyncSync
/-!
# The wait-queue callees of `synchronize_rcu` are silent for the Flip checker: a generic pointer-safety argument

**Pointer discipline.**  A location is *safe* (`SafeLoc`) when its access path contains no field named `ctr` and is not rooted
at `rcu_gp` or at one of the membarrier configuration globals: i.e. it is not `&rcu_gp.ctr`, not `&rcu_gp.futex`, not a reader
word (`&reader->ctr`, TLS or registry record), not a configuration global.  A value is safe (`SafeVal`) when it is an integer
(NULL, `CDS_WFS_END`, states …) or a pointer to a safe location (wait nodes, wait queues, …).  The discipline on the oracle:
**every value an event RETURNS is safe** (`RetSafe`: the value loaded / exchanged / returned by the external call – these are
exactly the oracle values the run consumed), and the thread's private view holds safe values at safe locations (`PrivSafe`).

`exec_safe`: for every statement that passes the syntactic check `okStmt` (no `->ctr`, no `&rcu_gp…`, none of the external
calls the checker interprets), every `.ok` run from a safe environment whose events return safe values performs only *quiet*
events (`QuietEv`: accesses to safe locations, fences, uninterpreted external calls), keeps the environment safe, leaves the
private view unchanged at every unsafe location, and returns a safe value.  `Ok_quiet`: at pc `idle` quiet events are silent
for `absRun`.  The five call statements of `synchronize_rcu` pass the check by `decide` (`okStmt` evaluates the GENERATED bodies
of `urcu_wait_add`/`_cds_wfs_push`, `urcu_adaptative_busy_wait`, `urcu_wait_set_state`, `urcu_move_waiters`/`___cds_wfs_pop_all`,
`urcu_wake_all_waiters`/`_cds_wfs_first`/`_cds_wfs_next_blocking`/`urcu_adaptative_wake_up`).
-/
set_option maxRecDepth 8192
set_option linter.unusedSimpArgs false
set_option linter.unusedVariables false
namespace UrcuVerif.Src.Sync
open UrcuVerif UrcuVerif.Src UrcuVerif.Gen.Src

def unsafeGlobs : List String :=
  ["rcu_gp", "urcu_memb_has_sys_membarrier", "urcu_memb_has_sys_membarrier_private_expedited"]

def SafeLoc : Loc → Bool
  | .field b f => f != "ctr" && SafeLoc b
  | .glob g => !(unsafeGlobs.contains g)
  | .tls _ => true
  | .obj _ => true

def SafeVal : Val → Bool
  | .int _ => true
  | .ptr l => SafeLoc l

/-- external calls the checker interprets -/
def interpExt : List String :=
  ["cds_list_empty", "cds_list_for_each_entry_safe.first", "cds_list_for_each_entry_safe.next", "cds_list_move",
   "cds_list_splice", "membarrier", "mutex_lock"]

def QuietEv : Event → Bool
  | .ld l _ _ | .st l _ _ | .xchg l _ _ _ | .cas l _ _ _ _ _ | .rmw _ l _ _ _ => SafeLoc l
  | .fence _ => true
  | .ext name _ _ => !(interpExt.contains name)

/-- the value the event returned to the thread (= the oracle value consumed) is safe -/
def RetSafe : Event → Bool
  | .ld _ v _ | .xchg _ _ v _ | .cas _ _ _ v _ _ | .rmw _ _ _ v _ | .ext _ _ v => SafeVal v
  | _ => true

def okExpr : Expr → Bool
  | .lit _ | .cst _ _ | .null | .var _ | .addrTls _ => true
  | .addrGlob g => !(unsafeGlobs.contains g)
  | .fieldAddr e f => f != "ctr" && okExpr e
  | .parent e _ => okExpr e
  | .index _ _ => false
  | .pload e => okExpr e
  | .un _ e => okExpr e
  | .bin op a b =>
    okExpr a && okExpr b &&
      (match op with
       | .tagand | .tagor => false          -- pointer tag bits (rculfhash only): may yield a pointer
       | _ => true)

def okPrim : Prim → Bool
  | .ext name => !(interpExt.contains name)
  | _ => true

def okStmt : Stmt → Bool
  | .skip | .brk | .cont | .ret none | .assertDbg _ => true
  | .seq a b => okStmt a && okStmt b
  | .assign _ e => okExpr e
  | .pstore l e => okExpr l && okExpr e
  | .ifte c a b => okExpr c && okStmt a && okStmt b
  | .loop b => okStmt b
  | .prim _ p args => okPrim p && args.all okExpr
  | .ret (some e) => okExpr e
  | .call _ _ args body => args.all okExpr && okStmt body

structure SafeEnv (env : Env) : Prop where
  vars : ∀ x v, env.vars x = some v → SafeVal v = true
  priv : ∀ l v, SafeLoc l = true → env.priv l = some v → SafeVal v = true

theorem evalUn_safe (op v r) (h : evalUn op v = .ok r) : SafeVal r = true := by
  cases op <;> cases v <;> simp [evalUn] at h <;> subst h <;> rfl

theorem evalBin_safe (op a b r) (hb : op ≠ .tagand ∧ op ≠ .tagor) (h : evalBin op a b = .ok r) : SafeVal r = true := by
  cases op <;> (try (exact absurd rfl hb.1)) <;> (try (exact absurd rfl hb.2)) <;>
    cases a <;> cases b <;> simp only [evalBin] at h <;>
    (try split at h) <;> simp [boolV] at h <;> (try (subst h; rfl))

theorem asLoc_safe (v l) (hv : SafeVal v = true) (h : asLoc v = .ok l) : SafeLoc l = true := by
  cases v <;> simp [asLoc] at h
  subst h; exact hv

theorem eval_safe (env : Env) (hs : SafeEnv env) : ∀ (e : Expr) (v : Val), okExpr e = true → eval env e = .ok v → SafeVal v = true := by
  intro e
  induction e with
  | lit n => intro v _ h; simp [eval] at h; subst h; rfl
  | cst s n => intro v _ h; simp [eval] at h; subst h; rfl
  | null => intro v _ h; simp [eval] at h; subst h; rfl
  | var x =>
    intro v _ h; simp only [eval] at h
    split at h
    · simp at h; subst h; exact hs.vars _ _ ‹_›
    · simp at h
  | addrGlob g => intro v ho h; simp [eval] at h; subst h; simpa [okExpr, SafeVal, SafeLoc] using ho
  | addrTls g => intro v _ h; simp [eval] at h; subst h; rfl
  | fieldAddr e f ih =>
    intro v ho h
    simp only [okExpr, Bool.and_eq_true] at ho
    simp only [eval, bind, Except.bind] at h
    cases h1 : eval env e with
    | error m => simp [h1] at h
    | ok v1 =>
      simp only [h1] at h
      cases h2 : asLoc v1 with
      | error m => simp [h2] at h
      | ok l =>
        simp only [h2, Except.ok.injEq] at h; subst h
        have := asLoc_safe v1 l (ih v1 ho.2 h1) h2
        simp [SafeVal, SafeLoc, this, ho.1]
  | parent e f ih =>
    intro v ho h
    simp only [okExpr] at ho
    simp only [eval, bind, Except.bind] at h
    cases h1 : eval env e with
    | error m => simp [h1] at h
    | ok v1 =>
      simp only [h1] at h
      cases h2 : asLoc v1 with
      | error m => simp [h2] at h
      | ok l =>
        have hl := asLoc_safe v1 l (ih v1 ho h1) h2
        simp only [h2] at h
        cases l with
        | field b g =>
          simp only at h
          split at h
          · simp only [Except.ok.injEq] at h; subst h
            simp only [SafeLoc, Bool.and_eq_true] at hl
            exact hl.2
          · simp at h
        | _ => simp at h
  | index e i _ _ => intro v ho h; simp [okExpr] at ho
  | pload e ih =>
    intro v ho h
    simp only [okExpr] at ho
    simp only [eval, bind, Except.bind] at h
    cases h1 : eval env e with
    | error m => simp [h1] at h
    | ok v1 =>
      simp only [h1] at h
      cases h2 : asLoc v1 with
      | error m => simp [h2] at h
      | ok l =>
        simp only [h2] at h
        split at h
        · simp at h; subst h; exact hs.priv _ _ (asLoc_safe v1 l (ih v1 ho h1) h2) ‹_›
        · simp at h
  | un op e ih =>
    intro v ho h
    simp only [eval, bind, Except.bind] at h
    cases h1 : eval env e with
    | error m => simp [h1] at h
    | ok v1 => simp only [h1] at h; exact evalUn_safe _ _ _ h
  | bin op a b iha ihb =>
    intro v ho h
    simp only [eval, bind, Except.bind] at h
    cases h1 : eval env a with
    | error m => simp [h1] at h
    | ok v1 =>
      simp only [h1] at h
      cases h2 : eval env b with
      | error m => simp [h2] at h
      | ok v2 =>
        simp only [h2] at h
        simp only [okExpr, Bool.and_eq_true] at ho
        refine evalBin_safe _ _ _ _ ?_ h
        constructor <;> (intro hop; subst hop; simp at ho)

theorem evalArgs_safe (env : Env) (hs : SafeEnv env) : ∀ (args : List Expr) (vs : List Val),
    args.all okExpr = true → evalArgs env args = .ok vs → ∀ v ∈ vs, SafeVal v = true := by
  intro args
  induction args with
  | nil => intro vs _ h; simp [evalArgs] at h; subst h; simp
  | cons e es ih =>
    intro vs ho h
    simp only [List.all_cons, Bool.and_eq_true] at ho
    simp only [evalArgs, bind, Except.bind] at h
    cases h1 : eval env e with
    | error m => simp [h1] at h
    | ok v1 =>
      simp only [h1] at h
      cases h2 : evalArgs env es with
      | error m => simp [h2] at h
      | ok vs2 =>
        simp only [h2, Except.ok.injEq] at h; subst h
        intro v hv
        simp only [List.mem_cons] at hv
        rcases hv with rfl | hv
        · exact eval_safe env hs e _ ho.1 h1
        · exact ih vs2 ho.2 h2 v hv

def SafeOut (env : Env) (out : Out) : Prop :=
  (∀ e ∈ out.events, QuietEv e = true) ∧ SafeEnv out.env ∧ (∀ l, SafeLoc l = false → out.env.priv l = env.priv l) ∧
    (∀ v, out.ctl = .ret (some v) → SafeVal v = true)

theorem SafeEnv.setVar {env : Env} (h : SafeEnv env) (x : String) (v : Val) (hv : SafeVal v = true) :
    SafeEnv (env.setVar x v) := by
  refine ⟨?_, h.priv⟩
  intro y w hy
  simp only [Env.setVar] at hy
  split at hy
  · simp at hy; subst hy; exact hv
  · exact h.vars _ _ hy

theorem SafeEnv.setDst {env : Env} (h : SafeEnv env) (dst : Option String) (v : Val) (hv : SafeVal v = true) :
    SafeEnv (setDst env dst v) := by
  cases dst with
  | none => exact h
  | some x => exact h.setVar x v hv

theorem SafeEnv.setPriv {env : Env} (h : SafeEnv env) (l : Loc) (v : Val) (hv : SafeVal v = true) :
    SafeEnv (env.setPriv l v) := by
  refine ⟨h.vars, ?_⟩
  intro m w hm hw
  simp only [Env.setPriv] at hw
  split at hw
  · simp at hw; subst hw; exact hv
  · exact h.priv _ _ hm hw

theorem setPriv_frame (env : Env) (l : Loc) (v : Val) (hl : SafeLoc l = true) :
    ∀ m, SafeLoc m = false → (env.setPriv l v).priv m = env.priv m := by
  intro m hm
  simp only [Env.setPriv]
  split
  · rename_i h; subst h; simp [hl] at hm
  · rfl

theorem setDst_priv (env : Env) (dst : Option String) (v : Val) : (setDst env dst v).priv = env.priv := by
  cases dst <;> rfl

set_option maxHeartbeats 1600000 in
theorem execPrim_safe (env : Env) (inp : List Val) (dst : Option String) (p : Prim) (vs : List Val) (out : Out)
    (hp : okPrim p = true) (hvs : ∀ v ∈ vs, SafeVal v = true) (hs : SafeEnv env)
    (h : execPrim env inp dst p vs = .ok out) (hr : ∀ e ∈ out.events, RetSafe e = true) : SafeOut env out := by
  unfold execPrim at h
  simp only [] at h
  split at h
  all_goals (try simp only [bind, Except.bind] at h)
  all_goals (repeat' split at h)
  all_goals first
    | (simp at h; done)
    | (simp only [Except.ok.injEq] at h; subst h
       refine ⟨?_, ?_, ?_, ?_⟩
       · intro e he
         simp only [List.mem_singleton, List.not_mem_nil, List.mem_cons, or_false] at he <;>
           (subst he; simp only [QuietEv]
            try (first
              | exact asLoc_safe _ _ (hvs _ List.mem_cons_self) ‹asLoc _ = Except.ok _›
              | rfl
              | simpa [okPrim] using hp))
       · first
         | exact hs
         | exact hs.setDst _ _ (by simpa [RetSafe] using hr _ List.mem_cons_self)
         | exact hs.setPriv _ _ (hvs _ (List.mem_cons_of_mem _ List.mem_cons_self))
       · intro m hm
         first
         | rfl
         | (rw [setDst_priv])
         | exact setPriv_frame _ _ _ (asLoc_safe _ _ (hvs _ List.mem_cons_self) ‹asLoc _ = Except.ok _›) m hm
       · intro v hv; simp at hv)

theorem SafeOut_plain (env : Env) (out : Out) (he : out.events = []) (henv : out.env = env)
    (hc : ∀ v, out.ctl ≠ .ret (some v)) (hs : SafeEnv env) : SafeOut env out :=
  ⟨by simp [he], henv ▸ hs, fun _ _ => by rw [henv], fun v hv => absurd hv (hc v)⟩

theorem bindParams_safe : ∀ (ps : List String) (vs : List Val), (∀ v ∈ vs, SafeVal v = true) →
    ∀ x v, bindParams ps vs x = some v → SafeVal v = true := by
  intro ps
  induction ps with
  | nil => intro vs _ x v h; simp [bindParams] at h
  | cons p ps ih =>
    intro vs hvs x v h
    cases vs with
    | nil => simp [bindParams] at h
    | cons w ws =>
      simp only [bindParams] at h
      split at h
      · simp at h; subst h; exact hvs _ List.mem_cons_self
      · exact ih ws (fun v hv => hvs v (List.mem_cons_of_mem _ hv)) x v h

/-- two consecutive safe runs -/
theorem SafeOut.append {env : Env} {o o2 : Out} (h1 : SafeOut env o) (h2 : SafeOut o.env o2) :
    SafeOut env { o2 with events := o.events ++ o2.events } := by
  refine ⟨?_, h2.2.1, ?_, h2.2.2.2⟩
  · intro e he
    simp only [List.mem_append] at he
    rcases he with he | he
    · exact h1.1 e he
    · exact h2.1 e he
  · intro l hl; simp only; rw [h2.2.2.1 l hl, h1.2.2.1 l hl]

theorem iterate_safe (body : Env → List Val → Except String Out)
    (hb : ∀ env inp out, SafeEnv env → body env inp = .ok out → (∀ e ∈ out.events, RetSafe e = true) → SafeOut env out) :
    ∀ (n : Nat) env inp out, SafeEnv env → iterate body n env inp [] = .ok out →
      (∀ e ∈ out.events, RetSafe e = true) → SafeOut env out := by
  intro n
  induction n with
  | zero =>
    intro env inp out hs h hr
    simp only [iterate, Except.ok.injEq] at h; subst h
    exact SafeOut_plain env _ rfl rfl (by simp) hs
  | succ n ih =>
    intro env inp out hs h hr
    simp only [iterate, bind, Except.bind, List.nil_append] at h
    cases hbo : body env inp with
    | error m => simp [hbo] at h
    | ok o =>
      simp only [hbo] at h
      have hrec : iterate body n o.env o.inp o.events = .ok out → SafeOut env out := by
        intro hit
        rw [iterate_acc] at hit
        cases h2 : iterate body n o.env o.inp [] with
        | error m => simp [h2] at hit
        | ok o2 =>
          simp only [h2, Except.ok.injEq] at hit; subst hit
          have h1 := hb env inp o hs hbo (fun e he => hr e (by simp [he]))
          exact h1.append (ih o.env o.inp o2 h1.2.1 h2 (fun e he => hr e (by simp [he])))
      have hdir : ∀ c, (∀ v, c ≠ .ret (some v)) ∨ c = o.ctl → out = { o with events := o.events, ctl := c } →
          SafeOut env out := by
        intro c hc ho; subst ho
        have h1 := hb env inp o hs hbo (fun e he => hr e he)
        refine ⟨h1.1, h1.2.1, h1.2.2.1, ?_⟩
        intro v hv
        rcases hc with hc | hc
        · exact absurd hv (hc v)
        · exact h1.2.2.2 v (by rw [← hc]; exact hv)
      cases hc : o.ctl with
      | normal => simp only [hc] at h; exact hrec h
      | cont => simp only [hc] at h; exact hrec h
      | brk => simp only [hc, Except.ok.injEq] at h; exact hdir _ (Or.inl (by simp)) h.symm
      | ret v => simp only [hc, Except.ok.injEq] at h; exact hdir _ (Or.inr hc.symm) h.symm
      | blocked => simp only [hc, Except.ok.injEq] at h; exact hdir _ (Or.inl (by simp)) h.symm
      | fuel => simp only [hc, Except.ok.injEq] at h; exact hdir _ (Or.inl (by simp)) h.symm

set_option maxHeartbeats 1600000 in
theorem exec_safe : ∀ (st : Stmt), okStmt st = true → ∀ (fuel : Nat) (env : Env) (inp : List Val) (out : Out),
    SafeEnv env → exec fuel st env inp = .ok out → (∀ e ∈ out.events, RetSafe e = true) → SafeOut env out := by
  intro st
  induction st with
  | skip =>
    intro _ fuel env inp out hs h hr
    simp only [exec, Except.ok.injEq] at h; subst h; exact SafeOut_plain env _ rfl rfl (by simp) hs
  | brk =>
    intro _ fuel env inp out hs h hr
    simp only [exec, Except.ok.injEq] at h; subst h; exact SafeOut_plain env _ rfl rfl (by simp) hs
  | cont =>
    intro _ fuel env inp out hs h hr
    simp only [exec, Except.ok.injEq] at h; subst h; exact SafeOut_plain env _ rfl rfl (by simp) hs
  | assertDbg e =>
    intro _ fuel env inp out hs h hr
    simp only [exec, Except.ok.injEq] at h; subst h; exact SafeOut_plain env _ rfl rfl (by simp) hs
  | seq a b iha ihb =>
    intro hok fuel env inp out hs h hr
    simp only [okStmt, Bool.and_eq_true] at hok
    simp only [exec, bind, Except.bind] at h
    cases h1 : exec fuel a env inp with
    | error m => simp [h1] at h
    | ok o =>
      simp only [h1] at h
      by_cases hn : o.ctl = .normal
      · simp only [hn] at h
        cases h2 : exec fuel b o.env o.inp with
        | error m => simp [h2] at h
        | ok o2 =>
          simp only [h2, Except.ok.injEq] at h; subst h
          have s1 := iha hok.1 fuel env inp o hs h1 (fun e he => hr e (by simp [he]))
          exact s1.append (ihb hok.2 fuel o.env o.inp o2 s1.2.1 h2 (fun e he => hr e (by simp [he])))
      · have : out = o := by revert h; cases hc : o.ctl <;> simp_all
        subst this
        exact iha hok.1 fuel env inp out hs h1 hr
  | assign x e =>
    intro hok fuel env inp out hs h hr
    simp only [okStmt] at hok
    simp only [exec, bind, Except.bind] at h
    cases h1 : eval env e with
    | error m => simp [h1] at h
    | ok v =>
      simp only [h1, Except.ok.injEq] at h; subst h
      exact ⟨by simp, hs.setVar x v (eval_safe env hs e v hok h1), fun _ _ => rfl, by simp⟩
  | pstore l e =>
    intro hok fuel env inp out hs h hr
    simp only [okStmt, Bool.and_eq_true] at hok
    simp only [exec, bind, Except.bind] at h
    cases h1 : eval env l with
    | error m => simp [h1] at h
    | ok vl =>
      simp only [h1] at h
      cases h2 : asLoc vl with
      | error m => simp [h2] at h
      | ok a =>
        simp only [h2] at h
        cases h3 : eval env e with
        | error m => simp [h3] at h
        | ok v =>
          simp only [h3, Except.ok.injEq] at h; subst h
          have ha := asLoc_safe vl a (eval_safe env hs l vl hok.1 h1) h2
          exact ⟨by simp, hs.setPriv a v (eval_safe env hs e v hok.2 h3), setPriv_frame env a v ha, by simp⟩
  | ifte c a b iha ihb =>
    intro hok fuel env inp out hs h hr
    simp only [okStmt, Bool.and_eq_true] at hok
    simp only [exec, bind, Except.bind] at h
    cases h1 : eval env c with
    | error m => simp [h1] at h
    | ok v =>
      simp only [h1] at h
      split at h
      · exact iha hok.1.2 fuel env inp out hs h hr
      · exact ihb hok.2 fuel env inp out hs h hr
  | loop body ih =>
    intro hok fuel env inp out hs h hr
    simp only [okStmt] at hok
    simp only [exec] at h
    exact iterate_safe _ (fun e i o hse hbo hro => ih hok fuel e i o hse hbo hro) fuel env inp out hs h hr
  | prim dst p args =>
    intro hok fuel env inp out hs h hr
    simp only [okStmt, Bool.and_eq_true] at hok
    simp only [exec, bind, Except.bind] at h
    cases h1 : evalArgs env args with
    | error m => simp [h1] at h
    | ok vs =>
      simp only [h1] at h
      exact execPrim_safe env inp dst p vs out hok.1 (evalArgs_safe env hs args vs hok.2 h1) hs h hr
  | ret e =>
    intro hok fuel env inp out hs h hr
    cases e with
    | none => simp only [exec, Except.ok.injEq] at h; subst h; exact SafeOut_plain env _ rfl rfl (by simp) hs
    | some e =>
      simp only [okStmt] at hok
      simp only [exec, bind, Except.bind] at h
      cases h1 : eval env e with
      | error m => simp [h1] at h
      | ok v =>
        simp only [h1, Except.ok.injEq] at h; subst h
        refine ⟨by simp, hs, fun _ _ => rfl, ?_⟩
        intro w hw; simp at hw; subst hw; exact eval_safe env hs e v hok h1
  | call dst params args body ih =>
    intro hok fuel env inp out hs h hr
    simp only [okStmt, Bool.and_eq_true] at hok
    simp only [exec, bind, Except.bind] at h
    cases h1 : evalArgs env args with
    | error m => simp [h1] at h
    | ok vs =>
      simp only [h1] at h
      split at h
      · simp at h
      · have hvs := evalArgs_safe env hs args vs hok.1 h1
        have hs0 : SafeEnv { vars := bindParams params vs, priv := env.priv } :=
          ⟨bindParams_safe params vs hvs, hs.priv⟩
        cases h2 : exec fuel body { vars := bindParams params vs, priv := env.priv } inp with
        | error m => simp [h2] at h
        | ok o =>
          simp only [h2] at h
          have hback : SafeEnv { vars := env.vars, priv := o.env.priv } → True := fun _ => trivial
          cases hc : o.ctl with
          | normal =>
            simp only [hc, Except.ok.injEq] at h; subst h
            have s1 := ih hok.2 fuel _ inp o hs0 h2 hr
            exact ⟨s1.1, (show SafeEnv { vars := env.vars, priv := o.env.priv } from ⟨hs.vars, s1.2.1.priv⟩), s1.2.2.1, by simp⟩
          | ret v =>
            cases v with
            | none =>
              simp only [hc, Except.ok.injEq] at h; subst h
              have s1 := ih hok.2 fuel _ inp o hs0 h2 hr
              exact ⟨s1.1, (show SafeEnv { vars := env.vars, priv := o.env.priv } from ⟨hs.vars, s1.2.1.priv⟩), s1.2.2.1, by simp⟩
            | some v =>
              simp only [hc, Except.ok.injEq] at h; subst h
              have s1 := ih hok.2 fuel _ inp o hs0 h2 hr
              have hv := s1.2.2.2 v hc
              refine ⟨s1.1, SafeEnv.setDst (show SafeEnv { vars := env.vars, priv := o.env.priv } from ⟨hs.vars, s1.2.1.priv⟩) dst v hv, ?_, by simp⟩
              intro l hl; simp only [setDst_priv]; exact s1.2.2.1 l hl
          | brk => simp [hc] at h
          | cont => simp [hc] at h
          | blocked =>
            simp only [hc, Except.ok.injEq] at h; subst h
            have s1 := ih hok.2 fuel _ inp o hs0 h2 hr
            exact ⟨s1.1, s1.2.1, s1.2.2.1, by simp [hc]⟩
          | fuel =>
            simp only [hc, Except.ok.injEq] at h; subst h
            have s1 := ih hok.2 fuel _ inp o hs0 h2 hr
            exact ⟨s1.1, s1.2.1, s1.2.2.1, by simp [hc]⟩

/-! ## quiet events are silent at pc `idle` -/

theorem SafeLoc_gpCtr : SafeLoc gpCtr = false := by decide

theorem absEv_quiet (trk : Bool) (ss : SS) (e : Event) (hi : ss.ls.upc = .idle) (hq : QuietEv e = true) :
    absEv trk ss e = .step [] ss.pend ∨ absEv trk ss e = .undisc := by
  have hne : ∀ l, SafeLoc l = true → l ≠ gpCtr := by
    intro l hl h; subst h; simp [SafeLoc_gpCtr] at hl
  cases e with
  | ld l v mo =>
    simp only [QuietEv] at hq
    cases l with
    | field b f =>
      simp only [SafeLoc, Bool.and_eq_true, bne_iff_ne, ne_eq] at hq
      cases b <;> simp [absEv, hq.1] <;> (try simp [gpCtr]) <;> (try (left; intro _; exact hq.1))
    | glob g => simp [absEv, gpCtr]
    | tls g => simp [absEv, gpCtr]
    | obj k => simp [absEv, gpCtr]
  | st l v mo => simp only [QuietEv] at hq; simp [absEv, hne l hq]
  | xchg l a b mo => simp only [QuietEv] at hq; simp [absEv, hne l hq]
  | cas l a b c m1 m2 => simp only [QuietEv] at hq; simp [absEv, hne l hq]
  | rmw p l a b mo => simp only [QuietEv] at hq; simp [absEv, hne l hq]
  | fence p => simp [absEv, masterAct, hi]
  | ext name args r =>
    simp only [QuietEv, interpExt, Bool.not_eq_true', List.contains_eq_mem, List.mem_cons, List.not_mem_nil,
      or_false, decide_eq_false_iff_not, not_or] at hq
    obtain ⟨h1, h2, h3, h4, h5, h6, h7⟩ := hq
    simp only [absEv, absExt, h1, h2, h3, h4, h5, h6, h7, if_false, false_and]
    split <;> simp

theorem Ok_quiet (trk : Bool) (wins : Wins) (R : SS → Wins → Prop) : ∀ (es : List Event) (ss : SS),
    ss.ls.upc = .idle → (∀ e ∈ es, QuietEv e = true) → R ss wins → Ok trk ss wins es R := by
  intro es
  induction es with
  | nil => intro ss _ _ h; exact Ok_nil _ _ _ _ h
  | cons e es ih =>
    intro ss hi hq h
    rw [Ok_cons]
    rcases absEv_quiet trk ss e hi (hq e List.mem_cons_self) with he | he
    · rw [he]; simp only [lrun]
      have : ({ ls := ss.ls, pend := ss.pend } : SS) = ss := by cases ss; rfl
      rw [this]
      exact ih ss hi (fun e' he' => hq e' (List.mem_cons_of_mem _ he')) h
    · rw [he]; trivial

/-! ## triples relative to the pointer discipline on the oracle -/

/-- like `Holds`, for the runs whose events return safe values only -/
def HoldsS (trk : Bool) (r : Except String Out) (ss : SS) (wins : Wins) (Q : Post) : Prop :=
  ∀ out, r = .ok out → (∀ e ∈ out.events, RetSafe e = true) →
    Ok trk ss wins out.events (fun ss' wins' => Q out.ctl out.env ss' wins')

theorem Holds.toS {trk r ss wins Q} (h : Holds trk r ss wins Q) : HoldsS trk r ss wins Q := fun out ho _ => h out ho

theorem HoldsS.mono {trk r ss wins} {Q Q' : Post} (h : HoldsS trk r ss wins Q) (hm : ∀ c e s w, Q c e s w → Q' c e s w) :
    HoldsS trk r ss wins Q' := fun out ho hr => Ok_mono _ _ _ _ _ _ (h out ho hr) (fun s w => hm _ _ s w)

theorem HoldsS.seq {trk fuel a b env inp ss wins} {Qa Q : Post}
    (ha : HoldsS trk (exec fuel a env inp) ss wins Qa)
    (hb : ∀ e i s w, Qa .normal e s w → HoldsS trk (exec fuel b e i) s w Q)
    (hc : ∀ c e s w, c ≠ .normal → Qa c e s w → Q c e s w) :
    HoldsS trk (exec fuel (.seq a b) env inp) ss wins Q := by
  intro out ho hr
  simp only [exec, bind, Except.bind] at ho
  cases h1 : exec fuel a env inp with
  | error m => simp [h1] at ho
  | ok o =>
    simp only [h1] at ho
    by_cases hn : o.ctl = .normal
    · simp only [hn] at ho
      cases h2 : exec fuel b o.env o.inp with
      | error m => simp [h2] at ho
      | ok o2 =>
        simp only [h2, Except.ok.injEq] at ho
        subst ho
        have hA := ha o h1 (fun e he => hr e (by simp [he]))
        apply Ok_append
        refine Ok_mono _ _ _ _ _ _ hA ?_
        intro s w hq
        rw [hn] at hq
        exact hb _ _ _ _ hq o2 h2 (fun e he => hr e (by simp [he]))
    · have : out = o := by
        revert ho; cases hc' : o.ctl <;> simp_all
      subst this
      exact Ok_mono _ _ _ _ _ _ (ha out h1 hr) (fun s w hq => hc _ _ _ _ hn hq)

def PrivSafe (priv : Loc → Option Val) : Prop := ∀ l v, SafeLoc l = true → priv l = some v → SafeVal v = true

/-- the master barrier's precondition together with the pointer discipline on the private view -/
def MPreS (MPre : (Loc → Option Val) → Prop) : (Loc → Option Val) → Prop := fun priv => MPre priv ∧ PrivSafe priv

/-- `MPre` only looks at unsafe locations (configuration globals) -/
def MUnsafeOnly (MPre : (Loc → Option Val) → Prop) : Prop :=
  ∀ p p' : Loc → Option Val, (∀ l, SafeLoc l = false → p' l = p l) → MPre p → MPre p'

/-- `Quiet` relative to the pointer discipline (nothing is claimed about `dst`: an unbound `dst` makes the caller's next use
fail, which is outside the theorems about `.ok` runs) -/
def QuietS (trk : Bool) (MPre : (Loc → Option Val) → Prop) (st : Stmt) (dst : Option String) : Prop :=
  ∀ fuel env inp ss wins, ss.ls.upc = .idle → ss.pend = none → PrivSafe env.priv →
    HoldsS trk (exec fuel st env inp) ss wins (fun ctl e s _ =>
      match ctl with
      | .normal => s = ss ∧ e.priv gpCtr = env.priv gpCtr ∧ (MPre env.priv → MPre e.priv) ∧
          (∀ x, some x ≠ dst → e.vars x = env.vars x)
      | .blocked | .fuel => True
      | _ => False)

/-- a call (with closed arguments) of a function whose body passes the syntactic check is quiet -/
theorem quiet_call (trk : Bool) (MPre : (Loc → Option Val) → Prop) (hU : MUnsafeOnly MPre)
    (dst : Option String) (params : List String) (args : List Expr) (body : Stmt) (vs : List Val)
    (hev : ∀ env, evalArgs env args = .ok vs) (hlen : params.length = vs.length)
    (hvs : ∀ v ∈ vs, SafeVal v = true) (hok : okStmt body = true) :
    QuietS trk (MPreS MPre) (.call dst params args body) dst := by
  intro fuel env inp ss wins hi hp hps out ho hr
  simp only [exec, hev, bind, Except.bind, hlen, ne_eq, not_true_eq_false, if_false] at ho
  have hs0 : SafeEnv { vars := bindParams params vs, priv := env.priv } := ⟨bindParams_safe params vs hvs, hps⟩
  cases h2 : exec fuel body { vars := bindParams params vs, priv := env.priv } inp with
  | error m => simp [h2] at ho
  | ok o =>
    simp only [h2] at ho
    have hnormal : ∀ (so : SafeOut { vars := bindParams params vs, priv := env.priv } o) (e' : Env),
        e'.priv = o.env.priv → (∀ x, some x ≠ dst → e'.vars x = env.vars x) →
        ss = ss ∧ e'.priv gpCtr = env.priv gpCtr ∧ (MPreS MPre env.priv → MPreS MPre e'.priv) ∧
          (∀ x, some x ≠ dst → e'.vars x = env.vars x) := by
      intro so e' hpe hv1
      refine ⟨rfl, by rw [hpe]; exact so.2.2.1 _ SafeLoc_gpCtr, ?_, hv1⟩
      intro hm
      refine ⟨hU _ _ (fun l hl => by rw [hpe]; exact so.2.2.1 l hl) hm.1, ?_⟩
      rw [hpe]; exact so.2.1.priv
    cases hc : o.ctl with
    | normal =>
      simp only [hc, Except.ok.injEq] at ho; subst ho
      have so := exec_safe body hok fuel _ inp o hs0 h2 hr
      exact Ok_quiet trk wins _ o.events ss hi so.1 (hnormal so _ rfl (fun x hx => rfl))
    | ret v =>
      cases v with
      | none =>
        simp only [hc, Except.ok.injEq] at ho; subst ho
        have so := exec_safe body hok fuel _ inp o hs0 h2 hr
        exact Ok_quiet trk wins _ o.events ss hi so.1 (hnormal so _ rfl (fun x hx => rfl))
      | some v =>
        simp only [hc, Except.ok.injEq] at ho; subst ho
        have so := exec_safe body hok fuel _ inp o hs0 h2 hr
        refine Ok_quiet trk wins _ o.events ss hi so.1 (hnormal so _ (by rw [setDst_priv]) ?_)
        intro x hx
        cases dst with
        | none => rfl
        | some y =>
          simp only [setDst, Env.setVar]
          rw [if_neg (by intro h; apply hx; rw [h])]
    | brk => simp [hc] at ho
    | cont => simp [hc] at ho
    | blocked =>
      simp only [hc, Except.ok.injEq] at ho; subst ho
      have so := exec_safe body hok fuel _ inp o hs0 h2 hr
      exact Ok_quiet trk wins _ o.events ss hi so.1 (by simp [hc])
    | fuel =>
      simp only [hc, Except.ok.injEq] at ho; subst ho
      have so := exec_safe body hok fuel _ inp o hs0 h2 hr
      exact Ok_quiet trk wins _ o.events ss hi so.1 (by simp [hc])

/-! ## the five wait-queue call statements of `synchronize_rcu` pass the check -/

theorem qWaitAdd_quiet (trk MPre) (hU : MUnsafeOnly MPre) : QuietS trk (MPreS MPre) qWaitAdd (some "_t1") :=
  quiet_call trk MPre hU _ _ _ _ [.ptr (.glob "gp_waiters"), .ptr (.glob "&wait")] (fun _ => rfl) rfl (by decide) (by decide)
theorem qBusyWait_quiet (trk MPre) (hU : MUnsafeOnly MPre) : QuietS trk (MPreS MPre) qBusyWait none :=
  quiet_call trk MPre hU _ _ _ _ [.ptr (.glob "&wait")] (fun _ => rfl) rfl (by decide) (by decide)
theorem qSetState_quiet (trk MPre) (hU : MUnsafeOnly MPre) : QuietS trk (MPreS MPre) qSetState none :=
  quiet_call trk MPre hU _ _ _ _ [.ptr (.glob "&wait"), .int 2] (fun _ => rfl) rfl (by decide) (by decide)
theorem qMoveWaiters_quiet (trk MPre) (hU : MUnsafeOnly MPre) : QuietS trk (MPreS MPre) qMoveWaiters none :=
  quiet_call trk MPre hU _ _ _ _ [.ptr (.glob "&waiters"), .ptr (.glob "gp_waiters")] (fun _ => rfl) rfl (by decide) (by decide)
theorem qWakeAll_quiet (trk MPre) (hU : MUnsafeOnly MPre) : QuietS trk (MPreS MPre) qWakeAll none :=
  quiet_call trk MPre hU _ _ _ _ [.ptr (.glob "&waiters")] (fun _ => rfl) rfl (by decide) (by decide)

end UrcuVerif.Src.Sync
