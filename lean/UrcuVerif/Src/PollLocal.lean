import UrcuVerif.Poll.Model
/-!
# Poll API (C14): the part of `Poll/Model.lean`'s state that the three C functions own

`poll_worker_gp_state.{current_state.grace_period_id, latest_target.grace_period_id, active}` = `(cur, latest, active)`.
Everything else of the L2 state is ghost (clock, handles, reader sections, grace periods) or belongs to `call_rcu`
(`pending`, `enq`: whether / when the worker callback is queued).  `lstep` is L2's `step` on the three words, with the same
outputs; the L2 step is enabled iff the global guard – the `call_rcu` contract – holds (`startPoll`: an inactive worker is
not queued; `worker`: the callback is queued and a grace period that started after it was queued has completed).
-/
namespace UrcuVerif.Src.PollL
open UrcuVerif UrcuVerif.Poll

structure LP where
  cur : Nat
  latest : Nat
  active : Bool
  deriving DecidableEq, Repr

def proj (s : State) : LP := ⟨s.cur, s.latest, s.active⟩

/-- the three operations implemented by the C functions -/
def lstep (ls : LP) : Op → Option (LP × Out)
  | .startPoll =>
    let g := if ls.active then ls.cur + 1 else ls.cur
    some (⟨ls.cur, g, true⟩, .handle g (!ls.active))
  | .poll g => some (ls, .reached (decide (g < ls.cur)))
  | .worker =>
    if ls.cur + 1 ≤ ls.latest then some (⟨ls.cur + 1, ls.latest, ls.active⟩, .requeued true)
    else some (⟨ls.cur + 1, ls.latest, false⟩, .requeued false)
  | _ => none

def isApi : Op → Bool
  | .startPoll | .poll _ | .worker => true
  | _ => false

/-- the global part of the guard (the `call_rcu` contract) -/
def gguard (s : State) : Op → Prop
  | .startPoll => ¬ (s.active = false ∧ s.pending = true)
  | .worker => s.pending = true ∧ s.enq ≤ s.gpDone
  | _ => True

/-- **projection lemma**: an L2 step of an API operation is the local step on the three words, with the same output -/
theorem proj_step {n : Nat} {s s' : State} {op : Op} {o : Out} (ha : isApi op = true) (h : step n s op = some (s', o)) :
    lstep (proj s) op = some (proj s', o) := by
  cases op <;> simp only [isApi, reduceCtorEq] at ha <;> simp only [step] at h
  · split at h
    · simp at h
    · simp only [Option.some.injEq, Prod.mk.injEq] at h
      obtain ⟨rfl, rfl⟩ := h
      cases ha : s.active <;> simp [lstep, proj, ha]
  · simp only [Option.some.injEq, Prod.mk.injEq] at h
    obtain ⟨rfl, rfl⟩ := h
    rename_i g
    by_cases hg : g < s.cur <;> simp [lstep, proj, hg]
  · split at h
    · by_cases hc : s.cur + 1 ≤ s.latest
      · simp only [hc, if_true, Option.some.injEq, Prod.mk.injEq] at h
        obtain ⟨rfl, rfl⟩ := h
        simp [lstep, proj, hc]
      · simp only [hc, if_false, Option.some.injEq, Prod.mk.injEq] at h
        obtain ⟨rfl, rfl⟩ := h
        simp [lstep, proj, hc]
    · simp at h

/-- **enabledness**: the L2 step is enabled iff the `call_rcu` contract holds (the local step is total) -/
theorem enabled_iff (n : Nat) (s : State) (op : Op) (ha : isApi op = true) :
    (step n s op).isSome ↔ ((lstep (proj s) op).isSome ∧ gguard s op) := by
  cases op <;> simp only [isApi, reduceCtorEq] at ha <;> simp only [step, lstep, gguard]
  · cases s.active <;> cases s.pending <;> simp
  · simp
  · by_cases h1 : s.pending = true <;> by_cases h2 : s.enq ≤ s.gpDone <;> by_cases hc : s.cur + 1 ≤ s.latest <;>
      simp [h1, h2, hc, proj]

/-- **frame lemma**: the environment operations (grace periods of the call_rcu helper, readers) do not touch the words -/
theorem frame {n : Nat} {s s' : State} {op : Op} {o : Out} (ha : isApi op = false) (h : step n s op = some (s', o)) :
    proj s' = proj s := by
  cases op <;> simp only [isApi, reduceCtorEq] at ha <;> simp only [step] at h <;>
    (repeat' split at h) <;> (try simp only [Option.some.injEq, Prod.mk.injEq, reduceCtorEq] at h) <;>
    (try contradiction) <;> (try (obtain ⟨rfl, rfl⟩ := h; rfl))

end UrcuVerif.Src.PollL
