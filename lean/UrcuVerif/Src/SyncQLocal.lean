import UrcuVerif.Gp.Qsbr
import UrcuVerif.Src.SyncLocal
/-!
# QSBR grace-period updater (`urcu_qsbr_synchronize_rcu`, `wait_for_readers` of urcu-qsbr.c): thread-local projection of
`Gp/Qsbr.lean`

Same construction as `Src/SyncLocal.lean`: the updater's local part of `Qsbr.State` is its pc `upc`, the counter `gp` (only
`uInc` changes it) and the lists `reg` / `inp`, kept as `List Nat` used as sets (`Proj`).  Labels are decorated with the values
observed: `uInc trk g` = "stored the counter value that stands for `g`" (`g = gp + 1`), `uScan j w` = "loaded reader `j`'s word
and it stands for `w`" (`w = 0` offline, `w = gp` current).  `envReg i` / `envUnreg i` = L2's `reg i` / `unreg i`.
-/
namespace UrcuVerif.Src.SyncQ
open UrcuVerif UrcuVerif.Src.Sync

structure LState where
  upc : Qsbr.UPc
  gp  : Nat
  reg : List Nat
  inp : List Nat
  deriving DecidableEq, Repr

inductive LLabel
  | envReg (i : Nat) | envUnreg (i : Nat)
  | uInc (trk : Bool) (g : Nat) | uEmpty (trk : Bool)
  | uScan (j : Nat) (w : Nat)
  | uEnd
  deriving DecidableEq, Repr

def LLabel.toL2 : LLabel → Qsbr.Label
  | .envReg i => .reg i | .envUnreg i => .unreg i
  | .uInc t _ => .uInc t | .uEmpty t => .uEmpty t
  | .uScan j _ => .uScan j | .uEnd => .uEnd

def owned : Qsbr.Label → Bool
  | .reg _ | .unreg _ | .uInc _ | .uEmpty _ | .uScan _ | .uEnd => true
  | _ => false

def lstep (ls : LState) : LLabel → Option LState
  | .envReg i => some { ls with reg := i :: ls.reg, inp := if ls.upc = .scan then i :: ls.inp else ls.inp }
  | .envUnreg i => some { ls with reg := rm i ls.reg, inp := rm i ls.inp }
  | .uInc _ g =>
    if ls.upc = .idle ∧ ls.reg ≠ [] ∧ g = ls.gp + 1 then some { ls with gp := g, upc := .scan, inp := ls.reg } else none
  | .uEmpty _ => if ls.upc = .idle ∧ ls.reg = [] then some ls else none
  | .uScan j w =>
    if ls.upc = .scan ∧ j ∈ ls.inp ∧ (w = 0 ∨ w = ls.gp) then some { ls with inp := rm j ls.inp } else none
  | .uEnd => if ls.upc = .scan ∧ ls.inp = [] then some { ls with upc := .idle } else none

def lrun : LState → List LLabel → Option LState
  | ls, [] => some ls
  | ls, l :: rest => match lstep ls l with
    | some n => lrun n rest
    | none => none

theorem lrun_append : ∀ (a b : List LLabel) (ls ls1 ls2), lrun ls a = some ls1 → lrun ls1 b = some ls2 →
    lrun ls (a ++ b) = some ls2 := by
  intro a
  induction a with
  | nil => intro b ls ls1 ls2 h1 h2; simp [lrun] at h1; subst h1; simpa using h2
  | cons x a ih =>
    intro b ls ls1 ls2 h1 h2
    simp only [lrun, List.cons_append] at h1 ⊢
    split at h1
    · exact ih _ _ _ _ h1 h2
    · simp at h1

def Proj (s : Qsbr.State) (ls : LState) : Prop :=
  ls.upc = s.upc ∧ ls.gp = s.gp ∧ (∀ j, s.reg j = decide (j ∈ ls.reg)) ∧ (∀ j, s.inp j = decide (j ∈ ls.inp))

def Guard (c : Qsbr.Cfg) (s : Qsbr.State) : LLabel → Prop
  | .envReg i => i < c.n ∧ s.reg i = false ∧ s.rpc i = .out ∧ s.lctr i = 0
  | .envUnreg i => i < c.n ∧ s.reg i = true ∧ s.rpc i = .out ∧ s.lctr i = 0
  | .uInc t _ => (t = true → s.xset = false) ∧ (∀ j, s.reg j = true → j < c.n)
  | .uEmpty t => t = true → s.xset = false
  | .uScan j w => j < c.n ∧ w = s.mctr j
  | .uEnd => True

def Obs (s : Qsbr.State) : LLabel → Prop
  | .uScan j w => w = s.mctr j
  | .uInc _ g => g = s.gp + 1
  | _ => True

macro "qproj_tac" : tactic =>
  `(tactic| (simp only [Proj]
             refine ⟨by simp_all, by simp_all, ?_, ?_⟩ <;> intro k <;> (try simp only [upd]) <;>
               (try split) <;> (try simp_all [mem_rm]) <;> (try grind) <;>
               (try (simp only [upd]; split <;> simp_all))))

theorem proj_enabled (c : Qsbr.Cfg) (s : Qsbr.State) (ls ls' : LState) (l : LLabel)
    (hp : Proj s ls) (hl : lstep ls l = some ls') (hg : Guard c s l) :
    ∃ s', Qsbr.step c s l.toL2 = some s' ∧ Proj s' ls' := by
  obtain ⟨h1, h2, h3, h4⟩ := hp
  cases l <;> simp only [lstep] at hl <;> (try split at hl) <;>
    first
    | (simp at hl; done)
    | (simp only [Option.some.injEq] at hl; subst hl
       simp only [Guard] at hg
       simp only [LLabel.toL2, Qsbr.step]
       split
       · exact ⟨_, rfl, by qproj_tac⟩
       · rename_i hn; exfalso; apply hn; clear hn
         first
         | (rename_i hh; obtain ⟨k, hk⟩ := exists_mem_of_ne_nil _ hh.2.1
            exact ⟨by simp_all, hg.1, k, hg.2 k (by simp_all), by simp_all⟩)
         | (simp_all; done)
         | (simp_all; grind))

theorem proj_frame (c : Qsbr.Cfg) (s s' : Qsbr.State) (ls : LState) (l : Qsbr.Label)
    (hp : Proj s ls) (st : Qsbr.step c s l = some s') (ho : owned l = false) : Proj s' ls := by
  cases l <;> simp only [owned] at ho <;> (try (exact absurd ho (by decide))) <;>
    simp only [Qsbr.step] at st <;> (repeat' split at st) <;>
    first
    | (simp at st; done)
    | (simp only [Option.some.injEq] at st; subst st; exact hp)

theorem proj_step (c : Qsbr.Cfg) (s s' : Qsbr.State) (ls : LState) (l : LLabel)
    (hp : Proj s ls) (st : Qsbr.step c s l.toL2 = some s') (ho : Obs s l)
    (hwf : ∀ j, (s.reg j = true ∨ s.inp j = true) → j < c.n) :
    ∃ ls', lstep ls l = some ls' ∧ Proj s' ls' := by
  obtain ⟨h1, h2, h3, h4⟩ := hp
  cases l <;> simp only [LLabel.toL2, Qsbr.step] at st <;> (try split at st) <;>
    first
    | (simp at st; done)
    | (simp only [Option.some.injEq] at st; subst st
       simp only [Obs] at ho
       simp only [lstep])
  case envReg => exact ⟨_, rfl, by qproj_tac⟩
  case envUnreg => exact ⟨_, rfl, by qproj_tac⟩
  case uInc hh =>
    obtain ⟨hh1, hh2, i, hh3, hh4⟩ := hh
    rw [if_pos ⟨by simp_all, by intro hnil; simp_all, by simp_all⟩]
    exact ⟨_, rfl, by qproj_tac⟩
  case uEmpty hh =>
    rw [if_pos ⟨by simp_all, eq_nil_of_forall _ _ c.n h3 (fun j hj => hwf j (by simp [hj])) hh.2.2⟩]
    exact ⟨_, rfl, by qproj_tac⟩
  case uEnd hh =>
    rw [if_pos ⟨by simp_all, eq_nil_of_forall _ _ c.n h4 (fun j hj => hwf j (by simp [hj])) hh.2⟩]
    exact ⟨_, rfl, by qproj_tac⟩
  all_goals
    (rw [if_pos (by first | (simp_all; done) | (simp_all; grind))]
     exact ⟨_, rfl, by qproj_tac⟩)

end UrcuVerif.Src.SyncQ
