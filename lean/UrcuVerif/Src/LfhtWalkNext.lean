import UrcuVerif.Src.LfhtWalk
/-!
# `cds_lfht_next`, `cds_lfht_first` ⊑ thread-local projection of L2 (`LfhtWalkLocal.lean`)
-/
namespace UrcuVerif.Src.LfhtWR
open UrcuVerif UrcuVerif.Src UrcuVerif.Lfht.Conc UrcuVerif.Src.LfhtW UrcuVerif.Src.LfhtR

def nxBody : Stmt := match firstLoop Gen.Src.«lfht.cds_lfht_next» with | some b => b | none => .skip
def nxPost : Stmt := seqTail 3 Gen.Src.«lfht.cds_lfht_next»

theorem nx_post (fuel : Nat) (rev : Nat → Nat) (priv0 : Loc → Option Val) (it : Nat)
    (env : Env) (inp : List Val) (ls : LState) (r : Except String Out)
    (hE : exec fuel nxPost env inp = r) (hR : WalkR rev priv0 it .brk env inp ls) :
    ∃ o, r = .ok o ∧ ∃ ls', lr rev ls o.events = some ls' ∧ WalkDone it o ls' := by
  subst hE
  obtain ⟨hpr, hit, hA | ⟨n, hn0, hnode, hnext, hpc, hcur, hpend, hwk, hO⟩⟩ := hR
  · obtain ⟨hnode, hnext, x0, hwk, rfl⟩ := hA
    lexec [nxPost, seqTail, Gen.Src.«lfht.cds_lfht_next»]
    refine ⟨_, lr_nil _ _, .inr (.inr ⟨0, {}, rfl, ?_⟩)⟩
    simp [ofPair, lwalkRet_plain _ _ _ hwk, encW, flagsOf]
  · rcases ls with ⟨x, pend, out⟩
    dsimp only at hnext hpc hcur hpend hwk; subst hpend; subst hcur
    cases inp with
    | nil =>
      lexec [nxPost, seqTail, Gen.Src.«lfht.cds_lfht_next»]
      exact ⟨_, lr_nil _ _, .inl rfl⟩
    | cons v rest =>
      obtain ⟨l, hl, -⟩ := hO (by simp [active, hpc])
      simp only [obsLabel, hpc] at hl
      cases hd : decW v with
      | none => simp [hd] at hl
      | some w =>
        have hv := encW_of_decW hd; subst hv
        simp only [decW_encW, Option.bind] at hl
        split at hl <;> cases hl
        rename_i hb
        lexec [nxPost, seqTail, Gen.Src.«lfht.cds_lfht_next», call_is_bucket, pureCall, bind1]
        simp [lr, lrun, absEv, lstep, hpc, ofPair, lwalkRet_plain _ _ _ hwk, WalkDone]
        exact ⟨_, _, ⟨rfl, rfl⟩, rfl, rfl, (encP_pos hn0).symm, rfl⟩

/-- invariant at the head of the loop of `cds_lfht_next` -/
def WalkIN (rev : Nat → Nat) (priv0 : Loc → Option Val) (it : Nat) (env : Env) (inp : List Val) (ls : LState) : Prop :=
  env.priv = priv0 ∧ env.vars "iter" = some (.ptr (.obj it)) ∧
    ∃ n x0, env.vars "node" = some (encP n) ∧ x0.wk = .next ∧ ls = ofPair (lwalkPos rev x0 n) ∧ OracleOk rev ls inp

theorem nx_body (fuel : Nat) (rev : Nat → Nat) (priv0 : Loc → Option Val) (it : Nat)
    (env : Env) (inp : List Val) (ls : LState) (hI : WalkIN rev priv0 it env inp ls) :
    ∃ o, exec fuel nxBody env inp = .ok o ∧ ∃ ls', lr rev ls o.events = some ls' ∧
      (if o.ctl.goesOn then WalkIN rev priv0 it o.env o.inp ls' else WalkR rev priv0 it o.ctl o.env o.inp ls') := by
  obtain ⟨hpr, hit, n, x0, hnode, hwk, rfl, hO⟩ := hI
  have hwk' : x0.wk ≠ .dupAdd := by rw [hwk]; decide
  by_cases hn : n = 0
  · lexec [nxBody, firstLoop, Gen.Src.«lfht.cds_lfht_next», call_is_end, pureCall, bind1]
    refine ⟨_, lr_nil _ _, ?_⟩
    simp [Ctl.goesOn, WalkR, hit]
    exact ⟨x0, hwk', by simp [lwalkPos, hn]⟩
  · obtain ⟨x, hx⟩ : ∃ x : Thr, x = { x0 with cur := n, pc := .wNext } := ⟨_, rfl⟩
    have hpos : lwalkPos rev x0 n = (x, .unit) := by
      rw [hx]; simp [lwalkPos, hn, hwk]
    have hxpc : x.pc = .wNext := by rw [hx]
    have hxcur : x.cur = n := by rw [hx]
    have hxwk : x.wk = .next := by rw [hx]; exact hwk
    rw [hpos] at hO ⊢
    clear hpos hx hwk hwk' x0
    cases inp with
    | nil =>
      lexec [nxBody, firstLoop, Gen.Src.«lfht.cds_lfht_next», call_is_end, pureCall, bind1, encP_pos hn]
      exact ⟨_, lr_nil _ _, by simp [Ctl.goesOn, WalkR]⟩
    | cons v rest =>
      obtain ⟨l, hl, hrest⟩ := hO (by simp [active, ofPair, hxpc])
      simp only [obsLabel, ofPair, hxpc] at hl
      cases hd : decW v with
      | none => simp [hd] at hl
      | some w =>
        have hv := encW_of_decW hd; subst hv
        simp only [decW_encW, Option.map, hxcur] at hl
        cases hl
        have hnm : needsMatch rev x w = false := by simp [needsMatch, hxwk]
        by_cases hf : w.rem = false ∧ w.bkt = false
        · have hfn : foundNoMatch x w = true := by simp [foundNoMatch, hxwk, hf.1, hf.2]
          have hs1 : lstep rev (ofPair (x, .unit)) (.ldNext n w 1) =
              some { x := { x with wnx := w, pc := .wAssert }, pend := .none, out := .unit } := by
            simp [lstep, ofPair, hxpc, hxcur, hnm, hfn]
          have hO1 := hrest _ hs1
          have hr := hf.1; have hb := hf.2
          lexec [nxBody, firstLoop, Gen.Src.«lfht.cds_lfht_next», call_is_end, call_clear_flag, call_is_removed,
            call_is_bucket, pureCall, bind1, encP_pos hn]
          refine ⟨{ x := { x with wnx := w, pc := .wAssert }, pend := .none, out := .unit },
            by simp [lr, lrun, absEv, hs1], ?_⟩
          simp only [Ctl.goesOn, WalkR]
          refine ⟨by simp [hpr], by simp [hit], .inr ⟨n, hn, by simp [hnode, encP_pos hn], by simp, ?_, ?_, ?_, ?_, hO1⟩⟩
          · trivial
          · exact hxcur
          · trivial
          · simp [hxwk]
        · have hfn : foundNoMatch x w = false := by
            simp only [foundNoMatch, hxwk]
            cases hr : w.rem <;> cases hb : w.bkt <;> simp_all
          have hs1 : lstep rev (ofPair (x, .unit)) (.ldNext n w 1) =
              some (ofPair (lwalkPos rev { x with wnx := w } w.ptr)) := by
            simp [lstep, ofPair, hxpc, hxcur, hnm, hfn]
          have hO1 := hrest _ hs1
          have hfin : ∀ env' : Env, env'.priv = priv0 → env'.vars "iter" = some (.ptr (.obj it)) →
              env'.vars "node" = some (encP w.ptr) →
              ∃ ls', lr rev (ofPair (x, .unit)) [Event.ld ((Loc.obj n).field "next") (encW w) 1] = some ls' ∧
                WalkIN rev priv0 it env' rest ls' := by
            intro env' h1 h2 h5
            exact ⟨_, by simp [lr, lrun, absEv, hs1], h1, h2, w.ptr, { x with wnx := w }, h5, hxwk, rfl, hO1⟩
          by_cases hr : w.rem = true <;> by_cases hb : w.bkt = true <;>
            (try (exfalso; exact hf ⟨by simpa using hr, by simpa using hb⟩)) <;>
            lexec [nxBody, firstLoop, Gen.Src.«lfht.cds_lfht_next», call_is_end, call_clear_flag, call_is_removed,
              call_is_bucket, pureCall, bind1, encP_pos hn] <;>
            (refine hfin _ ?_ ?_ ?_ <;> first | rfl | simp [hpr, hit])

theorem nx_loop (fuel : Nat) (rev : Nat → Nat) (priv0 : Loc → Option Val) (it : Nat)
    (env : Env) (inp : List Val) (ls : LState) (r : Except String Out)
    (hE : iterate (exec fuel nxBody) fuel env inp [] = r) (hI : WalkIN rev priv0 it env inp ls) :
    ∃ out, r = .ok out ∧ ∃ ls', lr rev ls out.events = some ls' ∧
      (out.ctl = .fuel ∨ ∃ c, c.goesOn = false ∧ WalkR rev priv0 it c out.env out.inp ls' ∧ out.ctl = c.afterLoop) := by
  obtain ⟨out, hout, evs, ls', hev, hl, hfin⟩ :=
    iterate_inv (lr rev) (lr_nil rev) (lr_append rev) (exec fuel nxBody) (WalkIN rev priv0 it)
      (WalkR rev priv0 it) (nx_body fuel rev priv0 it) fuel env inp ls [] hI
  refine ⟨out, by rw [← hE, hout], ls', ?_, hfin⟩
  rw [hev]; simpa using hl

/-- **`cds_lfht_next(ht, iter)`**: `x0` = L2's record after `callNext` (`wk = next`; or after `ldFirst`, when called by
`cds_lfht_first`), `*iter` holds `next = wi`; L2's thread is where `walkPos … wi.ptr` put it -/
theorem next_exec (fuel : Nat) (rev : Nat → Nat) (env : Env) (inp : List Val) (x0 : Thr) (wi : W) (it : Nat)
    (r : Except String Out) (hE : exec fuel Gen.Src.«lfht.cds_lfht_next» env inp = r)
    (hiter : env.vars "iter" = some (.ptr (.obj it)))
    (hnx : env.priv (.field (.obj it) "next") = some (encW wi)) (hwk : x0.wk = .next)
    (hO : OracleOk rev (ofPair (lwalkPos rev x0 wi.ptr)) inp) :
    ∃ out, r = .ok out ∧ ∃ ls', lr rev (ofPair (lwalkPos rev x0 wi.ptr)) out.events = some ls' ∧ WalkDone it out ls' := by
  subst hE
  have hshape : Gen.Src.«lfht.cds_lfht_next» = .seq _ (.seq _ (.seq (.loop nxBody) nxPost)) := rfl
  rw [hshape]
  lexec [call_clear_flag, pureCall, bind1]
  generalize hE : iterate (exec fuel nxBody) fuel _ inp [] = r
  obtain ⟨o1, rfl, ls1, hl1, hfin⟩ := nx_loop fuel rev env.priv it _ inp (ofPair (lwalkPos rev x0 wi.ptr)) r hE
    ⟨rfl, by simp [hiter], wi.ptr, x0, by simp, hwk, rfl, hO⟩
  rcases o1 with ⟨ev1, env1, inp1, ctl1⟩
  rcases hfin with hf | ⟨c, hc, hR, hctl⟩
  · dsimp only at hf; subst hf
    exact ⟨_, rfl, ls1, hl1, .inr (.inl rfl)⟩
  · dsimp only at hctl hR hl1
    cases c <;> simp [Ctl.goesOn] at hc <;> simp only [Ctl.afterLoop] at hctl <;> subst hctl
    · dsimp only
      generalize hE2 : exec fuel nxPost env1 inp1 = r2
      obtain ⟨o2, rfl, ls2, hl2, hdone⟩ := nx_post fuel rev env.priv it env1 inp1 ls1 r2 hE2 hR
      rcases o2 with ⟨ev2, env2, inp2, ctl2⟩
      refine ⟨_, rfl, ls2, ?_, by simpa [WalkDone] using hdone⟩
      rw [lr_append]
      exact (congrArg (fun o => o.bind fun m => lr rev m ev2) hl1).trans hl2
    · simp [WalkR] at hR
    · exact ⟨_, rfl, ls1, hl1, .inl rfl⟩
    · simp [WalkR] at hR

/-- **`cds_lfht_first(ht, iter)`** from L2's state after `callFirst` (pc `fHead`, `wk = next`) -/
theorem first_exec (fuel : Nat) (rev : Nat → Nat) (env : Env) (inp : List Val) (x : Thr) (o0 : Lfht.Conc.Out)
    (ht it : Nat) (fp : Val)
    (hht : env.vars "ht" = some (.ptr (.obj ht))) (hiter : env.vars "iter" = some (.ptr (.obj it)))
    (hfp : env.priv (.field (.obj ht) "bucket_at") = some fp)
    (hpc : x.pc = .fHead) (hwk : x.wk = .next)
    (hO : OracleOk rev { x := x, pend := .none, out := o0 } inp) :
    ∃ out, exec fuel Gen.Src.«lfht.cds_lfht_first» env inp = .ok out ∧
      ∃ ls', lr rev { x := x, pend := .none, out := o0 } out.events = some ls' ∧ WalkDone it out ls' := by
  cases inp with
  | nil =>
    lexec [exec_call, Gen.Src.«lfht.cds_lfht_first», Gen.Src.«lfht.bucket_at»]
    exact ⟨_, lr_nil _ _, .inl rfl⟩
  | cons v1 rest =>
    obtain ⟨l, hl, hrest⟩ := hO (by simp [active, hpc])
    simp only [obsLabel, hpc] at hl
    cases v1 with
    | int _ => simp at hl
    | ptr lo =>
      cases lo with
      | obj b =>
        simp only [Option.ite_none_right_eq_some, Option.some.injEq] at hl
        obtain ⟨hb0, rfl⟩ := hl
        have hs1 : lstep rev { x := x, pend := .none, out := o0 } (.bktAt 0 b) =
            some { x := x, pend := .first b, out := o0 } := by simp [lstep, hpc]
        have hO1 := hrest _ hs1
        cases rest with
        | nil =>
          lexec [exec_call, Gen.Src.«lfht.cds_lfht_first», Gen.Src.«lfht.bucket_at»]
          simp [lr, lrun, absEv, hs1, WalkDone]
        | cons v2 rest =>
          obtain ⟨l, hl, hrest⟩ := hO1 (by simp [active])
          simp only [obsLabel] at hl
          cases hd : decW v2 with
          | none => simp [hd] at hl
          | some w =>
            have hv := encW_of_decW hd; subst hv
            simp only [decW_encW, Option.map] at hl
            cases hl
            have hs2 : lstep rev { x := x, pend := .first b, out := o0 } (.ldNext b w 1) =
                some (ofPair (lwalkPos rev { x with itx := w } w.ptr)) := by simp [lstep]
            have hO2 := hrest _ hs2
            have hlr2 : ∀ evs, lr rev { x := x, pend := .none, out := o0 }
                (Event.ext "(*bucket_at)" [fp, Val.ptr (Loc.obj ht), Val.int 0] (Val.ptr (Loc.obj b)) ::
                  Event.ld ((Loc.obj b).field "next") (encW w) 1 :: evs) =
                lr rev (ofPair (lwalkPos rev { x with itx := w } w.ptr)) evs := by
              intro evs; simp [lr, lrun, absEv, hs1, hs2]
            lexec [exec_call, Gen.Src.«lfht.cds_lfht_first», Gen.Src.«lfht.bucket_at»]
            generalize hE : exec fuel Gen.Src.«lfht.cds_lfht_next» _ rest = r
            obtain ⟨o1, rfl, ls1, hl1, hdone⟩ := next_exec fuel rev _ rest { x with itx := w } w it r hE
              (by simp [bindParams, hiter]) (by simp) (by simpa using hwk) hO2
            rcases o1 with ⟨ev1, env1, inp1, ctl1⟩
            rcases hdone with hb | hf | ⟨n, w', hc, hrest'⟩
            · dsimp only at hb; subst hb
              simp [hlr2, WalkDone]; exact ⟨ls1, hl1⟩
            · dsimp only at hf; subst hf
              simp [hlr2, WalkDone]; exact ⟨ls1, hl1⟩
            · dsimp only at hc hrest'; subst hc
              simp [hlr2, WalkDone]
              exact ⟨ls1, hl1, n, w', hrest'⟩
      | _ => simp at hl

end UrcuVerif.Src.LfhtWR
