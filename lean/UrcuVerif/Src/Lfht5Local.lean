import UrcuVerif.Src.Lfht3Add
import UrcuVerif.Src.Lfht5Walk
/-!
# Union of the insertion automaton (`LfhtA.lstep`) and the walk automaton (`LfhtW.lstep`)

`_cds_lfht_add` in the unique / replace modes leaves the insertion automaton at `ldNextA` (hand-off to the `dupAdd` walk,
pc `wNext`) and comes back at L2's `walkRet` (`aCas`, or the call returns).  The two frozen automata have their own state
and label types; the union steps on **events**: `LfhtA.lstep` on `LfhtAR.absEv e` if it accepts, else `LfhtW.lstep` on
`LfhtWR.absEv e`.  The two are active at disjoint pcs (`lstepA_none_of_W`), so every run of either is a run of the union
(`lrun_ofA`, `lrun_ofW`): `LfhtA.proj_step` / `LfhtW.proj_step` remain the projection lemmas.

`OracleU`: the oracle delivers, at every access, a value admissible for the component automaton that is active
(`LfhtWR.obsLabel` / `LfhtAR.obsLabel`).
-/
namespace UrcuVerif.Src.LfhtU
open UrcuVerif UrcuVerif.Src UrcuVerif.Lfht.Conc

structure LState where
  x : Thr
  pa : LfhtA.Pend := .none
  pw : LfhtW.Pend := .none
  out : Lfht.Conc.Out := .unit

def toA (ls : LState) : LfhtA.LState := ⟨ls.x, ls.pa, ls.out⟩
def toW (ls : LState) : LfhtW.LState := ⟨ls.x, ls.pw, ls.out⟩
def ofA (a : LfhtA.LState) : LState := ⟨a.x, a.pend, .none, a.out⟩
def ofW (w : LfhtW.LState) : LState := ⟨w.x, .none, w.pend, w.out⟩

def lstep (rev : Nat → Nat) (ls : LState) (e : Event) : Option LState :=
  match ls.pw with
  | .none =>
    match LfhtA.lstep rev (toA ls) (LfhtAR.absEv e) with
    | some a => some (ofA a)
    | none =>
      match ls.pa with
      | .none => (LfhtW.lstep rev (toW ls) (LfhtWR.absEv e)).map ofW
      | _ => none
  | _ => (LfhtW.lstep rev (toW ls) (LfhtWR.absEv e)).map ofW

def lrun (rev : Nat → Nat) : LState → List Event → Option LState
  | ls, [] => some ls
  | ls, e :: r => match lstep rev ls e with
    | some ls' => lrun rev ls' r
    | none => none

theorem lrun_nil (rev : Nat → Nat) (ls : LState) : lrun rev ls [] = some ls := rfl
theorem lrun_append (rev : Nat → Nat) (ls : LState) (a b : List Event) :
    lrun rev ls (a ++ b) = (lrun rev ls a).bind (fun m => lrun rev m b) := by
  induction a generalizing ls with
  | nil => rfl
  | cons l r ih => simp only [List.cons_append, lrun]; cases lstep rev ls l <;> simp [ih]

theorem lstep_ofA {rev : Nat → Nat} {a a' : LfhtA.LState} {e : Event}
    (h : LfhtA.lstep rev a (LfhtAR.absEv e) = some a') : lstep rev (ofA a) e = some (ofA a') := by
  rcases a with ⟨x, p, o⟩
  simp [lstep, ofA, toA, h]

theorem lrun_ofA {rev : Nat → Nat} : ∀ {evs : List Event} {a a' : LfhtA.LState},
    LfhtAR.lr rev a evs = some a' → lrun rev (ofA a) evs = some (ofA a') := by
  intro evs
  induction evs with
  | nil => intro a a' h; cases h; rfl
  | cons e r ih =>
    intro a a' h
    simp only [LfhtAR.lr, List.map_cons, LfhtA.lrun] at h
    cases hs : LfhtA.lstep rev a (LfhtAR.absEv e) with
    | none => simp [hs] at h
    | some m => rw [hs] at h; simp only [lrun, lstep_ofA hs]; exact ih h

/-- where the walk automaton moves (no group pending), the insertion automaton does not -/
theorem lstepA_none_of_W {rev : Nat → Nat} {w w' : LfhtW.LState} {l : LfhtW.LLabel} (la : LfhtA.LLabel)
    (h : LfhtW.lstep rev w l = some w') (hp : w.pend = .none) :
    LfhtA.lstep rev ⟨w.x, .none, w.out⟩ la = none := by
  rcases w with ⟨x, pend, out⟩
  dsimp only at hp; subst hp
  cases hpc : x.pc <;> simp [LfhtW.lstep, hpc] at h <;> simp [LfhtA.lstep, hpc]

theorem lstep_ofW {rev : Nat → Nat} {w w' : LfhtW.LState} {e : Event}
    (h : LfhtW.lstep rev w (LfhtWR.absEv e) = some w') : lstep rev (ofW w) e = some (ofW w') := by
  rcases w with ⟨x, pend, out⟩
  cases pend with
  | none =>
    have hn := lstepA_none_of_W (LfhtAR.absEv e) h rfl
    dsimp only at hn
    simp [lstep, ofW, toA, toW, hn, h]
  | _ => simp [lstep, ofW, toW, h]

theorem lrun_ofW {rev : Nat → Nat} : ∀ {evs : List Event} {w w' : LfhtW.LState},
    LfhtWR.lr rev w evs = some w' → lrun rev (ofW w) evs = some (ofW w') := by
  intro evs
  induction evs with
  | nil => intro a a' h; cases h; rfl
  | cons e r ih =>
    intro a a' h
    simp only [LfhtWR.lr, List.map_cons, LfhtW.lrun] at h
    cases hs : LfhtW.lstep rev a (LfhtWR.absEv e) with
    | none => simp [hs] at h
    | some m => rw [hs] at h; simp only [lrun, lstep_ofW hs]; exact ih h

/-- the oracle delivers, at every access, a well-typed value passing the source's assertions for the component automaton
that is active -/
def OracleU (rev : Nat → Nat) : LState → List Val → Prop
  | _, [] => True
  | ls, v :: rest =>
    (LfhtWR.active (toW ls) → ∃ l, LfhtWR.obsLabel (toW ls) v = some l ∧
        ∀ w', LfhtW.lstep rev (toW ls) l = some w' → OracleU rev (ofW w') rest) ∧
    (¬ LfhtWR.active (toW ls) → LfhtAR.active (toA ls) → ∃ l, LfhtAR.obsLabel rev (toA ls) v = some l ∧
        ∀ a', LfhtA.lstep rev (toA ls) l = some a' → OracleU rev (ofA a') rest)

/-- the continuation handed to the walk lemma -/
def KU (rev : Nat → Nat) (w : LfhtW.LState) (inp : List Val) : Prop := OracleU rev (ofW w) inp

theorem oracleK_of_U (rev : Nat → Nat) : ∀ (inp : List Val) (w : LfhtW.LState),
    OracleU rev (ofW w) inp → LfhtWR.OracleK (KU rev) rev w inp := by
  intro inp
  induction inp with
  | nil => intro w _ _; trivial
  | cons v rest ih =>
    intro w h
    refine ⟨fun _ => h, fun hact => ?_⟩
    have hw : toW (ofW w) = w := rfl
    obtain ⟨l, hl, hr⟩ := h.1 (hw ▸ hact)
    rw [hw] at hl hr
    exact ⟨l, hl, fun ls' hs => ih ls' (hr ls' hs)⟩

/-- use of the oracle in the insertion phase -/
theorem oracleU_A {rev : Nat → Nat} {x : Thr} {pa : LfhtA.Pend} {out : Lfht.Conc.Out} {v : Val} {rest : List Val}
    (h : OracleU rev ⟨x, pa, .none, out⟩ (v :: rest))
    (hw : x.pc ≠ .lSize ∧ x.pc ≠ .lHead ∧ x.pc ≠ .fHead ∧ x.pc ≠ .wNext ∧ x.pc ≠ .wAssert)
    (ha : LfhtAR.active ⟨x, pa, out⟩) :
    ∃ l, LfhtAR.obsLabel rev ⟨x, pa, out⟩ v = some l ∧
      ∀ a', LfhtA.lstep rev ⟨x, pa, out⟩ l = some a' → OracleU rev (ofA a') rest := by
  refine h.2 ?_ ha
  simp [LfhtWR.active, toW, hw]

end UrcuVerif.Src.LfhtU
